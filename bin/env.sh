# sourced by every script: one place for the Go / Elk environment
export VERIF_ROOT=/verif
export GOFLAGS=-mod=mod
export GOPROXY=off
export GOTOOLCHAIN=auto
unset GOSUMDB
export ELKPATH=/repo
export ELKWARN=0
export GOCACHE=${GOCACHE:-/root/.cache/go-build}
export CGO_ENABLED=0
