#!/bin/bash
# validates MANIFEST.json and every evidence file against the schemas
python3-vt - <<'PY'
import json,jsonschema,glob,sys
ok=True
try:
    jsonschema.validate(json.load(open('/verif/MANIFEST.json')), json.load(open('/root/.vp/MANIFEST.schema.json')))
except Exception as e:
    print("MANIFEST invalid:", e); ok=False
es=json.load(open('/root/.vp/EVIDENCE.schema.json'))
for f in sorted(glob.glob('/verif/evidence/*.json')):
    try:
        jsonschema.validate(json.load(open(f)), es)
    except Exception as e:
        print(f, "invalid:", str(e)[:300]); ok=False
print("valid" if ok else "INVALID")
PY
