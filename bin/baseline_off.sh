#!/bin/bash
# Runs the repository's own test suite with the verification guard OFF (no tags, no overlay), as in BASELINE.json.
source /verif/bin/env.sh
unset ELKWARN ELKPATH   # the repository suite expects default warning behaviour
cd /repo || exit 2
clean=0; git diff --quiet go.mod go.sum && clean=1
go test -mod=mod -json -vet=off -count=1 -timeout 25m ./...
rc=$?
[ $clean = 1 ] && git checkout -q go.mod go.sum
exit $rc
