#!/bin/bash
# seed_try.sh <PROP> <worktree-or-patch-dir> [tier] [other props...]: run a check against a seeded change without touching /repo
# (development aid; the change is applied through a build overlay that maps each changed file to the worktree's version).
prop=$1; wt=$2; tier=${3:-quick}
ov=/verif/.work/mut/seed-$prop.json
python3 - "$wt" "$ov" <<'PY'
import subprocess,sys,json,os
wt,ov=sys.argv[1],sys.argv[2]
files=[f for f in subprocess.check_output(["git","-C",wt,"diff","--name-only"],text=True).split() if not f.startswith("demo/")]
new=[f for f in subprocess.check_output(["git","-C",wt,"ls-files","--others","--exclude-standard"],text=True).split() if f.endswith(".go") and not f.startswith("demo/") and not f.endswith("_test.go")]
json.dump({"Replace":{"/repo/"+f: os.path.join(wt,f) for f in files+new}},open(ov,"w"))
print("overlay:",files+new)
PY
VERIF_OVERLAY=$ov timeout 3000 /verif/bin/check $prop --tier $tier 2>&1 | grep "^VIOLATION\|signature:\|^C[0-9][0-9] \|BUILD\|INFRA" | head -20
