#!/bin/bash
# Builds every registered check binary from files on disk only (offline) and warms the Go build cache.
# A check that is registered in MANIFEST.json must build; unregistered (work-in-progress) commands are best effort.
set -u
source /verif/bin/env.sh
cd /verif/harness || exit 1
mkdir -p bin /verif/.work /verif/evidence /verif/replays
cp /repo/go.sum go.sum 2>/dev/null
registered=$(jq -r '.checks[].property_id' /verif/MANIFEST.json | tr 'A-Z' 'a-z')
fail=0
build() {
  n=$1
  extra=""
  [ -f cmd/$n/BUILDFLAGS ] && extra=$(cat cmd/$n/BUILDFLAGS)
  [ -x /verif/bin/prebuild-$n ] && { /verif/bin/prebuild-$n || return 1; }
  go build $extra -o bin/$n ./cmd/$n
}
/verif/bin/build-racepass || { echo "setup: build of racepass failed" >&2; fail=1; }
for n in instr elkx $registered; do
  [ -d cmd/$n ] || continue
  build $n || { echo "setup: build of $n failed" >&2; fail=1; }
done
for d in cmd/*/; do
  n=$(basename $d)
  case " instr elkx $registered " in *" $n "*) continue;; esac
  build $n 2>/dev/null || echo "setup: (unregistered) $n does not build yet" >&2
done
exit $fail
