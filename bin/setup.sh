#!/bin/bash
# Builds every check binary from files on disk only (offline). Warm the Go build cache.
set -u
source /verif/bin/env.sh
cd /verif/harness || exit 1
mkdir -p bin /verif/.work /verif/evidence /verif/replays
cp /repo/go.sum go.sum 2>/dev/null
fail=0
for d in cmd/*/; do
  n=$(basename $d)
  extra=""
  [ -f $d/BUILDFLAGS ] && extra=$(cat $d/BUILDFLAGS)
  [ -x /verif/bin/prebuild-$n ] && /verif/bin/prebuild-$n
  go build $extra -o bin/$n ./cmd/$n || { echo "setup: build of $n failed" >&2; fail=1; }
done
exit $fail
