#!/usr/bin/env python3
"""apply_agent_patches.py <patchdir> <kf-file>... : git am the patches into /repo, then append the kf lines to
known_findings.jsonl with the `fixed:` shas rewritten to the new commits (matched in order)."""
import subprocess, sys, glob, re, os
pd = sys.argv[1]; kfs = sys.argv[2:]
patches = sorted(glob.glob(os.path.join(pd, "*.patch")))
before = subprocess.check_output(["git", "-C", "/repo", "rev-parse", "HEAD"], text=True).strip()
r = subprocess.run(["git", "-C", "/repo", "am", "-3"] + patches)
if r.returncode != 0:
    print("git am failed; run `git -C /repo am --abort`"); sys.exit(1)
shas = subprocess.check_output(["git", "-C", "/repo", "log", "--reverse", "--format=%h", before + "..HEAD"], text=True).split()
print("applied", len(shas), "commits")
fixed = []
known = []
for kf in kfs:
    for line in open(kf):
        line = line.rstrip("\n")
        if not line.strip(): continue
        if line.startswith("fixed:"): fixed.append(line)
        else: known.append(line)
if len(fixed) != len(shas):
    print("WARNING: %d fixed lines vs %d commits; shas not rewritten for the surplus" % (len(fixed), len(shas)))
out = []
for i, line in enumerate(fixed):
    if i < len(shas):
        line = re.sub(r"^(fixed: property=\S+ )\S+", lambda m: m.group(1) + shas[i], line)
    out.append(line)
with open("/verif/known_findings.jsonl", "a") as f:
    for l in out + known: f.write(l + "\n")
print("appended", len(out), "fixed and", len(known), "known lines")
