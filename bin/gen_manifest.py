#!/usr/bin/env python3
"""Generates /verif/MANIFEST.json from the table below (single source of truth for the registered checks)."""
import json, sys

ALL = ["C%02d" % i for i in range(1, 35)]

# id -> dict(engine, category, technique, text, note, design)
CHECKS = {}

def check(pid, engine, category, technique, text, note, design=None, thorough=True):
    CHECKS[pid] = dict(engine=engine, category=category, technique=technique, text=text, note=note, design=design or ("§5 " + pid), thorough=thorough)

check("C06", "E2 enum", "exploration",
      "bounded-exhaustive enumeration of operand pairs x operators x evaluation paths against math/big",
      "Every ordered pair of a boundary Int set (both sides of 2^31..2^128) x every Int operator x 3 Go API families x 4 source forms through the real checker+VM is evaluated and compared with math/big (truncated division), plus division identity, result normalisation/hash/equality against the canonical value and operand immutability. Exhaustive inside the stated alphabet; says nothing about integers outside it.",
      "math/big; the boundary set is representative of the small/big representation switch; bodies compiled one at a time")

check("C26", "E1 sched", "model_checking",
      "stateless schedule exploration of the real symbol table under a controlled scheduler (all interleavings, happens-before state caching; statement-level points with preemption bound) + brute-force linearizability",
      "The real value.SymbolTableStruct is driven by 2-3 scheduled threads over all operation-sequence assignments of the alphabet; every interleaving of its RWMutex operations is explored, then every schedule with <=2 (thorough 3) preemptions with a scheduling point before every statement of symbol_table.go; each complete call/return history is checked for linearizability against a sequential map and the final table for bijectivity.",
      "Go memory-model effects below statement granularity are not modelled (a free-running -race pass would be needed for data races proper); alphabet: 2 names, ids 0-1")

check("C16", "E1 sched", "model_checking",
      "stateless schedule exploration (preemption-bounded DFS) of the real promise / thread-pool / AWAIT code under a controlled scheduler injected by build overlay",
      "Six async Elk scenarios x pool sizes 1-3 x queue capacities 1-8 are executed on the real VM with every Mutex/WaitGroup/channel/goroutine operation of vm/promise.go, vm/thread_pool.go and vm/thread.go owned by the scheduler; all schedules with <=2 (thorough 3) preemptions at synchronisation points, and <=1 (thorough 2) with an additional point before every statement of promise.go/thread_pool.go, are enumerated; deadlock (lost wake-up or capacity), host panic and any deviation of the stdout multiset from the sequential expectation are violations.",
      "interpreter code between scheduling points runs atomically; timers not modelled; per-case wall-clock budget can end a configuration early (reported as exhaustive:false with the configurations concerned)")

check("C25", "E1 sched", "model_checking",
      "stateless schedule exploration (preemption-bounded DFS, ready select cases enumerated) of Elk programs using go/Channel/Mutex/RWMutex/WaitGroup/Once/select on the real VM under a controlled scheduler injected by build overlay",
      "12 multi-threaded Elk scenarios run on the real VM with every channel, lock, wait-group, once, goroutine-start and select operation of value/channel_of_value.go, value/{mutex,rwmutex,wait_group,once}.go, vm/once.go and vm/thread.go owned by the scheduler; all schedules with <=2 (thorough 3) preemptions are enumerated and each is checked for exactly-once FIFO delivery, select readiness, close semantics, mutual exclusion, run-once, absence of deadlock and of host panics/fatals; 10 single-threaded misuse sequences must raise Elk errors.",
      "interpreter code between scheduling points runs atomically; unbuffered channels are modelled by verifrt's rendezvous (the real channel is not used for them); timers not modelled")

check("C11", "E1 sched", "model_checking",
      "stateless schedule exploration (preemption-bounded DFS) of the parallel method/macro body checking phase of the real type checker under a controlled scheduler injected by build overlay",
      "checker.CheckSource runs under the scheduler for 9 programs with colliding method bodies x MethodCheckConcurrencyLimit {1,2,3,100}; every schedule of concurrent.Foreach's goroutines, semaphore, the diagnostics mutex and concurrent containers (plus statement-level points in diagnostic.go/slice.go/map.go) with <=1 (thorough 2) preemptions is executed on the real checker and compiler, and the sorted diagnostics and the compiled program's behaviour must equal the sequential outcome.",
      "only the body-checking phase branches; unsynchronised accesses between points (e.g. the Method.Body write/read race seen by go test -race in the design round) are invisible to a cooperative scheduler; per-case wall-clock budget may end a configuration early (exhaustive:false)")

check("C33", "E2 enum", "exploration",
      "bounded-exhaustive enumeration of (non-terminating program shape x cancellation poll index) with a poll-counting context; blocking shapes additionally cancelled while blocked",
      "20 non-terminating shapes (every loop kind, loops in methods/closures/generators/do-finally/do-catch, recursion, tail recursion) are compiled with abort checks and run with an aborter whose context closes at exactly the k-th poll, for every k in 1..40 (thorough 1..200); 7 blocking shapes (channel pop/push/for-in/select) are cancelled at poll k and by another goroutine while blocked. The run must end with ExecutionAbortedError at that poll; running on (watchdog), hanging or panicking is a violation.",
      "cancellation time is discretised to abort polls; a hang is decided by a 40 s watchdog and a 120 s solo re-run; await of a never-settling promise is not in the space (no terminating driver without timers)")

NOT_YET = "check not built yet in this round (planned, see DESIGN.md section 5)"
NA = {}

def main():
    checks = []
    for pid in ALL:
        if pid not in CHECKS:
            continue
        c = CHECKS[pid]
        e = {
            "property_id": pid,
            "quick_cmd": "bin/check %s --tier quick" % pid,
            "evidence_file": "/verif/evidence/%s.json" % pid,
            "replay_cmd_template": "bin/check %s --replay {path}" % pid,
            "engine": c["engine"],
            "level_claimed": {"category": c["category"], "text": c["text"], "design_ref": c["design"]},
            "level_note": c["note"],
            "technique": c["technique"],
        }
        if c["thorough"]:
            e["thorough_cmd"] = "bin/check %s --tier thorough" % pid
        checks.append(e)
    na = [{"property_id": p, "reason": NA.get(p, NOT_YET)} for p in ALL if p not in CHECKS]
    m = {
        "version": 1,
        "setup_cmd": "bin/setup.sh",
        "hooks": {
            "guard": "verif",
            "enable": "no hook commits in /repo: instrumentation is generated from /repo's working tree into a go build -overlay by harness/cmd/instr (E1 checks) and built with -tags verif; all other checks compile /repo unmodified through a replace directive",
            "baseline_off_cmd": "bin/baseline_off.sh",
            "source_commits": [],
            "add_only": True,
        },
        "engines": [
            {"name": "E2 enum", "path": "harness/engine", "kind_free_text": "bounded-exhaustive enumeration of inputs/programs in worker subprocesses with crash journal; reference-model and differential oracles",
             "serves_properties": [p for p in ALL if p in CHECKS and CHECKS[p]["engine"].startswith("E2")]},
            {"name": "E3 bfs", "path": "harness/engine", "kind_free_text": "explicit-state breadth-first search over operation histories on real objects, full-state canonical keys",
             "serves_properties": [p for p in ALL if p in CHECKS and CHECKS[p]["engine"].startswith("E3")]},
            {"name": "E1 sched", "path": "harness/sched + overlay-src/verifrt", "kind_free_text": "controlled scheduler injected by build overlay; stateless DFS over schedules with preemption bounding",
             "serves_properties": [p for p in ALL if p in CHECKS and CHECKS[p]["engine"].startswith("E1")]},
            {"name": "E4 bcverify", "path": "harness/cmd/c29", "kind_free_text": "abstract state exploration (pc, stack depth) of compiled bytecode",
             "serves_properties": [p for p in ALL if p in CHECKS and CHECKS[p]["engine"].startswith("E4")]},
        ],
        "checks": checks,
        "not_applicable": na,
        "notes": "Exit codes: 0 held, 1 VIOLATION, 2 infrastructure/build error (no verdict). Known findings: known_findings.jsonl.",
    }
    json.dump(m, open("/verif/MANIFEST.json", "w"), indent=1)
    print("wrote MANIFEST.json: %d checks, %d not_applicable" % (len(checks), len(na)))

if __name__ == "__main__":
    main()
