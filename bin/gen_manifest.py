#!/usr/bin/env python3
"""Generates /verif/MANIFEST.json from the table below (single source of truth for the registered checks)."""
import json, sys

ALL = ["C%02d" % i for i in range(1, 35)]

# id -> dict(engine, category, technique, text, note, design)
CHECKS = {}

def check(pid, engine, category, technique, text, note, design=None, thorough=True):
    CHECKS[pid] = dict(engine=engine, category=category, technique=technique, text=text, note=note, design=design or ("§5 " + pid), thorough=thorough)

check("C01", "E2 enum", "exploration",
      "bounded-exhaustive enumeration of program families (binding kind x execution context x use; every non-blocking misuse sequence of the sync primitives up to a length bound; crash regression corpus; mutation of a collection while it is iterated) in crash-journalled worker processes",
      "324 binding/context/use programs (top level, method, defer, do-finally, closure, generator, async, nested async, go thread), every single-threaded misuse sequence of length <=3 (thorough 5) over Mutex/RWMutex/WaitGroup/Once/Channel operations that a blocking model says cannot block, one minimal program per crash found so far, and 1 040 programs mutating a collection (9 kinds incl. unboxed lists, sets, map) at step 1..5 of a for-in / explicit-iterator loop with up to 15 mutation sequences, run on the real checker+VM; any Go panic, fatal error or dead worker is a violation. Every other check additionally reports host crashes of its own program space under its own property.",
      "stack exhaustion excluded by construction; narrowing/invalidation family is C02's, std calls C28's, multi-threaded primitives C25's")

check("C06", "E2 enum", "exploration",
      "bounded-exhaustive enumeration of operand pairs x operators x evaluation paths against math/big",
      "Every ordered pair of a boundary Int set (both sides of 2^31..2^128) x every Int operator x 3 Go API families x 4 source forms through the real checker+VM is evaluated and compared with math/big (truncated division), plus division identity, result normalisation/hash/equality against the canonical value and operand immutability. Exhaustive inside the stated alphabet; says nothing about integers outside it.",
      "math/big; the boundary set is representative of the small/big representation switch; bodies compiled one at a time")

check("C26", "E1 sched", "model_checking",
      "stateless schedule exploration of the real symbol table under a controlled scheduler (all interleavings, happens-before state caching; statement-level points with preemption bound) + brute-force linearizability",
      "The real value.SymbolTableStruct is driven by 2-3 scheduled threads over all operation-sequence assignments of the alphabet; every interleaving of its RWMutex operations is explored, then every schedule with <=2 (thorough 3) preemptions with a scheduling point before every statement of symbol_table.go; each complete call/return history is checked for linearizability against a sequential map and the final table for bijectivity.",
      "Go memory-model effects below statement granularity are not modelled by the exploration; they are covered by the supplementary free-running pass of the same configurations under Go's race detector (case racepass/symtab, sampling, decides nothing alone); alphabet: 2 names, ids 0-1")

check("C16", "E1 sched", "model_checking",
      "stateless schedule exploration (preemption-bounded DFS) of the real promise / thread-pool / AWAIT code under a controlled scheduler injected by build overlay",
      "Six async Elk scenarios x pool sizes 1-3 x queue capacities 1-8 are executed on the real VM with every Mutex/WaitGroup/channel/goroutine operation of vm/promise.go, vm/thread_pool.go and vm/thread.go owned by the scheduler; all schedules with <=2 (thorough 3) preemptions at synchronisation points, and <=1 (thorough 2) with an additional point before every statement of promise.go/thread_pool.go, are enumerated; deadlock (lost wake-up or capacity), host panic and any deviation of the stdout multiset from the sequential expectation are violations.",
      "interpreter code between scheduling points runs atomically; timers not modelled; per-case wall-clock budget can end a configuration early (reported as exhaustive:false with the configurations concerned); a supplementary free-running pass of the same scenarios under Go's race detector (case racepass/scenarios) reports accesses racing between scheduling points; it is sampling and decides nothing alone")

check("C25", "E1 sched", "model_checking",
      "stateless schedule exploration (preemption-bounded DFS, ready select cases enumerated) of Elk programs using go/Channel/Mutex/RWMutex/WaitGroup/Once/select on the real VM under a controlled scheduler injected by build overlay",
      "15 multi-threaded Elk scenarios run on the real VM with every channel, lock, wait-group, once, goroutine-start and select operation of value/channel_of_value.go, value/{mutex,rwmutex,wait_group,once}.go, vm/once.go and vm/thread.go owned by the scheduler; all schedules with <=3 (thorough 4) preemptions are enumerated and each is checked for exactly-once FIFO delivery, select readiness, close semantics, mutual exclusion, run-once, absence of deadlock and of host panics/fatals; 14 single-threaded misuse sequences (also through a channel's read-only / write-only views) must raise Elk errors.",
      "interpreter code between scheduling points runs atomically; unbuffered channels are modelled by verifrt's rendezvous (the real channel is not used for them); timers not modelled; a supplementary free-running pass of the same scenarios under Go's race detector (case racepass/scenarios) reports accesses racing between scheduling points; it is sampling and decides nothing alone")

check("C11", "E1 sched", "model_checking",
      "stateless schedule exploration (preemption-bounded DFS) of the parallel method/macro body checking phase of the real type checker under a controlled scheduler injected by build overlay",
      "checker.CheckSource runs under the scheduler for 9 programs with colliding method bodies x MethodCheckConcurrencyLimit {1,2,3,100}; every schedule of concurrent.Foreach's goroutines, semaphore, the diagnostics mutex and concurrent containers (plus statement-level points in diagnostic.go/slice.go/map.go) with <=1 (thorough 2) preemptions is executed on the real checker and compiler, and the sorted diagnostics and the compiled program's behaviour must equal the sequential outcome.",
      "only the body-checking phase branches; unsynchronised accesses between points are invisible to a cooperative scheduler: the clause 'free of data races' is covered by the supplementary free-running pass of the same programs under Go's race detector (case racepass/programs; it found and led to the repair of three races, see known_findings.jsonl); per-case wall-clock budget may end a configuration early (exhaustive:false)")

check("C33", "E2 enum", "exploration",
      "bounded-exhaustive enumeration of (non-terminating program shape x cancellation poll index) with a poll-counting context; blocking shapes additionally cancelled while blocked",
      "20 non-terminating shapes (every loop kind, loops in methods/closures/generators/do-finally/do-catch, recursion, tail recursion) are compiled with abort checks and run with an aborter whose context closes at exactly the k-th poll, for every k in 1..40 (thorough 1..200); 7 blocking shapes (channel pop/push/for-in/select) are cancelled at poll k and by another goroutine while blocked. The run must end with ExecutionAbortedError at that poll; running on (watchdog), hanging or panicking is a violation.",
      "cancellation time is discretised to abort polls; a hang is decided by a 40 s watchdog and a 120 s solo re-run; await of a never-settling promise is not in the space (no terminating driver without timers)")

check("C07", "E2 enum", "exploration",
      "exhaustive enumeration of all 8-bit operand pairs and boundary pairs of wider types x every operator x evaluation paths against native Go arithmetic",
      "All 65 536 Int8/UInt8 pairs per operator, all pairs of 28 (thorough 40) boundary patterns for the 16/32/64-bit types, every shift operator with every AnyInt right-operand type and amount class, and all pairs of 39 boundary floats per float type are evaluated through value.XVal, the native methods and literal/typed/method forms on the VM and compared bit-exactly with Go's sized arithmetic; an accepted operand raising TypeError, a Go panic or a non-terminating ** is a violation.",
      "16/32/64-bit pairs are boundary sets; float % and ** are compared with math.Mod/math.Pow; the ** termination probe uses a CPU-time limit in a child process")

check("C08", "E2 enum", "exploration",
      "bounded-exhaustive differential enumeration: every operator/method of 22 value classes x operand kinds x values compiled in up to 7 evaluation forms whose results must agree",
      "The operation list is derived from elk's own type environment; each (operation, operand kinds) tuple is compiled as constant-folded literal, typed opcode, union-typed generic opcode, interface-typed dynamic call, supertype call and explicit method call (forms confirmed distinct by disassembly) and run on the full product of 4-10 values per kind; all forms must print the same value or raise the same error class.",
      "error messages are not compared; methods with closure/rest parameters and HashMap/HashSet/Regex receivers are outside the space")

check("C15", "E2 enum", "exploration",
      "bounded-exhaustive differential enumeration: function bodies x arguments x wrappers {plain, generator, async, nested async} x pool sizes; generator yield sequences against a reference",
      "23 body templates x arguments 0..3 are compiled as plain method, generator, async+await_sync and async awaited from async, the async forms on pools (1,2),(2,2),(4,256); every wrapper must print the same trace and produce the same value or thrown value as the plain method; 5 generator bodies with yields in loops/do-finally are compared with a reference sequence.",
      "the any-interleaving clause is explored exhaustively by C16's scenarios, not here; bodies come from a fixed template family")

check("C18", "E2 enum", "exploration",
      "exhaustive enumeration of all ordered pairs (and all numeric triples) of a 175-250 value set over 40 classes, checking the equality/hash/order laws on the implementation's own answers",
      "All ordered pairs of 175 (thorough 250) values of every built-in kind, each also against an independently constructed copy, are checked for == symmetry/reflexivity and a == b => equal hash; all pairs of non-NaN numbers for mutual consistency of < <= > >= <=> =~; all ordered numeric triples for transitivity of <, <= and =~; a VM pass repeats the numeric pairs with statically typed operands.",
      "ordering laws only for numbers, as the statement says; exact arithmetic is used only to name the deviating operator")

check("C19", "E2 enum", "exploration",
      "bounded-exhaustive enumeration of values of every literal-expressible type; inspect -> evaluate -> vm.Equal round trip; integer literals and String#to_int against math/big",
      "All chars U+0000-02FF plus boundaries, all strings and symbols of <=2 (thorough 3) units over 49 units including invalid UTF-8, 64 floats x 4 float types, fixed-width boundaries, regexes x 64 flag sets, 8 range kinds x 9 endpoint types, collections to depth 2 are inspected, evaluated by the real checker+VM and compared with vm.Equal; integer literals in bases 2-16 with every suffix and ~2.8k String#to_int cases are compared with math/big.",
      "values are built through the Go API; Regex compared by source+flags (no structural == exists); mutable collections are not used as set elements/map keys")

check("C20", "E2 enum", "exploration",
      "exhaustive enumeration of all strings of <=3 elements over a 14-element alphabet (mixed ASCII, multi-byte, combining, invalid bytes) x indices/widths against utf8/uniseg models",
      "Every string of <=3 elements (thorough: 19-element alphabet and 4-element strings) is run through length/byte_count/grapheme_count, the three iterators, char_at/byte_at/grapheme_at for indices -5..5, rjust/ljust for widths 0..6, *, case mapping, + - <=> and comparisons, via the Go API and via Elk calls, against a Go model (unicode/utf8, an independent UAX#29 segmenter cross-checked with uniseg).",
      "case mapping of invalid bytes and the order of invalid strings are only checked for internal consistency")

check("C21", "E2 enum", "exploration",
      "bounded-exhaustive enumeration of regex syntax trees (<=4, thorough <=5 nodes) x flag sets x all subjects of length <=3 against a reference matcher written over the Elk regex AST",
      "20 580 (thorough 234 465) distinct pattern texts, scoped-flag, class and composition families x 16 (thorough 64) flag sets x 886 subject strings: value.CompileRegex+MatchesString must accept exactly the subjects the reference matcher (Elk semantics, extended mode resolved on the text) accepts, or report a compile error; the reference is self-validated against Go regexp where the syntaxes coincide.",
      "\\b, named classes and \\Q..\\E are outside the enumerated space; U (ungreedy) is unobservable through a boolean match")

check("C22", "E2 enum", "exploration",
      "exhaustive enumeration of ~1130 boundary dates x spans, all ordered date pairs for diff, format round trips, against an independent civil-calendar model",
      "Dates over 21 boundary years x all months x days {1,28,29,30,31}, day/month/year spans up to the full range, all 1.28 M ordered pairs for a + (b - a) == b, to_string and 17 strftime formats round trips, DateTime with 3 zone offsets, span to_string round trips and a TZ child process for DST; oracle: Hinnant's days_from_civil in int64; out-of-range must raise, never wrap.",
      "month overflow clamping is accepted either way where the headers are silent; %c %+ %Z %s are not tested")

check("C23", "E2 enum", "exploration",
      "bounded-exhaustive enumeration of 8 range kinds x bound families x probes and of 11 iterable kinds x element lists (len <=3, thorough <=5) x 27 operations x arguments against a Go slice model",
      "Range contains/iteration in 5 forms for Int, Float, Int bounds around the small/big switch (2^63-2, 2^63-1, 2^63+1), Char and fixed-width bounds; every list over {1,2,3,-1} as ArrayList, tuple, set, map, record, iterators, generator and closed channel x the 27 Std::Iterable operations with n in {-1,0,1,2,5}, 4 predicates, 4 probes; results must equal the same operation on the Go slice (multisets for hash collections) and undocumented edge cases must equal ArrayList's behaviour.",
      "Float-range iteration and halves on Int ranges are rejected by the checker and not probed")

check("C02", "E2 enum", "exploration",
      "bounded-exhaustive enumeration of declared type x scope x 38 narrowing forms x 12 invalidations x probe position x probe kind, observed through source-level typed probes",
      "Every combination of 6 (thorough 8) declared types, 3 scopes, 38 narrowing forms (both polarities), 12 invalidation kinds, 4 probe positions and 3 probe kinds that the checker accepts is run; a typed probe `def probe_T(v: T)` prints the runtime class, which must be a member of T, a complementary probe catches wrong polarity, and a type-specialised operation after the narrowing must not panic. Plus nested narrowing chains: every ordered chain of 2-3 conditions on a String|Int|Float|nil local with an assignment in the innermost block and 7 typed probes after each closing block (6 720 programs).",
      "typed probes of locals/parameters only (no compiler hook); the std-header return-type clause is C28's; instance variables and generators are outside the space; 4-way unions only in the nested-chain family")

check("C12", "E2 enum", "exploration",
      "bounded-exhaustive metamorphic enumeration: every single application of 4 meaning-preserving edit kinds at every position of 132 (thorough 227) base programs",
      "For each accepted base program (22 leaf method shapes x 5 caller shapes x top-level shapes, 1-4 methods) every insertion of an unused local / closure local (plain closures and closures with a throw annotation) before every statement, every consistent renaming of a local, every redundant parenthesisation of an expression node and every permutation of the method definitions is checked and run; verdict, stdout and uncaught error must equal the base program's.",
      "single-expression closures only (with and without a throw annotation); nothing is inserted after the last statement of a body; no classes/modules")

check("C13", "E2 enum", "exploration",
      "bounded-exhaustive enumeration of closure terms (<=3 variables, nesting <=3, 6-8 statements) against a reference interpreter with boxed variables, each also under stack growth; plus a differential loop-exit family (6 labelled loop kinds x 6 exits, unrelated locals after vs before the loop)",
      "All well-formed closure terms up to the size bound (6 049 programs quick, 81 255 thorough) over declare/write/read, closure creation in top-level code, methods, loops and closures, escape by return, list storage, passing to a method and tail call, are printed to Elk, run on the VM with the default stack and with a 64-slot initial stack plus deep-recursion hooks (growth while closures are live; in child processes) and compared line by line with harness/mini's reference interpreter.",
      "closures without parameters; cross-thread closures are outside the space; while/numeric-for loop variables only in the loop-exit family; a closure-free growth canary gates the growth mode (exhaustive:false if it fails)")

check("C14", "E2 enum", "exploration",
      "bounded-exhaustive enumeration of control-flow nestings (depth 3, thorough 4) x exit kinds and of short-circuit expressions against a reference interpreter",
      "Every chain of up to 3 (thorough 4) nested constructs out of 24 variants (loops, labelled loops, do/catch/finally with the hole in each clause, defer, expression blocks, if) with each of 17 exit kinds (fallthrough, return, throw, break/continue with labels and values, guarded and unguarded) in the innermost hole (36 532 functions quick, 380 632 thorough) plus 4 800 &&/||/?? expressions with printing operands is run and its marker trace and result compared with harness/mini's reference interpreter.",
      "until/do-while/numeric-for/for-in and catch patterns other than symbols are outside the space; signatures of the clause-exit family are coarse")

check("C17", "E3 bfs", "model_checking",
      "explicit-state breadth-first search over operation histories on the real hash tables (full-state canonical keys incl. tombstones) with a Go map as reference; Elk-level operation sequences",
      "BFS over histories of set/delete/set_capacity/grow/copy/concat/clone (sets: add/remove/union/intersection) on the real HashMapOfValue, HashRecordOfValue, HashSetOfValue and the String-keyed native variants, keys chosen to collide at every capacity, to depth 5 (thorough 6), successor = replay on a fresh object + one operation, states merged on the full slot array; after every transition all observers (lookups, contains, 4 iteration APIs, ==/=~ with twins, + | &, clone) are compared with a Go map and the table invariants checked; plus every Elk-level operation sequence of length <=3 (thorough 4) on 7 literal flavours.",
      "only String-keyed native instantiations; Float keys are C18's; mutation during iteration not explored")

check("C24", "E3 bfs", "model_checking",
      "explicit-state breadth-first search to closure over operation histories on the real list/tuple implementations with a Go slice as reference; Elk-level operation sequences",
      "BFS to closure (length <=4/5, capacity <=8/10) over push/append/<</[]=/remove_at/remove/grow/+/*/slice/clone on ArrayListOfValue, ArrayTupleOfValue and the native String/Float variants; after every transition contents, [] for every index incl. huge and typed ones, 5 iteration APIs, inspect, contains, + with every peer implementation, ==/=~, *, every slice and clone independence are compared with a Go slice; out-of-range access must raise IndexError/OutOfRangeError; plus every Elk-level sequence of <=3 (thorough 4) operations on 5 literal flavours with 13 range slices.",
      "capacity growth policy not modelled beyond capacity >= length; boxes, map, map_mut not covered")

check("C30", "E2 enum", "exploration",
      "bounded-exhaustive enumeration of patterns (depth 2, thorough depth-3 spines) x 48 scrutinee values x contexts x static typings against a reference matcher sourced from the compiler/checker",
      "About 65 depth-1 patterns, 47 composite shapes filled from a child pool and 144 list patterns with sibling nested list patterns after a leading rest element, in switch (alone, behind never-matching cases, with catch-all), if-match, match, var/val destructuring, under static type any and 12-16 precise types, all ordered pairs of 24 patterns and triples of 12, and 15 exhaustive switches: the selected case and every bound variable must equal the reference matcher's (rules cited from compiler pattern(), the checker and header docs); unspecified outcomes are only compared differentially.",
      "guards do not exist in the grammar; identifier patterns naming existing variables, === / =~ patterns, catch/for patterns are outside the space")

check("C31", "E2 enum", "exploration",
      "bounded-exhaustive enumeration of macro bodies (1-2, thorough 1-3 statements over 14 forms) x caller state of each name (absent / defined / declared uninitialised) x plain or if-wrapped body x arguments x call sites against a hand-expanded renamed program",
      "Quote bodies binding/reading/assigning locals a and b hygienically or through !{unhygienic(...)}, every caller state of a and b (not declared, defined before the call, declared uninitialised before and assigned after it), printed after the call, the quoted body plain or wrapped in an `if`, arguments a, a+b, 7, call site top-level or in a method, plus a probe reading a macro-defined name after the call: each program's behaviour must equal a Go model of the hand-expanded program with the macro's locals renamed apart (the model is validated by running the renamed expansion through Elk) and the printed expansion.",
      "unquote_ident, pattern/type macros, nested macro calls are outside the space; three situations the statement leaves open are only counted")

check("C27", "E2 enum", "exploration",
      "bounded-exhaustive enumeration of REPL input histories (all sequences of length 3 over 14 inputs; thorough length 3 over 21 and length 4 over 12) with incremental-vs-batch and rejected-inputs-removed differential oracles",
      "Every history over an alphabet of definitions, uses, redefinitions, class reopenings, six inputs rejected in different checker phases after declaring something, and a runtime error after a side effect is run through a mirror of repl.evaluator (one incremental checker, one persistent VM thread); each accepted input must print what a fresh batch program of all previously accepted inputs plus it prints, and the session with its rejected inputs removed must give the same verdicts and outputs for the remaining inputs.",
      "the repl package's prompt/printing wrapper is mirrored through the exported API, not executed; macros, using, typedef are outside the alphabet")

check("C28", "E2 enum", "exploration",
      "exhaustive walk of the std type environment: every declared method x every admissible arity x receiver and argument literal pools, observed on the VM",
      "Every method of the 425 Std namespaces (2 719 entries; quick: a fixed core subset of 1 330) is called with up to 6 receivers per type (for lists/tuples also the unboxed specialisations; for mixins also empty ArrayList/HashSet/HashMap instances), method-level type parameters unbound and bound to the receiver's element type, every arity from required to required+optional and argument tuples from per-type pools; the call must not fail with NoMethodError / wrong argument count / Go panic, the result must not be the VM's internal undefined value and its runtime class must be an instance of the declared return type (classes, mixins, unions, nilable, literal types, self; interfaces by method presence), and a thrown value an instance of the declared throw type or an unchecked error.",
      "returns typed by method-level type parameters, callables and singleton types are undecidable (counted); blocking, I/O and process-control methods are excluded by an explicit list printed into the evidence")

check("C32", "E2 enum", "exploration",
      "bounded-exhaustive enumeration of call chains (depth <=3, thorough 4) over 7 frame kinds x filler-line vectors x construct contexts, comparing the uncaught error's stack trace with the known chain",
      "Every chain over {method, instance method, module method, closure, closure passed to a native iterator, generator, async function} with an uncaught throw at the leaf, 0-2 filler statements before each call site and the throw (plus one all-wide vector: 135 extra statements per frame so that 16-bit instruction forms are used, calls spread over two lines), call sites inside if/while/do-finally/do-catch/switch/continuation lines, two throw forms: the frames of the program file in thread.ErrStackTrace() must be exactly the chain, outermost first, with matching method names and call-site / throw lines.",
      "native frame labels and closure/top-level names are not asserted; tail-position calls are never generated")

check("C34", "E2 enum", "exploration",
      "bounded-exhaustive enumeration of suite trees (<=2 levels, <=4 cases) x pass/fail/error outcomes x filter sets of size <=2, in-process and through the built CLI, against an independent selector",
      "Every ordered suite tree with <=4 cases, outcome assignments, and every filter set of size <=2 drawn from two --grep patterns, file/glob paths and --path file:L for every line L: the generated .elk.test is registered and run in-process the way cmd/elk does (and a subset through the real `elk test` binary built from /repo); the executed multiset must equal the cases selected by a 40-line independent selector and the exit status must be failure exactly when an executed case failed or errored.",
      "before/after hooks and describes nested deeper than 2 are outside the space; a second --grep overrides the first in the CLI and is not part of the space")

check("C03", "E2 enum", "exploration",
      "bounded-exhaustive enumeration of byte strings, token sequences, regex bodies x flag sets and program prefixes through lexer, parser, regex pipeline and type checker under recover and a per-input hang detector",
      "All byte strings of length <=4 (thorough 5) over 26 bytes, all sequences of <=2 lexemes over 285 lexemes and of 3 (thorough 4) over 48 core lexemes (clean parses are also type-checked and their diagnostics rendered), regex bodies of length <=3 (4) over 25 characters x 64 flag sets, and all 3 351 byte prefixes of 283 programs through the incremental checker: any Go panic or an input still running after 30 s with an unchanging stack is a violation.",
      "the hang threshold is wall-clock (30 s per single input, stack sampled 7 times); macro expansion only through the corpus")

check("C04", "E2 enum", "exploration",
      "exhaustive enumeration of all strings of <=4 (thorough 5) units over two alphabets (ASCII mode openers; multi-byte / invalid UTF-8 / CR / LF) in normal and embellished lexing mode, span/line/column invariants and Colorize round trip",
      "For 1.8 M (thorough 55.9 M) inputs every token's span must lie inside the input, in order, non-overlapping and on character boundaries, its start and end line/column must equal the position computed from the byte offset (convention documented by lexer tests), and stripping ANSI codes from Colorize / ColorizeEmbellishedText output must give back the input byte for byte.",
      "ESC is excluded from the alphabets so that stripping is well defined; the end position of a token ending in a newline is not asserted")

check("C05", "E2 enum", "exploration",
      "bounded-exhaustive template-grammar enumeration (532 templates; all hole pairs x class representatives, thorough full depth 2 + depth-3 spines) with parse -> String() -> parse structural comparison ignoring locations",
      "2.96 M (thorough 22.2 M) programs built from expression, declaration, pattern and type templates taken from the parser's production comments: when the first parse is clean the printed text must parse cleanly to a structurally equal tree (reflective comparison ignoring loc/typ/static); a localiser names the smallest construction at fault.",
      "programs the parser re-associates differently from the intended tree are skipped and counted; the structural parenthesisation family of the printers is listed as known findings (131 signatures)")

check("C09", "E2 enum", "exploration",
      "bounded-exhaustive differential enumeration: every program of a template space is run on the bytecode VM and as the Go program emitted by the native translator (built into one dispatcher binary per worker); stdout, raised error class and exit status must agree",
      "128 program templates (arithmetic of every numeric type, collections, strings, control flow, closures, classes, pattern matching, errors and finally) with 566 observable sub-results are compiled both ways from /repo's working tree; the translated Go source must build, and each sub-result printed by the native binary must equal the VM's; a translator panic, Go build error or differing value/error class is a violation.",
      "native translation covers the language subset the translator accepts (rejected programs are counted, not judged); one binary per worker share with package-level renaming instead of one binary per program")

check("C10", "E2 enum", "exploration",
      "bounded-exhaustive enumeration of program shapes x recursion depths x resource configurations (stack sizes, call-stack size, thread pools, symbol table size), each compared with the same program's outcome at the default configuration",
      "Program shapes that keep pointers into the value stack across growth (open upvalues, closures per recursion level, generators resumed across growth, async fan-out) x depths {1,10,100,1000} x initial/maximum value-stack ladders, call-stack limits, pool (n,q) grids and symbol-table initial sizes are run in child processes; a configuration may only change the outcome to the documented exhaustion error, never the printed values, and never crash the host.",
      "exhaustion is recognised by the VM's two panic messages; the region where the initial size is below the headroom the VM guarantees is reported under one separate signature")

check("C29", "E4 bcverify", "model_checking",
      "explicit-state exploration of an abstract machine over the compiler's real bytecode (states = (function, pc, abstract operand stack); all control-flow edges incl. catch entries and finally dispatch) + conformance replay: VM depth probe injected by build overlay compares observed (function, pc, sp-fp) with the model",
      "Every BytecodeFunction reachable from 786 generated programs (template grammar singles and pairs, every construct followed by a pool-emitted tail expression, wide programs, C15/C01/mini families) (each compiled with and without abort checks) is decoded with operand widths taken from the VM source, explored over all edges as abstract states (2.9 M states quick) checking: no underflow, one operand depth per pc outside finally sections, jump targets on instruction boundaries, catch entries consistent, max depth below the declared frame need; the depths the real VM reaches while running the programs are replayed against the model.",
      "stack-effect table is hand-written and trusted only where the probe confirms it; opcodes never reached are listed in the evidence")

NOT_YET = "check not built yet in this round (planned, see DESIGN.md section 5)"
NA = {}

def main():
    checks = []
    for pid in ALL:
        if pid not in CHECKS:
            continue
        c = CHECKS[pid]
        e = {
            "property_id": pid,
            "quick_cmd": "bin/check %s --tier quick" % pid,
            "evidence_file": "/verif/evidence/%s.json" % pid,
            "replay_cmd_template": "bin/check %s --replay {path}" % pid,
            "engine": c["engine"],
            "level_claimed": {"category": c["category"], "text": c["text"], "design_ref": c["design"]},
            "level_note": c["note"],
            "technique": c["technique"],
        }
        if c["thorough"]:
            e["thorough_cmd"] = "bin/check %s --tier thorough" % pid
        checks.append(e)
    na = [{"property_id": p, "reason": NA.get(p, NOT_YET)} for p in ALL if p not in CHECKS]
    m = {
        "version": 1,
        "setup_cmd": "bin/setup.sh",
        "hooks": {
            "guard": "verif",
            "enable": "no hook commits in /repo: instrumentation is generated from /repo's working tree into a go build -overlay by harness/cmd/instr (E1 checks) and built with -tags verif; all other checks compile /repo unmodified through a replace directive",
            "baseline_off_cmd": "bin/baseline_off.sh",
            "source_commits": [],
            "add_only": True,
        },
        "engines": [
            {"name": "E2 enum", "path": "harness/engine", "kind_free_text": "bounded-exhaustive enumeration of inputs/programs in worker subprocesses with crash journal; reference-model and differential oracles",
             "serves_properties": [p for p in ALL if p in CHECKS and CHECKS[p]["engine"].startswith("E2")]},
            {"name": "E3 bfs", "path": "harness/engine", "kind_free_text": "explicit-state breadth-first search over operation histories on real objects, full-state canonical keys",
             "serves_properties": [p for p in ALL if p in CHECKS and CHECKS[p]["engine"].startswith("E3")]},
            {"name": "E1 sched", "path": "harness/sched + overlay-src/verifrt", "kind_free_text": "controlled scheduler injected by build overlay; stateless DFS over schedules with preemption bounding",
             "serves_properties": [p for p in ALL if p in CHECKS and CHECKS[p]["engine"].startswith("E1")]},
            {"name": "E4 bcverify", "path": "harness/cmd/c29", "kind_free_text": "abstract state exploration (pc, stack depth) of compiled bytecode",
             "serves_properties": [p for p in ALL if p in CHECKS and CHECKS[p]["engine"].startswith("E4")]},
        ],
        "checks": checks,
        "not_applicable": na,
        "notes": "Exit codes: 0 held, 1 VIOLATION, 2 infrastructure/build error (no verdict). Known findings: known_findings.jsonl.",
    }
    json.dump(m, open("/verif/MANIFEST.json", "w"), indent=1)
    print("wrote MANIFEST.json: %d checks, %d not_applicable" % (len(checks), len(na)))

if __name__ == "__main__":
    main()
