#!/usr/bin/env python3
"""compare_baseline.py <go test -json output>: every test in BASELINE.json stable_pass must have passed."""
import json,sys
base=json.load(open('/root/.vp/BASELINE.json'))
stable=set(base['stable_pass'])
res={}
for l in open(sys.argv[1]):
    try: e=json.loads(l)
    except: continue
    if e.get('Test') and e.get('Action') in ('pass','fail','skip'):
        res[e['Package']+'::'+e['Test']]=e['Action']
missing=[t for t in stable if res.get(t)!='pass']
print("stable_pass:",len(stable),"passed now:",sum(1 for t in stable if res.get(t)=='pass'),"not passing:",len(missing))
for t in sorted(missing)[:30]: print("  ",t,res.get(t))
sys.exit(1 if missing else 0)
