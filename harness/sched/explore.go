// Package sched is the stateless depth-first schedule explorer of engine E1. It drives verifrt.Run
// (the controlled scheduler injected into the elk build) over every schedule of a scenario up to a
// preemption bound, optionally pruning with happens-before state keys.
package sched

import (
	"fmt"
	"time"

	"github.com/elk-language/elk/verifrt"
)

type Config struct {
	Bound    int  // preemption bound; < 0 = unbounded
	Keys     bool // prune with happens-before state keys (sound for data-race-free scenarios)
	MaxExecs int  // cap on executions (0 = none); hitting it makes the result non-exhaustive
	Deadline time.Time // wall-clock budget (zero = none); hitting it makes the result non-exhaustive
	Opts     verifrt.Options
}

type Stats struct {
	Execs      int
	Pruned     int // subtrees skipped by state keys
	States     int // distinct state keys seen (Keys mode) or choice points visited
	Transitions int // scheduling decisions explored
	MaxPoints  int
	MaxChoices int
	Capped     bool
	Replayed   int // executions whose forced prefix replayed without divergence
	Diverged   int
}

// Scenario runs one execution with the given forced choice prefix and returns its record plus the
// harness-observed outcome string.
type Scenario func(prefix []int, opts verifrt.Options) (*verifrt.Exec, string)

// Explore enumerates schedules depth-first. visit is called once per execution.
func Explore(cfg Config, run Scenario, visit func(e *verifrt.Exec, outcome string, prefixLen int)) Stats {
	var st Stats
	cfg.Opts.Keys = cfg.Keys
	seen := map[uint64]int{} // state key -> lowest preemption cost at which it was expanded
	var explore func(prefix []int, cost int)
	explore = func(prefix []int, cost int) {
		if cfg.MaxExecs > 0 && st.Execs >= cfg.MaxExecs {
			st.Capped = true
			return
		}
		if !cfg.Deadline.IsZero() && st.Execs%64 == 0 && time.Now().After(cfg.Deadline) {
			st.Capped = true
		}
		if st.Capped {
			return
		}
		x, outcome := run(prefix, cfg.Opts)
		st.Execs++
		if x.Diverged != "" {
			st.Diverged++
		} else {
			st.Replayed++
		}
		if x.Points > st.MaxPoints {
			st.MaxPoints = x.Points
		}
		if len(x.Choices) > st.MaxChoices {
			st.MaxChoices = len(x.Choices)
		}
		visit(x, outcome, len(prefix))
		if x.Diverged != "" {
			return
		}
		c := cost
		for i := len(prefix); i < len(x.Choices); i++ {
			ch := x.Choices[i]
			st.Transitions++
			if cfg.Keys && !ch.Data {
				if prev, ok := seen[ch.Key]; ok && prev <= c {
					st.Pruned++
					return // this state and everything after it on this path was expanded before
				}
				seen[ch.Key] = c
			}
			for alt := 0; alt < ch.N; alt++ {
				if alt == ch.Chosen {
					continue
				}
				ac := c
				if !ch.Data && ch.Cur >= 0 && alt != ch.Cur {
					ac++
				}
				if cfg.Bound >= 0 && ac > cfg.Bound {
					continue
				}
				np := make([]int, i+1)
				for j := 0; j < i; j++ {
					np[j] = x.Choices[j].Chosen
				}
				np[i] = alt
				explore(np, ac)
			}
			// cost of the default continuation itself
			if !ch.Data && ch.Cur >= 0 && ch.Chosen != ch.Cur {
				c++
			}
		}
	}
	explore(nil, 0)
	if cfg.Keys {
		st.States = len(seen)
	} else {
		st.States = st.Transitions
	}
	return st
}

func (s Stats) String() string {
	return fmt.Sprintf("execs=%d transitions=%d states=%d pruned=%d maxPoints=%d capped=%v diverged=%d", s.Execs, s.Transitions, s.States, s.Pruned, s.MaxPoints, s.Capped, s.Diverged)
}
