// Package elkrun compiles and runs Elk programs in-process for the checks.
package elkrun

import (
	"fmt"
	"os"
	"runtime/debug"
	"strings"
	"sync"

	"github.com/elk-language/elk"
	"github.com/elk-language/elk/bitfield"
	"github.com/elk-language/elk/env"
	"github.com/elk-language/elk/types/checker"
	"github.com/elk-language/elk/vm"
	"github.com/fatih/color"

	"verifharness/engine"
)

var initOnce sync.Once

// Init prepares the Elk runtime for in-process use. Deterministic compilation: one method body at a time.
func Init() {
	initOnce.Do(func() {
		env.ELKPATH = "/repo"
		color.NoColor = true
		checker.MethodCheckConcurrencyLimit = 1
		// the checker prints `typeof` lines etc. to os.Stdout; keep the process stdout clean
		if os.Getenv("VERIF_WORKER") != "" {
			if f, err := os.OpenFile(os.DevNull, os.O_WRONLY, 0); err == nil {
				os.Stdout = f
			}
		}
		elk.InitGlobalEnvironment()
	})
}

// ResetRuntime re-creates the global runtime namespaces (needed between programs that define classes/constants).
func ResetRuntime() { elk.InitGlobalEnvironment() }

type Result struct {
	Rejected bool   // the type checker rejected the program
	Diags    string // diagnostics when rejected
	Stdout   string
	Value    string // inspect of the result value (when no error)
	Err      string // inspect of the uncaught Elk error value ("" if none)
	ErrClass string
	Trace    string // stack trace of the uncaught error
	Panic    string // Go panic message, "" if none
	PanicSig string
	Stack    string
}

// Outcome is a canonical one-line rendering used by differential oracles.
func (r Result) Outcome() string {
	switch {
	case r.Rejected:
		return "REJECTED"
	case r.Panic != "":
		return "GOPANIC " + r.PanicSig
	case r.Err != "":
		return fmt.Sprintf("out=%q err=%s", r.Stdout, r.Err)
	}
	return fmt.Sprintf("out=%q val=%s", r.Stdout, r.Value)
}

type Options struct {
	// PoolN > 0: run on a fresh thread pool of PoolN workers and queue capacity PoolQ whose workers print to the
	// captured stdout; the pool is closed after the run.
	PoolN, PoolQ int
	Pool         *vm.ThreadPool
	Flags     bitfield.BitField16
	Name      string
	NoRun     bool
	VMOptions []vm.Option
}

// Compile type-checks and compiles a program. A Go panic in the front end is returned in Result.Panic.
func Compile(src string, o *Options) (fn *vm.BytecodeFunction, res Result) {
	Init()
	name := "p.elk"
	var flags bitfield.BitField16
	if o != nil {
		if o.Name != "" {
			name = o.Name
		}
		flags = o.Flags
	}
	defer func() {
		if p := recover(); p != nil {
			res.Stack = string(debug.Stack())
			res.Panic = fmt.Sprint(p)
			res.PanicSig = engine.PanicSig(res.Panic, res.Stack)
			fn = nil
		}
	}()
	f, diags := checker.CheckSource(name, src, nil, flags, nil)
	if diags.IsFailure() || f == nil {
		res.Rejected = true
		if diags != nil {
			res.Diags = diags.Error()
		}
		return nil, res
	}
	return f, res
}

// Exec runs a compiled function on a fresh VM thread.
func Exec(fn *vm.BytecodeFunction, o *Options) (res Result) {
	var out syncBuilder
	opts := []vm.Option{vm.WithStdout(&out), vm.WithStderr(&out)}
	if o != nil {
		if o.PoolN > 0 {
			tp := vm.NewThreadPool(o.PoolN, o.PoolQ, vm.WithStdout(&out), vm.WithStderr(&out))
			defer tp.Close()
			opts = append(opts, vm.WithThreadPool(tp))
		} else if o.Pool != nil {
			opts = append(opts, vm.WithThreadPool(o.Pool))
		}
		opts = append(opts, o.VMOptions...)
	}
	defer func() {
		if p := recover(); p != nil {
			res.Stdout = out.String()
			res.Stack = string(debug.Stack())
			res.Panic = fmt.Sprint(p)
			res.PanicSig = engine.PanicSig(res.Panic, res.Stack)
		}
	}()
	v := vm.New(opts...)
	val, err := v.InterpretTopLevel(fn)
	res.Stdout = out.String()
	if !err.IsUndefined() {
		res.Err = err.Inspect()
		res.ErrClass = err.Class().Name
		if st := v.ErrStackTrace(); st != nil {
			res.Trace = st.String()
		}
		return res
	}
	res.Value = val.Inspect()
	return res
}

// syncBuilder is a strings.Builder safe for concurrent writers (pool workers and the main thread).
type syncBuilder struct {
	mu sync.Mutex
	b  strings.Builder
}

func (s *syncBuilder) Write(p []byte) (int, error) {
	s.mu.Lock()
	defer s.mu.Unlock()
	return s.b.Write(p)
}

func (s *syncBuilder) String() string {
	s.mu.Lock()
	defer s.mu.Unlock()
	return s.b.String()
}

// Run = Compile + Exec.
func Run(src string, o *Options) Result {
	fn, res := Compile(src, o)
	if fn == nil {
		return res
	}
	if o != nil && o.NoRun {
		return res
	}
	return Exec(fn, o)
}
