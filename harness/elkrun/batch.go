package elkrun

import (
	"fmt"
	"strings"
)

// Prelude helpers available to batched programs.
const ShowPrelude = `
def show(v: ::Std::Inspectable?): ::Std::String
  switch v
  case nil then "nil"
  case false then "false"
  else
    if v then v.inspect else "?"
  end
end
`

// Item is one independent case of a batch: Code must be complete statements that print the
// observation(s) of the case with println.
type Item struct {
	Code string
}

// BatchResult holds, for each item, the text it printed ("" if nothing) and a non-empty Fail when the item
// could not be observed (rejected, uncaught error, Go panic).
type ItemResult struct {
	Out      string
	Rejected bool
	Diags    string
	Err      string // uncaught Elk error (inspect)
	ErrClass string
	Panic    string // Go panic signature
	Stack    string
}

const marker = "@@#"

// Batch runs all items in one program (prelude + items, each preceded by a marker line). When the whole
// program is rejected, panics, or an item raises an uncaught error, the batch is split in halves
// recursively so that a bad item cannot mask the others; a single failing item is reported on its own.
func Batch(prelude string, items []Item, o *Options) []ItemResult {
	res := make([]ItemResult, len(items))
	batchRange(prelude, items, 0, len(items), res, o)
	return res
}

func batchRange(prelude string, items []Item, lo, hi int, res []ItemResult, o *Options) {
	if lo >= hi {
		return
	}
	var b strings.Builder
	b.WriteString(prelude)
	b.WriteString("\n")
	for i := lo; i < hi; i++ {
		fmt.Fprintf(&b, "println(\"%s%d\")\n", marker, i)
		b.WriteString(items[i].Code)
		b.WriteString("\n")
	}
	r := Run(b.String(), o)
	clean := !r.Rejected && r.Panic == "" && r.Err == ""
	if clean || hi-lo == 1 {
		outs := splitMarkers(r.Stdout, lo, hi)
		for i := lo; i < hi; i++ {
			res[i].Out = outs[i-lo]
		}
		if !clean {
			res[lo].Rejected, res[lo].Diags = r.Rejected, r.Diags
			res[lo].Err, res[lo].ErrClass = r.Err, r.ErrClass
			res[lo].Panic, res[lo].Stack = r.PanicSig, r.Stack
			if r.Panic != "" && r.PanicSig == "" {
				res[lo].Panic = r.Panic
			}
		}
		if hi-lo == 1 && len(prelude) > 0 && strings.Contains(prelude, "class ") {
			ResetRuntime()
		}
		return
	}
	mid := (lo + hi) / 2
	batchRange(prelude, items, lo, mid, res, o)
	batchRange(prelude, items, mid, hi, res, o)
}

func splitMarkers(out string, lo, hi int) []string {
	outs := make([]string, hi-lo)
	cur := -1
	for _, line := range strings.SplitAfter(out, "\n") {
		if strings.HasPrefix(line, marker) {
			var n int
			if _, err := fmt.Sscanf(strings.TrimSpace(line[len(marker):]), "%d", &n); err == nil && n >= lo && n < hi {
				cur = n - lo
				continue
			}
		}
		if cur >= 0 {
			outs[cur] += line
		}
	}
	return outs
}
