// elkx: development helper — compile and run an Elk file in-process, print the outcome; -d disassembles.
package main

import (
	"flag"
	"fmt"
	"os"

	"verifharness/elkrun"
)

func main() {
	dis := flag.Bool("d", false, "disassemble")
	flag.Parse()
	src, err := os.ReadFile(flag.Arg(0))
	if err != nil {
		panic(err)
	}
	elkrun.Init()
	fn, res := elkrun.Compile(string(src), nil)
	if fn == nil {
		fmt.Println("REJECTED/PANIC:", res.Diags, res.Panic, res.Stack)
		return
	}
	if *dis {
		fn.Disassemble(os.Stdout)
	}
	r := elkrun.Exec(fn, nil)
	fmt.Print(r.Stdout)
	fmt.Printf("-- value=%s err=%s class=%s panic=%s\n%s", r.Value, r.Err, r.ErrClass, r.PanicSig, r.Trace)
	if r.Panic != "" {
		fmt.Println(r.Stack)
	}
}
