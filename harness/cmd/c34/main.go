// C34 — the test runner runs exactly the selected cases and reports failures.
//
// Bounded-exhaustive: every suite tree with describe-nesting ≤ 2 and ≤ N cases (all ordered shapes) × every
// assignment of {pass, fail (assertion), error (throw)} to the cases × every filter set of size ≤ 2 drawn from
// {--grep A, --grep B, --path file, --path glob, --path otherfile, --path file:L for every line L of the file and
// one line past its end}. The generated .elk.test source is compiled once per (tree, outcomes) and registered + run
// in-process once per filter set exactly as cmd/elk does (filters registered, file interpreted, test.RunWith).
// A subset is also driven through the real `elk test` CLI (built from /repo's working tree into .work/c34) for the exit status.
//
// Oracle: an independent selector written from the property statement: a case is selected iff it satisfies every
// filter; grep = regex over the case's full name (names of the enclosing suites and of the case); path = file
// pattern matches and, when a line is given, the line lies inside the case or is the first line of an enclosing
// describe. executed multiset == selected set; exit status failure ⇔ some executed case failed or errored.
package main

import (
	"bytes"
	"context"
	"fmt"
	"os"
	"os/exec"
	"path/filepath"
	"regexp"
	"runtime"
	"sort"
	"strconv"
	"strings"
	"syscall"
	"time"

	"github.com/elk-language/elk/bitfield"
	"github.com/elk-language/elk/ext/std/test"
	"github.com/elk-language/elk/types/checker"
	"github.com/elk-language/elk/vm"

	"verifharness/elkrun"
	"verifharness/engine"
)

// ---------------------------------------------------------------------------------------------------------
// shapes

// seqs returns every item sequence at describe-nesting `level` holding exactly n cases, as strings over
// 'c' (case), '(' … ')' (non-empty describe). Describes nest at most two deep.
func seqs(n, level int) []string {
	if n == 0 {
		return []string{""}
	}
	var out []string
	for _, rest := range seqs(n-1, level) {
		out = append(out, "c"+rest)
	}
	if level < 2 {
		for k := 1; k <= n; k++ {
			for _, inner := range seqs(k, level+1) {
				for _, rest := range seqs(n-k, level) {
					out = append(out, "("+inner+")"+rest)
				}
			}
		}
	}
	return out
}

var caseNames = []string{"alpha one", "beta two", "alpha beta", "gamma four"}
var suiteNames = []string{"outer", "alpha grp", "inner", "beta grp", "s five", "alpha six", "s seven", "grp eight"}
var outcomeNames = []string{"pass", "fail", "error"}
var outcomeStmt = []string{"assert! 1 == 1", "assert! 1 == 2", `throw Error("boom")`}

type span struct{ first, last int }

type caseInfo struct {
	span
	name      string // as given to `it`
	ancestors []int  // suite indices, outermost first
	outcome   int
}

type program struct {
	shape  string
	src    string
	nlines int
	cases  []caseInfo
	suites []struct {
		span
		name string
	}
}

const fileName = "t.elk.test"

// render writes the .elk.test source of a shape with the given outcome per case and records line spans.
func render(shape string, outcomes []int) *program {
	p := &program{shape: shape}
	var lines []string
	add := func(depth int, s string) int {
		lines = append(lines, strings.Repeat("  ", depth)+s)
		return len(lines)
	}
	add(0, `import "std/test"`)
	add(0, `using Std::Test::Assertions::*`)
	add(0, `using Std::Test::*`)
	add(0, ``)
	var stack []int
	for _, ch := range shape {
		switch ch {
		case 'c':
			k := len(p.cases)
			ci := caseInfo{name: caseNames[k], outcome: outcomes[k], ancestors: append([]int(nil), stack...)}
			ci.first = add(len(stack), fmt.Sprintf(`it "%s", ->`, ci.name))
			add(len(stack)+1, fmt.Sprintf(`println("RUN %d"); %s`, k, outcomeStmt[ci.outcome]))
			ci.last = add(len(stack), "end")
			p.cases = append(p.cases, ci)
		case '(':
			j := len(p.suites)
			l := add(len(stack), fmt.Sprintf(`describe "%s", ->`, suiteNames[j]))
			p.suites = append(p.suites, struct {
				span
				name string
			}{span{l, 0}, suiteNames[j]})
			stack = append(stack, j)
		case ')':
			j := stack[len(stack)-1]
			stack = stack[:len(stack)-1]
			p.suites[j].last = add(len(stack), "end")
		}
	}
	p.nlines = len(lines)
	p.src = strings.Join(lines, "\n") + "\n"
	return p
}

// ---------------------------------------------------------------------------------------------------------
// filters and the reference selector

type filter struct {
	grep string // regex, or ""
	path string // file pattern, or ""
	line int    // 0: none
}

func (f filter) arg() string {
	if f.grep != "" {
		return "--grep " + f.grep
	}
	if f.line > 0 {
		return fmt.Sprintf("--path %s:%d", f.path, f.line)
	}
	return "--path " + f.path
}

const grepA = `alpha`
const grepB = `grp.*(beta|four)$`

// file patterns and whether they match fileName (by construction)
var filePatterns = []struct {
	pat   string
	match bool
}{{fileName, true}, {"*.elk.test", true}, {"other.elk.test", false}}

func fileMatches(pat string) bool {
	for _, fp := range filePatterns {
		if fp.pat == pat {
			return fp.match
		}
	}
	panic("unknown file pattern " + pat)
}

func allFilters(p *program) []filter {
	fs := []filter{{grep: grepA}, {grep: grepB}}
	for _, fp := range filePatterns {
		fs = append(fs, filter{path: fp.pat})
	}
	for l := 1; l <= p.nlines+1; l++ {
		fs = append(fs, filter{path: fileName, line: l})
	}
	return fs
}

// kind classifies a filter for signatures (the construct, not the concrete line).
func (f filter) kind(p *program) string {
	if f.grep != "" {
		return "grep"
	}
	if f.line == 0 {
		if fileMatches(f.path) {
			return "path:file"
		}
		return "path:non-matching-file"
	}
	for _, s := range p.suites {
		if s.first == f.line {
			return "path:LINE-of-describe"
		}
	}
	for _, c := range p.cases {
		if f.line >= c.first && f.line <= c.last {
			return "path:LINE-in-case"
		}
	}
	return "path:LINE-outside-cases"
}

// names joins the names of the enclosing suites and of the case.
func (p *program) fullName(k int, sep string) string {
	var parts []string
	for _, j := range p.cases[k].ancestors {
		parts = append(parts, p.suites[j].name)
	}
	parts = append(parts, "it "+p.cases[k].name)
	return strings.Join(parts, sep)
}

var reCache = map[string]*regexp.Regexp{}

func re(s string) *regexp.Regexp {
	if r, ok := reCache[s]; ok {
		return r
	}
	r := regexp.MustCompile(s)
	reCache[s] = r
	return r
}

// satisfies is the reference selector for one filter. ok=false: the statement does not decide (the regex would
// depend on how the runner joins the name parts) — never happens for the patterns used, asserted by the caller.
func (p *program) satisfies(k int, f filter) (sat, ok bool) {
	if f.grep != "" {
		a := re(f.grep).MatchString(p.fullName(k, " "))
		b := re(f.grep).MatchString(p.fullName(k, " > "))
		return a, a == b
	}
	if !fileMatches(f.path) {
		return false, true
	}
	if f.line == 0 {
		return true, true
	}
	c := p.cases[k]
	if f.line >= c.first && f.line <= c.last {
		return true, true
	}
	for _, j := range c.ancestors {
		if p.suites[j].first == f.line {
			return true, true
		}
	}
	return false, true
}

func (p *program) selected(fs []filter) (sel []int, ok bool) {
	ok = true
	for k := range p.cases {
		all := true
		for _, f := range fs {
			s, o := p.satisfies(k, f)
			if !o {
				ok = false
			}
			if !s {
				all = false
			}
		}
		if all {
			sel = append(sel, k)
		}
	}
	return
}

// ---------------------------------------------------------------------------------------------------------
// in-process driver

type recorder struct {
	started  []string
	finished []*test.CaseReport
}

func (r *recorder) Report(events chan *test.ReportEvent, shutdown context.CancelFunc) {
	for ev := range events {
		switch ev.Type {
		case test.REPORT_START_CASE:
			r.started = append(r.started, ev.CaseReport.FullNameWithSeparator())
		case test.REPORT_FINISH_CASE:
			r.finished = append(r.finished, ev.CaseReport)
		}
	}
}

type observation struct {
	ran       []int // case indices in execution order (from the RUN markers the case bodies print)
	statuses  map[int]test.TestStatus
	failure   bool // what cmd/elk turns into exit status 1
	exitKnown bool
	topErr    string
	rootStat  string
	nreports  int
}

var markerRe = regexp.MustCompile(`RUN (\d+)`)

func statusName(s test.TestStatus) string {
	switch s {
	case test.TEST_PENDING:
		return "PENDING"
	case test.TEST_FAILED:
		return "FAILED"
	case test.TEST_ERROR:
		return "ERROR"
	case test.TEST_SKIPPED:
		return "SKIPPED"
	case test.TEST_RUNNING:
		return "RUNNING"
	case test.TEST_SUCCESS:
		return "SUCCESS"
	}
	return fmt.Sprint(uint8(s))
}

// runInProcess does what cmd/elk's runTest does: register the filters, interpret the file, run the root suite.
func runInProcess(fn *vm.BytecodeFunction, fs []filter, seed uint64) (o observation, err error) {
	test.RootSuite = test.NewSuite("", nil, nil)
	test.CurrentSuite = test.RootSuite
	test.Filters = nil
	// cmd/elk registers --grep first, then every --path
	for pass := 0; pass < 2; pass++ {
		for _, f := range fs {
			if pass == 0 && f.grep != "" {
				rf, e := test.NewRegexFilter(f.grep)
				if e != nil {
					return o, e
				}
				test.RegisterFilter(rf)
			}
			if pass == 1 && f.grep == "" {
				arg := f.path
				if f.line > 0 {
					arg += ":" + strconv.Itoa(f.line)
				}
				pf, e := test.NewPathFilter(arg)
				if e != nil {
					return o, e
				}
				test.RegisterFilter(pf)
			}
		}
	}
	var out bytes.Buffer
	v := vm.New(vm.WithStdout(&out), vm.WithStderr(&out))
	_, elkErr := v.InterpretTopLevel(fn)
	if !elkErr.IsUndefined() {
		o.topErr = elkErr.Inspect()
		o.failure = true
		v.Aborter.CancelFunc()()
		return o, nil
	}
	rec := &recorder{}
	v2 := vm.New(vm.WithStdout(&out), vm.WithStderr(&out))
	report := test.RunWith(v2, rec, make(chan *test.ReportEvent, 50), seed)
	// detach the threads' cancel contexts from the global aborter (each vm.New registers a child context)
	v.Aborter.CancelFunc()()
	v2.Aborter.CancelFunc()()
	// the exit status is decided by cmd/elk from the root report: FAILED/ERROR ⇒ failure, SUCCESS ⇒ success; what
	// it does with any other status is observed through the real CLI only
	o.failure = report == nil || report.Status() == test.TEST_FAILED || report.Status() == test.TEST_ERROR
	o.exitKnown = report == nil || o.failure || report.Status() == test.TEST_SUCCESS
	if report != nil {
		o.rootStat = statusName(report.Status())
	} else {
		o.rootStat = "nil-report"
	}
	o.statuses = map[int]test.TestStatus{}
	for _, cr := range rec.finished {
		o.nreports++
		for _, m := range markerRe.FindAllStringSubmatch(cr.Stdout().String(), -1) {
			k, _ := strconv.Atoi(m[1])
			o.ran = append(o.ran, k)
			o.statuses[k] = cr.Status()
		}
	}
	// anything printed outside a case report (a case body run outside Case.Run) also counts as executed
	for _, m := range markerRe.FindAllStringSubmatch(out.String(), -1) {
		k, _ := strconv.Atoi(m[1])
		o.ran = append(o.ran, k)
	}
	return o, nil
}

// ---------------------------------------------------------------------------------------------------------
// judging

func kindsOf(p *program, fs []filter) []string {
	var ks []string
	for _, f := range fs {
		ks = append(ks, f.kind(p))
	}
	sort.Strings(ks)
	return ks
}

func filterSig(p *program, fs []filter) string {
	ks := kindsOf(p, fs)
	if len(ks) == 0 {
		return "[no filter]"
	}
	return "[" + strings.Join(ks, " + ") + "]"
}

func argsOf(fs []filter) string {
	var a []string
	for _, f := range fs {
		a = append(a, f.arg())
	}
	if len(a) == 0 {
		return "(no filter)"
	}
	return strings.Join(a, " ")
}

func intsStr(xs []int) string {
	var s []string
	for _, x := range xs {
		s = append(s, strconv.Itoa(x))
	}
	return "{" + strings.Join(s, ",") + "}"
}

// judge compares an observation with the reference; mode is "inproc" or "cli".
func judge(r *engine.R, p *program, fs []filter, mode string, ran []int, failure, exitKnown bool, extra string) {
	sel, ok := p.selected(fs)
	if !ok {
		r.Count("undecided_by_statement", 1)
		return
	}
	input := map[string]any{"file": fileName, "source": p.src, "filters": argsOf(fs), "mode": mode}
	count := map[int]int{}
	for _, k := range ran {
		count[k]++
	}
	inSel := map[int]bool{}
	for _, k := range sel {
		inSel[k] = true
	}
	var missing, surplus, dup []int
	for k := range p.cases {
		switch {
		case inSel[k] && count[k] == 0:
			missing = append(missing, k)
		case !inSel[k] && count[k] > 0:
			surplus = append(surplus, k)
		}
		if count[k] > 1 {
			dup = append(dup, k)
		}
	}
	ranSet := []int{}
	for k := range p.cases {
		if count[k] > 0 {
			ranSet = append(ranSet, k)
		}
	}
	detail := func(what string) string {
		return fmt.Sprintf("%s\nelk test %s   (%s)\nselected by the statement: cases %s; executed: %s (execution order %v)%s\n--- %s ---\n%s",
			what, argsOf(fs), mode, intsStr(sel), intsStr(ranSet), ran, extra, fileName, numbered(p.src))
	}
	fsig := filterSig(p, fs)
	if len(fs) == 2 && strings.Contains(fsig, "path:LINE-of-describe") && len(surplus) == 0 && len(dup) == 0 {
		// one defect: the whole-suite match of path:LINE-of-describe is lost as soon as a second filter is given
		fsig = "[path:LINE-of-describe + any second filter]"
	}
	// the engine keeps two violations per signature and case: do not format the others
	viol := func(sig, what string) {
		n := 0
		for _, v := range r.Viol {
			if v.Sig == sig {
				n++
			}
		}
		if n >= 2 {
			r.Count("violations_total", 1)
			return
		}
		r.Violation(sig, detail(what), input)
	}
	if len(missing) > 0 {
		viol("selected case not run: filters="+fsig, fmt.Sprintf("case(s) %s satisfy every filter but were not run", intsStr(missing)))
	}
	if len(surplus) > 0 {
		viol("unselected case run: filters="+fsig, fmt.Sprintf("case(s) %s do not satisfy every filter but were run", intsStr(surplus)))
	}
	if len(dup) > 0 {
		viol("case run more than once: filters="+fsig, fmt.Sprintf("case(s) %s ran more than once", intsStr(dup)))
	}
	// exit status: failure ⇔ some case that ran failed or errored
	bad := false
	for _, k := range ranSet {
		if p.cases[k].outcome != 0 {
			bad = true
		}
	}
	switch {
	case !exitKnown:
		r.Count("inproc_root_status_neither_success_nor_failure (exit status judged through the CLI only)", 1)
	case failure && !bad && len(ranSet) == 0:
		viol("exit status failure although no case ran (zero cases selected)", "no case ran, so no case failed or errored, but the run is reported as a failure (exit status 1)")
	case failure && !bad:
		viol("exit status failure although every executed case passed", "every executed case passed but the run is reported as a failure")
	case !failure && bad:
		viol("exit status success although an executed case failed or errored", "an executed case failed or errored but the run is reported as a success (exit status 0)")
	}
	// outcome classes for the evidence
	oc := fmt.Sprintf("%s sel=%d", mode, len(sel))
	if !exitKnown {
		oc += " exit=?"
	} else if failure {
		oc += " exit=1"
	} else {
		oc += " exit=0"
	}
	r.Outcome(oc)
}

func numbered(src string) string {
	var b strings.Builder
	for i, l := range strings.Split(strings.TrimRight(src, "\n"), "\n") {
		fmt.Fprintf(&b, "%2d  %s\n", i+1, l)
	}
	return b.String()
}

// filterSets enumerates every subset of size ≤ 2.
func filterSets(fs []filter) [][]filter {
	sets := [][]filter{nil}
	for i := range fs {
		sets = append(sets, []filter{fs[i]})
	}
	for i := range fs {
		for j := i + 1; j < len(fs); j++ {
			sets = append(sets, []filter{fs[i], fs[j]})
		}
	}
	return sets
}

func nontrivialSet(p *program, fs []filter) bool {
	sel, _ := p.selected(fs)
	return len(fs) > 0 && len(sel) < len(p.cases)
}

// ---------------------------------------------------------------------------------------------------------
// CLI driver

var cliDir, cliBin string
var cliErr error

// prepareCLI builds cmd/elk once per check run (all workers share the parent's pid) under a file lock.
func prepareCLI() {
	base := filepath.Join(engine.Root, ".work", "c34")
	os.MkdirAll(base, 0o755)
	// stale run directories (replays leave theirs behind)
	if ents, err := os.ReadDir(base); err == nil {
		for _, e := range ents {
			if strings.HasPrefix(e.Name(), "run-") {
				if fi, err := e.Info(); err == nil && time.Since(fi.ModTime()) > 6*time.Hour {
					os.RemoveAll(filepath.Join(base, e.Name()))
				}
			}
		}
	}
	cliDir = filepath.Join(base, fmt.Sprintf("run-%d", os.Getppid()))
	os.MkdirAll(cliDir, 0o755)
	cliBin = filepath.Join(cliDir, "elk")
	lock, err := os.OpenFile(filepath.Join(cliDir, "lock"), os.O_CREATE|os.O_RDWR, 0o644)
	if err != nil {
		cliErr = err
		return
	}
	defer lock.Close()
	if err := syscall.Flock(int(lock.Fd()), syscall.LOCK_EX); err != nil {
		cliErr = err
		return
	}
	defer syscall.Flock(int(lock.Fd()), syscall.LOCK_UN)
	if _, err := os.Stat(cliBin); err == nil {
		return
	}
	mod := filepath.Join(cliDir, "mod")
	os.MkdirAll(mod, 0o755)
	os.WriteFile(filepath.Join(mod, "go.mod"), []byte("module c34cli\n\ngo 1.25.0\n\nrequire github.com/elk-language/elk v0.0.0\n\nreplace github.com/elk-language/elk => /repo\n"), 0o644)
	sum, err := os.ReadFile("/repo/go.sum")
	if err != nil {
		cliErr = err
		return
	}
	os.WriteFile(filepath.Join(mod, "go.sum"), sum, 0o644)
	args := []string{"build"}
	if ov := os.Getenv("VERIF_OVERLAY"); ov != "" {
		args = append(args, "-overlay", ov)
	}
	args = append(args, "-o", cliBin+".tmp", "github.com/elk-language/elk/cmd/elk")
	cmd := exec.Command("go", args...)
	cmd.Dir = mod
	cmd.Env = append(os.Environ(), "GOFLAGS=-mod=mod", "GOPROXY=off", "GOTOOLCHAIN=auto", "CGO_ENABLED=0")
	if outp, err := cmd.CombinedOutput(); err != nil {
		cliErr = fmt.Errorf("cannot build cmd/elk: %v\n%s", err, outp)
		return
	}
	cliErr = os.Rename(cliBin+".tmp", cliBin)
}

var summaryRe = regexp.MustCompile(`Summary: (\d+) cases, (\d+) passed, (\d+) skipped, (\d+) failed, (\d+) errors`)

// runCLI executes `elk test` on the program in a per-worker directory.
func runCLI(c *engine.Ctx, shard string, p *program, fs []filter) (stdout string, exit int, err error) {
	dir := filepath.Join(cliDir, "w"+shard)
	os.MkdirAll(dir, 0o755)
	if err := os.WriteFile(filepath.Join(dir, fileName), []byte(p.src), 0o644); err != nil {
		return "", 0, err
	}
	args := []string{"test", "--main", fileName}
	for _, f := range fs {
		if f.grep != "" {
			args = append(args, "--grep", f.grep)
		} else if f.line > 0 {
			args = append(args, "--path", fmt.Sprintf("%s:%d", f.path, f.line))
		} else {
			args = append(args, "--path", f.path)
		}
	}
	// a CLI run normally takes well under a second; on an overloaded machine it can take minutes. A run that is killed
	// by the timeout says nothing about elk: it is retried once with a longer limit and otherwise reported as errTimedOut.
	for _, limit := range []time.Duration{120 * time.Second, 300 * time.Second} {
		ctx, cancel := context.WithTimeout(context.Background(), limit)
		cmd := exec.CommandContext(ctx, cliBin, args...)
		cmd.Dir = dir
		cmd.Env = append(os.Environ(), "ELKPATH=/repo", "NO_COLOR=1", "GOMAXPROCS=2")
		var ob bytes.Buffer
		cmd.Stdout = &ob
		cmd.Stderr = &ob
		e := cmd.Run()
		timedOut := ctx.Err() != nil
		cancel()
		if timedOut {
			continue
		}
		if ee, ok := e.(*exec.ExitError); ok {
			if ee.ExitCode() < 0 {
				continue // killed by a signal: not an answer either
			}
			return ob.String(), ee.ExitCode(), nil
		}
		return ob.String(), 0, e
	}
	return "", 0, errTimedOut
}

var errTimedOut = fmt.Errorf("the elk CLI did not finish within the time limit (overloaded machine)")

// ---------------------------------------------------------------------------------------------------------

// classFirst is the first case with the given outcome (or case 0).
func classFirst(p *program, class int) int {
	for k := range p.cases {
		if p.cases[k].outcome == class {
			return k
		}
	}
	return 0
}

func outcomesOf(n, code int) []int {
	o := make([]int, n)
	for i := 0; i < n; i++ {
		o[i] = code % 3
		code /= 3
	}
	return o
}

func pow3(n int) int {
	r := 1
	for i := 0; i < n; i++ {
		r *= 3
	}
	return r
}

func outcomeStr(o []int) string {
	var s []string
	for _, x := range o {
		s = append(s, outcomeNames[x][:1])
	}
	return strings.Join(s, "")
}

func compile(p *program) (*vm.BytecodeFunction, string) {
	fn, diags := checker.CheckSource(fileName, p.src, nil, bitfield.BitField16{}, nil)
	if fn == nil || diags.IsFailure() {
		d := ""
		if diags != nil {
			d = diags.Error()
		}
		return nil, d
	}
	return fn, ""
}

func run(c *engine.Ctx) {
	// number of outcome assignments explored per tree of n cases (0 = all 3^n)
	perShape := map[int]int{1: 0, 2: 0, 3: 3, 4: 1}
	if c.Thorough {
		perShape = map[int]int{1: 0, 2: 0, 3: 0, 4: 9}
	}
	shard := strconv.Itoa(os.Getpid())
	only := os.Getenv("C34_ONLY") // development aid: "inproc" or "cli"
	for n := 1; n <= 4 && only != "cli"; n++ {
		for si, shape := range seqs(n, 0) {
			shape := shape
			codes := pow3(n)
			if n == 4 && !c.Thorough && si%4 != 0 {
				continue // quick: every fourth 4-case tree
			}
			for code := 0; code < codes; code++ {
				// a bounded number of assignments: all-pass first, then assignments rotating with the tree index
				if k := perShape[n]; k > 0 {
					keep := false
					for j := 0; j < k; j++ {
						if (j == 0 && k > 1 && code == 0) || (!(j == 0 && k > 1) && code == (si*7+j*31+1)%codes) {
							keep = true
						}
					}
					if !keep {
						continue
					}
				}
				outs := outcomesOf(n, code)
				id := fmt.Sprintf("inproc/%s/%s", shape, outcomeStr(outs))
				c.Case(id, func(r *engine.R) {
					p := render(shape, outs)
					fn, diag := compile(p)
					if fn == nil {
						r.Violation("generated test file rejected", "the checker rejected a generated .elk.test file:\n"+diag+"\n"+numbered(p.src), p.src)
						return
					}
					sets := filterSets(allFilters(p))
					for i, fs := range sets {
						o, err := runInProcess(fn, fs, uint64(i+1))
						if err != nil {
							panic(err)
						}
						r.Eval(1)
						if nontrivialSet(p, fs) {
							r.NT(1)
						}
						if o.topErr != "" {
							r.Violation("loading the test file raised an error", fmt.Sprintf("elk test %s: interpreting the file raised %s\n%s", argsOf(fs), o.topErr, numbered(p.src)), p.src)
							continue
						}
						judge(r, p, fs, "inproc", o.ran, o.failure, o.exitKnown, fmt.Sprintf("; root suite status %s", o.rootStat))
						// a case that ran must be reported with the status class of its outcome
						for k, st := range o.statuses {
							want := []test.TestStatus{test.TEST_SUCCESS, test.TEST_FAILED, test.TEST_ERROR}[p.cases[k].outcome]
							if st != want {
								r.Violation(fmt.Sprintf("case report status: %s case reported as %s", outcomeNames[p.cases[k].outcome], statusName(st)),
									fmt.Sprintf("elk test %s: case %d (%s) is reported as %s\n%s", argsOf(fs), k, outcomeNames[p.cases[k].outcome], statusName(st), numbered(p.src)), p.src)
							}
						}
					}
					r.Sample(fmt.Sprintf("shape %s outcomes %s: %d filter sets, e.g. `elk test %s`", shape, outcomeStr(outs), len(sets), argsOf(sets[len(sets)-1])))
				})
			}
		}
	}
	// the real CLI: every shape with ≤ 2 cases (thorough: ≤ 3) × every outcome assignment × {no filter, every single
	// filter, grep A + every path:line}
	cliMax := 2
	if c.Thorough {
		cliMax = 3
	}
	// each CLI invocation costs ~1 s of CPU (process start, std headers): full filter lists only for the small trees
	cliKeep := func(n, si, code int) (keep, full bool) {
		switch {
		case n == 1:
			return true, true
		case n == 2 && c.Thorough:
			return code == 0 || code == 1 || code == 6 || code == 4 || code == 8, false // pp, fp, pe, ff, ee
		case n == 2:
			return code == []int{0, 1, 6}[si%3], false // pp, fp, pe rotating over the trees
		}
		return code == (si*7+5)%27 && si%2 == 0, false // thorough: every second 3-case tree, one assignment
	}
	for n := 1; n <= cliMax && only != "inproc"; n++ {
		for si, shape := range seqs(n, 0) {
			shape := shape
			for code := 0; code < pow3(n); code++ {
				outs := outcomesOf(n, code)
				keep, full := cliKeep(n, si, code)
				if !keep {
					continue
				}
				c.Case(fmt.Sprintf("cli/%s/%s", shape, outcomeStr(outs)), func(r *engine.R) {
					if cliErr != nil {
						panic("infrastructure: " + cliErr.Error())
					}
					p := render(shape, outs)
					all := allFilters(p)
					sets := [][]filter{nil}
					for _, f := range all {
						// reduced list: --grep A, the first line of every describe and of the first case
						if full || f.grep == grepA || (f.line > 0 && (f.kind(p) == "path:LINE-of-describe" || f.line == p.cases[0].first)) {
							sets = append(sets, []filter{f})
						}
					}
					for _, f := range all {
						if f.line > 0 && ((c.Thorough && full && len(p.cases) == 1) || f.kind(p) == "path:LINE-of-describe") {
							sets = append(sets, []filter{{grep: grepA}, f})
						}
					}
					for _, fs := range sets {
						out, exit, err := runCLI(c, shard, p, fs)
						if err == errTimedOut {
							r.Count("cli invocation timed out twice (not judged)", 1)
							r.Capped("a CLI invocation did not finish within 300 s")
							continue
						}
						if err != nil {
							panic(fmt.Sprintf("infrastructure: cannot run the elk CLI: %v\n%s", err, out))
						}
						r.Eval(1)
						if nontrivialSet(p, fs) {
							r.NT(1)
						}
						m := summaryRe.FindStringSubmatch(out)
						if m == nil {
							r.Violation("cli: no summary printed", fmt.Sprintf("elk test %s (exit %d) printed:\n%s\n%s", argsOf(fs), exit, out, numbered(p.src)), p.src)
							continue
						}
						if exit != 0 && exit != 1 {
							r.Violation(fmt.Sprintf("cli: exit status %d", exit), fmt.Sprintf("elk test %s printed:\n%s", argsOf(fs), out), p.src)
							continue
						}
						// the CLI shows which cases ran only through counts per outcome and the names of failures:
						// reconstruct the executed multiset where that is unambiguous, else compare the counts.
						nums := make([]int, 6)
						for i := 1; i <= 5; i++ {
							nums[i], _ = strconv.Atoi(m[i])
						}
						sel, _ := p.selected(fs)
						got := [3]int{nums[2], nums[4], nums[5]}
						// executed multiset as far as the output identifies it: failed/errored cases are listed by name in the
						// failure list; beyond that the summary gives the number of executed cases per outcome class. Those are
						// attributed to the not yet listed cases of that class: selected ones first, then unselected ones
						// (direction and size of a mismatch are exact, the identity of a mismatching case may not be).
						var ran []int
						inSel := map[int]bool{}
						for _, k := range sel {
							inSel[k] = true
						}
						for class := 0; class < 3; class++ {
							left := got[class]
							listed := map[int]bool{}
							if class != 0 {
								for k := range p.cases {
									if p.cases[k].outcome != class {
										continue
									}
									for i := strings.Count(out, "it "+p.cases[k].name+":\n"); i > 0; i-- {
										ran = append(ran, k)
										listed[k] = true
										left--
									}
								}
							}
							for pass := 0; pass < 2 && left > 0; pass++ {
								for k := range p.cases {
									if p.cases[k].outcome == class && !listed[k] && inSel[k] == (pass == 0) && left > 0 {
										ran = append(ran, k)
										left--
									}
								}
							}
							for ; left > 0; left-- {
								ran = append(ran, classFirst(p, class)) // more runs than cases of the class: some case ran twice
							}
						}
						sort.Ints(ran)
						judge(r, p, fs, "cli", ran, exit == 1, true, "\n"+strings.TrimSpace(out))
						if nums[1] != len(ran) {
							r.Count("cli_summary_total_differs", 1)
						}
					}
					r.Sample(fmt.Sprintf("cli: shape %s outcomes %s: %d invocations of `elk test --main %s …`", shape, outcomeStr(outs), len(sets), fileName))
				})
			}
		}
	}
}

func main() {
	engine.Main(&engine.Spec{
		Prop:  "C34",
		Level: "exploration",
		Rule: "every ordered suite tree with describe nesting ≤ 2 and ≤ 4 cases (3+14+70+353 trees) × assignments of pass/fail(assertion)/error(throw) to the cases " +
			"(quick: all 3^n for n ≤ 2, 3 per tree for n = 3, 1 per tree for every fourth tree of n = 4; thorough: all for n ≤ 3, 9 per tree for n = 4) × " +
			"every filter set of size ≤ 2 from {--grep alpha, --grep 'grp.*(beta|four)$', --path file, --path glob, --path other file, --path file:L for every line L of the file and one past its end}, " +
			"registered and run in-process exactly as cmd/elk does (compiled once per tree and assignment, re-registered and run per filter set); plus the real `elk test` CLI on every tree with ≤ 2 cases (thorough: ≤ 3) × " +
			"a subset of assignments × {no filter, each single filter, --grep + path:line} (full filter lists for the 1-case trees, reduced lists — --grep, first lines of the describes and of the first case, --grep + describe lines — for the larger trees: a CLI run costs 1–2 s CPU); " +
			"oracle: independent selector (regex over the names of the enclosing suites and the case; file pattern and line inside the case or on the first line of an enclosing describe), executed multiset == selected set, " +
			"exit failure ⇔ an executed case failed/errored; non-trivial = a non-empty filter set that selects a proper subset of the cases",
		Assume: []string{
			"path:LINE selects the cases whose source span contains the line and every case of a describe whose first line is LINE (the runner's own single-filter behaviour agrees with this reading)",
			"a case's execution is observed through a marker its body prints (captured in the case report); the CLI identifies passing cases only by count",
			"Go regexp and Elk regex agree on the two simple patterns used",
		},
		Setup: func(c *engine.Ctx) {
			elkrun.Init()
			// two fresh VM threads per evaluation, as cmd/elk does: keep them cheap (the generated programs nest ≤ 6 calls)
			runtime.GOMAXPROCS(2) // 16 workers share the machine; the work of a worker is sequential
			vm.INIT_VALUE_STACK_SIZE = 512
			vm.CALL_STACK_SIZE = 64
			if os.Getenv("C34_ONLY") != "inproc" {
				prepareCLI()
			}
		},
		Run:           run,
		CaseTimeout:   600 * time.Second,
		QuickDeadline: 12 * time.Minute, // the tier is sized for ~1 min on 16 idle cores; the cap only matters on an overloaded machine
		Finish: func(a *engine.Agg) {
			os.RemoveAll(filepath.Join(engine.Root, ".work", "c34", fmt.Sprintf("run-%d", os.Getpid())))
		},
	})
}
