// C21 — regex translation preserves Elk regex semantics.
//
// Bounded-exhaustive differential check. Patterns are generated as TEXT from an enumeration of small regex
// syntax trees; each pattern text × flag set is taken through two routes:
//
//	(a) the implementation: value.CompileRegex(text, flags) and (*value.Regex).MatchesString(subject)
//	(b) a reference with Elk semantics: extended mode is resolved on the pattern text (unescaped whitespace and
//	    #-comments outside character classes are removed wherever `x` is in force, honouring scoped (?x: ) /
//	    (?-x: ) groups), the remaining text is parsed by /repo/regex/parser, the Elk AST is converted into a small
//	    tree annotated with the flags in force at every node, and the tree is evaluated with a position-set
//	    semantics (for every start position the set of end positions a node can reach); a subject is accepted iff
//	    some start position has a non-empty end set (unanchored search, like regexp.MatchString).
//
// Oracle: compile error, or the same accept/reject verdict for every subject.
//
// Semantics used by the reference (from regex/flag/flag.go, regex/transpile.go and the transpiler tests):
//
//	i  case-insensitive (simple case folding), m  ^/$ also match at line starts/ends, s  . matches \n,
//	U  ungreedy (no effect on the accepted language), x  extended, a  ASCII-only \d \w \s \h \v.
//	Without `a`: \d = Nd, \w = L|Mn|Nd|Pc, \s = unicode.IsSpace, \h = tab|Zs, \v = \n \v \f \r NEL LS PS.
//	`$` without m matches only at the very end of the text, `.` without s matches everything except \n.
//
// Left out because Elk's intended meaning cannot be established from the code: \b \B (passed through to Go's
// ASCII-only \b even in Unicode mode), named classes [[:alpha:]], \p{..}, bare (?i) groups, back-references.
package main

import (
	"fmt"
	"regexp"
	"runtime"
	"sort"
	"strconv"
	"strings"
	"unicode"

	"github.com/elk-language/elk/bitfield"
	rparser "github.com/elk-language/elk/regex/parser"
	"github.com/elk-language/elk/regex/parser/ast"
	"github.com/elk-language/elk/value"

	"verifharness/elkrun"
	"verifharness/engine"
)

// ---------------------------------------------------------------------------------------------------------
// flags

const (
	fI uint8 = 1 << iota
	fM
	fS
	fU
	fX
	fA
)

const flagChars = "imsUxa"

func flagStr(f uint8) string {
	var b strings.Builder
	for i := 0; i < 6; i++ {
		if f&(1<<i) != 0 {
			b.WriteByte(flagChars[i])
		}
	}
	if b.Len() == 0 {
		return "-"
	}
	return b.String()
}

// ---------------------------------------------------------------------------------------------------------
// reference tree

type kind uint8

const (
	kEmpty kind = iota
	kChar
	kAny
	kBol
	kEol
	kAbsBol
	kAbsEol
	kEsc   // \d \D \w \W \s \S \h \H \v \V
	kClass // [...]
	kGroup
	kUnion
	kConcat
	kRep // {n,m}; m<0 = unbounded
)

type classItem struct {
	lo, hi rune
	esc    byte // 0: range lo..hi
}

type node struct {
	k          kind
	r          rune
	esc        byte
	neg        bool
	items      []classItem
	set, unset uint8
	bare       bool // (?i) without content
	n, m       int
	kids       []*node
	fl         uint8 // flags in force (set by annotate)
}

func escPred(esc byte, r rune, ascii bool) bool {
	var v bool
	switch esc | 0x20 {
	case 'd':
		if ascii {
			v = r >= '0' && r <= '9'
		} else {
			v = unicode.Is(unicode.Nd, r)
		}
	case 'w':
		if ascii {
			v = r == '_' || (r >= '0' && r <= '9') || (r >= 'a' && r <= 'z') || (r >= 'A' && r <= 'Z')
		} else {
			v = unicode.IsLetter(r) || unicode.Is(unicode.Mn, r) || unicode.Is(unicode.Nd, r) || unicode.Is(unicode.Pc, r)
		}
	case 's':
		if ascii {
			v = r == ' ' || r == '\t' || r == '\n' || r == '\f' || r == '\r'
		} else {
			v = unicode.IsSpace(r)
		}
	case 'h':
		if ascii {
			v = r == ' ' || r == '\t'
		} else {
			v = r == '\t' || unicode.Is(unicode.Zs, r)
		}
	case 'v':
		v = r == '\n' || r == '\v' || r == '\f' || r == '\r'
		if !ascii {
			v = v || r == 0x85 || r == 0x2028 || r == 0x2029
		}
	}
	if esc&0x20 == 0 { // upper-case letter: negation
		return !v
	}
	return v
}

func foldEq(a, b rune) bool {
	if a == b {
		return true
	}
	for f := unicode.SimpleFold(a); f != a; f = unicode.SimpleFold(f) {
		if f == b {
			return true
		}
	}
	return false
}

func inRangeFold(r, lo, hi rune, ci bool) bool {
	if r >= lo && r <= hi {
		return true
	}
	if !ci {
		return false
	}
	for f := unicode.SimpleFold(r); f != r; f = unicode.SimpleFold(f) {
		if f >= lo && f <= hi {
			return true
		}
	}
	return false
}

func (n *node) classMatch(r rune) bool {
	ci := n.fl&fI != 0
	ascii := n.fl&fA != 0
	hit := false
	for _, it := range n.items {
		if it.esc != 0 {
			if escPred(it.esc, r, ascii) {
				hit = true
				break
			}
		} else if inRangeFold(r, it.lo, it.hi, ci) {
			hit = true
			break
		}
	}
	return hit != n.neg
}

// ends returns the set (bit mask) of positions at which a match of n starting at position p can end.
func (n *node) ends(s []rune, p int) uint16 {
	switch n.k {
	case kEmpty:
		return 1 << p
	case kChar:
		if p < len(s) && (s[p] == n.r || (n.fl&fI != 0 && foldEq(s[p], n.r))) {
			return 1 << (p + 1)
		}
		return 0
	case kAny:
		if p < len(s) && (n.fl&fS != 0 || s[p] != '\n') {
			return 1 << (p + 1)
		}
		return 0
	case kBol:
		if p == 0 || (n.fl&fM != 0 && s[p-1] == '\n') {
			return 1 << p
		}
		return 0
	case kEol:
		if p == len(s) || (n.fl&fM != 0 && s[p] == '\n') {
			return 1 << p
		}
		return 0
	case kAbsBol:
		if p == 0 {
			return 1 << p
		}
		return 0
	case kAbsEol:
		if p == len(s) {
			return 1 << p
		}
		return 0
	case kEsc:
		if p < len(s) && escPred(n.esc, s[p], n.fl&fA != 0) {
			return 1 << (p + 1)
		}
		return 0
	case kClass:
		if p < len(s) && n.classMatch(s[p]) {
			return 1 << (p + 1)
		}
		return 0
	case kGroup:
		if len(n.kids) == 0 {
			return 1 << p
		}
		return n.kids[0].ends(s, p)
	case kUnion:
		return n.kids[0].ends(s, p) | n.kids[1].ends(s, p)
	case kConcat:
		cur := uint16(1) << p
		for _, k := range n.kids {
			cur = step(k, s, cur)
			if cur == 0 {
				return 0
			}
		}
		return cur
	case kRep:
		cur := uint16(1) << p
		var res uint16
		if n.n == 0 {
			res = cur
		}
		k := n.kids[0]
		if n.m < 0 {
			for i := 1; i <= n.n; i++ {
				cur = step(k, s, cur)
			}
			if n.n > 0 {
				res = cur
			}
			// closure
			for {
				nx := res | step(k, s, res)
				if nx == res {
					return res
				}
				res = nx
			}
		}
		for i := 1; i <= n.m; i++ {
			cur = step(k, s, cur)
			if cur == 0 {
				break
			}
			if i >= n.n {
				res |= cur
			}
		}
		return res
	}
	panic("unreachable")
}

func step(k *node, s []rune, from uint16) uint16 {
	var out uint16
	for p := 0; from != 0; p, from = p+1, from>>1 {
		if from&1 != 0 {
			out |= k.ends(s, p)
		}
	}
	return out
}

func (n *node) search(s []rune) bool {
	for p := 0; p <= len(s); p++ {
		if n.ends(s, p) != 0 {
			return true
		}
	}
	return false
}

// annotate stores the flags in force at every node; returns the flags in force after the node (a bare (?i)
// group changes them for the rest of the enclosing group).
func annotate(n *node, fl uint8) uint8 {
	n.fl = fl
	switch n.k {
	case kGroup:
		inner := (fl | n.set) &^ n.unset
		if n.bare {
			return inner
		}
		n.fl = inner
		if len(n.kids) > 0 {
			annotate(n.kids[0], inner)
		}
		return fl
	case kUnion:
		fl = annotate(n.kids[0], fl)
		return annotate(n.kids[1], fl)
	case kConcat:
		for _, k := range n.kids {
			fl = annotate(k, fl)
		}
		return fl
	case kRep:
		return annotate(n.kids[0], fl)
	}
	return fl
}

// ---------------------------------------------------------------------------------------------------------
// Elk AST -> reference tree

type unsupported string

func rep(k *node, n, m int) *node { return &node{k: kRep, n: n, m: m, kids: []*node{k}} }

func atoi(s string, def int) int {
	if s == "" {
		return def
	}
	v, err := strconv.Atoi(s)
	if err != nil {
		panic(unsupported("quantifier bound " + s))
	}
	return v
}

func classRune(e ast.Node) rune {
	switch c := e.(type) {
	case *ast.CharNode:
		return c.Value
	case *ast.MetaCharEscapeNode:
		return c.Value
	case *ast.NewlineEscapeNode:
		return '\n'
	case *ast.TabEscapeNode:
		return '\t'
	}
	panic(unsupported(fmt.Sprintf("class element %T", e)))
}

func escOf(e ast.Node) byte {
	switch e.(type) {
	case *ast.WordCharClassNode:
		return 'w'
	case *ast.NotWordCharClassNode:
		return 'W'
	case *ast.DigitCharClassNode:
		return 'd'
	case *ast.NotDigitCharClassNode:
		return 'D'
	case *ast.WhitespaceCharClassNode:
		return 's'
	case *ast.NotWhitespaceCharClassNode:
		return 'S'
	case *ast.HorizontalWhitespaceCharClassNode:
		return 'h'
	case *ast.NotHorizontalWhitespaceCharClassNode:
		return 'H'
	case *ast.VerticalWhitespaceCharClassNode:
		return 'v'
	case *ast.NotVerticalWhitespaceCharClassNode:
		return 'V'
	}
	return 0
}

func convert(a ast.Node) *node {
	if a == nil {
		return &node{k: kEmpty}
	}
	if e := escOf(a); e != 0 {
		return &node{k: kEsc, esc: e}
	}
	switch n := a.(type) {
	case *ast.ConcatenationNode:
		if len(n.Elements) == 0 {
			return &node{k: kEmpty}
		}
		c := &node{k: kConcat}
		for _, e := range n.Elements {
			c.kids = append(c.kids, convert(e))
		}
		return c
	case *ast.UnionNode:
		return &node{k: kUnion, kids: []*node{convert(n.Left), convert(n.Right)}}
	case *ast.ZeroOrOneQuantifierNode:
		return rep(convert(n.Regex), 0, 1)
	case *ast.ZeroOrMoreQuantifierNode:
		return rep(convert(n.Regex), 0, -1)
	case *ast.OneOrMoreQuantifierNode:
		return rep(convert(n.Regex), 1, -1)
	case *ast.NQuantifierNode:
		v := atoi(n.N, 0)
		return rep(convert(n.Regex), v, v)
	case *ast.NMQuantifierNode:
		return rep(convert(n.Regex), atoi(n.N, 0), atoi(n.M, -1))
	case *ast.GroupNode:
		g := &node{k: kGroup, set: n.SetFlags.Byte(), unset: n.UnsetFlags.Byte()}
		if n.Regex == nil {
			if g.set != 0 || g.unset != 0 {
				g.bare = true
			}
			return g
		}
		g.kids = []*node{convert(n.Regex)}
		return g
	case *ast.CharNode:
		return &node{k: kChar, r: n.Value}
	case *ast.MetaCharEscapeNode:
		return &node{k: kChar, r: n.Value}
	case *ast.NewlineEscapeNode:
		return &node{k: kChar, r: '\n'}
	case *ast.TabEscapeNode:
		return &node{k: kChar, r: '\t'}
	case *ast.AnyCharClassNode:
		return &node{k: kAny}
	case *ast.StartOfStringAnchorNode:
		return &node{k: kBol}
	case *ast.EndOfStringAnchorNode:
		return &node{k: kEol}
	case *ast.AbsoluteStartOfStringAnchorNode:
		return &node{k: kAbsBol}
	case *ast.AbsoluteEndOfStringAnchorNode:
		return &node{k: kAbsEol}
	case *ast.QuotedTextNode:
		c := &node{k: kConcat}
		for _, r := range n.Value {
			c.kids = append(c.kids, &node{k: kChar, r: r})
		}
		if len(c.kids) == 0 {
			return &node{k: kEmpty}
		}
		return c
	case *ast.CharClassNode:
		c := &node{k: kClass, neg: n.Negated}
		for _, e := range n.Elements {
			if x := escOf(e); x != 0 {
				c.items = append(c.items, classItem{esc: x})
				continue
			}
			if rg, ok := e.(*ast.CharRangeNode); ok {
				c.items = append(c.items, classItem{lo: classRune(rg.Left), hi: classRune(rg.Right)})
				continue
			}
			r := classRune(e)
			c.items = append(c.items, classItem{lo: r, hi: r})
		}
		return c
	}
	panic(unsupported(fmt.Sprintf("%T", a)))
}

// canon renders a reference tree structurally (used to compare the generator's tree with the reparsed one).
func canon(n *node, b *strings.Builder) {
	switch n.k {
	case kEmpty:
		b.WriteString("E")
	case kChar:
		fmt.Fprintf(b, "c%d", n.r)
	case kAny:
		b.WriteString(".")
	case kBol:
		b.WriteString("^")
	case kEol:
		b.WriteString("$")
	case kAbsBol:
		b.WriteString("\\A")
	case kAbsEol:
		b.WriteString("\\z")
	case kEsc:
		b.WriteByte('\\')
		b.WriteByte(n.esc)
	case kClass:
		fmt.Fprintf(b, "[%v", n.neg)
		for _, it := range n.items {
			fmt.Fprintf(b, " %d-%d%c", it.lo, it.hi, it.esc+1)
		}
		b.WriteString("]")
	case kGroup:
		fmt.Fprintf(b, "(%d-%d:", n.set, n.unset)
		for _, k := range n.kids {
			canon(k, b)
		}
		b.WriteString(")")
	case kUnion:
		b.WriteString("U<")
		canon(n.kids[0], b)
		b.WriteString("|")
		canon(n.kids[1], b)
		b.WriteString(">")
	case kConcat:
		b.WriteString("C<")
		for _, k := range n.kids {
			if k.k == kConcat { // flatten
				for _, kk := range k.kids {
					canon(kk, b)
					b.WriteString(",")
				}
				continue
			}
			canon(k, b)
			b.WriteString(",")
		}
		b.WriteString(">")
	case kRep:
		fmt.Fprintf(b, "R%d,%d<", n.n, n.m)
		canon(n.kids[0], b)
		b.WriteString(">")
	}
}

func canonStr(n *node) string {
	var b strings.Builder
	if n.k == kConcat {
		// flatten nested left-assoc concatenations produced by the generator
		flat := &node{k: kConcat}
		var walk func(x *node)
		walk = func(x *node) {
			if x.k == kConcat {
				for _, k := range x.kids {
					walk(k)
				}
				return
			}
			flat.kids = append(flat.kids, x)
		}
		walk(n)
		n = flat
	}
	canon(n, &b)
	return b.String()
}

// ---------------------------------------------------------------------------------------------------------
// extended mode on the pattern text

type stripInfo struct {
	xUsed               bool // extended mode removed something
	comment             bool // a comment was removed
	commentHas          string
	wsRemoved           bool
	unterminatedComment bool
}

// stripExtended removes, wherever x is in force, unescaped whitespace and #-comments outside character classes,
// and removes the x flag from group headers. ok=false when the text uses a construct the stripper does not model.
func stripExtended(text string, x bool) (out string, info stripInfo, ok bool) {
	rs := []rune(text)
	var b strings.Builder
	var stack []bool
	i := 0
	for i < len(rs) {
		c := rs[i]
		switch {
		case c == '\\':
			if i+1 >= len(rs) {
				return "", info, false
			}
			if rs[i+1] == 'Q' {
				j := i + 2
				for j+1 < len(rs) && !(rs[j] == '\\' && rs[j+1] == 'E') {
					j++
				}
				if j+1 >= len(rs) {
					return "", info, false
				}
				b.WriteString(string(rs[i : j+2]))
				i = j + 2
				continue
			}
			b.WriteRune(c)
			b.WriteRune(rs[i+1])
			i += 2
		case c == '[':
			// copy the class verbatim
			j := i + 1
			if j < len(rs) && rs[j] == '^' {
				j++
			}
			for j < len(rs) && rs[j] != ']' {
				if rs[j] == '\\' {
					j++
				} else if rs[j] == '[' {
					return "", info, false // named classes are outside the modelled space
				}
				j++
			}
			if j >= len(rs) {
				return "", info, false
			}
			b.WriteString(string(rs[i : j+1]))
			i = j + 1
		case c == '(':
			stack = append(stack, x)
			if i+1 < len(rs) && rs[i+1] == '?' {
				j := i + 2
				if j < len(rs) && (rs[j] == ':' || rs[j] == '<' || rs[j] == '\'' || rs[j] == 'P' || rs[j] == '#') {
					if rs[j] != ':' {
						return "", info, false
					}
					b.WriteString("(?:")
					i = j + 1
					continue
				}
				// flags
				var set, unset []rune
				neg := false
				for j < len(rs) && rs[j] != ':' && rs[j] != ')' {
					switch {
					case rs[j] == '-':
						neg = true
					case strings.ContainsRune(flagChars, rs[j]):
						if rs[j] == 'x' {
							x = !neg
						} else if neg {
							unset = append(unset, rs[j])
						} else {
							set = append(set, rs[j])
						}
					default:
						return "", info, false
					}
					j++
				}
				if j >= len(rs) {
					return "", info, false
				}
				if rs[j] == ')' {
					return "", info, false // bare flag groups: not modelled by the stripper
				}
				b.WriteString("(?")
				b.WriteString(string(set))
				if len(unset) > 0 {
					b.WriteString("-" + string(unset))
				}
				b.WriteString(":")
				i = j + 1
				continue
			}
			b.WriteRune(c)
			i++
		case c == ')':
			if len(stack) > 0 {
				x = stack[len(stack)-1]
				stack = stack[:len(stack)-1]
			}
			b.WriteRune(c)
			i++
		case x && unicode.IsSpace(c):
			info.xUsed, info.wsRemoved = true, true
			i++
		case x && c == '#':
			info.xUsed, info.comment = true, true
			j := i + 1
			for j < len(rs) && rs[j] != '\n' {
				j++
			}
			info.commentHas += string(rs[i+1 : j])
			if j >= len(rs) {
				info.unterminatedComment = true
				i = j
			} else {
				i = j + 1
			}
		default:
			b.WriteRune(c)
			i++
		}
	}
	return b.String(), info, true
}

// ---------------------------------------------------------------------------------------------------------
// subjects

var subjects []string
var subjRunes [][]rune

const words = 16 // bitmap words (subjects <= 1024)

type bitmap [words]uint64

func initSubjects() {
	base := []string{"a", "b", "A", "é", "1", " ", "\n", "#", "_"}
	ext := append(append([]string{}, base...), "\u0663", "\u00a0", "\u2028")
	seen := map[string]bool{}
	add := func(s string) {
		if !seen[s] {
			seen[s] = true
			subjects = append(subjects, s)
		}
	}
	var gen func(alpha []string, prefix string, n int)
	gen = func(alpha []string, prefix string, n int) {
		add(prefix)
		if n == 0 {
			return
		}
		for _, a := range alpha {
			gen(alpha, prefix+a, n-1)
		}
	}
	gen(base, "", 3)
	gen(ext, "", 2)
	if len(subjects) > words*64 {
		panic("too many subjects")
	}
	for _, s := range subjects {
		subjRunes = append(subjRunes, []rune(s))
	}
}

func refBitmap(n *node) (bm bitmap) {
	for i, s := range subjRunes {
		if n.search(s) {
			bm[i>>6] |= 1 << (i & 63)
		}
	}
	return
}

func (bm *bitmap) count() int {
	c := 0
	for _, w := range bm {
		for ; w != 0; w &= w - 1 {
			c++
		}
	}
	return c
}

func firstDiff(a, b *bitmap) int {
	for i := range subjects {
		if (a[i>>6]^b[i>>6])&(1<<(i&63)) != 0 {
			return i
		}
	}
	return -1
}

// ---------------------------------------------------------------------------------------------------------
// the two routes

type refResult struct {
	ok       bool
	why      string // when !ok
	bm       bitmap
	info     stripInfo
	stripped string
}

type evaluator struct {
	refMemo  map[string]*refResult
	implMemo map[string]*bitmap
}

func newEvaluator() *evaluator {
	return &evaluator{refMemo: map[string]*refResult{}, implMemo: map[string]*bitmap{}}
}

// refTree builds the annotated reference tree of (text, flags), or explains why the reference is undefined.
func refTree(text string, fl uint8) (n *node, stripped string, info stripInfo, why string) {
	stripped, info, ok := stripExtended(text, fl&fX != 0)
	if !ok {
		return nil, "", info, "outside-model"
	}
	defer func() {
		if p := recover(); p != nil {
			n = nil
			if u, ok := p.(unsupported); ok {
				why = "unsupported-node " + string(u)
			} else {
				why = fmt.Sprintf("parser-panic %v", p)
			}
		}
	}()
	a, errs := rparser.Parse(stripped)
	if len(errs) > 0 {
		return nil, stripped, info, "ill-formed-after-x-removal"
	}
	n = convert(a)
	annotate(n, fl&(fI|fM|fS|fA))
	return n, stripped, info, ""
}

func (e *evaluator) ref(text string, fl uint8) *refResult {
	key := string([]byte{fl &^ fU}) + text
	if r, ok := e.refMemo[key]; ok {
		return r
	}
	r := &refResult{}
	n, stripped, info, why := refTree(text, fl)
	r.info, r.stripped = info, stripped
	if n == nil {
		r.why = why
	} else {
		r.ok = true
		r.bm = refBitmap(n)
	}
	e.refMemo[key] = r
	return r
}

type implResult struct {
	err   string // compile error ("" = compiled)
	panic string
	bm    *bitmap
	goSrc string
}

func bf(fl uint8) bitfield.BitField8 { return bitfield.BitField8FromInt(fl) }

func (e *evaluator) regexBitmap(re *value.Regex) *bitmap {
	src := re.Re.String()
	if bm, ok := e.implMemo[src]; ok {
		return bm
	}
	bm := &bitmap{}
	for i, s := range subjects {
		if re.MatchesString(s) {
			bm[i>>6] |= 1 << (i & 63)
		}
	}
	e.implMemo[src] = bm
	return bm
}

func (e *evaluator) impl(text string, fl uint8) (res implResult) {
	defer func() {
		if p := recover(); p != nil {
			res.panic = fmt.Sprint(p)
		}
	}()
	re, err := value.CompileRegex(text, bf(fl))
	if err != nil {
		res.err = err.Error()
		if res.err == "" {
			res.err = "error"
		}
		return
	}
	res.goSrc = re.Re.String()
	res.bm = e.regexBitmap(re)
	return
}

// ---------------------------------------------------------------------------------------------------------
// pattern generation (text + generator tree)

type pat struct {
	text string
	tree *node
	size int
	cat  uint8 // 0 atom, 1 quant, 2 concat, 3 union
}

type leafSpec struct {
	text string
	mk   func() *node
}

func chr(r rune) func() *node { return func() *node { return &node{k: kChar, r: r} } }
func escn(c byte) leafSpec {
	return leafSpec{"\\" + string(c), func() *node { return &node{k: kEsc, esc: c} }}
}

func leaves() []leafSpec {
	l := []leafSpec{
		{"a", chr('a')}, {"b", chr('b')}, {" ", chr(' ')}, {"#", chr('#')}, {"\n", chr('\n')},
		{".", func() *node { return &node{k: kAny} }},
		{"^", func() *node { return &node{k: kBol} }},
		{"$", func() *node { return &node{k: kEol} }},
	}
	for _, c := range []byte("dDwWsShHvV") {
		l = append(l, escn(c))
	}
	l = append(l,
		leafSpec{"[ab]", func() *node { return &node{k: kClass, items: []classItem{{lo: 'a', hi: 'a'}, {lo: 'b', hi: 'b'}}} }},
		leafSpec{"[^a]", func() *node { return &node{k: kClass, neg: true, items: []classItem{{lo: 'a', hi: 'a'}}} }},
		leafSpec{"[a-c]", func() *node { return &node{k: kClass, items: []classItem{{lo: 'a', hi: 'c'}}} }},
	)
	return l
}

type groupSpec struct {
	open       string
	set, unset uint8
}

var groupKinds = []groupSpec{{"(", 0, 0}, {"(?i:", fI, 0}, {"(?x:", fX, 0}, {"(?-i:", 0, fI}}

type quantSpec struct {
	text string
	n, m int
}

var quantKinds = []quantSpec{{"*", 0, -1}, {"+", 1, -1}, {"?", 0, 1}, {"{1,2}", 1, 2}}

// generate returns all patterns with at most max nodes, ordered by size then by construction order.
func generate(max int) []pat {
	by := make([][]pat, max+1) // by size
	for _, l := range leaves() {
		by[1] = append(by[1], pat{l.text, l.mk(), 1, 0})
	}
	for n := 2; n <= max; n++ {
		var cur []pat
		// atoms: groups around any regex of size n-1
		for _, g := range groupKinds {
			for _, p := range by[n-1] {
				cur = append(cur, pat{g.open + p.text + ")", &node{k: kGroup, set: g.set, unset: g.unset, kids: []*node{p.tree}}, n, 0})
			}
		}
		// quantifiers on atoms of size n-1
		for _, q := range quantKinds {
			for _, p := range by[n-1] {
				if p.cat != 0 {
					continue
				}
				cur = append(cur, pat{p.text + q.text, rep(p.tree, q.n, q.m), n, 1})
			}
		}
		// concatenation: left in {concat, quant, atom}, right in {quant, atom}
		for a := 1; a <= n-2; a++ {
			b := n - 1 - a
			for _, l := range by[a] {
				if l.cat == 3 {
					continue
				}
				for _, r := range by[b] {
					if r.cat > 1 {
						continue
					}
					cur = append(cur, pat{l.text + r.text, &node{k: kConcat, kids: []*node{l.tree, r.tree}}, n, 2})
				}
			}
		}
		// union: left any, right non-union
		for a := 1; a <= n-2; a++ {
			b := n - 1 - a
			for _, l := range by[a] {
				for _, r := range by[b] {
					if r.cat == 3 {
						continue
					}
					cur = append(cur, pat{l.text + "|" + r.text, &node{k: kUnion, kids: []*node{l.tree, r.tree}}, n, 3})
				}
			}
		}
		by[n] = cur
	}
	var all []pat
	for n := 1; n <= max; n++ {
		all = append(all, by[n]...)
	}
	return all
}

// ---------------------------------------------------------------------------------------------------------
// classification of a mismatch into a defect signature

func esc(s string) string { return strconv.Quote(s) }

// hasX reports whether extended mode is in force anywhere in (text, flags).
func hasX(text string, fl uint8) bool {
	return fl&fX != 0 || strings.Contains(text, "(?x")
}

// mismatch reports whether the implementation compiles (text, fl) and disagrees with a defined reference.
func (e *evaluator) mismatch(text string, fl uint8) bool {
	r := e.ref(text, fl)
	if !r.ok {
		return false
	}
	im := e.impl(text, fl)
	if im.bm == nil {
		return false
	}
	return *im.bm != r.bm
}

// classify assigns defect signatures to a mismatch at (text, fl). The verdict (violation) is already decided;
// these experiments only decide which defect(s) the case is filed under.
func (e *evaluator) classify(text string, fl uint8) (sigs []string, minFl uint8) {
	// 1. smallest flag set (greedy) under which the same pattern still mismatches
	minFl = fl
	for _, f := range []uint8{fU, fS, fM, fI, fA, fX} {
		if minFl&f != 0 && e.mismatch(text, minFl&^f) {
			minFl &^= f
		}
	}
	r := e.ref(text, minFl)
	im := e.impl(text, minFl)
	// 2. top-level flags the implementation ignores: removing the flag does not change the implementation's
	//    language but changes the reference's
	for i, f := range []uint8{fI, fM, fS} {
		if minFl&f == 0 {
			continue
		}
		r2 := e.ref(text, minFl&^f)
		im2 := e.impl(text, minFl&^f)
		if r2.ok && im2.bm != nil && *im2.bm == *im.bm && r2.bm != r.bm {
			sigs = append(sigs, "top-level flag "+string(flagChars[i])+" has no effect")
		}
	}
	if len(sigs) > 0 {
		return sigs, minFl
	}
	// 3. extended mode: only blamed when the pattern with extended mode already resolved behaves correctly
	if r.info.xUsed {
		if e.mismatch(r.stripped, minFl&^fX) {
			s2, _ := e.classify(r.stripped, minFl&^fX)
			return s2, minFl
		}
		what := "whitespace"
		if r.info.comment {
			what = "comment"
			switch {
			case strings.Contains(r.info.commentHas, "|"):
				what += " containing |"
			case strings.ContainsAny(r.info.commentHas, "()"):
				what += " containing a parenthesis"
			}
		}
		return []string{fmt.Sprintf("extended mode: %s changes the meaning", what)}, minFl
	}
	// 4. anything else: simplify the pattern while it keeps mismatching (every leaf that can be replaced by `a`,
	//    every scoped flag group that can lose its flags), then name the most specific construct that is left
	red := e.reduce(text, minFl)
	return []string{"mismatch flags=" + flagStr(minFl) + " construct=" + topConstruct(red)}, minFl
}

// tokens splits a pattern text into leaves (literal characters, escapes, classes, . ^ $), group headers and
// other structural characters.
func tokens(text string) (toks []string, leaf []bool) {
	rs := []rune(text)
	for i := 0; i < len(rs); {
		j := i + 1
		isLeaf := true
		switch rs[i] {
		case '\\':
			j = i + 2
		case '[':
			for j < len(rs) && rs[j] != ']' {
				if rs[j] == '\\' {
					j++
				}
				j++
			}
			j++
		case '(':
			isLeaf = false
			if j < len(rs) && rs[j] == '?' {
				for j < len(rs) && rs[j] != ':' && rs[j] != ')' {
					j++
				}
				j++
			}
		case '{':
			isLeaf = false
			for j < len(rs) && rs[j] != '}' {
				j++
			}
			j++
		case ')', '|', '*', '+', '?':
			isLeaf = false
		}
		if j > len(rs) {
			j = len(rs)
		}
		toks = append(toks, string(rs[i:j]))
		leaf = append(leaf, isLeaf)
		i = j
	}
	return
}

func (e *evaluator) reduce(text string, fl uint8) string {
	toks, leaf := tokens(text)
	for i := range toks {
		old := toks[i]
		switch {
		case leaf[i] && old != "a":
			toks[i] = "a"
		case strings.HasPrefix(old, "(?") && old != "(?:":
			toks[i] = "(?:"
		default:
			continue
		}
		if !e.mismatch(strings.Join(toks, ""), fl) {
			toks[i] = old
		}
	}
	return strings.Join(toks, "")
}

// topConstruct names the most specific construct present in the pattern (coarse on purpose: one defect, one name).
func topConstruct(text string) string {
	rank := map[string]int{}
	add := func(s string, p int) { rank[s] = p }
	rs := []rune(text)
	for i := 0; i < len(rs); i++ {
		switch rs[i] {
		case '\\':
			if i+1 < len(rs) {
				add("class escape", 5)
				i++
			}
		case '[':
			negEsc, other, anyEsc := 0, 0, 0
			i++
			if i < len(rs) && rs[i] == '^' {
				i++
			}
			for i < len(rs) && rs[i] != ']' {
				if rs[i] == '\\' && i+1 < len(rs) {
					anyEsc++
					if strings.ContainsRune("WSHV", rs[i+1]) {
						negEsc++
					} else {
						other++
					}
					i++
				} else {
					other++
				}
				i++
			}
			switch {
			case negEsc > 0 && other == 0:
				add("[...] holding only negated escapes (\\W \\S \\H \\V)", 10)
			case negEsc > 0:
				add("[...] mixing negated escapes with other elements", 9)
			case anyEsc > 0:
				add("[...] with class escapes", 8)
			default:
				add("[...]", 1)
			}
		case '(':
			if i+2 < len(rs) && rs[i+1] == '?' && rs[i+2] != ':' {
				add("scoped flag group", 6)
			}
		case '|':
			add("|", 4)
		case '^', '$':
			add("anchor", 3)
		case '.':
			add(".", 2)
		}
	}
	best, bp := "plain", 0
	var keys []string
	for k := range rank {
		keys = append(keys, k)
	}
	sort.Strings(keys)
	for _, k := range keys {
		if rank[k] > bp {
			best, bp = k, rank[k]
		}
	}
	return best
}

// ---------------------------------------------------------------------------------------------------------
// comparison of one (pattern, flags)

var goValid = regexp.MustCompile(`\\[hHvV]|\(\?[a-zA-Z-]*[xa]`)

// goReference validates the reference itself: where Elk and Go syntax coincide (ASCII flag set, no \h \v, no x/a
// scoped flags) Go's own matcher on the same text must agree with the reference.
func (e *evaluator) goReference(text string, fl uint8) (bm *bitmap, ok bool) {
	if fl&fA == 0 || fl&fX != 0 || goValid.MatchString(text) {
		return nil, false
	}
	prefix := ""
	if g := fl & (fI | fM | fS | fU); g != 0 {
		prefix = "(?" + flagStr(g) + ")"
	}
	re, err := regexp.Compile(prefix + text)
	if err != nil {
		return nil, false
	}
	key := "go:" + prefix + text
	if b, ok := e.implMemo[key]; ok {
		return b, true
	}
	b := &bitmap{}
	for i, s := range subjects {
		if re.MatchString(s) {
			b[i>>6] |= 1 << (i & 63)
		}
	}
	e.implMemo[key] = b
	return b, true
}

func (e *evaluator) compare(r *engine.R, family, text string, fl uint8) {
	ref := e.ref(text, fl)
	im := e.impl(text, fl)
	input := map[string]any{"pattern": text, "flags": flagStr(fl)}
	if im.panic != "" {
		r.Violation("go-panic in CompileRegex/MatchesString: "+engine.PanicSig(im.panic, ""), fmt.Sprintf("pattern %s flags %s: %s", esc(text), flagStr(fl), im.panic), input)
		return
	}
	if ref.ok {
		if gb, ok := e.goReference(text, fl); ok {
			r.Count("reference_validated_against_go_regexp", 1)
			if *gb != ref.bm {
				d := firstDiff(gb, &ref.bm)
				r.Note(fmt.Sprintf("REFERENCE SELF-CHECK FAILED: pattern %s flags %s subject %s", esc(text), flagStr(fl), esc(subjects[d])))
				r.Capped("reference matcher disagrees with Go regexp on the common ASCII subset")
				r.Count("reference_selfcheck_failed", 1)
			}
		}
	}
	switch {
	case im.err != "":
		r.Count("impl_compile_error", 1)
		if strings.HasPrefix(im.err, "error parsing regexp") {
			r.Outcome("compile-error (Go regexp rejects the translation)")
		} else {
			r.Outcome("compile-error (Elk parser/transpiler)")
		}
		return
	case !ref.ok:
		r.Count("reference_undefined:"+strings.SplitN(ref.why, " ", 2)[0], 1)
		r.Outcome("reference undefined (" + strings.SplitN(ref.why, " ", 2)[0] + ")")
		return
	}
	r.Eval(len(subjects))
	nAcc := ref.bm.count()
	if nAcc != 0 && nAcc != len(subjects) {
		r.NT(1)
	}
	if *im.bm == ref.bm {
		switch {
		case nAcc == 0:
			r.Outcome("agree: rejects every subject")
		case nAcc == len(subjects):
			r.Outcome("agree: accepts every subject")
		case ref.info.xUsed:
			r.Outcome("agree: proper language, extended mode removed text")
		default:
			r.Outcome("agree: proper language")
		}
		return
	}
	r.Outcome("DISAGREE")
	sigs, minFl := e.classify(text, fl)
	if minFl != fl {
		r.Count("mismatch_also_present_with_fewer_flags", 1)
	}
	mr, mi := e.ref(text, minFl), e.impl(text, minFl)
	d := firstDiff(mi.bm, &mr.bm)
	s := subjects[d]
	implSays := mi.bm[d>>6]&(1<<(d&63)) != 0
	detail := fmt.Sprintf("pattern %s flags %s (smallest flag set with the defect: %s): subject %s: implementation matches=%v, Elk semantics matches=%v\n"+
		"Go regexp produced by the implementation: %s\npattern after resolving extended mode: %s\nimplementation accepts %d of %d subjects, reference %d",
		esc(text), flagStr(fl), flagStr(minFl), esc(s), implSays, !implSays, esc(mi.goSrc), esc(mr.stripped), mi.bm.count(), len(subjects), mr.bm.count())
	input["min_flags"] = flagStr(minFl)
	input["subject"] = s
	_ = family
	for _, sig := range sigs {
		r.Violation(sig, detail, input)
	}
}

// ---------------------------------------------------------------------------------------------------------
// flag sets

func flagSets(all bool) []uint8 {
	if all {
		var out []uint8
		for f := 0; f < 64; f++ {
			out = append(out, uint8(f))
		}
		return out
	}
	return []uint8{0, fI, fM, fS, fU, fX, fA, fI | fX, fM | fX, fS | fX, fA | fX, fI | fA, fM | fS, fI | fX | fA, fI | fM | fS | fU, 63}
}

// ---------------------------------------------------------------------------------------------------------
// families

// classPatterns: every character class with one or two elements, negated or not, alone and in three contexts.
func classPatterns() []string {
	elems := []string{"a", "#", " ", "a-c", "1", "é"}
	for _, c := range "dDwWsShHvV" {
		elems = append(elems, "\\"+string(c))
	}
	var classes []string
	for _, neg := range []string{"", "^"} {
		for _, e := range elems {
			classes = append(classes, "["+neg+e+"]")
		}
		for _, e1 := range elems {
			for _, e2 := range elems {
				if e1 != e2 {
					classes = append(classes, "["+neg+e1+e2+"]")
				}
			}
		}
	}
	var out []string
	for _, c := range classes {
		out = append(out, c, c+"+", "^"+c+"$", "(?i:"+c+")", "(?a:"+c+")", "(?-a:"+c+")", "(?x:"+c+" )")
	}
	return out
}

var scopedFlagSpecs = []string{"i", "m", "s", "U", "x", "a", "-i", "-m", "-s", "-U", "-x", "-a", "ix", "i-x", "x-i", "ms", "a-i", "imsUxa", "-imsUxa", "xa"}

// scopedPatterns: L (?G: M ) R for every flag spec G and every tree M of exactly mSize nodes.
func scopedPatterns(mSize int, ls, rs []string) []string {
	var out []string
	for _, g := range scopedFlagSpecs {
		for _, m := range generate(mSize) {
			if m.size != mSize {
				continue
			}
			for _, l := range ls {
				for _, rr := range rs {
					out = append(out, l+"(?"+g+":"+m.text+")"+rr)
				}
			}
		}
	}
	return out
}

type operand struct {
	text string
	fl   uint8
}

func compositionOperands() []operand {
	var texts []string
	for _, l := range leaves() {
		texts = append(texts, l.text)
	}
	texts = append(texts, "a|b", "a*", "ab", "a #c", "a b", "^a", "a$", "(?i:a)", "(?x:a b)", "a|", "|b", "a #c\n", "(?-i:a)", "[ab]+", "a.")
	var ops []operand
	for _, fl := range []uint8{0, fI, fM, fS, fX, fA, fI | fX} {
		for _, t := range texts {
			ops = append(ops, operand{t, fl})
		}
	}
	return ops
}

func chunked(c *engine.Ctx, prefix string, n, size int, f func(r *engine.R, lo, hi int)) {
	for lo := 0; lo < n; lo += size {
		lo, hi := lo, lo+size
		if hi > n {
			hi = n
		}
		c.Case(fmt.Sprintf("%s/%d-%d", prefix, lo, hi-1), func(r *engine.R) { f(r, lo, hi) })
	}
}

type job struct {
	text string
	tree *node // generator tree (trees family only)
	fls  []uint8
}

func run(c *engine.Ctx) {
	max := 4
	if c.Thorough {
		max = 5
	}
	few, all := flagSets(false), flagSets(true)
	// Which flag sets a pattern meets: quick: the 16 chosen sets everywhere; thorough: all 64, except that trees of
	// 5 nodes and scoped groups around 2-node trees meet the 16 chosen sets (the space would otherwise not fit the budget).
	wide := func(small bool) []uint8 {
		if c.Thorough && small {
			return all
		}
		return few
	}
	pats := generate(max)
	var trees []job
	{
		// distinct texts only (different trees can print to the same text, e.g. concatenations)
		seen := make(map[string]bool, len(pats))
		for _, p := range pats {
			if !seen[p.text] {
				seen[p.text] = true
				trees = append(trees, job{p.text, p.tree, wide(p.size <= 4)})
			}
		}
	}
	chunk := 24
	// family A: the tree enumeration
	chunked(c, "trees", len(trees), chunk, func(r *engine.R, lo, hi int) {
		e := newEvaluator()
		for _, p := range trees[lo:hi] {
			// the parser must read the printed tree back (no extended mode involved)
			if !strings.Contains(p.text, "(?x") {
				func() {
					defer func() {
						if x := recover(); x != nil {
							r.Violation("parser: go-panic on printed tree", fmt.Sprintf("pattern %s: %v", esc(p.text), x), p.text)
						}
					}()
					a, errs := rparser.Parse(p.text)
					if len(errs) > 0 {
						r.Violation("parser: rejects a well-formed pattern", fmt.Sprintf("pattern %s: %v", esc(p.text), errs), p.text)
						return
					}
					got, want := canonStr(convert(a)), canonStr(p.tree)
					r.Count("parser_roundtrips", 1)
					if got != want {
						r.Violation("parser: printed tree is read back as a different tree", fmt.Sprintf("pattern %s: generated %s, parsed %s", esc(p.text), want, got), p.text)
					}
				}()
			}
			for _, fl := range p.fls {
				e.compare(r, "pattern", p.text, fl)
			}
		}
		r.Sample(fmt.Sprintf("pattern %s x %d flag sets x %d subjects", esc(trees[hi-1].text), len(trees[hi-1].fls), len(subjects)))
	})
	// family B: scoped flag groups
	var sp []job
	for _, t := range scopedPatterns(1, []string{"", "a", ".", " ", "^"}, []string{"", "a", ".", " ", "$", "\\d"}) {
		sp = append(sp, job{t, nil, wide(true)})
	}
	if c.Thorough {
		for _, t := range scopedPatterns(2, []string{"", "a", " "}, []string{"", "a", "$"}) {
			sp = append(sp, job{t, nil, few})
		}
	}
	chunked(c, "scoped", len(sp), chunk, func(r *engine.R, lo, hi int) {
		e := newEvaluator()
		for _, p := range sp[lo:hi] {
			for _, fl := range p.fls {
				e.compare(r, "scoped-flags", p.text, fl)
			}
		}
		r.Sample(fmt.Sprintf("pattern %s x %d flag sets", esc(sp[hi-1].text), len(sp[hi-1].fls)))
	})
	// family C: character classes with class escapes
	cp := classPatterns()
	cfl := wide(true)
	chunked(c, "classes", len(cp), chunk, func(r *engine.R, lo, hi int) {
		e := newEvaluator()
		for _, t := range cp[lo:hi] {
			for _, fl := range cfl {
				e.compare(r, "class", t, fl)
			}
		}
		r.Sample(fmt.Sprintf("pattern %s x %d flag sets", esc(cp[hi-1]), len(cfl)))
	})
	// family D: composition
	ops := compositionOperands()
	chunked(c, "concat", len(ops), 1, func(r *engine.R, lo, hi int) {
		e := newEvaluator()
		for _, l := range ops[lo:hi] {
			for _, rr := range ops {
				compareConcat(r, e, l, rr)
			}
		}
		r.Sample(fmt.Sprintf("%s + each of %d operands", lit(ops[lo]), len(ops)))
	})
	chunked(c, "repeat", len(ops), 16, func(r *engine.R, lo, hi int) {
		e := newEvaluator()
		for _, o := range ops[lo:hi] {
			for _, n := range []int{0, 1, 2, 3} {
				compareRepeat(r, e, o, n)
			}
		}
	})
}

func operandTree(o operand) *node {
	n, _, _, _ := refTree(o.text, o.fl)
	return n
}

func compileOperand(o operand) *value.Regex {
	defer func() { recover() }()
	re, err := value.CompileRegex(o.text, bf(o.fl))
	if err != nil {
		return nil
	}
	return re
}

// composeVerdict compares a composed regex with the composition of the operands' reference trees. A disagreement is
// filed under the operand's own defect when an operand is already mistranslated by itself, otherwise under a
// composition-specific signature.
func composeVerdict(r *engine.R, e *evaluator, op, expr string, want *node, got value.Value, err value.Value, operands []operand) {
	if !err.IsUndefined() {
		r.Outcome("composition: error")
		r.Count("composition_error", 1)
		return
	}
	re, ok := got.SafeAsReference().(*value.Regex)
	if !ok {
		r.Violation(op+": result is not a Regex", expr+" returned "+got.Inspect(), expr)
		return
	}
	bm := e.regexBitmap(re)
	wb := refBitmap(want)
	r.Eval(len(subjects))
	if c := wb.count(); c != 0 && c != len(subjects) {
		r.NT(1)
	}
	if *bm == wb {
		r.Outcome("composition: agree")
		return
	}
	r.Outcome("composition: DISAGREE")
	d := firstDiff(bm, &wb)
	implSays := bm[d>>6]&(1<<(d&63)) != 0
	detail := fmt.Sprintf("%s = %s (Go: %s): subject %s: implementation matches=%v, Elk semantics matches=%v",
		expr, re.Inspect(), esc(re.Re.String()), esc(subjects[d]), implSays, !implSays)
	var sigs []string
	for _, o := range operands {
		if e.mismatch(o.text, o.fl) {
			sigs = []string{op + ": disagreement inherited from an operand that is already mistranslated by itself"}
		}
	}
	if len(sigs) == 0 {
		sigs = []string{op + ": composing correctly translated operands changes the meaning"}
	}
	for _, sg := range sigs {
		r.Violation(sg, detail, expr)
	}
}

func lit(o operand) string {
	fs := flagStr(o.fl)
	if fs == "-" {
		fs = ""
	}
	return "%/" + strings.ReplaceAll(o.text, "\n", "\\n") + "/" + fs
}

func compareConcat(r *engine.R, e *evaluator, l, rr operand) {
	lt, rt := operandTree(l), operandTree(rr)
	lre, rre := compileOperand(l), compileOperand(rr)
	if lt == nil || rt == nil || lre == nil || rre == nil {
		r.Count("composition_operand_undefined", 1)
		return
	}
	var got, err value.Value
	func() {
		defer func() {
			if p := recover(); p != nil {
				r.Violation("Regex#+: go-panic", fmt.Sprintf("%s + %s: %v", lit(l), lit(rr), p), nil)
				err = value.Nil
			}
		}()
		got, err = lre.ConcatVal(value.Ref(rre))
	}()
	want := &node{k: kConcat, kids: []*node{lt, rt}}
	composeVerdict(r, e, "Regex#+", lit(l)+" + "+lit(rr), want, got, err, []operand{l, rr})
}

func compareRepeat(r *engine.R, e *evaluator, o operand, n int) {
	t := operandTree(o)
	re := compileOperand(o)
	if t == nil || re == nil {
		r.Count("composition_operand_undefined", 1)
		return
	}
	var got, err value.Value
	func() {
		defer func() {
			if p := recover(); p != nil {
				r.Violation("Regex#*: go-panic", fmt.Sprintf("%s * %d: %v", lit(o), n, p), nil)
				err = value.Nil
			}
		}()
		got, err = re.RepeatVal(value.SmallInt(n).ToValue())
	}()
	want := rep(t, n, n)
	composeVerdict(r, e, "Regex#*", fmt.Sprintf("%s * %d", lit(o), n), want, got, err, []operand{o})
}

func main() {
	engine.Main(&engine.Spec{
		Prop:  "C21",
		Level: "exploration",
		Rule: "every regex syntax tree with <= 4 (quick) / 5 (thorough) nodes over leaves {a b space # newline . ^ $ \\d \\D \\w \\W \\s \\S \\h \\H \\v \\V [ab] [^a] [a-c]}, " +
			"groups ( ) (?i: ) (?x: ) (?-i: ), |, concatenation, quantifiers * + ? {1,2}, printed to text (distinct texts only); plus L(?G:M)R for 20 scoped flag specs G (M one leaf; thorough also M of 2 nodes); " +
			"plus every character class of 1-2 elements over {a # space a-c 1 é \\d..\\V}, negated or not, in 7 contexts; each x 16 chosen flag sets (quick) / all 64 (thorough; 5-node trees and 2-node scoped bodies meet the 16 chosen sets) x " +
			"all subjects of length <= 3 over {a b A é 1 space newline # _} and length <= 2 with {arabic digit, NBSP, U+2028} added; plus Regex#+ over all ordered pairs of 252 (pattern, flags) operands and Regex#* for n in 0..3. " +
			"Oracle: compile error, or the same verdict as the reference matcher for every subject. Non-trivial = (pattern, flags) whose reference language on the subject set is neither empty nor everything",
		Assume: []string{
			"the Elk regex parser's tree for the pattern text left after extended-mode removal is the pattern's syntax tree (checked against the generator's tree for every pattern without (?x: ))",
			"`$` without m matches only at the very end of the text and \\s in ASCII mode is [ \\t\\n\\f\\r] (Go's reading; the subjects cannot distinguish the alternatives except for a trailing newline, where the reference follows Go)",
			"Go's regexp is correct on the ASCII subset (used only to validate the reference matcher itself)",
		},
		Setup: func(c *engine.Ctx) {
			runtime.GOMAXPROCS(2) // 16 worker processes: keep the Go runtime of each one small
			elkrun.Init()
			initSubjects()
		},
		Run: run,
	})
}
