// C19 — inspect output is Elk source that evaluates back to an equal value; integer literals in every
// base and String#to_int denote exactly the written value.
//
// Bounded-exhaustive: values are built through the Go API, inspected, the inspect text is evaluated as Elk
// source (batched as the elements of one list literal, bisected on failure, every failing element re-run
// alone) and the resulting value.Value is compared with the original through vm.Equal (both directions)
// plus class identity. Literals/to_int are compared with math/big.
package main

import (
	"fmt"
	"math"
	"math/big"
	"os"
	"regexp"
	"runtime/debug"
	"sort"
	"strings"
	"time"
	"unicode"
	"unicode/utf8"

	"github.com/elk-language/elk/bitfield"
	"github.com/elk-language/elk/value"
	"github.com/elk-language/elk/vm"

	"verifharness/elkrun"
	"verifharness/engine"
)

var th *vm.Thread

var timing = os.Getenv("C19_TIMING") != ""

// ---------------------------------------------------------------------------------------------
// evaluation of source texts to values

type evalRes struct {
	val      value.Value
	ok       bool
	rejected bool
	diags    string
	err      string
	panicSig string
	stack    string
}

func (e evalRes) outcome() string {
	switch {
	case e.ok:
		return "ok"
	case e.rejected:
		return "rejected"
	case e.panicSig != "":
		return "go-panic"
	case e.err != "":
		return "runtime-error"
	}
	return "no-value"
}

func (e evalRes) explain() string {
	switch {
	case e.ok:
		return "evaluates to " + safeInspect(e.val)
	case e.rejected:
		return "is rejected: " + firstLines(e.diags, 3)
	case e.panicSig != "":
		return "panics the implementation: " + e.panicSig
	case e.err != "":
		return "raises " + e.err
	}
	return "yields no value"
}

func firstLines(s string, n int) string {
	l := strings.Split(strings.TrimSpace(s), "\n")
	if len(l) > n {
		l = l[:n]
	}
	return strings.Join(l, " | ")
}

func safeInspect(v value.Value) (s string) {
	defer func() {
		if p := recover(); p != nil {
			s = fmt.Sprintf("<inspect panicked: %v>", p)
		}
	}()
	if v.IsUndefined() {
		return "<undefined>"
	}
	return v.Inspect()
}

// evalList evaluates `[s1, s2, …]` and returns the element values, or a failure.
func evalList(srcs []string) (vals []value.Value, fail evalRes) {
	var b strings.Builder
	b.WriteString("[\n")
	for _, s := range srcs {
		b.WriteString(s)
		b.WriteString(",\n")
	}
	b.WriteString("]\n")
	fn, res := elkrun.Compile(b.String(), nil)
	if fn == nil {
		return nil, evalRes{rejected: res.Rejected, diags: res.Diags, panicSig: res.PanicSig, stack: res.Stack}
	}
	var out strings.Builder
	var val, err value.Value
	var pres evalRes
	func() {
		defer func() {
			if p := recover(); p != nil {
				st := string(debug.Stack())
				pres = evalRes{panicSig: engine.PanicSig(fmt.Sprint(p), st), stack: st}
			}
		}()
		t := vm.New(vm.WithStdout(&out), vm.WithStderr(&out))
		val, err = t.InterpretTopLevel(fn)
	}()
	if pres.panicSig != "" {
		return nil, pres
	}
	if !err.IsUndefined() {
		return nil, evalRes{err: safeInspect(err)}
	}
	tup, ok := val.SafeAsReference().(value.ArrayTuple)
	if !ok {
		return nil, evalRes{err: "result is not a list: " + safeInspect(val)}
	}
	for _, e := range tup.Elements() {
		vals = append(vals, e)
	}
	if len(vals) != len(srcs) {
		return nil, evalRes{err: fmt.Sprintf("list of %d source elements evaluated to %d elements", len(srcs), len(vals))}
	}
	return vals, evalRes{}
}

func evalSolo(src string) evalRes {
	vals, fail := evalList([]string{src})
	if vals == nil {
		return fail
	}
	return evalRes{val: vals[0], ok: true}
}

var diagLineRe = regexp.MustCompile(`(?m)^p\.elk:(\d+):\d+:`)

// evalSet evaluates the sources with the given indices in one program. When the program is rejected, the
// elements named by the diagnostics' line numbers are evaluated alone and the rest is retried together;
// when that does not help (or the failure is a run-time one) the set is bisected. A single element's failure
// is always observed on a program that contains only that element.
func evalSet(srcs []string, idx []int, res []evalRes) {
	if len(idx) == 0 {
		return
	}
	sub := make([]string, len(idx))
	for i, k := range idx {
		sub[i] = srcs[k]
	}
	vals, fail := evalList(sub)
	if vals != nil {
		for i, k := range idx {
			res[k] = evalRes{val: vals[i], ok: true}
		}
		return
	}
	if len(idx) == 1 {
		res[idx[0]] = fail
		return
	}
	if fail.rejected {
		// line → element (line 1 is "[", element i starts on the line after element i-1 ends)
		start := make([]int, len(idx)+1)
		line := 2
		for i := range sub {
			start[i] = line
			line += strings.Count(sub[i], "\n") + 1
		}
		start[len(idx)] = line
		suspect := map[int]bool{}
		for _, m := range diagLineRe.FindAllStringSubmatch(fail.diags, -1) {
			var ln int
			fmt.Sscanf(m[1], "%d", &ln)
			for i := range sub {
				if ln >= start[i] && ln < start[i+1] {
					suspect[i] = true
				}
			}
		}
		if len(suspect) > 0 && len(suspect) < len(idx) {
			var rest []int
			for i, k := range idx {
				if suspect[i] {
					evalSet(srcs, []int{k}, res)
				} else {
					rest = append(rest, k)
				}
			}
			evalSet(srcs, rest, res)
			return
		}
	}
	mid := len(idx) / 2
	evalSet(srcs, idx[:mid], res)
	evalSet(srcs, idx[mid:], res)
}

// evalAll evaluates every source; a malformed element cannot mask or disturb the others, and callers
// re-run suspicious elements alone with evalSolo before reporting.
func evalAll(srcs []string) []evalRes {
	res := make([]evalRes, len(srcs))
	const batch = 400
	for lo := 0; lo < len(srcs); lo += batch {
		hi := lo + batch
		if hi > len(srcs) {
			hi = len(srcs)
		}
		idx := make([]int, 0, hi-lo)
		for i := lo; i < hi; i++ {
			idx = append(idx, i)
		}
		evalSet(srcs, idx, res)
	}
	return res
}

// ---------------------------------------------------------------------------------------------
// comparison

func isNaNValue(v value.Value) bool {
	if v.IsFloat() {
		return math.IsNaN(float64(v.AsFloat()))
	}
	if v.IsFloat32() {
		return math.IsNaN(float64(v.AsFloat32()))
	}
	if v.IsInlineFloat64() {
		return math.IsNaN(float64(v.AsInlineFloat64()))
	}
	switch r := v.SafeAsReference().(type) {
	case value.Float64:
		return math.IsNaN(float64(r))
	case *value.BigFloat:
		return r.IsNaN()
	}
	return false
}

// same reports whether got is "equal to the original": == in both directions and the same class.
func same(orig, got value.Value) (ok bool, how string) {
	defer func() {
		if p := recover(); p != nil {
			ok, how = false, fmt.Sprintf("equality-panic: %v", p)
		}
	}()
	if got.IsUndefined() {
		return false, "no value"
	}
	if orig.Class() != got.Class() {
		return false, fmt.Sprintf("class-differs (%s vs %s)", orig.Class().Name, got.Class().Name)
	}
	if isNaNValue(orig) {
		if isNaNValue(got) {
			return true, ""
		}
		return false, "not-equal"
	}
	e1, err1 := vm.Equal(th, orig, got)
	e2, err2 := vm.Equal(th, got, orig)
	if !err1.IsUndefined() || !err2.IsUndefined() {
		return false, "equality-error"
	}
	if !value.Truthy(e1) || !value.Truthy(e2) {
		return false, "not-equal"
	}
	return true, ""
}

// ---------------------------------------------------------------------------------------------
// items

type item struct {
	kind      string      // Char, String, Symbol, Float, …
	class     string      // the shape/form component of the signature
	orig      value.Value // the value (inspect items) or the exact expected value (literal items)
	src       string      // source text
	desc      string      // description of the original for the report
	literal   bool        // src is a hand-written literal (not inspect output)
	mayReject bool        // rejection is an admissible outcome (out-of-range literal)
	nt        bool
	skipIf    func() bool                                // the case is attributed to an element defect reported elsewhere
	classFn   func(how string, okv []bool) string        // class computed from the other items' results
	cmp       func(orig, got value.Value) (bool, string) // replaces same()
}

// runItems evaluates the items and reports violations. Returns per-item success.
func runItems(r *engine.R, items []item) []bool {
	okv := make([]bool, len(items))
	if len(items) == 0 {
		return okv
	}
	srcs := make([]string, len(items))
	for i := range items {
		srcs[i] = items[i].src
	}
	t0 := time.Now()
	res := evalAll(srcs)
	if timing {
		defer func() { r.Count("ms "+items[0].kind, int(time.Since(t0).Milliseconds())) }()
	}
	hows := make([]string, len(items))
	judge := func(it item, e evalRes) (bool, string) {
		if e.ok {
			return it.same(e.val)
		}
		if it.mayReject && e.rejected {
			return true, "rejected-as-expected"
		}
		return false, e.outcome()
	}
	for i, it := range items {
		r.Eval(1)
		if it.nt {
			r.NT(1)
		}
		okv[i], hows[i] = judge(it, res[i])
	}
	// report: a violation is recorded only after the element failed again in a program of its own (a
	// neighbour in the batch must never be blamed on it); at most 2 per signature are recorded per case, the
	// remaining occurrences of the same signature are only counted.
	recorded := map[string]int{}
	for i, it := range items {
		if okv[i] {
			if hows[i] == "rejected-as-expected" {
				r.Outcome(it.kind + " out-of-range literal rejected")
			} else {
				r.Outcome(it.kind + " ok")
			}
			continue
		}
		if it.skipIf != nil && it.skipIf() {
			r.Count("attributed_to_element_defect", 1)
			continue
		}
		sigOf := func(how string, e evalRes) string {
			if strings.HasPrefix(how, "class-differs") {
				how = "class-differs"
			}
			class := it.class
			if it.classFn != nil {
				class = it.classFn(how, okv)
			}
			sig := fmt.Sprintf("%s %s [%s]", it.kind, how, class)
			if e.panicSig != "" {
				sig += " " + e.panicSig
			}
			return sig
		}
		e, how := res[i], hows[i]
		sig := sigOf(how, e)
		if recorded[sig] >= 2 {
			r.Count("further_occurrences_of_recorded_signatures", 1)
			continue
		}
		if e.ok || len(items) > 1 {
			e = evalSolo(it.src)
			good, h := judge(it, e)
			if good {
				okv[i] = true
				r.Count("batch_failure_not_confirmed_alone", 1)
				continue
			}
			how = h
			sig = sigOf(how, e)
		}
		recorded[sig]++
		r.Outcome(it.kind + " " + strings.SplitN(how, " ", 2)[0])
		what := "inspect of " + it.desc + " is the source text"
		if it.literal {
			what = "the literal (expected value " + it.desc + ")"
		}
		r.Violation(sig, fmt.Sprintf("%s\n    %s\nwhich %s\nexpected a value equal to %s", what, it.src, e.explain(), safeInspect(it.orig)), it.src)
	}
	return okv
}

func (it item) same(got value.Value) (bool, string) {
	if it.cmp != nil {
		return it.cmp(it.orig, got)
	}
	return same(it.orig, got)
}

// ---------------------------------------------------------------------------------------------
// text units for strings, chars and symbols

type unit struct {
	s     string // bytes
	class string
}

func runeClass(r rune) string {
	switch r {
	case '\\':
		return "backslash"
	case '"', '\'', '`':
		return "quote"
	case '$', '#', '{', '}':
		return "interpolation-char"
	case '\n', '\t', '\r', '\a', '\b', '\v', '\f':
		return "named-escape"
	}
	g := unicode.IsGraphic(r)
	switch {
	case r < 0x80 && g:
		return "ascii"
	case r < 0x80:
		return "ascii-control(\\xNN)"
	case r <= 0xFF && !g:
		return "nongraphic-U+0080..U+00FF(\\xNN)"
	case r <= 0xFF:
		return "latin1-graphic"
	case r <= 0xFFFF && g:
		return "bmp-graphic"
	case r <= 0xFFFF:
		return "bmp-nongraphic(\\uNNNN)"
	case g:
		return "astral-graphic"
	}
	return "astral-nongraphic(\\UNNNNNNNN)"
}

func textUnits() []unit {
	var us []unit
	for _, r := range []rune{0x00, 0x07, 0x08, 0x09, 0x0A, 0x0B, 0x0C, 0x0D, 0x1B, 0x1F, 0x7F,
		'a', '0', ' ', '"', '\'', '`', '\\', '$', '#', '{', '}', '%', '/', 'n', 'x', 'u', '_', '+',
		0x80, 0x9F, 0xA0, 0xAD, 0xE9, 0xFF,
		0x301, 0x200B, 0x2028, 0xFEFF, 0xFFFD, 0x65E5,
		0x1F600, 0xE0001, 0x10FFFF} {
		us = append(us, unit{string(r), runeClass(r)})
	}
	for _, b := range []string{"\xFF", "\xC3", "\x80", "\xE2\x82", "\xED\xA0\x80"} {
		us = append(us, unit{b, "invalid-utf8-bytes"})
	}
	return us
}

// classOf builds the signature class of a text made of units: the classes of the units that fail on
// their own (the culprits), or, when every unit is fine alone, the combination.
func classOf(us []unit, idx []int, failsAlone []bool) string {
	if len(idx) == 0 {
		return "empty"
	}
	for _, i := range idx {
		if failsAlone[i] {
			return us[i].class
		}
	}
	set := map[string]bool{}
	for _, i := range idx {
		switch us[i].class {
		case "ascii", "latin1-graphic", "bmp-graphic", "astral-graphic":
			// plain graphic characters are written as themselves: not part of the signature
		default:
			set[us[i].class] = true
		}
	}
	if len(set) == 0 {
		set["plain graphic characters"] = true
	}
	var l []string
	for k := range set {
		l = append(l, k)
	}
	sort.Strings(l)
	return "combination of " + strings.Join(l, "+")
}

// unitFailure[kind] caches, per worker process, which single units fail the round trip on their own.
var unitFailure = map[string][]bool{}

func unitsFailingAlone(kind string, mk func(s string) (value.Value, string)) []bool {
	if f, ok := unitFailure[kind]; ok {
		return f
	}
	us := textUnits()
	srcs := make([]string, len(us))
	origs := make([]value.Value, len(us))
	for i, u := range us {
		origs[i], srcs[i] = mk(u.s)
	}
	res := evalAll(srcs)
	f := make([]bool, len(us))
	for i := range us {
		good := false
		if res[i].ok {
			good, _ = same(origs[i], res[i].val)
		}
		f[i] = !good
	}
	unitFailure[kind] = f
	return f
}

func mkString(s string) (value.Value, string) {
	v := value.Ref(value.String(s))
	return v, v.Inspect()
}

func mkSymbol(s string) (value.Value, string) {
	v := value.ToSymbol(s).ToValue()
	return v, v.Inspect()
}

// tuples enumerates all index tuples of length 0..maxLen over n units.
func tuples(n, maxLen int) [][]int {
	out := [][]int{{}}
	prev := [][]int{{}}
	for l := 1; l <= maxLen; l++ {
		var cur [][]int
		for _, p := range prev {
			for i := 0; i < n; i++ {
				t := make([]int, len(p)+1)
				copy(t, p)
				t[len(p)] = i
				cur = append(cur, t)
			}
		}
		out = append(out, cur...)
		prev = cur
	}
	return out
}

func join(us []unit, idx []int) string {
	var b strings.Builder
	for _, i := range idx {
		b.WriteString(us[i].s)
	}
	return b.String()
}

// ---------------------------------------------------------------------------------------------
// numbers

func floatSet() []float64 {
	fs := []float64{0, math.Copysign(0, -1), 1, -1, 0.5, -0.5, 0.1, 0.2, 0.30000000000000004, 1.5, 2.5, 1.0 / 3, 100, 1e5, 123456789,
		1e15, 1e16, 1e20, 1e21, 1e22, 1e23, 1e100, 1e-4, 1e-5, 1e-7, 1.5e-10, 5e-324, 2.2250738585072014e-308, 2.225073858507201e-308,
		math.MaxFloat64, -math.MaxFloat64, math.MaxFloat32, math.SmallestNonzeroFloat32, 1 << 24, 1<<24 + 1, 1 << 53, 1<<53 - 1, -(1 << 53),
		1 << 62, 1 << 63, -(1 << 63), 1 << 64, math.Pi, -math.E, 3.4028235e38, 1.17549435e-38, 65504, 0.001, 1234.5678, 1e6, 1e7, 999999.9999999999,
		123456789012345680, 4.35, 0.000001, 0.0000001, 2e-7, 1.7976931348623157e308, 9007199254740993, 6.02214076e23, 1e-320, math.NaN(), math.Inf(1), math.Inf(-1)}
	return fs
}

func numForm(src string) string {
	s := src
	f := ""
	if strings.HasPrefix(s, "-") {
		s = s[1:] // the sign is not part of the form
	}
	switch {
	case strings.Contains(s, "::"):
		return f + "named-constant"
	case strings.Contains(s, "e+"):
		return f + "exponent e+NN"
	case strings.Contains(s, "e-"):
		return f + "exponent e-NN"
	case strings.Contains(s, "."):
		return f + "fraction"
	}
	return f + "integral"
}

func pow2(n uint) *big.Int { return new(big.Int).Lsh(big.NewInt(1), n) }

func intSet() []*big.Int {
	var vs []*big.Int
	add := func(z *big.Int) {
		for _, v := range vs {
			if v.Cmp(z) == 0 {
				return
			}
		}
		vs = append(vs, z)
	}
	pm := func(z *big.Int) { add(z); add(new(big.Int).Neg(z)) }
	one := big.NewInt(1)
	add(big.NewInt(0))
	for _, k := range []int64{1, 2, 7, 9, 10, 11, 12, 15, 16, 100, 127, 128, 129, 255, 256, 1000, 32767, 32768, 65535, 65536, 1000000} {
		pm(big.NewInt(k))
	}
	for _, n := range []uint{31, 32, 62, 63, 64, 128} {
		pm(pow2(n))
		pm(new(big.Int).Sub(pow2(n), one))
		pm(new(big.Int).Add(pow2(n), one))
	}
	z, _ := new(big.Int).SetString("1000000000000000000000000000007", 10)
	pm(z)
	return vs
}

func toElkInt(z *big.Int) value.Value { return value.ToElkBigInt(new(big.Int).Set(z)).Normalize() }

type fixedType struct {
	suffix string
	bits   uint
	signed bool
	mk     func(z *big.Int) value.Value
}

func fixedTypes() []fixedType {
	return []fixedType{
		{"i8", 8, true, func(z *big.Int) value.Value { return value.Int8(z.Int64()).ToValue() }},
		{"i16", 16, true, func(z *big.Int) value.Value { return value.Int16(z.Int64()).ToValue() }},
		{"i32", 32, true, func(z *big.Int) value.Value { return value.Int32(z.Int64()).ToValue() }},
		{"i64", 64, true, func(z *big.Int) value.Value { return value.Int64(z.Int64()).ToValue() }},
		{"u8", 8, false, func(z *big.Int) value.Value { return value.UInt8(z.Uint64()).ToValue() }},
		{"u16", 16, false, func(z *big.Int) value.Value { return value.UInt16(z.Uint64()).ToValue() }},
		{"u32", 32, false, func(z *big.Int) value.Value { return value.UInt32(z.Uint64()).ToValue() }},
		{"u64", 64, false, func(z *big.Int) value.Value { return value.UInt64(z.Uint64()).ToValue() }},
		{"u", 64, false, func(z *big.Int) value.Value { return value.UInt(z.Uint64()).ToValue() }},
	}
}

func (t fixedType) rng() (lo, hi *big.Int) {
	if t.signed {
		return new(big.Int).Neg(pow2(t.bits - 1)), new(big.Int).Sub(pow2(t.bits-1), big.NewInt(1))
	}
	return big.NewInt(0), new(big.Int).Sub(pow2(t.bits), big.NewInt(1))
}

func inRange(z, lo, hi *big.Int) bool { return z.Cmp(lo) >= 0 && z.Cmp(hi) <= 0 }

// ---------------------------------------------------------------------------------------------

func chunk(n, size int, f func(lo, hi int)) {
	for lo := 0; lo < n; lo += size {
		hi := lo + size
		if hi > n {
			hi = n
		}
		f(lo, hi)
	}
}

func main() {
	engine.Main(&engine.Spec{
		Prop:  "C19",
		Level: "exploration",
		Rule: "values built through the Go API: every Char U+0000–U+02FF + 6 boundary code points (thorough: the whole BMP without surrogates + every 257th astral code point); " +
			"every String and every Symbol of ≤ 2 (thorough: 3) units over 49 units (controls, quotes, backslash, $ # { }, U+0080/9F/A0/AD/E9/FF, BMP and astral graphic/non-graphic, 5 invalid UTF-8 byte sequences) + 45 hand-picked symbol names; " +
			"64 floats × Float/Float32/Float64/BigFloat (+ high-precision BigFloats); Int boundary set; min/min+1/-1/0/1/max-1/max of the 9 fixed-width types; 17 regex sources × all 64 flag sets (compared by source and flags, == reported separately); 8 range kinds × 9 endpoint pairs; " +
			"lists/tuples/sets of ≤ 2 and maps/records of 1–2 entries over 21 atoms, and depth-2 collections over 15 depth-1 collections + 4 atoms (mutable collections are not used as set elements / map keys: they hash by identity); each is inspected, the text evaluated by checker+VM, the value compared with vm.Equal both ways + class. " +
			"Integer literals: boundary set × bases 2/4/8/10/12/16 × 4 spellings (plain, `_` groups, upper-case, `_` after prefix) × no suffix + 9 fixed-width suffixes (in range and just out of range); decimal float-suffix forms; " +
			"String#to_int through the Go API and the VM for the same digit strings with prefix/base 0, explicit base 2..36, sign, `_`, and malformed inputs (must raise FormatError). " +
			"A case is counted non-trivial when its text needs an escape/quote/exponent/suffix/prefix or is a collection; enumeration is without repetition",
		Assume: []string{"math/big and strconv are correct", "vm.Equal is the language's == (its own consistency is C18)"},
		Setup: func(c *engine.Ctx) {
			elkrun.Init()
			th = vm.New()
		},
		Run: run,
	})
}

func run(c *engine.Ctx) {
	runChars(c)
	runStrings(c)
	runSymbols(c)
	runFloats(c)
	runInts(c)
	runRegexes(c)
	runRanges(c)
	runCollections(c)
	runLiterals(c)
	runToInt(c)
}

// ---- chars

func runChars(c *engine.Ctx) {
	var rs []rune
	if c.Thorough {
		for r := rune(0); r <= 0xFFFF; r++ {
			if r >= 0xD800 && r <= 0xDFFF {
				continue
			}
			rs = append(rs, r)
		}
		for r := rune(0x10000); r <= 0x10FFFF; r += 257 {
			rs = append(rs, r)
		}
		rs = append(rs, 0x10FFFF)
	} else {
		for r := rune(0); r <= 0x2FF; r++ {
			rs = append(rs, r)
		}
		rs = append(rs, 0xD7FF, 0xE000, 0xFFFD, 0xFFFF, 0x10000, 0x10FFFF)
	}
	chunk(len(rs), 256, func(lo, hi int) {
		c.Case(fmt.Sprintf("char/U+%04X-U+%04X", rs[lo], rs[hi-1]), func(r *engine.R) {
			var items []item
			for _, ch := range rs[lo:hi] {
				v := value.Char(ch).ToValue()
				src := v.Inspect()
				items = append(items, item{kind: "Char", class: runeClass(ch), orig: v, src: src, desc: fmt.Sprintf("Char U+%04X", ch),
					nt: strings.Contains(src, "\\") || ch > 0x7F})
			}
			runItems(r, items)
			r.Sample(fmt.Sprintf("Char U+%04X inspects as %s", rs[hi-1], items[len(items)-1].src))
		})
	})
}

// ---- strings and symbols

func runTexts(c *engine.Ctx, kind string, mk func(string) (value.Value, string)) {
	us := textUnits()
	maxLen := 2
	if c.Thorough {
		maxLen = 3
	}
	tps := tuples(len(us), maxLen)
	chunk(len(tps), 192, func(lo, hi int) {
		c.Case(fmt.Sprintf("%s/units/%d-%d", strings.ToLower(kind), lo, hi-1), func(r *engine.R) {
			fails := unitsFailingAlone(kind, mk)
			var items []item
			for _, tp := range tps[lo:hi] {
				s := join(us, tp)
				v, src := mk(s)
				cls := classOf(us, tp, fails)
				it := item{kind: kind, class: cls, orig: v, src: src, desc: fmt.Sprintf("%s with bytes %q", kind, s),
					nt: strings.ContainsAny(src, "\\\"") || !isASCII(s)}
				if kind == "Symbol" {
					it.classFn = symbolFormClass(src, cls)
				}
				items = append(items, it)
			}
			runItems(r, items)
			r.Sample(fmt.Sprintf("%s %q inspects as %s", kind, join(us, tps[hi-1]), items[len(items)-1].src))
		})
	})
}

func isASCII(s string) bool {
	for i := 0; i < len(s); i++ {
		if s[i] >= 0x80 {
			return false
		}
	}
	return true
}

func runStrings(c *engine.Ctx) { runTexts(c, "String", mkString) }

func symbolNameClass(s string) string {
	if s == "" {
		return "empty"
	}
	r, _ := utf8.DecodeRuneInString(s)
	switch {
	case strings.ContainsAny(s, " "):
		return "name with space"
	case strings.ContainsAny(s, "+-*/<=>[]!?~&|^%@$#{}.") && !unicode.IsLetter(r) && r != '_':
		return "operator-like"
	case strings.ContainsAny(s, "+-*/<=>[]!?~&|^%@$#{}."):
		return "identifier with punctuation"
	case unicode.IsDigit(r):
		return "leading digit"
	case unicode.IsUpper(r):
		return "constant-like"
	}
	switch s {
	case "if", "nil", "true", "false", "self", "class", "def", "end", "do", "then", "loop", "while", "return":
		return "keyword"
	}
	if !isASCII(s) {
		return "non-ascii identifier"
	}
	return "identifier"
}

// symbolFormClass classifies a symbol by the form inspect chose for it.
func symbolFormClass(src, fallback string) func(how string, okv []bool) string {
	return func(how string, okv []bool) string {
		switch {
		case src == ":":
			return "empty"
		case !strings.HasPrefix(src, `:"`):
			return "bare (unquoted) form"
		case how == "rejected" && hasUnescaped(src, "$#"):
			return "quoted form with unescaped $ or #"
		}
		return "quoted form, " + fallback
	}
}

// hasUnescaped reports whether src contains one of chars not preceded by an (unescaped) backslash.
func hasUnescaped(src, chars string) bool {
	for i := 0; i < len(src); i++ {
		if src[i] == '\\' {
			i++
			continue
		}
		if strings.IndexByte(chars, src[i]) >= 0 {
			return true
		}
	}
	return false
}

func runSymbols(c *engine.Ctx) {
	runTexts(c, "Symbol", mkSymbol)
	names := []string{"foo", "Foo", "foo_bar", "_foo", "foo1", "1foo", "123", "+", "-", "*", "**", "==", "<=>", "[]", "[]=", "foo=", "foo?", "foo!", "!", "~",
		" ", "a b", "if", "nil", "true", "self", "class", "end", "é", "日本", "Ünï", "a-b", "a.b", "@a", "$a", "#{a}", "a\"b", "a\\b", "a\nb", "call", "<<", ">=", "&&", "%", "/"}
	c.Case("symbol/names", func(r *engine.R) {
		var items []item
		for _, n := range names {
			v, src := mkSymbol(n)
			items = append(items, item{kind: "Symbol", classFn: symbolFormClass(src, symbolNameClass(n)), orig: v, src: src, desc: fmt.Sprintf("Symbol named %q", n), nt: true})
		}
		runItems(r, items)
	})
}

// ---- floats

func runFloats(c *engine.Ctx) {
	fs := floatSet()
	type ft struct {
		kind string
		mk   func(f float64) value.Value
	}
	for _, t := range []ft{
		{"Float", func(f float64) value.Value { return value.Float(f).ToValue() }},
		{"Float64", func(f float64) value.Value { return value.Float64(f).ToValue() }},
		{"Float32", func(f float64) value.Value { return value.Float32(float32(f)).ToValue() }},
		{"BigFloat", func(f float64) value.Value {
			switch {
			case math.IsNaN(f):
				return value.Ref(value.BigFloatNaN())
			case math.IsInf(f, 1):
				return value.Ref(value.BigFloatInf())
			case math.IsInf(f, -1):
				return value.Ref(value.BigFloatNegInf())
			}
			return value.Ref(value.NewBigFloat(f))
		}},
	} {
		t := t
		c.Case("float/"+t.kind, func(r *engine.R) {
			var items []item
			seen := map[string]bool{}
			for _, f := range fs {
				v := t.mk(f)
				src := v.Inspect()
				if seen[src] {
					continue
				}
				seen[src] = true
				it := item{kind: t.kind, class: numForm(src), orig: v, src: src, desc: fmt.Sprintf("%s %v", t.kind, f), nt: true}
				if t.kind == "BigFloat" {
					it.classFn = bigFloatClass(it.class)
				}
				items = append(items, it)
			}
			runItems(r, items)
			r.Sample(fmt.Sprintf("%s %v inspects as %s", t.kind, fs[len(fs)-8], t.mk(fs[len(fs)-8]).Inspect()))
		})
	}
	c.Case("float/BigFloat-precise", func(r *engine.R) {
		var items []item
		for _, s := range []string{"0.1", "3.14159265358979323846264338327950288", "1e1000", "1e-1000", "123456789012345678901234567890.5", "-2.5", "1e30", "0.000000000000000000000000000001"} {
			bf, err := value.ParseBigFloat(s)
			if !err.IsUndefined() {
				continue
			}
			v := value.Ref(bf)
			src := v.Inspect()
			items = append(items, item{kind: "BigFloat", class: numForm(src), orig: v, src: src, desc: "BigFloat parsed from " + s, nt: true, classFn: bigFloatClass(numForm(src))})
		}
		for _, prec := range []uint{24, 64, 100, 200} {
			q := new(big.Float).SetPrec(prec).Quo(new(big.Float).SetPrec(prec).SetInt64(1), new(big.Float).SetPrec(prec).SetInt64(3))
			v := value.Ref(value.ToElkBigFloat(q))
			src := v.Inspect()
			items = append(items, item{kind: "BigFloat", class: "fraction", orig: v, src: src, desc: fmt.Sprintf("BigFloat 1/3 at precision %d", prec), nt: true, classFn: bigFloatClass("fraction")})
		}
		runItems(r, items)
	})
}

// bigFloatClass: a BigFloat whose text reads back as a different number is one defect whatever the form.
func bigFloatClass(form string) func(how string, okv []bool) string {
	return func(how string, okv []bool) string {
		if how == "not-equal" {
			return "shortest decimal text read back at another precision"
		}
		return form
	}
}

// ---- ints

func runInts(c *engine.Ctx) {
	c.Case("int/Int", func(r *engine.R) {
		var items []item
		for _, z := range intSet() {
			v := toElkInt(z)
			cls := "small"
			if !z.IsInt64() {
				cls = "big"
			}
			if z.Sign() < 0 {
				cls = "negative " + cls
			}
			items = append(items, item{kind: "Int", class: cls, orig: v, src: v.Inspect(), desc: "Int " + z.String(), nt: !z.IsInt64() || z.Sign() < 0})
		}
		runItems(r, items)
	})
	c.Case("int/fixed-width", func(r *engine.R) {
		var items []item
		for _, t := range fixedTypes() {
			lo, hi := t.rng()
			seen := map[string]bool{}
			for _, z := range []*big.Int{lo, new(big.Int).Add(lo, big.NewInt(1)), big.NewInt(-1), big.NewInt(0), big.NewInt(1), big.NewInt(100), new(big.Int).Sub(hi, big.NewInt(1)), hi} {
				if !inRange(z, lo, hi) || seen[z.String()] {
					continue
				}
				seen[z.String()] = true
				v := t.mk(z)
				cls := "positive"
				switch {
				case z.Cmp(lo) == 0 && t.signed:
					cls = "minimum of a signed type"
				case z.Sign() < 0:
					cls = "negative"
				case z.Sign() == 0:
					cls = "zero"
				}
				items = append(items, item{kind: "fixed-width int", class: cls, orig: v, src: v.Inspect(), desc: fmt.Sprintf("%s %s", t.suffix, z), nt: true})
			}
		}
		runItems(r, items)
		r.Sample("i8 -128 inspects as " + value.Int8(-128).ToValue().Inspect())
	})
	c.Case("int/simple", func(r *engine.R) {
		items := []item{
			{kind: "Nil", class: "nil", orig: value.Nil, src: value.Nil.Inspect(), desc: "nil"},
			{kind: "Bool", class: "true", orig: value.True.ToValue(), src: value.True.ToValue().Inspect(), desc: "true"},
			{kind: "Bool", class: "false", orig: value.False.ToValue(), src: value.False.ToValue().Inspect(), desc: "false"},
		}
		runItems(r, items)
	})
}

// ---- regexes

func flagsOf(bits int) bitfield.BitField8 { return bitfield.BitField8FromInt(uint8(bits)) }

func runRegexes(c *engine.Ctx) {
	sources := []string{"a+b", "", "[a-z]+", `a\.b`, `\d+\s*`, "é日", "a b", "a/b", `a\/b`, "a#b", "a$", `\n`, "a\nb", `(?i:x)y`, `\\`, "a|b", `\/`}
	for _, s := range sources {
		s := s
		c.Case(fmt.Sprintf("regex/%q", s), func(r *engine.R) {
			var items []item
			for bits := 0; bits < 64; bits++ {
				var re *value.Regex
				var err error
				func() {
					defer func() {
						if p := recover(); p != nil {
							err = fmt.Errorf("panic: %v", p)
						}
					}()
					re, err = value.CompileRegex(s, flagsOf(bits))
				}()
				if err != nil || re == nil {
					r.Count("regex_not_compilable", 1)
					continue
				}
				v := value.Ref(re)
				src := v.Inspect()
				cls := "plain source"
				switch {
				case strings.Contains(s, "/") && !strings.Contains(s, `\/`):
					cls = "source with unescaped /"
				case strings.Contains(s, `\/`):
					cls = `source with \/`
				case strings.Contains(s, "\n"):
					cls = "source with a line break"
				case strings.ContainsAny(s, "#$"):
					cls = "source with # or $"
				case s == "":
					cls = "empty source"
				case strings.Contains(s, `\`):
					cls = "source with backslash escape"
				}
				items = append(items, item{kind: "Regex", class: cls, orig: v, src: src, desc: fmt.Sprintf("Regex source %q flags %06b", s, bits), nt: true, cmp: sameRegex})
			}
			okv := runItems(r, items)
			// Regex has no structural ==: reported once, separately from the text round trip
			for i, it := range items {
				if !okv[i] {
					continue
				}
				e := evalSolo(it.src)
				if !e.ok {
					continue
				}
				if good, _ := same(it.orig, e.val); !good {
					r.Violation("Regex: text evaluates to a regex with the same source and flags that is not == to the original (Regex has no structural ==)",
						fmt.Sprintf("inspect of %s is\n    %s\nwhich evaluates to a Regex with identical source and flags, but original == result is false (even `%s == %s` is false)", it.desc, it.src, it.src, it.src), it.src)
				}
				break
			}
			if len(items) > 0 {
				r.Sample(items[len(items)-1].desc + " inspects as " + items[len(items)-1].src)
			}
		})
	}
}

// sameRegex compares regexes structurally (source and flags): == on Regex is object identity.
func sameRegex(orig, got value.Value) (bool, string) {
	o, ok1 := orig.SafeAsReference().(*value.Regex)
	g, ok2 := got.SafeAsReference().(*value.Regex)
	if !ok1 || !ok2 {
		return false, "class-differs"
	}
	if o.Source != g.Source || o.Flags != g.Flags {
		return false, "not-equal"
	}
	return true, ""
}

// ---- ranges

type rangeKind struct {
	name string
	mk   func(a, b value.Value) value.Value
}

func rangeKinds() []rangeKind {
	return []rangeKind{
		{"ClosedRange", func(a, b value.Value) value.Value { return value.Ref(value.NewClosedRange(a, b)) }},
		{"OpenRange", func(a, b value.Value) value.Value { return value.Ref(value.NewOpenRange(a, b)) }},
		{"LeftOpenRange", func(a, b value.Value) value.Value { return value.Ref(value.NewLeftOpenRange(a, b)) }},
		{"RightOpenRange", func(a, b value.Value) value.Value { return value.Ref(value.NewRightOpenRange(a, b)) }},
		{"BeginlessClosedRange", func(a, b value.Value) value.Value { return value.Ref(value.NewBeginlessClosedRange(b)) }},
		{"BeginlessOpenRange", func(a, b value.Value) value.Value { return value.Ref(value.NewBeginlessOpenRange(b)) }},
		{"EndlessClosedRange", func(a, b value.Value) value.Value { return value.Ref(value.NewEndlessClosedRange(a)) }},
		{"EndlessOpenRange", func(a, b value.Value) value.Value { return value.Ref(value.NewEndlessOpenRange(a)) }},
	}
}

func runRanges(c *engine.Ctx) {
	c.Case("range/kinds", func(r *engine.R) {
		type ep struct {
			name string
			a, b value.Value
		}
		eps := []ep{
			{"Int", value.SmallInt(1).ToValue(), value.SmallInt(5).ToValue()},
			{"negative Int", value.SmallInt(-5).ToValue(), value.SmallInt(-1).ToValue()},
			{"big Int", toElkInt(pow2(64)), toElkInt(pow2(65))},
			{"Float", value.Float(1.5).ToValue(), value.Float(2.5).ToValue()},
			{"negative Float", value.Float(-2.5).ToValue(), value.Float(-1.5).ToValue()},
			{"String", value.Ref(value.String("a")), value.Ref(value.String("z"))},
			{"Char", value.Char('a').ToValue(), value.Char('z').ToValue()},
			{"Int8", value.Int8(1).ToValue(), value.Int8(9).ToValue()},
			{"BigFloat", value.Ref(value.NewBigFloat(1.5)), value.Ref(value.NewBigFloat(9.25))},
		}
		var items []item
		for _, k := range rangeKinds() {
			for _, e := range eps {
				v := k.mk(e.a, e.b)
				shape := "bounded"
				if strings.HasPrefix(k.name, "Beginless") {
					shape = "beginless"
				} else if strings.HasPrefix(k.name, "Endless") {
					shape = "endless"
				}
				items = append(items, item{kind: "Range", class: shape + ", " + strings.Replace(strings.Replace(e.name, "negative Int", "negative number", 1), "negative Float", "negative number", 1) + " endpoints", orig: v, src: v.Inspect(), desc: k.name + " over " + e.name, nt: true})
			}
		}
		runItems(r, items)
		r.Sample("OpenRange 1,5 inspects as " + value.Ref(value.NewOpenRange(value.SmallInt(1).ToValue(), value.SmallInt(5).ToValue())).Inspect())
	})
}

// ---- collections

type atom struct {
	name string
	v    value.Value
}

func atoms() []atom {
	re := value.MustCompileRegex("a+", flagsOf(1))
	return []atom{
		{"Int", value.SmallInt(1).ToValue()},
		{"negative Int", value.SmallInt(-7).ToValue()},
		{"big Int", toElkInt(pow2(64))},
		{"Float", value.Float(1.5).ToValue()},
		{"Float e+NN", value.Float(1e30).ToValue()},
		{"BigFloat", value.Ref(value.NewBigFloat(2.5))},
		{"Float32", value.Float32(1.5).ToValue()},
		{"Float64", value.Float64(2.5).ToValue()},
		{"Int8", value.Int8(3).ToValue()},
		{"UInt64", value.UInt64(math.MaxUint64).ToValue()},
		{"String", value.Ref(value.String("a"))},
		{"String with escapes", value.Ref(value.String("q\"\n$x#{y}"))},
		{"Char", value.Char('c').ToValue()},
		{"Symbol", value.ToSymbol("foo").ToValue()},
		{"quoted Symbol", value.ToSymbol("a b").ToValue()},
		{"nil", value.Nil},
		{"true", value.True.ToValue()},
		{"false", value.False.ToValue()},
		{"Regex", value.Ref(re)},
		{"Range", value.Ref(value.NewClosedRange(value.SmallInt(1).ToValue(), value.SmallInt(5).ToValue()))},
		{"empty String", value.Ref(value.String(""))},
	}
}

type coll struct {
	kind string
	mk   func(elems []value.Value) (value.Value, bool) // for maps/records elems are k1,v1,k2,v2…; false: not constructible (unhashable key)
	pair bool
}

func pairs(elems []value.Value) []value.PairOfValue {
	var ps []value.PairOfValue
	for i := 0; i+1 < len(elems); i += 2 {
		ps = append(ps, *value.NewPairOfValue(elems[i], elems[i+1]))
	}
	return ps
}

func colls() []coll {
	return []coll{
		{"ArrayList", func(e []value.Value) (value.Value, bool) {
			return value.Ref(value.NewArrayListOfValueWithElements(0, e...)), true
		}, false},
		{"ArrayTuple", func(e []value.Value) (value.Value, bool) {
			return value.Ref(value.NewArrayTupleOfValueWithElements(0, e...)), true
		}, false},
		{"HashSet", func(e []value.Value) (value.Value, bool) {
			s, err := vm.NewHashSetOfValueWithElements(th, e...)
			if !err.IsUndefined() {
				return value.Undefined, false
			}
			return value.Ref(s), true
		}, false},
		{"HashMap", func(e []value.Value) (value.Value, bool) {
			m, err := vm.NewHashMapOfValueWithElements(th, pairs(e)...)
			if !err.IsUndefined() {
				return value.Undefined, false
			}
			return value.Ref(m), true
		}, true},
		{"HashRecord", func(e []value.Value) (value.Value, bool) {
			m, err := vm.NewHashRecordOfValueWithElements(th, pairs(e)...)
			if !err.IsUndefined() {
				return value.Undefined, false
			}
			return value.Ref(m), true
		}, true},
	}
}

func safeMk(k coll, e []value.Value) (v value.Value, ok bool) {
	defer func() {
		if p := recover(); p != nil {
			v, ok = value.Undefined, false
		}
	}()
	return k.mk(e)
}

// atomOK caches which pool elements round-trip on their own.
func poolOK(pool []atom) []bool {
	srcs := make([]string, len(pool))
	for i, a := range pool {
		srcs[i] = a.v.Inspect()
	}
	res := evalAll(srcs)
	ok := make([]bool, len(pool))
	for i := range pool {
		if res[i].ok {
			ok[i], _ = same(pool[i].v, res[i].val)
		}
	}
	return ok
}

// shortClass names an element for signatures: values whose hash is not computable without a VM thread
// (value.Hash reports NotBuiltinError: ranges, tuples, records, …) form one class.
// identityHashedKeyEqualText counts collections with identity-hashed keys whose evaluated text prints like the
// original but is not == to it (reported per case as a counter, not as a violation of this property).
var identityHashedKeyEqualText int

func shortClass(v value.Value) string {
	if _, err := value.Hash(v); err == value.Ref(value.NotBuiltinError) {
		return "whose hash needs the VM (Range, ArrayTuple, HashRecord, …)"
	}
	return strings.TrimPrefix(v.Class().Name, "Std::")
}

// collItems enumerates the collections of kind k over the pool. The signature class of a failing
// collection names the element (or key / value) class that also fails in the simplest collection of that
// kind, so that one defect ("a Range key is dropped") has one signature whatever the other elements are.
func collItems(r *engine.R, k coll, pool []atom, ok []bool, depth string) []item {
	var items []item
	index := map[string]int{}
	key := func(idx []int) string { return fmt.Sprint(idx) }
	safe := 0
	for i, a := range pool {
		if a.name == "Int" {
			safe = i
		}
	}
	failed := func(okv []bool, idx ...int) bool {
		i, found := index[key(idx)]
		return found && !okv[i]
	}
	add := func(idx []int) {
		var es []value.Value
		var names []string
		allOK := true
		for _, i := range idx {
			es = append(es, pool[i].v)
			names = append(names, pool[i].name)
			allOK = allOK && ok[i]
		}
		// mutable collections hash by identity: as set elements / map keys they cannot be compared by value
		for p, i := range idx {
			isKey := k.kind == "HashSet" || (k.pair && p%2 == 0)
			if isKey && vm.IsMutableCollection(pool[i].v) {
				r.Count("skipped_mutable_collection_as_key", 1)
				return
			}
		}
		v, made := safeMk(k, es)
		if !made {
			r.Count("not_constructible_unhashable", 1)
			return
		}
		bad := !allOK
		idx = append([]int(nil), idx...)
		// Ranges, tuples and records have no `hash` method: as keys they are hashed by identity although ==
		// is structural, so == between two hash collections holding them depends on table capacity (a C17/C18
		// matter). When the evaluated collection prints exactly like the original, such a == failure is not
		// attributed to inspect.
		identityKey := false
		for p, i := range idx {
			isKey := k.kind == "HashSet" || (k.pair && p%2 == 0)
			if _, err := value.Hash(pool[i].v); isKey && err == value.Ref(value.NotBuiltinError) {
				identityKey = true
			}
		}
		var cmp func(orig, got value.Value) (bool, string)
		if identityKey {
			cmp = func(orig, got value.Value) (bool, string) {
				ok, how := same(orig, got)
				if !ok && how == "not-equal" && safeInspect(orig) == safeInspect(got) {
					identityHashedKeyEqualText++
					return true, ""
				}
				return ok, how
			}
		}
		classFn := func(how string, okv []bool) string {
			if len(idx) == 0 {
				return "empty"
			}
			if !k.pair {
				for _, i := range idx {
					if failed(okv, i) {
						return "element " + shortClass(pool[i].v)
					}
				}
			} else {
				for p := 0; p+1 < len(idx); p += 2 {
					if failed(okv, idx[p], safe) {
						return "key " + shortClass(pool[idx[p]].v)
					}
					if failed(okv, safe, idx[p+1]) {
						return "value " + shortClass(pool[idx[p+1]].v)
					}
				}
			}
			var cs []string
			for _, i := range idx {
				cs = append(cs, shortClass(pool[i].v))
			}
			return "combination " + strings.Join(cs, ", ")
		}
		index[key(idx)] = len(items)
		items = append(items, item{kind: k.kind, orig: v, src: v.Inspect(), desc: fmt.Sprintf("%s (%s)", k.kind, strings.Join(names, ", ")), nt: true,
			skipIf: func() bool { return bad }, classFn: classFn, cmp: cmp})
	}
	n := len(pool)
	if !k.pair {
		add(nil)
		for i := 0; i < n; i++ {
			add([]int{i})
		}
		for i := 0; i < n; i++ {
			for j := 0; j < n; j++ {
				add([]int{i, j})
			}
		}
	} else {
		add(nil)
		for i := 0; i < n; i++ {
			for j := 0; j < n; j++ {
				add([]int{i, j})
			}
		}
		// two entries: keys (i, i+1), values (j, j+1)
		for i := 0; i+1 < n; i++ {
			for j := 0; j+1 < n; j += 3 {
				add([]int{i, j, i + 1, j + 1})
			}
		}
	}
	return items
}

func depth1Pool() []atom {
	at := atoms()
	var pool []atom
	for _, k := range colls() {
		if e, ok := safeMk(k, nil); ok {
			pool = append(pool, atom{"empty " + k.kind, e})
		}
		if k.pair {
			if e, ok := safeMk(k, []value.Value{at[0].v, at[10].v}); ok {
				pool = append(pool, atom{k.kind + "{Int=>String}", e})
			}
			if e, ok := safeMk(k, []value.Value{at[13].v, at[15].v, at[10].v, at[3].v}); ok {
				pool = append(pool, atom{k.kind + "{Symbol=>nil,String=>Float}", e})
			}
		} else {
			if e, ok := safeMk(k, []value.Value{at[0].v}); ok {
				pool = append(pool, atom{k.kind + "(Int)", e})
			}
			if e, ok := safeMk(k, []value.Value{at[10].v, at[13].v}); ok {
				pool = append(pool, atom{k.kind + "(String,Symbol)", e})
			}
		}
	}
	pool = append(pool, at[0], at[10], at[13], at[15])
	return pool
}

func runCollections(c *engine.Ctx) {
	for _, k := range colls() {
		k := k
		c.Case("collection/depth1/"+k.kind, func(r *engine.R) {
			pool := atoms()
			ok := poolOK(pool)
			items := collItems(r, k, pool, ok, "depth-1")
			identityHashedKeyEqualText = 0
			runItems(r, items)
			r.Count("identity_hashed_key_same_text_but_not_==", identityHashedKeyEqualText)
			r.Sample(items[len(items)-1].desc + " inspects as " + items[len(items)-1].src)
		})
		c.Case("collection/depth2/"+k.kind, func(r *engine.R) {
			pool := depth1Pool()
			ok := poolOK(pool)
			items := collItems(r, k, pool, ok, "depth-2")
			identityHashedKeyEqualText = 0
			runItems(r, items)
			r.Count("identity_hashed_key_same_text_but_not_==", identityHashedKeyEqualText)
			r.Sample(items[len(items)-1].desc + " inspects as " + items[len(items)-1].src)
		})
	}
	c.Case("collection/long", func(r *engine.R) {
		// long collections are inspected over several lines
		var es, kv []value.Value
		for i := 0; i < 40; i++ {
			es = append(es, value.Ref(value.String(fmt.Sprintf("element number %d of a long list", i))))
			kv = append(kv, value.SmallInt(i).ToValue(), value.Ref(value.String(fmt.Sprintf("value number %d of a long map", i))))
		}
		var items []item
		for _, k := range colls() {
			e := es
			if k.pair {
				e = kv
			}
			v, ok := safeMk(k, e)
			if !ok {
				continue
			}
			items = append(items, item{kind: k.kind + " long", class: "40 elements (multi-line inspect)", orig: v, src: v.Inspect(), desc: k.kind + " of 40 strings", nt: true})
		}
		runItems(r, items)
	})
}

// ---- integer literals

type spelling struct {
	name string
	f    func(prefix, digits string) string
}

func group(d string, n int) string {
	// `_` between groups of n digits counted from the right
	var b strings.Builder
	for i, ch := range d {
		if i > 0 && (len(d)-i)%n == 0 {
			b.WriteByte('_')
		}
		b.WriteRune(ch)
	}
	return b.String()
}

func spellings() []spelling {
	return []spelling{
		{"plain", func(p, d string) string { return p + d }},
		{"_ groups", func(p, d string) string { return p + group(d, 3) }},
		{"upper-case", func(p, d string) string { return strings.ToUpper(p) + strings.ToUpper(d) }},
		{"_ after prefix", func(p, d string) string {
			if p == "" {
				return group(d, 2)
			}
			return p + "_" + d
		}},
	}
}

type baseSpec struct {
	base   int
	prefix string
}

func bases() []baseSpec {
	return []baseSpec{{2, "0b"}, {4, "0q"}, {8, "0o"}, {10, ""}, {12, "0d"}, {16, "0x"}}
}

func runLiterals(c *engine.Ctx) {
	vs := intSet()
	for _, b := range bases() {
		b := b
		c.Case(fmt.Sprintf("literal/base%d", b.base), func(r *engine.R) {
			var items []item
			seen := map[string]bool{}
			for _, z := range vs {
				abs := new(big.Int).Abs(z)
				digits := abs.Text(b.base)
				for _, sp := range spellings() {
					text := sp.f(b.prefix, digits)
					neg := z.Sign() < 0
					// no suffix
					add := func(src string, want value.Value, kind, cls string, mayReject bool) {
						if seen[src] {
							return
						}
						seen[src] = true
						items = append(items, item{kind: kind, class: cls, orig: want, src: src, desc: safeInspect(want), literal: true, mayReject: mayReject, nt: true})
					}
					src := text
					if neg {
						src = "-" + text
					}
					add(src, toElkInt(z), "Int literal", fmt.Sprintf("base %d", b.base), false)
					for _, t := range fixedTypes() {
						if b.base >= 12 && (t.suffix[0] == 'b') {
							continue
						}
						lo, hi := t.rng()
						// the literal is the magnitude; a leading `-` is the unary operator applied to it
						in := inRange(abs, lo, hi)
						near := inRange(abs, new(big.Int).Sub(lo, big.NewInt(2)), new(big.Int).Add(hi, big.NewInt(2)))
						if !in && !near {
							continue
						}
						if neg {
							continue // negative fixed-width values are covered by the inspect round trip
						}
						var want value.Value
						if in {
							want = t.mk(abs)
						} else {
							want = value.Nil // any accepted value is wrong
						}
						it := item{kind: "fixed-width literal", class: fmt.Sprintf("base %d, in range", b.base), orig: want, src: text + t.suffix, desc: abs.String() + t.suffix, literal: true, nt: true}
						if !in {
							it.class = fmt.Sprintf("out of range accepted, base %d", b.base)
							it.mayReject = true
							it.desc = "a compile-time error (" + abs.String() + " does not fit " + t.suffix + ")"
						}
						if !seen[it.src] {
							seen[it.src] = true
							items = append(items, it)
						}
					}
				}
			}
			chunk(len(items), 200, func(lo, hi int) { runItems(r, items[lo:hi]) })
			r.Sample(fmt.Sprintf("literal %s must denote %s", items[len(items)-1].src, items[len(items)-1].desc))
		})
	}
	c.Case("literal/float-suffix", func(r *engine.R) {
		var items []item
		for _, t := range []string{"12", "1_000", "1.5", "1_0.2_5", "1e3", "1E3", "1e+3", "1e-3", "1.5e1_0", "0.1", "123456789", "16777217", "9007199254740993", "0.0", "1e38", "1e-45"} {
			clean := strings.ToLower(strings.ReplaceAll(t, "_", ""))
			f64, err := parseF(clean, 64)
			if err != nil {
				continue
			}
			f32, err32 := parseF(clean, 32)
			isFloat := strings.ContainsAny(clean, ".e")
			if isFloat {
				items = append(items, item{kind: "Float literal", class: "no suffix", orig: value.Float(f64).ToValue(), src: t, desc: fmt.Sprint(f64), literal: true, nt: true})
			}
			items = append(items, item{kind: "Float literal", class: "f64 suffix", orig: value.Float64(f64).ToValue(), src: t + "f64", desc: fmt.Sprint(f64) + "f64", literal: true, nt: true})
			if err32 == nil {
				items = append(items, item{kind: "Float literal", class: "f32 suffix", orig: value.Float32(float32(f32)).ToValue(), src: t + "f32", desc: fmt.Sprint(float32(f32)) + "f32", literal: true, nt: true})
			}
			if bf, e := value.ParseBigFloat(clean); e.IsUndefined() {
				items = append(items, item{kind: "Float literal", class: "bf suffix", orig: value.Ref(bf), src: t + "bf", desc: clean + "bf", literal: true, nt: true})
			}
		}
		runItems(r, items)
	})
}

func parseF(s string, bits int) (float64, error) {
	var f float64
	_, err := fmt.Sscanf(s, "%g", &f)
	if err != nil {
		return 0, err
	}
	if bits == 32 {
		bf, _, e := big.ParseFloat(s, 10, 200, big.ToNearestEven)
		if e != nil {
			return 0, e
		}
		f32, _ := bf.Float32()
		return float64(f32), nil
	}
	bf, _, e := big.ParseFloat(s, 10, 400, big.ToNearestEven)
	if e != nil {
		return 0, e
	}
	f, _ = bf.Float64()
	return f, nil
}

// ---- String#to_int

const toIntPrelude = `
def ti(s: ::Std::String, b: ::Std::Int): ::Std::String
  do
    s.to_int(b).inspect
  catch ::Std::FormatError() as e
    "FormatError"
  catch e
    "other error"
  end
end
def ti0(s: ::Std::String): ::Std::String
  do
    s.to_int.inspect
  catch ::Std::FormatError() as e
    "FormatError"
  catch e
    "other error"
  end
end
`

func toIntGroup(class string) string {
	switch {
	case strings.Contains(class, "prefix") || strings.HasPrefix(class, "decimal"):
		return "base inferred from the prefix (base 0 or no argument)"
	case class == "malformed input" || class == "unsupported base":
		return class
	}
	return "explicit base"
}

type toIntCase struct {
	s     string
	base  int    // -1: call without argument
	want  string // decimal, "FormatError" (must fail), or "" = unspecified: either FormatError or exactly alt
	alt   string
	class string
}

func toIntCases() []toIntCase {
	var cs []toIntCase
	seen := map[string]bool{}
	add := func(tc toIntCase) {
		k := fmt.Sprintf("%q/%d", tc.s, tc.base)
		if seen[k] {
			return
		}
		seen[k] = true
		cs = append(cs, tc)
	}
	for _, z := range intSet() {
		abs := new(big.Int).Abs(z)
		sign := ""
		if z.Sign() < 0 {
			sign = "-"
		}
		for _, b := range bases() {
			d := abs.Text(b.base)
			// documented: prefix infers the base when no base (or 0) is given
			if b.prefix != "" {
				add(toIntCase{sign + b.prefix + d, -1, z.String(), "", fmt.Sprintf("prefix %s, no base argument", b.prefix)})
				add(toIntCase{sign + b.prefix + d, 0, z.String(), "", fmt.Sprintf("prefix %s, base 0", b.prefix)})
				add(toIntCase{sign + strings.ToUpper(b.prefix+d), 0, z.String(), "", fmt.Sprintf("upper-case prefix %s, base 0", b.prefix)})
			} else {
				add(toIntCase{sign + d, -1, z.String(), "", "decimal, no base argument"})
				add(toIntCase{sign + d, 0, z.String(), "", "decimal, base 0"})
			}
			// explicit base, bare digits
			add(toIntCase{sign + d, b.base, z.String(), "", fmt.Sprintf("bare digits, explicit base %d", b.base)})
			// `_` separators are not documented for to_int: FormatError or the exact value
			add(toIntCase{sign + group(d, 3), b.base, "", z.String(), fmt.Sprintf("_ separators, explicit base %d", b.base)})
			if z.Sign() >= 0 {
				add(toIntCase{"+" + d, b.base, "", z.String(), "leading +"})
			}
		}
		for _, base := range []int{3, 7, 36} {
			add(toIntCase{sign + abs.Text(base), base, z.String(), "", fmt.Sprintf("bare digits, explicit base %d", base)})
			add(toIntCase{sign + strings.ToUpper(abs.Text(base)), base, z.String(), "", fmt.Sprintf("upper-case digits, explicit base %d", base)})
		}
	}
	// malformed inputs: the only admissible outcome is FormatError
	for _, m := range []struct {
		s    string
		base int
	}{{"", 10}, {"", -1}, {"12", 2}, {"8", 8}, {"g", 16}, {"1 ", 10}, {" 1", 10}, {"1.5", 10}, {"abc", 10}, {"0x", -1}, {"0b", 0}, {"-", 10}, {"--1", 10}, {"0xg", 0}, {"0b2", 0}, {"0o8", 0}, {"1e3", 10}, {"z", 35}, {"١", 10}, {"é", 36}, {"1\n", 10}, {"0q4", 0}, {"0dc", 0}} {
		add(toIntCase{m.s, m.base, "FormatError", "", "malformed input"})
	}
	for _, base := range []int{1, -2, 37, 100} {
		if base < 0 {
			base = -base * 1000 // the Go API and the VM both take an int; keep -1 as the "no argument" marker
		}
		add(toIntCase{"10", base, "FormatError", "", "unsupported base"})
	}
	return cs
}

// elkStr writes a string literal for s without relying on the implementation's own inspect.
func elkStr(s string) string {
	var b strings.Builder
	b.WriteByte('"')
	for len(s) > 0 {
		r, n := utf8.DecodeRuneInString(s)
		switch {
		case r == utf8.RuneError && n == 1:
			fmt.Fprintf(&b, `\x%02x`, s[0])
		case r == '"' || r == '\\' || r == '$' || r == '#':
			b.WriteByte('\\')
			b.WriteRune(r)
		case r >= 0x20 && r < 0x7F:
			b.WriteRune(r)
		case r < 0x80:
			fmt.Fprintf(&b, `\x%02x`, r)
		case r <= 0xFFFF:
			fmt.Fprintf(&b, `\u%04x`, r)
		default:
			fmt.Fprintf(&b, `\U%08X`, r)
		}
		s = s[n:]
	}
	b.WriteByte('"')
	return b.String()
}

func runToInt(c *engine.Ctx) {
	cs := toIntCases()
	verdict := func(tc toIntCase, got string) (ok bool) {
		switch {
		case tc.want != "":
			return got == tc.want
		default:
			return got == "FormatError" || got == tc.alt
		}
	}
	expect := func(tc toIntCase) string {
		if tc.want != "" {
			return tc.want
		}
		return "FormatError or " + tc.alt
	}
	goAPI := func(tc toIntCase) (got string) {
		base := tc.base
		if base < 0 {
			base = 0
		}
		defer func() {
			if p := recover(); p != nil {
				got = fmt.Sprintf("go-panic: %v", p)
			}
		}()
		v, err := value.String(tc.s).ToInt(base)
		switch {
		case !err.IsUndefined() && err.Class() == value.FormatErrorClass:
			return "FormatError"
		case !err.IsUndefined():
			return "other error " + safeInspect(err)
		}
		return v.Inspect()
	}
	c.Case("to_int/go-api", func(r *engine.R) {
		for _, tc := range cs {
			got := goAPI(tc)
			r.Eval(1)
			r.NT(1)
			if verdict(tc, got) {
				r.Outcome("to_int go-api " + map[bool]string{true: "FormatError", false: "value"}[got == "FormatError"])
				continue
			}
			r.Violation(fmt.Sprintf("String#to_int wrong [%s]", toIntGroup(tc.class)), fmt.Sprintf("Go API (%s): value.String(%q).ToInt(%d): expected %s, got %s", tc.class, tc.s, tc.base, expect(tc), got), nil)
		}
	})
	chunk(len(cs), 250, func(lo, hi int) {
		c.Case(fmt.Sprintf("to_int/vm/%d-%d", lo, hi-1), func(r *engine.R) {
			var items []elkrun.Item
			for _, tc := range cs[lo:hi] {
				if tc.base < 0 {
					items = append(items, elkrun.Item{Code: fmt.Sprintf("println(ti0(%s))", elkStr(tc.s))})
				} else {
					items = append(items, elkrun.Item{Code: fmt.Sprintf("println(ti(%s, %d))", elkStr(tc.s), tc.base)})
				}
			}
			res := elkrun.Batch(toIntPrelude, items, nil)
			for i, ir := range res {
				tc := cs[lo+i]
				r.Eval(1)
				r.NT(1)
				got := strings.TrimSpace(ir.Out)
				switch {
				case ir.Panic != "":
					got = "go-panic " + ir.Panic
				case ir.Rejected:
					got = "rejected: " + firstLines(ir.Diags, 2)
				case ir.Err != "":
					got = "uncaught " + ir.Err
				}
				if verdict(tc, got) {
					r.Outcome("to_int vm " + map[bool]string{true: "FormatError", false: "value"}[got == "FormatError"])
					continue
				}
				sig := fmt.Sprintf("String#to_int wrong [%s]", toIntGroup(tc.class))
				if verdict(tc, goAPI(tc)) {
					sig = fmt.Sprintf("String#to_int wrong only through the VM [%s]", toIntGroup(tc.class))
				}
				r.Violation(sig, fmt.Sprintf("VM (%s): %s\nexpected %s, got %s", tc.class, items[i].Code, expect(tc), got), toIntPrelude+items[i].Code)
			}
			r.Sample(items[len(items)-1].Code)
		})
	})
}
