package main

import (
	"bufio"
	"fmt"
	"os"
	"strings"
	"time"

	"github.com/elk-language/elk/value"
	"github.com/elk-language/elk/vm"

	"verifharness/elkrun"
)

func main() {
	elkrun.Init()
	sc := bufio.NewScanner(os.Stdin)
	var lines []string
	for sc.Scan() {
		lines = append(lines, sc.Text())
	}
	src := strings.Join(lines, "\n")
	t0 := time.Now()
	fn, res := elkrun.Compile(src, nil)
	fmt.Println("compile", time.Since(t0))
	if fn == nil {
		fmt.Println("REJECTED/PANIC:", res.Diags, res.Panic, res.Stack)
		return
	}
	var out strings.Builder
	th := vm.New(vm.WithStdout(&out), vm.WithStderr(&out))
	val, err := th.InterpretTopLevel(fn)
	fmt.Println("run", time.Since(t0))
	fmt.Print(out.String())
	if !err.IsUndefined() {
		fmt.Println("ERR", err.Inspect())
		return
	}
	fmt.Println("VAL", val.Inspect(), val.Class().Name)
	if l, ok := val.SafeAsReference().(value.ArrayTuple); ok {
		for i, e := range l.Elements() {
			fmt.Printf("%d: %s (%s) %T\n", i, e.Inspect(), e.Class().Name, e.SafeAsReference())
		}
	}
}
