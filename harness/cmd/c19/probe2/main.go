package main

import (
	"fmt"

	"github.com/elk-language/elk/value"
	"github.com/elk-language/elk/vm"

	"verifharness/elkrun"
)

func main() {
	elkrun.Init()
	th := vm.New()
	mk := func() value.Value {
		return value.Ref(value.NewArrayListOfValueWithElements(0, value.Ref(value.String("a")), value.ToSymbol("foo").ToValue()))
	}
	l1, l2 := mk(), mk()
	s1, _ := vm.NewHashSetOfValueWithElements(th, l1)
	s2, _ := vm.NewHashSetOfValueWithElements(th, l2)
	s3, _ := vm.NewHashSetOfValueWithElements(th, l1, l1)
	s4, _ := vm.NewHashSetOfValueWithElements(th, l1, l2)
	for _, p := range [][2]*vm.HashSetOfValue{{s1, s2}, {s3, s2}, {s2, s3}, {s4, s2}, {s1, s1}} {
		e, err := vm.Equal(th, value.Ref(p[0]), value.Ref(p[1]))
		fmt.Println(p[0].Inspect(), p[1].Inspect(), e.Inspect(), err.IsUndefined(), p[0].Length(), p[1].Length())
	}
	h1, _ := vm.Hash(th, l1)
	h2, _ := vm.Hash(th, l2)
	fmt.Println(h1, h2)
}
