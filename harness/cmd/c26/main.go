// C26 — symbol interning is a bijection under concurrency.
// Engine E1: the real value.SymbolTableStruct (value/symbol_table.go, instrumented through the build
// overlay) is driven by 2–3 scheduled threads; EVERY interleaving of their synchronisation operations
// is explored (no preemption bound, happens-before state caching), and each complete history is
// checked for linearizability against a sequential map specification plus the bijection invariants.
package main

import (
	"fmt"
	"sort"
	"strings"
	"time"

	"github.com/elk-language/elk/value"
	"github.com/elk-language/elk/verifrt"

	"verifharness/engine"
	"verifharness/sched"
)

type opKind int

const (
	opAdd opKind = iota
	opGet
	opGetName
)

type opSpec struct {
	kind opKind
	name string
	id   int
}

func (o opSpec) String() string {
	switch o.kind {
	case opAdd:
		return "Add(" + o.name + ")"
	case opGet:
		return "Get(" + o.name + ")"
	}
	return fmt.Sprintf("GetName(%d)", o.id)
}

var alphabet = []opSpec{{opAdd, "a", 0}, {opAdd, "b", 0}, {opGet, "a", 0}, {opGetName, "", 0}, {opGetName, "", 1}}

type call struct {
	thread    int
	op        opSpec
	res       string
	start, end int
}

// sequential specification
type spec struct {
	names map[string]int
	ids   []string
}

func (s *spec) apply(o opSpec) string {
	switch o.kind {
	case opAdd:
		if id, ok := s.names[o.name]; ok {
			return fmt.Sprint(id)
		}
		id := len(s.ids)
		s.names[o.name] = id
		s.ids = append(s.ids, o.name)
		return fmt.Sprint(id)
	case opGet:
		if id, ok := s.names[o.name]; ok {
			return fmt.Sprint(id, " true")
		}
		return "-1 false"
	default:
		if o.id < len(s.ids) {
			return s.ids[o.id] + " true"
		}
		return " false"
	}
}

// linearizable: is there a total order of the calls, consistent with real-time order (a call that
// returned before another started precedes it), whose sequential results equal the observed ones?
func linearizable(h []call) bool {
	n := len(h)
	used := make([]bool, n)
	var rec func(done int, s *spec) bool
	rec = func(done int, s *spec) bool {
		if done == n {
			return true
		}
		for i := 0; i < n; i++ {
			if used[i] {
				continue
			}
			// i may go next only if no unused call finished before i started
			ok := true
			for j := 0; j < n; j++ {
				if !used[j] && j != i && h[j].end < h[i].start {
					ok = false
					break
				}
			}
			if !ok {
				continue
			}
			// copy spec
			s2 := &spec{names: map[string]int{}, ids: append([]string{}, s.ids...)}
			for k, v := range s.names {
				s2.names[k] = v
			}
			if s2.apply(h[i].op) != h[i].res {
				continue
			}
			used[i] = true
			if rec(done+1, s2) {
				used[i] = false
				return true
			}
			used[i] = false
		}
		return false
	}
	return rec(0, &spec{names: map[string]int{}})
}

func doOp(tab *value.SymbolTableStruct, o opSpec) string {
	switch o.kind {
	case opAdd:
		return fmt.Sprint(int(tab.Add(o.name)))
	case opGet:
		s, ok := tab.Get(o.name)
		return fmt.Sprint(int(s), " ", ok)
	default:
		n, ok := tab.GetName(value.Symbol(o.id))
		return fmt.Sprint(n, " ", ok)
	}
}

type config struct {
	threads [][]opSpec
}

func (c config) String() string {
	var parts []string
	for i, t := range c.threads {
		var ops []string
		for _, o := range t {
			ops = append(ops, o.String())
		}
		parts = append(parts, fmt.Sprintf("T%d: %s", i+1, strings.Join(ops, "; ")))
	}
	return strings.Join(parts, " || ")
}

// scenario returns the Scenario function; the observed history is handed to check through *last.
func scenario(cfg config, last *[]call, final *string) sched.Scenario {
	return func(prefix []int, opts verifrt.Options) (*verifrt.Exec, string) {
		var hist []call
		var fin string
		x := verifrt.Run(func() {
			tab := value.NewSymbolTable()
			clock := 0
			done := 0
			for ti, ops := range cfg.threads {
				ti, ops := ti, ops
				verifrt.Go(func() {
					for _, o := range ops {
						clock++
						c := call{thread: ti, op: o, start: clock}
						c.res = doOp(tab, o)
						clock++
						c.end = clock
						hist = append(hist, c)
					}
					done++
				})
			}
			verifrt.Await("join", func() bool { return done == len(cfg.threads) })
			// final-state observation through the API (sequential now)
			var b strings.Builder
			for _, nm := range []string{"a", "b"} {
				id, ok := tab.Get(nm)
				fmt.Fprintf(&b, "%s->%d,%v ", nm, int(id), ok)
				if ok {
					back, ok2 := tab.GetName(id)
					fmt.Fprintf(&b, "[%d->%s,%v] ", int(id), back, ok2)
				}
			}
			for id := 0; id < 3; id++ {
				nm, ok := tab.GetName(value.Symbol(id))
				fmt.Fprintf(&b, "%d->%q,%v ", id, nm, ok)
			}
			fin = b.String()
		}, prefix, opts)
		*last = hist
		*final = fin
		var rs []string
		for _, c := range hist {
			rs = append(rs, fmt.Sprintf("T%d.%s=%s", c.thread+1, c.op, c.res))
		}
		sort.Strings(rs)
		return x, x.Describe() + " | " + strings.Join(rs, " ") + " | " + fin
	}
}

func checkFinal(cfg config, fin string) string {
	// expected final table: the set of added names, ids 0..k-1 assigned to them bijectively
	added := map[string]bool{}
	for _, t := range cfg.threads {
		for _, o := range t {
			if o.kind == opAdd {
				added[o.name] = true
			}
		}
	}
	// parse fin loosely: for each added name, "name->id,true [id->name,true]" must appear with id < len(added)
	for nm := range added {
		found := false
		for id := 0; id < len(added); id++ {
			if strings.Contains(fin, fmt.Sprintf("%s->%d,true [%d->%s,true]", nm, id, id, nm)) {
				found = true
			}
		}
		if !found {
			return fmt.Sprintf("name %q is not interned bijectively at the end: %s", nm, fin)
		}
	}
	for _, nm := range []string{"a", "b"} {
		if !added[nm] && !strings.Contains(fin, nm+"->-1,false") {
			return fmt.Sprintf("name %q was never added but is found: %s", nm, fin)
		}
	}
	if !strings.Contains(fin, fmt.Sprintf("%d->\"\",false", len(added))) {
		return fmt.Sprintf("table has more than %d symbols: %s", len(added), fin)
	}
	return ""
}

func seqs(n int) [][]opSpec {
	if n == 0 {
		return [][]opSpec{{}}
	}
	var out [][]opSpec
	for _, s := range seqs(n - 1) {
		for _, o := range alphabet {
			out = append(out, append(append([]opSpec{}, s...), o))
		}
	}
	return out
}

func hasAdd(s []opSpec) bool {
	for _, o := range s {
		if o.kind == opAdd {
			return true
		}
	}
	return false
}

func configs(thorough bool) []config {
	var cs []config
	// 2 threads x 2 ops each (unordered pairs of sequences; at least one Add somewhere)
	s2 := seqs(2)
	for i, a := range s2 {
		for j := i; j < len(s2); j++ {
			if hasAdd(a) || hasAdd(s2[j]) {
				cs = append(cs, config{[][]opSpec{a, s2[j]}})
			}
		}
	}
	// 3 threads x 1 op each
	s1 := seqs(1)
	for i := range s1 {
		for j := i; j < len(s1); j++ {
			for k := j; k < len(s1); k++ {
				if hasAdd(s1[i]) || hasAdd(s1[j]) || hasAdd(s1[k]) {
					cs = append(cs, config{[][]opSpec{s1[i], s1[j], s1[k]}})
				}
			}
		}
	}
	if thorough {
		// 2 threads x 3 ops each where both threads add
		s3 := seqs(3)
		for i, a := range s3 {
			for j := i; j < len(s3); j++ {
				if hasAdd(a) && hasAdd(s3[j]) {
					cs = append(cs, config{[][]opSpec{a, s3[j]}})
				}
			}
		}
		// 3 threads x 2,1,1
		for _, a := range s2 {
			for j := range s1 {
				for k := j; k < len(s1); k++ {
					if hasAdd(a) && (hasAdd(s1[j]) || hasAdd(s1[k])) {
						cs = append(cs, config{[][]opSpec{a, s1[j], s1[k]}})
					}
				}
			}
		}
	}
	return cs
}

func main() {
	engine.Main(&engine.Spec{
		Prop:  "C26",
		Level: "model_checking",
		Rule: "configurations = all assignments of operation sequences over {Add(a), Add(b), Get(a), GetName(0), GetName(1)} to 2 threads x 2 ops and 3 threads x 1 op (thorough: 2x3 and 3 threads 2+1+1) on a fresh real SymbolTable; for each configuration (1) ALL interleavings of the RWMutex operations are explored (unbounded DFS with happens-before state caching, scheduling points before every lock operation and after every release) and (2) with an additional scheduling point before every statement of symbol_table.go, every schedule with at most 2 (thorough 3) preemptions; " +
			"oracle: brute-force linearizability of the call/return history against a sequential map + final bijection observed through Get/GetName; non-trivial = configurations whose executions produced more than one distinct history",
		Assume: []string{"scheduling points at sync operations and statements: accesses racing below statement granularity are invisible to the explorer; the supplementary free-running pass under Go's race detector (case racepass/symtab: 310 configurations x 20 (thorough 300) rounds on real goroutines) reports them", "happens-before state caching assumes the table's state is only accessed under its lock"},
		CaseTimeout: 20 * time.Minute,
		Run: func(c *engine.Ctx) {
			cs := configs(c.Thorough)
			if c.Thorough {
				stmtBound = 3
			}
			block := 8
			if c.Thorough {
				block = 2 // statement-level pass with bound 3 is ~100x the quick work per configuration
			}
			// free-running companion pass under Go's race detector (same alphabet and configuration shapes, real
			// goroutines): catches accesses that no scheduling point separates; see engine.RacePass
			c.Case("racepass/symtab", func(r *engine.R) {
				rounds := "20"
				if c.Thorough {
					rounds = "300"
				}
				engine.RacePass(r, "symbol table", 10*time.Minute, "symtab", rounds)
			})
			for lo := 0; lo < len(cs); lo += block {
				hi := min(lo+block, len(cs))
				part := cs[lo:hi]
				c.Case(fmt.Sprintf("configs/%d-%d", lo, hi-1), func(r *engine.R) {
					for _, cfg := range part {
						exploreConfig(r, cfg)
					}
				})
			}
		},
	})
}

var stmtBound = 2

func exploreConfig(r *engine.R, cfg config) {
	var hist []call
	var fin string
	sc := scenario(cfg, &hist, &fin)
	outcomes := map[string]bool{}
	// determinism self-test: the default schedule twice
	x1, o1 := sc(nil, verifrt.Options{})
	x2, o2 := sc(nil, verifrt.Options{})
	if o1 != o2 || fmt.Sprint(x1.Events) != fmt.Sprint(x2.Events) {
		r.Violation("INFRA nondeterministic replay", fmt.Sprintf("%s\n%s\n%s", cfg, o1, o2), nil)
		return
	}
	visit := func(x *verifrt.Exec, outcome string, _ int) {
		outcomes[outcome] = true
		if x.Diverged != "" {
			r.Violation("INFRA replay divergence", cfg.String()+"\n"+x.Diverged, nil)
			return
		}
		bad := ""
		switch {
		case x.Panic != "" || x.Fatal != "" || x.Deadlock || x.Limit:
			bad = "execution did not complete: " + x.Describe()
		case !linearizable(hist):
			bad = "history is not linearizable against the sequential map specification"
		default:
			bad = checkFinal(cfg, fin)
		}
		if bad != "" {
			var hs []string
			for _, c := range hist {
				hs = append(hs, fmt.Sprintf("[%d,%d] T%d.%s -> %s", c.start, c.end, c.thread+1, c.op, c.res))
			}
			kind := "not-linearizable"
			if strings.HasPrefix(bad, "execution") {
				kind = strings.Fields(x.Describe())[0]
			} else if !strings.HasPrefix(bad, "history") {
				kind = "final-state"
			}
			r.Violation("symbol-table "+kind, fmt.Sprintf("%s\n%s\nhistory:\n  %s\nfinal: %s\nschedule: %v", cfg, bad, strings.Join(hs, "\n  "), fin, x.ChoiceList()),
				map[string]any{"config": cfg.String(), "schedule": x.ChoiceList()})
		}
	}
	// pass 1: scheduling points at the lock operations only, ALL interleavings (happens-before state caching)
	st := sched.Explore(sched.Config{Bound: -1, Keys: true, MaxExecs: 200000}, sc, visit)
	// pass 2: additionally a scheduling point before every statement of symbol_table.go (exposes races inside
	// wrongly protected sections), every schedule with at most stmtBound preemptions
	st2 := sched.Explore(sched.Config{Bound: stmtBound, MaxExecs: 400000, Opts: verifrt.Options{Steps: true}}, sc, visit)
	r.Count("stmt_level_execs", st2.Execs)
	r.Count("stmt_level_max_points", st2.MaxPoints)
	st.Execs += st2.Execs
	st.States += st2.States
	st.Transitions += st2.Transitions
	st.Replayed += st2.Replayed
	st.Capped = st.Capped || st2.Capped
	r.Eval(st.Execs)
	r.AddStates(st.States)
	r.AddTrans(st.Transitions)
	r.AddValidated(st.Replayed)
	if len(outcomes) > 1 {
		r.NT(1)
	}
	r.Count("distinct_histories", len(outcomes))
	r.Count("pruned_by_state_key", st.Pruned)
	if st.Capped {
		r.Capped("execution cap hit for " + cfg.String())
	}
	r.Outcome(fmt.Sprintf("%d-outcomes", min(len(outcomes), 9)))
	r.Sample(map[string]any{"config": cfg.String(), "executions": st.Execs, "distinct_histories": len(outcomes)})
}
