// C06 — Int arithmetic is exact and independent of integer representation.
// Bounded-exhaustive: all pairs of a boundary-value set × every Int operator × every evaluation path
// (three Go API families and four source forms through the VM), against math/big.
package main

import (
	"fmt"
	"math/big"
	"strings"

	"github.com/elk-language/elk/value"
	"github.com/elk-language/elk/vm"

	"verifharness/elkrun"
	"verifharness/engine"
)

func bi(s string) *big.Int {
	z, ok := new(big.Int).SetString(s, 10)
	if !ok {
		panic(s)
	}
	return z
}

func pow2(n uint) *big.Int { return new(big.Int).Lsh(big.NewInt(1), n) }

// values returns the operand set, simplest first.
func values(thorough bool) []*big.Int {
	var vs []*big.Int
	add := func(z *big.Int) {
		for _, v := range vs {
			if v.Cmp(z) == 0 {
				return
			}
		}
		vs = append(vs, z)
	}
	pm := func(z *big.Int) { add(z); add(new(big.Int).Neg(z)) }
	add(big.NewInt(0))
	for _, k := range []int64{1, 2, 3, 7, 10} {
		pm(big.NewInt(k))
	}
	one := big.NewInt(1)
	pm(pow2(31))
	pm(new(big.Int).Add(pow2(32), one))
	pm(new(big.Int).Sub(pow2(32), one))
	pm(pow2(62))
	add(new(big.Int).Sub(pow2(63), one))               // max small
	add(new(big.Int).Neg(pow2(63)))                    // min small
	add(pow2(63))                                      // first big
	add(new(big.Int).Sub(new(big.Int).Neg(pow2(63)), one)) // first negative big
	pm(new(big.Int).Add(pow2(64), one))
	pm(new(big.Int).Sub(pow2(64), one))
	pm(bi("1000000000000000000000000000000"))
	pm(bi("1000000000000000000000000000007"))
	pm(pow2(128))
	if thorough {
		pm(big.NewInt(5))
		pm(big.NewInt(63))
		pm(big.NewInt(64))
		pm(big.NewInt(65))
		pm(pow2(32))
		pm(new(big.Int).Sub(pow2(62), one))
		pm(new(big.Int).Sub(pow2(63), big.NewInt(2)))
		pm(new(big.Int).Add(pow2(63), one))
		pm(pow2(64))
		pm(new(big.Int).Mul(pow2(63), pow2(63)))
		pm(bi("3037000500")) // ~sqrt(2^63)
		pm(bi("3037000499"))
	}
	return vs
}

func toElk(z *big.Int) value.Value {
	return value.ToElkBigInt(new(big.Int).Set(z)).Normalize()
}

type binop struct {
	name string
	sym  string // Elk operator
	ref  func(a, b *big.Int) (res string, ok bool) // ok=false: undefined (e.g. division by zero → error expected)
	val  func(l, r value.Value) (value.Value, value.Value)
	intf func(l, r value.Value) (value.Value, value.Value) // typed-opcode helper, may be nil
	ints func(l, r value.Value) (value.Value, value.Value) // native-backend helper, may be nil
	rhs  func(b *big.Int) bool                            // admissible right operand
}

func boolStr(b bool) string {
	if b {
		return "true"
	}
	return "false"
}

func noerr(f func(l, r value.Value) value.Value) func(l, r value.Value) (value.Value, value.Value) {
	return func(l, r value.Value) (value.Value, value.Value) { return f(l, r), value.Undefined }
}
func noerrB(f func(l, r value.Value) bool) func(l, r value.Value) (value.Value, value.Value) {
	return func(l, r value.Value) (value.Value, value.Value) { return value.BoolVal(f(l, r)), value.Undefined }
}

func shiftRef(a *big.Int, n int64) *big.Int {
	if n >= 0 {
		return new(big.Int).Lsh(a, uint(n))
	}
	return new(big.Int).Rsh(a, uint(-n)) // big.Int.Rsh is an arithmetic (floor) shift
}

func smallShift(b *big.Int) bool { return b.IsInt64() && b.Int64() >= -300 && b.Int64() <= 300 }

func ops() []binop {
	any := func(*big.Int) bool { return true }
	return []binop{
		{"add", "+", func(a, b *big.Int) (string, bool) { return new(big.Int).Add(a, b).String(), true }, value.AddVal, value.AddInt, noerr(value.AddInts), any},
		{"sub", "-", func(a, b *big.Int) (string, bool) { return new(big.Int).Sub(a, b).String(), true }, value.SubtractVal, value.SubtractInt, noerr(value.SubtractInts), any},
		{"mul", "*", func(a, b *big.Int) (string, bool) { return new(big.Int).Mul(a, b).String(), true }, value.MultiplyVal, value.MultiplyInt, noerr(value.MultiplyInts), any},
		{"div", "/", func(a, b *big.Int) (string, bool) {
			if b.Sign() == 0 {
				return "", false
			}
			return new(big.Int).Quo(a, b).String(), true
		}, value.DivideVal, value.DivideInt, value.DivideInts, any},
		{"mod", "%", func(a, b *big.Int) (string, bool) {
			if b.Sign() == 0 {
				return "", false
			}
			return new(big.Int).Rem(a, b).String(), true
		}, value.ModuloVal, value.ModuloInt, value.ModuloInts, any},
		{"pow", "**", func(a, b *big.Int) (string, bool) { return new(big.Int).Exp(a, b, nil).String(), true }, value.ExponentiateVal, value.ExponentiateInt, noerr(value.ExponentiateInts),
			func(b *big.Int) bool { return b.IsInt64() && b.Int64() >= 0 && b.Int64() <= 10 }},
		{"cmp", "<=>", func(a, b *big.Int) (string, bool) { return fmt.Sprint(a.Cmp(b)), true }, value.CompareVal, value.CompareInt,
			func(l, r value.Value) (value.Value, value.Value) { return value.CompareInts(l, r).ToValue(), value.Undefined }, any},
		{"lt", "<", func(a, b *big.Int) (string, bool) { return boolStr(a.Cmp(b) < 0), true }, value.LessThanVal, value.LessThanInt, noerrB(value.LessThanInts), any},
		{"le", "<=", func(a, b *big.Int) (string, bool) { return boolStr(a.Cmp(b) <= 0), true }, value.LessThanEqualVal, value.LessThanEqualInt, noerrB(value.LessThanEqualInts), any},
		{"gt", ">", func(a, b *big.Int) (string, bool) { return boolStr(a.Cmp(b) > 0), true }, value.GreaterThanVal, value.GreaterThanInt, noerrB(value.GreaterThanInts), any},
		{"ge", ">=", func(a, b *big.Int) (string, bool) { return boolStr(a.Cmp(b) >= 0), true }, value.GreaterThanEqualVal, value.GreaterThanEqualInt, noerrB(value.GreaterThanEqualInts), any},
		{"eq", "==", func(a, b *big.Int) (string, bool) { return boolStr(a.Cmp(b) == 0), true }, noerr(value.EqualVal), nil, noerrB(value.EqualInts), any},
		{"laxeq", "=~", func(a, b *big.Int) (string, bool) { return boolStr(a.Cmp(b) == 0), true }, noerr(value.LaxEqualVal), nil, nil, any},
		{"stricteq", "===", func(a, b *big.Int) (string, bool) { return boolStr(a.Cmp(b) == 0), true }, noerr(value.StrictEqualVal), nil, nil, any},
		{"and", "&", func(a, b *big.Int) (string, bool) { return new(big.Int).And(a, b).String(), true }, value.BitwiseAndVal, value.BitwiseAndInt, noerr(value.BitwiseAndInts), any},
		{"or", "|", func(a, b *big.Int) (string, bool) { return new(big.Int).Or(a, b).String(), true }, value.BitwiseOrVal, nil, noerr(value.BitwiseOrInts), any},
		{"xor", "^", func(a, b *big.Int) (string, bool) { return new(big.Int).Xor(a, b).String(), true }, value.BitwiseXorVal, nil, noerr(value.BitwiseXorInts), any},
		{"andnot", "&~", func(a, b *big.Int) (string, bool) { return new(big.Int).AndNot(a, b).String(), true }, value.BitwiseAndNotVal, value.BitwiseAndNotInt, noerr(value.BitwiseAndNotInts), any},
		{"shl", "<<", func(a, b *big.Int) (string, bool) { return shiftRef(a, b.Int64()).String(), true }, value.LeftBitshiftVal, value.LeftBitshiftInt, noerr(value.LeftBitshiftInts), smallShift},
		{"shr", ">>", func(a, b *big.Int) (string, bool) { return shiftRef(a, -b.Int64()).String(), true }, value.RightBitshiftVal, value.RightBitshiftInt, noerr(value.RightBitshiftInts), smallShift},
	}
}

func shiftAmounts() []*big.Int {
	var r []*big.Int
	for _, n := range []int64{0, 1, -1, 5, 62, 63, -63, 64, -64, 65, -65, 127, 128, 200, -200} {
		r = append(r, big.NewInt(n))
	}
	return r
}

// reprSig classifies an operand by representation and sign for signatures.
func repr(z *big.Int) string {
	s := "small"
	if !z.IsInt64() {
		s = "big"
	}
	switch z.Sign() {
	case -1:
		return s + "-"
	case 0:
		return "zero"
	}
	return s + "+"
}

var th *vm.Thread

func checkGoValue(r *engine.R, family string, op binop, a, b *big.Int, f func(l, r value.Value) (value.Value, value.Value)) {
	if f == nil {
		return
	}
	want, defined := op.ref(a, b)
	var got, err value.Value
	func() {
		defer func() {
			if p := recover(); p != nil {
				r.Violation(fmt.Sprintf("go-api panic family=%s op=%s repr=%s,%s", family, op.sym, repr(a), repr(b)), fmt.Sprintf("%s %s %s panicked: %v", a, op.sym, b, p), nil)
				got = value.Undefined
				err = value.Undefined
				defined = false
				want = "<panic>"
			}
		}()
		l, rr := toElk(a), toElk(b)
		got, err = f(l, rr)
		if l.Inspect() != a.String() || rr.Inspect() != b.String() {
			r.Violation(fmt.Sprintf("operand mutated op=%s family=%s repr=%s,%s", op.sym, family, repr(a), repr(b)),
				fmt.Sprintf("%s %s %s: after the operation the operands read %s and %s", a, op.sym, b, l.Inspect(), rr.Inspect()), nil)
		}
	}()
	if want == "<panic>" {
		return
	}
	r.Eval(1)
	if !defined {
		if err.IsUndefined() {
			r.Violation(fmt.Sprintf("op=%s family=%s zero-divisor no error", op.sym, family), fmt.Sprintf("%s %s %s: expected an error, got %s", a, op.sym, b, insp(got)), nil)
		}
		r.Outcome("error")
		return
	}
	if !err.IsUndefined() || got.IsUndefined() {
		r.Violation(fmt.Sprintf("op=%s family=%s unexpected error repr=%s,%s", op.sym, family, repr(a), repr(b)), fmt.Sprintf("%s %s %s: expected %s, got error %s", a, op.sym, b, want, insp(err)), nil)
		return
	}
	gotS := got.Inspect()
	if gotS != want {
		r.Violation(fmt.Sprintf("op=%s family=%s wrong value repr=%s,%s", op.sym, family, repr(a), repr(b)), fmt.Sprintf("%s %s %s: expected %s, got %s", a, op.sym, b, want, gotS), nil)
		return
	}
	// representation independence of integer results
	if wz, ok := new(big.Int).SetString(want, 10); ok && got.IsReference() || got.IsSmallInt() {
		if wz != nil {
			checkRepr(r, fmt.Sprintf("op=%s family=%s", op.sym, family), fmt.Sprintf("%s %s %s", a, op.sym, b), got, wz)
		}
	}
	r.Outcome("ok")
}

func insp(v value.Value) string {
	if v.IsUndefined() {
		return "<undefined>"
	}
	return v.Inspect()
}

func checkRepr(r *engine.R, where, expr string, got value.Value, want *big.Int) {
	if !(got.IsSmallInt() || value.IsA(got, value.IntClass)) {
		return
	}
	if want.IsInt64() != got.IsSmallInt() {
		r.Violation(where+" result not normalised", fmt.Sprintf("%s = %s: fits in a word: %v, but IsSmallInt=%v", expr, want, want.IsInt64(), got.IsSmallInt()), nil)
		return
	}
	canon := toElk(want)
	h1, e1 := vm.Hash(th, got)
	h2, e2 := vm.Hash(th, canon)
	if !e1.IsUndefined() || !e2.IsUndefined() || h1 != h2 {
		r.Violation(where+" hash differs from canonical", fmt.Sprintf("%s = %s: hash %v vs %v", expr, want, h1, h2), nil)
	}
	eq1, _ := vm.Equal(th, got, canon)
	eq2, _ := vm.Equal(th, canon, got)
	if !value.Truthy(eq1) || !value.Truthy(eq2) {
		r.Violation(where+" not equal to canonical", fmt.Sprintf("%s = %s: == with the canonical value is false", expr, want), nil)
	}
}

func lit(z *big.Int) string {
	if z.Sign() < 0 {
		return "(" + z.String() + ")"
	}
	return z.String()
}

const prelude = elkrun.ShowPrelude + `
def show_b(v: bool): ::Std::String then v.inspect
`

// forms of one operator through the VM. Each yields a program fragment printing one line.
var forms = []string{"literal", "typed", "dynamic", "method"}

func defs(op binop, resType string) string {
	n := op.name
	var b strings.Builder
	rhs := "Int"
	if op.sym == "===" {
		return ""
	}
	fmt.Fprintf(&b, "def t_%s(a: Int, b: %s): %s then a %s b\n", n, rhs, resType, op.sym)
	fmt.Fprintf(&b, "def m_%s(a: Int, b: %s): %s then a.%s(b)\n", n, rhs, resType, op.sym)
	return b.String()
}

func main() {
	engine.Main(&engine.Spec{
		Prop:  "C06",
		Level: "exploration",
		Rule: "every ordered pair of the boundary Int set (both sides of 2^31, 2^32, 2^62, 2^63, 2^64, 10^30, 2^128; thorough adds 24 more) × every Int operator, " +
			"through the Go API families XVal/XInt/XInts and through the VM in literal (constant-folded), Int-typed-parameter, union-typed (dynamic) and explicit-method-call form; " +
			"shifts over 15 amounts; ** over exponents 0..10; oracle math/big with truncated division; a case is non-trivial when at least one operand or the exact result is outside the machine word or the operator is / % ** << >>; cases are enumerated without repetition",
		Assume: []string{"math/big is correct", "method bodies compiled one at a time (MethodCheckConcurrencyLimit=1)"},
		Setup: func(c *engine.Ctx) {
			elkrun.Init()
			th = vm.New()
		},
		Run: run,
	})
}

func nontrivial(op binop, a, b *big.Int) bool {
	if !a.IsInt64() || !b.IsInt64() {
		return true
	}
	switch op.sym {
	case "/", "%", "**", "<<", ">>":
		return true
	}
	if w, ok := op.ref(a, b); ok {
		if z, ok2 := new(big.Int).SetString(w, 10); ok2 && !z.IsInt64() {
			return true
		}
	}
	return false
}

func run(c *engine.Ctx) {
	vs := values(c.Thorough)
	for _, op := range ops() {
		op := op
		rhsSet := vs
		if op.sym == "<<" || op.sym == ">>" {
			rhsSet = shiftAmounts()
		}
		if op.sym == "**" {
			rhsSet = nil
			for _, e := range []int64{0, 1, 2, 3, 5, 10} {
				rhsSet = append(rhsSet, big.NewInt(e))
			}
		}
		// Go API level: one case per (op)
		c.Case("goapi/"+op.name, func(r *engine.R) {
			for _, a := range vs {
				for _, b := range rhsSet {
					if !op.rhs(b) {
						continue
					}
					checkGoValue(r, "Val", op, a, b, op.val)
					checkGoValue(r, "Int", op, a, b, op.intf)
					checkGoValue(r, "Ints", op, a, b, op.ints)
					if nontrivial(op, a, b) {
						r.NT(1)
					}
				}
			}
			r.Sample(fmt.Sprintf("go api: %s %s %s via value.%sVal/Int/Ints", vs[len(vs)-1], op.sym, rhsSet[len(rhsSet)-1], op.name))
		})
		// identity a == (a/b)*b + a%b through the Go API (cross-operator)
		if op.sym == "/" {
			c.Case("goapi/div-identity", func(r *engine.R) {
				for _, a := range vs {
					for _, b := range vs {
						if b.Sign() == 0 {
							continue
						}
						q, e1 := value.DivideVal(toElk(a), toElk(b))
						m, e2 := value.ModuloVal(toElk(a), toElk(b))
						r.Eval(1)
						r.NT(1)
						if !e1.IsUndefined() || !e2.IsUndefined() {
							continue // reported by the per-operator cases
						}
						p, _ := value.MultiplyVal(q, toElk(b))
						s, _ := value.AddVal(p, m)
						if s.IsUndefined() || s.Inspect() != a.String() {
							r.Violation(fmt.Sprintf("identity a==(a/b)*b+a%%b repr=%s,%s", repr(a), repr(b)), fmt.Sprintf("a=%s b=%s: a/b=%s a%%b=%s, (a/b)*b+a%%b=%s", a, b, insp(q), insp(m), insp(s)), nil)
						}
						// sign of remainder follows the dividend
						if mz, ok := new(big.Int).SetString(m.Inspect(), 10); ok && mz.Sign() != 0 && mz.Sign() != a.Sign() {
							r.Violation(fmt.Sprintf("remainder sign repr=%s,%s", repr(a), repr(b)), fmt.Sprintf("a=%s b=%s: a%%b=%s has the wrong sign", a, b, m.Inspect()), nil)
						}
					}
				}
			})
		}
		// VM level: one case per (op, left operand): all right operands × 4 forms in one batch
		resType := "Int"
		switch op.sym {
		case "<", "<=", ">", ">=", "==", "=~", "===":
			resType = "bool"
		case "<=>":
			resType = "Int?"
		}
		for _, a := range vs {
			a := a
			c.Case(fmt.Sprintf("vm/%s/%s", op.name, a), func(r *engine.R) {
				var items []elkrun.Item
				type meta struct {
					b    *big.Int
					form string
				}
				var metas []meta
				for _, b := range rhsSet {
					if !op.rhs(b) {
						continue
					}
					if _, ok := op.ref(a, b); !ok {
						continue // zero divisors: separate case below
					}
					for _, form := range forms {
						if op.sym == "===" && (form == "method" || form == "typed") {
							continue // === is not a method; the typed form is the literal form
						}
						var code string
						switch form {
						case "literal":
							code = fmt.Sprintf("x := %s %s %s\nprintln(show(x))", lit(a), op.sym, lit(b))
						case "typed":
							code = fmt.Sprintf("println(show(t_%s(%s, %s)))", op.name, lit(a), lit(b))
						case "dynamic":
							code = fmt.Sprintf("var da: Int | Float = %s\nx := da %s %s\nprintln(show(x))", lit(a), op.sym, lit(b))
							switch op.sym {
							case "&", "|", "^", "&~", "<<", ">>":
								continue // Float has no bitwise operators: the union form does not type-check
							}
						case "method":
							code = fmt.Sprintf("println(show(m_%s(%s, %s)))", op.name, lit(a), lit(b))
						}
						items = append(items, elkrun.Item{Code: code})
						metas = append(metas, meta{b, form})
					}
				}
				res := elkrun.Batch(prelude+defs(op, resType), items, nil)
				for i, ir := range res {
					b, form := metas[i].b, metas[i].form
					want, _ := op.ref(a, b)
					r.Eval(1)
					if nontrivial(op, a, b) {
						r.NT(1)
					}
					got := strings.TrimSpace(ir.Out)
					sigBase := fmt.Sprintf("op=%s form=%s repr=%s,%s", op.sym, form, repr(a), repr(b))
					switch {
					case ir.Panic != "":
						r.Violation("vm go-panic "+sigBase+" "+ir.Panic, fmt.Sprintf("%s\n%s", items[i].Code, ir.Stack), items[i].Code)
					case ir.Rejected:
						r.Violation("rejected "+fmt.Sprintf("op=%s form=%s", op.sym, form), fmt.Sprintf("%s\nchecker rejected a well-typed Int expression:\n%s", items[i].Code, ir.Diags), items[i].Code)
					case ir.Err != "":
						r.Violation("vm unexpected error "+sigBase, fmt.Sprintf("%s\nexpected %s, got uncaught error %s", items[i].Code, want, ir.Err), items[i].Code)
					case got != want:
						r.Violation("vm wrong value "+sigBase, fmt.Sprintf("%s\nexpected %s, printed %s", items[i].Code, want, got), items[i].Code)
					default:
						r.Outcome("ok")
					}
				}
				if len(items) > 0 {
					r.Sample(items[len(items)-1].Code)
				}
			})
		}
	}
	// operands are values: evaluating an operator never changes what its operand variables read
	for _, op := range ops() {
		op := op
		if op.sym == "===" {
			continue
		}
		rhsSet := vs
		if op.sym == "<<" || op.sym == ">>" {
			rhsSet = shiftAmounts()
		}
		if op.sym == "**" {
			rhsSet = []*big.Int{big.NewInt(0), big.NewInt(1), big.NewInt(2), big.NewInt(3)}
		}
		c.Case("vm/immutable-operands/"+op.name, func(r *engine.R) {
			var items []elkrun.Item
			var ab [][2]*big.Int
			for _, a := range vs {
				for _, b := range rhsSet {
					if (a.IsInt64() && b.IsInt64()) || !op.rhs(b) {
						continue // immediates cannot be mutated
					}
					if _, ok := op.ref(a, b); !ok {
						continue
					}
					items = append(items, elkrun.Item{Code: fmt.Sprintf("println(k(%s, %s))", lit(a), lit(b))})
					ab = append(ab, [2]*big.Int{a, b})
				}
			}
			pre := fmt.Sprintf("def k(a: Int, b: Int): String\n  x := a %s b\n  a.inspect + \" \" + b.inspect\nend\n", op.sym)
			res := elkrun.Batch(pre, items, nil)
			for i, ir := range res {
				r.Eval(1)
				r.NT(1)
				want := ab[i][0].String() + " " + ab[i][1].String()
				if ir.Panic != "" || ir.Rejected || ir.Err != "" {
					continue // reported by the per-operator cases
				}
				if got := strings.TrimSpace(ir.Out); got != want {
					r.Violation(fmt.Sprintf("vm operand mutated op=%s repr=%s,%s", op.sym, repr(ab[i][0]), repr(ab[i][1])), fmt.Sprintf("%s%s\noperands afterwards: %s, expected %s", pre, items[i].Code, got, want), pre+items[i].Code)
				}
			}
		})
	}
	// zero divisors: every form must raise ZeroDivisionError (an Elk error, not a crash)
	for _, sym := range []string{"/", "%"} {
		sym := sym
		c.Case("vm/zero-divisor/"+sym, func(r *engine.R) {
			for _, a := range vs {
				for _, form := range []string{"typed", "dynamic", "method"} {
					var src string
					switch form {
					case "typed":
						src = fmt.Sprintf("def f(a: Int, b: Int): Int then a %s b\nprintln(f(%s, 0).inspect)", sym, lit(a))
					case "dynamic":
						src = fmt.Sprintf("var da: Int | Float = %s\nx := da %s 0\nprintln(show(x))", lit(a), sym)
					case "method":
						src = fmt.Sprintf("def f(a: Int, b: Int): Int then a.%s(b)\nprintln(f(%s, 0).inspect)", sym, lit(a))
					}
					res := elkrun.Run(elkrun.ShowPrelude+src, nil)
					elkrun.ResetRuntime() // `def f` is redefined by the next program
					r.Eval(1)
					r.NT(1)
					if res.Panic != "" {
						r.Violation(fmt.Sprintf("vm go-panic zero-divisor op=%s form=%s %s", sym, form, res.PanicSig), src+"\n"+res.Stack, src)
					} else if res.Rejected {
						r.Count("rejected_zero_divisor", 1)
					} else if res.ErrClass != "Std::ZeroDivisionError" {
						r.Violation(fmt.Sprintf("zero-divisor op=%s form=%s no ZeroDivisionError repr=%s", sym, form, repr(a)), fmt.Sprintf("%s\noutcome: %s", src, res.Outcome()), src)
					} else {
						r.Outcome("ZeroDivisionError")
					}
				}
			}
		})
	}
	// unary operators and literal bases are covered by C19; unary -, ~ here
	c.Case("unary", func(r *engine.R) {
		var items []elkrun.Item
		type meta struct {
			a        *big.Int
			op, form string
		}
		var metas []meta
		for _, a := range vs {
			for _, op := range []string{"-", "~"} {
				want := new(big.Int).Neg(a)
				if op == "~" {
					want = new(big.Int).Not(a)
				}
				var got value.Value
				if op == "-" {
					got = value.NegateVal(toElk(a))
				} else {
					got = value.BitwiseNotVal(toElk(a))
				}
				r.Eval(1)
				r.NT(1)
				if got.IsUndefined() || got.Inspect() != want.String() {
					r.Violation(fmt.Sprintf("unary %s go-api wrong value repr=%s", op, repr(a)), fmt.Sprintf("%s%s: expected %s got %s", op, a, want, insp(got)), nil)
				} else {
					checkRepr(r, "unary "+op+" go-api", op+a.String(), got, want)
				}
				for _, form := range []string{"literal", "typed"} {
					code := fmt.Sprintf("x := %s%s\nprintln(x.inspect)", op, lit(a))
					if form == "typed" {
						code = fmt.Sprintf("println(u_%s(%s).inspect)", map[string]string{"-": "neg", "~": "not"}[op], lit(a))
					}
					items = append(items, elkrun.Item{Code: code})
					metas = append(metas, meta{a, op, form})
				}
			}
		}
		res := elkrun.Batch("def u_neg(a: Int): Int then -a\ndef u_not(a: Int): Int then ~a\n", items, nil)
		for i, ir := range res {
			m := metas[i]
			want := new(big.Int).Neg(m.a)
			if m.op == "~" {
				want = new(big.Int).Not(m.a)
			}
			r.Eval(1)
			got := strings.TrimSpace(ir.Out)
			if ir.Panic != "" || ir.Rejected || ir.Err != "" || got != want.String() {
				r.Violation(fmt.Sprintf("unary %s vm form=%s repr=%s", m.op, m.form, repr(m.a)), fmt.Sprintf("%s\nexpected %s, got %q rejected=%v err=%s panic=%s %s", items[i].Code, want, got, ir.Rejected, ir.Err, ir.Panic, ir.Diags), items[i].Code)
			}
		}
	})
}
