// C15 — generators and async functions preserve the semantics of their body.
// Bounded-exhaustive differential check: every body of a template family x every argument is compiled as a
// plain method, as a generator (whose last value is the body's result), as an async function awaited with
// await_sync and as an async function awaited from another async function, on thread pools of several
// sizes; all wrappers must print the same trace and produce the same value or error. Generator yield
// sequences are compared with a reference computed in Go.
package main

import (
	"fmt"
	"strings"

	"verifharness/elkrun"
	"verifharness/engine"
)

// a body is a list of statements over parameter n: Int (and helper leaf15(x)); the last line is the result expression
type body struct {
	name   string
	lines  []string
	throws bool
	noGen  bool // uses `return`, whose meaning differs inside a generator
}

var bodies = []body{
	{"arith", []string{"n + 1"}, false, false},
	{"local-from-call", []string{"x := leaf15(n)", "x + 1"}, false, false},
	{"two-locals-from-calls", []string{"x := leaf15(n)", "y := leaf15(x)", "x + y"}, false, false},
	{"if-else", []string{"r := if n > 1 then n * 2 else n - 1", "r"}, false, false},
	{"while-accumulate", []string{"s := 0", "i := 0", "while i < n", "  s += i", "  i += 1", "end", "s"}, false, false},
	{"loop-break-value", []string{"i := 0", "r := loop", "  i += 1", "  break i * 10 if i > n", "end", "r"}, false, false},
	{"marker-prints", []string{"println(\"m1\")", "x := n * 2", "println(\"m2 \" + x.to_string)", "x"}, false, false},
	{"throw-conditional", []string{"throw :boom if n > 1", "n"}, true, false},
	{"throw-after-print", []string{"println(\"before\")", "throw :boom if n == 2", "println(\"after\")", "n + 5"}, true, false},
	{"catch-inside", []string{"r := do", "  throw :boom if n > 1", "  n", "catch :boom", "  println(\"caught\")", "  -1", "end", "r + 1"}, false, false},
	{"finally-marker", []string{"r := do", "  println(\"try\")", "  n + 1", "finally", "  println(\"fin\")", "end", "r"}, false, false},
	{"finally-with-throw", []string{"r := do", "  throw :boom if n > 1", "  n", "finally", "  println(\"fin\")", "end", "r"}, true, false},
	{"closure-capture", []string{"k := n", "f := |x: Int|: Int -> x + k", "k = k + 1", "f.(10)"}, false, false},
	{"closure-counter", []string{"c := 0", "inc := ||: Int -> c += 1", "inc.()", "inc.()", "c + n"}, false, false},
	{"nested-calls", []string{"leaf15(leaf15(n) + leaf15(1))"}, false, false},
	{"list-build", []string{"l := [1, 2]", "l << n", "l.length + (try l[2])"}, false, false},
	{"string-interp", []string{"s := \"v#{n}\"", "s.length"}, false, false},
	{"early-return", []string{"return 7 if n == 0", "x := leaf15(n)", "x"}, false, true},
	{"must-nil", []string{"var m: Int? = nil", "m = n if n > 0", "(must m) + 1"}, false, false},
	{"defer-marker", []string{"defer println(\"deferred\")", "println(\"body\")", "n"}, false, false},
	{"switch", []string{"r := switch n", "case 0 then 10", "case 1 then 11", "else 12", "end", "r"}, false, false},
	{"unchecked-throw", []string{"throw unchecked :bad if n == 3", "n"}, false, false},
	{"zero-division", []string{"10 / (n - 1)"}, false, false},
}

// generator sequences: source lines with yields; ref computes the expected iteration (yielded values then the final value)
type genSeq struct {
	name  string
	lines []string
	ref   func(n int) []string
}

var genSeqs = []genSeq{
	{"yield-in-while", []string{"i := 0", "while i < n", "  yield i", "  i += 1", "end", "100"}, func(n int) []string {
		var r []string
		for i := 0; i < n; i++ {
			r = append(r, fmt.Sprint(i))
		}
		return append(r, "100")
	}},
	{"yield-local-from-call", []string{"p := leaf15(n)", "yield p", "q := leaf15(p)", "yield q", "p + q"}, func(n int) []string {
		p := n + 1
		q := p + 1
		return []string{fmt.Sprint(p), fmt.Sprint(q), fmt.Sprint(p + q)}
	}},
	{"yield-in-do-finally", []string{"do", "  yield 1", "  yield 2", "finally", "  println(\"fin\")", "end", "3"}, func(n int) []string { return []string{"1", "2", "fin", "3"} }},
	{"yield-in-loop-break", []string{"i := 0", "loop", "  break if i >= n", "  yield i * 2", "  i += 1", "end", "yield 77", "-1"}, func(n int) []string {
		var r []string
		for i := 0; i < n; i++ {
			r = append(r, fmt.Sprint(i*2))
		}
		return append(r, "77", "-1")
	}},
	{"yield-nested-if", []string{"if n > 1", "  yield 10", "else", "  yield 20", "end", "yield 30", "n"}, func(n int) []string {
		if n > 1 {
			return []string{"10", "30", fmt.Sprint(n)}
		}
		return []string{"20", "30", fmt.Sprint(n)}
	}},
}

func indent(lines []string) string {
	var b strings.Builder
	for _, l := range lines {
		b.WriteString("  " + l + "\n")
	}
	return b.String()
}

var wrappers = []string{"plain", "generator", "async", "async-nested"}

// program builds one program observing one (body, wrapper, n).
func program(b body, w string, n int, uid string) string {
	thr := ""
	if b.throws {
		thr = " ! :boom"
	}
	var s strings.Builder
	s.WriteString("def leaf15(x: Int): Int then x + 1\n")
	call := ""
	switch w {
	case "plain":
		fmt.Fprintf(&s, "def f%s(n: Int): Int%s\n%send\n", uid, thr, indent(b.lines))
		call = fmt.Sprintf("r := f%s(%d)\n  println(\"=> \" + r.to_string)", uid, n)
	case "generator":
		fmt.Fprintf(&s, "def *f%s(n: Int): Int%s\n%send\n", uid, thr, indent(b.lines))
		call = fmt.Sprintf("var last: Int? = nil\n  for v in f%s(%d)\n    last = v\n  end\n  println(\"=> \" + (must last).to_string)", uid, n)
	case "async":
		fmt.Fprintf(&s, "async def f%s(n: Int): Int%s\n%send\n", uid, thr, indent(b.lines))
		call = fmt.Sprintf("r := f%s(%d).await_sync\n  println(\"=> \" + r.to_string)", uid, n)
	case "async-nested":
		fmt.Fprintf(&s, "async def f%s(n: Int): Int%s\n%send\n", uid, thr, indent(b.lines))
		fmt.Fprintf(&s, "async def o%s(n: Int): Int%s\n  v := await f%s(n)\n  v\nend\n", uid, thr, uid)
		call = fmt.Sprintf("r := o%s(%d).await_sync\n  println(\"=> \" + r.to_string)", uid, n)
	}
	fmt.Fprintf(&s, "do\n  %s\ncatch :boom\n  println(\"THROWN :boom\")\nend\n", call)
	return s.String()
}

func classify(res elkrun.Result) string {
	switch {
	case res.Rejected:
		return "REJECTED " + strings.SplitN(res.Diags, "\n", 2)[0]
	case res.Panic != "":
		return "GOPANIC " + res.PanicSig
	case res.Err != "":
		return fmt.Sprintf("out=%q UNCAUGHT %s", res.Stdout, res.ErrClass)
	}
	return fmt.Sprintf("out=%q", res.Stdout)
}

type poolCfg struct{ n, q int }

func main() {
	seq := 0
	engine.Main(&engine.Spec{
		Prop:  "C15",
		Level: "exploration",
		Rule: "23 function bodies (arithmetic, locals assigned from calls, loops, break values, throws, catch/finally/defer, closures, collections, switch, runtime errors) x arguments 0..3 (thorough 0..6) x wrappers {plain method, generator, async + await_sync, async awaited from async} x thread pools {(1,2),(2,2),(4,256)} (thorough: 7 pool shapes) for the async wrappers; plus 5 generator bodies with yields in loops / do-finally / closures x arguments 0..3 against a reference sequence; " +
			"oracle: all wrappers print the same trace and the same value or thrown value as the plain method; generators yield exactly the reference sequence; no Go panic; non-trivial = every (body, argument, wrapper, pool) tuple (enumerated without repetition)",
		Assume: []string{"the schedule clause (any interleaving of tasks) is explored exhaustively by C16's scenarios; here pools run free and results must not depend on their size", "callee-first definition order"},
		Setup:  func(c *engine.Ctx) { elkrun.Init() },
		Run: func(c *engine.Ctx) {
			pools := []poolCfg{{1, 2}, {2, 2}, {4, 256}}
			maxN := 3
			if c.Thorough {
				pools = []poolCfg{{1, 2}, {1, 8}, {2, 2}, {2, 8}, {3, 3}, {4, 256}, {8, 2}}
				maxN = 6
			}
			for _, b := range bodies {
				for n := 0; n <= maxN; n++ {
					b, n := b, n
					c.Case(fmt.Sprintf("body/%s/n=%d", b.name, n), func(r *engine.R) {
						var ref string
						for _, w := range wrappers {
							if w == "generator" && b.noGen {
								continue
							}
							cfgs := []poolCfg{{0, 0}}
							if strings.HasPrefix(w, "async") {
								cfgs = pools
							}
							for _, pc := range cfgs {
								seq++
								uid := fmt.Sprintf("15_%d_%d", c.Seed, seq)
								src := program(b, w, n, uid)
								var opts *elkrun.Options
								if pc.n > 0 {
									opts = &elkrun.Options{PoolN: pc.n, PoolQ: pc.q}
								}
								res := elkrun.Run(src, opts)
								elkrun.ResetRuntime()
								got := classify(res)
								r.Eval(1)
								r.NT(1)
								r.Outcome(strings.SplitN(got, " ", 2)[0] + ":" + w)
								if w == "plain" {
									ref = got
									if res.Panic != "" {
										r.Violation("go-panic wrapper=plain body="+b.name+" "+res.PanicSig, src+"\n"+res.Stack, src)
									} else if res.Rejected {
										r.Violation("INFRA plain body rejected body="+b.name, src+"\n"+res.Diags, src)
									}
									continue
								}
								if got != ref {
									kind := "differs"
									if res.Panic != "" {
										kind = "go-panic " + res.PanicSig
									} else if res.Rejected {
										kind = "rejected"
									}
									r.Violation(fmt.Sprintf("wrapper=%s body=%s %s", w, b.name, kind),
										fmt.Sprintf("%s\npool=(%d,%d) n=%d\nplain:   %s\n%s: %s\n%s", src, pc.n, pc.q, n, ref, w, got, res.Diags), src)
								}
							}
						}
						r.Sample(program(b, "async-nested", n, "S"))
					})
				}
			}
			for _, g := range genSeqs {
				for n := 0; n <= maxN; n++ {
					g, n := g, n
					c.Case(fmt.Sprintf("genseq/%s/n=%d", g.name, n), func(r *engine.R) {
						seq++
						uid := fmt.Sprintf("15g_%d", seq)
						src := fmt.Sprintf("def leaf15(x: Int): Int then x + 1\ndef *g%s(n: Int): Int\n%send\nfor v in g%s(%d)\n  println(v)\nend\nprintln(\"END\")\n", uid, indent(g.lines), uid, n)
						res := elkrun.Run(src, nil)
						elkrun.ResetRuntime()
						r.Eval(1)
						r.NT(1)
						want := strings.Join(append(g.ref(n), "END"), "\n") + "\n"
						switch {
						case res.Panic != "":
							r.Violation("generator sequence go-panic body="+g.name+" "+res.PanicSig, src+"\n"+res.Stack, src)
						case res.Rejected:
							r.Violation("INFRA generator body rejected body="+g.name, src+"\n"+res.Diags, src)
						case res.Err != "" || res.Stdout != want:
							r.Violation("generator sequence differs body="+g.name, fmt.Sprintf("%s\nexpected:\n%sgot:\n%s err=%s", src, want, res.Stdout, res.Err), src)
						default:
							r.Outcome("sequence-ok")
						}
					})
				}
			}
		},
	})
}
