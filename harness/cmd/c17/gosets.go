package main

import (
	"fmt"
	"runtime/debug"

	"reflect"
	"sort"
	"strings"
	"unsafe"
	"verifharness/engine"

	"github.com/elk-language/elk/value"
	"github.com/elk-language/elk/vm"
)

type setKind struct {
	name  string
	u     *universe
	fresh func(capacity int) vm.HashSet
	// function-style API of HashSetOfValue (nil for the specialised variant)
	addFn      func(o vm.HashSet, v value.Value) (bool, value.Value)
	delFn      func(o vm.HashSet, v value.Value) (bool, value.Value)
	containsFn func(o vm.HashSet, v value.Value) (bool, value.Value)
	setCap     func(o vm.HashSet, c int) value.Value
	grow       func(o vm.HashSet, n int) value.Value
	copyFrom   func(dst, src vm.HashSet) value.Value
	copyTable  func(dst, src vm.HashSet) value.Value
	unionFn    func(a, b vm.HashSet) (vm.HashSet, value.Value)
	unionIface func(a, b vm.HashSet) (vm.HashSet, value.Value)
	interFn    func(a, b vm.HashSet) (vm.HashSet, value.Value)
	interIface func(a, b vm.HashSet) (vm.HashSet, value.Value)
	equalFn    func(a, b vm.HashSet) (bool, value.Value)
	peers      []*setKind
}

// setTable reads the unexported fields of HashSetOfValue (table, occupiedSlots, elements).
func setTable(o vm.HashSet) (t []value.Value, el, occ int, ok bool) {
	h, isv := o.(*vm.HashSetOfValue)
	if !isv {
		return nil, 0, 0, false
	}
	rv := reflect.ValueOf(h).Elem()
	tf, ef, of := rv.FieldByName("table"), rv.FieldByName("elements"), rv.FieldByName("occupiedSlots")
	if !tf.IsValid() || !ef.IsValid() || !of.IsValid() {
		panic("c17: HashSetOfValue no longer has the fields table/elements/occupiedSlots; update setTable")
	}
	t = *(*[]value.Value)(unsafe.Pointer(tf.UnsafeAddr()))
	return t, int(ef.Int()), int(of.Int()), true
}

func isSetTombstone(v value.Value) bool { return v == vm.DeletedHashSetValue }

func (k *setKind) stateKey(o vm.HashSet) string {
	var b strings.Builder
	ent := func(v value.Value) string {
		if ki := k.u.keyIdx(v); ki >= 0 {
			return fmt.Sprintf("k%d", ki)
		}
		return safeInspect(v)
	}
	if t, el, occ, ok := setTable(o); ok {
		fmt.Fprintf(&b, "%T %d/%d/%d:", o, el, occ, len(t))
		for _, v := range t {
			switch {
			case v.IsUndefined():
				b.WriteString("_,")
			case isSetTombstone(v):
				b.WriteString("X,")
			default:
				b.WriteString(ent(v) + ",")
			}
		}
		return b.String()
	}
	var ents []string
	for v := range o.All() {
		ents = append(ents, ent(v))
	}
	sort.Strings(ents)
	fmt.Fprintf(&b, "%T %d:%s", o, o.Length(), strings.Join(ents, ","))
	return b.String()
}

func (k *setKind) build(m model, capacity int, reverse bool) vm.HashSet {
	o := k.fresh(capacity)
	ks := sortedKeys(m)
	if reverse {
		sort.Sort(sort.Reverse(sort.IntSlice(ks)))
	}
	for _, ki := range ks {
		if _, err := o.AppendVal(th, k.u.mk[ki]()); isErr(err) {
			panic("building an argument set failed: " + safeInspect(err))
		}
	}
	return o
}

type setSys struct {
	k       *setKind
	initCap int
	capMax  int
	ops     []mop
	names   []string
	fixed   []model
	nrep    map[string]int
}

func newSetSys(k *setKind, initCap, capMax int, thorough bool) *setSys {
	s := &setSys{k: k, initCap: initCap, capMax: capMax, nrep: map[string]int{}}
	if k.u == uMixed {
		s.fixed = []model{{6: 1}, {0: 1, 4: 1}, {5: 1, 1: 1}}
	} else {
		s.fixed = []model{{4: 1}, {0: 1, 1: 1}}
	}
	add := func(kind string, a, b int, name string) {
		s.ops = append(s.ops, mop{kind, a, b, name})
		s.names = append(s.names, name)
	}
	for ki := 0; ki < k.u.nset; ki++ {
		add("add", ki, 0, fmt.Sprintf("add(k%d)", ki))
	}
	for ki := 0; ki < k.u.nset; ki++ {
		add("remove", ki, 0, fmt.Sprintf("remove(k%d)", ki))
	}
	if k.setCap != nil {
		add("set_capacity", 0, 0, "set_capacity(length)")
		add("set_capacity", 1, 0, "set_capacity(length+1)")
	}
	if k.grow != nil {
		add("grow", 1, 0, "grow(1)")
	}
	for fi := range s.fixed {
		if k.copyFrom != nil {
			add("copy_into", fi, 0, fmt.Sprintf("copy_into(self<-F%d)", fi))
		}
		if k.copyTable != nil && (thorough || fi == 1) {
			add("copy_table", fi, 0, fmt.Sprintf("copy_table(self<-F%d)", fi))
		}
		add("union", fi, 0, fmt.Sprintf("self=self|F%d", fi))
		add("intersection", fi, 0, fmt.Sprintf("self=self&F%d", fi))
	}
	add("rebuild", 0, 0, "self=clone(capacity=length)")
	return s
}

func (s *setSys) Name() string           { return s.k.name }
func (s *setSys) OpNames() []string      { return s.names }
func (s *setSys) sig(what string) string { return "go-api kind=" + s.k.name + " " + what }

func (s *setSys) describe(o vm.HashSet, m model) string {
	var ks []string
	for i, n := range s.k.u.names {
		ks = append(ks, fmt.Sprintf("k%d=%s", i, n))
	}
	return fmt.Sprintf("keys: %s\nmodel members: %v\nreal state: %s", strings.Join(ks, " "), sortedKeys(m), s.k.stateKey(o))
}

func intersect(a, b model) model {
	c := model{}
	for k := range a {
		if _, ok := b[k]; ok {
			c[k] = 1
		}
	}
	return c
}

func (s *setSys) apply(po *vm.HashSet, m model, op mop, check bool) (applicable bool, vs []viol, outcome string) {
	k, u, o := s.k, s.k.u, *po
	bad := func(what, detail string) {
		if check {
			vs = append(vs, viol{s.sig(what), detail + "\n" + s.describe(*po, m)})
		}
	}
	capOf := func() int {
		if t, _, _, ok := setTable(o); ok {
			return len(t)
		}
		return 0
	}
	switch op.kind {
	case "add":
		_, had := m[op.a]
		added, err := o.AppendVal(th, u.mk[op.a]())
		m[op.a] = 1
		if isErr(err) {
			bad("add returns an error", safeInspect(err))
		} else if added == had {
			bad("add reports the wrong result", fmt.Sprintf("AppendVal returned %v, member before: %v", added, had))
		}
		if had {
			return true, vs, "add:present"
		}
		return true, vs, "add:new"
	case "remove":
		_, had := m[op.a]
		removed, err := o.RemoveVal(th, u.mk[op.a]())
		delete(m, op.a)
		if isErr(err) {
			bad("remove returns an error", safeInspect(err))
		} else if removed != had {
			bad("remove reports the wrong result", fmt.Sprintf("RemoveVal returned %v, member before: %v", removed, had))
		}
		if had {
			return true, vs, "remove:hit"
		}
		return true, vs, "remove:miss"
	case "set_capacity":
		c := len(m) + op.a
		if c > s.capMax || c == capOf() {
			return false, nil, ""
		}
		if err := k.setCap(o, c); isErr(err) {
			bad("set_capacity returns an error", safeInspect(err))
		}
		if c == len(m) {
			return true, vs, "set_capacity:full"
		}
		return true, vs, "set_capacity:slack"
	case "grow":
		if capOf()+op.a > s.capMax {
			return false, nil, ""
		}
		if err := k.grow(o, op.a); isErr(err) {
			bad("grow returns an error", safeInspect(err))
		}
		return true, vs, "grow"
	case "copy_into", "copy_table":
		f := s.fixed[op.a]
		src := k.build(f, len(f), false)
		var err value.Value
		if op.kind == "copy_into" {
			err = k.copyFrom(o, src)
		} else {
			err = k.copyTable(o, src)
		}
		ov := overlap(m, f)
		for kk := range f {
			m[kk] = 1
		}
		if isErr(err) {
			bad(op.kind+" returns an error", safeInspect(err))
		}
		return true, vs, fmt.Sprintf("%s:overlap=%v", op.kind, ov)
	case "union", "intersection":
		f := s.fixed[op.a]
		src := k.build(f, len(f)+1, true)
		var res, err value.Value
		ov := overlap(m, f)
		if op.kind == "union" {
			res, err = o.UnionVal(th, src.ToValue())
			for kk := range f {
				m[kk] = 1
			}
		} else {
			res, err = o.IntersectionVal(th, src.ToValue())
			for kk := range m {
				if _, ok := f[kk]; !ok {
					delete(m, kk)
				}
			}
		}
		if isErr(err) {
			bad(op.kind+" returns an error", safeInspect(err))
			return true, vs, op.kind + ":error"
		}
		nr, ok := res.SafeAsReference().(vm.HashSet)
		if !ok {
			bad(op.kind+" does not return a set", safeInspect(res))
			return true, vs, op.kind + ":not-a-set"
		}
		*po = nr
		return true, vs, fmt.Sprintf("%s:overlap=%v", op.kind, ov)
	case "rebuild":
		res, err := o.CloneHashSet(th, len(m))
		if isErr(err) {
			bad("clone returns an error", safeInspect(err))
			return true, vs, "rebuild:error"
		}
		*po = res
		return true, vs, "rebuild"
	}
	panic("unknown op " + op.kind)
}

func setSeqAll(o vm.HashSet) func(yield func(k, v value.Value) bool) {
	return func(yield func(k, v value.Value) bool) {
		for v := range o.All() {
			if !yield(v, value.Undefined) {
				return
			}
		}
	}
}

func setIterCheck(u *universe, m model, seq func(yield func(k, v value.Value) bool)) string {
	seen := map[int]int{}
	res := ""
	n := 0
	seq(func(kv, _ value.Value) bool {
		n++
		if n > 200 {
			res = "does not terminate"
			return false
		}
		ki := u.keyIdx(kv)
		if ki < 0 {
			res = "yields a dead or foreign element (" + safeInspect(kv) + ")"
			return false
		}
		seen[ki]++
		if seen[ki] > 1 {
			res = "yields an element twice"
			return false
		}
		if _, ok := m[ki]; !ok {
			res = "yields a non-member"
			return false
		}
		return true
	})
	if res == "" && len(seen) != len(m) {
		res = "misses a member"
	}
	return res
}

func setContentCheck(u *universe, o vm.HashSet, m model) (class, what string) {
	var probs []string
	if o.Length() != len(m) {
		probs = append(probs, fmt.Sprintf("length=%d but %d distinct members", o.Length(), len(m)))
	}
	if t, el, occ, ok := setTable(o); ok {
		live, tomb := 0, 0
		for _, v := range t {
			if isSetTombstone(v) {
				tomb++
			} else if !v.IsUndefined() {
				live++
			}
		}
		if el != live {
			probs = append(probs, fmt.Sprintf("elements=%d but %d live slots", el, live))
		}
		if occ != live+tomb {
			probs = append(probs, fmt.Sprintf("occupiedSlots=%d but %d live + %d deleted slots", occ, live, tomb))
		}
		if occ > len(t) {
			probs = append(probs, fmt.Sprintf("occupiedSlots=%d > capacity %d", occ, len(t)))
		}
	}
	if len(probs) > 0 {
		return "counter", strings.Join(probs, "; ")
	}
	for i := range u.mk {
		got, err := o.Contains(th, u.mk[i]())
		if isErr(err) {
			return "lookup", "contains returns an error (" + safeInspect(err) + ")"
		}
		if _, want := m[i]; got != want {
			return "lookup", fmt.Sprintf("contains is %v for an element whose membership is %v", got, want)
		}
	}
	if res := setIterCheck(u, m, setSeqAll(o)); res != "" {
		return "iteration", "iteration " + res
	}
	return "", ""
}

const setCounterWhat = "counters inconsistent (length / elements / occupiedSlots vs slot array) after="

func setImplName(o vm.HashSet) string {
	n := strings.TrimPrefix(strings.TrimPrefix(fmt.Sprintf("%T", o), "*"), "vm.")
	if i := strings.IndexByte(n, '['); i >= 0 {
		n = n[:i]
	}
	return n
}

func (s *setSys) derivedSig(ctx, after string, nr vm.HashSet, class, what string) string {
	if class == "counter" {
		return "go-api kind=" + setImplName(nr) + " " + setCounterWhat + after
	}
	return s.sig(ctx + ": " + stripNumbers(what))
}

func valueSeqOfIterator(it value.NativeIterator) func(yield func(k, v value.Value) bool) {
	return func(yield func(k, v value.Value) bool) {
		for i := 0; i < 300; i++ {
			v, err := it.NextValue()
			if isErr(err) {
				return
			}
			if !yield(v, value.Undefined) {
				return
			}
		}
	}
}

func (s *setSys) check(o vm.HashSet, m model, last string) (vs []viol, expand bool) {
	k, u := s.k, s.k.u
	keyBefore := k.stateKey(o)
	addSig := func(sig string, detail func() string) {
		s.nrep[sig]++
		if s.nrep[sig] > 3 {
			vs = append(vs, viol{sig, ""})
			return
		}
		vs = append(vs, viol{sig, detail() + "\n" + s.describe(o, m)})
	}
	add := func(what, detail string) { addSig(s.sig(what), func() string { return detail }) }
	if class, what := setContentCheck(u, o, m); class == "counter" {
		add(setCounterWhat+opClass(last), what)
	}
	if t, el, occ, ok := setTable(o); ok {
		live, tomb := 0, 0
		liveKeys := map[int]int{}
		for _, v := range t {
			if isSetTombstone(v) {
				tomb++
			} else if !v.IsUndefined() {
				live++
				liveKeys[u.keyIdx(v)]++
			}
		}
		_, _ = el, occ
		for ki, n := range liveKeys {
			if n > 1 {
				add("two live slots hold equal elements after="+opClass(last), fmt.Sprintf("element k%d occupies %d slots", ki, n))
				break
			}
		}
	}
	if len(vs) > 0 {
		return vs, false
	}
	for i := range u.mk {
		_, want := m[i]
		got, err := o.Contains(th, u.mk[i]())
		if isErr(err) {
			add("contains returns an error", fmt.Sprintf("Contains(k%d): %s", i, safeInspect(err)))
		} else if got != want {
			add(fmt.Sprintf("contains is %v for an element whose membership is %v", got, want), fmt.Sprintf("Contains(k%d) = %v", i, got))
		}
		if k.containsFn != nil {
			got, err := k.containsFn(o, u.mk[i]())
			if isErr(err) || got != want {
				add(fmt.Sprintf("contains is %v for an element whose membership is %v", got, want), fmt.Sprintf("ContainsFn(k%d) = %v err=%s", i, got, safeInspect(err)))
			}
		}
	}
	iters := []struct {
		name string
		seq  func(yield func(k, v value.Value) bool)
	}{
		{"All", setSeqAll(o)},
		{"Iterate", func(yield func(k, v value.Value) bool) {
			for v, err := range o.Iterate() {
				if isErr(err) {
					yield(err, value.Undefined)
					return
				}
				if !yield(v, value.Undefined) {
					return
				}
			}
		}},
		{"iterator", valueSeqOfIterator(o.IterSet())},
		{"iterator-after-reset", func(yield func(k, v value.Value) bool) {
			it := o.IterSet()
			it.NextValue()
			it.Reset()
			valueSeqOfIterator(it)(yield)
		}},
	}
	for _, it := range iters {
		if res := setIterCheck(u, m, it.seq); res != "" {
			add("iteration["+strings.TrimSuffix(it.name, "-after-reset")+"] "+res, "via "+it.name)
		}
	}
	// contains and iteration are observers: a wrong answer is reported, the table itself is sound and is explored further
	// derived objects
	// a Go panic in one of the derived-object observers must not hide what the lookups of this state already showed
	defer func() {
		if p := recover(); p != nil {
			st := string(debug.Stack())
			vs = append(vs, viol{sig: fmt.Sprintf("go-api kind=%s go-panic %s", s.k.name, firstFrame(engine.PanicSig(fmt.Sprint(p), st))),
				detail: fmt.Sprintf("Go panic in an observer (==, +, |, &, clone, copy) after %s: %v\n%s\n%s", last, p, trimStack(st), s.describe(o, m))})
			expand = true // the table itself passed the state oracles; successors are built by replay on fresh objects
		}
	}()
	all := append([]*setKind{k}, k.peers...)
	for _, pk := range all {
		pairName := k.name + " vs " + pk.name
		twins := []vm.HashSet{pk.build(m, len(m), false), pk.build(m, 0, true)}
		if len(m) > 0 {
			tw := pk.fresh(0)
			for ki := 0; ki < len(u.mk); ki++ {
				if _, ok := m[ki]; !ok {
					tw.AppendVal(th, u.mk[ki]())
					for _, kk := range sortedKeys(m) {
						tw.AppendVal(th, u.mk[kk]())
					}
					tw.RemoveVal(th, u.mk[ki]())
					twins = append(twins, tw)
					break
				}
			}
		}
		for ti, tw := range twins {
			for dir := 0; dir < 2; dir++ {
				a, b := o, tw
				if dir == 1 {
					a, b = tw, o
				}
				eq, err := a.Equal(th, b.ToValue())
				if isErr(err) || !eq {
					add("== is false for equal content ("+pairName+")", fmt.Sprintf("twin %d dir %d: Equal=%v err=%s twin=%s", ti, dir, eq, safeInspect(err), pk.stateKey(tw)))
				}
			}
			if pk == k && k.equalFn != nil {
				if eq, err := k.equalFn(o, tw); isErr(err) || !eq {
					add("== is false for equal content ("+pairName+")", fmt.Sprintf("EqualFn twin %d: %v err=%s", ti, eq, safeInspect(err)))
				}
			}
		}
		var diffs []model
		var diffNames []string
		ks := sortedKeys(m)
		if len(ks) > 0 {
			d := m.clone()
			delete(d, ks[len(ks)-1])
			diffs, diffNames = append(diffs, d), append(diffNames, "one member fewer")
		}
		for ki := range u.mk {
			if _, ok := m[ki]; !ok {
				d := m.clone()
				d[ki] = 1
				diffs, diffNames = append(diffs, d), append(diffNames, "one member more")
				if len(ks) > 0 {
					d = m.clone()
					d[ki] = 1
					delete(d, ks[0])
					diffs, diffNames = append(diffs, d), append(diffNames, "same length, one member differs")
				}
				break
			}
		}
		for di, d := range diffs {
			tw := pk.build(d, len(d), false)
			for dir := 0; dir < 2; dir++ {
				a, b := o, tw
				if dir == 1 {
					a, b = tw, o
				}
				eq, err := a.Equal(th, b.ToValue())
				if isErr(err) || eq {
					add("== is true for different content: "+diffNames[di]+" ("+pairName+")", fmt.Sprintf("dir %d: Equal=%v err=%s other members=%v", dir, eq, safeInspect(err), sortedKeys(d)))
				}
			}
		}
		for fi, f := range s.fixed {
			arg := pk.build(f, len(f), false)
			ov := overlap(m, f)
			type cc struct {
				name string
				f    func() (value.Value, value.Value)
				want model
			}
			for _, c := range []cc{
				{"self|F", func() (value.Value, value.Value) { return o.UnionVal(th, arg.ToValue()) }, merge(m, f)},
				{"F|self", func() (value.Value, value.Value) { return arg.UnionVal(th, o.ToValue()) }, merge(m, f)},
				{"self&F", func() (value.Value, value.Value) { return o.IntersectionVal(th, arg.ToValue()) }, intersect(m, f)},
				{"F&self", func() (value.Value, value.Value) { return arg.IntersectionVal(th, o.ToValue()) }, intersect(m, f)},
			} {
				opn := "union"
				if strings.Contains(c.name, "&") {
					opn = "intersection"
				}
				argKey := pk.stateKey(arg)
				res, err := c.f()
				if isErr(err) {
					add(fmt.Sprintf("%s returns an error (%s)", opn, pairName), fmt.Sprintf("%s with F%d: %s", c.name, fi, safeInspect(err)))
					continue
				}
				nr, ok := res.SafeAsReference().(vm.HashSet)
				if !ok {
					add(fmt.Sprintf("%s does not return a set (%s)", opn, pairName), safeInspect(res))
					continue
				}
				if class, what := setContentCheck(u, nr, c.want); class != "" {
					addSig(s.derivedSig(fmt.Sprintf("%s result (%s, shared members: %v)", opn, pairName, ov), opn, nr, class, what), func() string {
						return fmt.Sprintf("%s with F%d members %v: %s\nresult state: %s", c.name, fi, sortedKeys(f), what, k.stateKey(nr))
					})
				}
				if pk.stateKey(arg) != argKey {
					add(opn+" mutates its argument ("+pairName+")", fmt.Sprintf("%s with F%d", c.name, fi))
				}
			}
			if pk == k && k.unionFn != nil {
				for _, c := range []struct {
					name string
					f    func(a, b vm.HashSet) (vm.HashSet, value.Value)
					want model
				}{{"Union", k.unionFn, merge(m, f)}, {"UnionInterface", k.unionIface, merge(m, f)},
					{"Intersection", k.interFn, intersect(m, f)}, {"IntersectionInterface", k.interIface, intersect(m, f)}} {
					opn := "union"
					if strings.HasPrefix(c.name, "Inter") {
						opn = "intersection"
					}
					nr, err := c.f(o, arg)
					if isErr(err) {
						add(opn+" returns an error ("+pairName+")", c.name+": "+safeInspect(err))
					} else if class, what := setContentCheck(u, nr, c.want); class != "" {
						addSig(s.derivedSig(fmt.Sprintf("%s result (%s, shared members: %v)", opn, pairName, ov), opn, nr, class, what), func() string {
							return fmt.Sprintf("%s(self, F%d members %v): %s\nresult state: %s", c.name, fi, sortedKeys(f), what, k.stateKey(nr))
						})
					}
				}
			}
		}
	}
	for _, c := range []int{len(m), len(m) + 3} {
		cl, err := o.CloneHashSet(th, c)
		if isErr(err) {
			add("clone returns an error", safeInspect(err))
		} else if class, what := setContentCheck(u, cl, m); class != "" {
			addSig(s.derivedSig("clone", "clone", cl, class, what), func() string {
				return fmt.Sprintf("CloneHashSet(capacity=%d): %s\nclone state: %s", c, what, k.stateKey(cl))
			})
		}
	}
	if cp, ok := o.(value.Reference).Copy().(vm.HashSet); ok {
		if class, what := setContentCheck(u, cp, m); class != "" {
			addSig(s.derivedSig("copy", "copy", cp, class, what), func() string { return what })
		} else {
			for ki := 0; ki < len(u.mk); ki++ {
				if _, present := m[ki]; !present {
					cp.AppendVal(th, u.mk[ki]())
					break
				}
			}
			if k.stateKey(o) != keyBefore {
				add("copy shares state with the original", "adding to the copy changed the original")
			}
		}
	} else {
		add("copy is not a set", fmt.Sprintf("%T", o.(value.Reference).Copy()))
	}
	if after := k.stateKey(o); after != keyBefore {
		add("an observer (contains, ==, |, &, clone, copy, iteration) mutates the receiver", fmt.Sprintf("before: %s\nafter:  %s", keyBefore, after))
		return vs, false
	}
	return vs, true
}

func (s *setSys) Run(hist []int, check bool) (key string, applicable bool, vs []viol, expand bool, outcome string) {
	o := s.k.fresh(s.initCap)
	m := model{}
	last := "init"
	outcome = "init"
	for i, oi := range hist {
		isLast := i == len(hist)-1
		var ovs []viol
		applicable, ovs, outcome = s.apply(&o, m, s.ops[oi], check && isLast)
		if !applicable {
			if !isLast {
				panic("inapplicable operation inside a stored history")
			}
			return "", false, nil, false, ""
		}
		if isLast {
			vs = append(vs, ovs...)
			last = s.ops[oi].kind
		}
	}
	expand = true
	if check {
		cvs, ex := s.check(o, m, last)
		vs = append(vs, cvs...)
		expand = ex && len(vs) == len(cvs)
	}
	return s.k.stateKey(o), true, vs, expand, outcome
}
