package main

import (
	"fmt"
	"hash/fnv"
	"strings"

	"verifharness/elkrun"
	"verifharness/engine"
)

// flavour is one Elk-visible collection type with a concrete key/value universe.
type flavour struct {
	label  string // signature label, e.g. HashMap[Int,Int]
	family string // map | record | set
	kt, vt string
	keys   []string // Elk literals; keys[0:nset] are inserted by operations, all are observed
	nset   int
	vals   []string // vals[1], vals[2]
	kcode  []int    // numeric code of every key for the iteration fingerprint
	vcode  []int
	kexpr  string // Elk expression computing the code of a key named `k`
	vexpr  string // ... of a value named `v`
	id     string // identifier suffix
	impl   string // implementation class behind the literal (signature label)
	// wrapRec: every HashRecord literal is placed in a helper method of its own. Two NativeHashRecord literals
	// in one function crash the compiler (reported once by the literal-pool case); wrapping keeps the rest explorable.
	wrapRec bool
}

func (f *flavour) typ() string {
	switch f.family {
	case "map":
		return fmt.Sprintf("::Std::HashMap[%s, %s]", f.kt, f.vt)
	case "record":
		return fmt.Sprintf("::Std::HashRecord[%s, %s]", f.kt, f.vt)
	}
	return fmt.Sprintf("::Std::HashSet[%s]", f.kt)
}

func (f *flavour) obsTyp() string {
	if f.family == "set" {
		return fmt.Sprintf("::Std::ImmutableSet[%s]", f.kt) // covariant: also accepts the result of &
	}
	return f.typ()
}

func (f *flavour) litAs(m model, family string) string {
	var parts []string
	for _, k := range sortedKeys(m) {
		if family == "set" {
			parts = append(parts, f.keys[k])
		} else {
			parts = append(parts, f.keys[k]+" => "+f.vals[m[k]])
		}
	}
	body := strings.Join(parts, ", ")
	switch family {
	case "map":
		return "{" + body + "}"
	case "record":
		return "%{" + body + "}"
	}
	return "^[" + body + "]"
}

func (f *flavour) lit(m model) string { return f.litAs(m, f.family) }

func (f *flavour) inits() []model {
	if f.family == "set" {
		return []model{{0: 1}, {0: 1, 1: 1, 2: 1}}
	}
	return []model{{0: 1}, {0: 1, 1: 2, 2: 1}}
}

// prelude defines obs_<id> (prints every observer of the collection on one line) and the constructors.
func (f *flavour) prelude() string {
	var b strings.Builder
	fmt.Fprintf(&b, "def obs_%s(c: %s): ::Std::String\n", f.id, f.obsTyp())
	b.WriteString("  s := \"len=\" + c.length.inspect\n")
	join := func(field string, exprs []string) {
		fmt.Fprintf(&b, "  s = s + \" %s=\" + %s\n", field, strings.Join(exprs, " + \",\" + "))
	}
	var gets, has, pairs, hasval []string
	for _, k := range f.keys {
		if f.family == "set" {
			has = append(has, fmt.Sprintf("c.contains(%s).inspect", k))
			continue
		}
		gets = append(gets, fmt.Sprintf("show(c[%s])", k))
		has = append(has, fmt.Sprintf("c.contains_key(%s).inspect", k))
		pairs = append(pairs, fmt.Sprintf("c.contains(::Std::Pair(%s, %s)).inspect", k, f.vals[1]))
	}
	if f.family != "set" {
		join("get", gets)
	}
	join("has", has)
	if f.family != "set" {
		join("pair", pairs)
		hasval = []string{fmt.Sprintf("c.contains_value(%s).inspect", f.vals[1]), fmt.Sprintf("c.contains_value(%s).inspect", f.vals[2])}
		join("hasval", hasval)
	}
	b.WriteString("  n := 0\n  sum := 0\n")
	if f.family == "set" {
		fmt.Fprintf(&b, "  for k in c\n    n = n + 1\n    sum = sum + %s\n  end\n", f.kexpr)
	} else {
		fmt.Fprintf(&b, "  for p in c\n    n = n + 1\n    k := p.key\n    v := p.value\n    sum = sum + (%s) * 7 + %s\n  end\n", f.kexpr, f.vexpr)
	}
	b.WriteString("  s + \" iter=\" + n.inspect + \"/\" + sum.inspect\nend\n")
	for i, m := range f.inits() {
		fmt.Fprintf(&b, "def mk_%s%d: %s then %s\n", f.id, i, f.typ(), f.lit(m))
	}
	return b.String()
}

type obsFields struct{ len, get, has, pair, hasval, iter string }

func (f *flavour) expect(m model) obsFields {
	var o obsFields
	o.len = fmt.Sprint(len(m))
	var gets, has, pairs []string
	n, sum := 0, 0
	for i := range f.keys {
		v, ok := m[i]
		has = append(has, fmt.Sprint(ok))
		if f.family != "set" {
			if ok {
				gets = append(gets, f.vals[v])
			} else {
				gets = append(gets, "nil")
			}
			pairs = append(pairs, fmt.Sprint(ok && v == 1))
		}
		if ok {
			n++
			if f.family == "set" {
				sum += f.kcode[i]
			} else {
				sum += f.kcode[i]*7 + f.vcode[v]
			}
		}
	}
	o.get, o.has, o.pair = strings.Join(gets, ","), strings.Join(has, ","), strings.Join(pairs, ",")
	if f.family != "set" {
		h1, h2 := false, false
		for _, v := range m {
			if v == 1 {
				h1 = true
			} else {
				h2 = true
			}
		}
		o.hasval = fmt.Sprintf("%v,%v", h1, h2)
	}
	o.iter = fmt.Sprintf("%d/%d", n, sum)
	return o
}

func parseObs(line string) (o obsFields, ok bool) {
	for _, fld := range strings.Fields(line) {
		kv := strings.SplitN(fld, "=", 2)
		if len(kv) != 2 {
			return o, false
		}
		switch kv[0] {
		case "len":
			o.len = kv[1]
		case "get":
			o.get = kv[1]
		case "has":
			o.has = kv[1]
		case "pair":
			o.pair = kv[1]
		case "hasval":
			o.hasval = kv[1]
		case "iter":
			o.iter = kv[1]
		default:
			return o, false
		}
	}
	return o, o.len != ""
}

// eop is one Elk-level operation: code mutates/rebinds variable `x`; it may print one result line.
type eop struct {
	kind  string
	code  func(x string, step int, L func(string) string) string
	apply func(m model) (result string) // updates the model; result "" if the operation prints nothing
	arg   model                         // argument of + (to classify the shared-key length defect)
	label string
}

func (f *flavour) ops() []eop {
	var ops []eop
	mergeInto := func(m, g model) {
		for k, v := range g {
			m[k] = v
		}
	}
	switch f.family {
	case "map":
		for ki := 0; ki < f.nset; ki++ {
			for v := 1; v <= 2; v++ {
				ki, v := ki, v
				ops = append(ops, eop{kind: "[]=", label: fmt.Sprintf("x[k%d]=%d", ki, v),
					code: func(x string, _ int, L func(string) string) string {
						return fmt.Sprintf("%s[%s] = %s", x, f.keys[ki], f.vals[v])
					},
					apply: func(m model) string { m[ki] = v; return "" }})
			}
		}
		for _, g := range []model{{0: 2}, {1: 1, 2: 2}} {
			g := g
			ops = append(ops, eop{kind: "+", arg: g, label: "x=x+" + f.litAs(g, "map"),
				code: func(x string, _ int, L func(string) string) string {
					return fmt.Sprintf("%s = %s + %s", x, x, L(f.litAs(g, "map")))
				},
				apply: func(m model) string { mergeInto(m, g); return "" }})
		}
		g := model{0: 1, 3: 2}
		ops = append(ops, eop{kind: "+", arg: g, label: "x=x+" + f.litAs(g, "record"),
			code: func(x string, _ int, L func(string) string) string {
				return fmt.Sprintf("%s = %s + %s", x, x, L(f.litAs(g, "record")))
			},
			apply: func(m model) string { mergeInto(m, g); return "" }})
	case "record":
		for _, g := range []model{{0: 1}, {0: 2}, {1: 2}, {1: 1, 2: 1}, {3: 1}} {
			g := g
			ops = append(ops, eop{kind: "+", arg: g, label: "x=x+" + f.litAs(g, "record"),
				code: func(x string, _ int, L func(string) string) string {
					return fmt.Sprintf("%s = %s + %s", x, x, L(f.litAs(g, "record")))
				},
				apply: func(m model) string { mergeInto(m, g); return "" }})
		}
		g := model{0: 2, 2: 2}
		ops = append(ops, eop{kind: "+", arg: g, label: "x=x+" + f.litAs(g, "map"),
			code: func(x string, _ int, L func(string) string) string {
				return fmt.Sprintf("%s = %s + %s", x, x, L(f.litAs(g, "map")))
			},
			apply: func(m model) string { mergeInto(m, g); return "" }})
	case "set":
		for ki := 0; ki < f.nset; ki++ {
			ki := ki
			ops = append(ops, eop{kind: "<<", label: fmt.Sprintf("x<<k%d", ki),
				code:  func(x string, _ int, L func(string) string) string { return fmt.Sprintf("%s << %s", x, f.keys[ki]) },
				apply: func(m model) string { m[ki] = 1; return "" }})
			ops = append(ops, eop{kind: "remove", label: fmt.Sprintf("x.remove(k%d)", ki),
				code: func(x string, step int, L func(string) string) string {
					return fmt.Sprintf("r%s_%d := %s.remove(%s)\nprintln(\"res=\" + r%s_%d.inspect)", x, step, x, f.keys[ki], x, step)
				},
				apply: func(m model) string { _, had := m[ki]; delete(m, ki); return fmt.Sprintf("res=%v", had) }})
		}
		ops = append(ops, eop{kind: "push", label: "x.push(k0)",
			code: func(x string, step int, L func(string) string) string {
				return fmt.Sprintf("r%s_%d := %s.push(%s)\nprintln(\"res=\" + r%s_%d.inspect)", x, step, x, f.keys[0], x, step)
			},
			apply: func(m model) string { _, had := m[0]; m[0] = 1; return fmt.Sprintf("res=%v", !had) }})
		ops = append(ops, eop{kind: "append", label: "x.append(k1,k2)",
			code: func(x string, _ int, L func(string) string) string {
				return fmt.Sprintf("%s.append(%s, %s)", x, f.keys[1], f.keys[2])
			},
			apply: func(m model) string { m[1], m[2] = 1, 1; return "" }})
		g := model{0: 1, 3: 1}
		ops = append(ops, eop{kind: "|", label: "x=x|" + f.litAs(g, "set"),
			code: func(x string, _ int, L func(string) string) string {
				return fmt.Sprintf("%s = %s | %s", x, x, f.litAs(g, "set"))
			},
			apply: func(m model) string { mergeInto(m, g); return "" }})
		g2 := model{1: 1}
		ops = append(ops, eop{kind: "+", label: "x=x+" + f.litAs(g2, "set"),
			code: func(x string, _ int, L func(string) string) string {
				return fmt.Sprintf("%s = %s + %s", x, x, f.litAs(g2, "set"))
			},
			apply: func(m model) string { mergeInto(m, g2); return "" }})
	}
	return ops
}

func flavours() []*flavour {
	same, _ := collidingInts()
	ik := []string{fmt.Sprint(same[0]), fmt.Sprint(same[1]), fmt.Sprint(same[2]), fmt.Sprint(same[3])}
	sk := []string{`"a"`, `"bb"`, `"ccc"`, `"dddd"`}
	si, ss := "::Std::Int", "::Std::String"
	mk := func(label, impl, family, id, kt, vt string, keys []string, kcode []int, kexpr string, vals []string, vcode []int, vexpr string) *flavour {
		return &flavour{label: label, impl: impl, wrapRec: kt == ss && family != "set", family: family, id: id, kt: kt, vt: vt, keys: keys, nset: 3, kcode: kcode, kexpr: kexpr, vals: vals, vcode: vcode, vexpr: vexpr}
	}
	iv, sv := []string{"", "1", "2"}, []string{"", `""`, `"yy"`} // "" is the zero value of the specialised value type
	return []*flavour{
		mk("HashMap[Int,Int]", "HashMapOfValue", "map", "mii", si, si, ik, same, "k", iv, []int{0, 1, 2}, "v"),
		mk("HashMap[String,Int]", "NativeKeyHashMap", "map", "msi", ss, si, sk, []int{1, 2, 3, 4}, "k.length", iv, []int{0, 1, 2}, "v"),
		mk("HashMap[String,String]", "NativeHashMap", "map", "mss", ss, ss, sk, []int{1, 2, 3, 4}, "k.length", sv, []int{0, 0, 2}, "v.length"),
		mk("HashRecord[Int,Int]", "HashRecordOfValue", "record", "rii", si, si, ik, same, "k", iv, []int{0, 1, 2}, "v"),
		mk("HashRecord[String,String]", "NativeHashRecord", "record", "rss", ss, ss, sk, []int{1, 2, 3, 4}, "k.length", sv, []int{0, 0, 2}, "v.length"),
		mk("HashSet[Int]", "HashSetOfValue", "set", "si", si, "", ik, same, "k", nil, nil, ""),
		mk("HashSet[String]", "NativeHashSet", "set", "ss", ss, "", sk, []int{1, 2, 3, 4}, "k.length", nil, nil, ""),
	}
}

var collidingCache []int
var neighbourCache int

func collidingInts() ([]int, int) {
	if collidingCache == nil {
		collidingCache, neighbourCache = findColliding(4)
	}
	return collidingCache, neighbourCache
}

type elkItem struct {
	init int
	seq  []int
}

// enumerate all op sequences of length <= maxLen for both initial literals, in a fixed order.
func enumSeqs(nops, maxLen, ninit int) []elkItem {
	var out []elkItem
	for in := 0; in < ninit; in++ {
		var rec func(prefix []int)
		rec = func(prefix []int) {
			out = append(out, elkItem{in, append([]int{}, prefix...)})
			if len(prefix) == maxLen {
				return
			}
			for o := 0; o < nops; o++ {
				rec(append(prefix, o))
			}
		}
		rec(nil)
	}
	return out
}

const elkBatch = 60

func elkCases(c *engine.Ctx) {
	maxLen := 3
	if c.Thorough {
		maxLen = 4
	}
	// two literals of the same collection flavour inside one function (the constant pool of the function
	// compares the new constant with the pooled ones)
	for _, f := range flavours() {
		f := f
		c.Case("elk/literal-pool/"+f.label, func(r *engine.R) {
			a, b := f.lit(f.inits()[0]), f.lit(f.inits()[1])
			src := fmt.Sprintf("a := %s\nb := %s\nprintln(a.length.inspect)\nprintln(b.length.inspect)\nc := %s\nprintln(c.length.inspect)\n", a, b, a)
			res := elkrun.Run(src, nil)
			r.Eval(1)
			r.NT(1)
			switch {
			case res.Panic != "":
				r.Violation("elk kind="+f.impl+" go-panic compiling a function with two literals: "+res.PanicSig, src+"\n"+trimStack(res.Stack), src)
			case res.Rejected:
				r.Violation("elk kind="+f.impl+" well-typed program rejected: "+firstDiag(res.Diags), src+"\n"+res.Diags, src)
			case res.Err != "" || res.Stdout != fmt.Sprintf("%d\n%d\n%d\n", len(f.inits()[0]), len(f.inits()[1]), len(f.inits()[0])):
				r.Violation("elk kind="+f.impl+" two literals in one function: wrong lengths", src+"\n"+res.Outcome(), src)
			default:
				r.Outcome("ok:literal-pool")
			}
		})
	}
	for _, f := range flavours() {
		f := f
		ops := f.ops()
		items := enumSeqs(len(ops), maxLen, len(f.inits()))
		for lo := 0; lo < len(items); lo += elkBatch {
			lo := lo
			hi := lo + elkBatch
			if hi > len(items) {
				hi = len(items)
			}
			c.Case(fmt.Sprintf("elk/%s/%d", f.label, lo), func(r *engine.R) { runElkBatch(r, f, ops, items[lo:hi], lo) })
		}
	}
}

func runElkBatch(r *engine.R, f *flavour, ops []eop, items []elkItem, base int) {
	isectArg := model{0: 1, 3: 1}
	var progs []elkrun.Item
	type exp struct {
		lines  []string // expected output lines
		kinds  []string // op kind responsible for each line
		shared []int    // number of keys shared by the operands of + (0 otherwise)
		desc   string
	}
	var exps []exp
	helpers := map[string]string{}
	var helperDefs strings.Builder
	L := func(text string) string {
		if !f.wrapRec || !strings.HasPrefix(text, "%{") {
			return text
		}
		if h, ok := helpers[text]; ok {
			return h + "()"
		}
		// the name is a function of the literal text: method definitions leak into the process-global runtime, so a
		// name must mean the same body in every program this worker process compiles
		hsh := fnv.New64a()
		hsh.Write([]byte(text))
		name := fmt.Sprintf("lit_%s_%x", f.id, hsh.Sum64())
		helpers[text] = name
		fmt.Fprintf(&helperDefs, "def %s: ::Std::HashRecord[%s, %s] then %s\n", name, f.kt, f.vt, text)
		return name + "()"
	}
	for ii, it := range items {
		x := fmt.Sprintf("x%d", base+ii)
		var code strings.Builder
		var e exp
		m := f.inits()[it.init].clone()
		if len(it.seq)%2 == 0 {
			fmt.Fprintf(&code, "var %s: %s = mk_%s%d()\n", x, f.typ(), f.id, it.init)
		} else {
			fmt.Fprintf(&code, "var %s: %s = %s\n", x, f.typ(), L(f.lit(m)))
		}
		desc := []string{"x = " + f.lit(m)}
		emitObs := func(kind string, shared int) {
			fmt.Fprintf(&code, "println(obs_%s(%s))\n", f.id, x)
			e.lines = append(e.lines, "OBS "+fieldsString(f.expect(m)))
			e.kinds = append(e.kinds, kind)
			e.shared = append(e.shared, shared)
			if f.family == "set" {
				fmt.Fprintf(&code, "println(obs_%s(%s & %s))\n", f.id, x, f.litAs(isectArg, "set"))
				e.lines = append(e.lines, "OBS "+fieldsString(f.expect(intersect(m, isectArg))))
				e.kinds = append(e.kinds, "& (after "+kind+")")
				e.shared = append(e.shared, 0)
			}
		}
		emitObs("literal", 0)
		for step, oi := range it.seq {
			op := ops[oi]
			code.WriteString(op.code(x, step, L) + "\n")
			desc = append(desc, op.label)
			shared := 0
			if f.family != "set" {
				for k := range op.arg {
					if _, ok := m[k]; ok {
						shared++
					}
				}
			}
			if res := op.apply(m); res != "" {
				e.lines = append(e.lines, res)
				e.kinds = append(e.kinds, op.kind)
				e.shared = append(e.shared, 0)
			}
			emitObs(op.kind, shared)
		}
		// equality with a literal of the same content and of different content
		fmt.Fprintf(&code, "e%s := %s == %s\nprintln(\"eq=\" + e%s.inspect)\n", x, x, L(f.lit(m)), x)
		e.lines = append(e.lines, "eq=true")
		e.kinds = append(e.kinds, "== same content")
		e.shared = append(e.shared, 0, 0)
		d := m.clone()
		if _, ok := d[3]; ok {
			delete(d, 3)
		} else {
			d[3] = 1
		}
		fmt.Fprintf(&code, "d%s := %s == %s\nprintln(\"eq=\" + d%s.inspect)\n", x, x, L(f.lit(d)), x)
		e.lines = append(e.lines, "eq=false")
		e.kinds = append(e.kinds, "== different content")
		// same length, one key replaced by an absent key (same value)
		for _, from := range sortedKeys(m) {
			to := -1
			for k := range f.keys {
				if _, ok := m[k]; !ok {
					to = k
					break
				}
			}
			if to >= 0 {
				d2 := m.clone()
				d2[to] = d2[from]
				delete(d2, from)
				fmt.Fprintf(&code, "g%s := %s == %s\nprintln(\"eq=\" + g%s.inspect)\n", x, x, L(f.lit(d2)), x)
				e.lines = append(e.lines, "eq=false")
				e.kinds = append(e.kinds, "== same length, one key differs")
				e.shared = append(e.shared, 0)
			}
			break
		}
		e.desc = strings.Join(desc, " ; ")
		progs = append(progs, elkrun.Item{Code: code.String()})
		exps = append(exps, e)
	}
	prelude := elkrun.ShowPrelude + f.prelude() + helperDefs.String()
	res := elkrun.Batch(prelude, progs, nil)
	for i, ir := range res {
		e := exps[i]
		r.Eval(1)
		if len(items[i].seq) > 0 {
			r.NT(1)
		}
		input := map[string]any{"flavour": f.label, "ops": e.desc, "program": prelude + progs[i].Code}
		lastKind := "literal"
		if n := len(items[i].seq); n > 0 {
			lastKind = ops[items[i].seq[n-1]].kind
		}
		sigp := "elk kind=" + f.impl + " "
		got := strings.Split(strings.TrimRight(ir.Out, "\n"), "\n")
		if ir.Out == "" {
			got = nil
		}
		// compare the lines printed before any failure
		bad, undefReported := false, false
		for li := 0; li < len(got) && li < len(e.lines); li++ {
			if vs := compareLine(f, e.lines[li], got[li], e.kinds[li], e.shared[li]); len(vs) > 0 {
				if len(vs) == 1 && vs[0].sig == undefSig {
					// the state is otherwise sound: report once per program and keep comparing
					if !undefReported {
						undefReported = true
						r.Violation("elk "+vs[0].sig, fmt.Sprintf("%s %s\nline %d: expected %q\n          printed %q\n%s", f.label, e.desc, li, e.lines[li], got[li], vs[0].detail), input)
						r.Outcome("wrong:" + vs[0].sig)
					}
					continue
				}
				for _, v := range vs {
					if v.sig == undefSig && undefReported {
						continue
					}
					pre := sigp
					if v.sig == undefSig || v.sig == sharedKeySig {
						pre = "elk "
					}
					r.Violation(pre+v.sig, fmt.Sprintf("%s\nline %d: expected %q\n          printed %q\n%s", e.desc, li, e.lines[li], got[li], v.detail), input)
					r.Outcome("wrong:" + v.sig)
				}
				bad = true
				break // later lines are consequences
			}
		}
		failedKind := lastKind
		if len(got) < len(e.kinds) {
			failedKind = e.kinds[len(got)]
		}
		switch {
		case ir.Panic != "":
			r.Violation(sigp+"go-panic during "+failedKind+": "+ir.Panic, fmt.Sprintf("%s\n%s", e.desc, trimStack(ir.Stack)), input)
			r.Outcome("go-panic")
		case ir.Rejected:
			r.Violation(sigp+"well-typed program rejected: "+firstDiag(ir.Diags), fmt.Sprintf("%s\n%s\n%s", e.desc, progs[i].Code, ir.Diags), input)
			r.Outcome("rejected")
		case ir.Err != "":
			r.Violation(sigp+"uncaught "+ir.ErrClass+" during "+failedKind, fmt.Sprintf("%s\n%s", e.desc, ir.Err), input)
			r.Outcome("error:" + ir.ErrClass)
		case !bad && len(got) != len(e.lines):
			r.Violation(sigp+"output truncated", fmt.Sprintf("%s\nexpected %d lines, got %d", e.desc, len(e.lines), len(got)), input)
		case !bad && !undefReported:
			r.Outcome("ok:" + lastKind)
		}
	}
	if len(progs) > 0 {
		r.Sample(exps[len(exps)-1].desc)
	}
}

func fieldsString(o obsFields) string {
	s := "len=" + o.len
	if o.get != "" {
		s += " get=" + o.get
	}
	s += " has=" + o.has
	if o.pair != "" {
		s += " pair=" + o.pair + " hasval=" + o.hasval
	}
	return s + " iter=" + o.iter
}

// compareLine returns the violations of one output line (field by field for observation lines).
func compareLine(f *flavour, want, got, kind string, shared int) []viol {
	if want == got {
		return nil
	}
	if !strings.HasPrefix(want, "OBS ") {
		if strings.HasPrefix(want, "eq=") {
			return []viol{{sig: kind + " is " + strings.TrimPrefix(got, "eq="), detail: ""}}
		}
		return []viol{{sig: "result of " + kind + " is wrong", detail: ""}}
	}
	w, _ := parseObs(strings.TrimPrefix(want, "OBS "))
	g, ok := parseObs(got)
	if !ok {
		return []viol{{sig: "unparsable observation after " + kind, detail: got}}
	}
	var vs []viol
	if w.get != g.get {
		wp, gp := strings.Split(w.get, ","), strings.Split(g.get, ",")
		rest := len(wp) != len(gp)
		undef := false
		for i := range wp {
			if i < len(gp) && wp[i] != gp[i] {
				if wp[i] == "nil" && gp[i] == "?" {
					undef = true
				} else {
					rest = true
				}
			}
		}
		if undef {
			vs = append(vs, viol{sig: undefSig, detail: "show() printed ? : the value is falsy but neither nil nor false"})
		}
		if rest {
			vs = append(vs, viol{sig: "[] returns a wrong value after " + kind, detail: ""})
		}
	}
	if w.len != g.len {
		if wl, gl := atoi(w.len), atoi(g.len); kind == "+" && shared > 0 && gl == wl+shared && w.has == g.has && w.pair == g.pair && w.iter == g.iter {
			vs = append(vs, viol{sig: sharedKeySig, detail: fmt.Sprintf("the operands share %d key(s); every lookup and the iteration agree with the model, only length is too large by %d", shared, shared)})
		} else {
			vs = append(vs, viol{sig: "length wrong after " + kind, detail: ""})
		}
	}
	if w.has != g.has {
		name := "contains_key"
		if f.family == "set" {
			name = "contains"
		}
		vs = append(vs, viol{sig: name + " wrong after " + kind, detail: ""})
	}
	if w.pair != g.pair {
		vs = append(vs, viol{sig: "contains(pair) wrong after " + kind, detail: ""})
	}
	if w.hasval != g.hasval {
		vs = append(vs, viol{sig: "contains_value wrong after " + kind, detail: ""})
	}
	if w.iter != g.iter {
		vs = append(vs, viol{sig: "iteration wrong after " + kind, detail: "count/fingerprint of iterated entries differ"})
	}
	return vs
}

// sharedKeySig: one defect (the bulk copy used by + counts a key that is already present as a new entry),
// whatever the flavour of the operands, because every mixed + builds a generic table through that copy.
const sharedKeySig = "+ of operands sharing a key: length counts the shared key twice"

const undefSig = "[] of an absent key yields the undefined sentinel instead of nil"

func atoi(s string) int {
	n := 0
	fmt.Sscanf(s, "%d", &n)
	return n
}

func firstDiag(d string) string {
	line := strings.SplitN(d, "\n", 2)[0]
	if i := strings.Index(line, ": "); i >= 0 {
		line = line[i+2:]
	}
	if len(line) > 100 {
		line = line[:100]
	}
	return line
}
