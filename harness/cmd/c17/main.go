// C17 — hash maps, hash records and hash sets behave as finite maps and sets.
//
// Part 1 (explicit-state model checking of the real objects through the exported Go API): breadth-first
// search over operation histories; the successor of a state is obtained by replaying its shortest history
// on a fresh object and applying one more operation; states are merged on their full internal state (slot
// array with tombstones, Elements, OccupiedSlots, capacity); after every transition every observer is compared
// with a Go-map reference model.
// Part 2 (Elk level): every operation sequence up to a length bound on HashMap / HashRecord / HashSet
// literals, run through the VM, observed with length / [] / contains* / iteration / == and compared with the
// same reference model.
package main

import (
	"fmt"
	"os"
	"runtime/debug"
	"time"

	"github.com/elk-language/elk/value"
	"github.com/elk-language/elk/vm"

	"verifharness/elkrun"
	"verifharness/engine"
)

func hmKind(u *universe) *mapKind {
	c := func(o vm.HashRecord) *vm.HashMapOfValue { return o.(*vm.HashMapOfValue) }
	return &mapKind{
		name: "HashMapOfValue", u: u, mutableCopy: true,
		fresh: func(capacity int) vm.HashRecord { return vm.NewHashMapOfValue(capacity) },
		del:   func(o vm.HashRecord, k value.Value) (bool, value.Value) { return vm.HashMapOfValueDelete(th, c(o), k) },
		getFn: func(o vm.HashRecord, k value.Value) (value.Value, value.Value) {
			return vm.HashMapOfValueGet(th, c(o), k)
		},
		hasKeyFn: func(o vm.HashRecord, k value.Value) (bool, value.Value) {
			return vm.HashMapOfValueContainsKey(th, c(o), k)
		},
		containsFn: func(o vm.HashRecord, p value.Pair) (bool, value.Value) { return vm.HashMapOfValueContains(th, c(o), p) },
		hasValFn: func(o vm.HashRecord, v value.Value) (bool, value.Value) {
			return vm.HashMapOfValueContainsValue(th, c(o), v)
		},
		setCap:    func(o vm.HashRecord, n int) value.Value { return vm.HashMapOfValueSetCapacity(th, c(o), n) },
		grow:      func(o vm.HashRecord, n int) value.Value { return vm.HashMapOfValueGrow(th, c(o), n) },
		copyFrom:  func(dst, src vm.HashRecord) value.Value { return vm.HashMapOfValueCopy(th, c(dst), c(src)) },
		copyTable: func(dst, src vm.HashRecord) value.Value { return vm.HashMapOfValueCopyTable(th, c(dst), c(src).Table) },
		concatFn: func(a, b vm.HashRecord) (vm.HashRecord, value.Value) {
			r, err := vm.HashMapOfValueConcat(th, c(a), c(b))
			return r, err
		},
		concatIface: func(a, b vm.HashRecord) (vm.HashRecord, value.Value) {
			r, err := vm.HashMapOfValueConcatInterface(th, c(a), b)
			return r, err
		},
		equalFn:    func(a, b vm.HashRecord) (bool, value.Value) { return vm.HashMapOfValueEqual(th, c(a), c(b)) },
		laxEqualFn: func(a, b vm.HashRecord) (bool, value.Value) { return vm.HashMapOfValueLaxEqual(th, c(a), c(b)) },
	}
}

func hrKind(u *universe) *mapKind {
	c := func(o vm.HashRecord) *vm.HashRecordOfValue { return o.(*vm.HashRecordOfValue) }
	return &mapKind{
		name: "HashRecordOfValue", u: u,
		fresh: func(capacity int) vm.HashRecord { return vm.NewHashRecordOfValue(capacity) },
		del: func(o vm.HashRecord, k value.Value) (bool, value.Value) {
			return vm.HashRecordOfValueDelete(th, c(o), k)
		},
		getFn: func(o vm.HashRecord, k value.Value) (value.Value, value.Value) {
			return vm.HashRecordOfValueGet(th, c(o), k)
		},
		hasKeyFn: func(o vm.HashRecord, k value.Value) (bool, value.Value) {
			return vm.HashRecordOfValueContainsKey(th, c(o), k)
		},
		containsFn: func(o vm.HashRecord, p value.Pair) (bool, value.Value) {
			return vm.HashRecordOfValueContains(th, c(o), p)
		},
		hasValFn: func(o vm.HashRecord, v value.Value) (bool, value.Value) {
			return vm.HashRecordOfValueContainsValue(th, c(o), v)
		},
		setCap:   func(o vm.HashRecord, n int) value.Value { return vm.HashRecordOfValueSetCapacity(th, c(o), n) },
		grow:     func(o vm.HashRecord, n int) value.Value { return vm.HashRecordOfValueGrow(th, c(o), n) },
		copyFrom: func(dst, src vm.HashRecord) value.Value { return vm.HashRecordOfValueCopy(th, c(dst), c(src)) },
		copyTable: func(dst, src vm.HashRecord) value.Value {
			return vm.HashRecordOfValueCopyTable(th, c(dst), c(src).Table)
		},
		concatFn: func(a, b vm.HashRecord) (vm.HashRecord, value.Value) {
			r, err := vm.HashRecordOfValueConcat(th, c(a), c(b))
			return r, err
		},
		concatIface: func(a, b vm.HashRecord) (vm.HashRecord, value.Value) {
			r, err := vm.HashRecordOfValueConcatInterface(th, c(a), b)
			return r, err
		},
		equalFn:    func(a, b vm.HashRecord) (bool, value.Value) { return vm.HashRecordOfValueEqual(th, c(a), c(b)) },
		laxEqualFn: func(a, b vm.HashRecord) (bool, value.Value) { return vm.HashRecordOfValueLaxEqual(th, c(a), c(b)) },
	}
}

func hsKind(u *universe) *setKind {
	c := func(o vm.HashSet) *vm.HashSetOfValue { return o.(*vm.HashSetOfValue) }
	return &setKind{
		name: "HashSetOfValue", u: u,
		fresh:      func(capacity int) vm.HashSet { return vm.NewHashSetOfValue(capacity) },
		addFn:      func(o vm.HashSet, v value.Value) (bool, value.Value) { return vm.HashSetOfValueAppend(th, c(o), v) },
		delFn:      func(o vm.HashSet, v value.Value) (bool, value.Value) { return vm.HashSetOfValueDelete(th, c(o), v) },
		containsFn: func(o vm.HashSet, v value.Value) (bool, value.Value) { return vm.HashSetOfValueContains(th, c(o), v) },
		setCap:     func(o vm.HashSet, n int) value.Value { return vm.HashSetOfValueSetCapacity(th, c(o), n) },
		grow:       func(o vm.HashSet, n int) value.Value { return vm.HashSetOfValueGrow(th, c(o), n) },
		copyFrom:   func(dst, src vm.HashSet) value.Value { return vm.HashSetOfValueCopy(th, c(dst), c(src)) },
		copyTable: func(dst, src vm.HashSet) value.Value {
			t, _, _, _ := setTable(src)
			return vm.HashSetOfValueCopyTable(th, c(dst), t)
		},
		unionFn: func(a, b vm.HashSet) (vm.HashSet, value.Value) {
			r, err := vm.HashSetOfValueUnion(th, c(a), c(b))
			return r, err
		},
		unionIface: func(a, b vm.HashSet) (vm.HashSet, value.Value) {
			r, err := vm.HashSetOfValueUnionInterface(th, c(a), b)
			return r, err
		},
		interFn: func(a, b vm.HashSet) (vm.HashSet, value.Value) {
			r, err := vm.HashSetOfValueIntersection(th, c(a), c(b))
			return r, err
		},
		interIface: func(a, b vm.HashSet) (vm.HashSet, value.Value) {
			r, err := vm.HashSetOfValueIntersectionInterface(th, c(a), b)
			return r, err
		},
		equalFn: func(a, b vm.HashSet) (bool, value.Value) { return vm.HashSetOfValueEqual(th, c(a), c(b)) },
	}
}

type S = value.String

func run(c *engine.Ctx) {
	if os.Getenv("C17_SKIP_BFS") == "" { // development aid: run the Elk-level pass alone
		bfsCases(c)
	}
	if os.Getenv("C17_SKIP_ELK") == "" { // development aid: run the state exploration alone
		elkCases(c)
	}
}

func bfsCases(c *engine.Ctx) {
	setParts := 2
	setDepth, capMax, maxStates := 5, 9, 60_000
	initCaps := []int{0, 2, 5, 8}
	// depth and number of parts of the HashMapOfValue search per initial capacity
	mapDepth := func(ic int) (depth, parts int) {
		if ic == 2 || ic == 8 { // quick tier: full depth for the capacities tables really start from (0 -> 5, and 5); one level less for 2 and 8
			return 4, 2
		}
		return 5, 8
	}
	if c.Thorough {
		setParts = 4
		setDepth, capMax, maxStates = 6, 13, 1_000_000
		initCaps = []int{0, 1, 2, 3, 5, 8}
		mapDepth = func(ic int) (int, int) {
			if ic == 0 { // default-constructed tables (the first insertion turns them into 5-slot tables): one level deeper, one case per first operation
				return 6, 28 // = number of operations of the thorough alphabet
			}
			return 5, 8
		}
	}
	depth, _ := mapDepth(0)
	// ---- generic *OfValue tables on colliding mixed-type keys
	hm, hr, hs := hmKind(uMixed), hrKind(uMixed), hsKind(uMixed)
	for _, ic := range initCaps {
		ic := ic
		d, mapParts := mapDepth(ic)
		for part := 0; part < mapParts; part++ {
			part := part
			c.Case(fmt.Sprintf("bfs/HashMapOfValue/cap%d/part%d", ic, part), func(r *engine.R) {
				explore(r, newMapSys(hm, ic, capMax, c.Thorough), d, maxStates, part, mapParts)
			})
		}
		for part := 0; part < setParts; part++ {
			part := part
			c.Case(fmt.Sprintf("bfs/HashSetOfValue/cap%d/part%d", ic, part), func(r *engine.R) {
				explore(r, newSetSys(hs, ic, capMax, c.Thorough), setDepth, maxStates, part, setParts)
			})
		}
	}
	// HashRecordOfValue is a conversion of HashMapOfValue whose functions delegate: one initial capacity per tier
	// (thorough: three) checks the delegation; a failure shared with HashMapOfValue gets the HashMapOfValue signature.
	recCaps := []int{0}
	if c.Thorough {
		recCaps = []int{0, 3, 5}
	}
	for _, ic := range recCaps {
		ic := ic
		c.Case(fmt.Sprintf("bfs/HashRecordOfValue/cap%d", ic), func(r *engine.R) {
			s := newMapSys(hr, ic, capMax, c.Thorough)
			s.shadow = newMapSys(hm, ic, capMax, c.Thorough)
			explore(r, s, 4, maxStates, 0, 1)
		})
	}
	// ---- specialised native variants (Go maps underneath) on String keys / String values
	hmS, hrS, hsS := hmKind(uStr), hrKind(uStr), hsKind(uStr)
	nhm := &mapKind{name: "NativeHashMap", u: uStr, mutableCopy: true, fresh: func(n int) vm.HashRecord { return vm.NewNativeHashMap[S, S](n) }}
	nkhm := &mapKind{name: "NativeKeyHashMap", u: uStr, mutableCopy: true, fresh: func(n int) vm.HashRecord { return vm.NewNativeKeyHashMap[S](n) }}
	nhr := &mapKind{name: "NativeHashRecord", u: uStr, fresh: func(n int) vm.HashRecord { return vm.MakeNativeHashRecord[S, S](n) }}
	nkhr := &mapKind{name: "NativeKeyHashRecord", u: uStr, fresh: func(n int) vm.HashRecord { return vm.MakeNativeKeyHashRecord[S](n) }}
	nhm.peers = []*mapKind{nkhm, hmS}
	nkhm.peers = []*mapKind{nhm, hmS}
	nhr.peers = []*mapKind{nkhr, hrS}
	nkhr.peers = []*mapKind{nhr, hrS}
	for _, k := range []*mapKind{nhm, nkhm, nhr, nkhr} {
		k := k
		c.Case("bfs/"+k.name, func(r *engine.R) { explore(r, newMapSys(k, 0, capMax, c.Thorough), depth+2, maxStates, 0, 1) })
	}
	// the generic tables with the specialised variants as arguments of == and + (interface paths)
	hmS.peers = []*mapKind{nhm, nkhm}
	hrS.peers = []*mapKind{nhr, nkhr}
	c.Case("bfs/HashMapOfValue/string-keys-vs-native", func(r *engine.R) { explore(r, newMapSys(hmS, 0, capMax, c.Thorough), depth-1, maxStates, 0, 1) })
	c.Case("bfs/HashRecordOfValue/string-keys-vs-native", func(r *engine.R) {
		s := newMapSys(hrS, 0, capMax, c.Thorough)
		s.shadow = newMapSys(hmS, 0, capMax, c.Thorough)
		explore(r, s, depth-1, maxStates, 0, 1)
	})
	nhs := &setKind{name: "NativeHashSet", u: uStr, fresh: func(n int) vm.HashSet { return vm.NewNativeHashSet[S](n) }}
	nhs.peers = []*setKind{hsS}
	hsS.peers = []*setKind{nhs}
	c.Case("bfs/NativeHashSet", func(r *engine.R) { explore(r, newSetSys(nhs, 0, capMax, c.Thorough), depth+2, maxStates, 0, 1) })
	c.Case("bfs/HashSetOfValue/string-keys-vs-native", func(r *engine.R) { explore(r, newSetSys(hsS, 0, capMax, c.Thorough), depth-1, maxStates, 0, 1) })
}

func main() {
	engine.Main(&engine.Spec{
		Prop:  "C17",
		Level: "model_checking",
		Rule: "Go API: breadth-first search over operation histories of real HashMapOfValue / HashRecordOfValue / HashSetOfValue objects (one search per initial capacity 0, 2, 5, 8; thorough 0, 1, 2, 3, 5, 8) and of the " +
			"specialised NativeHashMap / NativeKeyHashMap / NativeHashRecord / NativeKeyHashRecord / NativeHashSet variants; successor = replay of the shortest history on a fresh object + one operation " +
			"out of {set(k,v) v in 1..2, delete(k), set_capacity(length|length+1), grow(1), copy_into / copy_table from 3 fixed maps, self=self+F, self=clone; sets: add, remove, union, intersection}; " +
			"keys: 3 small Ints with equal hash residues modulo every capacity 1..15, a 4th such Int and a big Int only in the fixed argument maps, an Int whose home slot is adjacent, a String (reference keys are rebuilt on every use: equal under ==, distinct objects); " +
			"states merged on the full slot array + Elements + OccupiedSlots + capacity; depth 5 (quick: 4 for maps of initial capacity 2 and 8; thorough: 6 for sets and for maps of initial capacity 0), each search split into 8 (sets 2; thorough up to 28 and 4) cases by the first operation; after every transition: counters vs slot array, every lookup/contains variant for every key, " +
			"4 iteration APIs, == / =~ with 3 equal twins and 4 different twins in both directions, + / | / & with every fixed argument in both operand orders (also against the other implementations), clone, copy, " +
			"and non-mutation by observers, all against a Go map. Elk level: every sequence of <= 3 (thorough 4) operations ([]=, + map literal, + record literal; sets: <<, push, append, remove, |, +, & as observer) " +
			"on 2 initial literals of 7 collection flavours (Int keys -> generic tables, String keys -> native variants), observed after every step with length, [], contains_key, contains, contains_value, iteration count+fingerprint, ==. " +
			"states = sum over cases of the distinct internal states of the case; transitions validated = transitions whose observers were all compared on the real object; non-trivial = distinct states / programs with at least one operation",
		Assume: []string{
			"set_capacity is only called with capacity >= length (shrinking below the content is outside the API contract)",
			"the reference model is Go's built-in map",
			"iteration order is unspecified: only the multiset of yielded entries is compared",
			"method bodies compiled one at a time (MethodCheckConcurrencyLimit=1)",
		},
		QuickDeadline:    12 * time.Minute, // ~1 min on an idle 16-core machine; past the deadline the remaining cases are skipped (exhaustive:false)
		ThoroughDeadline: 60 * time.Minute,
		CaseTimeout:      10 * time.Minute,
		Setup: func(c *engine.Ctx) {
			elkrun.Init()
			debug.SetGCPercent(400) // many short-lived objects per transition; 16 workers share the machine
			th = vm.New()
			initUniverses()
		},
		Run: run,
	})
}
