package main

import (
	"fmt"
	"runtime/debug"

	"math/big"
	"sort"
	"strings"
	"verifharness/engine"

	"github.com/elk-language/elk/value"
	"github.com/elk-language/elk/vm"
)

var th *vm.Thread

// ---------------------------------------------------------------------------------------------
// key / value universes

type universe struct {
	mk       []func() value.Value // builds a FRESH key value on every call (distinct objects, equal under ==)
	names    []string
	byName   map[string]int
	nset     int // keys[0:nset] may be inserted by transitions; the rest only occur in the fixed argument collections
	val      func(j int) value.Value
	valNames map[string]int
	byInt    map[int64]int
	byStr    map[string]int
	intVals  bool
	strVals  map[string]int
}

func safeInspect(v value.Value) (s string) {
	defer func() {
		if p := recover(); p != nil {
			s = fmt.Sprintf("<inspect panicked: %v>", p)
		}
	}()
	if v.IsUndefined() {
		return "<undefined>"
	}
	return v.Inspect()
}

func (u *universe) finish() {
	u.byName = map[string]int{}
	u.byInt = map[int64]int{}
	u.byStr = map[string]int{}
	u.names = nil
	for i, f := range u.mk {
		v := f()
		n := safeInspect(v)
		u.names = append(u.names, n)
		u.byName[n] = i
		if v.IsSmallInt() {
			u.byInt[int64(v.AsSmallInt())] = i
		} else if str, ok := v.SafeAsReference().(value.String); ok {
			u.byStr[string(str)] = i
		}
	}
	u.intVals = u.val(1).IsSmallInt()
	u.strVals = map[string]int{}
	for j := 1; j <= 2; j++ {
		if str, ok := u.val(j).SafeAsReference().(value.String); ok {
			u.strVals[string(str)] = j
		}
	}
	u.valNames = map[string]int{}
	for j := 1; j <= 2; j++ {
		u.valNames[safeInspect(u.val(j))] = j
	}
}

// keyIdx: -1 undefined, -2 not a key of the universe (tombstone marker, foreign value).
func (u *universe) keyIdx(v value.Value) int {
	if v.IsUndefined() {
		return -1
	}
	if v.IsSmallInt() {
		if i, ok := u.byInt[int64(v.AsSmallInt())]; ok {
			return i
		}
		return -2
	}
	if v.IsReference() {
		if str, ok := v.AsReference().(value.String); ok {
			if i, ok := u.byStr[string(str)]; ok {
				return i
			}
			return -2
		}
	}
	if i, ok := u.byName[safeInspect(v)]; ok {
		return i
	}
	return -2
}

func (u *universe) valIdx(v value.Value) int {
	if v.IsUndefined() {
		return 0
	}
	if v.IsSmallInt() {
		if n := int(v.AsSmallInt()); n == 1 || n == 2 {
			if u.intVals {
				return n
			}
		}
		return 0
	}
	if v.IsReference() {
		if str, ok := v.AsReference().(value.String); ok {
			if u.intVals {
				return 0
			}
			return u.strVals[string(str)]
		}
	}
	return u.valNames[safeInspect(v)]
}

func hashOf(v value.Value) uint64 {
	h, err := vm.Hash(th, v)
	if !err.IsUndefined() {
		panic("hash error: " + safeInspect(err))
	}
	return uint64(h)
}

const collideLCM = 360360 // lcm(1..13): equal residues => same home slot for every capacity 1..13 (and 14, 15)

// findColliding returns n small ints whose hashes are congruent modulo collideLCM, and one int whose home
// slot in a 5-slot table is the next slot.
func findColliding(n int) (same []int, neighbour int) {
	byRes := map[uint64][]int{}
	for i := 1; i < 40_000_000; i++ {
		res := hashOf(value.SmallInt(i).ToValue()) % collideLCM
		byRes[res] = append(byRes[res], i)
		if len(byRes[res]) == n {
			same = byRes[res]
			for j := 1; ; j++ {
				if hashOf(value.SmallInt(j).ToValue())%5 == (res+1)%5 {
					return same, j
				}
			}
		}
	}
	panic("no colliding keys found")
}

var (
	uMixed *universe // keys of the *OfValue tables: colliding small ints, a neighbour, a String, a big Int
	uStr   *universe // keys of the specialised native variants: Strings, values Strings
)

func initUniverses() {
	same, nb := findColliding(4)
	sm := func(i int) func() value.Value { return func() value.Value { return value.SmallInt(i).ToValue() } }
	bigKey := func() value.Value {
		return value.ToElkBigInt(new(big.Int).Lsh(big.NewInt(1), 70)).Normalize() // fresh *BigInt every call
	}
	strKey := func(s string) func() value.Value {
		return func() value.Value { return value.Ref(value.String(strings.Clone(s))) }
	}
	uMixed = &universe{
		mk:   []func() value.Value{sm(same[0]), sm(same[1]), sm(same[2]), sm(nb), strKey("s"), bigKey, sm(same[3])},
		nset: 5,
		val:  func(j int) value.Value { return value.SmallInt(j).ToValue() },
	}
	uMixed.finish()
	uStr = &universe{
		mk:   []func() value.Value{strKey("a"), strKey("b"), strKey("c"), strKey("d"), strKey("e")},
		nset: 4,
		// value 1 is the zero value of the specialised value type (""), value 2 is "2"
		val: func(j int) value.Value {
			if j == 1 {
				return value.Ref(value.String(""))
			}
			return value.Ref(value.String(fmt.Sprint(j)))
		},
	}
	uStr.finish()
}

// ---------------------------------------------------------------------------------------------
// map-like kinds

type model map[int]int // key index -> value index (1|2)

func (m model) clone() model {
	c := model{}
	for k, v := range m {
		c[k] = v
	}
	return c
}

// merge: entries of b override entries of a.
func merge(a, b model) model {
	c := a.clone()
	for k, v := range b {
		c[k] = v
	}
	return c
}

func overlap(a, b model) bool {
	for k := range b {
		if _, ok := a[k]; ok {
			return true
		}
	}
	return false
}

func (m model) String() string {
	var b []string
	for _, k := range sortedKeys(m) {
		b = append(b, fmt.Sprintf("k%d=>%d", k, m[k]))
	}
	return "{" + strings.Join(b, ", ") + "}"
}

type mapKind struct {
	name  string
	u     *universe
	fresh func(capacity int) vm.HashRecord
	// function-style API of the *OfValue tables (nil for the specialised variants)
	del         func(o vm.HashRecord, k value.Value) (bool, value.Value)
	getFn       func(o vm.HashRecord, k value.Value) (value.Value, value.Value)
	hasKeyFn    func(o vm.HashRecord, k value.Value) (bool, value.Value)
	containsFn  func(o vm.HashRecord, p value.Pair) (bool, value.Value)
	hasValFn    func(o vm.HashRecord, v value.Value) (bool, value.Value)
	setCap      func(o vm.HashRecord, c int) value.Value
	grow        func(o vm.HashRecord, n int) value.Value
	copyFrom    func(dst, src vm.HashRecord) value.Value
	copyTable   func(dst, src vm.HashRecord) value.Value
	concatFn    func(a, b vm.HashRecord) (vm.HashRecord, value.Value)
	concatIface func(a, b vm.HashRecord) (vm.HashRecord, value.Value)
	equalFn     func(a, b vm.HashRecord) (bool, value.Value)
	laxEqualFn  func(a, b vm.HashRecord) (bool, value.Value)
	peers       []*mapKind // other implementations over the same universe, used as arguments of + and ==
	mutableCopy bool       // Copy() must return an independent object
}

func tableOf(o vm.HashRecord) (t []value.PairOfValue, el, occ int, ok bool) {
	switch h := o.(type) {
	case *vm.HashMapOfValue:
		return h.Table, h.Elements, h.OccupiedSlots, true
	case *vm.HashRecordOfValue:
		return h.Table, h.Elements, h.OccupiedSlots, true
	}
	return nil, 0, 0, false
}

// stateKey is the canonical full internal state.
func (k *mapKind) stateKey(o vm.HashRecord) string {
	var b strings.Builder
	u := k.u
	ent := func(kv, vv value.Value) string {
		ki, vi := u.keyIdx(kv), u.valIdx(vv)
		if ki >= 0 && vi > 0 {
			return fmt.Sprintf("k%d=%d", ki, vi)
		}
		return safeInspect(kv) + "=" + safeInspect(vv)
	}
	if t, el, occ, ok := tableOf(o); ok {
		fmt.Fprintf(&b, "%T %d/%d/%d:", o, el, occ, len(t))
		for i := range t {
			p := &t[i]
			switch {
			case !p.Key().IsUndefined():
				b.WriteString(ent(p.Key(), p.Value()))
				b.WriteByte(',')
			case p.Value().IsUndefined():
				b.WriteString("_,")
			default:
				b.WriteString("X,")
			}
		}
		return b.String()
	}
	var ents []string
	for p := range o.All() {
		ents = append(ents, ent(p.Key(), p.Value()))
	}
	sort.Strings(ents)
	fmt.Fprintf(&b, "%T %d:%s", o, o.Length(), strings.Join(ents, ","))
	return b.String()
}

func (k *mapKind) build(m model, capacity int, reverse bool) vm.HashRecord {
	o := k.fresh(capacity)
	ks := sortedKeys(m)
	if reverse {
		sort.Sort(sort.Reverse(sort.IntSlice(ks)))
	}
	for _, ki := range ks {
		if err := o.SetVal(th, k.u.mk[ki](), k.u.val(m[ki])); !err.IsUndefined() {
			panic("building an argument map failed: " + safeInspect(err))
		}
	}
	return o
}

type mop struct {
	kind string
	a, b int
	name string
}

type mapSys struct {
	k       *mapKind
	initCap int
	capMax  int
	ops     []mop
	names   []string
	fixed   []model
	nrep    map[string]int
	shadow  *mapSys // HashRecordOfValue delegates to HashMapOfValue: used to give a shared defect one signature
}

func newMapSys(k *mapKind, initCap, capMax int, thorough bool) *mapSys {
	s := &mapSys{k: k, initCap: initCap, capMax: capMax, nrep: map[string]int{}}
	u := k.u
	if u == uMixed {
		// fixed argument maps: disjoint colliding key / two shared-able keys / big-Int key + shared-able key
		s.fixed = []model{{6: 1}, {0: 2, 4: 1}, {5: 2, 1: 2}}
	} else {
		s.fixed = []model{{4: 1}, {0: 2, 1: 1}}
	}
	add := func(kind string, a, b int, name string) {
		s.ops = append(s.ops, mop{kind, a, b, name})
		s.names = append(s.names, name)
	}
	nset := u.nset
	if !thorough && nset > 4 && u == uMixed {
		// quick tier: colliding triple + neighbour + String
	}
	for ki := 0; ki < nset; ki++ {
		for v := 1; v <= 2; v++ {
			add("set", ki, v, fmt.Sprintf("set(k%d,%d)", ki, v))
		}
	}
	if k.del != nil {
		for ki := 0; ki < nset; ki++ {
			add("delete", ki, 0, fmt.Sprintf("delete(k%d)", ki))
		}
	}
	if k.setCap != nil {
		add("set_capacity", 0, 0, "set_capacity(length)")
		add("set_capacity", 1, 0, "set_capacity(length+1)")
	}
	if k.grow != nil {
		add("grow", 1, 0, "grow(1)")
	}
	for fi := range s.fixed {
		if k.copyFrom != nil {
			add("copy_into", fi, 0, fmt.Sprintf("copy_into(self<-F%d)", fi))
		}
		if k.copyTable != nil && (thorough || fi == 1) {
			add("copy_table", fi, 0, fmt.Sprintf("copy_table(self<-F%d)", fi))
		}
		add("concat", fi, 0, fmt.Sprintf("self=self+F%d", fi))
	}
	add("rebuild", 0, 0, "self=clone(capacity=length)")
	return s
}

func (s *mapSys) Name() string      { return s.k.name }
func (s *mapSys) OpNames() []string { return s.names }

func (s *mapSys) sig(what string) string { return "go-api kind=" + s.k.name + " " + what }

func (s *mapSys) describe(o vm.HashRecord, m model) string {
	u := s.k.u
	var ks []string
	for i, n := range u.names {
		ks = append(ks, fmt.Sprintf("k%d=%s", i, n))
	}
	return fmt.Sprintf("keys: %s\nmodel (key=>value): %s\nreal state: %s", strings.Join(ks, " "), m, s.k.stateKey(o))
}

func isErr(v value.Value) bool { return !v.IsUndefined() }

// apply executes one transition on the real object and on the model.
func (s *mapSys) apply(po *vm.HashRecord, m model, op mop, check bool) (applicable bool, vs []viol, outcome string) {
	k, u, o := s.k, s.k.u, *po
	bad := func(what, detail string) {
		if check {
			vs = append(vs, viol{s.sig(what), detail + "\n" + s.describe(*po, m)})
		}
	}
	capOf := func() int {
		if t, _, _, ok := tableOf(o); ok {
			return len(t)
		}
		return 0
	}
	switch op.kind {
	case "set":
		_, had := m[op.a]
		err := o.SetVal(th, u.mk[op.a](), u.val(op.b))
		m[op.a] = op.b
		if isErr(err) {
			bad("set returns an error", "SetVal returned "+safeInspect(err))
		}
		if had {
			return true, vs, "set:update"
		}
		return true, vs, "set:insert"
	case "delete":
		_, had := m[op.a]
		removed, err := k.del(o, u.mk[op.a]())
		delete(m, op.a)
		if isErr(err) {
			bad("delete returns an error", "Delete returned "+safeInspect(err))
		} else if removed != had {
			bad("delete reports the wrong result", fmt.Sprintf("Delete returned %v, key present before: %v", removed, had))
		}
		if had {
			return true, vs, "delete:hit"
		}
		return true, vs, "delete:miss"
	case "set_capacity":
		c := len(m) + op.a
		if c > s.capMax || c == capOf() {
			return false, nil, ""
		}
		if err := k.setCap(o, c); isErr(err) {
			bad("set_capacity returns an error", safeInspect(err))
		}
		if c == len(m) {
			return true, vs, "set_capacity:full"
		}
		return true, vs, "set_capacity:slack"
	case "grow":
		if capOf()+op.a > s.capMax {
			return false, nil, ""
		}
		if err := k.grow(o, op.a); isErr(err) {
			bad("grow returns an error", safeInspect(err))
		}
		return true, vs, "grow"
	case "copy_into", "copy_table":
		f := s.fixed[op.a]
		src := k.build(f, len(f), false)
		var err value.Value
		if op.kind == "copy_into" {
			err = k.copyFrom(o, src)
		} else {
			err = k.copyTable(o, src)
		}
		ov := overlap(m, f)
		for kk, v := range f {
			m[kk] = v
		}
		if isErr(err) {
			bad(op.kind+" returns an error", safeInspect(err))
		}
		return true, vs, fmt.Sprintf("%s:overlap=%v", op.kind, ov)
	case "concat":
		f := s.fixed[op.a]
		src := k.build(f, len(f)+1, true)
		res, err := o.ConcatVal(th, src.ToValue())
		ov := overlap(m, f)
		for kk, v := range f {
			m[kk] = v
		}
		if isErr(err) {
			bad("+ returns an error", safeInspect(err))
			return true, vs, "concat:error"
		}
		nr, ok := res.SafeAsReference().(vm.HashRecord)
		if !ok {
			bad("+ does not return a map/record", safeInspect(res))
			return true, vs, "concat:not-a-map"
		}
		*po = nr
		return true, vs, fmt.Sprintf("concat:overlap=%v", ov)
	case "rebuild":
		res, err := o.CloneHashRecord(th, len(m))
		if isErr(err) {
			bad("clone returns an error", safeInspect(err))
			return true, vs, "rebuild:error"
		}
		*po = res
		return true, vs, "rebuild"
	}
	panic("unknown op " + op.kind)
}

// contentCheck compares the observable content of any map-like object with a model. It returns the first
// discrepancy ("" if none). after is appended to counter-type discrepancies only.
func contentCheck(u *universe, o vm.HashRecord, m model) (class, what string) {
	var probs []string
	if o.Length() != len(m) {
		probs = append(probs, fmt.Sprintf("length=%d but %d distinct keys", o.Length(), len(m)))
	}
	if t, el, occ, ok := tableOf(o); ok {
		live, tomb := 0, 0
		for i := range t {
			p := &t[i]
			if !p.Key().IsUndefined() {
				live++
			} else if !p.Value().IsUndefined() {
				tomb++
			}
		}
		if el != live {
			probs = append(probs, fmt.Sprintf("Elements=%d but %d live slots", el, live))
		}
		if occ != live+tomb {
			probs = append(probs, fmt.Sprintf("OccupiedSlots=%d but %d live + %d deleted slots", occ, live, tomb))
		}
		if occ > len(t) {
			probs = append(probs, fmt.Sprintf("OccupiedSlots=%d > capacity %d", occ, len(t)))
		}
	}
	if len(probs) > 0 {
		return "counter", strings.Join(probs, "; ")
	}
	for i := range u.mk {
		got, err := o.GetValUndefined(th, u.mk[i]())
		if isErr(err) {
			return "lookup", "lookup returns an error (" + safeInspect(err) + ")"
		}
		want, present := m[i]
		if present && u.valIdx(got) != want {
			if got.IsUndefined() {
				return "lookup", "lookup of a present key finds nothing"
			}
			return "lookup", "lookup of a present key returns a wrong value (" + safeInspect(got) + ")"
		}
		if !present && !got.IsUndefined() {
			if msg := "lookup of an absent key returns " + safeInspect(got); msg == tombstoneLeak {
				return "tombstone", msg
			} else {
				return "lookup", msg
			}
		}
	}
	if res := iterCheck(u, m, func(yield func(k, v value.Value) bool) {
		for p := range o.All() {
			if !yield(p.Key(), p.Value()) {
				return
			}
		}
	}); res != "" {
		return "iteration", "iteration " + res
	}
	return "", ""
}

// contentCheckCounters is the counter part of contentCheck.
func contentCheckCounters(u *universe, o vm.HashRecord, m model) (class, what string) {
	class, what = contentCheck(u, o, m)
	if class != "counter" {
		return "", ""
	}
	return
}

const counterWhat = "counters inconsistent (length / Elements / OccupiedSlots vs slot array) after="

// implName is the implementation that owns the table of a derived object. HashRecordOfValue is a type
// conversion of HashMapOfValue whose functions all delegate, so its tables are built by the HashMapOfValue code.
func implName(o vm.HashRecord) string {
	switch o.(type) {
	case *vm.HashMapOfValue, *vm.HashRecordOfValue:
		return "HashMapOfValue"
	}
	n := fmt.Sprintf("%T", o)
	n = strings.TrimPrefix(n, "*")
	n = strings.TrimPrefix(n, "vm.")
	if i := strings.IndexByte(n, '['); i >= 0 {
		n = n[:i]
	}
	return n
}

func opClass(op string) string {
	switch op {
	case "concat", "copy_into":
		return "bulk-copy"
	}
	return op
}

// derivedSig builds the signature of a discrepancy found in an object derived from the state (result of +, clone, copy).
func (s *mapSys) derivedSig(ctx, after string, nr vm.HashRecord, class, what string) string {
	switch class {
	case "counter":
		return "go-api kind=" + implName(nr) + " " + counterWhat + after
	case "tombstone":
		return "go-api kind=" + implName(nr) + " " + tombstoneLeak
	}
	return s.sig(ctx + ": " + stripNumbers(what))
}

// iterCheck: iteration yields each live entry exactly once and nothing else.
func iterCheck(u *universe, m model, seq func(yield func(k, v value.Value) bool)) string {
	seen := map[int]int{}
	res := ""
	n := 0
	seq(func(kv, vv value.Value) bool {
		n++
		if n > 200 {
			res = "does not terminate"
			return false
		}
		ki := u.keyIdx(kv)
		if ki < 0 {
			res = "yields a dead or foreign entry (" + safeInspect(kv) + ")"
			return false
		}
		seen[ki]++
		if seen[ki] > 1 {
			res = "yields a key twice"
			return false
		}
		want, ok := m[ki]
		if !ok {
			res = "yields an absent key"
			return false
		}
		if u.valIdx(vv) != want {
			res = "yields a wrong value"
			return false
		}
		return true
	})
	if res == "" && len(seen) != len(m) {
		res = "misses a live entry"
	}
	return res
}

func pairSeqOfIterator(it value.NativeIterator) func(yield func(k, v value.Value) bool) {
	return func(yield func(k, v value.Value) bool) {
		for i := 0; i < 300; i++ {
			v, err := it.NextValue()
			if isErr(err) {
				return // stop_iteration (or an error: the entry count check catches a premature stop)
			}
			p, ok := v.SafeAsReference().(value.Pair)
			if !ok {
				if !yield(v, value.Undefined) {
					return
				}
				continue
			}
			if !yield(p.Key(), p.Value()) {
				return
			}
		}
	}
}

// check evaluates all oracles on the state reached. expand=false when the state itself is wrong.
func (s *mapSys) check(o vm.HashRecord, m model, last string) (vs []viol, expand bool) {
	k, u := s.k, s.k.u
	keyBefore := k.stateKey(o)
	addSig := func(sig string, detail func() string) {
		s.nrep[sig]++
		if s.nrep[sig] > 3 { // the engine keeps two per signature and case: do not format the rest
			vs = append(vs, viol{sig, ""})
			return
		}
		vs = append(vs, viol{sig, detail() + "\n" + s.describe(o, m)})
	}
	add := func(what, detail string) { addSig(s.sig(what), func() string { return detail }) }
	// ---- tier 1: counters and table shape (blamed on the last operation)
	if class, what := contentCheckCounters(u, o, m); class != "" {
		add(counterWhat+opClass(last), what)
	}
	if t, _, _, ok := tableOf(o); ok {
		liveKeys := map[int]int{}
		for i := range t {
			if p := &t[i]; !p.Key().IsUndefined() {
				liveKeys[u.keyIdx(p.Key())]++
			}
		}
		for ki, n := range liveKeys {
			if n > 1 {
				add("two live slots hold equal keys after="+opClass(last), fmt.Sprintf("key k%d occupies %d slots", ki, n))
				break
			}
		}
	}
	if len(vs) > 0 {
		return vs, false
	}
	// ---- tier 2: lookups and iteration
	type getter struct {
		name string
		nilS bool
		f    func(kv value.Value) (value.Value, value.Value)
	}
	getters := []getter{
		{"GetValUndefined", false, func(kv value.Value) (value.Value, value.Value) { return o.GetValUndefined(th, kv) }},
		{"GetValNil", true, func(kv value.Value) (value.Value, value.Value) { return o.GetValNil(th, kv) }},
	}
	if k.getFn != nil {
		getters = append(getters, getter{"Get", false, func(kv value.Value) (value.Value, value.Value) { return k.getFn(o, kv) }})
	}
	type pred struct {
		name string
		f    func(kv value.Value) (bool, value.Value)
	}
	hasKey := []pred{{"ContainsKey", func(kv value.Value) (bool, value.Value) { return o.ContainsKey(th, kv) }}}
	if k.hasKeyFn != nil {
		hasKey = append(hasKey, pred{"ContainsKeyFn", func(kv value.Value) (bool, value.Value) { return k.hasKeyFn(o, kv) }})
	}
	for i := range u.mk {
		want, present := m[i]
		for _, g := range getters {
			got, err := g.f(u.mk[i]())
			switch {
			case isErr(err):
				add("lookup returns an error", fmt.Sprintf("%s(k%d) returned error %s", g.name, i, safeInspect(err)))
			case present && u.valIdx(got) != want:
				if got.IsUndefined() || got == value.Nil {
					add("lookup of a present key finds nothing", fmt.Sprintf("%s(k%d) = %s, expected %d", g.name, i, safeInspect(got), want))
				} else {
					add("lookup of a present key returns a wrong value", fmt.Sprintf("%s(k%d) = %s, expected %d", g.name, i, safeInspect(got), want))
				}
			case !present && !g.nilS && !got.IsUndefined():
				add("lookup of an absent key returns "+safeInspect(got), fmt.Sprintf("%s(k%d) = %s, expected undefined (absent)", g.name, i, safeInspect(got)))
			case !present && g.nilS && got != value.Nil:
				add("lookup of an absent key returns "+safeInspect(got), fmt.Sprintf("%s(k%d) = %s, expected nil", g.name, i, safeInspect(got)))
			}
		}
		for _, p := range hasKey {
			got, err := p.f(u.mk[i]())
			if isErr(err) {
				add("contains_key returns an error", fmt.Sprintf("%s(k%d): %s", p.name, i, safeInspect(err)))
			} else if got != present {
				add(fmt.Sprintf("contains_key is %v for a key whose presence is %v", got, present), fmt.Sprintf("%s(k%d) = %v", p.name, i, got))
			}
		}
		for v := 1; v <= 2; v++ {
			wantC := present && want == v
			pair := value.NewPairOfValue(u.mk[i](), u.val(v))
			got, err := o.Contains(th, pair)
			if isErr(err) {
				add("contains(pair) returns an error", fmt.Sprintf("Contains(k%d=>%d): %s", i, v, safeInspect(err)))
			} else if got != wantC {
				add(fmt.Sprintf("contains(pair) is %v, expected %v (key present: %v)", got, wantC, present), fmt.Sprintf("Contains(k%d=>%d) = %v", i, v, got))
			}
			if k.containsFn != nil {
				got, err := k.containsFn(o, pair)
				if isErr(err) || got != wantC {
					add(fmt.Sprintf("contains(pair) is %v, expected %v (key present: %v)", got, wantC, present), fmt.Sprintf("ContainsFn(k%d=>%d) = %v err=%s", i, v, got, safeInspect(err)))
				}
			}
		}
	}
	for v := 1; v <= 2; v++ {
		want := false
		for _, mv := range m {
			if mv == v {
				want = true
			}
		}
		got, err := o.ContainsValue(th, u.val(v))
		if isErr(err) || got != want {
			add(fmt.Sprintf("contains_value is %v, expected %v", got, want), fmt.Sprintf("ContainsValue(%d) = %v err=%s", v, got, safeInspect(err)))
		}
		if k.hasValFn != nil {
			got, err := k.hasValFn(o, u.val(v))
			if isErr(err) || got != want {
				add(fmt.Sprintf("contains_value is %v, expected %v", got, want), fmt.Sprintf("ContainsValueFn(%d) = %v err=%s", v, got, safeInspect(err)))
			}
		}
	}
	iters := []struct {
		name string
		seq  func(yield func(k, v value.Value) bool)
	}{
		{"All", func(yield func(k, v value.Value) bool) {
			for p := range o.All() {
				if !yield(p.Key(), p.Value()) {
					return
				}
			}
		}},
		{"Iterate", func(yield func(k, v value.Value) bool) {
			for v, err := range o.Iterate() {
				if isErr(err) {
					yield(err, value.Undefined)
					return
				}
				p, ok := v.SafeAsReference().(value.Pair)
				if !ok {
					yield(v, value.Undefined)
					return
				}
				if !yield(p.Key(), p.Value()) {
					return
				}
			}
		}},
		{"iterator", pairSeqOfIterator(o.IterRecord())},
		{"iterator-after-reset", func(yield func(k, v value.Value) bool) {
			it := o.IterRecord()
			it.NextValue()
			it.Reset()
			pairSeqOfIterator(it)(yield)
		}},
	}
	for _, it := range iters {
		if res := iterCheck(u, m, it.seq); res != "" {
			add("iteration "+res, "via "+it.name)
		}
	}
	// lookups and iteration are observers: a wrong answer is reported, the table itself is sound and is explored further
	// ---- tier 3: derived objects
	// a Go panic in one of the derived-object observers must not hide what the lookups of this state already showed
	defer func() {
		if p := recover(); p != nil {
			st := string(debug.Stack())
			vs = append(vs, viol{sig: fmt.Sprintf("go-api kind=%s go-panic %s", s.k.name, firstFrame(engine.PanicSig(fmt.Sprint(p), st))),
				detail: fmt.Sprintf("Go panic in an observer (==, +, |, &, clone, copy) after %s: %v\n%s\n%s", last, p, trimStack(st), s.describe(o, m))})
			expand = true // the table itself passed the state oracles; successors are built by replay on fresh objects
		}
	}()
	all := append([]*mapKind{k}, k.peers...)
	for _, pk := range all {
		pairName := k.name + " vs " + pk.name
		// equality with twins
		twins := []vm.HashRecord{pk.build(m, len(m), false), pk.build(m, 0, true)}
		if pk.del != nil && len(m) > 0 { // a twin with a tombstone in front of its entries
			tw := pk.fresh(0)
			for ki := 0; ki < len(u.mk); ki++ {
				if _, ok := m[ki]; !ok {
					tw.SetVal(th, u.mk[ki](), u.val(1))
					for _, kk := range sortedKeys(m) {
						tw.SetVal(th, u.mk[kk](), u.val(m[kk]))
					}
					pk.del(tw, u.mk[ki]())
					twins = append(twins, tw)
					break
				}
			}
		}
		for ti, tw := range twins {
			for dir := 0; dir < 2; dir++ {
				a, b := o, tw
				if dir == 1 {
					a, b = tw, o
				}
				eq, err := a.Equal(th, b.ToValue())
				if isErr(err) || !eq {
					add("== is false for equal content ("+pairName+")", fmt.Sprintf("twin %d dir %d: Equal=%v err=%s twin=%s", ti, dir, eq, safeInspect(err), pk.stateKey(tw)))
				}
				eq, err = a.LaxEqual(th, b.ToValue())
				if isErr(err) || !eq {
					add("=~ is false for equal content ("+pairName+")", fmt.Sprintf("twin %d dir %d: LaxEqual=%v err=%s twin=%s", ti, dir, eq, safeInspect(err), pk.stateKey(tw)))
				}
			}
			if pk == k && k.equalFn != nil {
				if eq, err := k.equalFn(o, tw); isErr(err) || !eq {
					add("== is false for equal content ("+pairName+")", fmt.Sprintf("EqualFn twin %d: %v err=%s", ti, eq, safeInspect(err)))
				}
				if eq, err := k.laxEqualFn(o, tw); isErr(err) || !eq {
					add("=~ is false for equal content ("+pairName+")", fmt.Sprintf("LaxEqualFn twin %d: %v err=%s", ti, eq, safeInspect(err)))
				}
			}
		}
		// different content must compare unequal
		var diffs []struct {
			name string
			m    model
		}
		ks := sortedKeys(m)
		if len(ks) > 0 {
			d := m.clone()
			d[ks[0]] = 3 - d[ks[0]]
			diffs = append(diffs, struct {
				name string
				m    model
			}{"one value differs", d})
			d = m.clone()
			delete(d, ks[len(ks)-1])
			diffs = append(diffs, struct {
				name string
				m    model
			}{"one entry fewer", d})
		}
		for ki := range u.mk {
			if _, ok := m[ki]; !ok {
				d := m.clone()
				d[ki] = 1
				diffs = append(diffs, struct {
					name string
					m    model
				}{"one entry more", d})
				if len(ks) > 0 {
					d = m.clone()
					d[ki] = d[ks[0]]
					delete(d, ks[0])
					diffs = append(diffs, struct {
						name string
						m    model
					}{"same length, one key differs", d})
				}
				break
			}
		}
		for _, df := range diffs {
			tw := pk.build(df.m, len(df.m), false)
			for dir := 0; dir < 2; dir++ {
				a, b := o, tw
				if dir == 1 {
					a, b = tw, o
				}
				eq, err := a.Equal(th, b.ToValue())
				if isErr(err) || eq {
					add("== is true for different content: "+df.name+" ("+pairName+")", fmt.Sprintf("dir %d: Equal=%v err=%s other=%s", dir, eq, safeInspect(err), df.m))
				}
			}
		}
		// + with the fixed maps, both operand orders
		for fi, f := range s.fixed {
			arg := pk.build(f, len(f), false)
			ov := overlap(m, f)
			type cc struct {
				name string
				a, b vm.HashRecord
				want model
			}
			for _, c := range []cc{{"self+F", o, arg, merge(m, f)}, {"F+self", arg, o, merge(f, m)}} {
				argKey := pk.stateKey(arg)
				res, err := c.a.ConcatVal(th, c.b.ToValue())
				if isErr(err) {
					add(fmt.Sprintf("+ returns an error (%s)", pairName), fmt.Sprintf("%s with F%d=%s: %s", c.name, fi, f, safeInspect(err)))
					continue
				}
				nr, ok := res.SafeAsReference().(vm.HashRecord)
				if !ok {
					add(fmt.Sprintf("+ does not return a map/record (%s)", pairName), safeInspect(res))
					continue
				}
				if class, what := contentCheck(u, nr, c.want); class != "" {
					addSig(s.derivedSig(fmt.Sprintf("+ result (%s, shared keys: %v)", pairName, ov), "bulk-copy", nr, class, what), func() string {
						return fmt.Sprintf("%s with F%d=%s (%s): %s\nresult state: %s", c.name, fi, f, pk.name, what, k.stateKey(nr))
					})
				}
				if pk.stateKey(arg) != argKey {
					add("+ mutates its argument ("+pairName+")", fmt.Sprintf("%s with F%d", c.name, fi))
				}
			}
			if pk == k && k.concatFn != nil {
				for _, c := range []struct {
					name string
					f    func(a, b vm.HashRecord) (vm.HashRecord, value.Value)
				}{{"Concat", k.concatFn}, {"ConcatInterface", k.concatIface}} {
					nr, err := c.f(o, arg)
					if isErr(err) {
						add("+ returns an error ("+pairName+")", c.name+": "+safeInspect(err))
					} else if class, what := contentCheck(u, nr, merge(m, f)); class != "" {
						addSig(s.derivedSig(fmt.Sprintf("+ result (%s, shared keys: %v)", pairName, ov), "bulk-copy", nr, class, what), func() string {
							return fmt.Sprintf("%s(self, F%d=%s): %s\nresult state: %s", c.name, fi, f, what, k.stateKey(nr))
						})
					}
				}
			}
		}
	}
	// clones
	for _, c := range []int{len(m), len(m) + 3} {
		cl, err := o.CloneHashRecord(th, c)
		if isErr(err) {
			add("clone returns an error", safeInspect(err))
		} else if class, what := contentCheck(u, cl, m); class != "" {
			addSig(s.derivedSig("clone", "clone", cl, class, what), func() string {
				return fmt.Sprintf("CloneHashRecord(capacity=%d): %s\nclone state: %s", c, what, k.stateKey(cl))
			})
		}
	}
	if cp, ok := o.(value.Reference).Copy().(vm.HashRecord); ok {
		if class, what := contentCheck(u, cp, m); class != "" {
			addSig(s.derivedSig("copy", "copy", cp, class, what), func() string { return what })
		} else if k.mutableCopy {
			// the copy must be independent of the original
			for ki := 0; ki < len(u.mk); ki++ {
				if _, present := m[ki]; !present {
					cp.SetVal(th, u.mk[ki](), u.val(1))
					break
				}
			}
			if k.stateKey(o) != keyBefore {
				add("copy shares state with the original", "setting a key in the copy changed the original")
			}
		}
	} else {
		add("copy is not a map/record", fmt.Sprintf("%T", o.(value.Reference).Copy()))
	}
	if after := k.stateKey(o); after != keyBefore {
		add("an observer (lookup, ==, +, clone, copy, iteration) mutates the receiver", fmt.Sprintf("before: %s\nafter:  %s", keyBefore, after))
		return vs, false
	}
	return vs, true
}

// tombstoneLeak: a lookup hands out the marker stored in deleted slots. The same message is used wherever it is
// observed (the state itself, a clone, the result of +) so that the defect has one signature.
const tombstoneLeak = "lookup of an absent key returns true"

// stripNumbers removes the concrete numbers of a contentCheck message so that it can be part of a signature.
func stripNumbers(s string) string {
	if i := strings.Index(s, " ("); i >= 0 {
		return s[:i]
	}
	return s
}

func (s *mapSys) runOnce(hist []int, check bool) (key string, applicable bool, vs []viol, expand bool, outcome string) {
	o := s.k.fresh(s.initCap)
	m := model{}
	last := "init"
	outcome = "init"
	for i, oi := range hist {
		isLast := i == len(hist)-1
		var ovs []viol
		applicable, ovs, outcome = s.apply(&o, m, s.ops[oi], check && isLast)
		if !applicable {
			if !isLast {
				panic("inapplicable operation inside a stored history")
			}
			return "", false, nil, false, ""
		}
		if isLast {
			vs = append(vs, ovs...)
			last = s.ops[oi].kind
		}
	}
	expand = true
	if check {
		cvs, ex := s.check(o, m, last)
		vs = append(vs, cvs...)
		expand = ex && len(vs) == len(cvs) // an operation that reported a wrong result is not expanded either
	}
	return s.k.stateKey(o), true, vs, expand, outcome
}

func (s *mapSys) Run(hist []int, check bool) (key string, applicable bool, vs []viol, expand bool, outcome string) {
	if s.shadow == nil {
		return s.runOnce(hist, check)
	}
	key, applicable, vs, expand, outcome = safeRun(runner{s}, hist, check)
	if s.shadow != nil && len(vs) > 0 {
		// HashRecordOfValue is a type conversion of HashMapOfValue and every function delegates: when the same
		// history fails the same oracle on HashMapOfValue, report the defect under the HashMapOfValue signature.
		_, _, svs, _, _ := safeRun(s.shadow, hist, true)
		for i := range vs {
			want := strings.Replace(vs[i].sig, "kind="+s.k.name, "kind="+s.shadow.k.name, 1)
			want = strings.ReplaceAll(want, s.k.name+" vs "+s.k.name, s.shadow.k.name+" vs "+s.shadow.k.name)
			for _, sv := range svs {
				if sv.sig == want {
					vs[i].sig = want
					vs[i].detail = "(observed on " + s.k.name + ", which delegates to " + s.shadow.k.name + "; the same history fails the same way there)\n" + vs[i].detail
					break
				}
			}
		}
	}
	return
}

// runner exposes runOnce as a system (so that safeRun can recover its panics before the shadow comparison).
type runner struct{ s *mapSys }

func (r runner) Name() string      { return r.s.Name() }
func (r runner) OpNames() []string { return r.s.OpNames() }
func (r runner) Run(hist []int, check bool) (string, bool, []viol, bool, string) {
	return r.s.runOnce(hist, check)
}
