// C27 — REPL sessions behave like batch runs of their accepted inputs.
//
// Bounded-exhaustive over histories: every sequence of exactly N inputs over a fixed alphabet of REPL inputs (every
// shorter history is a prefix of one of them and is observed input by input). The alphabet mixes valid definitions,
// uses, redefinitions and class reopenings, inputs that the type checker rejects *after* they have declared
// something (failing in different phases of the checker), an input that raises at run time after a side effect, and
// a pure expression.
//
// The session mirrors repl.evaluator.evaluate (repl/repl.go) with the exported API it uses: one long-lived
// checker.New() with SetAdditionalAbortChecks(true)+SetIncremental(true), CheckSourceBytecode per input, ClearErrors
// after diagnostics, one long-lived vm.Thread driven with InterpretREPL / PrintError / ResetError.
//
// Oracles:
//
//	(ii) no trace: the session without its rejected inputs gives, input by input, the same verdict / output / value /
//	     error for all the other inputs. On a difference the rejected input to blame is found by keeping them one at
//	     a time (which also shrinks the reported history). When that comparison is clean, the session without its
//	     first rejected input only is compared as well, verdicts of the other rejected inputs included (an input
//	     wrongly rejected because of an earlier rejected one would otherwise be dropped together with it).
//	(i)  batch: for every accepted input (up to the first difference found by (ii)), a fresh non-incremental
//	     compile+run of «all previously accepted inputs + this input» as one program (fresh runtime) prints, after the
//	     marker that precedes the input, exactly what the session printed for it, and ends with the same result value
//	     (the REPL's `=> value`) or the same uncaught error.
package main

import (
	"fmt"
	"os"
	"regexp"
	"runtime/debug"
	"sort"
	"strings"
	"time"

	"github.com/elk-language/elk/types/checker"
	"github.com/elk-language/elk/vm"

	"verifharness/elkrun"
	"verifharness/engine"
)

// ---------------------------------------------------------------------------------------------
// alphabet

type input struct {
	Name string
	Src  string
	Res  string // the kind of state the input touches (used to group signatures by defect)
	Obs  bool   // the input only observes state (never part of a signature's predecessor set)
	// BatchAfter is what stands for this input in later batch programs when it raised at run time in the session
	// (the statements it executed before the throw); "" = the input itself.
	BatchAfter string
	Core       bool // member of the core alphabet: the quick tier, and the longest histories of the thorough tier
}

// Names end in 27 so that nothing collides with Std. No input ends in a value whose inspect text depends on the
// source name or on an address (closures, objects).
var alphabet = []input{
	{Name: "deflocal", Res: "local", Core: true, Src: `a := 1`},
	{Name: "uselocal", Obs: true, Res: "local", Core: true, Src: `println(a)`},
	{Name: "relocal", Res: "local", Src: `a := "s"`},                                                           // defines a String local, or is a type error when a: Int exists
	{Name: "defmeth", Res: "method", Core: true, Src: "def m27: Int then 1\ndef caller27: Int then m27() + 1"}, // valid; invalid override when m27: String exists
	{Name: "callmeth", Obs: true, Res: "method", Core: true, Src: `println(caller27())`},                       // through a method compiled earlier
	{Name: "redefsame", Res: "method", Core: true, Src: `def m27: Int then 100`},                               // same signature, new body
	{Name: "redefmeth", Res: "method", Core: true, Src: "def m27: String then \"r\"\nprintln(m27())"},          // new return type: valid only while m27 is undefined
	{Name: "defclass", Res: "class", Core: true, Src: "class Foo27\n  def k: Int then 5\nend"},
	{Name: "reopen", Res: "class", Src: "class Foo27\n  def j: Int then 6\nend\nprintln(Foo27().j)"},
	{Name: "useclass", Obs: true, Res: "class", Core: true, Src: `println(Foo27().k + 1)`},
	{Name: "defconst", Res: "const", Src: "const K27 = 7\nprintln(K27)"},
	// non-static constants whose initialiser calls a top-level method (checked through the method-scope copies of the
	// checker); each is paired with a def because an input with such a constant and no def loses the constant's code
	{Name: "constmk", Res: "const", Core: true, Src: "def mk27: Int then 20\ndef helper27: Int then 40\nconst KM27: Int = mk27() + 1\nprintln(KM27)"},
	{Name: "consthelper", Res: "const", Core: true, Src: "def pad27: Int then 0\nconst KH27: Int = helper27() + 1\nprintln(KH27)"},    // valid only when an accepted input (constmk) defined helper27
	{Name: "defconsthelper", Res: "const", Core: true, Src: "def late27: Int then 41\nconst KD27: Int = late27() + 1\nprintln(KD27)"}, // defines a method and a constant calling it
	{Name: "constnodef", Res: "const-without-def", Core: true, Src: "const KN27: Int = mk27() + 1\nprintln(KN27)"},                    // like constmk, but the input defines no method
	// instance variables: a class with an instance variable, then a reopening that adds an instance variable (no locals involved)
	{Name: "defiv", Res: "ivar", Core: true, Src: "class Iv27\n  var @x: Int\n  init(@x); end\n  def x: Int then @x\nend\nprintln(Iv27(1).x)"},
	{Name: "reopeniv", Res: "ivar", Core: true, Src: "class Iv27\n  var @a: String?\n  def seta(v: String): Int\n    @a = v\n    x()\n  end\nend\nprintln(Iv27(3).seta(\"A\"))"}, // rejected (after declaring Iv27 and @a) while Iv27#x is undefined
	// rejected after declaring something; they fail in different phases of the checker
	{Name: "badclass", Res: "class", Core: true, Src: "class Foo27\n  def k: Int then \"s\"\nend"},                                       // class declared/reopened; type error in a method body
	{Name: "badmeth", Res: "method", Src: `def m27(x: Int): String then x`},                                                              // method declared; type error in its body
	{Name: "badsig", Res: "method", Src: `def m27(x: Nope27): Int then 1`},                                                               // method declared; error in the signature phase
	{Name: "badconst", Res: "const", Src: "const K27 = 1\nb27 := K27 + \"s\""},                                                           // constant declared; type error in the expression phase
	{Name: "badlocal", Res: "local", Core: true, Src: "a := 1\na + \"s\""},                                                               // local declared (or assigned); then a type error
	{Name: "badhoist", Res: "method", Core: true, Src: "def helper27: Int then 41\nconst KB27: Int = helper27() + 1\nzz27 := 1 + \"s\""}, // top-level method and a constant calling it hoisted; type error in the expression phase
	{Name: "badsuper", Res: "class", Core: true, Src: "class Foo27 < Nope27\n  def k: Int then 9\nend"},                                  // class declared; error in the type-definition phase
	{Name: "raise", Res: "none", Core: true, Src: "println(\"side\")\nthrow unchecked :boom27", BatchAfter: `println("side")`},
	{Name: "pure", Res: "none", Src: `1 + 2`},
}

func byName(n string) int {
	for i, a := range alphabet {
		if a.Name == n {
			return i
		}
	}
	panic("no input named " + n)
}

// ---------------------------------------------------------------------------------------------
// the incremental session (mirror of repl.evaluator.evaluate)

type obs struct {
	Verdict string // "rejected" | "ok" | "raised" | "gopanic"
	Out     string // stdout printed while the input ran
	Val     string // inspect of the result value (verdict ok)
	Err     string // class and inspect of the uncaught error (verdict raised)
	Diags   string
	Panic   string
	Stack   string
}

func (o obs) String() string {
	if o.Verdict == "rejected" {
		return "rejected (" + firstLine(o.Diags) + ")"
	}
	return o.key()
}

// key is what the oracles compare.
func (o obs) key() string {
	switch o.Verdict {
	case "rejected":
		return "rejected"
	case "ok":
		return fmt.Sprintf("ok out=%q => %s", o.Out, o.Val)
	case "raised":
		return fmt.Sprintf("raised out=%q err=%s", o.Out, o.Err)
	}
	return "gopanic " + o.Panic
}

func firstLine(s string) string {
	s = strings.TrimSpace(s)
	if i := strings.IndexByte(s, '\n'); i >= 0 {
		s = s[:i]
	}
	return s
}

type session struct {
	chk  *checker.Checker
	th   *vm.Thread
	out  strings.Builder
	err  strings.Builder
	n    int
	dead bool
}

func newSession() *session {
	elkrun.ResetRuntime()
	s := &session{}
	s.chk = checker.New()
	s.chk.SetAdditionalAbortChecks(true)
	s.chk.SetIncremental(true)
	s.th = vm.New(vm.WithStdout(&s.out), vm.WithStderr(&s.err))
	return s
}

const deadMsg = "(session unusable after an earlier Go panic)"

func (s *session) eval(src string) (o obs) {
	if s.dead {
		return obs{Verdict: "gopanic", Panic: deadMsg}
	}
	name := fmt.Sprintf("<repl:%d>", s.n)
	s.n++
	s.out.Reset()
	s.err.Reset()
	defer func() {
		if p := recover(); p != nil {
			st := string(debug.Stack())
			o = obs{Verdict: "gopanic", Panic: engine.PanicSig(fmt.Sprint(p), st), Stack: st, Out: s.out.String()}
			s.dead = true // the real REPL process is gone at this point
		}
	}()
	fn, dl := s.chk.CheckSourceBytecode(name, src)
	if dl != nil {
		fail := dl.IsFailure()
		diags := dl.Error()
		s.chk.ClearErrors()
		if fail {
			return obs{Verdict: "rejected", Diags: diags}
		}
	}
	if fn == nil {
		return obs{Verdict: "rejected", Diags: "(no diagnostics, no bytecode)"}
	}
	val, rerr := s.th.InterpretREPL(fn)
	if !rerr.IsUndefined() {
		s.th.PrintError()
		s.th.ResetError()
		return obs{Verdict: "raised", Out: s.out.String(), Err: rerr.Class().Name + " " + noAddr(rerr.Inspect())}
	}
	return obs{Verdict: "ok", Out: s.out.String(), Val: noAddr(val.Inspect())}
}

var sessCache = map[string][]obs{}

func seqKey(seq []int) string {
	var b strings.Builder
	for _, i := range seq {
		fmt.Fprintf(&b, "%d,", i)
	}
	return b.String()
}

var nSessions, nBatches int

func runSession(seq []int) []obs {
	k := seqKey(seq)
	if r, ok := sessCache[k]; ok {
		return r
	}
	nSessions++
	s := newSession()
	res := make([]obs, len(seq))
	for i, a := range seq {
		res[i] = s.eval(alphabet[a].Src)
	}
	if len(sessCache) > 100000 {
		sessCache = map[string][]obs{}
	}
	sessCache[k] = res
	return res
}

// ---------------------------------------------------------------------------------------------
// batch runs

const marker = "@@#27#"

type batchRes struct {
	src string
	obs obs
}

var batchCache = map[string]batchRes{}

// batchOf builds the one-program equivalent of the accepted inputs acc (in order; raised[i] tells whether the i-th
// raised in the session) followed by the input last.
func batchOf(acc []int, raised []bool, last int) string {
	var b strings.Builder
	for i, a := range acc {
		fmt.Fprintf(&b, "println(%q)\n", marker)
		src := alphabet[a].Src
		if raised[i] && alphabet[a].BatchAfter != "" {
			src = alphabet[a].BatchAfter
		}
		b.WriteString(src)
		b.WriteString("\n")
	}
	fmt.Fprintf(&b, "println(%q)\n", marker)
	b.WriteString(alphabet[last].Src)
	b.WriteString("\n")
	return b.String()
}

func runBatch(src string) batchRes {
	if r, ok := batchCache[src]; ok {
		return r
	}
	nBatches++
	elkrun.ResetRuntime()
	res := elkrun.Run(src, &elkrun.Options{Name: "batch27.elk"})
	var o obs
	out := res.Stdout
	if i := strings.LastIndex(out, marker+"\n"); i >= 0 {
		out = out[i+len(marker)+1:]
	}
	switch {
	case res.Panic != "":
		o = obs{Verdict: "gopanic", Panic: res.PanicSig, Stack: res.Stack}
	case res.Rejected:
		o = obs{Verdict: "rejected", Diags: res.Diags}
	case res.Err != "":
		o = obs{Verdict: "raised", Out: out, Err: res.ErrClass + " " + noAddr(res.Err)}
	default:
		o = obs{Verdict: "ok", Out: out, Val: noAddr(res.Value)}
	}
	br := batchRes{src: src, obs: o}
	if len(batchCache) > 100000 {
		batchCache = map[string]batchRes{}
	}
	batchCache[src] = br
	return br
}

// ---------------------------------------------------------------------------------------------
// oracles

func names(seq []int) string {
	var l []string
	for _, i := range seq {
		l = append(l, alphabet[i].Name)
	}
	return strings.Join(l, " ; ")
}

func render(seq []int, res []obs) string {
	var b strings.Builder
	for i, a := range seq {
		fmt.Fprintf(&b, "elk> %s\n     -> %s\n", strings.ReplaceAll(alphabet[a].Src, "\n", "\n...> "), res[i])
	}
	return b.String()
}

var addrRe = regexp.MustCompile(`&: 0x[0-9a-f]+`)

// noAddr removes heap addresses from inspect texts.
func noAddr(s string) string { return addrRe.ReplaceAllString(s, "&: 0x…") }

var diagLoc = regexp.MustCompile(`^[^ ]*:\d+:\d+: `)
var backq = regexp.MustCompile("`[^`]*`")

// diagClass abstracts the first diagnostic to its shape (locations and quoted names removed).
func diagClass(d string) string {
	d = firstLine(d)
	d = diagLoc.ReplaceAllString(d, "")
	d = backq.ReplaceAllString(d, "`…`")
	if len(d) > 60 {
		d = d[:60]
	}
	return d
}

// diffShape describes how two observations of the same input differ, without operand values.
func diffShape(got, want obs) string {
	if got.Verdict != want.Verdict {
		return got.Verdict + " instead of " + want.Verdict
	}
	switch {
	case got.Out != want.Out:
		return "different output"
	case got.Verdict == "raised":
		return "different error"
	}
	return "different value"
}

func without(seq []int, drop map[int]bool) (red []int, pos []int) {
	for i, a := range seq {
		if !drop[i] {
			red = append(red, a)
			pos = append(pos, i)
		}
	}
	return
}

// firstDiff compares the session res (over seq) with the session over seq minus the positions in drop.
// It returns the position (in seq) of the first input observed differently, or -1.
func firstDiff(seq []int, res []obs, drop map[int]bool) (int, []int, []obs) {
	red, pos := without(seq, drop)
	rres := runSession(red)
	for j := range red {
		if res[pos[j]].key() != rres[j].key() {
			return pos[j], red, rres
		}
	}
	return -1, red, rres
}

func obsAt(red []int, pos0 int, seq []int, drop map[int]bool, rres []obs) obs {
	_, pos := without(seq, drop)
	for j, p := range pos {
		if p == pos0 {
			return rres[j]
		}
	}
	return obs{}
}

func checkSession(r *engine.R, seq []int) {
	res := runSession(seq)
	r.Eval(1)
	nRej, nAcc := 0, 0
	var cls []string
	rejected := map[int]bool{}
	for i, o := range res {
		cls = append(cls, o.Verdict)
		if o.Verdict == "rejected" {
			nRej++
			rejected[i] = true
		} else {
			nAcc++
		}
	}
	r.Outcome(strings.Join(cls, ","))
	if nRej > 0 && nAcc > 0 {
		r.NT(1) // a history mixing rejected and accepted inputs
	}
	input := map[string]any{"inputs": srcs(seq), "names": names(seq)}

	// (ii) rejected inputs leave no trace
	limit := len(seq) // (i) is evaluated on positions < limit
	if nRej > 0 {
		r.Count("trace_comparisons", 1)
		d, red, rres := firstDiff(seq, res, rejected)
		if d >= 0 {
			limit = d
			// blame: the first rejected input before d that, kept as the only rejected input, still changes what a
			// later input does (this also yields a smaller history to report)
			rseq, rres0 := seq, res
			rname, rdiag := "(several together)", ""
			dd := d
			for ri := 0; ri < d; ri++ {
				if !rejected[ri] {
					continue
				}
				others := map[int]bool{}
				for k := range rejected {
					if k != ri {
						others[k] = true
					}
				}
				seqK, posK := without(seq, others)
				resK := runSession(seqK)
				riK := -1
				for j, p := range posK {
					if p == ri {
						riK = j
					}
				}
				if riK < 0 || resK[riK].Verdict != "rejected" {
					continue
				}
				if d1, red1, rres1 := firstDiff(seqK, resK, map[int]bool{riK: true}); d1 >= 0 {
					rname, rdiag = alphabet[seq[ri]].Name, "["+diagClass(resK[riK].Diags)+"]"
					rseq, rres0, red, rres, dd = seqK, resK, red1, rres1, d1
					rejected = map[int]bool{riK: true}
					break
				}
			}
			want := obsAt(red, dd, rseq, rejected, rres)
			sig := fmt.Sprintf("rejected input leaves a trace: rejected=%s%s damages=%s", rname, rdiag, alphabet[rseq[dd]].Res)
			r.Violation(sig, fmt.Sprintf("history: %s\nreduced to: %s\n%sinput %s was rejected, yet without it the session is\n%sinput %d (%s) gives  %s  with the rejected input and  %s  without it (%s)\n%s",
				names(seq), names(rseq), render(rseq, rres0), rname, render(red, rres), dd, alphabet[rseq[dd]].Name, rres0[dd], want, diffShape(rres0[dd], want), rres0[dd].Stack), input)
		} else {
			// (ii-b) verdicts too: without its FIRST rejected input the session must observe the same for every other
			// input, the other rejected ones included (an input wrongly rejected because of an earlier rejected input
			// is invisible to the comparison above, which drops it as well)
			first := -1
			for i := range seq {
				if rejected[i] {
					first = i
					break
				}
			}
			one := map[int]bool{first: true}
			r.Count("trace_comparisons", 1)
			if d1, red1, rres1 := firstDiff(seq, res, one); d1 >= 0 {
				limit = d1
				want := obsAt(red1, d1, seq, one, rres1)
				sig := fmt.Sprintf("rejected input leaves a trace: rejected=%s[%s] damages=%s", alphabet[seq[first]].Name, diagClass(res[first].Diags), alphabet[seq[d1]].Res)
				r.Violation(sig, fmt.Sprintf("history: %s\n%sinput %d (%s) was rejected, yet without it the session is\n%sinput %d (%s) gives  %s  with the rejected input and  %s  without it (%s)\n%s",
					names(seq), render(seq, res), first, alphabet[seq[first]].Name, render(red1, rres1), d1, alphabet[seq[d1]].Name, res[d1], want, diffShape(res[d1], want), res[d1].Stack), input)
			}
		}
	}

	// (i) batch oracle
	var acc []int
	var raised []bool
	for i, a := range seq {
		if i >= limit {
			break
		}
		o := res[i]
		if o.Verdict == "rejected" {
			continue
		}
		br := runBatch(batchOf(acc, raised, a))
		r.Count("batch_comparisons", 1)
		if o.Verdict == "gopanic" && br.obs.Verdict == "gopanic" {
			// both pipelines crash on this text: not a REPL-specific defect (C03's business)
			r.Count("gopanic_in_both_pipelines", 1)
			break
		}
		if br.obs.key() != o.key() {
			var same []int // accepted predecessors touching the same kind of state
			for _, p := range acc {
				if alphabet[p].Res == alphabet[a].Res && !alphabet[p].Obs && !contains(same, p) {
					same = append(same, p)
				}
			}
			sort.Ints(same) // a set: the order of the predecessors is not part of the defect
			sig := fmt.Sprintf("session differs from batch: input=%s after=%s (%s)", alphabet[a].Name, accNames(same), diffShape(o, br.obs))
			r.Violation(sig, fmt.Sprintf("history: %s\n%sinput %d (%s): the session gave  %s\nbut the batch program of all accepted inputs gives  %s\nbatch program:\n%s%s",
				names(seq), render(seq, res), i, alphabet[a].Name, o, br.obs, br.src, o.Stack), input)
			break // later differences may be consequences
		}
		if o.Verdict == "gopanic" {
			break
		}
		acc = append(acc, a)
		raised = append(raised, o.Verdict == "raised")
	}
}

func contains(l []int, x int) bool {
	for _, y := range l {
		if y == x {
			return true
		}
	}
	return false
}

func accNames(acc []int) string {
	if len(acc) == 0 {
		return "()"
	}
	var l []string
	for _, a := range acc {
		l = append(l, alphabet[a].Name)
	}
	return strings.Join(l, "+")
}

func srcs(seq []int) []string {
	var l []string
	for _, i := range seq {
		l = append(l, alphabet[i].Src)
	}
	return l
}

// ---------------------------------------------------------------------------------------------

func main() {
	if f := os.Getenv("C27_DEBUG"); f != "" {
		debugSession(f)
		return
	}
	nCore := 0
	for _, a := range alphabet {
		if a.Core {
			nCore++
		}
	}
	engine.Main(&engine.Spec{
		Prop:  "C27",
		Level: "exploration",
		Rule: fmt.Sprintf("quick: every sequence of exactly 3 inputs over a core alphabet of %[2]d REPL inputs (shorter histories are their prefixes); thorough: every sequence of exactly 3 inputs over the full alphabet of %[1]d inputs and every sequence of exactly 4 inputs over the core alphabet without redefmeth, raise and the method-calling-constant inputs (%[3]d inputs). "+
			"Alphabet: define/use/retype a local; define a method and a caller of it, call it through the caller, redefine it (same signature; new return type); define/reopen/use a class; define a constant; constants whose initialiser calls a top-level method (defined by the same, an earlier accepted, or only a rejected input; with and without a def in the input); a class with an instance variable, reopened with a new instance variable; "+
			"seven inputs rejected after declaring a class/method/constant/local (failing in the type-definition, signature, method-body and expression phases); a run-time error after a side effect; a pure expression. "+
			"Driven through the incremental checker + persistent VM thread exactly as repl.evaluate does; oracle (ii) the session without its rejected inputs observes the same, (i) each accepted input vs. a fresh batch run of all accepted inputs so far; "+
			"a history is non-trivial when it mixes rejected and accepted inputs", len(alphabet), nCore, nCore-len(notInH4)),
		Assume: []string{"the session mirrors repl.evaluator.evaluate through the exported API it calls (checker.New, SetAdditionalAbortChecks, SetIncremental, CheckSourceBytecode, ClearErrors, vm.New, InterpretREPL, PrintError, ResetError)",
			"method bodies compiled one at a time (MethodCheckConcurrencyLimit=1)",
			"an input that raised at run time is represented in later batch programs by the statements it executed before the throw (it declares nothing)"},
		CaseTimeout:      5 * time.Minute,
		QuickDeadline:    12 * time.Minute,
		ThoroughDeadline: 45 * time.Minute,
		Setup:            func(c *engine.Ctx) { elkrun.Init() },
		Run:              run,
	})
}

// notInH4: core inputs left out of the length-4 histories so that the thorough tier fits its budget on a loaded
// machine (both are covered by every length-3 history over the full alphabet).
var notInH4 = map[string]bool{"redefmeth": true, "raise": true, "constmk": true, "consthelper": true, "defconsthelper": true, "constnodef": true, "badhoist": true}

func enumerate(c *engine.Ctx, tag string, alpha []int, n int) {
	prefix := make([]int, n-1)
	var rec func(d int)
	rec = func(d int) {
		if d == n-1 {
			p := append([]int(nil), prefix...)
			c.Case(tag+"/"+strings.ReplaceAll(names(p), " ; ", "/"), func(r *engine.R) {
				for _, x := range alpha {
					seq := append(append([]int(nil), p...), x)
					checkSession(r, seq)
				}
				r.Sample(names(append(append([]int(nil), p...), alpha[len(alpha)-1])))
				r.Count("sessions_run", nSessions)
				r.Count("batch_programs_run", nBatches)
				nSessions, nBatches = 0, 0
			})
			return
		}
		for _, x := range alpha {
			prefix[d] = x
			rec(d + 1)
		}
	}
	rec(0)
}

func run(c *engine.Ctx) {
	var all, core []int
	for i, a := range alphabet {
		all = append(all, i)
		if a.Core {
			core = append(core, i)
		}
	}
	if !c.Thorough {
		enumerate(c, "h3", core, 3)
		return
	}
	enumerate(c, "h3", all, 3)
	var core4 []int
	for _, i := range core {
		if !notInH4[alphabet[i].Name] {
			core4 = append(core4, i)
		}
	}
	enumerate(c, "h4", core4, 4)
}

// debugSession: C27_DEBUG=<file> runs the inputs of the file (separated by lines "---") as one REPL session and prints
// what happened (with C27_BATCH=1 the file is run as one batch program instead); C27_DEBUG=name,name,… runs the named
// alphabet inputs as a session.
func debugSession(arg string) {
	elkrun.Init()
	var inputs []string
	if b, err := os.ReadFile(arg); err == nil {
		if os.Getenv("C27_BATCH") != "" {
			src := strings.ReplaceAll(string(b), "\n---\n", "\n")
			res := elkrun.Run(src, nil)
			fmt.Printf("%s\n%s\n", res.Outcome(), res.Diags)
			return
		}
		inputs = strings.Split(string(b), "\n---\n")
	} else {
		for _, n := range strings.Split(arg, ",") {
			inputs = append(inputs, alphabet[byName(n)].Src)
		}
	}
	if os.Getenv("C27_CHECK") != "" { // run the oracles on the named history
		var seq []int
		for _, n := range strings.Split(arg, ",") {
			seq = append(seq, byName(n))
		}
		r := &engine.R{}
		checkSession(r, seq)
		for _, v := range r.Viol {
			fmt.Printf("VIOLATION %s\n%s\n", v.Sig, v.Detail)
		}
		fmt.Printf("%d violation(s)\n", len(r.Viol))
		return
	}
	s := newSession()
	for i, in := range inputs {
		in = strings.TrimSpace(in)
		o := s.eval(in)
		fmt.Printf("[%d] %s\n    %s\n", i, strings.ReplaceAll(in, "\n", "\n    | "), o)
		if o.Verdict == "rejected" {
			fmt.Printf("    diags: %s\n", strings.ReplaceAll(strings.TrimSpace(o.Diags), "\n", "\n      "))
		}
		if o.Verdict == "gopanic" && o.Stack != "" {
			fmt.Println(o.Stack)
		}
	}
}
