package main

// A batch runner that locates rejected items through the line numbers of the diagnostics and panicking items through
// the last marker printed, instead of bisecting (falls back to elkrun.Batch's bisection when that is not possible).

import (
	"fmt"
	"regexp"
	"strconv"
	"strings"
	"time"

	"verifharness/elkrun"
)

const bmarker = "@@#"

var diagLineRe = regexp.MustCompile(`(?m)^p\.elk:(\d+):\d+:`)

func smartBatch(prelude string, items []elkrun.Item) []elkrun.ItemResult {
	res := make([]elkrun.ItemResult, len(items))
	alive := make([]int, len(items))
	for i := range items {
		alive[i] = i
	}
	for round := 0; len(alive) > 0; round++ {
		var b strings.Builder
		b.WriteString(prelude)
		b.WriteString("\n")
		line := strings.Count(b.String(), "\n") + 1
		first := make([]int, len(alive)) // first line of each alive item
		for k, idx := range alive {
			first[k] = line
			code := fmt.Sprintf("println(\"%s%d\")\n%s\n", bmarker, idx, items[idx].Code)
			b.WriteString(code)
			line += strings.Count(code, "\n")
		}
		tc := time.Now()
		fn, r := elkrun.Compile(b.String(), nil)
		dc := time.Since(tc)
		if fn != nil {
			te := time.Now()
			r = elkrun.Exec(fn, nil)
			dbg("COMPILE %v EXEC %v items=%d bytes=%d", dc, time.Since(te), len(alive), b.Len())
		}
		itemOfLine := func(l int) int {
			if l < first[0] {
				return -1
			}
			k := len(alive) - 1
			for i := range alive {
				if i+1 < len(alive) && l < first[i+1] {
					k = i
					break
				}
			}
			return k
		}
		switch {
		case r.Rejected:
			bad := map[int][]string{}
			prelErr := false
			for _, dl := range strings.Split(r.Diags, "\n") {
				m := diagLineRe.FindStringSubmatch(dl)
				if m == nil {
					continue
				}
				l, _ := strconv.Atoi(m[1])
				k := itemOfLine(l)
				if k < 0 {
					prelErr = true
					continue
				}
				bad[k] = append(bad[k], dl)
			}
			if len(bad) == 0 || prelErr {
				return fallback(prelude, items, alive, res)
			}
			var rest []int
			for k, idx := range alive {
				if d, ok := bad[k]; ok {
					res[idx].Rejected = true
					res[idx].Diags = strings.Join(d, "\n")
				} else {
					rest = append(rest, idx)
				}
			}
			alive = rest
		case r.Panic != "" || r.Err != "":
			// the item that was running is the last one whose marker was printed
			last := -1
			for _, l := range strings.Split(r.Stdout, "\n") {
				if strings.HasPrefix(l, bmarker) {
					if n, err := strconv.Atoi(strings.TrimSpace(l[len(bmarker):])); err == nil {
						last = n
					}
				}
			}
			if last < 0 {
				return fallback(prelude, items, alive, res)
			}
			outs := splitOut(r.Stdout)
			var rest []int
			seen := false
			for _, idx := range alive {
				switch {
				case idx == last:
					seen = true
					res[idx].Out = outs[idx]
					res[idx].Err, res[idx].ErrClass = r.Err, r.ErrClass
					res[idx].Panic, res[idx].Stack = r.PanicSig, r.Stack
					if r.Panic != "" && r.PanicSig == "" {
						res[idx].Panic = r.Panic
					}
				case !seen:
					res[idx].Out = outs[idx] // completed before the failure
				default:
					rest = append(rest, idx)
				}
			}
			if !seen {
				return fallback(prelude, items, alive, res)
			}
			alive = rest
			if len(alive) > 0 {
				elkrun.ResetRuntime()
			}
		default:
			outs := splitOut(r.Stdout)
			for _, idx := range alive {
				res[idx].Out = outs[idx]
			}
			alive = nil
		}
		if len(alive) > 0 && r.Rejected {
			elkrun.ResetRuntime()
		}
	}
	return res
}

func fallback(prelude string, items []elkrun.Item, alive []int, res []elkrun.ItemResult) []elkrun.ItemResult {
	sub := make([]elkrun.Item, len(alive))
	for k, idx := range alive {
		sub[k] = items[idx]
	}
	elkrun.ResetRuntime()
	for k, r := range elkrun.Batch(prelude, sub, nil) {
		res[alive[k]] = r
	}
	return res
}

func splitOut(out string) map[int]string {
	m := map[int]string{}
	cur := -1
	for _, line := range strings.SplitAfter(out, "\n") {
		if strings.HasPrefix(line, bmarker) {
			if n, err := strconv.Atoi(strings.TrimSpace(line[len(bmarker):])); err == nil {
				cur = n
				continue
			}
		}
		if cur >= 0 {
			m[cur] += line
		}
	}
	return m
}
