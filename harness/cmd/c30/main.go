// C30 — pattern matching selects the first matching case and binds correctly.
//
// Bounded-exhaustive: every pattern of depth ≤ 2 (thorough: depth-3 spines) over the pattern forms of the grammar ×
// 45 scrutinee values of all built-in kinds, in `switch` (1–3 cases, with else / catch-all / behind never-matching
// cases), `if v match P`, `v match P`, `var P = v`, `val P = v`, under the static type `any` and under 16 precise static
// types. Oracle: a reference matcher (model.go) whose rules are taken form by form from the compiler's pattern
// compilation, the checker and the doc comments of the runtime; forms whose meaning is not stated are UNSPECIFIED and
// only checked differentially (alone vs. behind a never-matching case).
package main

import (
	"fmt"
	"os"
	"regexp"
	"strconv"
	"strings"
	"time"

	"verifharness/elkrun"
	"verifharness/engine"
)

const basePrelude = `
def sh(v: any): ::Std::String
  if v <: ::Std::Value
    return v.inspect
  end
  "?"
end
class Foo
  attr a: Int, b: any
  init(@a: Int, @b: any); end
  def inspect: ::Std::String then "Foo(" + @a.inspect + ", " + sh(@b) + ")"
end
class Bar < Foo
  def inspect: ::Std::String then "Bar(" + self.a.inspect + ", " + sh(self.b) + ")"
end
`

var uni = universe()
var tys = typings()

// context: the syntactic form in which the patterns are used
type ctxKind int

const (
	cSwitchElse     ctxKind = iota // switch … else "0"
	cSwitchCatchAll                // switch … case zz then "<n+1>|zz"
	cSwitchNoElse                  // r := switch … end ; nil when nothing matches
	cMatchIf                       // if v match P
	cMatchExpr                     // b := v match P   (patterns without variables)
	cVarDecl                       // var P = v
	cValDecl                       // val P = v
)

var ctxName = map[ctxKind]string{cSwitchElse: "switch", cSwitchCatchAll: "switch+catchall", cSwitchNoElse: "switch-noelse", cMatchIf: "if-match", cMatchExpr: "match-expr", cVarDecl: "var-decl", cValDecl: "val-decl"}

// job: one piece of matching code (a method) applied to a set of values
type job struct {
	ctx   ctxKind
	cases []*Pat // renamed
	ty    typing
	top   bool // top-level code instead of a method (compile panics stay recoverable)
	vals  []int
	id    string // shape/group id for reporting
	aux   bool   // only recorded as the differential base (already judged elsewhere)
}

func valHelper(i int, ty typing) (name, def string) {
	if ty.name == "any" {
		name = fmt.Sprintf("v%d", i)
		return name, fmt.Sprintf("def %s: any then %s\n", name, uni[i].elk())
	}
	name = fmt.Sprintf("v%d_%s", i, sanit(ty.name))
	inner := ty.elk
	if ty.ctor != nil {
		inner = ty.ctor(uni[i])
	}
	return name, fmt.Sprintf("def %s: %s\n  var l: %s = %s\n  l\nend\n", name, ty.elk, inner, uni[i].elk())
}

var sanitRe = regexp.MustCompile(`[^A-Za-z0-9]+`)

func sanit(s string) string { return strings.ToLower(sanitRe.ReplaceAllString(s, "_")) }

func caseBody(n int, p *Pat) string {
	s := fmt.Sprintf("\"%d\"", n)
	for _, b := range p.binders() {
		s += " + \"|\" + sh(" + b + ")"
	}
	return s
}

// body renders the matching code over the variable v, yielding a String
func (j *job) body(ind string) string {
	var b strings.Builder
	w := func(f string, a ...any) { b.WriteString(ind); fmt.Fprintf(&b, f, a...); b.WriteString("\n") }
	switch j.ctx {
	case cSwitchElse, cSwitchCatchAll:
		w("switch v")
		for i, p := range j.cases {
			w("case %s then %s", p.elk(), caseBody(i+1, p))
		}
		if j.ctx == cSwitchCatchAll {
			w("case zz then \"%d|\" + sh(zz)", len(j.cases)+1)
		}
		w("else \"0\"")
		w("end")
	case cSwitchNoElse:
		w("r := switch v")
		for i, p := range j.cases {
			w("case %s then %s", p.elk(), caseBody(i+1, p))
		}
		w("end")
		w("sh(r)")
	case cMatchIf:
		w("if v match %s", j.cases[0].elk())
		w("  %s", caseBody(1, j.cases[0]))
		w("else")
		w("  \"0\"")
		w("end")
	case cMatchExpr:
		w("mb := v match %s", j.cases[0].elk())
		w("if mb then \"1\" else \"0\"")
	case cVarDecl, cValDecl:
		kw := "var"
		if j.ctx == cValDecl {
			kw = "val"
		}
		w("do")
		w("  %s %s = v", kw, j.cases[0].elk())
		w("  %s", caseBody(1, j.cases[0]))
		w("catch pe")
		w("  \"E\" + sh(pe)")
		w("end")
	}
	return b.String()
}

// code renders the job as one batch item with the given unique number; the needed value helpers are returned.
func (j *job) code(n int) (src string, helpers map[string]string) {
	helpers = map[string]string{}
	var b strings.Builder
	if !j.top {
		fmt.Fprintf(&b, "def m%d(v: %s): ::Std::String\n%send\n", n, j.ty.elk, j.body("  "))
	}
	var names []string
	for _, vi := range j.vals {
		name, def := valHelper(vi, j.ty)
		helpers[name] = def
		names = append(names, name+"()")
	}
	arg := ""
	if len(names) > 3 {
		// all values of the typing: iterate over a list built once by a helper
		ln := "vals_" + sanit(j.ty.name)
		helpers["~"+ln] = fmt.Sprintf("def %s: ::Std::ArrayList[%s]\n  var l: ::Std::ArrayList[%s] = [%s]\n  l\nend\n", ln, j.ty.elk, j.ty.elk, strings.Join(names, ", "))
		fmt.Fprintf(&b, "for x%d in %s()\n", n, ln)
		arg = fmt.Sprintf("x%d", n)
		names = []string{arg}
	}
	for _, name := range names {
		if j.top {
			fmt.Fprintf(&b, "do\n  var v: %s = %s\n  rr := do\n%s  end\n  println(rr)\ncatch e\n  println(\"!\" + sh(e))\nend\n", j.ty.elk, name, j.body("    "))
		} else {
			fmt.Fprintf(&b, "do\n  println(m%d(%s))\ncatch e\n  println(\"!\" + sh(e))\nend\n", n, name)
		}
	}
	if arg != "" {
		b.WriteString("end\n")
	}
	return b.String(), helpers
}

func (j *job) describe(vi int) string {
	_, def := valHelper(vi, j.ty)
	saved := j.vals
	j.vals = []int{vi}
	src, _ := j.code(0)
	j.vals = saved
	return def + src
}

// expectOf computes the expectation of a job on a value
func (j *job) expectOf(v *Val) (expectation, bool) {
	cases := j.cases
	if j.ctx == cSwitchCatchAll {
		cases = append(append([]*Pat(nil), cases...), &Pat{F: fBind, Name: "zz", Rest: -1})
	}
	return expect(cases, v)
}

// observation of one run
type obs struct {
	raw    string
	raised string // error class when an Elk error escaped the matching code
	sel    int
	binds  []string
	bad    bool // unparsable
}

var capRe = regexp.MustCompile(`\]:\d+`)
var errClassRe = regexp.MustCompile(`^!([A-Za-z_:]+)`)

func parseObs(line string, ctx ctxKind) obs {
	o := obs{raw: line}
	if strings.HasPrefix(line, "!") {
		o.raised = "error"
		if m := errClassRe.FindStringSubmatch(line); m != nil {
			o.raised = m[1]
		}
		return o
	}
	if strings.HasPrefix(line, "EStd::PatternNotMatchedError{") {
		return o // the declaration did not match
	}
	if strings.HasPrefix(line, "E") {
		o.raised = "error"
		if m := errClassRe.FindStringSubmatch("!" + line[1:]); m != nil {
			o.raised = m[1]
		}
		return o
	}
	if ctx == cSwitchNoElse {
		if line == "nil" {
			return o
		}
		// sh(r) of a String result: inspect quotes it
		uq, err := strconv.Unquote(line)
		if err != nil {
			o.bad = true
			return o
		}
		line = uq
	}
	parts := strings.Split(line, "|")
	n, err := strconv.Atoi(parts[0])
	if err != nil {
		o.bad = true
		return o
	}
	o.sel = n
	o.binds = parts[1:]
	for i := range o.binds {
		// an ArrayList with spare capacity inspects as `[1, 2]:2`
		o.binds[i] = capRe.ReplaceAllString(o.binds[i], "]")
	}
	return o
}

const kindUnset = "variable declared in an alternative (p || q) that was not taken is not nil (internal `undefined` or a stale value of the frame slot)"

// judge compares an observation with the expectation; "" = agrees. culprit = index (0-based) of the case held responsible.
func judge(x expectation, o obs, ncases int) (kind string, culprit int, detail string) {
	culprit = 0
	if x.sel > 0 {
		culprit = x.sel - 1
	}
	switch {
	case o.raised != "":
		return "raises " + o.raised, culprit, "an error escaped the matching code: " + o.raw
	case o.bad:
		return "unparsable-output", culprit, "output: " + o.raw
	}
	if o.sel != x.sel {
		c := o.sel
		if x.sel != 0 && (o.sel == 0 || x.sel < o.sel) {
			c = x.sel
		}
		k := "wrong-case: matched but must not"
		if c == x.sel {
			k = "wrong-case: did not match but must"
		}
		return k, c - 1, fmt.Sprintf("selected %s, expected %s", selName(o.sel), x.String())
	}
	if x.sel == 0 {
		return "", 0, ""
	}
	if len(o.binds) != len(x.binds) {
		return "unparsable-output", culprit, "output: " + o.raw
	}
	for i, b := range x.binds {
		if b.accepts(o.binds[i]) {
			continue
		}
		k := "wrong-binding"
		switch {
		case b.unset:
			k = kindUnset
		case o.binds[i] == "undefined":
			k = "variable bound to the internal `undefined`"
		}
		return k, culprit, fmt.Sprintf("case %d selected (as expected) but %s = %s, expected %s", x.sel, x.names[i], o.binds[i], b.String())
	}
	return "", 0, ""
}

func selName(n int) string {
	if n == 0 {
		return "no case"
	}
	return fmt.Sprintf("case %d", n)
}

// ---------------------------------------------------------------------------------------------------------------
// running jobs

type jobResult struct {
	lines    []string // one per value; nil when the job could not be observed
	rejected bool
	diags    string
	panicSig string
	stack    string
	err      string
}

func preludeFor(helpers map[string]string) string {
	var names []string
	for n := range helpers {
		names = append(names, n)
	}
	sortStrings(names)
	var b strings.Builder
	b.WriteString(basePrelude)
	for _, n := range names {
		b.WriteString(helpers[n])
	}
	return b.String()
}

func sortStrings(a []string) {
	for i := 1; i < len(a); i++ {
		for j := i; j > 0 && a[j] < a[j-1]; j-- {
			a[j], a[j-1] = a[j-1], a[j]
		}
	}
}

// runJobs runs the jobs as one batch (bisected on failure).
func runJobs(jobs []*job) []jobResult {
	helpers := map[string]string{}
	items := make([]elkrun.Item, len(jobs))
	for i, j := range jobs {
		src, h := j.code(i)
		for k, v := range h {
			helpers[k] = v
		}
		items[i] = elkrun.Item{Code: src}
	}
	tr := time.Now()
	elkrun.ResetRuntime()
	dbg("RESET %v", time.Since(tr))
	t0 := time.Now()
	res := smartBatch(preludeFor(helpers), items)
	dbg("BATCH %d jobs %v", len(jobs), time.Since(t0))
	out := make([]jobResult, len(jobs))
	for i, ir := range res {
		r := jobResult{rejected: ir.Rejected, diags: ir.Diags, panicSig: ir.Panic, stack: ir.Stack, err: ir.Err}
		if !ir.Rejected && ir.Panic == "" && ir.Err == "" {
			r.lines = strings.Split(strings.TrimRight(ir.Out, "\n"), "\n")
			if ir.Out == "" {
				r.lines = nil
			}
		}
		out[i] = r
	}
	return out
}

// runOne runs a job on a single value on its own.
func runOne(j *job, vi int) (obs, jobResult) {
	jj := *j
	jj.vals = []int{vi}
	r := runJobs([]*job{&jj})[0]
	if len(r.lines) == 1 {
		return parseObs(r.lines[0], j.ctx), r
	}
	return obs{bad: true}, r
}

// ---------------------------------------------------------------------------------------------------------------
// signatures: shrink the culprit pattern alone, name the defect by the shape of the minimal pattern

var sigMemo = map[string]string{}

// smaller enumerates one-step simplifications of a pattern
func smaller(p *Pat) []*Pat {
	var out []*Pat
	// hoist a child
	for _, s := range p.Sub {
		if s != nil && p.F != fSet {
			out = append(out, s.clone())
		}
	}
	// remove an element / attribute
	switch p.F {
	case fList, fTuple, fSet, fMap, fRec, fObj:
		for i := range p.Sub {
			c := p.clone()
			c.Sub = append(c.Sub[:i:i], c.Sub[i+1:]...)
			if len(c.Keys) > 0 {
				c.Keys = append(c.Keys[:i:i], c.Keys[i+1:]...)
			}
			if (p.F == fList || p.F == fTuple) && p.Rest > i {
				c.Rest--
			}
			out = append(out, c)
		}
		if (p.F == fList || p.F == fTuple) && p.Rest >= 0 {
			c := p.clone()
			c.Rest, c.RestName = -1, ""
			out = append(out, c)
			if p.RestName != "" {
				c2 := p.clone()
				c2.RestName = ""
				out = append(out, c2)
			}
		}
	}
	// replace a child by a wildcard, or simplify inside a child
	if p.F != fSet {
		for i, s := range p.Sub {
			if s == nil {
				continue
			}
			if s.F != fWild {
				c := p.clone()
				c.Sub[i] = pWild()
				out = append(out, c)
			}
			for _, sm := range smaller(s) {
				c := p.clone()
				c.Sub[i] = sm
				out = append(out, c)
			}
		}
	}
	return out
}

func size(p *Pat) int {
	if p == nil {
		return 1
	}
	n := 2
	if p.F == fWild {
		n = 1
	}
	for _, s := range p.Sub {
		n += size(s)
	}
	if p.Rest >= 0 {
		n++
	}
	if p.RestName != "" {
		n++
	}
	return n
}

// violationOf evaluates a single-case job on one value and returns the violation kind ("" = none / unspecified)
func violationOf(j *job, vi int) (string, string) {
	x, ok := j.expectOf(uni[vi])
	if !ok {
		return "", ""
	}
	o, r := runOne(j, vi)
	switch {
	case r.rejected:
		return "", ""
	case r.panicSig != "":
		return "go-panic " + normPanic(r.panicSig), r.stack
	case r.err != "":
		return "raises-outside " + r.err, ""
	}
	k, _, d := judge(x, o, len(j.cases))
	return k, d
}

// signature names the defect behind a violation of `kind` observed for the culprit case of job j on value vi.
func signature(j *job, culprit int, vi int, kind string) string {
	if kind == kindUnset {
		return kind // one defect whatever the surrounding pattern: the observed stale value depends on the frame layout
	}
	if strings.HasPrefix(kind, "go-panic") && (strings.Contains(kind, "@ compiler.") || strings.Contains(kind, "@ checker.") || strings.Contains(kind, "@ ast.")) {
		return "front-end " + kind // the panic site in the compiler / checker names the defect
	}
	if strings.Contains(kind, "receiver of another class") {
		// a method call emitted for a nested pattern (getter, length, contains) was bound statically against the class of
		// the enclosing value: one defect whatever parent and child forms are
		return kind + " [nested pattern under a precisely typed scrutinee]"
	}
	p := j.cases[culprit]
	multi := len(j.cases) > 1 || j.ctx == cSwitchCatchAll
	key := fmt.Sprintf("%s\x00%s\x00%s\x00%v\x00%s", kind, ctxName[j.ctx], j.ty.name, multi, p.skel())
	if multi && culprit > 0 {
		key += "\x00" + j.cases[culprit-1].skel()
	}
	if s, ok := sigMemo[key]; ok {
		return s
	}
	ctx := j.ctx
	if multi {
		ctx = cSwitchElse
	}
	single := &job{ctx: ctx, cases: []*Pat{p.rename()}, ty: j.ty, top: j.top}
	if multi {
		if k, _ := violationOf(single, vi); k != kind {
			// the pattern behaves alone: the defect is in the interplay of the cases
			prev := "-"
			if culprit > 0 {
				prev = j.cases[culprit-1].sigShape()
			}
			s := fmt.Sprintf("%s [interplay: the pattern is correct alone but wrong as case %d after a case of shape %s; ctx=%s]", kind, culprit+1, prev, ctxName[j.ctx])
			sigMemo[key] = s
			return s
		}
	}
	// shrink: pattern, then typing, then context
	cur := single
	for changed := true; changed; {
		changed = false
		for _, sm := range smaller(cur.cases[0]) {
			if size(sm) >= size(cur.cases[0]) {
				continue
			}
			cand := &job{ctx: cur.ctx, cases: []*Pat{sm.rename()}, ty: cur.ty, top: cur.top}
			if k, _ := violationOf(cand, vi); k == kind {
				cur = cand
				changed = true
				break
			}
		}
	}
	if cur.ty.name != "any" {
		cand := &job{ctx: cur.ctx, cases: cur.cases, ty: anyTyping, top: cur.top}
		if k, _ := violationOf(cand, vi); k == kind {
			cur = cand
		}
	}
	if cur.ctx != cSwitchElse {
		cand := &job{ctx: cSwitchElse, cases: cur.cases, ty: cur.ty, top: cur.top}
		if k, _ := violationOf(cand, vi); k == kind {
			cur = cand
		}
	}
	tyc := "any"
	if cur.ty.name != "any" {
		tyc = "a precise static type"
	}
	s := fmt.Sprintf("%s [minimal pattern shape %s; scrutinee typed %s; ctx=%s]", kind, cur.cases[0].sigShape(), tyc, ctxName[cur.ctx])
	sigMemo[key] = s
	return s
}

// ---------------------------------------------------------------------------------------------------------------
// evaluating a batch of jobs inside a case

var ifaceRe = regexp.MustCompile(`interface conversion: \S+ is not \S+: missing method \w+ @ vm\.init\w+\.func\w+`)

// normPanic: a native method statically bound for one class and run on a receiver of another class panics with the
// two class names in the message; one defect whatever the classes are
func normPanic(s string) string {
	return ifaceRe.ReplaceAllString(s, "interface conversion in a native method called on a receiver of another class")
}

var addrRe = regexp.MustCompile(`0x[0-9a-f]+`)

func evalJobs(r *engine.R, jobs []*job, diffBase map[string]string) {
	if len(jobs) == 0 {
		return
	}
	res := runJobs(jobs)
	for i, j := range jobs {
		jr := res[i]
		pats := make([]string, len(j.cases))
		for k, p := range j.cases {
			pats[k] = p.elk()
		}
		switch {
		case jr.rejected:
			r.Count("rejected_by_checker", 1)
			dbg("REJECTED ty=%s ctx=%s %s :: %s", j.ty.name, ctxName[j.ctx], strings.Join(pats, " ; "), firstLine(jr.diags))
			if j.ty.name == "any" {
				r.Count("rejected_by_checker_any_typed", 1)
				r.Note("rejected under `any`: " + strings.Join(pats, " ; ") + " :: " + firstLine(jr.diags))
			}
			r.Outcome("rejected")
			continue
		case jr.panicSig != "":
			// localise: the panic is either a compile panic (every value) or a runtime panic (some value)
			r.Eval(1)
			reported := false
			for _, vi := range j.vals {
				x, ok := j.expectOf(uni[vi])
				_, one := runOne(j, vi)
				if one.panicSig == "" {
					continue
				}
				kind := "go-panic " + normPanic(one.panicSig)
				culprit := 0
				if ok && x.sel > 0 {
					culprit = x.sel - 1
				}
				sig := signature(j, culprit, vi, kind)
				r.Violation(sig, fmt.Sprintf("patterns: %s\nvalue: %s (static type %s)\nGo panic: %s\n%s", strings.Join(pats, " ; "), uni[vi].elk(), j.ty.name, one.panicSig, trimStack(one.stack)), j.describe(vi))
				r.Outcome("go-panic")
				reported = true
				break
			}
			if !reported {
				r.Violation("go-panic (only in batch) "+jr.panicSig, strings.Join(pats, " ; ")+"\n"+trimStack(jr.stack), nil)
			}
			continue
		case jr.err != "":
			r.Violation("error escaped the harness catch: "+addrRe.ReplaceAllString(firstLine(jr.err), "0x"), strings.Join(pats, " ; "), nil)
			continue
		}
		if len(jr.lines) != len(j.vals) {
			r.Violation("output-shape", fmt.Sprintf("patterns: %s: %d lines for %d values:\n%s", strings.Join(pats, " ; "), len(jr.lines), len(j.vals), strings.Join(jr.lines, "\n")), nil)
			continue
		}
		for k, vi := range j.vals {
			if !j.aux {
				r.Eval(1)
			}
			o := parseObs(jr.lines[k], j.ctx)
			x, ok := j.expectOf(uni[vi])
			if diffBase != nil {
				// differential bookkeeping: remember / compare the observation of the pattern under test
				dkey := fmt.Sprintf("%s\x00%d\x00%s", pats[len(pats)-1], vi, j.ty.name)
				norm := normObs(o, len(j.cases)-1)
				if base, seen := diffBase[dkey]; !seen {
					diffBase[dkey] = norm
				} else if base != norm && !ok {
					// only reported for UNSPECIFIED outcomes; specified ones are judged against the reference
					r.Violation(fmt.Sprintf("differential: pattern %s behaves differently alone and behind a never-matching case (%s)", j.cases[len(j.cases)-1].skel(), j.cases[0].skel()),
						fmt.Sprintf("pattern %s on %s: alone → %s ; behind %s → %s", pats[len(pats)-1], uni[vi].elk(), base, pats[0], norm), j.describe(vi))
				}
			}
			if j.aux {
				continue
			}
			if !ok {
				r.Count("unspecified_by_sources", 1)
				r.Outcome("unspecified")
				continue
			}
			r.NT(1)
			kind, culprit, detail := judge(x, o, len(j.cases))
			if kind == "" {
				if x.sel == 0 {
					r.Outcome("no-match")
				} else {
					r.Outcome(fmt.Sprintf("case%d/%dvars", x.sel, len(x.binds)))
				}
				continue
			}
			if culprit >= len(j.cases) {
				culprit = len(j.cases) - 1
			}
			sig := signature(j, culprit, vi, kind)
			r.Violation(sig, fmt.Sprintf("patterns: %s\nvalue: %s (static type %s), context %s\n%s\nprogram:\n%s", strings.Join(pats, " ; "), uni[vi].elk(), j.ty.name, ctxName[j.ctx], detail, j.describe(vi)), j.describe(vi))
			r.Outcome("violation")
		}
	}
}

// normObs renders an observation relative to the position of the pattern under test (last case)
func normObs(o obs, shift int) string {
	if o.raised != "" {
		return "raises " + o.raised
	}
	if o.sel == 0 {
		return "no case"
	}
	cb := make([]string, len(o.binds))
	for i, b := range o.binds {
		cb[i] = canonInspect(b)
	}
	return fmt.Sprintf("case %d %v", o.sel-shift, cb)
}

// canonInspect sorts the elements of hash collections inside an inspect string (their iteration order is unspecified
// and differs from run to run).
func canonInspect(s string) string {
	open, hash := "", false
	switch {
	case strings.HasPrefix(s, "%{"):
		open, hash = "%{", true
	case strings.HasPrefix(s, "^["):
		open, hash = "^[", true
	case strings.HasPrefix(s, "%["):
		open = "%["
	case strings.HasPrefix(s, "{"):
		open, hash = "{", true
	case strings.HasPrefix(s, "["):
		open = "["
	default:
		return s
	}
	if len(s) < len(open)+1 {
		return s
	}
	inner := s[len(open) : len(s)-1]
	cl := s[len(s)-1:]
	var parts []string
	depth, start, inStr := 0, 0, false
	for i := 0; i < len(inner); i++ {
		ch := inner[i]
		switch {
		case ch == '"' && (i == 0 || inner[i-1] != '\\'):
			inStr = !inStr
		case inStr:
		case ch == '[' || ch == '{' || ch == '(':
			depth++
		case ch == ']' || ch == '}' || ch == ')':
			depth--
		case ch == ',' && depth == 0:
			parts = append(parts, strings.TrimSpace(inner[start:i]))
			start = i + 1
		}
	}
	if strings.TrimSpace(inner[start:]) != "" {
		parts = append(parts, strings.TrimSpace(inner[start:]))
	}
	for i, p := range parts {
		if k := strings.Index(p, " => "); k >= 0 && hash && open != "^[" {
			parts[i] = p[:k] + " => " + canonInspect(p[k+4:])
		} else {
			parts[i] = canonInspect(p)
		}
	}
	if hash {
		sortStrings(parts)
	}
	return open + strings.Join(parts, ", ") + cl
}

func firstLine(s string) string {
	s = strings.TrimSpace(s)
	if i := strings.IndexByte(s, '\n'); i >= 0 {
		return s[:i]
	}
	return s
}

func trimStack(s string) string {
	l := strings.Split(s, "\n")
	var keep []string
	for _, x := range l {
		if strings.Contains(x, "elk-language/elk/") || strings.Contains(x, "/repo/") {
			keep = append(keep, x)
		}
		if len(keep) >= 12 {
			break
		}
	}
	return strings.Join(keep, "\n")
}

func valsOf(ty typing) []int {
	var out []int
	for i, v := range uni {
		if ty.holds(v) {
			out = append(out, i)
		}
	}
	return out
}

func mkJob(ctx ctxKind, ty typing, id string, pats ...*Pat) *job {
	j := &job{ctx: ctx, ty: ty, id: id, vals: valsOf(ty)}
	regex := false
	for _, p := range pats {
		j.cases = append(j.cases, p.rename())
		regex = regex || hasForm(p, fRegex)
	}
	if regex {
		// Regex#matches raises on non-strings (not stated what a regex pattern does then): strings only
		var sv []int
		for _, vi := range j.vals {
			if uni[vi].K == kStr {
				sv = append(sv, vi)
			}
		}
		j.vals = sv
	}
	return j
}

// declares: the pattern declares a variable in the checker's sense (`_` counts)
func declares(p *Pat) bool {
	if p == nil {
		return true
	}
	if p.F == fBind || p.F == fWild || p.F == fAs || ((p.F == fList || p.F == fTuple) && p.RestName != "") {
		return true
	}
	for _, s := range p.Sub {
		if declares(s) {
			return true
		}
	}
	return false
}

func hasForm(p *Pat, f form) bool {
	if p == nil {
		return false
	}
	if p.F == f {
		return true
	}
	for _, s := range p.Sub {
		if hasForm(s, f) {
			return true
		}
	}
	return false
}

func main() {
	engine.Main(&engine.Spec{
		Prop:  "C30",
		Level: "exploration",
		Rule: "all patterns of depth ≤ 2, 144 depth-3 list patterns with sibling nested list patterns after a leading rest element (thorough: also depth-3 spines: every composite form with one slot holding a depth-2 pattern built from {1, x, _}, the other slot a variable; in 4 contexts, behind 3 never-matching patterns and under 6 precise types) over {literal, relational, ==/!=, range (8 kinds), identifier, _, must, p?, p as x, p||q, p&&q, object/type (user class, subclass, built-in class, mixin), constant, list/tuple with and without (named) rest, map, record, set} " +
			"× 45 scrutinee values (ints, float, strings, symbols, nil, bools, lists, tuples, maps, records, sets, objects of a class and a subclass) in: switch+else, switch+catch-all case, behind each of 12 (quick: 6) never-matching patterns, if-match, match expression, var/val pattern declaration; statically typed `any` and 16 (quick: 12) precise types (patterns predicted inadmissible for the type are skipped); " +
			"all ordered pairs of 40 (quick: 24) and triples of 12 representative patterns; exhaustive switches without else over bool, nilable and union types. Oracle: reference matcher (selected case, every bound variable). A case is non-trivial when the reference specifies its outcome; cases are not repeated",
		Assume:      []string{"the reference matcher's rules are those stated by compiler/bytecode_compiler.go pattern(), types/checker/pattern.go and the `#contains` doc comments", "a missing map/record key is UNSPECIFIED unless the sub-pattern cannot match an absent entry", "identifier patterns naming an existing variable, repeated identifiers and guards (no grammar) are outside the space"},
		Setup:       func(c *engine.Ctx) { elkrun.Init() },
		Run:         run,
		CaseTimeout: 180 * time.Second,
	})
}

var debugOnly = os.Getenv("C30_ONLY")
var debugLog = os.Getenv("C30_DEBUG")

func dbg(f string, a ...any) {
	if debugLog == "" {
		return
	}
	if fh, err := os.OpenFile(debugLog, os.O_APPEND|os.O_CREATE|os.O_WRONLY, 0o644); err == nil {
		fmt.Fprintf(fh, f+"\n", a...)
		fh.Close()
	}
}

func chunk(ps []*Pat, n int) [][]*Pat {
	var out [][]*Pat
	for len(ps) > 0 {
		k := n
		if k > len(ps) {
			k = len(ps)
		}
		out = append(out, ps[:k])
		ps = ps[k:]
	}
	return out
}

func run(c *engine.Ctx) {
	doCase := func(id string, f func(r *engine.R)) {
		if debugOnly != "" && !strings.Contains(id, debugOnly) {
			return
		}
		c.Case(id, f)
	}
	// 0. self-test of the harness model: every universe value prints as the model says
	doCase("selftest/inspect", func(r *engine.R) {
		j := mkJob(cSwitchElse, anyTyping, "selftest", pBind())
		res := runJobs([]*job{j})[0]
		if len(res.lines) != len(uni) {
			r.Violation("selftest: universe not printable", fmt.Sprintf("%+v", res), nil)
			return
		}
		for i, l := range res.lines {
			r.Eval(1)
			o := parseObs(l, cSwitchElse)
			if len(o.binds) != 1 || !(bexp{v: uni[i]}).accepts(o.binds[0]) {
				r.Violation("selftest: inspect of a universe value differs from the model", fmt.Sprintf("%s prints %q", uni[i].elk(), l), nil)
			}
		}
		for _, ty := range tys {
			tj := mkJob(cSwitchElse, ty, "selftest", pBind())
			tres := runJobs([]*job{tj})[0]
			if len(tres.lines) != len(tj.vals) {
				r.Violation("selftest: typed universe not printable: "+ty.name, fmt.Sprintf("%+v", tres), nil)
				continue
			}
			for k, l := range tres.lines {
				r.Eval(1)
				o := parseObs(l, cSwitchElse)
				if len(o.binds) != 1 || !(bexp{v: uni[tj.vals[k]]}).accepts(o.binds[0]) {
					r.Violation("selftest: inspect of a typed universe value differs from the model", fmt.Sprintf("%s as %s prints %q", uni[tj.vals[k]].elk(), ty.name, l), nil)
				}
			}
		}
		r.Outcome("selftest")
	})

	groups := depth2(c.Thorough)
	if c.Thorough {
		groups = append(groups, depth3()...)
	}
	nevers := neverMatching()
	quickTys := map[string]bool{"List[any]": true, "Tuple[any]": true, "Record[any,any]": true, "bool?": true}
	if !c.Thorough {
		nevers = nevers[:6]
	}
	const per = 24
	d3Tys := map[string]bool{"ArrayList[any]": true, "ArrayTuple[any]": true, "HashMap[any,any]": true, "HashRecord[any,any]": true, "Foo": true, "ArrayList[any]|Foo|Int": true}
	for _, g := range groups {
		g := g
		deep := strings.HasPrefix(g.id, "d3/")
		gNevers := nevers
		if deep {
			gNevers = []*Pat{nevers[1], nevers[4], nevers[6]}
		}
		var normal, risky []*Pat
		for _, p := range g.pats {
			if crashProne(p) {
				risky = append(risky, p)
			} else {
				normal = append(normal, p)
			}
		}
		for ci, ch := range chunk(normal, per) {
			ch := ch
			gid := fmt.Sprintf("%s/%d", g.id, ci)
			// 1. single pattern under `any` in every context
			doCase("single/"+gid, func(r *engine.R) {
				var jobs []*job
				for _, p := range ch {
					if !admissible(p, nil, nil) {
						r.Count("statically_inadmissible_skipped", 1)
						continue
					}
					jobs = append(jobs, mkJob(cSwitchElse, anyTyping, g.id, p), mkJob(cSwitchCatchAll, anyTyping, g.id, p), mkJob(cMatchIf, anyTyping, g.id, p))
					if p.F == fAs {
						continue // `var p as x = v` is not in the grammar of declarations
					}
					if declares(p) && p.F != fAs {
						// declarations must declare something
						jobs = append(jobs, mkJob(cValDecl, anyTyping, g.id, p))
						if !deep {
							jobs = append(jobs, mkJob(cVarDecl, anyTyping, g.id, p))
						}
					} else {
						// a match expression outside a condition must not declare anything
						jobs = append(jobs, mkJob(cMatchExpr, anyTyping, g.id, p))
					}
				}
				evalJobs(r, jobs, nil)
				if len(jobs) > 0 {
					r.Sample(jobs[len(jobs)-1].describe(14))
				}
			})
			// 2. behind each never-matching pattern (stack / scope discipline of a failed case), with differential
			doCase("behind-never/"+gid, func(r *engine.R) {
				diff := map[string]string{}
				var jobs []*job
				for _, p := range ch {
					if !admissible(p, nil, nil) {
						continue
					}
					b := mkJob(cSwitchElse, anyTyping, g.id, p)
					b.aux = true
					jobs = append(jobs, b)
				}
				for _, n := range gNevers {
					for _, p := range ch {
						if !admissible(p, nil, nil) {
							continue
						}
						jobs = append(jobs, mkJob(cSwitchElse, anyTyping, g.id, n, p))
					}
				}
				evalJobs(r, jobs, diff)
			})
			// 3. precise static types
			doCase("typed/"+gid, func(r *engine.R) {
				var jobs []*job
				for _, ty := range tys {
					if !c.Thorough && quickTys[ty.name] {
						continue
					}
					if deep && !d3Tys[ty.name] {
						continue
					}
					for _, p := range ch {
						if !admissible(p, ty.kinds, ty.elem) {
							r.Count("statically_inadmissible_skipped", 1)
							continue
						}
						jobs = append(jobs, mkJob(cSwitchElse, ty, g.id, p))
					}
				}
				evalJobs(r, jobs, nil)
			})
		}
		// crash-prone patterns: one case each, compiled as top-level code so that a compiler panic stays recoverable
		for ri, p := range risky {
			p := p
			doCase(fmt.Sprintf("sibling-rest/%s/%d", g.id, ri), func(r *engine.R) {
				j := mkJob(cSwitchElse, anyTyping, g.id, p)
				j.top = true
				evalJobs(r, []*job{j}, nil)
			})
		}
	}

	// 4. ordered pairs and triples of representative patterns: first match wins
	np := 24
	if c.Thorough {
		np = 40
	}
	pool := multiPool(np)
	for a := range pool {
		a := a
		doCase(fmt.Sprintf("pairs/%d", a), func(r *engine.R) {
			var jobs []*job
			for b := range pool {
				jobs = append(jobs, mkJob(cSwitchElse, anyTyping, "pairs", pool[a], pool[b]))
			}
			evalJobs(r, jobs, nil)
		})
	}
	tp := multiPool(12)
	for a := range tp {
		for b := range tp {
			a, b := a, b
			doCase(fmt.Sprintf("triples/%d-%d", a, b), func(r *engine.R) {
				var jobs []*job
				for k := range tp {
					jobs = append(jobs, mkJob(cSwitchCatchAll, anyTyping, "triples", tp[a], tp[b], tp[k]))
				}
				evalJobs(r, jobs, nil)
			})
		}
	}

	// 5. exhaustive switches without else
	exhaustive(c, doCase)
}

type exh struct {
	name  string
	ty    typing
	cases []*Pat
}

func exhaustive(c *engine.Ctx, doCase func(string, func(*engine.R))) {
	tyBy := func(n string) typing {
		for _, t := range tys {
			if t.name == n {
				return t
			}
		}
		panic(n)
	}
	boolTy := typing{name: "bool", elk: "bool", holds: func(v *Val) bool { return v.K == kBool }}
	symTy := typing{name: ":a|:b", elk: ":a | :b", holds: func(v *Val) bool { return v.K == kSym }}
	list := []exh{
		{"bool", boolTy, []*Pat{pLit(vb(true)), pLit(vb(false))}},
		{"bool-rev", boolTy, []*Pat{pLit(vb(false)), pLit(vb(true))}},
		{"bool?", tyBy("bool?"), []*Pat{pLit(vb(true)), pLit(vb(false)), pLit(vnil())}},
		{"bool?-nil-first", tyBy("bool?"), []*Pat{pLit(vnil()), pLit(vb(true)), pLit(vb(false))}},
		{"Int?-nil-type", tyBy("Int?"), []*Pat{pLit(vnil()), pType("::Std::Int")}},
		{"Int?-type-nil", tyBy("Int?"), []*Pat{pType("::Std::Int"), pLit(vnil())}},
		{"Int?-must-nil", tyBy("Int?"), []*Pat{pMust(), pLit(vnil())}},
		{"Int?-nil-bind", tyBy("Int?"), []*Pat{pLit(vnil()), pBind()}},
		{"Int?-rel", tyBy("Int?"), []*Pat{pRel("<", vi(2)), pRel(">=", vi(2)), pLit(vnil())}},
		{"union4", tyBy("Int|String|Symbol|nil"), []*Pat{pType("::Std::Int"), pType("::Std::String"), pType("::Std::Symbol"), pLit(vnil())}},
		{"union4-rev", tyBy("Int|String|Symbol|nil"), []*Pat{pLit(vnil()), pType("::Std::Symbol"), pType("::Std::String"), pType("::Std::Int")}},
		{"union3", tyBy("ArrayList[any]|Foo|Int"), []*Pat{pSeq(fList, 0, true), pType("Foo"), pType("::Std::Int")}},
		{"union3-b", tyBy("ArrayList[any]|Foo|Int"), []*Pat{pType("::Std::Int"), pObj("Foo", "a", nil), pType("::Std::List")}},
		{"symbols", symTy, []*Pat{pLit(vy("a")), pLit(vy("b"))}},
		{"Foo-sub", tyBy("Foo"), []*Pat{pType("Bar"), pType("Foo")}},
	}
	for _, e := range list {
		e := e
		doCase("exhaustive/"+e.name, func(r *engine.R) {
			// (i) does the checker accept the switch as non-nil (exhaustive)?
			j := mkJob(cSwitchNoElse, e.ty, "exhaustive", e.cases...)
			var b strings.Builder
			fmt.Fprintf(&b, "def ex(v: %s): ::Std::String\n  switch v\n", e.ty.elk)
			for i, p := range j.cases {
				fmt.Fprintf(&b, "  case %s then %s\n", p.elk(), caseBody(i+1, p))
			}
			b.WriteString("  end\nend\n")
			elkrun.ResetRuntime()
			res := elkrun.Run(basePrelude+b.String(), &elkrun.Options{NoRun: true})
			acceptedNonNil := !res.Rejected && res.Panic == ""
			if acceptedNonNil {
				r.Count("switch_without_else_typed_non_nil", 1)
			} else {
				r.Count("switch_without_else_typed_nilable", 1)
			}
			// (ii) run it: every value of the type must select a case
			jr := runJobs([]*job{j})[0]
			if jr.rejected {
				r.Count("exhaustive_switch_rejected_by_checker", 1)
				r.Note("exhaustive switch rejected: " + e.name + " :: " + firstLine(jr.diags))
				return
			}
			if jr.panicSig != "" || jr.err != "" || len(jr.lines) != len(j.vals) {
				r.Violation("exhaustive switch not runnable: "+e.name, fmt.Sprintf("%+v", jr), j.describe(j.vals[0]))
				return
			}
			for k, vi := range j.vals {
				r.Eval(1)
				r.NT(1)
				o := parseObs(jr.lines[k], cSwitchNoElse)
				x, ok := j.expectOf(uni[vi])
				if !ok || x.sel == 0 {
					r.Violation("harness: exhaustive case list is not exhaustive in the model", e.name+" "+uni[vi].elk(), nil)
					continue
				}
				kind, _, detail := judge(x, o, len(j.cases))
				if o.raised == "" && !o.bad && o.sel == 0 {
					kind = "exhaustive switch without else selected no case"
					if acceptedNonNil {
						kind += " although the checker typed it non-nil"
					}
				}
				if kind != "" {
					r.Violation(kind+" ["+e.name+"]", fmt.Sprintf("value %s: %s\n%s", uni[vi].elk(), detail, j.describe(vi)), j.describe(vi))
				} else {
					r.Outcome(fmt.Sprintf("exhaustive-selected-case%d", x.sel))
				}
			}
		})
	}
}
