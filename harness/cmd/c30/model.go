package main

// Values, patterns, the Elk printer and the reference matcher of C30.
//
// Every rule of the reference matcher is taken from the implementation's own statements of intent:
//   - literal / constant patterns: compiled as `DUP; <literal>; EQUAL` (compiler pattern(), "literal…" golden tests) → v == L
//   - relational patterns `< e`: relationalPattern(): `IS_A(v, class_of(e))` and then the operator, otherwise false
//   - `== e`, `!= e`: unaryPattern(): EQUAL / NOT_EQUAL
//   - range patterns: doc comment of `#contains` in vm/closed_range.go (and the 7 other range classes): "Special version
//     of `contains` used in pattern matching. Given value has to be an instance of the same class as `start` or `end`,
//     otherwise `false` will be returned"
//   - identifier: always matches and binds (pattern(): set local, push TRUE); `_` is an identifier
//   - `p as x`: asPattern(): binds x to the matched value and matches p
//   - `p?`: nilablePattern() = p || nil ; `must` = != nil (mustPattern())
//   - `p || q`, `p && q`: binaryPattern() short-circuit; the checker (checkBinaryPattern / checkIdentifierPattern,
//     nilablePatternMode) types variables declared inside `||` and `?` as nilable, so a variable of an alternative that
//     was not taken is nil
//   - object pattern `C(a: p, b)`: objectPattern(): IS_A(v, C), then per attribute call the getter and match / bind
//   - list `[…]` / tuple `%[…]`: listOrTuplePattern(): IS_A List / Tuple mixin (headers: ArrayList includes List, List
//     includes Tuple, ArrayTuple includes Tuple), length == n (>= n-1 with a rest element), element-wise, `*r` collects
//     the middle into a new ArrayList
//   - map `{…}` / record `%{…}`: mapOrRecordPattern(): IS_A Map / Record mixin (HashMap includes Map, Map includes
//     Record, HashRecord includes Record), then per element subscript by the key and match. What a *missing* key means is
//     not stated anywhere (subscript yields nil for records) → UNSPECIFIED unless the sub-pattern can match neither nil
//     nor anything else absent
//   - set `^[…]`: setPattern(): IS_A Set mixin, length == n (>= with `*`), `contains` of every literal element, `_` skipped

import (
	"fmt"
	"strings"
)

type kind int

const (
	kInt kind = iota
	kFloat
	kStr
	kSym
	kNil
	kBool
	kList
	kTuple
	kMap
	kRec
	kSet
	kObj
)

var kindName = map[kind]string{kInt: "int", kFloat: "float", kStr: "string", kSym: "symbol", kNil: "nil", kBool: "bool",
	kList: "list", kTuple: "tuple", kMap: "map", kRec: "record", kSet: "set", kObj: "object"}

type Val struct {
	K    kind
	I    int64
	S    string // string / symbol text, float literal text, class of an object ("Foo"/"Bar")
	B    bool
	E    []*Val // elements, or values of a map/record, or the attributes a, b of an object
	Keys []*Val
}

func vi(i int64) *Val     { return &Val{K: kInt, I: i} }
func vs(s string) *Val    { return &Val{K: kStr, S: s} }
func vy(s string) *Val    { return &Val{K: kSym, S: s} }
func vnil() *Val          { return &Val{K: kNil} }
func vb(b bool) *Val      { return &Val{K: kBool, B: b} }
func vf(s string) *Val    { return &Val{K: kFloat, S: s} }
func vl(e ...*Val) *Val   { return &Val{K: kList, E: e} }
func vt(e ...*Val) *Val   { return &Val{K: kTuple, E: e} }
func vset(e ...*Val) *Val { return &Val{K: kSet, E: e} }
func vobj(cls string, a int64, b *Val) *Val {
	return &Val{K: kObj, S: cls, E: []*Val{vi(a), b}}
}
func vmap(k kind, kv ...*Val) *Val {
	r := &Val{K: k}
	for i := 0; i+1 < len(kv); i += 2 {
		r.Keys = append(r.Keys, kv[i])
		r.E = append(r.E, kv[i+1])
	}
	return r
}

// elk renders the value as an Elk expression.
func (v *Val) elk() string {
	switch v.K {
	case kInt:
		return fmt.Sprint(v.I)
	case kFloat:
		return v.S
	case kStr:
		return fmt.Sprintf("%q", v.S)
	case kSym:
		return ":" + v.S
	case kNil:
		return "nil"
	case kBool:
		if v.B {
			return "true"
		}
		return "false"
	case kList, kTuple, kSet:
		open := map[kind]string{kList: "[", kTuple: "%[", kSet: "^["}[v.K]
		var p []string
		for _, e := range v.E {
			p = append(p, e.elk())
		}
		return open + strings.Join(p, ", ") + "]"
	case kMap, kRec:
		open := "{"
		if v.K == kRec {
			open = "%{"
		}
		var p []string
		for i, e := range v.E {
			p = append(p, v.Keys[i].elk()+" => "+e.elk())
		}
		return open + strings.Join(p, ", ") + "}"
	case kObj:
		return fmt.Sprintf("%s(%s, %s)", v.S, v.E[0].elk(), v.E[1].elk())
	}
	panic("elk")
}

func perms(n int) [][]int {
	if n == 0 {
		return [][]int{{}}
	}
	var out [][]int
	var rec func(cur []int, used []bool)
	rec = func(cur []int, used []bool) {
		if len(cur) == n {
			out = append(out, append([]int(nil), cur...))
			return
		}
		for i := 0; i < n; i++ {
			if !used[i] {
				used[i] = true
				rec(append(cur, i), used)
				used[i] = false
			}
		}
	}
	rec(nil, make([]bool, n))
	return out
}

// inspects returns every acceptable `inspect` rendering (hash collections: any element order).
func (v *Val) inspects() []string {
	switch v.K {
	case kList, kTuple:
		open := map[kind]string{kList: "[", kTuple: "%["}[v.K]
		outs := []string{""}
		for i, e := range v.E {
			var n []string
			for _, o := range outs {
				for _, s := range e.inspects() {
					sep := ", "
					if i == 0 {
						sep = ""
					}
					n = append(n, o+sep+s)
				}
			}
			outs = n
		}
		for i := range outs {
			outs[i] = open + outs[i] + "]"
		}
		return outs
	case kSet, kMap, kRec:
		open := map[kind]string{kSet: "^[", kMap: "{", kRec: "%{"}[v.K]
		cl := "]"
		if v.K != kSet {
			cl = "}"
		}
		var outs []string
		for _, pm := range perms(len(v.E)) {
			cur := []string{""}
			for j, idx := range pm {
				var n []string
				for _, o := range cur {
					for _, s := range v.E[idx].inspects() {
						sep := ", "
						if j == 0 {
							sep = ""
						}
						item := s
						if v.K != kSet {
							item = v.Keys[idx].inspects()[0] + " => " + s
						}
						n = append(n, o+sep+item)
					}
				}
				cur = n
			}
			for _, c := range cur {
				outs = append(outs, open+c+cl)
			}
		}
		return outs
	case kObj:
		var outs []string
		for _, s := range v.E[1].inspects() {
			outs = append(outs, fmt.Sprintf("%s(%s, %s)", v.S, v.E[0].elk(), s))
		}
		return outs
	}
	return []string{v.elk()}
}

func (v *Val) equal(o *Val) bool {
	if v.K != o.K {
		return false
	}
	switch v.K {
	case kInt:
		return v.I == o.I
	case kFloat, kStr, kSym:
		return v.S == o.S
	case kNil:
		return true
	case kBool:
		return v.B == o.B
	case kList, kTuple:
		if len(v.E) != len(o.E) {
			return false
		}
		for i := range v.E {
			if !v.E[i].equal(o.E[i]) {
				return false
			}
		}
		return true
	}
	return v == o // hash collections / objects are never compared by the space
}

// class hierarchy (headers/*.elh): class → ancestors usable in object patterns
var ancestors = map[string][]string{
	"int":    {"::Std::Int", "::Std::Value"},
	"float":  {"::Std::Float", "::Std::Value"},
	"string": {"::Std::String", "::Std::Value"},
	"symbol": {"::Std::Symbol", "::Std::Value"},
	"nil":    {"::Std::Nil", "::Std::Value"},
	"bool":   {"::Std::Value"},
	"list":   {"::Std::ArrayList", "::Std::List", "::Std::Tuple", "::Std::Value"},
	"tuple":  {"::Std::ArrayTuple", "::Std::Tuple", "::Std::Value"},
	"map":    {"::Std::HashMap", "::Std::Map", "::Std::Record", "::Std::Value"},
	"record": {"::Std::HashRecord", "::Std::Record", "::Std::Value"},
	"set":    {"::Std::HashSet", "::Std::Set", "::Std::Value"},
	"Foo":    {"Foo", "::Std::Value"},
	"Bar":    {"Bar", "Foo", "::Std::Value"},
}

func (v *Val) isA(cls string) bool {
	key := kindName[v.K]
	if v.K == kObj {
		key = v.S
	}
	for _, a := range ancestors[key] {
		if a == cls {
			return true
		}
	}
	return false
}

// attribute getters known to the space
func (v *Val) attr(name string) (*Val, bool) {
	switch {
	case v.K == kObj && name == "a":
		return v.E[0], true
	case v.K == kObj && name == "b":
		return v.E[1], true
	case name == "length" && (v.K == kList || v.K == kTuple || v.K == kSet || v.K == kMap || v.K == kRec):
		return vi(int64(len(v.E))), true
	case name == "length" && v.K == kStr:
		return vi(int64(len(v.S))), true // ASCII only
	}
	return nil, false
}

// ---------------------------------------------------------------------------------------------------------------
// patterns

type form int

const (
	fLit form = iota
	fRel
	fRange
	fBind
	fWild
	fMust
	fNilable
	fAs
	fOr
	fAnd
	fObj
	fConst
	fList
	fTuple
	fMap
	fRec
	fSet
	fRegex
)

var formName = map[form]string{fLit: "lit", fRel: "rel", fRange: "range", fBind: "bind", fWild: "wild", fMust: "must", fNilable: "nilable",
	fAs: "as", fOr: "or", fAnd: "and", fObj: "obj", fConst: "const", fList: "list", fTuple: "tuple", fMap: "map", fRec: "record", fSet: "set", fRegex: "regex"}

type Pat struct {
	F        form
	V        *Val   // literal, relational operand
	Op       string // relational operator; range operator
	Lo, Hi   *Val   // range bounds (nil = open end)
	Name     string // binder name (bind, as)
	Cls      string // object / constant pattern class
	Sub      []*Pat // children: nilable/as (1), or/and (2), elements, attribute / value patterns (nil entry = shorthand identifier)
	Rest     int    // list/tuple: index at which the rest element sits, -1 = none; set: >= 0 means `*` present
	RestName string // "" = unnamed rest
	Keys     []*Val // map/record keys; object attribute names as symbols
	SymSugar bool   // map/record: print symbol keys as `a: p` instead of `:a => p`
	Keep     bool   // the binder name is fixed (the same variable is bound at several places of one pattern)
}

func pLit(v *Val) *Pat            { return &Pat{F: fLit, V: v, Rest: -1} }
func pRel(op string, v *Val) *Pat { return &Pat{F: fRel, Op: op, V: v, Rest: -1} }
func pRange(lo *Val, op string, hi *Val) *Pat {
	return &Pat{F: fRange, Lo: lo, Op: op, Hi: hi, Rest: -1}
}
func pRegex(s string) *Pat            { return &Pat{F: fRegex, V: vs(s), Rest: -1} }
func (p *Pat) withName(n string) *Pat { p.Name, p.Keep = n, true; return p }
func pVar(n string) *Pat              { return &Pat{F: fBind, Name: n, Keep: true, Rest: -1} }
func pBind() *Pat                     { return &Pat{F: fBind, Name: "?", Rest: -1} }
func pWild() *Pat                     { return &Pat{F: fWild, Rest: -1} }
func pMust() *Pat                     { return &Pat{F: fMust, Rest: -1} }
func pNilable(p *Pat) *Pat            { return &Pat{F: fNilable, Sub: []*Pat{p}, Rest: -1} }
func pAs(p *Pat) *Pat                 { return &Pat{F: fAs, Name: "?", Sub: []*Pat{p}, Rest: -1} }
func pOr(a, b *Pat) *Pat              { return &Pat{F: fOr, Sub: []*Pat{a, b}, Rest: -1} }
func pAnd(a, b *Pat) *Pat             { return &Pat{F: fAnd, Sub: []*Pat{a, b}, Rest: -1} }
func pType(cls string) *Pat           { return &Pat{F: fObj, Cls: cls, Rest: -1} }
func pConst(cls string) *Pat          { return &Pat{F: fConst, Cls: cls, Rest: -1} }

// pObj: attrs alternate name, pattern (nil pattern = shorthand identifier)
func pObj(cls string, attrs ...any) *Pat {
	p := &Pat{F: fObj, Cls: cls, Rest: -1}
	for i := 0; i+1 < len(attrs); i += 2 {
		p.Keys = append(p.Keys, vy(attrs[i].(string)))
		if attrs[i+1] == nil {
			p.Sub = append(p.Sub, nil)
		} else {
			p.Sub = append(p.Sub, attrs[i+1].(*Pat))
		}
	}
	return p
}

// pSeq: list or tuple; rest = -1 none, otherwise position of the rest element; named = bind the rest
func pSeq(f form, rest int, named bool, elems ...*Pat) *Pat {
	p := &Pat{F: f, Sub: elems, Rest: rest}
	if named {
		p.RestName = "?"
	}
	return p
}

// pDict: map or record; kv alternate key (*Val), pattern (nil = shorthand identifier, symbol keys only)
func pDict(f form, sugar bool, kv ...any) *Pat {
	p := &Pat{F: f, Rest: -1, SymSugar: sugar}
	for i := 0; i+1 < len(kv); i += 2 {
		p.Keys = append(p.Keys, kv[i].(*Val))
		if kv[i+1] == nil {
			p.Sub = append(p.Sub, nil)
		} else {
			p.Sub = append(p.Sub, kv[i+1].(*Pat))
		}
	}
	return p
}

// pSet: literal elements (fLit) or wildcards; rest = `*` present
func pSet(rest bool, elems ...*Pat) *Pat {
	p := &Pat{F: fSet, Sub: elems, Rest: -1}
	if rest {
		p.Rest = 0
	}
	return p
}

func (p *Pat) clone() *Pat {
	if p == nil {
		return nil
	}
	c := *p
	c.Sub = nil
	for _, s := range p.Sub {
		c.Sub = append(c.Sub, s.clone())
	}
	c.Keys = append([]*Val(nil), p.Keys...)
	return &c
}

func (p *Pat) depth() int {
	d := 0
	for _, s := range p.Sub {
		if s != nil && s.depth() > d {
			d = s.depth()
		}
	}
	return d + 1
}

var binderNames = []string{"x", "y", "z", "w", "u", "t", "s", "q"}

// rename gives every binder a distinct name in pre-order; shorthand identifiers keep the attribute/key name.
func (p *Pat) rename() *Pat {
	c := p.clone()
	n := 0
	next := func() string {
		s := binderNames[n%len(binderNames)]
		if n >= len(binderNames) {
			s += fmt.Sprint(n / len(binderNames))
		}
		n++
		return s
	}
	var walk func(q *Pat)
	walk = func(q *Pat) {
		if q == nil {
			return
		}
		if (q.F == fBind || q.F == fAs) && !q.Keep {
			q.Name = next()
		}
		if (q.F == fList || q.F == fTuple) && q.RestName != "" {
			q.RestName = next()
		}
		for _, s := range q.Sub {
			walk(s)
		}
	}
	walk(c)
	return c
}

// binders lists the variables a pattern declares, in pre-order (the order in which observations are printed).
func (p *Pat) binders() []string {
	var out []string
	var walk func(q *Pat)
	walk = func(q *Pat) {
		switch q.F {
		case fBind, fAs:
			out = append(out, q.Name)
		case fList, fTuple:
			if q.RestName != "" {
				out = append(out, q.RestName)
			}
		}
		for i, s := range q.Sub {
			if s == nil {
				out = append(out, q.Keys[i].S)
			} else {
				walk(s)
			}
		}
	}
	walk(p)
	// a variable bound at several places is one variable
	seen := map[string]bool{}
	var uniq []string
	for _, n := range out {
		if !seen[n] {
			seen[n] = true
			uniq = append(uniq, n)
		}
	}
	return uniq
}

// precedence levels for printing: 0 = pattern (as), 1 = or operand, 2 = and operand, 3 = operand of `?`
func (p *Pat) level() int {
	switch p.F {
	case fAs:
		return 0
	case fOr:
		return 1
	case fAnd:
		return 2
	case fNilable:
		return 3
	}
	return 4
}

func (p *Pat) elkAt(min int) string {
	s := p.elk()
	if p.level() < min {
		return "(" + s + ")"
	}
	return s
}

func (p *Pat) elk() string {
	switch p.F {
	case fLit:
		return p.V.elk()
	case fRel:
		return p.Op + " " + p.V.elk()
	case fRange:
		s := ""
		if p.Lo != nil {
			s = p.Lo.elk()
		}
		s += p.Op
		if p.Hi != nil {
			s += p.Hi.elk()
		}
		return s
	case fRegex:
		return "%/^" + p.V.S + "$/"
	case fBind:
		return p.Name
	case fWild:
		return "_"
	case fMust:
		return "must"
	case fNilable:
		return p.Sub[0].elkAt(4) + "?"
	case fAs:
		return p.Sub[0].elkAt(1) + " as " + p.Name
	case fOr:
		return p.Sub[0].elkAt(1) + " || " + p.Sub[1].elkAt(2)
	case fAnd:
		return p.Sub[0].elkAt(2) + " && " + p.Sub[1].elkAt(3)
	case fConst:
		return p.Cls
	case fObj:
		var a []string
		for i, s := range p.Sub {
			if s == nil {
				a = append(a, p.Keys[i].S)
			} else {
				a = append(a, p.Keys[i].S+": "+s.elkAt(0))
			}
		}
		return p.Cls + "(" + strings.Join(a, ", ") + ")"
	case fList, fTuple:
		open := "["
		if p.F == fTuple {
			open = "%["
		}
		var a []string
		for i := 0; i <= len(p.Sub); i++ {
			if i == p.Rest {
				a = append(a, "*"+p.RestName)
			}
			if i < len(p.Sub) {
				a = append(a, p.Sub[i].elkAt(0))
			}
		}
		return open + strings.Join(a, ", ") + "]"
	case fMap, fRec:
		open := "{"
		if p.F == fRec {
			open = "%{"
		}
		var a []string
		for i, s := range p.Sub {
			k := p.Keys[i]
			switch {
			case s == nil:
				a = append(a, k.S)
			case k.K == kSym && p.SymSugar:
				a = append(a, k.S+": "+s.elkAt(0))
			default:
				a = append(a, k.elk()+" => "+s.elkAt(0))
			}
		}
		return open + strings.Join(a, ", ") + "}"
	case fSet:
		var a []string
		for _, s := range p.Sub {
			a = append(a, s.elk())
		}
		if p.Rest >= 0 {
			a = append(a, "*")
		}
		return "^[" + strings.Join(a, ", ") + "]"
	}
	panic("elk pattern")
}

// skel is the shape of a pattern with literals abstracted (used in signatures).
func (p *Pat) skel() string {
	if p == nil {
		return "ident"
	}
	var a []string
	for i := 0; i <= len(p.Sub); i++ {
		if (p.F == fList || p.F == fTuple) && i == p.Rest {
			if p.RestName != "" {
				a = append(a, "*r")
			} else {
				a = append(a, "*")
			}
		}
		if i < len(p.Sub) {
			a = append(a, p.Sub[i].skel())
		}
	}
	if p.F == fSet && p.Rest >= 0 {
		a = append(a, "*")
	}
	s := formName[p.F]
	switch p.F {
	case fRel:
		s = "rel" + p.Op
		if p.V.K == kNil {
			s += "nil"
		}
	case fLit:
		if p.V.K == kNil {
			s = "nil"
		}
	case fObj:
		if strings.HasPrefix(p.Cls, "::Std::") {
			s = "obj:builtin"
		}
		if len(p.Sub) == 0 {
			s = "type"
		}
	}
	if len(a) == 0 {
		return s
	}
	return s + "(" + strings.Join(a, ",") + ")"
}

// sigShape is the shape used in signatures: list/tuple → seq, map/record → dict, wildcards, identifiers and rest
// markers dropped, repeated children merged (one defect = one shape whatever the irrelevant siblings are).
func (p *Pat) sigShape() string {
	if p == nil {
		return ""
	}
	s := formName[p.F]
	switch p.F {
	case fWild:
		return ""
	case fList, fTuple:
		s = "seq"
	case fMap, fRec:
		s = "dict"
	case fRel:
		s = "rel"
	case fObj:
		if len(p.Sub) == 0 {
			s = "type"
		}
	}
	var a []string
	seen := map[string]bool{}
	for _, c := range p.Sub {
		cs := c.sigShape()
		if cs != "" && !seen[cs] {
			seen[cs] = true
			a = append(a, cs)
		}
	}
	if len(a) == 0 {
		return s
	}
	return s + "(" + strings.Join(a, ",") + ")"
}

// ---------------------------------------------------------------------------------------------------------------
// reference matcher

type tri int

const (
	no tri = iota
	yes
	unspec
)

// bexp is the expectation for one declared variable after a successful match.
type bexp struct {
	any   bool // assigned during an attempt that failed: no expectation
	unset bool // never assigned: the checker types it nilable → nil
	v     *Val // bound value
}

type env map[string]bexp

func cmpInt(a, b int64) int {
	switch {
	case a < b:
		return -1
	case a > b:
		return 1
	}
	return 0
}

// compare orders two values of the same comparable class
func compare(a, b *Val) (int, bool) {
	if a.K != b.K {
		return 0, false
	}
	switch a.K {
	case kInt:
		return cmpInt(a.I, b.I), true
	case kStr:
		return strings.Compare(a.S, b.S), true
	}
	return 0, false
}

func relHolds(op string, c int) bool {
	switch op {
	case "<":
		return c < 0
	case "<=":
		return c <= 0
	case ">":
		return c > 0
	case ">=":
		return c >= 0
	}
	panic(op)
}

// absentNo reports whether the pattern certainly does not match an absent map/record entry whatever "absent" is read
// as (no entry / nil): only then is the outcome specified.
func absentNo(p *Pat) bool {
	if p == nil {
		return false
	}
	switch p.F {
	case fLit:
		return p.V.K != kNil
	case fRel:
		switch p.Op {
		case "<", "<=", ">", ">=":
			return true
		case "==":
			return p.V.K != kNil
		}
		return false
	case fRange, fList, fTuple, fMap, fRec, fSet, fConst:
		return true
	case fRegex:
		return false
	case fObj:
		return p.Cls != "::Std::Nil" && p.Cls != "::Std::Value"
	case fAs:
		return absentNo(p.Sub[0])
	case fAnd:
		return absentNo(p.Sub[0]) || absentNo(p.Sub[1])
	case fOr:
		return absentNo(p.Sub[0]) && absentNo(p.Sub[1])
	}
	return false
}

// markAll sets the expectation of every variable of p that does not also occur in `except`
func markAll(p *Pat, e env, b bexp, except *Pat) {
	skip := map[string]bool{}
	if except != nil {
		for _, n := range except.binders() {
			skip[n] = true
		}
	}
	for _, n := range p.binders() {
		if !skip[n] {
			e[n] = b
		}
	}
}

func match(p *Pat, v *Val, e env) tri {
	switch p.F {
	case fLit:
		return b2t(v.equal(p.V))
	case fConst:
		return no // the space contains no class objects as scrutinees
	case fRel:
		switch p.Op {
		case "==":
			return b2t(v.equal(p.V))
		case "!=":
			return b2t(!v.equal(p.V))
		}
		c, ok := compare(v, p.V)
		if !ok {
			return no
		}
		return b2t(relHolds(p.Op, c))
	case fRange:
		bound := p.Lo
		if bound == nil {
			bound = p.Hi
		}
		if v.K != bound.K {
			return no
		}
		if p.Lo != nil {
			c, _ := compare(v, p.Lo)
			leftOpen := strings.HasPrefix(p.Op, "<")
			if c < 0 || (c == 0 && leftOpen) {
				return no
			}
		}
		if p.Hi != nil {
			c, _ := compare(v, p.Hi)
			rightOpen := strings.HasSuffix(p.Op, "<")
			if c > 0 || (c == 0 && rightOpen) {
				return no
			}
		}
		return yes
	case fRegex:
		// `regex.matches(v)`: headers/regex.elh "Check whether the pattern matches the given string"; non-strings: not stated
		if v.K != kStr {
			return unspec
		}
		return b2t(v.S == p.V.S)
	case fBind:
		e[p.Name] = bexp{v: v}
		return yes
	case fWild:
		return yes
	case fMust:
		return b2t(v.K != kNil)
	case fNilable:
		switch match(p.Sub[0], v, e) {
		case yes:
			return yes
		case unspec:
			return unspec
		}
		markAll(p.Sub[0], e, bexp{any: true}, nil)
		return b2t(v.K == kNil)
	case fAs:
		e[p.Name] = bexp{v: v}
		return match(p.Sub[0], v, e)
	case fOr:
		pre := map[string]bexp{}
		for n, b := range e {
			pre[n] = b
		}
		switch match(p.Sub[0], v, e) {
		case yes:
			// variables that occur only in the alternative not taken are nil; a variable bound by both keeps its value,
			// and so does a variable that an earlier part of the pattern has bound (the checker gives it a non-nilable type)
			for _, n := range p.Sub[1].binders() {
				if _, bound := pre[n]; bound {
					continue
				}
				keep := false
				for _, ln := range p.Sub[0].binders() {
					keep = keep || ln == n
				}
				if !keep {
					e[n] = bexp{unset: true}
				}
			}
			return yes
		case unspec:
			return unspec
		}
		markAll(p.Sub[0], e, bexp{any: true}, nil)
		return match(p.Sub[1], v, e)
	case fAnd:
		if r := match(p.Sub[0], v, e); r != yes {
			return r
		}
		return match(p.Sub[1], v, e)
	case fObj:
		if !v.isA(p.Cls) {
			return no
		}
		for i, s := range p.Sub {
			av, ok := v.attr(p.Keys[i].S)
			if !ok {
				return unspec // the checker rejects unknown getters statically; with `any` a NoMethodError is raised
			}
			if s == nil {
				e[p.Keys[i].S] = bexp{v: av}
				continue
			}
			if r := match(s, av, e); r != yes {
				return r
			}
		}
		return yes
	case fList, fTuple:
		if p.F == fList && v.K != kList {
			return no
		}
		if p.F == fTuple && v.K != kList && v.K != kTuple {
			return no
		}
		n := len(p.Sub)
		if p.Rest < 0 {
			if len(v.E) != n {
				return no
			}
		} else if len(v.E) < n {
			return no
		}
		before := n
		if p.Rest >= 0 {
			before = p.Rest
		}
		for i := 0; i < before; i++ {
			if r := match(p.Sub[i], v.E[i], e); r != yes {
				return r
			}
		}
		if p.Rest >= 0 {
			after := n - before
			if p.RestName != "" {
				e[p.RestName] = bexp{v: vl(v.E[before : len(v.E)-after]...)}
			}
			for j := 0; j < after; j++ {
				if r := match(p.Sub[before+j], v.E[len(v.E)-after+j], e); r != yes {
					return r
				}
			}
		}
		return yes
	case fMap, fRec:
		if p.F == fMap && v.K != kMap {
			return no
		}
		if p.F == fRec && v.K != kMap && v.K != kRec {
			return no
		}
		for i, s := range p.Sub {
			var found *Val
			for j, k := range v.Keys {
				if k.equal(p.Keys[i]) {
					found = v.E[j]
				}
			}
			if found == nil {
				if absentNo(s) {
					return no
				}
				return unspec
			}
			if s == nil {
				e[p.Keys[i].S] = bexp{v: found}
				continue
			}
			if r := match(s, found, e); r != yes {
				return r
			}
		}
		return yes
	case fSet:
		if v.K != kSet {
			return no
		}
		n := len(p.Sub)
		if p.Rest < 0 && len(v.E) != n {
			return no
		}
		if p.Rest >= 0 && len(v.E) < n {
			return no
		}
		for _, s := range p.Sub {
			if s.F == fWild {
				continue
			}
			ok := false
			for _, x := range v.E {
				if x.equal(s.V) {
					ok = true
				}
			}
			if !ok {
				return no
			}
		}
		return yes
	}
	panic("match")
}

func b2t(b bool) tri {
	if b {
		return yes
	}
	return no
}

// expectation of one run: selected case (1-based, 0 = none) and the expected rendering of each variable
type expectation struct {
	sel   int
	names []string
	binds []bexp
}

// expect evaluates a case list; ok=false when an unspecified form decides the outcome.
func expect(cases []*Pat, v *Val) (expectation, bool) {
	for i, p := range cases {
		e := env{}
		switch match(p, v, e) {
		case unspec:
			return expectation{}, false
		case yes:
			x := expectation{sel: i + 1, names: p.binders()}
			for _, n := range x.names {
				x.binds = append(x.binds, e[n])
			}
			return x, true
		}
	}
	return expectation{}, true
}

func (b bexp) accepts(s string) bool {
	switch {
	case b.any:
		return true
	case b.unset:
		return s == "nil"
	}
	for _, i := range b.v.inspects() {
		if i == s {
			return true
		}
	}
	return false
}

func (b bexp) String() string {
	switch {
	case b.any:
		return "<any>"
	case b.unset:
		return "nil"
	}
	return b.v.inspects()[0]
}

func (x expectation) String() string {
	var parts []string
	for i, n := range x.names {
		parts = append(parts, n+"="+x.binds[i].String())
	}
	if x.sel == 0 {
		return "no case"
	}
	return fmt.Sprintf("case %d {%s}", x.sel, strings.Join(parts, ", "))
}
