package main

// The enumerated spaces of C30: scrutinee values, static typings, patterns by depth.

import "fmt"

// universe returns the scrutinee values (index = identity, used in generated helper names).
func universe() []*Val {
	return []*Val{
		vi(1), vi(2), vi(3), vi(-1), vf("2.5"),
		vs("a"), vs("b"), vy("a"), vy("b"),
		vnil(), vb(true), vb(false),
		vl(), vl(vi(1)), vl(vi(1), vi(2)), vl(vi(2), vi(1)), vl(vi(1), vi(2), vi(3)), vl(vs("a"), vi(1)),
		vl(vl(vi(1), vi(2)), vi(3)), vl(vset(vi(1)), vi(2)), vl(vnil(), vi(1)),
		vl(vi(9), vl(vi(1)), vl(vi(2)), vi(3)), vl(vi(8), vi(9), vl(vi(1)), vl(vi(7), vi(2)), vi(3)), vl(vl(vi(1)), vl(vi(2)), vi(3)),
		vt(), vt(vi(1), vi(2)), vt(vi(1), vl(vi(2))),
		vmap(kMap, vi(1), vi(2)), vmap(kMap, vi(1), vi(2), vi(3), vi(4)), vmap(kMap, vy("a"), vi(1)), vmap(kMap, vi(1), vl(vi(1), vi(2))), vmap(kMap, vi(1), vnil()),
		vmap(kRec, vy("a"), vi(1)), vmap(kRec, vy("a"), vi(1), vy("b"), vi(2)), vmap(kRec, vy("a"), vl(vi(1))),
		vset(), vset(vi(1)), vset(vi(1), vi(2)),
		vobj("Foo", 1, vs("a")), vobj("Foo", 2, vl(vi(1), vi(2))), vobj("Bar", 1, vnil()),
		// nested hash collections under every kind of parent
		vt(vset(vi(1)), vi(2)), vmap(kMap, vi(1), vset(vi(1))), vmap(kRec, vy("a"), vset(vi(1))), vobj("Foo", 1, vset(vi(1))),
		vmap(kMap, vi(1), vmap(kMap, vi(1), vi(2))), vl(vmap(kRec, vy("a"), vi(1)), vi(2)), vobj("Foo", 3, vobj("Bar", 1, vi(2))),
	}
}

// typing is a static type under which a subset of the universe is passed to the matching code.
type typing struct {
	name  string // short name for signatures / ids
	elk   string // Elk type
	holds func(v *Val) bool
	// admits reports whether a top-level value of kind k can inhabit the type (for the static admissibility prediction)
	kinds map[kind]bool
	elem  map[kind]bool       // kinds of collection elements / map values (nil = anything)
	ctor  func(v *Val) string // type of the local through which a value is built (default: elk)
}

func allInts(v *Val) bool {
	for _, e := range v.E {
		if e.K != kInt {
			return false
		}
	}
	return true
}

func kset(ks ...kind) map[kind]bool {
	m := map[kind]bool{}
	for _, k := range ks {
		m[k] = true
	}
	return m
}

var anyTyping = typing{name: "any", elk: "any", holds: func(*Val) bool { return true }}

func typings() []typing {
	is := func(ks ...kind) func(*Val) bool {
		m := kset(ks...)
		return func(v *Val) bool { return m[v.K] }
	}
	return []typing{
		{name: "ArrayList[any]", elk: "::Std::ArrayList[any]", holds: is(kList), kinds: kset(kList)},
		{name: "ArrayList[Int]", elk: "::Std::ArrayList[::Std::Int]", holds: func(v *Val) bool { return v.K == kList && allInts(v) }, kinds: kset(kList), elem: kset(kInt)},
		{name: "List[any]", elk: "::Std::List[any]", holds: is(kList), kinds: kset(kList)},
		{name: "Tuple[any]", elk: "::Std::Tuple[any]", holds: is(kList, kTuple), kinds: kset(kList, kTuple)},
		{name: "ArrayTuple[any]", elk: "::Std::ArrayTuple[any]", holds: is(kTuple), kinds: kset(kTuple)},
		{name: "HashMap[any,any]", elk: "::Std::HashMap[any, any]", holds: is(kMap), kinds: kset(kMap)},
		{name: "Record[any,any]", elk: "::Std::Record[any, any]", holds: is(kMap, kRec), kinds: kset(kMap, kRec)},
		{name: "HashRecord[any,any]", elk: "::Std::HashRecord[any, any]", holds: is(kRec), kinds: kset(kRec)},
		{name: "HashSet[any]", elk: "::Std::HashSet[any]", holds: is(kSet), kinds: kset(kSet)},
		{name: "Foo", elk: "Foo", holds: is(kObj), kinds: kset(kObj)},
		{name: "Int", elk: "::Std::Int", holds: is(kInt), kinds: kset(kInt)},
		{name: "Int?", elk: "::Std::Int?", holds: is(kInt, kNil), kinds: kset(kInt, kNil)},
		{name: "String", elk: "::Std::String", holds: is(kStr), kinds: kset(kStr)},
		{name: "Int|String|Symbol|nil", elk: "::Std::Int | ::Std::String | ::Std::Symbol | nil", holds: is(kInt, kStr, kSym, kNil), kinds: kset(kInt, kStr, kSym, kNil)},
		{name: "bool?", elk: "bool?", holds: is(kBool, kNil), kinds: kset(kBool, kNil)},
		{name: "ArrayList[any]|Foo|Int", elk: "::Std::ArrayList[any] | Foo | ::Std::Int", holds: is(kList, kObj, kInt), kinds: kset(kList, kObj, kInt),
			ctor: func(v *Val) string {
				if v.K == kList {
					return "::Std::ArrayList[any]"
				}
				return "::Std::ArrayList[any] | Foo | ::Std::Int"
			}},
	}
}

// footprint: kinds of values a pattern can possibly match at top level (nil = every kind).
func footprint(p *Pat) map[kind]bool {
	switch p.F {
	case fLit:
		return kset(p.V.K)
	case fRel:
		if p.Op == "!=" {
			return nil
		}
		return kset(p.V.K)
	case fRange:
		if p.Lo != nil {
			return kset(p.Lo.K)
		}
		return kset(p.Hi.K)
	case fRegex:
		return kset(kStr)
	case fList:
		return kset(kList)
	case fTuple:
		return kset(kList, kTuple)
	case fMap:
		return kset(kMap)
	case fRec:
		return kset(kMap, kRec)
	case fSet:
		return kset(kSet)
	case fConst:
		return map[kind]bool{}
	case fObj:
		m := map[kind]bool{}
		for k := kInt; k <= kObj; k++ {
			probe := &Val{K: k, S: "Bar"}
			if probe.isA(p.Cls) {
				m[k] = true
			}
		}
		return m
	case fAs:
		return footprint(p.Sub[0])
	case fAnd:
		return footprint(p.Sub[0])
	}
	return nil
}

func intersects(a, b map[kind]bool) bool {
	if a == nil || b == nil {
		return true
	}
	for k := range a {
		if b[k] {
			return true
		}
	}
	return false
}

// admissible predicts whether the checker can admit pattern p against values of the given kinds (conservative
// approximation of checkCanMatch: every leaf must intersect the matched type).
func admissible(p *Pat, kinds, elem map[kind]bool) bool {
	switch p.F {
	case fBind, fWild, fMust:
		return true
	case fNilable:
		return (kinds == nil || kinds[kNil]) && admissible(p.Sub[0], kinds, elem)
	case fOr:
		return admissible(p.Sub[0], kinds, elem) && admissible(p.Sub[1], kinds, elem)
	case fAnd:
		// the right operand is checked against the type of the left one
		rk := kinds
		if fp := footprint(p.Sub[0]); fp != nil {
			rk = fp
		}
		if p.Sub[0].F == fMust {
			rk = map[kind]bool{}
			for k := kInt; k <= kObj; k++ {
				if k != kNil && (kinds == nil || kinds[k]) {
					rk[k] = true
				}
			}
		}
		return admissible(p.Sub[0], kinds, elem) && admissible(p.Sub[1], rk, elem)
	case fAs:
		return admissible(p.Sub[0], kinds, elem)
	}
	if kinds != nil && !intersects(footprint(p), kinds) {
		return false
	}
	switch p.F {
	case fList, fTuple:
		for _, s := range p.Sub {
			if !admissible(s, elem, nil) {
				return false
			}
		}
	case fMap, fRec:
		for _, s := range p.Sub {
			if s != nil && !admissible(s, elem, nil) {
				return false
			}
		}
	case fObj:
		wild := 0
		for i, s := range p.Sub {
			if s == nil {
				continue
			}
			var ak map[kind]bool
			if n := p.Keys[i].S; n == "a" || n == "length" {
				ak = kset(kInt)
			}
			if !admissible(s, ak, nil) {
				return false
			}
			if s.F == fWild {
				wild++
			}
		}
		if wild > 1 {
			return false // `_` is an ordinary variable: a second `_` of another type is an assignment the checker rejects
		}
	case fSet:
		for _, s := range p.Sub {
			if s.F == fLit && elem != nil && !elem[s.V.K] {
				return false
			}
		}
	}
	return true
}

// ---------------------------------------------------------------------------------------------------------------
// pattern enumeration

// atoms: every depth-1 pattern of the space
func atoms() []*Pat {
	var a []*Pat
	for _, v := range []*Val{vi(1), vi(2), vi(-1), vf("2.5"), vs("a"), vy("a"), vnil(), vb(true), vb(false)} {
		a = append(a, pLit(v))
	}
	a = append(a, pRel("<", vi(2)), pRel(">=", vi(2)), pRel("<=", vi(1)), pRel(">", vi(2)), pRel("<", vs("b")), pRel("==", vi(2)), pRel("!=", vi(2)), pRel("!=", vnil()))
	a = append(a, pRange(vi(1), "...", vi(2)), pRange(vi(2), "..<", vi(5)), pRange(vi(1), "<..", vi(3)), pRange(vi(1), "<.<", vi(3)),
		pRange(nil, "...", vi(1)), pRange(vi(2), "...", nil), pRange(nil, "..<", vi(2)), pRange(vi(1), "<..", nil), pRange(vs("a"), "...", vs("b")))
	a = append(a, pBind(), pWild(), pMust(), pRegex("a"))
	for _, c := range []string{"::Std::Int", "::Std::String", "::Std::Nil", "::Std::Value", "Foo", "Bar", "::Std::ArrayList", "::Std::List", "::Std::Tuple", "::Std::HashMap", "::Std::Map", "::Std::Record", "::Std::Set"} {
		a = append(a, pType(c))
	}
	a = append(a, pConst("::Std::Int"), pConst("Foo"))
	a = append(a, pSet(false), pSet(false, pLit(vi(1))), pSet(false, pLit(vi(1)), pLit(vi(2))), pSet(true, pLit(vi(2))), pSet(true), pSet(false, pWild(), pLit(vi(1))), pSet(false, pLit(vs("a"))))
	a = append(a, pSeq(fList, -1, false), pSeq(fTuple, -1, false), pDict(fMap, true), pDict(fRec, true),
		pSeq(fList, 0, true), pSeq(fList, 0, false), pSeq(fTuple, 0, true), pSeq(fTuple, 0, false),
		pDict(fMap, true, vy("a"), nil), pDict(fRec, true, vy("a"), nil), pObj("Foo", "a", nil), pObj("Foo", "a", nil, "b", nil), pObj("::Std::ArrayList", "length", nil))
	return a
}

// kids: the sub-pattern pool used to fill the slots of composite forms
func kids(thorough bool) []*Pat {
	k := []*Pat{pLit(vi(1)), pLit(vs("a")), pLit(vnil()), pRel("<", vi(2)), pRange(vi(1), "...", vi(2)), pBind(), pWild(), pType("::Std::Int"), pSet(false, pLit(vi(1))), pMust()}
	if thorough {
		k = append(k, pLit(vi(2)), pLit(vy("a")), pRel("!=", vi(2)), pType("::Std::List"), pSeq(fList, 0, true), pLit(vb(true)))
	}
	return k
}

// shape is a composite form with n slots
type shape struct {
	name string
	n    int
	mk   func(s []*Pat) *Pat
}

func shapes() []shape {
	var sh []shape
	for _, f := range []form{fList, fTuple} {
		f := f
		n := formName[f]
		sh = append(sh,
			shape{n + "[p]", 1, func(s []*Pat) *Pat { return pSeq(f, -1, false, s[0]) }},
			shape{n + "[p,q]", 2, func(s []*Pat) *Pat { return pSeq(f, -1, false, s[0], s[1]) }},
			shape{n + "[p,*r]", 1, func(s []*Pat) *Pat { return pSeq(f, 1, true, s[0]) }},
			shape{n + "[p,*]", 1, func(s []*Pat) *Pat { return pSeq(f, 1, false, s[0]) }},
			shape{n + "[*r,p]", 1, func(s []*Pat) *Pat { return pSeq(f, 0, true, s[0]) }},
			shape{n + "[*,p]", 1, func(s []*Pat) *Pat { return pSeq(f, 0, false, s[0]) }},
			shape{n + "[p,*r,q]", 2, func(s []*Pat) *Pat { return pSeq(f, 1, true, s[0], s[1]) }},
			shape{n + "[p,q,*r]", 2, func(s []*Pat) *Pat { return pSeq(f, 2, true, s[0], s[1]) }},
			shape{n + "[*,p,q]", 2, func(s []*Pat) *Pat { return pSeq(f, 0, false, s[0], s[1]) }},
		)
	}
	sh = append(sh,
		shape{"map{1=>p}", 1, func(s []*Pat) *Pat { return pDict(fMap, true, vi(1), s[0]) }},
		shape{"map{a:p}", 1, func(s []*Pat) *Pat { return pDict(fMap, true, vy("a"), s[0]) }},
		shape{"map{1=>p,3=>q}", 2, func(s []*Pat) *Pat { return pDict(fMap, true, vi(1), s[0], vi(3), s[1]) }},
		shape{"rec{a:p}", 1, func(s []*Pat) *Pat { return pDict(fRec, true, vy("a"), s[0]) }},
		shape{"rec{:a=>p}", 1, func(s []*Pat) *Pat { return pDict(fRec, false, vy("a"), s[0]) }},
		shape{"rec{1=>p}", 1, func(s []*Pat) *Pat { return pDict(fRec, true, vi(1), s[0]) }},
		shape{"rec{a:p,b:q}", 2, func(s []*Pat) *Pat { return pDict(fRec, true, vy("a"), s[0], vy("b"), s[1]) }},
		shape{"rec{a,b:q}", 1, func(s []*Pat) *Pat { return pDict(fRec, true, vy("a"), nil, vy("b"), s[0]) }},
		shape{"Foo(a:p)", 1, func(s []*Pat) *Pat { return pObj("Foo", "a", s[0]) }},
		shape{"Foo(b:p)", 1, func(s []*Pat) *Pat { return pObj("Foo", "b", s[0]) }},
		shape{"Bar(b:p)", 1, func(s []*Pat) *Pat { return pObj("Bar", "b", s[0]) }},
		shape{"Foo(a:p,b:q)", 2, func(s []*Pat) *Pat { return pObj("Foo", "a", s[0], "b", s[1]) }},
		shape{"Foo(b,a:p)", 1, func(s []*Pat) *Pat { return pObj("Foo", "b", nil, "a", s[0]) }},
		shape{"Foo(b:p,a)", 1, func(s []*Pat) *Pat { return pObj("Foo", "b", s[0], "a", nil) }},
		shape{"ArrayList(length:p)", 1, func(s []*Pat) *Pat { return pObj("::Std::ArrayList", "length", s[0]) }},
		shape{"List(length:p)", 1, func(s []*Pat) *Pat { return pObj("::Std::List", "length", s[0]) }},
		shape{"String(length:p)", 1, func(s []*Pat) *Pat { return pObj("::Std::String", "length", s[0]) }},
		shape{"p as x", 1, func(s []*Pat) *Pat { return pAs(s[0]) }},
		shape{"p?", 1, func(s []*Pat) *Pat { return pNilable(s[0]) }},
		shape{"p||q", 2, func(s []*Pat) *Pat { return pOr(s[0], s[1]) }},
		shape{"p&&q", 2, func(s []*Pat) *Pat { return pAnd(s[0], s[1]) }},
	)
	return sh
}

// fill enumerates all instantiations of a shape over a pool
func fill(s shape, pool []*Pat) []*Pat {
	var out []*Pat
	if s.n == 1 {
		for _, a := range pool {
			out = append(out, s.mk([]*Pat{a.clone()}))
		}
		return out
	}
	for _, a := range pool {
		for _, b := range pool {
			out = append(out, s.mk([]*Pat{a.clone(), b.clone()}))
		}
	}
	return out
}

type group struct {
	id   string
	pats []*Pat
}

// crashProne: two rest-bearing list/tuple patterns compiled in one scope at the same nesting level kill the compiling
// goroutine (and with it the worker); such patterns get a case of their own.
func restLevels(p *Pat, level int, acc map[int]int) {
	if p == nil {
		return
	}
	l := level
	switch p.F {
	case fList, fTuple:
		if p.Rest >= 0 {
			acc[level]++
		}
		l = level + 1
	case fMap, fRec, fObj, fSet:
		l = level + 1
	}
	for _, s := range p.Sub {
		restLevels(s, l, acc)
	}
}

func crashProne(p *Pat) bool {
	acc := map[int]int{}
	restLevels(p, 0, acc)
	for _, n := range acc {
		if n > 1 {
			return true
		}
	}
	return false
}

// depth2 enumerates atoms and every shape filled from the kid pool (as / ? over all atoms), grouped for case building.
func depth2(thorough bool) []group {
	var gs []group
	gs = append(gs, group{"atoms", atoms()})
	pool := kids(thorough)
	for _, s := range shapes() {
		p := pool
		if s.name == "p as x" || s.name == "p?" {
			p = atoms()
		}
		gs = append(gs, group{s.name, fill(s, p)})
	}
	rl := []*Pat{pSeq(fList, 1, true, pLit(vi(1))), pSeq(fList, 0, true, pLit(vi(2))), pSeq(fTuple, 0, false, pLit(vi(1))), pSeq(fList, 0, false)}
	var extra []*Pat
	for _, a := range rl {
		for _, b := range rl {
			extra = append(extra, pOr(a.clone(), b.clone()), pAnd(a.clone(), b.clone()))
		}
	}
	gs = append(gs, group{"rest-lists-combined", extra})
	// an outer list pattern with a leading rest element followed by sibling nested list patterns (with and without rest
	// elements of their own): the hidden length / iterator locals of the nesting levels must not be mixed up
	nested := func() []*Pat {
		return []*Pat{pSeq(fList, -1, false, pLit(vi(1))), pSeq(fList, 0, false, pLit(vi(2))), pSeq(fList, 0, true, pLit(vi(2))), pSeq(fList, -1, false, pBind()), pLit(vi(3)), pBind()}
	}
	var sib []*Pat
	for ai := range nested() {
		for bi := range nested() {
			for _, named := range []bool{false, true} {
				for _, last := range []*Pat{pLit(vi(3)), pBind()} {
					sib = append(sib, pSeq(fList, 0, named, nested()[ai], nested()[bi], last.clone()))
				}
			}
		}
	}
	gs = append(gs, group{"sibling-nested-lists", sib})
	// the same variable bound by both alternatives (it keeps the value of the alternative that matched)
	sv := func() *Pat { return pVar("sv") }
	l1 := func() *Pat { return pSeq(fList, -1, false, sv(), pLit(vi(1))) }
	l2 := func() *Pat { return pSeq(fList, -1, false, pLit(vi(2)), sv()) }
	same := []*Pat{
		pOr(sv(), sv()), pOr(l1(), l2()), pOr(l2(), l1()), pOr(l1(), sv()), pOr(pLit(vi(1)), pOr(l1(), sv())),
		pOr(pOr(l1(), l2()), sv()), pOr(pObj("Foo", "a", sv()), pSeq(fList, 1, false, sv())), pOr(pDict(fMap, true, vi(1), sv()), pSeq(fTuple, -1, false, sv(), pWild())),
		pOr(pDict(fRec, true, vy("a"), sv()), pSeq(fList, -1, false, sv())), pOr(pAs(pLit(vi(1))).withName("sv"), l1()),
		pSeq(fList, -1, false, pOr(l1(), l2()), pBind()), pAs(pOr(l1(), l2())), pOr(pAnd(pType("::Std::Int"), sv()), l1()),
		pOr(l1(), pOr(pBind(), sv())), pOr(pSeq(fList, -1, false, sv(), pBind()), pSeq(fTuple, -1, false, pBind(), sv(), pWild())),
		pObj("Foo", "b", pOr(l1(), l2())), pNilable(pOr(l1(), l2())),
		// bound by an earlier part of the pattern, named again inside an alternative
		pSeq(fList, -1, false, sv(), pOr(pLit(vi(1)), sv())), pSeq(fList, -1, false, sv(), pOr(pLit(vi(2)), pLit(vi(1)))),
		pSeq(fTuple, -1, false, sv(), pOr(pSeq(fList, -1, false, sv()), pLit(vi(2)))), pSeq(fList, -1, false, sv(), pNilable(pSeq(fList, -1, false, sv()))),
	}
	gs = append(gs, group{"same-variable-alternatives", same})
	return gs
}

// depth3 enumerates spines: every shape with one slot holding a depth-2 pattern (built from a small kid pool) and the
// other slot (if any) an atom of the small pool.
func depth3() []group {
	small := []*Pat{pLit(vi(1)), pBind(), pWild()}
	var inner []*Pat
	for _, s := range shapes() {
		inner = append(inner, fill(s, small)...)
	}
	var gs []group
	for _, s := range shapes() {
		var ps []*Pat
		if s.n == 1 {
			for _, in := range inner {
				ps = append(ps, s.mk([]*Pat{in.clone()}))
			}
		} else {
			for _, in := range inner {
				ps = append(ps, s.mk([]*Pat{in.clone(), pBind()}), s.mk([]*Pat{pBind(), in.clone()}))
			}
		}
		gs = append(gs, group{"d3/" + s.name, ps})
	}
	return gs
}

// multiPool: representative patterns for the ordered pairs / triples of cases
func multiPool(n int) []*Pat {
	all := []*Pat{
		pLit(vi(1)), pRel("<", vi(2)), pSeq(fList, 1, true, pLit(vi(1))), pSeq(fTuple, -1, false, pBind(), pBind()), pBind(),
		pObj("Foo", "a", pLit(vi(1)), "b", nil), pDict(fMap, true, vi(1), pBind()), pLit(vnil()), pOr(pLit(vs("a")), pType("::Std::List")),
		pSet(true, pLit(vi(1))), pRange(vi(1), "...", vi(2)), pType("::Std::Int"),
		// beyond 12
		pLit(vi(2)), pLit(vs("a")), pLit(vy("a")), pLit(vb(true)), pRel(">=", vi(2)), pRel("!=", vnil()), pMust(),
		pSeq(fList, -1, false, pLit(vi(1)), pBind()), pSeq(fList, 0, true, pLit(vi(1))), pSeq(fList, -1, false), pSeq(fTuple, 1, false, pBind()),
		pSeq(fList, -1, false, pSeq(fList, -1, false, pBind(), pLit(vi(2))), pBind()),
		pDict(fRec, true, vy("a"), pBind()), pDict(fRec, true, vy("a"), pLit(vi(1)), vy("b"), pBind()), pDict(fMap, true, vi(1), pLit(vi(2)), vi(3), pBind()),
		pObj("Foo", "b", pSeq(fList, 1, false, pLit(vi(1)))), pObj("Bar", "a", nil), pObj("::Std::ArrayList", "length", pAs(pRel(">", vi(2)))),
		pType("::Std::String"), pType("Foo"), pType("::Std::Tuple"), pType("::Std::Record"),
		pAs(pSeq(fList, -1, false, pWild(), pWild())), pNilable(pLit(vi(1))), pAnd(pType("::Std::Int"), pRel(">", vi(2))), pOr(pLit(vi(1)), pBind()),
		pSet(false, pLit(vi(1)), pLit(vi(2))), pRange(vs("a"), "...", vs("b")),
	}
	if n > len(all) {
		n = len(all)
	}
	return all[:n]
}

// neverMatching: patterns that match no value of the universe and fail at different points of their compiled code
func neverMatching() []*Pat {
	return []*Pat{
		pLit(vi(99)),
		pSeq(fList, 1, false, pLit(vi(99))),
		pSeq(fTuple, 0, true, pLit(vi(99))),
		pSeq(fList, -1, false, pBind(), pLit(vi(99))),
		pDict(fMap, true, vi(1), pLit(vi(99))),
		pDict(fRec, true, vy("a"), pAs(pLit(vi(99)))),
		pObj("Foo", "b", nil, "a", pLit(vi(99))),
		pObj("::Std::ArrayList", "length", pLit(vi(99))),
		pOr(pLit(vi(99)), pLit(vi(98))),
		pAnd(pBind(), pLit(vi(99))),
		pSet(true, pLit(vi(99))),
		pAs(pRange(vi(98), "...", vi(99))),
	}
}

func init() {
	// sanity: shapes have distinct names
	seen := map[string]bool{}
	for _, s := range shapes() {
		if seen[s.name] {
			panic(fmt.Sprint("duplicate shape ", s.name))
		}
		seen[s.name] = true
	}
}
