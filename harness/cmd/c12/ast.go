package main

// A tiny program AST for C12: just enough structure to apply the four meaning-preserving edits at every
// position (statement lists, expression nodes, declared locals, top-level definitions) and print Elk source.

import (
	"fmt"
	"strings"
)

type Expr interface{}

type (
	Lit struct{ S string } // 1, "s", nil, true
	Var struct{ N string }
	Bin struct {
		Op   string
		L, R Expr
	}
	Call struct { // method call f(args)
		F    string
		Args []Expr
	}
	CallFn struct { // closure call f.(args)
		F    Expr
		Args []Expr
	}
	Clo struct { // |p: T, …| -> body
		Params []Param
		Body   Expr
	}
	Paren    struct{ E Expr }
	Await    struct{ E Expr } // await e
	MethCall struct {         // recv.name(args); User: name is defined by the program (gets the unit suffix)
		Recv Expr
		Name string
		Args []Expr
		User bool
	}
)

type Param struct{ N, T string }

type Stmt interface{}

type (
	Let struct { // N := E   |   var N: T = E
		N, T string
		E    Expr
	}
	Asg struct { // N = E | N += E
		N, Op string
		E     Expr
	}
	ExprS struct{ E Expr }
	Print struct{ E Expr }
	Ret   struct{ E Expr }
	RetIf struct{ E, C Expr } // return E if C
	If    struct {
		C          Expr
		Then, Else []Stmt
	}
	While struct {
		C    Expr
		Body []Stmt
	}
	Throw struct{ Sym string }
	Defer struct{ E Expr } // defer println(E)
	Yield struct{ E Expr }
	ForIn struct { // for V in E … end
		V    string
		E    Expr
		Body []Stmt
	}
	Do struct {
		Body     []Stmt
		CatchSym string // "" = no catch
		Catch    []Stmt
		Finally  []Stmt // nil = no finally
		HasFin   bool
	}
)

type Def struct {
	Name   string
	Params []Param
	Ret    string
	Throws string // "" or ":neg"
	Body   []Stmt
	Kind   string // "" | "gen" (def *name) | "async" (async def name) | "init"
}

// Class is a class (or module) with one attribute, an optional init and instance (module) methods.
type Class struct {
	Module  bool
	Name    string
	Attr    *Param
	Init    *Def
	Methods []*Def
}

type Prog struct {
	Name    string
	Classes []*Class
	Defs    []*Def
	Main    []Stmt
}

// bodies returns every method-like body of the program: top-level methods, then inits and methods of classes.
func (p *Prog) bodies() []*Def {
	out := append([]*Def(nil), p.Defs...)
	for _, c := range p.Classes {
		if c.Init != nil {
			out = append(out, c.Init)
		}
		out = append(out, c.Methods...)
	}
	return out
}

// ---------------------------------------------------------------------------------------------
// Printer. sfx is appended to every method, parameter and local name (used to make units of a batch disjoint).

type printer struct {
	sfx   string
	lines []string
}

var prec = map[string]int{"||": 1, "&&": 2, "==": 3, "!=": 3, "<": 4, "<=": 4, ">": 4, ">=": 4, "+": 5, "-": 5, "*": 6, "%": 6}

func (p *printer) name(n string) string {
	if strings.HasPrefix(n, "@") {
		return n // instance variables belong to the (already renamed) class
	}
	return n + p.sfx
}

func (p *printer) expr(e Expr) string {
	switch v := e.(type) {
	case Lit:
		return v.S
	case Var:
		return p.name(v.N)
	case Paren:
		return "(" + p.expr(v.E) + ")"
	case Bin:
		l, r := p.expr(v.L), p.expr(v.R)
		if needParen(v.L, prec[v.Op], false) {
			l = "(" + l + ")"
		}
		if needParen(v.R, prec[v.Op], true) {
			r = "(" + r + ")"
		}
		return l + " " + v.Op + " " + r
	case Call:
		var as []string
		for _, a := range v.Args {
			as = append(as, p.expr(a))
		}
		return p.name(v.F) + "(" + strings.Join(as, ", ") + ")"
	case CallFn:
		var as []string
		for _, a := range v.Args {
			as = append(as, p.expr(a))
		}
		f := p.expr(v.F)
		switch v.F.(type) {
		case Var, Paren:
		default:
			f = "(" + f + ")"
		}
		return f + ".(" + strings.Join(as, ", ") + ")"
	case Await:
		return "await " + p.expr(v.E)
	case MethCall:
		var as []string
		for _, a := range v.Args {
			as = append(as, p.expr(a))
		}
		r := p.expr(v.Recv)
		switch v.Recv.(type) {
		case Var, Paren, Call, Lit:
		default:
			r = "(" + r + ")"
		}
		n := v.Name
		if v.User {
			n = p.name(n)
		}
		if len(as) == 0 {
			return r + "." + n
		}
		return r + "." + n + "(" + strings.Join(as, ", ") + ")"
	case Clo:
		body := p.expr(v.Body)
		if len(v.Params) == 0 {
			return "-> " + body
		}
		var ps []string
		for _, q := range v.Params {
			ps = append(ps, p.name(q.N)+": "+q.T)
		}
		return "|" + strings.Join(ps, ", ") + "| -> " + body
	}
	panic(fmt.Sprintf("expr %T", e))
}

// needParen: syntactically required parentheses (not an edit).
func needParen(child Expr, parent int, right bool) bool {
	switch c := child.(type) {
	case Bin:
		return prec[c.Op] < parent || (right && prec[c.Op] == parent)
	case Clo, Await:
		return true
	}
	return false
}

func (p *printer) emit(ind int, s string) { p.lines = append(p.lines, strings.Repeat("  ", ind)+s) }

func (p *printer) stmts(ind int, ss []Stmt) {
	for _, s := range ss {
		p.stmt(ind, s)
	}
}

func (p *printer) stmt(ind int, s Stmt) {
	switch v := s.(type) {
	case Let:
		if v.T != "" {
			p.emit(ind, fmt.Sprintf("var %s: %s = %s", p.name(v.N), v.T, p.expr(v.E)))
		} else {
			p.emit(ind, fmt.Sprintf("%s := %s", p.name(v.N), p.expr(v.E)))
		}
	case Asg:
		p.emit(ind, fmt.Sprintf("%s %s %s", p.name(v.N), v.Op, p.expr(v.E)))
	case ExprS:
		p.emit(ind, p.expr(v.E))
	case Print:
		p.emit(ind, "println("+p.expr(v.E)+")")
	case Ret:
		p.emit(ind, "return "+p.expr(v.E))
	case RetIf:
		p.emit(ind, "return "+p.expr(v.E)+" if "+p.expr(v.C))
	case If:
		p.emit(ind, "if "+p.expr(v.C))
		p.stmts(ind+1, v.Then)
		if v.Else != nil {
			p.emit(ind, "else")
			p.stmts(ind+1, v.Else)
		}
		p.emit(ind, "end")
	case While:
		p.emit(ind, "while "+p.expr(v.C))
		p.stmts(ind+1, v.Body)
		p.emit(ind, "end")
	case Throw:
		p.emit(ind, "throw "+v.Sym)
	case Defer:
		p.emit(ind, "defer println("+p.expr(v.E)+")")
	case Yield:
		p.emit(ind, "yield "+p.expr(v.E))
	case ForIn:
		p.emit(ind, "for "+p.name(v.V)+" in "+p.expr(v.E))
		p.stmts(ind+1, v.Body)
		p.emit(ind, "end")
	case Do:
		p.emit(ind, "do")
		p.stmts(ind+1, v.Body)
		if v.CatchSym != "" {
			p.emit(ind, "catch "+v.CatchSym)
			p.stmts(ind+1, v.Catch)
		}
		if v.HasFin {
			p.emit(ind, "finally")
			p.stmts(ind+1, v.Finally)
		}
		p.emit(ind, "end")
	default:
		panic(fmt.Sprintf("stmt %T", s))
	}
}

func (p *printer) def(ind int, d *Def) {
	var ps []string
	for _, q := range d.Params {
		ps = append(ps, p.name(q.N)+": "+q.T)
	}
	var h string
	switch d.Kind {
	case "gen":
		h = "def *" + p.name(d.Name)
	case "async":
		h = "async def " + p.name(d.Name)
	case "init":
		h = "init"
	default:
		h = "def " + p.name(d.Name)
	}
	if len(ps) > 0 {
		h += "(" + strings.Join(ps, ", ") + ")"
	}
	if d.Kind != "init" {
		h += ": " + d.Ret
	}
	if d.Throws != "" {
		h += " ! " + d.Throws
	}
	p.emit(ind, h)
	p.stmts(ind+1, d.Body)
	p.emit(ind, "end")
}

func (p *printer) class(c *Class) {
	kw := "class "
	if c.Module {
		kw = "module "
	}
	p.emit(0, kw+p.name(c.Name))
	if c.Attr != nil {
		p.emit(1, "attr "+c.Attr.N+": "+c.Attr.T)
	}
	if c.Init != nil {
		p.def(1, c.Init)
	}
	for _, m := range c.Methods {
		p.def(1, m)
	}
	p.emit(0, "end")
}

// printUnit returns the definition lines and the main lines.
func printUnit(pr *Prog, sfx string) (defs, main []string) {
	p := &printer{sfx: sfx}
	for _, c := range pr.Classes {
		p.class(c)
	}
	for _, d := range pr.Defs {
		p.def(0, d)
	}
	defs = p.lines
	p.lines = nil
	p.stmts(0, pr.Main)
	return defs, p.lines
}

func source(pr *Prog) string {
	d, m := printUnit(pr, "")
	return strings.Join(d, "\n") + "\n" + strings.Join(m, "\n") + "\n"
}

// ---------------------------------------------------------------------------------------------
// Edits. Every edit kind is a copying traversal with a site counter: the site numbered `target` is edited.
// With target < 0 nothing is edited and the number of sites is returned.

type editor struct {
	kind   string // "insert" | "paren"
	target int
	n      int
	ins    Stmt   // statement to insert
	before string // description of the site that was edited
}

func describe(s Stmt) string {
	switch v := s.(type) {
	case Let:
		if _, ok := v.E.(Clo); ok {
			return "closure-local"
		}
		return "local"
	case Asg:
		return "assignment"
	case ExprS:
		return "expression"
	case Print:
		return "println"
	case Ret, RetIf:
		return "return"
	case If:
		return "if"
	case While:
		return "while"
	case Throw:
		return "throw"
	case Defer:
		return "defer"
	case Yield:
		return "yield"
	case ForIn:
		return "for-in"
	case Do:
		return "do"
	}
	return "?"
}

func exprKind(e Expr) string {
	switch e.(type) {
	case Lit:
		return "literal"
	case Var:
		return "local"
	case Bin:
		return "binary"
	case Call:
		return "method-call"
	case CallFn:
		return "closure-call"
	case Clo:
		return "closure-literal"
	case Await:
		return "await"
	case MethCall:
		return "method-call"
	}
	return "?"
}

func (ed *editor) list(ss []Stmt, where string) []Stmt {
	if ss == nil {
		return nil
	}
	out := make([]Stmt, 0, len(ss)+1)
	for _, s := range ss {
		if ed.kind == "insert" {
			if ed.n == ed.target {
				out = append(out, ed.ins)
				ed.before = describe(s) + " in=" + where
			}
			ed.n++
		}
		out = append(out, ed.stmt(s, where))
	}
	return out
}

func (ed *editor) e(x Expr, ctx string) Expr {
	if x == nil {
		return nil
	}
	var out Expr
	switch v := x.(type) {
	case Lit, Var:
		out = v
	case Paren:
		return Paren{ed.e(v.E, ctx)}
	case Bin:
		out = Bin{v.Op, ed.e(v.L, "operand"), ed.e(v.R, "operand")}
	case Call:
		out = Call{v.F, ed.es(v.Args, "argument")}
	case CallFn:
		out = CallFn{ed.e(v.F, "callee"), ed.es(v.Args, "argument")}
	case Clo:
		out = Clo{v.Params, ed.e(v.Body, "closure-body")}
	case Await:
		out = Await{ed.e(v.E, "awaited")}
	case MethCall:
		out = MethCall{ed.e(v.Recv, "receiver"), v.Name, ed.es(v.Args, "argument"), v.User}
	}
	if ed.kind == "paren" {
		if ed.n == ed.target {
			ed.before = exprKind(x) + " as=" + ctx
			ed.n++
			return Paren{out}
		}
		ed.n++
	}
	return out
}

func (ed *editor) es(xs []Expr, ctx string) []Expr {
	var out []Expr
	for _, x := range xs {
		out = append(out, ed.e(x, ctx))
	}
	return out
}

func (ed *editor) stmt(s Stmt, where string) Stmt {
	switch v := s.(type) {
	case Let:
		return Let{v.N, v.T, ed.e(v.E, "initialiser")}
	case Asg:
		return Asg{v.N, v.Op, ed.e(v.E, "assigned")}
	case ExprS:
		return ExprS{ed.e(v.E, "statement")}
	case Print:
		return Print{ed.e(v.E, "argument")}
	case Ret:
		return Ret{ed.e(v.E, "return-value")}
	case RetIf:
		return RetIf{ed.e(v.E, "return-value"), ed.e(v.C, "condition")}
	case If:
		return If{ed.e(v.C, "condition"), ed.list(v.Then, "if"), ed.list(v.Else, "else")}
	case While:
		return While{ed.e(v.C, "condition"), ed.list(v.Body, "while")}
	case Throw:
		return v
	case Defer:
		return Defer{ed.e(v.E, "argument")}
	case Yield:
		return Yield{ed.e(v.E, "yielded")}
	case ForIn:
		return ForIn{v.V, ed.e(v.E, "iterated"), ed.list(v.Body, "for-in")}
	case Do:
		return Do{ed.list(v.Body, "do"), v.CatchSym, ed.list(v.Catch, "catch"), ed.list(v.Finally, "finally"), v.HasFin}
	}
	panic(fmt.Sprintf("stmt %T", s))
}

func (ed *editor) prog(p *Prog) *Prog {
	q := &Prog{Name: p.Name}
	where := map[string]string{"": "method", "gen": "generator", "async": "async-method", "init": "init"}
	cp := func(d *Def, in string) *Def {
		if d == nil {
			return nil
		}
		return &Def{d.Name, append([]Param(nil), d.Params...), d.Ret, d.Throws, ed.list(d.Body, in), d.Kind}
	}
	for _, d := range p.Defs {
		q.Defs = append(q.Defs, cp(d, where[d.Kind]))
	}
	for _, c := range p.Classes {
		nc := &Class{Module: c.Module, Name: c.Name, Attr: c.Attr, Init: cp(c.Init, "init")}
		for _, m := range c.Methods {
			in := "instance-" + where[m.Kind]
			if c.Module {
				in = "module-" + where[m.Kind]
			}
			nc.Methods = append(nc.Methods, cp(m, in))
		}
		q.Classes = append(q.Classes, nc)
	}
	q.Main = ed.list(p.Main, "top-level")
	return q
}

func countSites(p *Prog, kind string) int {
	ed := &editor{kind: kind, target: -1}
	ed.prog(p)
	return ed.n
}

// ---------------------------------------------------------------------------------------------
// Renaming: one declared local (parameter, `:=`/`var` local, closure parameter) of one scope (a method or the
// top level) is renamed at its declaration and at every use inside that scope (closure bodies included).

type scopeNames struct {
	scope int // index into Prog.bodies(), len(bodies) = top level
	names []string
}

func declared(p *Prog) []scopeNames {
	var out []scopeNames
	collect := func(params []Param, body []Stmt) []string {
		var ns []string
		add := func(n string) {
			for _, m := range ns {
				if m == n {
					return
				}
			}
			ns = append(ns, n)
		}
		for _, q := range params {
			add(q.N)
		}
		var we func(Expr)
		var ws func([]Stmt)
		we = func(x Expr) {
			switch v := x.(type) {
			case Paren:
				we(v.E)
			case Bin:
				we(v.L)
				we(v.R)
			case Call:
				for _, a := range v.Args {
					we(a)
				}
			case CallFn:
				we(v.F)
				for _, a := range v.Args {
					we(a)
				}
			case Clo:
				for _, q := range v.Params {
					add(q.N)
				}
				we(v.Body)
			case Await:
				we(v.E)
			case MethCall:
				we(v.Recv)
				for _, a := range v.Args {
					we(a)
				}
			}
		}
		ws = func(ss []Stmt) {
			for _, s := range ss {
				switch v := s.(type) {
				case Let:
					add(v.N)
					we(v.E)
				case Asg:
					we(v.E)
				case ExprS:
					we(v.E)
				case Print:
					we(v.E)
				case Defer:
					we(v.E)
				case Yield:
					we(v.E)
				case ForIn:
					add(v.V)
					we(v.E)
					ws(v.Body)
				case Ret:
					we(v.E)
				case RetIf:
					we(v.E)
					we(v.C)
				case If:
					we(v.C)
					ws(v.Then)
					ws(v.Else)
				case While:
					we(v.C)
					ws(v.Body)
				case Do:
					ws(v.Body)
					ws(v.Catch)
					ws(v.Finally)
				}
			}
		}
		ws(body)
		return ns
	}
	bodies := p.bodies()
	for i, d := range bodies {
		out = append(out, scopeNames{i, collect(d.Params, d.Body)})
	}
	out = append(out, scopeNames{len(bodies), collect(nil, p.Main)})
	return out
}

func rename(p *Prog, scope int, from, to string) *Prog {
	r := func(n string) string {
		if n == from {
			return to
		}
		return n
	}
	var re func(Expr) Expr
	var rs func([]Stmt) []Stmt
	rps := func(ps []Param) []Param {
		var out []Param
		for _, q := range ps {
			out = append(out, Param{r(q.N), q.T})
		}
		return out
	}
	res := func(xs []Expr) []Expr {
		var out []Expr
		for _, x := range xs {
			out = append(out, re(x))
		}
		return out
	}
	re = func(x Expr) Expr {
		switch v := x.(type) {
		case Var:
			return Var{r(v.N)}
		case Paren:
			return Paren{re(v.E)}
		case Bin:
			return Bin{v.Op, re(v.L), re(v.R)}
		case Call:
			return Call{v.F, res(v.Args)}
		case CallFn:
			return CallFn{re(v.F), res(v.Args)}
		case Clo:
			return Clo{rps(v.Params), re(v.Body)}
		case Await:
			return Await{re(v.E)}
		case MethCall:
			return MethCall{re(v.Recv), v.Name, res(v.Args), v.User}
		}
		return x
	}
	rs = func(ss []Stmt) []Stmt {
		if ss == nil {
			return nil
		}
		out := make([]Stmt, 0, len(ss))
		for _, s := range ss {
			switch v := s.(type) {
			case Let:
				out = append(out, Let{r(v.N), v.T, re(v.E)})
			case Asg:
				out = append(out, Asg{r(v.N), v.Op, re(v.E)})
			case ExprS:
				out = append(out, ExprS{re(v.E)})
			case Print:
				out = append(out, Print{re(v.E)})
			case Defer:
				out = append(out, Defer{re(v.E)})
			case Yield:
				out = append(out, Yield{re(v.E)})
			case ForIn:
				out = append(out, ForIn{r(v.V), re(v.E), rs(v.Body)})
			case Ret:
				out = append(out, Ret{re(v.E)})
			case RetIf:
				out = append(out, RetIf{re(v.E), re(v.C)})
			case If:
				out = append(out, If{re(v.C), rs(v.Then), rs(v.Else)})
			case While:
				out = append(out, While{re(v.C), rs(v.Body)})
			case Do:
				out = append(out, Do{rs(v.Body), v.CatchSym, rs(v.Catch), rs(v.Finally), v.HasFin})
			default:
				out = append(out, s)
			}
		}
		return out
	}
	q := (&editor{kind: "copy", target: -1}).prog(p) // deep copy
	bodies := q.bodies()
	if scope == len(bodies) {
		q.Main = rs(q.Main)
	} else {
		d := bodies[scope]
		d.Params = rps(d.Params)
		d.Body = rs(d.Body)
	}
	return q
}

// permutations of 0..n-1 in lexicographic order (identity first).
func permutations(n int) [][]int {
	var out [][]int
	var rec func(cur []int, used []bool)
	rec = func(cur []int, used []bool) {
		if len(cur) == n {
			out = append(out, append([]int(nil), cur...))
			return
		}
		for i := 0; i < n; i++ {
			if !used[i] {
				used[i] = true
				rec(append(cur, i), used)
				used[i] = false
			}
		}
	}
	rec(nil, make([]bool, n))
	return out
}
