// C12 — type-checking verdicts survive meaning-preserving edits (metamorphic).
// Base programs are small accepted programs built from method-body shapes. Every edit of the property is applied
// at every possible position, one at a time: an unused local (`u9 := 1`, `u9 := -> 1`, `u9 := |q9: Int| -> q9`)
// before every statement of every body, every declared local renamed, every expression node parenthesised, and
// every permutation of the top-level method definitions. The edited program must have the same verdict and the
// same output as the base program.
package main

import (
	"fmt"
	"regexp"
	"strings"
	"time"

	"verifharness/elkrun"
	"verifharness/engine"
)

type obs struct {
	verdict string // accepted | rejected | front-end-panic
	out     string
	err     string // uncaught error class (+ value for symbols), "" if none
	panic   string
	diag    string
}

func (o obs) key() string { return o.verdict + "|" + o.out + "|" + o.err + "|" + o.panic }

var addrRe = regexp.MustCompile(`0x[0-9a-f]+`)
var tickRe = regexp.MustCompile("`[^`]*`")
var numRe = regexp.MustCompile(`\d+`)
var locRe = regexp.MustCompile(`(?m)^(p\.elk:|line )\d+(:\d+)?:\s*`)

func normErr(class, insp string) string {
	if class == "" && insp == "" {
		return ""
	}
	s := addrRe.ReplaceAllString(insp, "0x")
	if len(s) > 80 {
		s = s[:80]
	}
	return class + " " + s
}

func soloObs(src string) obs {
	r := elkrun.Run(src, nil)
	elkrun.ResetRuntime()
	switch {
	case r.Rejected:
		return obs{verdict: "rejected", diag: r.Diags}
	case r.Panic != "" && !strings.Contains(r.Stack, "vm.(*Thread)"):
		return obs{verdict: "front-end-panic", panic: r.PanicSig, diag: r.Stack}
	}
	return obs{verdict: "accepted", out: r.Stdout, err: normErr(r.ErrClass, r.Err), panic: r.PanicSig}
}

func unitObs(u unitResult) obs {
	switch {
	case u.rejected:
		return obs{verdict: "rejected", diag: u.diags}
	case u.frontPanic != "":
		return obs{verdict: "front-end-panic", panic: u.frontPanic, diag: u.stack}
	}
	return obs{verdict: "accepted", out: u.out, err: normErr(u.errClass, u.err), panic: u.panicSig}
}

// effect names what changed, for the signature.
func effect(base, got obs) string {
	switch {
	case got.verdict == "rejected":
		d := locRe.ReplaceAllString(strings.TrimSpace(got.diag), "")
		d = strings.SplitN(d, "\n", 2)[0]
		d = tickRe.ReplaceAllString(d, "_")
		d = numRe.ReplaceAllString(d, "N")
		return "rejected: " + d
	case got.verdict == "front-end-panic":
		return "checker/compiler go-panic: " + got.panic
	case got.panic != "":
		return "vm go-panic: " + got.panic
	case got.err != base.err:
		return "uncaught error: " + strings.SplitN(got.err, " ", 2)[0]
	}
	return "output differs"
}

type variant struct {
	edit string // signature part
	desc string // human description of the position
	prog *Prog
	solo bool // must be observed in a program of its own (definition order matters)
}

var inserts = []struct {
	edit string
	stmt Stmt
}{
	{"insert-value-local", Let{"u9", "", Lit{"1"}}},
	{"insert-closure-local", Let{"u9", "", Clo{nil, Lit{"1"}}}},
	{"insert-closure-local", Let{"u9", "", Clo{[]Param{{"q9", "Int"}}, Var{"q9"}}}},
	// closures that open a catch scope of their own (throw annotation) inside whatever catch scopes enclose the site
	{"insert-throwing-closure-local", Let{"u9", "", Lit{"|q9: Int| ! String -> q9.to_string"}}},
	{"insert-throwing-closure-local", Let{"u9", "", Lit{"|q9: Int|: Int ! :zz9 -> q9 + 1"}}},
}

// calls returns the names of the methods a definition calls.
func callsOf(d *Def) map[string]bool {
	out := map[string]bool{}
	src := strings.Join(func() []string { p := &printer{}; p.stmts(0, d.Body); return p.lines }(), "\n")
	for _, m := range regexp.MustCompile(`\b(\w+)\(`).FindAllStringSubmatch(src, -1) {
		out[m[1]] = true
	}
	return out
}

func variants(p *Prog) []variant {
	var vs []variant
	for _, in := range inserts {
		n := countSites(p, "insert")
		for t := 0; t < n; t++ {
			ed := &editor{kind: "insert", target: t, ins: in.stmt}
			q := ed.prog(p)
			pr := &printer{}
			pr.stmt(0, in.stmt)
			vs = append(vs, variant{edit: in.edit, desc: fmt.Sprintf("`%s` inserted before %s (statement site %d)", pr.lines[0], ed.before, t), prog: q})
		}
	}
	for _, sc := range declared(p) {
		for _, n := range sc.names {
			where := "top level"
			if bs := p.bodies(); sc.scope < len(bs) {
				where = "method " + bs[sc.scope].Name
			}
			vs = append(vs, variant{edit: "rename-local", desc: fmt.Sprintf("local `%s` of %s renamed to `%s_r9`", n, where, n), prog: rename(p, sc.scope, n, n+"_r9")})
		}
	}
	n := countSites(p, "paren")
	for t := 0; t < n; t++ {
		ed := &editor{kind: "paren", target: t}
		q := ed.prog(p)
		vs = append(vs, variant{edit: "parenthesise", desc: fmt.Sprintf("parentheses around %s (expression site %d)", ed.before, t), prog: q})
	}
	if len(p.Defs) >= 2 && len(p.Defs) <= 4 {
		for _, perm := range permutations(len(p.Defs))[1:] {
			q := &Prog{Name: p.Name, Classes: p.Classes, Main: p.Main}
			var names []string
			for _, i := range perm {
				q.Defs = append(q.Defs, p.Defs[i])
				names = append(names, p.Defs[i].Name)
			}
			edit := "reorder-definitions"
			for i, d := range q.Defs {
				cs := callsOf(d)
				for _, later := range q.Defs[i+1:] {
					if cs[later.Name] {
						edit = "reorder-definitions caller-before-callee"
					}
				}
			}
			vs = append(vs, variant{edit: edit, desc: "definition order " + strings.Join(names, ", "), prog: q, solo: true})
		}
	}
	return vs
}

func checkBase(c *engine.Ctx, r *engine.R, p *Prog) {
	baseSrc := source(p)
	base := soloObs(baseSrc)
	switch {
	case base.verdict != "accepted":
		// not an accepted program: outside the quantifier (the reason is kept for the evidence)
		r.Count("base_not_accepted", 1)
		r.Outcome("base " + base.verdict)
		r.Note(fmt.Sprintf("base %s %s: %s", p.Name, base.verdict, strings.SplitN(strings.TrimSpace(base.diag), "\n", 2)[0]))
		return
	case base.panic != "":
		r.Count("base_go_panic", 1)
		r.Outcome("base go-panic")
		r.Note(fmt.Sprintf("base %s panics at run time: %s", p.Name, base.panic))
		return
	}
	r.Count("bases_accepted", 1)
	if base.err != "" {
		r.Outcome("base raises " + strings.SplitN(base.err, " ", 2)[0])
	} else {
		r.Outcome(fmt.Sprintf("base prints %q", trunc(base.out, 16)))
	}
	vs := variants(p)
	got := make([]*obs, len(vs))
	if !c.Thorough {
		// quick: all order-independent variants in one program (unit 0 is the base itself); a difference is
		// confirmed on a program of its own before it is reported
		units := []unit{}
		idx := []int{}
		mk := func(q *Prog, k int) unit {
			d, m := printUnit(q, fmt.Sprintf("_%d", k))
			return unit{defs: d, calls: m}
		}
		units = append(units, mk(p, 0))
		for i, v := range vs {
			if !v.solo {
				units = append(units, mk(v.prog, len(units)))
				idx = append(idx, i)
			}
		}
		var st batchStats
		res := runUnits("", units, false, &st)
		r.Count("programs_compiled", st.compiles)
		b0 := unitObs(res[0])
		if b0.key() != base.key() {
			r.Count("base_differs_in_batch", 1)
		} else {
			for j, i := range idx {
				o := unitObs(res[j+1])
				if o.key() == b0.key() {
					got[i] = &o
				} else {
					r.Count("batch_difference_rechecked_alone", 1)
				}
			}
		}
	}
	for i, v := range vs {
		src := ""
		if got[i] == nil {
			src = source(v.prog)
			o := soloObs(src)
			r.Count("programs_compiled", 1)
			got[i] = &o
		}
		o := *got[i]
		r.Eval(1)
		r.NT(1)
		r.Count("variants "+strings.SplitN(v.edit, " ", 2)[0], 1)
		if o.key() == base.key() {
			r.Outcome("same after " + strings.SplitN(v.edit, " ", 2)[0])
			continue
		}
		eff := effect(base, o)
		r.Outcome("differs: " + strings.SplitN(eff, ":", 2)[0])
		detail := fmt.Sprintf("base %s; edit: %s\nbase:   verdict=%s stdout=%q err=%s\nedited: verdict=%s stdout=%q err=%s panic=%s\n%s\n--- base ---\n%s--- edited ---\n%s",
			p.Name, v.desc, base.verdict, base.out, base.err, o.verdict, o.out, o.err, o.panic, strings.TrimSpace(trunc(o.diag, 400)), baseSrc, src)
		r.Violation(fmt.Sprintf("edit=%s effect=%s", v.edit, eff), detail, src)
	}
	r.Sample(baseSrc)
}

func trunc(s string, n int) string {
	if len(s) > n {
		return s[:n]
	}
	return s
}

func main() {
	engine.Main(&engine.Spec{
		Prop:  "C12",
		Level: "exploration",
		Rule: "base programs: every combination of 22 leaf method shapes (typed returns with `return` in every position, locals, loops, closures, narrowing, declared throws, catch/finally, defer), 5 caller shapes " +
			"and top-level shapes arranged as 1–4 methods (thorough: all caller×leaf pairs), plus generator methods (`def *g`, yields before/after other statements, in loops, if and do/finally, consumed by for-in), async methods (await, await_sync), classes with init / instance / generator / async methods and a module method; for each accepted base, every single application of: an unused local (`u9 := 1`, `u9 := -> 1`, `u9 := |q9: Int| -> q9`) " +
			"before every statement of every body; renaming of every declared local/parameter; parentheses around every expression node; every non-identity permutation of the method definitions; " +
			"oracle: same verdict, stdout and uncaught error as the base; every variant is a distinct program (non-trivial)",
		Assume:      []string{"method bodies compiled one at a time (MethodCheckConcurrencyLimit=1)", "quick tier observes order-independent variants batched in one program with disjoint names and re-checks every difference on a program of its own; the thorough tier observes every variant on its own"},
		Setup:       func(c *engine.Ctx) { elkrun.Init() },
		CaseTimeout: 300 * time.Second,
		Run: func(c *engine.Ctx) {
			for _, p := range bases(c.Thorough) {
				p := p
				c.Case(p.Name, func(r *engine.R) { checkBase(c, r, p) })
			}
		},
	})
}
