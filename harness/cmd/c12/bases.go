package main

// Base programs: small programs built from method-body shapes (leaves, callers) and top-level shapes.
// Definitions are emitted callee first. Every observable is a println.

import "fmt"

func lit(n int) Expr                  { return Lit{fmt.Sprint(n)} }
func v(n string) Expr                 { return Var{n} }
func bin(op string, l, r Expr) Expr   { return Bin{op, l, r} }
func call(f string, a ...Expr) Expr   { return Call{f, a} }
func callfn(f Expr, a ...Expr) Expr   { return CallFn{f, a} }
func clo(body Expr, ps ...Param) Expr { return Clo{ps, body} }
func pInt(n string) Param             { return Param{n, "Int"} }

type shape struct {
	name   string
	ptype  string // parameter type (default Int)
	throws string
	body   func(callee string) []Stmt
}

// leaves: bodies over the parameter `a` that call nothing.
func leaves() []shape {
	a := v("a")
	return []shape{
		{name: "ret-expr", body: func(string) []Stmt { return []Stmt{Ret{bin("+", a, lit(1))}} }},
		{name: "ret-literal", body: func(string) []Stmt { return []Stmt{Ret{lit(1)}} }},
		{name: "local-ret", body: func(string) []Stmt { return []Stmt{Let{"b", "", bin("*", a, lit(2))}, Ret{v("b")}} }},
		{name: "local-value", body: func(string) []Stmt { return []Stmt{Let{"b", "", bin("*", a, lit(2))}, ExprS{bin("+", v("b"), lit(1))}} }},
		{name: "if-ret-value", body: func(string) []Stmt {
			return []Stmt{If{bin(">", a, lit(1)), []Stmt{Ret{a}}, nil}, ExprS{bin("+", a, lit(10))}}
		}},
		{name: "if-else-ret", body: func(string) []Stmt {
			return []Stmt{If{bin(">", a, lit(1)), []Stmt{Ret{lit(1)}}, []Stmt{Ret{lit(2)}}}}
		}},
		{name: "while-sum-ret", body: func(string) []Stmt {
			return []Stmt{Let{"i", "", lit(0)}, Let{"s", "", lit(0)},
				While{bin("<", v("i"), a), []Stmt{Asg{"s", "=", bin("+", v("s"), v("i"))}, Asg{"i", "=", bin("+", v("i"), lit(1))}}},
				Ret{v("s")}}
		}},
		{name: "while-ret-inside", body: func(string) []Stmt {
			return []Stmt{Let{"i", "", lit(0)},
				While{bin("<", v("i"), lit(10)), []Stmt{RetIf{v("i"), bin(">=", v("i"), a)}, Asg{"i", "+=", lit(1)}}},
				ExprS{lit(77)}}
		}},
		{name: "closure-capture-value", body: func(string) []Stmt {
			return []Stmt{Let{"f", "", clo(bin("+", v("x"), a), pInt("x"))}, ExprS{callfn(v("f"), lit(2))}}
		}},
		{name: "closure-then-local-value", body: func(string) []Stmt {
			return []Stmt{Let{"f", "", clo(a)}, Let{"b", "", callfn(v("f"))}, ExprS{bin("+", v("b"), lit(1))}}
		}},
		{name: "nested-closures-value", body: func(string) []Stmt {
			return []Stmt{Let{"g", "", clo(bin("*", v("x"), lit(2)), pInt("x"))},
				Let{"h", "", clo(bin("+", callfn(v("g"), v("y")), lit(1)), pInt("y"))}, ExprS{callfn(v("h"), a)}}
		}},
		{name: "narrow-nilable-ret", ptype: "Int?", body: func(string) []Stmt {
			return []Stmt{If{a, []Stmt{Ret{bin("+", a, lit(1))}}, nil}, ExprS{lit(0)}}
		}},
		{name: "throw-declared", throws: ":neg", body: func(string) []Stmt {
			return []Stmt{If{bin("<", a, lit(0)), []Stmt{Throw{":neg"}}, nil}, Ret{a}}
		}},
		{name: "catch-ret", body: func(string) []Stmt {
			return []Stmt{Do{Body: []Stmt{If{bin(">", a, lit(2)), []Stmt{Throw{":big"}}, nil}}, CatchSym: ":big", Catch: []Stmt{Ret{lit(99)}}}, Ret{a}}
		}},
		{name: "finally-ret", body: func(string) []Stmt {
			return []Stmt{Let{"b", "", lit(0)}, Do{Body: []Stmt{Asg{"b", "=", bin("+", a, lit(1))}}, HasFin: true, Finally: []Stmt{Print{Lit{`"f"`}}}}, Ret{v("b")}}
		}},
		{name: "print-ret", body: func(string) []Stmt { return []Stmt{Print{a}, Ret{a}} }},
		{name: "ret-if-modifier", body: func(string) []Stmt {
			return []Stmt{RetIf{lit(0), bin("<", a, lit(0))}, Let{"b", "", bin("+", a, lit(1))}, ExprS{v("b")}}
		}},
		{name: "var-compound", body: func(string) []Stmt {
			return []Stmt{Let{"c", "Int", a}, Asg{"c", "+=", lit(1)}, ExprS{v("c")}}
		}},
		{name: "defer-local-ret", body: func(string) []Stmt {
			return []Stmt{Defer{Lit{`"d"`}}, Let{"b", "", bin("+", a, lit(1))}, Ret{v("b")}}
		}},
		{name: "defer-arg-value", body: func(string) []Stmt {
			return []Stmt{Let{"b", "", bin("+", a, lit(1))}, Defer{v("b")}, ExprS{bin("*", v("b"), lit(2))}}
		}},
		// a closure literal followed by `return` (on the unchanged tree these bases are rejected: the known C12 defect
		// seen from the other side; once repaired they enter the space)
		{name: "closure-then-ret", body: func(string) []Stmt {
			return []Stmt{Let{"f", "", clo(a)}, Let{"b", "", callfn(v("f"))}, Ret{bin("+", v("b"), lit(1))}}
		}},
		{name: "closure-param-then-ret", body: func(string) []Stmt {
			return []Stmt{Let{"g", "", clo(bin("*", v("x"), lit(2)), pInt("x"))}, Ret{callfn(v("g"), a)}}
		}},
	}
}

// callers: bodies over `a` that call `callee(Int): Int`.
func callers() []shape {
	a := v("a")
	return []shape{
		{name: "ret-call-expr", body: func(c string) []Stmt { return []Stmt{Ret{bin("+", call(c, a), lit(1))}} }},
		{name: "local-from-call", body: func(c string) []Stmt { return []Stmt{Let{"b", "", call(c, a)}, ExprS{bin("*", v("b"), lit(2))}} }},
		{name: "closure-calls", body: func(c string) []Stmt { return []Stmt{Let{"f", "", clo(call(c, a))}, ExprS{callfn(v("f"))}} }},
		{name: "if-ret-call", body: func(c string) []Stmt {
			return []Stmt{If{bin(">", a, lit(0)), []Stmt{Ret{call(c, a)}}, nil}, ExprS{call(c, lit(0))}}
		}},
		{name: "loop-calls", body: func(c string) []Stmt {
			return []Stmt{Let{"s", "", lit(0)}, Let{"i", "", lit(0)},
				While{bin("<", v("i"), lit(2)), []Stmt{Asg{"s", "=", bin("+", v("s"), call(c, v("i")))}, Asg{"i", "=", bin("+", v("i"), lit(1))}}},
				Ret{v("s")}}
		}},
	}
}

func mkdef(name string, s shape, callee string) *Def {
	pt := s.ptype
	if pt == "" {
		pt = "Int"
	}
	return &Def{Name: name, Params: []Param{{"a", pt}}, Ret: "Int", Throws: s.throws, Body: s.body(callee)}
}

// mains over the entry method m.
func mains(m string, leaf shape) [][]Stmt {
	switch {
	case leaf.throws != "":
		return [][]Stmt{{Do{Body: []Stmt{Print{call(m, lit(3))}, Print{call(m, bin("-", lit(0), lit(1)))}}, CatchSym: leaf.throws, Catch: []Stmt{Print{Lit{`"caught"`}}}}}}
	case leaf.ptype == "Int?":
		return [][]Stmt{{Print{call(m, lit(3))}, Print{call(m, Lit{"nil"})}}}
	}
	return [][]Stmt{
		{Print{call(m, lit(3))}, Print{call(m, lit(0))}},
		{Let{"r", "", call(m, lit(3))}, Print{bin("+", v("r"), lit(1))}},
	}
}

func bases(thorough bool) []*Prog {
	var out []*Prog
	add := func(name string, defs []*Def, main []Stmt) {
		out = append(out, &Prog{Name: name, Defs: defs, Main: main})
	}
	ls, cs := leaves(), callers()
	// A: one method
	for _, l := range ls {
		for mi, m := range mains("m", l) {
			add(fmt.Sprintf("one/%s/main%d", l.name, mi), []*Def{mkdef("m", l, "")}, m)
		}
	}
	// one method, called through a top-level closure
	for _, l := range ls[:4] {
		add("one/"+l.name+"/main-closure", []*Def{mkdef("m", l, "")},
			[]Stmt{Let{"f", "", clo(call("m", v("x")), pInt("x"))}, Print{callfn(v("f"), lit(2))}})
	}
	// B: caller + leaf
	leafIdx := []int{0, 1, 2, 4, 6, 8, 15}
	for _, c := range cs {
		for _, li := range leafIdx {
			l := ls[li]
			add(fmt.Sprintf("two/%s/%s", c.name, l.name), []*Def{mkdef("leaf", l, ""), mkdef("m", c, "leaf")}, mains("m", shape{})[0])
		}
	}
	// throwing leaf: caller catches / caller declares
	thr := ls[12]
	add("two/catches/throw-declared", []*Def{mkdef("leaf", thr, ""),
		{Name: "m", Params: []Param{pInt("a")}, Ret: "Int", Body: []Stmt{Do{Body: []Stmt{Ret{call("leaf", v("a"))}}, CatchSym: ":neg", Catch: []Stmt{Ret{lit(100)}}}}}},
		[]Stmt{Print{call("m", lit(3))}, Print{call("m", bin("-", lit(0), lit(1)))}})
	add("two/declares/throw-declared", []*Def{mkdef("leaf", thr, ""),
		{Name: "m", Params: []Param{pInt("a")}, Ret: "Int", Throws: ":neg", Body: []Stmt{Ret{bin("+", call("leaf", v("a")), lit(1))}}}},
		mains("m", thr)[0])
	// C: chains of three
	for _, c1 := range cs[:3] {
		for _, c2 := range cs[:2] {
			for _, li := range []int{0, 1, 2, 8} {
				l := ls[li]
				add(fmt.Sprintf("three/%s/%s/%s", c1.name, c2.name, l.name),
					[]*Def{mkdef("leaf", l, ""), mkdef("mid", c2, "leaf"), mkdef("m", c1, "mid")}, mains("m", shape{})[0])
			}
		}
	}
	// D: four methods: two callers over two leaves; a chain of four
	for _, c1 := range cs[:2] {
		for _, c2 := range cs[1:3] {
			for _, lp := range [][2]int{{0, 6}, {2, 1}} {
				add(fmt.Sprintf("four/%s+%s/%s+%s", c1.name, c2.name, ls[lp[0]].name, ls[lp[1]].name),
					[]*Def{mkdef("leaf1", ls[lp[0]], ""), mkdef("leaf2", ls[lp[1]], ""), mkdef("m1", c1, "leaf1"), mkdef("m2", c2, "leaf2")},
					[]Stmt{Print{call("m1", lit(3))}, Print{call("m2", lit(2))}})
			}
		}
	}
	for _, c := range cs[:3] {
		add("four/chain/"+c.name, []*Def{mkdef("leaf", ls[2], ""), mkdef("n2", c, "leaf"), mkdef("n1", cs[0], "n2"), mkdef("m", cs[1], "n1")}, mains("m", shape{})[0])
	}
	// E: independent methods
	for _, tr := range [][3]int{{0, 2, 8}, {1, 4, 6}, {15, 16, 17}, {5, 9, 10}} {
		add(fmt.Sprintf("indep/%s+%s+%s", ls[tr[0]].name, ls[tr[1]].name, ls[tr[2]].name),
			[]*Def{mkdef("p", ls[tr[0]], ""), mkdef("q", ls[tr[1]], ""), mkdef("r", ls[tr[2]], "")},
			[]Stmt{Print{call("p", lit(1))}, Print{call("q", lit(2))}, Print{call("r", lit(3))}})
	}
	// G: generator methods (def *g) consumed by for-in, async methods consumed by await / await_sync, classes with an
	// init and instance methods, a module method: every method-like context whose checker state a closure literal,
	// an inserted local, a rename or parentheses could disturb
	a := v("a")
	gen := func(name string, body ...Stmt) *Def {
		return &Def{Name: name, Params: []Param{pInt("a")}, Ret: "Int", Body: body, Kind: "gen"}
	}
	asy := func(name string, body ...Stmt) *Def {
		return &Def{Name: name, Params: []Param{pInt("a")}, Ret: "Int", Body: body, Kind: "async"}
	}
	forPrint := func(g string, arg int) Stmt {
		return ForIn{"e", call(g, lit(arg)), []Stmt{Print{v("e")}}}
	}
	gens := []*Def{
		gen("g", Yield{a}, Let{"b", "", bin("+", a, lit(1))}, Yield{v("b")}, ExprS{bin("*", v("b"), lit(2))}),
		gen("g", Let{"i", "", lit(0)}, While{bin("<", v("i"), a), []Stmt{Yield{v("i")}, Asg{"i", "+=", lit(1)}}}, ExprS{lit(100)}),
		gen("g", Let{"f", "", clo(bin("+", v("x"), a), pInt("x"))}, Yield{callfn(v("f"), lit(1))}, Yield{callfn(v("f"), lit(2))}, ExprS{lit(0)}),
		gen("g", Yield{a}, If{bin(">", a, lit(1)), []Stmt{Yield{lit(7)}}, []Stmt{Yield{lit(8)}}}, Print{Lit{`"in g"`}}, Yield{lit(5)}, ExprS{lit(6)}),
		gen("g", Let{"b", "Int", a}, Do{Body: []Stmt{Yield{v("b")}, Asg{"b", "+=", lit(1)}}, HasFin: true, Finally: []Stmt{Print{Lit{`"fin"`}}}}, Yield{v("b")}, ExprS{v("b")}),
	}
	for i, g := range gens {
		add(fmt.Sprintf("gen/%d/for-in", i), []*Def{g}, []Stmt{forPrint("g", 3), forPrint("g", 0)})
	}
	// a method that consumes a generator; a generator that consumes a generator
	add("gen/consumer-method", []*Def{gens[0],
		{Name: "m", Params: []Param{pInt("a")}, Ret: "Int", Body: []Stmt{Let{"s", "", lit(0)}, ForIn{"e", call("g", a), []Stmt{Asg{"s", "+=", v("e")}}}, Ret{v("s")}}}},
		[]Stmt{Print{call("m", lit(3))}})
	add("gen/gen-over-gen", []*Def{gens[1],
		gen("h", ForIn{"e", call("g", a), []Stmt{Yield{bin("*", v("e"), lit(2))}}}, ExprS{lit(1)})},
		[]Stmt{forPrint("h", 2)})
	asyncs := []*Def{
		asy("af", Let{"b", "", bin("+", a, lit(1))}, Ret{v("b")}),
		asy("af", If{bin(">", a, lit(1)), []Stmt{Ret{a}}, nil}, ExprS{bin("+", a, lit(10))}),
		asy("af", Let{"f", "", clo(bin("*", a, lit(2)))}, ExprS{callfn(v("f"))}),
	}
	sync := func(e Expr) Expr { return MethCall{Recv: e, Name: "await_sync"} }
	for i, f := range asyncs {
		add(fmt.Sprintf("async/%d/await-sync", i), []*Def{f}, []Stmt{Print{sync(call("af", lit(3)))}, Print{sync(call("af", lit(0)))}})
		add(fmt.Sprintf("async/%d/awaited-by-async", i), []*Def{f,
			asy("ag", Let{"b", "", Await{call("af", a)}}, ExprS{bin("*", v("b"), lit(2))})},
			[]Stmt{Print{sync(call("ag", lit(3)))}})
	}
	// (two awaits inside ONE expression, `(await af(a)) + (await af(1))`, kill the process on the unchanged tree — index
	// out of range in vm.(*Thread).readValue on a pool thread — so the two awaits are bound to locals here)
	add("async/two-awaits", []*Def{asyncs[0],
		asy("ag", Let{"b", "", Await{call("af", a)}}, Let{"c", "", Await{call("af", lit(1))}}, Ret{bin("+", v("b"), v("c"))})},
		[]Stmt{Let{"r", "", sync(call("ag", lit(3)))}, Print{v("r")}})
	nAttr := &Param{"n", "Int"}
	ivar := v("@n")
	mth := func(name string, kind string, body ...Stmt) *Def {
		return &Def{Name: name, Params: []Param{pInt("a")}, Ret: "Int", Body: body, Kind: kind}
	}
	initd := func(body ...Stmt) *Def {
		return &Def{Name: "init", Params: []Param{pInt("k")}, Kind: "init", Body: body}
	}
	ucall := func(recv Expr, name string, args ...Expr) Expr {
		return MethCall{Recv: recv, Name: name, Args: args, User: true}
	}
	addc := func(name string, cs []*Class, defs []*Def, main []Stmt) {
		out = append(out, &Prog{Name: name, Classes: cs, Defs: defs, Main: main})
	}
	addc("class/init-locals-method-ret", []*Class{{Name: "Foo12", Attr: nAttr,
		Init:    initd(Let{"u", "", bin("+", v("k"), lit(1))}, Asg{"@n", "=", v("u")}),
		Methods: []*Def{mth("incr", "", Let{"b", "", bin("+", ivar, a)}, Ret{v("b")})}}}, nil,
		[]Stmt{Let{"o", "", call("Foo12", lit(1))}, Print{ucall(v("o"), "incr", lit(2))}, Print{MethCall{Recv: v("o"), Name: "n"}}})
	addc("class/method-closure-and-self-call", []*Class{{Name: "Foo12", Attr: nAttr,
		Init: initd(Asg{"@n", "=", v("k")}),
		Methods: []*Def{
			mth("twice", "", Let{"f", "", clo(bin("*", ivar, lit(2)))}, ExprS{bin("+", callfn(v("f")), a)}),
			mth("both", "", If{bin(">", a, lit(1)), []Stmt{Ret{ucall(Lit{"self"}, "twice", a)}}, nil}, ExprS{lit(0)}),
		}}}, nil,
		[]Stmt{Let{"o", "", call("Foo12", lit(4))}, Print{ucall(v("o"), "twice", lit(1))}, Print{ucall(v("o"), "both", lit(2))}, Print{ucall(v("o"), "both", lit(0))}})
	addc("class/method-closure-over-parameter", []*Class{{Name: "Foo12", Attr: nAttr,
		Init: initd(Asg{"@n", "=", v("k")}),
		Methods: []*Def{
			mth("twice", "", Let{"f", "", clo(bin("*", a, lit(2)))}, Let{"b", "", callfn(v("f"))}, Ret{bin("+", v("b"), ivar)}),
		}}}, nil,
		[]Stmt{Let{"o", "", call("Foo12", lit(4))}, Print{ucall(v("o"), "twice", lit(1))}})
	addc("class/generator-and-async-methods", []*Class{{Name: "Foo12", Attr: nAttr,
		Init: initd(Asg{"@n", "=", v("k")}),
		Methods: []*Def{
			mth("each", "gen", Yield{ivar}, Let{"b", "", bin("+", ivar, a)}, Yield{v("b")}, ExprS{lit(9)}),
			mth("later", "async", Let{"b", "", bin("+", ivar, a)}, Ret{v("b")}),
		}}}, nil,
		[]Stmt{Let{"o", "", call("Foo12", lit(4))}, ForIn{"e", ucall(v("o"), "each", lit(1)), []Stmt{Print{v("e")}}}, Print{sync(ucall(v("o"), "later", lit(2)))}})
	addc("module/method", []*Class{{Module: true, Name: "Mod12",
		Methods: []*Def{mth("k", "", Let{"b", "", bin("*", a, lit(3))}, If{bin(">", v("b"), lit(5)), []Stmt{Ret{v("b")}}, nil}, ExprS{lit(1)})}}},
		[]*Def{{Name: "m", Params: []Param{pInt("a")}, Ret: "Int", Body: []Stmt{Ret{bin("+", ucall(v("Mod12"), "k", a), lit(1))}}}},
		[]Stmt{Print{call("m", lit(3))}, Print{call("m", lit(1))}})
	// F: top level only
	add("top/locals", nil, []Stmt{Let{"a", "", lit(1)}, Let{"b", "", bin("+", v("a"), lit(2))}, Print{bin("*", v("b"), v("a"))}})
	add("top/while", nil, []Stmt{Let{"i", "", lit(0)}, Let{"s", "", lit(0)},
		While{bin("<", v("i"), lit(3)), []Stmt{Asg{"s", "+=", v("i")}, Asg{"i", "+=", lit(1)}}}, Print{v("s")}})
	add("top/closure", nil, []Stmt{Let{"a", "", lit(5)}, Let{"f", "", clo(bin("+", v("x"), v("a")), pInt("x"))}, Print{callfn(v("f"), lit(2))}})
	add("top/closure-mutates", nil, []Stmt{Let{"a", "Int", lit(5)}, Let{"f", "", clo(bin("+", v("a"), lit(1)))}, Asg{"a", "=", lit(7)}, Print{callfn(v("f"))}})
	add("top/if-else", nil, []Stmt{Let{"a", "", lit(5)}, If{bin(">", v("a"), lit(2)), []Stmt{Print{Lit{`"big"`}}}, []Stmt{Print{Lit{`"small"`}}}}, Print{v("a")}})
	add("top/narrow", nil, []Stmt{Let{"a", "Int?", lit(5)}, If{v("a"), []Stmt{Print{bin("+", v("a"), lit(1))}}, []Stmt{Print{Lit{`"nil"`}}}}})
	add("top/do-catch", nil, []Stmt{Let{"a", "", lit(5)},
		Do{Body: []Stmt{If{bin(">", v("a"), lit(2)), []Stmt{Throw{":big"}}, nil}, Print{Lit{`"not reached"`}}}, CatchSym: ":big", Catch: []Stmt{Print{Lit{`"caught"`}}}, HasFin: true, Finally: []Stmt{Print{Lit{`"fin"`}}}},
		Print{v("a")}})
	add("top/closure-in-loop", nil, []Stmt{Let{"i", "", lit(0)}, Let{"s", "", lit(0)},
		While{bin("<", v("i"), lit(3)), []Stmt{Let{"f", "", clo(bin("*", v("i"), lit(2)))}, Asg{"s", "+=", callfn(v("f"))}, Asg{"i", "+=", lit(1)}}}, Print{v("s")}})
	add("top/immediate-closure", nil, []Stmt{Let{"a", "", callfn(clo(bin("+", v("x"), lit(1)), pInt("x")), lit(4))}, Print{v("a")}})
	add("top/logical", nil, []Stmt{Let{"a", "", lit(3)}, Let{"c", "", bin("&&", bin(">", v("a"), lit(1)), bin("<", v("a"), lit(9)))}, If{v("c"), []Stmt{Print{Lit{`"in"`}}}, []Stmt{Print{Lit{`"out"`}}}}})
	if !thorough {
		return out
	}
	// thorough: every generator and async shape also as a callee below a plain caller method
	for i, g := range gens {
		add(fmt.Sprintf("gen/%d/consumer-method", i), []*Def{g,
			{Name: "m", Params: []Param{pInt("a")}, Ret: "Int", Body: []Stmt{Let{"s", "", lit(0)}, ForIn{"e", call("g", a), []Stmt{Asg{"s", "+=", v("e")}}}, Ret{v("s")}}}},
			[]Stmt{Print{call("m", lit(3))}, Print{call("m", lit(0))}})
	}
	for i, f := range asyncs {
		add(fmt.Sprintf("async/%d/sync-caller-method", i), []*Def{f,
			{Name: "m", Params: []Param{pInt("a")}, Ret: "Int", Body: []Stmt{Let{"b", "", sync(call("af", a))}, Ret{bin("+", v("b"), lit(1))}}}},
			[]Stmt{Print{call("m", lit(3))}, Print{call("m", lit(0))}})
	}
	// thorough: every caller over every leaf that takes and returns Int without throwing
	for _, c := range cs {
		for li, l := range ls {
			if l.ptype != "" || l.throws != "" {
				continue
			}
			skip := false
			for _, k := range leafIdx {
				if k == li {
					skip = true
				}
			}
			if skip {
				continue
			}
			add(fmt.Sprintf("two/%s/%s", c.name, l.name), []*Def{mkdef("leaf", l, ""), mkdef("m", c, "leaf")}, mains("m", shape{})[0])
		}
	}
	for _, c1 := range cs[3:] {
		for _, c2 := range cs {
			for _, li := range []int{0, 2, 8} {
				l := ls[li]
				add(fmt.Sprintf("three/%s/%s/%s", c1.name, c2.name, l.name),
					[]*Def{mkdef("leaf", l, ""), mkdef("mid", c2, "leaf"), mkdef("m", c1, "mid")}, mains("m", shape{})[0])
			}
		}
	}
	return out
}
