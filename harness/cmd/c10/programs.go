package main

import (
	"fmt"
	"strings"
)

type program struct {
	ID     string
	Kind   string // what is live across the growth point (goes into signatures)
	Depth  int
	Src    string
	Async  bool
	Nested bool // tasks spawn tasks
}

// rec: plain recursion of depth n used by every program to force value-stack growth (method calls are where the
// VM checks whether the stack must grow).
const recDef = `def rec(n: Int): Int
  return 0 if n == 0
  rec(n - 1) + 1
end
`

// plainProgram: no closures, no generators: recursion whose frames keep locals that are read after the recursive
// call returns (so the frame pointers of pending frames must survive a reallocation).
func plainProgram(d int) program {
	src := fmt.Sprintf(`def plain(n: Int, a: Int, b: Int): Int
  x := a + 1
  y := b + 2
  z := x * 2
  return x + y + z if n == 0
  r := plain(n - 1, x, (y + (z * (x - y))) %% 1000)
  (r + x - y + z) %% 1000003
end
println(plain(%d, 1, 2))
println(plain(%d, 3, 2))
`, d, d)
	return program{ID: fmt.Sprintf("plain/d%d", d), Kind: "plain", Depth: d, Src: src}
}

// flatProgram: no recursion, no closures, no generators; only the top-level frame is ever pending when the stack
// grows (nothing to rebase but sp/fp). Its top-level frame has 20 locals: at small initial sizes the frame itself
// overruns the stack before the first growth check.
func flatProgram() program {
	var s strings.Builder
	s.WriteString("def leaf(n: Int, a: Int, b: Int): Int\n  x := a + 1\n  y := b + 2\n  z := x * 2\n  (n + x - y + z) % 1000003\nend\n")
	for i := 0; i < 20; i++ {
		fmt.Fprintf(&s, "v%d := %d\n", i, i*3+1)
	}
	s.WriteString("i := 0\nwhile i < 20\n  i += 1\n")
	for i := 0; i < 20; i++ {
		fmt.Fprintf(&s, "  v%d = (v%d + leaf(i, v%d, v%d)) %% 1009\n", i, i, (i+1)%20, (i+7)%20)
	}
	s.WriteString("end\n")
	s.WriteString("t := 0\n")
	for i := 0; i < 20; i++ {
		fmt.Fprintf(&s, "t = (t * 31 + v%d) %% 1000003\n", i)
	}
	s.WriteString("println(t)\nprintln(v0)\nprintln(v19)\n")
	return program{ID: "flat", Kind: "flat", Src: s.String()}
}

func programs(thorough bool) []program {
	var ps []program
	ps = append(ps, flatProgram())
	depths := []int{1, 10, 100, 1000}
	add := func(name, kind string, d int, src string) {
		ps = append(ps, program{ID: fmt.Sprintf("%s/d%d", name, d), Kind: kind, Depth: d, Src: src})
	}
	for _, d := range depths {
		ps = append(ps, plainProgram(d))

		// a closure with an open upvalue (local of a live frame) that is NOT executing while the stack grows
		add("closure-idle", "closure whose open upvalue is not on the call stack", d, recDef+fmt.Sprintf(`def outer(d: Int): Int
  counter := 0
  inc := ||: Int -> counter += 1
  inc.()
  r := rec(d)
  inc.()
  inc.()
  println(counter)
  counter * 100000 + r
end
println(outer(%d))
`, d))

		// a closure that IS on the call stack (it calls the recursion) while the stack grows
		add("closure-active", "closure on the call stack with an open upvalue", d, recDef+fmt.Sprintf(`def outer(d: Int): Int
  acc := 0
  f := |k: Int|: Int ->
    acc += 1
    r := rec(k)
    acc += 1
    r
  end
  r := f.(d)
  println(acc)
  r2 := f.(d)
  acc * 100000 + r + r2
end
println(outer(%d))
`, d))

		// one closure per recursion level, each capturing a local of its own frame; called after the deeper levels returned
		add("closure-per-level", "one open closure per recursion level", d, fmt.Sprintf(`def lvl(n: Int): Int
  x := n
  bump := ||: Int -> x += 1000
  r := 0
  if n > 0
    r = lvl(n - 1)
  end
  bump.()
  (r + x) %% 1000003
end
println(lvl(%d))
`, d))

		// closure and method call each other: the same closure is active in many frames when the stack grows
		add("closure-mutual", "closure active in several frames (closure/method mutual recursion)", d, fmt.Sprintf(`def step(k: Int, g: |k: Int|: Int): Int
  g.(k - 1) + 1
end
def outer(d: Int): Int
  hits := 0
  var f: (|k: Int|: Int)? = nil
  f = |k: Int|: Int ->
    hits += 1
    return 0 if k == 0
    g := f
    return -1 unless g
    step(k, g)
  end
  h := f
  r := -2
  if h
    r = h.(d)
  end
  println(hits)
  hits * 100000 + r
end
println(outer(%d))
`, d))

		// closures returned from their defining frame (closed upvalues) and used after deep recursion
		add("closure-escaped", "closures called before and after the defining frame returns", d, recDef+fmt.Sprintf(`def make(start: Int, d: Int): ||: Int
  n := start
  f := ||: Int -> n += 1
  f.()
  rec(d)
  f.()
  f
end
def outer(d: Int): Int
  a := make(10, d)
  b := make(100, d)
  a.()
  r := rec(d)
  s := 0
  for i in 1...3
    g := ||: Int -> i * 7 + a.()
    s += g.()
    s += rec(d)
  end
  println(s)
  a.() * 1000 + b.() + r
end
println(outer(%d))
`, d))

		// closures over parameters and loop variables, collected and called after the loop and after growth
		add("closure-loopvars", "closures capturing parameters and loop variables", d, recDef+fmt.Sprintf(`def outer(p: Int, d: Int): Int
  var fs: ArrayList[||: Int] = []
  for i in 1...4
    j := i * p
    fs << (||: Int -> j + i + p)
  end
  before := 0
  for f in fs then before += f.()
  r := rec(d)
  after := 0
  for f in fs then after += f.()
  p += 1
  again := 0
  for f in fs then again += f.()
  println(before)
  println(after)
  println(again)
  before + after + again + r
end
println(outer(3, %d))
`, d))

		// generator resumed across growth: deep recursion between two resumptions
		add("generator-suspended", "generator suspended while the stack grows", d, recDef+fmt.Sprintf(`def *gen(n: Int): Int
  i := 0
  total := 0
  while i < n
    total += i
    yield total * 10 + i
    i += 1
  end
  total
end
def consume(d: Int): Int
  s := 0
  for v in gen(4)
    s += v
    s += rec(d)
    println(s)
  end
  s
end
println(consume(%d))
`, d))

		// generator whose body performs the deep recursion (growth happens inside the resumed generator frame)
		add("generator-grows", "generator frame on the call stack while the stack grows", d, recDef+fmt.Sprintf(`def *gen(n: Int, d: Int): Int
  i := 0
  keep := 7
  while i < n
    r := rec(d)
    yield r + keep + i
    keep += 1
    i += 1
  end
  keep
end
def consume(d: Int): Int
  s := 0
  for v in gen(3, d)
    s += v
    println(v)
  end
  s
end
println(consume(%d))
`, d))

		// a generator created at the top and resumed at every level of the recursion
		add("generator-down", "generator resumed at every recursion level", d, fmt.Sprintf(`def *nat: Int
  i := 0
  loop
    yield i
    i += 1
  end
  0
end
def down(n: Int, g: Generator[Int]): Int
  a := do
    g.next
  catch :stop_iteration
    -1
  end
  return a if n == 0
  r := down(n - 1, g)
  b := do
    g.next
  catch :stop_iteration
    -1
  end
  (r + a * 3 + b) %% 1000003
end
println(down(%d, nat()))
`, d))

		// a generator with a closure over its own locals, resumed across growth
		add("generator-closure", "generator with a closure over its locals", d, recDef+fmt.Sprintf(`def *gen(n: Int): Int
  i := 0
  acc := 0
  while i < n
    yield acc
    addf := |k: Int|: Int -> acc += k
    addf.(i + 1)
    addf.(i + 2)
    i += 1
  end
  acc
end
def consume(d: Int): Int
  s := 0
  for v in gen(4)
    s += v + rec(d)
  end
  s
end
println(consume(%d))
`, d))
	}

	// async programs: depth kept ≤ 100 (pool threads use the default call stack)
	asyncDepths := []int{1, 10, 100}
	for _, d := range asyncDepths {
		ps = append(ps, program{ID: fmt.Sprintf("async-fanout/d%d", d), Kind: "async fan-out", Depth: d, Async: true, Src: recDef + fmt.Sprintf(`async def work(k: Int, d: Int): Int
  a := k * 2
  r := rec(d)
  a + r
end
var ps: ArrayList[Promise[Int]] = []
for i in 1...6 then ps << work(i, %d)
s := 0
for p in ps
  v := await p
  s += v
end
println(s)
`, d)})
		ps = append(ps, program{ID: fmt.Sprintf("async-closure/d%d", d), Kind: "async function with a closure over its locals", Depth: d, Async: true, Src: recDef + fmt.Sprintf(`async def work(k: Int, d: Int): Int
  acc := k
  f := |x: Int|: Int -> acc += x
  f.(1)
  r := rec(d)
  f.(r)
  acc
end
var ps: ArrayList[Promise[Int]] = []
for i in 1...5 then ps << work(i, %d)
s := 0
for p in ps
  v := await p
  s = s * 3 + v
end
println(s)
`, d)})
		ps = append(ps, program{ID: fmt.Sprintf("async-nested/d%d", d), Kind: "async function awaiting async functions", Depth: d, Async: true, Nested: true, Src: recDef + fmt.Sprintf(`async def leaf(k: Int, d: Int): Int
  rec(d) + k
end
async def mid(k: Int, d: Int): Int
  a := await leaf(k, d)
  keep := a * 2
  b := await leaf(k + 1, d)
  keep + b
end
async def top(d: Int): Int
  x := await mid(1, d)
  y := await mid(10, d)
  x * 1000 + y
end
println(top(%d).await_sync)
`, d)})
	}

	// symbol-heavy programs for the symbol table presize
	{
		var s strings.Builder
		s.WriteString("var syms: ArrayList[Symbol] = []\n")
		for i := 0; i < 40; i++ {
			fmt.Fprintf(&s, "syms << :lit_sym_%d\n", i)
		}
		s.WriteString("for i in 1...300\n  syms << (\"dyn_\" + i.to_string).to_symbol\nend\n")
		s.WriteString("println(syms.length)\nprintln(syms[0].inspect)\nprintln(syms[39].inspect)\nprintln(syms[40].inspect)\nprintln(syms[339].inspect)\n")
		s.WriteString("a := \"dyn_7\".to_symbol\nb := syms[46]\nprintln((a == b).inspect)\nc := :lit_sym_3\nd := syms[3]\nprintln((c == d).inspect)\n")
		ps = append(ps, program{ID: "symbols/many", Kind: "symbols", Src: s.String()})
		ps = append(ps, program{ID: "symbols/methods", Kind: "symbols", Src: func() string {
			var m strings.Builder
			for i := 0; i < 30; i++ {
				fmt.Fprintf(&m, "def sym_meth_%d(a: Int): Int then a + %d\n", i, i)
			}
			m.WriteString("s := 0\n")
			for i := 0; i < 30; i++ {
				fmt.Fprintf(&m, "s += sym_meth_%d(%d)\n", i, i)
			}
			m.WriteString("println(s)\n")
			return m.String()
		}()})
	}
	return ps
}
