// C10 — runtime sizing parameters do not change program results.
// Configurations × programs, every pair run in its own child process (this binary re-executed with C10_CHILD=1 and
// the ELK_* environment of the configuration), because a wrong stack reallocation corrupts memory of the process.
// Oracle: stdout, result and uncaught error identical to the default configuration, unless the run ends with the
// VM's stack-exhaustion panic in a configuration that lowers a stack *limit*.
package main

import (
	"bytes"
	"context"
	"encoding/json"
	"fmt"
	"io"
	"os"
	"os/exec"
	"regexp"
	"strings"
	"time"

	"github.com/elk-language/elk/value"
	"github.com/elk-language/elk/vm"

	"verifharness/elkrun"
	"verifharness/engine"
)

// ---------------------------------------------------------------- child

type childIn struct {
	Src   string
	PoolN int // explicit thread pool passed to the VM (0: the default pool)
	PoolQ int
}

type childOut struct {
	Rejected bool
	Diags    string
	Stdout   string
	Value    string
	Err      string
	ErrClass string
	Panic    string
	PanicSig string
	Stack    string
	// filled by the parent
	Crash   string // the child died: signature of the Go panic / fatal error
	Timeout bool
	Stderr  string
}

func child() {
	os.Setenv("VERIF_WORKER", "1")
	var in childIn
	b, _ := io.ReadAll(os.Stdin)
	if err := json.Unmarshal(b, &in); err != nil {
		fmt.Fprintln(os.Stderr, "bad input:", err)
		os.Exit(2)
	}
	elkrun.Init()
	var o *elkrun.Options
	if in.PoolN > 0 {
		o = &elkrun.Options{Pool: vm.NewThreadPool(in.PoolN, in.PoolQ)}
	}
	res := elkrun.Run(in.Src, o)
	out := childOut{Rejected: res.Rejected, Diags: res.Diags, Stdout: res.Stdout, Value: res.Value, Err: res.Err, ErrClass: res.ErrClass,
		Panic: res.Panic, PanicSig: res.PanicSig, Stack: res.Stack}
	enc, _ := json.Marshal(out)
	os.NewFile(uintptr(1), "out").Write(enc)
	os.Exit(0)
}

// ---------------------------------------------------------------- configurations

type config struct {
	Name         string
	Env          map[string]string
	PoolN, PoolQ int
	LowersLimit  bool   // lowers MAX_VALUE_STACK_SIZE or CALL_STACK_SIZE: exhaustion is a legal outcome
	InitSlots    int    // initial value-stack slots if changed (0: default)
	Class        string // stack | pool | envpool | symtab
}

func slotsEnv(slots int) string   { return fmt.Sprint(slots * int(value.ValueSize)) }
func framesEnv(frames int) string { return fmt.Sprint(frames * int(vm.CallFrameSize)) }

const bigCallStackFrames = 4096

// refSlots: initial value-stack size of the reference configuration: large enough that no program of the space ever
// makes the stack grow (growth starts at 70 % of the size), i.e. the reference run involves no reallocation at all.
const refSlots = 1 << 20

var refConfig = config{Name: "reference(no-growth init=1Mi slots)", Env: map[string]string{"ELK_INIT_VALUE_STACK_SIZE": slotsEnv(refSlots)}, Class: "reference"}

// baseEnv: the environment shared by the reference and every variant of a program (depth-1000 programs need a call
// stack deeper than the default 74 KB in every configuration, the reference included).
func baseEnv(p program) map[string]string {
	if p.Depth >= 500 {
		return map[string]string{"ELK_CALL_STACK_SIZE": framesEnv(bigCallStackFrames)}
	}
	return nil
}

func stackConfigs(thorough bool) []config {
	var cs []config
	cs = append(cs, config{Name: "default", Class: "stack"})
	for _, s := range []int{8, 16, 32, 64, 256} {
		cs = append(cs, config{Name: fmt.Sprintf("init=%d", s), Env: map[string]string{"ELK_INIT_VALUE_STACK_SIZE": slotsEnv(s)}, InitSlots: s, Class: "stack"})
	}
	if thorough {
		for _, s := range []int{24, 48, 100, 128, 512, 1024, 3000} {
			cs = append(cs, config{Name: fmt.Sprintf("init=%d", s), Env: map[string]string{"ELK_INIT_VALUE_STACK_SIZE": slotsEnv(s)}, InitSlots: s, Class: "stack"})
		}
	}
	// maximum sizes: a ladder at init=64; the smallest rung at which a program still succeeds is its "just enough" maximum
	maxes := []int{256, 1024, 4096, 16384}
	if thorough {
		maxes = []int{128, 256, 512, 1024, 2048, 4096, 8192, 16384, 65536}
	}
	for _, m := range maxes {
		cs = append(cs, config{Name: fmt.Sprintf("init=64,max=%d", m), Env: map[string]string{"ELK_INIT_VALUE_STACK_SIZE": slotsEnv(64), "ELK_MAX_VALUE_STACK_SIZE": slotsEnv(m)},
			InitSlots: 64, LowersLimit: true, Class: "stack"})
	}
	// max at default initial size: only the limit changes
	cs = append(cs, config{Name: "max=4096", Env: map[string]string{"ELK_MAX_VALUE_STACK_SIZE": slotsEnv(4096)}, LowersLimit: true, Class: "stack"})
	cs = append(cs, config{Name: "callstack=64", Env: map[string]string{"ELK_CALL_STACK_SIZE": framesEnv(64)}, LowersLimit: true, Class: "stack"})
	cs = append(cs, config{Name: "callstack=64,init=64", Env: map[string]string{"ELK_CALL_STACK_SIZE": framesEnv(64), "ELK_INIT_VALUE_STACK_SIZE": slotsEnv(64)}, InitSlots: 64, LowersLimit: true, Class: "stack"})
	return cs
}

func poolConfigs(nested bool) []config {
	var cs []config
	for _, n := range []int{1, 2, 4} {
		for _, q := range []int{2, 256} {
			if nested && q < 256 {
				continue // tasks that spawn tasks on a nearly full bounded queue: the known capacity deadlock (C16), not this property
			}
			cs = append(cs, config{Name: fmt.Sprintf("pool=%d,queue=%d", n, q), PoolN: n, PoolQ: q, Env: refConfig.Env, Class: "pool"})
		}
	}
	for _, n := range []int{1, 4} {
		for _, q := range []int{4, 256} {
			if nested && q < 256 {
				continue
			}
			cs = append(cs, config{Name: fmt.Sprintf("ELK_DEFAULT_THREAD_POOL_SIZE=%d,QUEUE_SIZE=%d", n, q),
				Env: map[string]string{"ELK_DEFAULT_THREAD_POOL_SIZE": fmt.Sprint(n), "ELK_DEFAULT_THREAD_POOL_QUEUE_SIZE": fmt.Sprint(q), "ELK_INIT_VALUE_STACK_SIZE": slotsEnv(refSlots)}, Class: "envpool"})
		}
	}
	// default and small stacks on the pool's threads
	cs = append(cs, config{Name: "default", Class: "stack"})
	for _, s := range []int{32, 64, 256} {
		cs = append(cs, config{Name: fmt.Sprintf("init=%d,pool-default", s), Env: map[string]string{"ELK_INIT_VALUE_STACK_SIZE": slotsEnv(s)}, InitSlots: s, Class: "stack"})
	}
	return cs
}

func symtabConfigs() []config {
	var cs []config
	for _, n := range []int{0, 1, 128, 100000} {
		cs = append(cs, config{Name: fmt.Sprintf("ELK_SYMBOL_TABLE_INITIAL_SIZE=%d", n), Env: map[string]string{"ELK_SYMBOL_TABLE_INITIAL_SIZE": fmt.Sprint(n), "ELK_INIT_VALUE_STACK_SIZE": slotsEnv(refSlots)}, Class: "symtab"})
	}
	return cs
}

// ---------------------------------------------------------------- running

var timeoutS = 120

// runChild runs one (program, configuration) pair; a run that exceeds the time limit is repeated once with five
// times the limit before it is believed (the machine is shared).
func runChild(p program, cfg config) childOut {
	out := runChildT(p, cfg, timeoutS)
	if out.Timeout {
		out = runChildT(p, cfg, 5*timeoutS)
	}
	return out
}

func runChildT(p program, cfg config, limitS int) childOut {
	exe, err := os.Executable()
	if err != nil {
		panic(err)
	}
	ctx, cancel := context.WithTimeout(context.Background(), time.Duration(limitS)*time.Second)
	defer cancel()
	cmd := exec.CommandContext(ctx, exe)
	env := []string{}
	for _, kv := range os.Environ() {
		if strings.HasPrefix(kv, "ELK_") && !strings.HasPrefix(kv, "ELKPATH") && !strings.HasPrefix(kv, "ELKWARN") {
			continue
		}
		env = append(env, kv)
	}
	env = append(env, "C10_CHILD=1")
	for k, v := range baseEnv(p) {
		env = append(env, k+"="+v)
	}
	for _, k := range sortedKeys(cfg.Env) {
		env = append(env, k+"="+cfg.Env[k]) // later entries win
	}
	cmd.Env = env
	in, _ := json.Marshal(childIn{Src: p.Src, PoolN: cfg.PoolN, PoolQ: cfg.PoolQ})
	cmd.Stdin = bytes.NewReader(in)
	var so, se bytes.Buffer
	cmd.Stdout, cmd.Stderr = &so, &se
	runErr := cmd.Run()
	var out childOut
	if ctx.Err() != nil {
		out.Timeout = true
		out.Stderr = tailStr(se.String(), 2000)
		return out
	}
	if runErr == nil && json.Unmarshal(so.Bytes(), &out) == nil {
		return out
	}
	stderr := se.String()
	out.Stderr = crashHead(stderr)
	if strings.Contains(stderr, "panic:") || strings.Contains(stderr, "fatal error:") || strings.Contains(stderr, "SIGSEGV") || strings.Contains(stderr, "unexpected fault") {
		out.Crash = crashSig(stderr)
		return out
	}
	if ee, ok := runErr.(*exec.ExitError); ok {
		// the process died in some other way (e.g. "fatal: bad g in signal handler" after memory corruption, a signal)
		first := strings.TrimSpace(firstLine(strings.TrimSpace(stderr)))
		if first == "" {
			first = ee.String()
		}
		out.Crash = "process died: " + numRe.ReplaceAllString(firstN(first, 80), "N")
		return out
	}
	panic(fmt.Sprintf("infrastructure: child failed: %v\nstdout: %s\nstderr: %s", runErr, tailStr(so.String(), 500), tailStr(stderr, 2000)))
}

func sortedKeys(m map[string]string) []string {
	var ks []string
	for k := range m {
		ks = append(ks, k)
	}
	for i := range ks {
		for j := i + 1; j < len(ks); j++ {
			if ks[j] < ks[i] {
				ks[i], ks[j] = ks[j], ks[i]
			}
		}
	}
	return ks
}

func tailStr(s string, n int) string {
	if len(s) > n {
		return s[len(s)-n:]
	}
	return s
}

func crashHead(stderr string) string {
	i := strings.Index(stderr, "panic:")
	for _, k := range []string{"fatal error:", "unexpected fault address", "unexpected signal"} {
		if j := strings.Index(stderr, k); j >= 0 && (i < 0 || j < i) {
			i = j
		}
	}
	if i < 0 {
		return tailStr(stderr, 3000)
	}
	h := stderr[i:]
	if len(h) > 3000 {
		h = h[:3000]
	}
	return h
}

var recoveredRe = regexp.MustCompile(`\s*\[recovered\].*`)
var numRe = regexp.MustCompile(`0x[0-9a-f]+|\b\d+\b`)

func crashSig(stderr string) string {
	h := crashHead(stderr)
	first := recoveredRe.ReplaceAllString(strings.SplitN(h, "\n", 2)[0], "")
	return engine.PanicSig(first, h)
}

// outcome renders what the program observably did.
func (o childOut) outcome() string {
	switch {
	case o.Timeout:
		return "TIMEOUT"
	case o.Crash != "":
		return "HOST-CRASH " + o.Crash
	case o.Rejected:
		return "REJECTED " + firstLine(o.Diags)
	case o.Panic != "":
		return fmt.Sprintf("GO-PANIC %s (stdout so far %q)", o.PanicSig, o.Stdout)
	case o.Err != "":
		return fmt.Sprintf("stdout=%q uncaught=%s", o.Stdout, o.Err)
	}
	return fmt.Sprintf("stdout=%q result=%s", o.Stdout, o.Value)
}

func firstLine(s string) string { return strings.SplitN(s, "\n", 2)[0] }

// exhaustion: the VM's reaction to an exhausted stack limit (vm/thread.go growValueStack, cfpIncrementBy): a Go panic
// with one of these messages, on the main thread (recovered by elkrun) or on a pool thread (kills the process).
func (o childOut) exhaustion() bool {
	for _, m := range []string{"maximum value stack size exceeded", "call stack overflow"} {
		if strings.Contains(o.Panic, m) || strings.Contains(o.Crash, m) {
			return true
		}
	}
	return false
}

// kind classifies a deviating outcome for signatures (no concrete values).
func (o childOut) kind() string {
	switch {
	case o.Timeout:
		return "hang"
	case o.Crash != "":
		return "host crash " + o.Crash
	case o.Rejected:
		return "compile-time diagnostics differ"
	case o.Panic != "":
		return "go panic " + o.PanicSig
	case o.Err != "":
		return "uncaught " + o.ErrClass
	}
	return "wrong output"
}

// ---------------------------------------------------------------- check

// frameBound: every frame of every program of the space needs at most this many value-stack slots (receiver,
// parameters, locals, temporaries and the outgoing call's receiver and arguments; counted by hand per program and
// confirmed by running the space on a tree with the reallocation defects repaired). The VM checks for growth only at
// method calls and then guarantees 30 % of the current size, so an initial size L with 0.3·L < frameBound may be
// overrun by a single frame: deviations there are reported under their own ("arguable") signature.
const frameBound = 19

func arguable(cfg config) bool {
	return cfg.InitSlots > 0 && 0.3*float64(cfg.InitSlots) < frameBound
}

func checkProgram(r *engine.R, p program, cfgs []config) {
	ref := runChild(p, refConfig)
	r.Eval(1)
	if ref.Timeout {
		r.Capped(p.ID + ": the reference run did not finish")
		return
	}
	if ref.Rejected || ref.Panic != "" || ref.Crash != "" {
		if ref.Rejected {
			panic("generator bug: program rejected by the checker: " + p.ID + "\n" + ref.Diags + "\n" + p.Src)
		}
		// no reference behaviour even without any reallocation: a defect outside this property; recorded
		r.Count("programs_failing_in_the_no_growth_reference", 1)
		r.Note(fmt.Sprintf("%s: in the no-growth reference configuration: %s", p.ID, ref.outcome()))
		r.Outcome("no reference: " + ref.kindCoarse())
		return
	}
	want := ref.outcome()
	r.Outcome("reference: " + classify(ref))
	for _, cfg := range cfgs {
		got := runChild(p, cfg)
		r.Eval(1)
		r.NT(1)
		g := got.outcome()
		if g == want {
			r.Outcome("same as reference")
			r.Count("pairs_equal", 1)
			continue
		}
		if got.Timeout {
			// no wall-clock oracle: a pair that does not finish is recorded as not explored (termination under small
			// queues is property C16), never as a violation of this property
			r.Outcome("did not finish (not judged)")
			r.Count("pairs_timed_out", 1)
			r.Capped(fmt.Sprintf("%s under %s did not finish within %d s (twice)", p.ID, cfg.Name, 5*timeoutS))
			continue
		}
		if got.exhaustion() && cfg.LowersLimit {
			r.Outcome("stack limit exhausted (allowed)")
			r.Count("pairs_limit_exhausted", 1)
			continue
		}
		r.Count("pairs_deviating", 1)
		input := map[string]any{"program": p.Src, "config": cfg.Name, "env": cfg.Env, "base_env": baseEnv(p), "pool": []int{cfg.PoolN, cfg.PoolQ}}
		detail := fmt.Sprintf("program %s, configuration %s\n--- %s: %s\n--- %s: %s\n%s\n--- program:\n%s", p.ID, cfg.Name, refConfig.Name, want, cfg.Name, g, firstN(got.Stack+got.Stderr, 1500), p.Src)
		switch {
		case cfg.Class == "stack" && arguable(cfg):
			// arguable region of the property's proviso ("as long as no stack limit is exhausted"): the initial stack may be
			// smaller than what one frame needs before the next growth check; reported apart from the reallocation defects
			r.Violation("initial value stack below 64 slots: a single frame may overrun the 30 % headroom guaranteed between growth checks (arguable region)", detail, input)
			r.Outcome("deviates: initial stack below one frame's need (" + got.kindCoarse() + ")")
		case cfg.Class == "stack":
			r.Violation("value-stack growth changes the result: "+liveWhat(p), detail, input)
			r.Outcome("deviates: stack growth (" + got.kindCoarse() + ")")
		default:
			r.Violation(fmt.Sprintf("%s configuration changes the result of %s → %s", cfg.Class, p.Kind, got.kindCoarse()), detail, input)
			r.Outcome("deviates: " + cfg.Class)
		}
	}
	r.Sample(map[string]any{"program": p.ID, "source": p.Src, "reference_outcome": want})
}

func liveWhat(p program) string {
	switch p.Kind {
	case "plain":
		return "plain recursion (no closures, no generators)"
	case "flat":
		return "flat program (no recursion, no closures, no generators)"
	}
	return "live " + p.Kind
}

// kindCoarse: for the tiny-stack region the exact crash site is memory-corruption dependent: keep only the class.
func (o childOut) kindCoarse() string {
	switch {
	case o.Timeout:
		return "hang"
	case o.Crash != "":
		return "host crash"
	case o.Panic != "":
		return "go panic"
	case o.Err != "":
		return "uncaught " + o.ErrClass
	case o.Rejected:
		return "compile-time diagnostics differ"
	}
	return "wrong output"
}

func tinyClass(slots int) int {
	for _, b := range []int{8, 16, 32, 64, 128, 256, 1024} {
		if slots <= b {
			return b
		}
	}
	return 1 << 20
}

func firstN(s string, n int) string {
	if len(s) > n {
		return s[:n]
	}
	return s
}

func classify(o childOut) string {
	if o.Err != "" {
		return "uncaught " + o.ErrClass
	}
	return "normal completion"
}

func main() {
	if os.Getenv("C10_CHILD") != "" {
		child()
		return
	}
	if f := os.Getenv("C10_ONE"); f != "" {
		one(f)
		return
	}
	if os.Getenv("C10_LIST") != "" {
		for _, p := range programs(os.Getenv("C10_LIST") == "thorough") {
			fmt.Printf("=== %s kind=%s depth=%d async=%v nested=%v\n%s\n", p.ID, p.Kind, p.Depth, p.Async, p.Nested, p.Src)
			if os.Getenv("C10_RUN") != "" {
				fmt.Println("--- reference:", runChild(p, refConfig).outcome())
				fmt.Println("--- default:", runChild(p, config{Name: "default"}).outcome())
			}
		}
		return
	}
	engine.Main(&engine.Spec{
		Prop:  "C10",
		Level: "exploration",
		Rule: "programs {flat top-level program, plain recursion, closure with an open upvalue that is not on the call stack during growth, closure on the call stack during growth, a closure per recursion level, " +
			"closure/method mutual recursion, closures over locals/parameters/loop variables called before and after the defining frame returns, generators resumed across growth, generator calling deep recursion, " +
			"generator handed down the recursion, async functions (fan-out, with closures, nested awaits)} × recursion depth {1, 10, 100, 1000} × configurations " +
			"{ELK_INIT_VALUE_STACK_SIZE = 8, 16, 32, 64, 256 slots; ELK_MAX_VALUE_STACK_SIZE ladder 256..16384 slots at init=64 and 4096 at the default initial size; ELK_CALL_STACK_SIZE = 64 frames (alone and with init=64); " +
			"for async programs explicit pools (n, q) ∈ {1,2,4}×{2,256}, ELK_DEFAULT_THREAD_POOL_SIZE × QUEUE_SIZE ∈ {1,4}×{4,256}, small stacks on pool threads; ELK_SYMBOL_TABLE_INITIAL_SIZE ∈ {0, 1, 128, 100000} on symbol-heavy programs}; " +
			"every (program, configuration) pair runs in its own process with the real environment variables and is compared with the same program at the default sizes; thorough adds 7 initial sizes and a finer maximum ladder; " +
			"a pair is non-trivial when it ran under a non-default configuration; depth-1000 programs use a 4096-frame call stack in every configuration including the reference",
		Assume: []string{
			"the outcome at the default configuration is the reference (programs whose default run fails by a Go panic are recorded as having no reference)",
			"exhaustion of a lowered MAX_VALUE_STACK_SIZE / CALL_STACK_SIZE is recognised by the VM's panic messages 'maximum value stack size exceeded' / 'call stack overflow'",
			"no frame of the space needs more than 19 value-stack slots; deviations at initial sizes L with 0.3·L < 19 (the headroom the VM guarantees between growth checks) are reported under one separate 'arguable region' signature",
			"a pair that does not finish within 10 minutes (after one retry) is recorded as not judged, never as a violation",
			"nested task spawning is only run with queue capacity 256 (bounded-queue capacity deadlock is property C16)",
		},
		Run:              run,
		CaseTimeout:      40 * time.Minute,
		QuickDeadline:    12 * time.Minute,
		ThoroughDeadline: 55 * time.Minute,
	})
}

func run(c *engine.Ctx) {
	for _, p := range programs(c.Thorough) {
		p := p
		var cfgs []config
		switch {
		case p.Kind == "symbols":
			cfgs = symtabConfigs()
		case p.Async:
			cfgs = poolConfigs(p.Nested)
		default:
			cfgs = stackConfigs(c.Thorough)
		}
		// small groups of configurations per case
		const group = 4
		for i := 0; i < len(cfgs); i += group {
			j := i + group
			if j > len(cfgs) {
				j = len(cfgs)
			}
			sub := cfgs[i:j]
			c.Case(fmt.Sprintf("%s/%s", p.ID, sub[0].Name), func(r *engine.R) { checkProgram(r, p, sub) })
		}
	}
}

// one: development aid — C10_ONE=file.elk [C10_ENV="K=V,K=V"] runs one program at default and at the given env.
func one(file string) {
	b, err := os.ReadFile(file)
	if err != nil {
		fmt.Println(err)
		os.Exit(2)
	}
	p := program{ID: file, Src: string(b)}
	fmt.Println("reference:", runChild(p, refConfig).outcome())
	fmt.Println("default:", runChild(p, config{Name: "default"}).outcome())
	env := map[string]string{}
	for _, kv := range strings.Split(os.Getenv("C10_ENV"), ",") {
		if k, v, ok := strings.Cut(kv, "="); ok {
			env[k] = v
		}
	}
	if s := os.Getenv("C10_INIT_SLOTS"); s != "" {
		var n int
		fmt.Sscan(s, &n)
		env["ELK_INIT_VALUE_STACK_SIZE"] = slotsEnv(n)
	}
	got := runChild(p, config{Name: "variant", Env: env})
	fmt.Println("variant:", got.outcome())
	if got.Stack+got.Stderr != "" {
		fmt.Println(firstN(got.Stack+got.Stderr, 2500))
	}
}
