package main

import "fmt"

// corpus returns small valid Elk programs (every syntactic family of DESIGN.md Appendix B); every byte prefix of each
// of them is a REPL fragment of space (d).
func corpus() []string {
	progs := []string{
		// locals, literals
		"x := 1", "var a: Int? = 1", "val c = 2", "var s: String = \"x\"", "const Foo = 3", "a = b = 3",
		"1180591620717411303424", "1.5", "1e+30", "1.5bf", "1.5f32", "3i8", "3u64", "3u", "0x1f", "0b101", "1_000",
		"\"s\\n\\$\"", "\"a ${1 + 2} b\"", "\"#{x} and $y and #Z\"", "'raw'", "`c`", "`\\n`", "r`c`", ":sym", ":\"s y\"", "nil", "true", "false",
		"[1, 2, 3]", "%[1, 2]", "{1 => 2}", "%{a: 2}", "{ \"a\" => 1, b: 2 }", "^[1, 2]", "[1, *a]", "[x for x in y]",
		"1...5", "1<.<5", "1..<5", "1<..5", "...5", "1...", "%/a+b/im", "%/a${b}c/", "%w[a b]", "%s[a b]", "%x[ff 1a]", "%b[101 1]",
		"\\w[a b]", "\\s[a b]", "^w[a b]", "^x[ff]", "[1, 2]:5",
		// methods and calls
		"def m(a: Int, b: String = \"x\"): String then b + a.to_string",
		"def m(a: Int): Int\n  a + 1\nend",
		"def m(*a: Int, **b: Int); end",
		"def +(other: Int): Int then 1",
		"def *g: Int\n  yield 1\n  yield 2\n  3\nend",
		"async def f: Int then 1",
		"def f: Int ! Error then throw Error()",
		"def f[T](a: T): T then a",
		"sig foo(a: Int): String",
		"init(@a: Int); end",
		"foo(1, b: 2)", "foo 1, 2", "a.b.c(1).d", "a?.b", "a..b(1)..c", "a.b = 3", "a[1]", "a[1] = 2", "a?[1]", "Foo(1)", "Foo::Bar.baz", "::Foo",
		"foo() |x| -> x", "foo(1) -> 2", "self.foo", "a.b!", "foo\n  .bar\n  .baz", "a.(1)", "a.call(1)", "a |> b()", "new(1)", "Foo::[Int](2)", "foo::[Int](1)", "a.b += 1", "a[0] ||= 2",
		// closures
		"f := |a: Int|: Int -> a + 1", "g := || -> 1", "h := -> 2", "l := ~> 3", "|x| -> x + 1", "|a, b| -> a", "|| -> nil",
		"|a: Int| ->\n  a\nend", "-> do\n  1\nend",
		// operators
		"-a", "+a", "!a", "~a", "a ** b", "-2 ** 2", "(-2) ** 2", "a if b else c", "a <: Int", "a <<: ::Std::Int", "a :> b", "a as ::Std::Int", "must a", "try a", "typeof a",
		"a && b || c ?? d", "a |! b &! c", "a++", "a--", "&a", "a <=> b", "a =~ b", "a !~ b", "a === b", "a !== b",
		// control flow
		"if c then 1 else 2", "if a\n  1\nelsif b\n  2\nelse\n  3\nend", "unless c\n  1\nelse\n  2\nend", "println(\"m\") if c", "a unless b",
		"while i < 2\n  i += 1\nend", "until i == 0\n  i -= 1\nend", "for j in 1...3\n  j\nend", "for i in g() then println(i)", "fornum i := 0; i < 5; i += 1\n  i\nend",
		"loop\n  break 1\nend", "a while b", "a until b", "a for i in b", "do\n  1\nend while a",
		"r := $lbl: loop\n  loop\n    break[$lbl] 7\n  end\nend", "continue", "continue[$a] 2", "break", "return", "return 1", "return a if b", "yield 1", "go a", "await a", "await_sync a",
		"do\n  throw :boom\ncatch :boom\n  1\ncatch e\n  2\nfinally\n  3\nend",
		"do\n  1\ncatch Error() as e, st\n  2\nend",
		"defer println(\"d\")", "throw unchecked 5", "throw :a",
		"x := n ?? 4", "y := nil || 3", "z := 1 && 2", "(must m) + 1",
		// switch / patterns
		"switch v\ncase 5 then \"a\"\ncase < 8 then \"b\"\ncase [1, *r] then \"c\"\ncase %[a, b] then \"d\"\nelse \"z\"\nend",
		"switch v\ncase { 1 => x } then \"e\"\ncase ::Std::ArrayList(length: > 1 as l) then \"f\"\ncase nil then \"n\"\nend",
		"switch a\ncase 1 || 2 then 3\ncase 1...5 then 4\ncase %/a/ then 5\ncase \"s\" then 6\ncase :s then 7\nend",
		"switch a\ncase Foo::Bar then 1\ncase ^[1, 2] then 2\ncase %{a: 1, b} then 3\ncase == b then 4\ncase =~ 2 then 5\ncase Int as i then i\nend",
		"var [a, b] = c", "val %[a, *b] = c", "var {a: b} = c", "for [a, b] in c then a",
		"select\ncase w := <<ch\n  1\ncase ch << 6\n  2\nend",
		// declarations
		"class Foo < Bar\n  def a; end\nend", "class Foo; end", "class Foo[T < Bar = Baz]; end", "abstract class A; end", "sealed primitive noinit class B; end",
		"class Foo\n  attr n: Int\n  init(@n: Int); end\n  def incr then @n += 1\nend",
		"module M\n  def k: Int then 2\nend", "mixin Mi\n  def a; end\nend", "interface I\n  sig a: Int\nend", "struct S\n  a: Int\n  b: String = \"x\"\nend",
		"singleton\n  def a; end\nend", "include Foo", "implement Foo", "extend where T < Foo\n  def a; end\nend",
		"getter a: Int", "setter a: Int", "attr a: Int, b: String", "alias a b", "typedef Foo = Int | String", "typedef Foo[T] = T?", "var @a: Int", "const A: Int = 1",
		"using Std::Sync::{Mutex, WaitGroup}", "using Foo::*", "using Foo as Bar", "import \"./foo\"",
		"##[\n  doc\n]##\ndef a; end", "# comment\n1", "#[ block ]# 1", "/* c */ 1", "// c\n1",
		"def a=(b); end", "def [](i: Int): Int then i", "def []=(i: Int, v: Int); end", "def a: void; end", "class ::Foo::Bar; end", "val a: Int", "a := b := 1", "a = 1 if b",
		// types
		"var a: Int | String", "var a: Int & Foo", "var a: ~Int", "var a: Foo[Int, String]", "var a: ::Foo::Bar", "var a: List[Int]", "var a: |a: Int|: String", "var a: %|a: Int|: String", "var a: 1 | \"a\" | :b",
		"var a: any", "var a: never", "var a: bool", "var a: self", "var a: &Foo", "var a: ^Foo", "var a: %Foo", "var a: nil", "var a: Foo / Bar", "var a: (Int | nil)?",
		// macros
		"using Std::Elk::AST::*\nmacro m(x: IntLiteralNode)\n  quote\n    1 + !{x}\n  end\nend\nm!(3)",
		"quote\n  a + unquote(b)\nend", "quote_expr a + b", "quote_type Int | !{a}", "quote_pattern [1, a]", "unquote_ident(a)", "unquote_const(a)", "unquote_ivar(a)", "var a: unquote_type(b)", "switch a\ncase unquote_pattern(b) then 1\nend", "unquote_expr(a)",
		"foo!(1)", "a.foo!(1)", "Foo::bar!(1)", "macro a; end",
		// sync
		"wg := WaitGroup(1)\ngo\n  wg.end\nend\nwg.wait", "ch := Channel::[Int](2)\nch << 1\nv := <<ch", "m := Mutex()\nm.lock\nm.unlock",
		"println(a && b)",
	}
	for _, op := range []string{"+", "-", "*", "/", "**", "%", "<<", ">>", "<<<", ">>>", "&", "|", "^", "&~", "&&", "||", "??", "==", "!=", "<", "<=", ">", ">=",
		"<=>", "+=", "-=", "*=", "/=", "**=", "%=", "&=", "|=", "^=", "<<=", ">>=", "&&=", "||=", "??=", ":="} {
		progs = append(progs, fmt.Sprintf("a %s b", op))
	}
	return progs
}
