// C03 — the front end is total: every input gets diagnostics, never a crash or a hang.
//
// Bounded-exhaustive enumeration of four input spaces, each input under recover() and the engine's watchdog:
//
//	(a) every byte string of length <= 4 (quick) / 5 (thorough) over a 26-byte alphabet -> lexer.Lex, parser.Parse,
//	    rendering of the diagnostics the way `elk run`/the REPL print them;
//	(b) every sequence of <= 2 lexemes over one representative lexeme of every token type the lexer can emit, and
//	    every sequence of exactly 3 (quick) / 3 and 4 (thorough) lexemes over a 48-lexeme core alphabet -> parser.Parse;
//	    each sequence that parses without diagnostics is also type-checked (checker.CheckSource);
//	(c) every regex body of length <= 3 (quick) / 4 (thorough) over a 25-character alphabet x all 64 flag sets ->
//	    regex/parser.Parse, regex.Transpile, value.CompileRegex;
//	(d) every byte prefix of a corpus of small valid programs -> parser.New().Parse()/IsIncomplete/ShouldIndent and the
//	    incremental (REPL) checker + diagnostic rendering.
//
// Oracle: no Go panic, no hang. A panic's signature is its message plus the top two frames inside the elk module;
// a hang's signature is the stage plus the looping function and its caller.
package main

import (
	"fmt"
	"os"
	"runtime"
	"runtime/debug"
	"sort"
	"strings"
	"sync/atomic"
	"time"

	"github.com/elk-language/elk/bitfield"
	"github.com/elk-language/elk/lexer"
	"github.com/elk-language/elk/parser"
	"github.com/elk-language/elk/position/diagnostic"
	"github.com/elk-language/elk/regex"
	regexparser "github.com/elk-language/elk/regex/parser"
	"github.com/elk-language/elk/token"
	"github.com/elk-language/elk/types/checker"
	"github.com/elk-language/elk/value"
	"github.com/fatih/color"

	"verifharness/elkrun"
	"verifharness/engine"
)

// --- hang detection ------------------------------------------------------------------------------------------------
// Every front-end call on one input normally takes microseconds to milliseconds. A monitor goroutine watches the input
// in flight; when the SAME call has been running for hangAfter (a factor >= 10^3 above anything a loaded machine
// explains) it samples the stuck goroutine's stack a few times, keeps the frames common to all samples (the stack down
// to the function that contains the loop), prints them as a crash report and exits. The engine attributes the dead
// worker to the running case ("host-crash: ...") and restarts the shard after it, so every non-terminating input of
// one defect gets the same signature, whatever case it sits in. (The engine's own per-case watchdog stays as a
// last resort with a very long timeout: it cannot tell a slow machine from a hang.)

const hangAfter = 30 * time.Second

type inflight struct {
	stage, input string
}

var cur atomic.Pointer[inflight]

// guardStack returns the function names (outermost first) of the goroutine that is inside guard().
func guardStack() []string {
	buf := make([]byte, 1<<20)
	n := runtime.Stack(buf, true)
	for _, block := range strings.Split(string(buf[:n]), "\n\n") {
		if !strings.Contains(block, "main.guard(") {
			continue
		}
		var fns []string
		for _, line := range strings.Split(block, "\n") {
			if strings.HasPrefix(line, "\t") || strings.HasPrefix(line, "goroutine ") || line == "" {
				continue
			}
			if k := strings.LastIndex(line, "("); k > 0 {
				line = line[:k]
			}
			fns = append(fns, strings.TrimPrefix(line, "github.com/elk-language/elk/"))
		}
		for l, r := 0, len(fns)-1; l < r; l, r = l+1, r-1 {
			fns[l], fns[r] = fns[r], fns[l]
		}
		return fns
	}
	return nil
}

func monitor() {
	var last *inflight
	var since time.Time
	for {
		time.Sleep(time.Second)
		p := cur.Load()
		if p == nil || p != last {
			last, since = p, time.Now()
			continue
		}
		if time.Since(since) < hangAfter {
			continue
		}
		// still the same call: sample the stack
		common := guardStack()
		for k := 0; k < 6; k++ {
			time.Sleep(40 * time.Millisecond)
			if cur.Load() != p {
				common = nil
				break
			}
			s := guardStack()
			m := 0
			for m < len(common) && m < len(s) && common[m] == s[m] {
				m++
			}
			common = common[:m]
		}
		if cur.Load() != p || len(common) == 0 {
			last = nil
			continue
		}
		// innermost frames that never changed = the function containing the loop and its caller
		var elk []string
		for _, f := range common {
			if !strings.HasPrefix(f, "main.") && !strings.HasPrefix(f, "verifharness/") && !strings.HasPrefix(f, "runtime.") {
				elk = append(elk, f)
			}
		}
		where := "?"
		if len(elk) >= 2 {
			where = elk[len(elk)-1] + " <- " + elk[len(elk)-2]
		} else if len(elk) == 1 {
			where = elk[0]
		}
		fmt.Fprintf(os.Stderr, "panic: hang in %s\n", where)
		fmt.Fprintf(os.Stderr, "the front end does not terminate (stage %s): input %q (bytes % x) has been inside this call for more than %v; stack of the stuck goroutine, outermost first:\n  %s\n",
			p.stage, p.input, p.input, hangAfter, strings.Join(common, "\n  "))
		os.Exit(2)
	}
}

// guard runs f under recover; a panic becomes a violation whose signature is the panic signature.
func guard(r *engine.R, stage, input string, f func()) (ok bool) {
	cur.Store(&inflight{stage, input})
	defer func() {
		cur.Store(nil)
		if p := recover(); p != nil {
			st := string(debug.Stack())
			sig := engine.PanicSig(fmt.Sprint(p), st)
			prefix := "panic: "
			if stage == "render" {
				prefix = "panic while rendering diagnostics: "
			}
			r.Violation(prefix+sig, fmt.Sprintf("stage %s, input %q\npanic: %v\n%s", stage, input, p, trimStack(st)),
				map[string]any{"stage": stage, "input": input, "bytes": fmt.Sprintf("% x", input)})
			r.Outcome("panic")
			r.Count("panicking_inputs", 1)
			ok = false
		}
	}()
	f()
	return true
}

func trimStack(st string) string {
	// drop the frames of recover/debug.Stack
	if i := strings.Index(st, "panic("); i >= 0 {
		st = st[i:]
	}
	lines := strings.Split(st, "\n")
	if len(lines) > 24 {
		lines = lines[:24]
	}
	return strings.Join(lines, "\n")
}

var colorizer = lexer.Colorizer{}

// render prints the diagnostics the way the REPL / `elk run` do (source excerpt + colourised code).
func render(r *engine.R, name, src string, dl diagnostic.DiagnosticList) {
	if len(dl) == 0 {
		return
	}
	guard(r, "render", src, func() {
		_, _ = dl.HumanStringWithSourceMap(true, colorizer, map[string]string{name: src})
		_ = dl.Error()
	})
}

// parseInput: lexer + parser (+ rendering). Returns whether the input parsed without any diagnostic.
func parseInput(r *engine.R, src string, lexToo bool) (clean bool) {
	r.Eval(1)
	if lexToo {
		guard(r, "lexer.Lex", src, func() {
			toks := lexer.Lex(src)
			if len(toks) > 0 {
				r.NT(1)
			}
		})
	} else {
		r.NT(1)
	}
	var dl diagnostic.DiagnosticList
	ok := guard(r, "parser.Parse", src, func() {
		ast, errs := parser.Parse("p.elk", src)
		dl = errs
		switch {
		case len(errs) == 0 && ast != nil:
			clean = true
			r.Outcome("parse: clean")
		case ast == nil:
			r.Outcome("parse: no tree")
		default:
			r.Outcome("parse: diagnostics")
		}
	})
	if ok {
		render(r, "p.elk", src, dl)
	}
	return clean && ok
}

func typecheck(r *engine.R, src string) {
	r.Eval(1)
	r.Count("type_checked", 1)
	var dl diagnostic.DiagnosticList
	ok := guard(r, "checker.CheckSource", src, func() {
		fn, errs := checker.CheckSource("p.elk", src, nil, bitfield.BitField16{}, nil)
		dl = errs
		switch {
		case errs.IsFailure() || fn == nil:
			r.Outcome("check: rejected")
		case len(errs) > 0:
			r.Outcome("check: accepted with warnings")
		default:
			r.Outcome("check: accepted")
		}
	})
	if ok {
		render(r, "p.elk", src, dl)
	}
}

// --- (a) byte strings ---------------------------------------------------------------------------------------------

var byteAlphabet = []byte{'a', 'B', '1', ' ', '\n', '\r', '"', '\'', '`', '\\', '#', '$', '{', '}', '%', '/', '|', '-', '>', '.', ':', '@', '[',
	0xC3, 0xA9, 0xFF}

func bytesBlock(r *engine.R, prefix []byte, depth int, withPrefixItself bool) {
	buf := append([]byte{}, prefix...)
	var rec func(d int)
	rec = func(d int) {
		if withPrefixItself || len(buf) > len(prefix) {
			parseInput(r, string(buf), true)
		}
		if d == 0 {
			return
		}
		for _, b := range byteAlphabet {
			buf = append(buf, b)
			rec(d - 1)
			buf = buf[:len(buf)-1]
		}
	}
	rec(depth)
	r.Sample(fmt.Sprintf("bytes %q + every suffix of length <= %d", prefix, depth))
}

// --- (b) token sequences ------------------------------------------------------------------------------------------

var coreLexemes = []string{"|", "||", "->", "a", "B", "(", ")", "[", "]", "{", "}", ",", ":", "=", ":=", "def", "end", "if", "then", "else",
	"do", "catch", "finally", "switch", "case", "class", "macro", "quote", "!{", "1", "\"s\"", "+", "-", "*", ".", "...", "&&", "??", "\n", ";",
	"<", "%[", "as", "return", "nil", "!", "::", "?"}

// lexemes of token types whose text is not fixed, and unterminated openers of every lexing mode
var dynamicLexemes = []string{"b", "_p", "_P", "$g", "@i", "$\"q i\"", "@'q'", "$$K", ":s",
	"1u", "1i64", "1u64", "1i32", "1u32", "1i16", "1u16", "1i8", "1u8", "1.5", "1.5bf", "1.5f64", "1.5f32", "0x1f", "1e3", "1_0",
	"'r'", "`c`", "r`c`", "\"a${b}c\"", "\"#{b}\"", "\"$a #B\"", "\"\\q\"", "%/a/", "%/a${b}/im", "\\w[a b]", "\\s[a]", "\\x[ff]", "\\b[1]",
	"^w[a]", "^s[a]", "^x[f]", "^b[1]", "%w[a]", "%s[a]", "%x[ff]", "%b[1]", "##[doc]##", "/** doc **/", "# c\n", "#[ c ]#", "/* c */",
	"\"", "%/", "%w[", "\"${", "`", "'", "#[", "/*", "\\", "$", "@", "\r\n", "\xff", "é", "1i", "1f"}

// allLexemes = core + every fixed lexeme (operators, punctuation, keywords: token.Type.Name() whenever lexing that
// name yields exactly that one token) + the dynamic ones. Deterministic: depends only on the elk sources.
func allLexemes() []string {
	out := append([]string{}, coreLexemes...)
	seen := map[string]bool{}
	for _, l := range out {
		seen[l] = true
	}
	for t := token.Type(1); t < token.LABEL_KEYWORD_END; t++ {
		name := t.Name()
		if name == "" || seen[name] {
			continue
		}
		var ok bool
		func() {
			defer func() { recover() }()
			toks := lexer.Lex(name)
			ok = len(toks) == 1 && toks[0].Type == t
		}()
		if ok {
			seen[name] = true
			out = append(out, name)
		}
	}
	for _, l := range dynamicLexemes {
		if !seen[l] {
			seen[l] = true
			out = append(out, l)
		}
	}
	return out
}

// exactSeqCase: sequences of exactly len(first)+more lexemes (shorter ones are covered elsewhere).
func exactSeqCase(r *engine.R, first []string, alphabet []string, more int) {
	var cleanOnes []string
	parts := append([]string{}, first...)
	var rec func(d int)
	rec = func(d int) {
		if d == 0 {
			src := strings.Join(parts, " ")
			if parseInput(r, src, false) {
				cleanOnes = append(cleanOnes, src)
			}
			return
		}
		for _, l := range alphabet {
			parts = append(parts, l)
			rec(d - 1)
			parts = parts[:len(parts)-1]
		}
	}
	rec(more)
	r.Count("token_sequences_parsing_clean", len(cleanOnes))
	for _, src := range cleanOnes {
		typecheck(r, src)
	}
	if len(cleanOnes) > 0 {
		r.Sample("type-checked: " + cleanOnes[len(cleanOnes)-1])
	}
}

// --- (c) regex bodies ----------------------------------------------------------------------------------------------

var regexAlphabet = []string{"a", "b", " ", "#", "\n", "|", "(", ")", "[", "]", "^", "*", "+", "?", "{", "}", ",", "1", "\\", "d", "p", "Q", "E", "-", "."}

func regexOne(r *engine.R, body string) {
	r.Eval(1)
	r.NT(1)
	guard(r, "regex/parser.Parse", body, func() {
		_, errs := regexparser.Parse(body)
		if len(errs) > 0 {
			r.Outcome("regex parse: diagnostics")
		} else {
			r.Outcome("regex parse: clean")
		}
	})
	for f := 0; f < 64; f++ {
		flags := bitfield.BitField8FromInt(f)
		r.Eval(1)
		ok := guard(r, "regex.Transpile", fmt.Sprintf("%s  (flags %06b)", body, f), func() {
			_, errs := regex.Transpile(body, flags)
			if len(errs) > 0 {
				r.Outcome("transpile: diagnostics")
			}
		})
		if !ok {
			continue
		}
		guard(r, "value.CompileRegex", fmt.Sprintf("%s  (flags %06b)", body, f), func() {
			re, err := value.CompileRegex(body, flags)
			switch {
			case err == nil && re != nil:
				r.Outcome("compile: ok")
			default:
				if _, isDiag := err.(diagnostic.DiagnosticList); isDiag {
					r.Outcome("compile: elk diagnostics")
				} else {
					r.Outcome("compile: transpiled text rejected by Go regexp")
					r.Count("go_regexp_rejects_transpiled", 1)
				}
			}
		})
	}
}

func regexBlock(r *engine.R, prefix string, depth int, withPrefixItself bool) {
	var rec func(s string, d int)
	rec = func(s string, d int) {
		if withPrefixItself || len(s) > len(prefix) {
			regexOne(r, s)
		}
		if d == 0 {
			return
		}
		for _, u := range regexAlphabet {
			rec(s+u, d-1)
		}
	}
	rec(prefix, depth)
	r.Sample(fmt.Sprintf("regex %q + every suffix of length <= %d, x 64 flag sets", prefix, depth))
}

// --- (d) REPL fragments: prefixes of a corpus ------------------------------------------------------------------------

func replFragment(r *engine.R, src string) {
	r.Eval(1)
	r.NT(1)
	guard(r, "parser (REPL prompt)", src, func() {
		p := parser.New("REPL", src)
		_, errs := p.Parse()
		switch {
		case p.ShouldIndent():
			r.Outcome("repl: incomplete, indent")
		case p.IsIncomplete():
			r.Outcome("repl: incomplete")
		case len(errs) > 0:
			r.Outcome("repl: complete with diagnostics")
		default:
			r.Outcome("repl: complete")
		}
	})
	var dl diagnostic.DiagnosticList
	ok := guard(r, "incremental checker", src, func() {
		c := checker.New()
		c.SetAdditionalAbortChecks(true)
		c.SetIncremental(true)
		fn, errs := c.CheckSourceBytecode("<repl:0>", src)
		dl = errs
		if errs.IsFailure() || fn == nil {
			r.Outcome("repl check: rejected")
		} else {
			r.Outcome("repl check: accepted")
		}
		c.ClearErrors()
	})
	if ok {
		render(r, "<repl:0>", src, dl)
	}
}

func main() {
	if os.Getenv("C03_DUMP_CORPUS") != "" { // development aid: print the corpus as Go-quoted lines
		for _, p := range corpus() {
			fmt.Printf("%q\n", p)
		}
		return
	}
	engine.Main(&engine.Spec{
		Prop:  "C03",
		Level: "exploration",
		Rule: "(a) all byte strings of length <= 4 (quick) / 5 (thorough) over 26 bytes (letters, digit, space, LF, CR, the three quote kinds, backslash, # $ { } % / | - > . : @ [, " +
			"0xC3, 0xA9, 0xFF) through lexer.Lex, parser.Parse and diagnostic rendering; (b) all sequences of <= 2 lexemes over one lexeme per token type plus unterminated mode openers, " +
			"all sequences of exactly 3 (thorough: also 4) lexemes over 48 core lexemes, through parser.Parse, every cleanly parsing one also through checker.CheckSource; " +
			"(c) all regex bodies of length <= 3 (quick) / 4 (thorough) over 25 characters x all 64 flag sets through regex/parser.Parse, regex.Transpile, value.CompileRegex; " +
			"(d) every distinct byte prefix of the corpus programs through parser.New().Parse()/IsIncomplete/ShouldIndent and a fresh incremental checker. " +
			"Every call under recover(); non-trivial = the input contains at least one token; evaluations count front-end entry-point calls",
		Assume:           []string{"a hang is one front-end call on one input (normally microseconds to milliseconds) still running after 30 s, with an unchanging outer stack over 7 samples; reported as a host-crash of the worker with the looping function in the signature", "method bodies checked one at a time (MethodCheckConcurrencyLimit=1)"},
		HangIsViolation:  true,
		CaseTimeout:      15 * time.Minute,
		QuickDeadline:    12 * time.Minute,
		ThoroughDeadline: 60 * time.Minute,
		Setup: func(c *engine.Ctx) {
			elkrun.Init()
			color.NoColor = false // render diagnostics with colours, as a terminal user sees them
			go monitor()
		},
		Run: run,
	})
}

func run(c *engine.Ctx) {
	// (a)
	maxLen := 4
	if c.Thorough {
		maxLen = 5
	}
	c.Case("bytes/len<=2", func(r *engine.R) { bytesBlock(r, nil, 2, true) }) // shortest inputs first: the first counterexample is the smallest
	for _, b1 := range byteAlphabet {
		for _, b2 := range byteAlphabet {
			p := []byte{b1, b2}
			c.Case(fmt.Sprintf("bytes/%q", p), func(r *engine.R) { bytesBlock(r, p, maxLen-2, false) })
		}
	}
	// (c)
	rlen := 3
	if c.Thorough {
		rlen = 4
	}
	c.Case("regex/len<=2", func(r *engine.R) { regexBlock(r, "", 2, true) })
	for _, u1 := range regexAlphabet {
		for _, u2 := range regexAlphabet {
			p := u1 + u2
			c.Case(fmt.Sprintf("regex/%q", p), func(r *engine.R) { regexBlock(r, p, rlen-2, false) })
		}
	}
	// (d)
	progs := corpus()
	set := map[string]bool{}
	for _, p := range progs {
		for i := 1; i <= len(p); i++ {
			set[p[:i]] = true
		}
	}
	prefixes := make([]string, 0, len(set))
	for p := range set {
		prefixes = append(prefixes, p)
	}
	sort.Slice(prefixes, func(i, j int) bool {
		if len(prefixes[i]) != len(prefixes[j]) {
			return len(prefixes[i]) < len(prefixes[j])
		}
		return prefixes[i] < prefixes[j]
	})
	c.Case("repl/corpus", func(r *engine.R) {
		clean := 0
		for _, p := range progs {
			guard(r, "parser.Parse", p, func() {
				if _, errs := parser.Parse("p.elk", p); len(errs) == 0 {
					clean++
				} else {
					r.Note("corpus program does not parse cleanly: " + p)
				}
			})
		}
		r.Count("corpus_programs", len(progs))
		r.Count("corpus_programs_parsing_clean", clean)
		r.Count("distinct_prefixes", len(prefixes))
		r.Eval(len(progs))
	})
	const chunk = 8
	for i := 0; i < len(prefixes); i += chunk {
		part := prefixes[i:min(i+chunk, len(prefixes))]
		c.Case(fmt.Sprintf("repl/prefixes/%d", i), func(r *engine.R) {
			for _, p := range part {
				replFragment(r, p)
			}
			r.Sample("REPL fragment: " + part[len(part)-1])
		})
	}
	// (b) last: its length-4 part is by far the largest space, so a deadline cuts there and not in (c)/(d)
	all := allLexemes()
	c.Case("tokens/alphabet", func(r *engine.R) {
		r.Count("lexemes_in_full_alphabet", len(all))
		r.Eval(1)
	})
	// pairs: one case per (first lexeme, block of 8 second lexemes) so that a case type-checks at most 8 programs
	// (cases must stay far below the hang watchdog even on a heavily loaded machine)
	for i := 0; i < len(all); i += 8 {
		part := all[i:min(i+8, len(all))]
		c.Case(fmt.Sprintf("tokens/singles/%d", i), func(r *engine.R) {
			if i == 0 {
				parseInput(r, "", false)
			}
			exactSeqCase(r, nil, part, 1)
		})
	}
	for _, l := range all {
		for i := 0; i < len(all); i += 8 {
			f := []string{l}
			part := all[i:min(i+8, len(all))]
			c.Case(fmt.Sprintf("tokens/pairs/%q/%d", l, i), func(r *engine.R) { exactSeqCase(r, f, part, 1) })
		}
	}
	for _, l1 := range coreLexemes {
		for _, l2 := range coreLexemes {
			for i := 0; i < len(coreLexemes); i += 16 {
				f := []string{l1, l2}
				part := coreLexemes[i:min(i+16, len(coreLexemes))]
				c.Case(fmt.Sprintf("tokens/core3/%q %q/%d", l1, l2, i), func(r *engine.R) { exactSeqCase(r, f, part, 1) })
			}
		}
	}
	if c.Thorough {
		for _, l1 := range coreLexemes {
			for _, l2 := range coreLexemes {
				for _, l3 := range coreLexemes {
					for i := 0; i < len(coreLexemes); i += 16 {
						f := []string{l1, l2, l3}
						part := coreLexemes[i:min(i+16, len(coreLexemes))]
						c.Case(fmt.Sprintf("tokens/core4/%q %q %q/%d", l1, l2, l3, i), func(r *engine.R) { exactSeqCase(r, f, part, 1) })
					}
				}
			}
		}
	}
}
