package main

import (
	"fmt"
	"regexp"
	"strings"

	"verifharness/elkrun"
	"verifharness/engine"
)

// lflavour is one Elk-visible list/tuple type with a concrete element universe.
type lflavour struct {
	label  string // e.g. ArrayList[Int]
	impl   string // implementation class behind the literal
	isList bool
	et     string    // Elk element type
	vals   [4]string // vals[1], vals[2] are stored; vals[3] is never stored
	id     string
}

func (f *lflavour) class() string {
	if f.isList {
		return "ArrayList"
	}
	return "ArrayTuple"
}

var recvRe = regexp.MustCompile(` \(%?\[[^)]*\)`)

// normPanic removes the rendering of the receiver from a panic signature.
func normPanic(s string) string { return recvRe.ReplaceAllString(s, "") }

func (f *lflavour) typ() string {
	if f.isList {
		return "::Std::ArrayList[" + f.et + "]"
	}
	return "::Std::ArrayTuple[" + f.et + "]"
}

func (f *lflavour) litAs(m []int, list bool) string {
	var parts []string
	for _, e := range m {
		parts = append(parts, f.vals[e])
	}
	if list {
		return "[" + strings.Join(parts, ", ") + "]"
	}
	return "%[" + strings.Join(parts, ", ") + "]"
}

func (f *lflavour) lit(m []int) string { return f.litAs(m, f.isList) }

func (f *lflavour) inits() [][]int { return [][]int{{1}, {1, 2, 1}} }

const (
	atLo, atHi = -7, 6
	hugeU64    = "18446744073709551615u64"
	hugeInt    = "1180591620717411303424"
)

// rangeSpec describes one slice observer.
type rangeSpec struct {
	src  string
	kind string // closed, ropen, lopen, open, bl-closed, bl-open, el-closed, el-open
	a, b int
}

var ranges = []rangeSpec{
	{"0...1", "closed", 0, 1}, {"1...1", "closed", 1, 1}, {"1..<3", "ropen", 1, 3}, {"0..<0", "ropen", 0, 0},
	{"0<..2", "lopen", 0, 2}, {"1<.<3", "open", 1, 3}, {"...1", "bl-closed", 0, 1}, {"..<2", "bl-open", 0, 2},
	{"1...", "el-closed", 1, 0}, {"0<..", "el-open", 0, 0}, {"-2...-1", "closed", -2, -1}, {"0...-1", "closed", 0, -1},
	{"1...5", "closed", 1, 5},
}

// expectSlice: "?" = the statement does not decide this case (nothing is asserted).
func expectSlice(f *lflavour, m []int, r rangeSpec) string {
	n := len(m)
	render := func(lo, hi int) string { // inclusive bounds
		var b strings.Builder
		for i := lo; i <= hi; i++ {
			b.WriteString(f.vals[m[i]] + ";")
		}
		return "[" + b.String() + "]"
	}
	lo, hi := r.a, r.b
	if r.a < 0 || r.b < 0 { // only closed ranges use negative bounds: both are normalised like element indices
		if !inRange(r.a, n) || !inRange(r.b, n) {
			return "IndexError"
		}
		lo, hi = norm(r.a, n), norm(r.b, n)
		if lo > hi {
			return "[]"
		}
		return render(lo, hi)
	}
	switch r.kind {
	case "ropen":
		hi = r.b - 1
	case "lopen":
		lo = r.a + 1
	case "open":
		lo, hi = r.a+1, r.b-1
	case "bl-closed":
		lo = 0
	case "bl-open":
		lo, hi = 0, r.b-1
	case "el-closed":
		hi = n - 1
	case "el-open":
		lo, hi = r.a+1, n-1
	}
	if strings.HasPrefix(r.kind, "el-") && lo >= n {
		return "?" // an endless range whose first index is past the end: empty or out of range, not decided by the statement
	}
	if lo > hi {
		return "[]" // the range contains no index: nothing can be out of range
	}
	if hi >= n {
		return "IndexError"
	}
	return render(lo, hi)
}

func (f *lflavour) prelude() string {
	var b strings.Builder
	t := f.typ()
	fmt.Fprintf(&b, "def jn_%s(c: ::Std::Tuple[%s]): ::Std::String\n  s := \"[\"\n  for e in c\n    s = s + e.inspect + \";\"\n  end\n  s + \"]\"\nend\n", f.id, f.et)
	for _, it := range []struct{ name, typ string }{{"at", "::Std::Int"}, {"atu", "::Std::UInt64"}} {
		fmt.Fprintf(&b, "def %s_%s(c: %s, i: %s): ::Std::String\n  r := \"?\"\n  do\n    r = c[i].inspect\n  catch ::Std::IndexError()\n    r = \"IndexError\"\n  end\n  r\nend\n", it.name, f.id, t, it.typ)
	}
	fmt.Fprintf(&b, "def obs_%s(c: %s): ::Std::String\n", f.id, t)
	b.WriteString("  s := \"len=\" + c.length.inspect + \" it=\" + jn_" + f.id + "(c)\n")
	var ats []string
	for i := atLo; i <= atHi; i++ {
		ats = append(ats, fmt.Sprintf("at_%s(c, %d)", f.id, i))
	}
	ats = append(ats, fmt.Sprintf("at_%s(c, %s)", f.id, hugeInt), fmt.Sprintf("at_%s(c, -%s)", f.id, hugeInt), fmt.Sprintf("atu_%s(c, %s)", f.id, hugeU64))
	fmt.Fprintf(&b, "  s = s + \" at=\" + %s\n", strings.Join(ats, " + \",\" + "))
	fmt.Fprintf(&b, "  s = s + \" has=\" + c.contains(%s).inspect + \",\" + c.contains(%s).inspect + \",\" + c.contains(%s).inspect\n", f.vals[1], f.vals[2], f.vals[3])
	for ri, r := range ranges {
		fmt.Fprintf(&b, "  do\n    s = s + \" r%d=\" + jn_%s(c[%s])\n  catch ::Std::IndexError()\n    s = s + \" r%d=IndexError\"\n  end\n", ri, f.id, r.src, ri)
	}
	b.WriteString("  s\nend\n")
	for i, m := range f.inits() {
		fmt.Fprintf(&b, "def mk_%s%d: %s then %s\n", f.id, i, t, f.lit(m))
	}
	return b.String()
}

func (f *lflavour) expect(m []int) []string {
	n := len(m)
	var out []string
	out = append(out, fmt.Sprintf("len=%d", n))
	var it strings.Builder
	for _, e := range m {
		it.WriteString(f.vals[e] + ";")
	}
	out = append(out, "it=["+it.String()+"]")
	var ats []string
	for i := atLo; i <= atHi; i++ {
		if inRange(i, n) {
			ats = append(ats, f.vals[m[norm(i, n)]])
		} else {
			ats = append(ats, "IndexError")
		}
	}
	ats = append(ats, "IndexError", "IndexError", "IndexError")
	out = append(out, "at="+strings.Join(ats, ","))
	has := [4]bool{}
	for _, e := range m {
		has[e] = true
	}
	out = append(out, fmt.Sprintf("has=%v,%v,%v", has[1], has[2], has[3]))
	for ri, r := range ranges {
		out = append(out, fmt.Sprintf("r%d=%s", ri, expectSlice(f, m, r)))
	}
	return out
}

// lop2 is one Elk-level operation. code prints "res=..." lines for results/errors.
type eop struct {
	kind  string
	label string
	code  func(x string, step int) string
	apply func(m []int) (nm []int, result string)
}

func wrap(x string, step int, body, okRes string) string {
	// the operation either completes (prints okRes, possibly computed) or raises an index error
	return fmt.Sprintf("do\n  %s\n  println(%s)\ncatch ::Std::IndexError()\n  println(\"res=IndexError\")\nend", body, okRes)
}

func (f *lflavour) ops(excluded map[string]bool) []eop {
	var ops []eop
	add := func(kind, label string, code func(x string, step int) string, apply func(m []int) ([]int, string)) {
		if !excluded[kind] {
			ops = append(ops, eop{kind, label, code, apply})
		}
	}
	cp := func(m []int) []int { return append([]int{}, m...) }
	v := f.vals
	if f.isList {
		add("push", "x.push(v1)", func(x string, _ int) string { return fmt.Sprintf("%s.push(%s)", x, v[1]) },
			func(m []int) ([]int, string) { return append(cp(m), 1), "" })
		add("<<", "x<<v2", func(x string, _ int) string { return fmt.Sprintf("%s << %s", x, v[2]) },
			func(m []int) ([]int, string) { return append(cp(m), 2), "" })
		add("append", "x.append(v1,v2)", func(x string, _ int) string { return fmt.Sprintf("%s.append(%s, %s)", x, v[1], v[2]) },
			func(m []int) ([]int, string) { return append(cp(m), 1, 2), "" })
		for _, iv := range [][2]int{{0, 2}, {-1, 1}, {2, 2}, {9, 1}, {-9, 1}} {
			i, val := iv[0], iv[1]
			add("[]=", fmt.Sprintf("x[%d]=v%d", i, val),
				func(x string, step int) string {
					return wrap(x, step, fmt.Sprintf("%s[%d] = %s", x, i, v[val]), `"res=ok"`)
				},
				func(m []int) ([]int, string) {
					if !inRange(i, len(m)) {
						return cp(m), "res=IndexError"
					}
					nm := cp(m)
					nm[norm(i, len(m))] = val
					return nm, "res=ok"
				})
		}
		add("pop", "x.pop", func(x string, step int) string {
			return wrap(x, step, fmt.Sprintf("p%s_%d := %s.pop", x, step, x), fmt.Sprintf(`"res=" + p%s_%d.inspect`, x, step))
		}, func(m []int) ([]int, string) {
			if len(m) == 0 {
				return cp(m), "res=IndexError"
			}
			return cp(m[:len(m)-1]), "res=" + v[m[len(m)-1]]
		})
		for _, val := range []int{1, 2} {
			val := val
			add("remove", fmt.Sprintf("x.remove(v%d)", val), func(x string, step int) string {
				return fmt.Sprintf("q%s_%d := %s.remove(%s)\nprintln(\"res=\" + q%s_%d.inspect)", x, step, x, v[val], x, step)
			}, func(m []int) ([]int, string) {
				first, had := removeFirst(m, val)
				return first, fmt.Sprintf("res=%v", had) // the `remove every v` reading is accepted by compareRemove
			})
		}
		for _, i := range []int{0, -1, 9} {
			i := i
			add("remove_at", fmt.Sprintf("x.remove_at(%d)", i), func(x string, step int) string {
				return wrap(x, step, fmt.Sprintf("%s.remove_at(%d)", x, i), `"res=ok"`)
			}, func(m []int) ([]int, string) {
				if !inRange(i, len(m)) {
					return cp(m), "res=IndexError"
				}
				j := norm(i, len(m))
				return append(cp(m[:j]), m[j+1:]...), "res=ok"
			})
		}
		add("grow", "x.grow(2)", func(x string, _ int) string { return fmt.Sprintf("%s.grow(2)", x) },
			func(m []int) ([]int, string) { return cp(m), "" })
		add("clear", "x.clear", func(x string, _ int) string { return fmt.Sprintf("%s.clear", x) },
			func(m []int) ([]int, string) { return []int{}, "" })
	}
	add("+list", "x=x+[v2]", func(x string, _ int) string { return fmt.Sprintf("%s = %s + %s", x, x, f.litAs([]int{2}, true)) },
		func(m []int) ([]int, string) { return append(cp(m), 2), "" })
	add("+tuple", "x=x+%[v1]", func(x string, _ int) string { return fmt.Sprintf("%s = %s + %s", x, x, f.litAs([]int{1}, false)) },
		func(m []int) ([]int, string) { return append(cp(m), 1), "" })
	add("*", "x=x*2", func(x string, _ int) string { return fmt.Sprintf("%s = %s * 2", x, x) },
		func(m []int) ([]int, string) { return append(cp(m), m...), "" })
	return ops
}

func lflavours() []*lflavour {
	si, sf, ss := "::Std::Int", "::Std::Float", "::Std::String"
	return []*lflavour{
		{label: "ArrayList[Int]", impl: "ArrayListOfValue", isList: true, et: si, vals: [4]string{"", "1", "2", "3"}, id: "li"},
		{label: "ArrayList[Float]", impl: "NativeArrayList", isList: true, et: sf, vals: [4]string{"", "1.5", "2.5", "3.5"}, id: "lf"},
		{label: "ArrayList[String]", impl: "NativeArrayList", isList: true, et: ss, vals: [4]string{"", `"a"`, `"b"`, `"c"`}, id: "ls"},
		{label: "ArrayTuple[Int]", impl: "ArrayTupleOfValue", isList: false, et: si, vals: [4]string{"", "1", "2", "3"}, id: "ti"},
		{label: "ArrayTuple[Float]", impl: "NativeArrayTuple", isList: false, et: sf, vals: [4]string{"", "1.5", "2.5", "3.5"}, id: "tf"},
	}
}

type elkItem struct {
	init int
	seq  []int
}

func enumSeqs(nops, maxLen, ninit int) []elkItem {
	var out []elkItem
	for in := 0; in < ninit; in++ {
		var rec func(prefix []int)
		rec = func(prefix []int) {
			out = append(out, elkItem{in, append([]int{}, prefix...)})
			if len(prefix) == maxLen {
				return
			}
			for o := 0; o < nops; o++ {
				rec(append(prefix, o))
			}
		}
		rec(nil)
	}
	return out
}

const elkBatch = 40

// probes: operations declared by the headers that are checked once on their own. An operation whose probe
// crashes the interpreter is reported by the probe case and left out of the sequence alphabet (every
// sequence containing it would crash the same way and hide everything after it).
type probe struct {
	kind string // alphabet kind removed on failure ("" = none)
	name string
	body string // uses variable x
	want string
}

func (f *lflavour) probes() []probe {
	v := f.vals
	ps := []probe{
		{"", "slice result used as declared type", "y := x[0...1]\nprintln(y.length.inspect)\nprintln(jn_" + f.id + "(y))", "2\n[" + v[1] + ";" + v[2] + ";]\n"},
		{"", "view", "y := x.view(0...1)\nprintln(jn_" + f.id + "(y))", "[" + v[1] + ";" + v[2] + ";]\n"},
		{"", "at", "println((try x.at(1)).inspect)\nprintln((try x.at(-1)).inspect)", v[2] + "\n" + v[1] + "\n"},
	}
	if f.isList {
		ps = append(ps,
			probe{"pop", "pop", "p := x.pop\nprintln(p.inspect)\nprintln(jn_" + f.id + "(x))", v[1] + "\n[" + v[1] + ";" + v[2] + ";]\n"},
			probe{"clear", "clear", "x.clear\nprintln(x.length.inspect)", "0\n"},
		)
	}
	return ps
}

func (f *lflavour) runProbe(p probe) elkrun.Result {
	src := f.prelude() + fmt.Sprintf("var x: %s = %s\n", f.typ(), f.lit([]int{1, 2, 1})) + p.body + "\n"
	return elkrun.Run(src, nil)
}

func elkCases(c *engine.Ctx) {
	maxLen := 3
	if c.Thorough {
		maxLen = 4
	}
	for _, f := range lflavours() {
		f := f
		excluded := map[string]bool{}
		for _, p := range f.probes() {
			p := p
			if p.kind != "" { // evaluated in every worker: the alphabet must be the same everywhere
				if res := f.runProbe(p); res.Panic != "" {
					excluded[p.kind] = true
				}
			}
			c.Case("elk/probe/"+f.label+"/"+p.name, func(r *engine.R) {
				res := f.runProbe(p)
				r.Eval(1)
				r.NT(1)
				sigp := "elk " + f.class() + " " + p.name + ": "
				src := fmt.Sprintf("var x: %s = %s\n%s", f.typ(), f.lit([]int{1, 2, 1}), p.body)
				switch {
				case res.Panic != "":
					r.Violation(sigp+"go-panic: "+normPanic(res.PanicSig), f.label+"\n"+src+"\n"+trimStack(res.Stack), src)
					r.Outcome("go-panic")
					if p.kind != "" {
						r.Note(fmt.Sprintf("%s: operation `%s` always crashes the interpreter; it is reported here and left out of the sequence alphabet", f.label, p.kind))
					}
				case res.Rejected:
					r.Violation(sigp+"rejected: "+firstDiag(res.Diags), src+"\n"+res.Diags, src)
					r.Outcome("rejected")
				case res.Err != "":
					r.Violation(sigp+"uncaught "+res.ErrClass, src+"\n"+res.Err, src)
					r.Outcome("error")
				case res.Stdout != p.want:
					r.Violation(sigp+"wrong result", fmt.Sprintf("%s\nprinted %q expected %q", src, res.Stdout, p.want), src)
					r.Outcome("wrong")
				default:
					r.Outcome("ok:probe")
				}
			})
		}
		ops := f.ops(excluded)
		items := enumSeqs(len(ops), 3, len(f.inits()))
		if maxLen == 4 {
			// thorough: additionally every sequence of exactly 4 operations over the core alphabet
			var core []int
			for i, op := range ops {
				switch op.label {
				case "x.push(v1)", "x<<v2", "x[0]=v2", "x[-1]=v1", "x[9]=v1", "x.pop", "x.remove(v1)", "x.remove_at(-1)", "x.clear", "x=x+[v2]", "x=x+%[v1]", "x=x*2":
					core = append(core, i)
				}
			}
			for _, it := range enumSeqs(len(core), 4, len(f.inits())) {
				if len(it.seq) == 4 {
					seq := make([]int, 4)
					for j, ci := range it.seq {
						seq[j] = core[ci]
					}
					items = append(items, elkItem{it.init, seq})
				}
			}
		}
		for lo := 0; lo < len(items); lo += elkBatch {
			lo := lo
			hi := min(lo+elkBatch, len(items))
			c.Case(fmt.Sprintf("elk/%s/%d", f.label, lo), func(r *engine.R) { runElkBatch(r, f, ops, items[lo:hi], lo) })
		}
	}
}

func runElkBatch(r *engine.R, f *lflavour, ops []eop, items []elkItem, base int) {
	var progs []elkrun.Item
	type exp struct {
		lines  []string
		kinds  []string
		altRm  [][]int // for the observation after remove: the alternative accepted model (every v removed)
		models [][]int
		desc   string
	}
	var exps []exp
	for ii, it := range items {
		x := fmt.Sprintf("x%d", base+ii)
		var code strings.Builder
		var e exp
		m := append([]int{}, f.inits()[it.init]...)
		if len(it.seq)%2 == 0 {
			fmt.Fprintf(&code, "var %s: %s = mk_%s%d()\n", x, f.typ(), f.id, it.init)
		} else {
			fmt.Fprintf(&code, "var %s: %s = %s\n", x, f.typ(), f.lit(m))
		}
		desc := []string{"x = " + f.lit(m)}
		emitObs := func(kind string, alt []int) {
			fmt.Fprintf(&code, "println(obs_%s(%s))\n", f.id, x)
			e.lines = append(e.lines, "OBS")
			e.kinds = append(e.kinds, kind)
			e.models = append(e.models, append([]int{}, m...))
			e.altRm = append(e.altRm, alt)
		}
		emitObs("literal", nil)
		for step, oi := range it.seq {
			op := ops[oi]
			code.WriteString(op.code(x, step) + "\n")
			desc = append(desc, op.label)
			var alt []int
			if op.kind == "remove" {
				val := 1
				if strings.Contains(op.label, "v2") {
					val = 2
				}
				alt, _ = removeAll(m, val)
			}
			nm, res := op.apply(m)
			m = nm
			if res != "" {
				e.lines = append(e.lines, res)
				e.kinds = append(e.kinds, op.kind)
				e.models = append(e.models, nil)
				e.altRm = append(e.altRm, nil)
			}
			emitObs(op.kind, alt)
		}
		fmt.Fprintf(&code, "e%s := %s == %s\nprintln(\"eq=\" + e%s.inspect)\n", x, x, f.lit(m), x)
		e.lines = append(e.lines, "eq=true")
		e.kinds = append(e.kinds, "== same content")
		d := append(append([]int{}, m...), 1)
		fmt.Fprintf(&code, "d%s := %s == %s\nprintln(\"eq=\" + d%s.inspect)\n", x, x, f.lit(d), x)
		e.lines = append(e.lines, "eq=false")
		e.kinds = append(e.kinds, "== different content")
		e.models = append(e.models, nil, nil)
		e.altRm = append(e.altRm, nil, nil)
		e.desc = strings.Join(desc, " ; ")
		progs = append(progs, elkrun.Item{Code: code.String()})
		exps = append(exps, e)
	}
	prelude := f.prelude()
	res := elkrun.Batch(prelude, progs, nil)
	for i, ir := range res {
		e := exps[i]
		r.Eval(1)
		if len(items[i].seq) > 0 {
			r.NT(1)
		}
		input := map[string]any{"flavour": f.label, "ops": e.desc, "program": prelude + progs[i].Code}
		sigp := "elk "
		got := strings.Split(strings.TrimRight(ir.Out, "\n"), "\n")
		if ir.Out == "" {
			got = nil
		}
		bad, flawed := false, false
		seenObs := map[string]bool{}
		for li := 0; li < len(got) && li < len(e.lines) && !bad; li++ {
			kind := e.kinds[li]
			if e.lines[li] != "OBS" {
				if got[li] != e.lines[li] {
					what := "result of " + kind + " is wrong"
					if strings.HasPrefix(e.lines[li], "eq=") {
						what = kind + " is " + strings.TrimPrefix(got[li], "eq=")
					} else if e.lines[li] == "res=IndexError" {
						what = kind + " out of range does not raise an index error"
					} else if got[li] == "res=IndexError" {
						what = kind + " with a valid index raises an index error"
					}
					if kind == "remove" && li+1 < len(e.altRm) && e.altRm[li+1] != nil {
						continue // judged together with the observation that follows
					}
					r.Violation(sigp+f.class()+" "+what, fmt.Sprintf("%s %s\nline %d: expected %q printed %q", f.label, e.desc, li, e.lines[li], got[li]), input)
					r.Outcome("wrong:" + what)
					bad = true
				}
				continue
			}
			diffs := compareObs(f, e.models[li], got[li])
			isState := func(d string) bool {
				return strings.HasPrefix(d, "length wrong") || strings.HasPrefix(d, "iteration does not") || d == "unparsable observation"
			}
			stateBad := false
			for _, d := range diffs {
				stateBad = stateBad || isState(d)
			}
			report := func(what string) {
				r.Violation(sigp+what, fmt.Sprintf("%s %s\nline %d printed  %q\n       expected %q", f.label, e.desc, li, got[li], strings.Join(f.expect(e.models[li]), " ")), input)
				r.Outcome("wrong:" + what)
				flawed = true
			}
			if stateBad && e.altRm[li] != nil {
				altBad := false
				for _, d := range compareObs(f, e.altRm[li], got[li]) {
					altBad = altBad || isState(d)
				}
				if !altBad {
					// `remove` removed every occurrence: accepted; the rest of the program was generated for the other reading
					r.Outcome("remove:every-occurrence")
					r.Count("programs_cut_after_remove_removed_every_occurrence", 1)
					bad = true
					break
				}
				report("remove(v) leaves a list that is neither `without the first v` nor `without every v`")
				bad = true
				break
			}
			if stateBad {
				// the contents diverged from the model: blamed on the operation; everything later is a consequence
				report(f.class() + " contents differ from the sequence model after " + kind)
				bad = true
				break
			}
			// the contents are right: wrong observers are reported (once per program) and the comparison continues
			for _, d := range diffs {
				if !seenObs[d] {
					seenObs[d] = true
					report(d)
				}
			}
		}
		failedKind := "end"
		if len(got) < len(e.kinds) {
			failedKind = e.kinds[len(got)]
		}
		switch {
		case ir.Panic != "":
			r.Violation(sigp+"go-panic "+firstFrame(normPanic(ir.Panic)), fmt.Sprintf("%s %s\nduring %s\n%s", f.label, e.desc, failedKind, trimStack(ir.Stack)), input)
			r.Outcome("go-panic")
		case ir.Rejected:
			r.Violation(sigp+f.class()+" well-typed program rejected: "+firstDiag(ir.Diags), fmt.Sprintf("%s %s\n%s\n%s", f.label, e.desc, progs[i].Code, ir.Diags), input)
			r.Outcome("rejected")
		case ir.Err != "":
			r.Violation(sigp+f.class()+" uncaught "+ir.ErrClass+" during "+failedKind, fmt.Sprintf("%s %s\n%s", f.label, e.desc, ir.Err), input)
			r.Outcome("error:" + ir.ErrClass)
		case !bad && len(got) != len(e.lines):
			r.Violation(sigp+"output truncated", fmt.Sprintf("%s\nexpected %d lines, got %d", e.desc, len(e.lines), len(got)), input)
		case !bad && !flawed:
			last := "literal"
			if n := len(items[i].seq); n > 0 {
				last = ops[items[i].seq[n-1]].kind
			}
			r.Outcome("ok:" + last)
		}
	}
	if len(exps) > 0 {
		r.Sample(exps[len(exps)-1].desc)
	}
}

// compareObs compares one observation line with the model, field by field; it returns defect descriptions.
func compareObs(f *lflavour, m []int, got string) []string {
	want := f.expect(m)
	gf := strings.Fields(got)
	if len(gf) != len(want) {
		return []string{"unparsable observation"}
	}
	var out []string
	seen := map[string]bool{}
	add := func(s string) {
		if !seen[s] {
			seen[s] = true
			out = append(out, s)
		}
	}
	for i, w := range want {
		g := gf[i]
		if w == g || strings.HasSuffix(w, "=?") {
			continue
		}
		name := w[:strings.IndexByte(w, '=')]
		switch {
		case name == "len":
			add("length wrong")
		case name == "it":
			add("iteration does not yield the elements in order")
		case name == "has":
			add("contains wrong")
		case name == "at":
			wp, gp := strings.Split(w[3:], ","), strings.Split(g[3:], ",")
			nIdx := atHi - atLo + 1
			for j := range wp {
				if j >= len(gp) || wp[j] == gp[j] {
					continue
				}
				cls := "small index"
				if j >= nIdx {
					cls = []string{"big positive Int index", "big negative Int index", "UInt64 max index"}[j-nIdx]
				}
				if wp[j] == "IndexError" {
					add("[] out of range returns a value instead of raising an index error (" + cls + ")")
				} else if gp[j] == "IndexError" {
					add("[] with a valid index raises an index error (" + cls + ")")
				} else {
					add("[] returns the wrong element (" + cls + ")")
				}
			}
		default: // r<N>
			ri := 0
			fmt.Sscanf(name, "r%d", &ri)
			r := ranges[ri]
			neg := ""
			if r.a < 0 || r.b < 0 {
				neg = " with negative bounds"
			}
			wv, gv := w[strings.IndexByte(w, '=')+1:], g[strings.IndexByte(g, '=')+1:]
			switch {
			case wv == "IndexError":
				add("slice by a " + r.kind + " range" + neg + " reaching past the end does not raise an index error")
			case wv == "[]":
				add("slice by an empty " + r.kind + " range" + neg + " does not yield an empty result (elements or an index error instead)")
			case gv == "IndexError":
				add("slice by a valid " + r.kind + " range" + neg + " raises an index error")
			default:
				add("slice by a " + r.kind + " range" + neg + " returns the wrong elements")
			}
		}
	}
	return out
}

func firstDiag(d string) string {
	line := strings.SplitN(d, "\n", 2)[0]
	if i := strings.Index(line, ": "); i >= 0 {
		line = line[i+2:]
	}
	if len(line) > 100 {
		line = line[:100]
	}
	return line
}
