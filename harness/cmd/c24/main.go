// C24 — lists and tuples behave as sequences.
//
// Part 1 (explicit-state model checking of the real objects through the exported Go API and the VM's native
// methods): breadth-first search over operation histories of value.ArrayListOfValue, value.ArrayTupleOfValue and
// the element-type-specialised NativeArrayList / NativeArrayTuple; successor = replay of the shortest history
// on a fresh object + one more operation; states merged on contents + capacity; every observer is compared
// with a Go slice after every transition.
// Part 2 (Elk level): every operation sequence up to a length bound on ArrayList / ArrayTuple literals.
package main

import (
	"fmt"
	"runtime/debug"
	"time"

	"github.com/elk-language/elk/value"
	"github.com/elk-language/elk/vm"

	"verifharness/elkrun"
	"verifharness/engine"
)

type elemU struct {
	val    func(j int) value.Value
	valIdx func(v value.Value) int
	lit    func(j int) string
}

var (
	uInt = elemU{
		val: func(j int) value.Value { return value.SmallInt(j).ToValue() },
		valIdx: func(v value.Value) int {
			if v.IsSmallInt() {
				if n := int(v.AsSmallInt()); n >= 1 && n <= 3 {
					return n
				}
			}
			return 0
		},
		lit: func(j int) string { return fmt.Sprint(j) },
	}
	uStr = elemU{
		val: func(j int) value.Value { return value.Ref(value.String(fmt.Sprint(j))) },
		valIdx: func(v value.Value) int {
			if s, ok := v.SafeAsReference().(value.String); ok {
				switch string(s) {
				case "1":
					return 1
				case "2":
					return 2
				case "3":
					return 3
				}
			}
			return 0
		},
		lit: func(j int) string { return fmt.Sprintf("%q", fmt.Sprint(j)) },
	}
	uFlt = elemU{
		val: func(j int) value.Value { return value.Float(float64(j) + 0.5).ToValue() },
		valIdx: func(v value.Value) int {
			if v.IsFloat() {
				switch float64(v.AsFloat()) {
				case 1.5:
					return 1
				case 2.5:
					return 2
				case 3.5:
					return 3
				}
			}
			return 0
		},
		lit: func(j int) string { return fmt.Sprintf("%d.5", j) },
	}
)

func mkKind(name string, isList bool, u elemU, fresh func(int) value.ArrayTuple) *listKind {
	open := "%["
	if isList {
		open = "["
	}
	return &listKind{name: name, isList: isList, fresh: fresh, val: u.val, valIdx: u.valIdx, lit: u.lit, open: open}
}

func genericList(u elemU) *listKind {
	return mkKind("ArrayListOfValue", true, u, func(c int) value.ArrayTuple { return value.NewArrayListOfValue(c) })
}
func genericTuple(u elemU) *listKind {
	return mkKind("ArrayTupleOfValue", false, u, func(c int) value.ArrayTuple { return value.NewArrayTupleOfValue(c) })
}

func run(c *engine.Ctx) {
	lmax, capMax, depth, maxStates := 4, 8, 12, 100_000
	if c.Thorough {
		lmax, capMax, depth = 5, 10, 16
	}
	li, ti := genericList(uInt), genericTuple(uInt)
	li.peers, ti.peers = []*listKind{ti}, []*listKind{li}
	nls := mkKind("NativeArrayList", true, uStr, func(c int) value.ArrayTuple { return value.NewNativeArrayList[value.String](c) })
	nts := mkKind("NativeArrayTuple", false, uStr, func(c int) value.ArrayTuple { return value.NewNativeArrayTuple[value.String](c) })
	nlf := mkKind("NativeArrayList", true, uFlt, func(c int) value.ArrayTuple { return value.NewNativeArrayList[value.Float](c) })
	ntf := mkKind("NativeArrayTuple", false, uFlt, func(c int) value.ArrayTuple { return value.NewNativeArrayTuple[value.Float](c) })
	ls, ts, lf, tf := genericList(uStr), genericTuple(uStr), genericList(uFlt), genericTuple(uFlt)
	nls.peers, nts.peers = []*listKind{nts, ls, ts}, []*listKind{nls, ls, ts}
	nlf.peers, ntf.peers = []*listKind{ntf, lf, tf}, []*listKind{nlf, lf, tf}
	ls.peers, ts.peers = []*listKind{nls, nts}, []*listKind{nls, nts}
	type sc struct {
		id string
		k  *listKind
	}
	for _, s := range []sc{
		{"ArrayListOfValue/Int", li}, {"ArrayTupleOfValue/Int", ti},
		{"NativeArrayList/String", nls}, {"NativeArrayTuple/String", nts},
		{"NativeArrayList/Float", nlf}, {"NativeArrayTuple/Float", ntf},
		{"ArrayListOfValue/String-vs-native", ls}, {"ArrayTupleOfValue/String-vs-native", ts},
	} {
		s := s
		parts := 2
		for part := 0; part < parts; part++ {
			part := part
			c.Case(fmt.Sprintf("bfs/%s/part%d", s.id, part), func(r *engine.R) {
				explore(r, newListSys(s.k, lmax, capMax), depth, maxStates, part, parts)
			})
		}
	}
	// SetAtVal (used by map_mut): a fatal error of the Go runtime cannot be recovered, so it has a case of its own
	c.Case("goapi/SetAtVal/ArrayListOfValue", func(r *engine.R) {
		debug.SetMaxStack(32 << 20) // an unbounded recursion ends with `fatal error: stack overflow` after 32 MB instead of 1 GB
		l := value.NewArrayListOfValue(2)
		l.Append(uInt.val(1), uInt.val(2))
		var al value.ArrayList = l
		r.Eval(1)
		r.NT(1)
		err := al.SetAtVal(0, uInt.val(2))
		if isErr(err) || uInt.valIdx(l.At(0)) != 2 {
			r.Violation("go-api kind=ArrayListOfValue SetAtVal does not store the element", fmt.Sprintf("err=%s list=%s", safeInspect(err), l.Inspect()), nil)
		}
		r.Outcome("SetAtVal:ok")
	})
	for _, k := range []*listKind{nls, nlf} {
		k := k
		c.Case("goapi/SetAtVal/"+k.name+"/"+k.lit(1), func(r *engine.R) {
			l := k.build([]int{1, 2}, 0).(value.ArrayList)
			r.Eval(1)
			r.NT(1)
			err := l.SetAtVal(0, k.val(2))
			if isErr(err) || k.valIdx(l.AtVal(0)) != 2 {
				r.Violation("go-api kind="+k.name+" SetAtVal does not store the element", fmt.Sprintf("err=%s list=%s", safeInspect(err), l.Inspect()), nil)
			}
			r.Outcome("SetAtVal:ok")
		})
	}
	elkCases(c)
}

func main() {
	engine.Main(&engine.Spec{
		Prop:  "C24",
		Level: "model_checking",
		Rule: "Go API + native VM methods: breadth-first search over operation histories of real ArrayListOfValue / ArrayTupleOfValue (Int elements) and NativeArrayList / NativeArrayTuple (String and Float elements) objects; " +
			"successor = replay of the shortest history on a fresh object + one operation out of {push v, append(1,2), << v, []= i v, remove v, remove_at i, grow 1|3|-1, self=self+F (2 fixed lists), self=self*0|2, " +
			"self=slice(from,to) for every 0<=from<=to<=length, self=clone(capacity)}, v in {1,2}, i in -(length+1)..length, length capped at 4 (thorough 5), capacity at 8 (10); states merged on contents + capacity; to closure (depth bound 12, thorough 16); " +
			"after every transition: contents, capacity >= length, [] through Subscript and the `[]` method for every index -(length+2)..length+1 plus 2**70, -(2**70), UInt64 max, Int64 min, 0u8, -1i8, SubscriptInt, " +
			"5 iteration APIs, inspect, contains, + with 2 fixed lists of every peer implementation, == / =~ with an equal twin and 3 different twins, * 0|1|2|-1|2**70, every slice, clone, copy, non-mutation by observers, all against a Go slice. " +
			"Elk level: every sequence of <= 3 operations (thorough: also every sequence of 4 operations over the 12-operation core alphabet) (push, <<, append, []= at 0,-1,2,9,-9, pop, remove, remove_at 0,-1,9, grow, clear, + list, + tuple, *; tuples: +, *) on 2 initial literals of 5 flavours " +
			"(Int -> generic, Float/String -> native arrays), observed after every step with length, iteration, [] for every index -7..6 and 2**70, -(2**70), UInt64 max, contains, 13 range slices of every range kind, ==; " +
			"operations whose single-operation probe crashes the interpreter are reported by the probe and left out of the sequence alphabet. " +
			"states = sum over cases of the distinct (contents, capacity) states of the case; transitions validated = transitions whose observers were all compared on the real object",
		Assume: []string{
			"`remove(v)` may remove the first occurrence or every occurrence (the header does not say); any other result is a violation",
			"slices by a range whose bounds contain no index (e.g. 0..<0) are empty; endless ranges starting past the end are not judged",
			"capacity growth policy of push/append is not part of the model (only capacity >= length and grow(n) adding exactly n)",
			"method bodies compiled one at a time (MethodCheckConcurrencyLimit=1)",
		},
		QuickDeadline:    12 * time.Minute, // ~1 min on an idle 16-core machine; past the deadline the remaining cases are skipped (exhaustive:false)
		ThoroughDeadline: 60 * time.Minute,
		CaseTimeout:      10 * time.Minute,
		Setup: func(c *engine.Ctx) {
			elkrun.Init()
			debug.SetGCPercent(400)
			th = vm.New()
		},
		Run: run,
	})
}
