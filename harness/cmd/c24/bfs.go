package main

import (
	"fmt"
	"os"
	"runtime/debug"
	"sort"
	"strings"
	"syscall"
	"time"

	"verifharness/engine"
)

// viol is one failed oracle of one transition. sig identifies the defect (no concrete keys/values).
type viol struct{ sig, detail string }

// system is one object kind explored by the breadth-first search.
type system interface {
	Name() string
	OpNames() []string
	// Run replays hist (indices into OpNames) on a FRESH real object and, when check is set, evaluates
	// every oracle on the state reached. applicable=false: the last operation is outside the stated
	// space in that state (nothing is counted). expand=false: the state violates a state oracle and is
	// not explored further.
	Run(hist []int, check bool) (key string, applicable bool, vs []viol, expand bool, outcome string)
}

type bfsStats struct {
	states, trans, maxDepth int
	closed                  bool
}

func histString(s system, hist []int) string {
	names := s.OpNames()
	var b []string
	for _, h := range hist {
		b = append(b, names[h])
	}
	return strings.Join(b, " ; ")
}

// safeRun turns a Go panic anywhere in the replay/observers into a violation.
func safeRun(s system, hist []int, check bool) (key string, applicable bool, vs []viol, expand bool, outcome string) {
	defer func() {
		if p := recover(); p != nil {
			st := string(debug.Stack())
			last := "init"
			if len(hist) > 0 {
				last = opKind(s.OpNames()[hist[len(hist)-1]])
			}
			key, applicable, expand, outcome = "", true, false, "go-panic"
			vs = []viol{{sig: fmt.Sprintf("go-api kind=%s go-panic %s", s.Name(), firstFrame(engine.PanicSig(fmt.Sprint(p), st))),
				detail: fmt.Sprintf("Go panic after %s: %v\n%s", last, p, trimStack(st))}}
		}
	}()
	return s.Run(hist, check)
}

func trimStack(st string) string {
	lines := strings.Split(st, "\n")
	var keep []string
	for _, l := range lines {
		if strings.Contains(l, "/repo/") || strings.Contains(l, "elk/vm.") || strings.Contains(l, "elk/value.") {
			keep = append(keep, strings.TrimSpace(l))
		}
		if len(keep) >= 12 {
			break
		}
	}
	return strings.Join(keep, "\n")
}

// opKind strips the arguments of an op label: "set(k2,1)" -> "set".
func opKind(name string) string {
	if i := strings.IndexByte(name, '('); i >= 0 {
		return name[:i]
	}
	return name
}

// explore runs the BFS. Successor = replay the shortest history on a fresh object + one more operation.
// part/nparts: the subtrees below the root are partitioned by the index of the first operation so that one
// search can be spread over several cases (state merging then happens within a part).
func explore(r *engine.R, s system, maxDepth, maxStates, part, nparts int) bfsStats {
	var st bfsStats
	t0, c0 := time.Now(), cpuSeconds()
	defer func() {
		if os.Getenv("C24_TIMING") != "" {
			r.Note(fmt.Sprintf("timing %s: states=%d trans=%d depth=%d closed=%v wall %.1fs cpu %.1fs", s.Name(), st.states, st.trans, st.maxDepth, st.closed, time.Since(t0).Seconds(), cpuSeconds()-c0))
		}
	}()
	seen := map[string]struct{}{}
	nops := len(s.OpNames())
	report := func(hist []int, vs []viol) {
		for _, v := range vs {
			r.Violation(v.sig, fmt.Sprintf("history on a fresh %s: %s\n%s", s.Name(), histString(s, hist), v.detail),
				map[string]any{"kind": s.Name(), "history": histString(s, hist)})
		}
	}
	key0, _, vs0, expand0, _ := safeRun(s, nil, true)
	report(nil, vs0)
	seen[key0] = struct{}{}
	st.states = 1
	r.AddValidated(1)
	var deepest []int
	frontier := [][]int{{}}
	if !expand0 {
		frontier = nil
	}
	st.closed = true
	for depth := 1; depth <= maxDepth && len(frontier) > 0; depth++ {
		var next [][]int
		for _, hist := range frontier {
			for op := 0; op < nops; op++ {
				if depth == 1 && op%nparts != part {
					continue
				}
				h2 := make([]int, len(hist)+1)
				copy(h2, hist)
				h2[len(hist)] = op
				key, applicable, vs, expand, outcome := safeRun(s, h2, true)
				if !applicable {
					continue
				}
				st.trans++
				r.Outcome(outcome)
				if len(vs) > 0 {
					report(h2, vs)
					r.Count("violating_transitions", 1)
				}
				if !expand {
					continue
				}
				if _, ok := seen[key]; ok {
					continue
				}
				if len(seen) >= maxStates {
					r.Capped(fmt.Sprintf("state cap %d reached at depth %d", maxStates, depth))
					st.closed = false
					continue
				}
				seen[key] = struct{}{}
				next = append(next, h2)
				st.maxDepth = depth
				deepest = h2
			}
		}
		frontier = next
	}
	if len(frontier) > 0 {
		st.closed = false // depth bound reached with unexplored states
	}
	st.states = len(seen)
	r.Sample(fmt.Sprintf("%s: history of a deepest new state: %s", s.Name(), histString(s, deepest)))
	r.AddStates(st.states)
	r.AddTrans(st.trans)
	r.AddValidated(st.trans) // every transition is executed on the real object and all observers compared
	r.Eval(st.trans)
	r.NT(st.states)
	r.Count(fmt.Sprintf("cases_with_max_depth_%d", st.maxDepth), 1)
	if st.closed {
		r.Count("state_spaces_closed", 1)
	} else {
		r.Count("state_spaces_cut_at_depth_bound", 1)
	}
	return st
}

func sortedKeys(m map[int]int) []int {
	ks := make([]int, 0, len(m))
	for k := range m {
		ks = append(ks, k)
	}
	sort.Ints(ks)
	return ks
}

func cpuSeconds() float64 {
	var ru syscall.Rusage
	syscall.Getrusage(syscall.RUSAGE_SELF, &ru)
	return float64(ru.Utime.Sec+ru.Stime.Sec) + float64(ru.Utime.Usec+ru.Stime.Usec)/1e6
}

// firstFrame keeps the panic message and the innermost elk frame of a panic signature: the same failing
// function reached through different callers is one defect.
func firstFrame(sig string) string {
	parts := strings.Split(sig, " @ ")
	if len(parts) < 2 {
		return sig
	}
	return "in " + parts[1] + ": " + parts[0] // frame first: replay file names are cut after 90 characters
}
