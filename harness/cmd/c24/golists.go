package main

import (
	"fmt"
	"math/big"
	"strings"

	"github.com/elk-language/elk/value"
	"github.com/elk-language/elk/vm"
)

var th *vm.Thread

// listKind is one implementation of value.ArrayTuple / value.ArrayList with a two-value element universe.
type listKind struct {
	name    string
	isList  bool
	fresh   func(capacity int) value.ArrayTuple
	val     func(j int) value.Value // element j (1|2); 3 is a value that is never stored
	valIdx  func(v value.Value) int // 0: not an element of the universe
	lit     func(j int) string      // inspect form of element j
	open    string                  // "[" or "%["
	peers   []*listKind             // argument kinds for + and ==
	sameCls func(o any) bool
}

func safeInspect(v value.Value) (s string) {
	defer func() {
		if p := recover(); p != nil {
			s = fmt.Sprintf("<inspect panicked: %v>", p)
		}
	}()
	if v.IsUndefined() {
		return "<undefined>"
	}
	return v.Inspect()
}

func isErr(v value.Value) bool { return !v.IsUndefined() }

func sym(s string) value.Symbol { return value.ToSymbol(s) }

func (k *listKind) build(m []int, extraCap int) value.ArrayTuple {
	o := k.fresh(len(m) + extraCap)
	for _, e := range m {
		if err := o.AppendVal(k.val(e)); isErr(err) {
			panic("building an argument list failed: " + safeInspect(err))
		}
	}
	return o
}

// decode reads the real contents as model values (0 for anything that is not an element of the universe).
func (k *listKind) decode(o value.ArrayTuple) []int {
	out := make([]int, 0, o.Length())
	for i := 0; i < o.Length(); i++ {
		out = append(out, k.valIdx(o.AtVal(i)))
	}
	return out
}

func capOf(o value.ArrayTuple) int {
	if l, ok := o.(value.ArrayList); ok {
		return l.Capacity()
	}
	switch t := o.(type) {
	case *value.ArrayTupleOfValue:
		return cap(*t)
	case *value.NativeArrayTuple[value.String]:
		return cap(*t)
	case *value.NativeArrayTuple[value.Float]:
		return cap(*t)
	}
	return -1
}

func (k *listKind) stateKey(o value.ArrayTuple) string {
	return fmt.Sprintf("%T %v cap=%d", o, k.decode(o), capOf(o))
}

func eqInts(a, b []int) bool {
	if len(a) != len(b) {
		return false
	}
	for i := range a {
		if a[i] != b[i] {
			return false
		}
	}
	return true
}

type lop struct {
	kind string
	a, b int
	name string
}

type listSys struct {
	k      *listKind
	lmax   int
	capMax int
	ops    []lop
	names  []string
	fixed  [][]int
	nrep   map[string]int
}

func newListSys(k *listKind, lmax, capMax int) *listSys {
	s := &listSys{k: k, lmax: lmax, capMax: capMax, nrep: map[string]int{}, fixed: [][]int{{2}, {1, 2}}}
	add := func(kind string, a, b int, name string) {
		s.ops = append(s.ops, lop{kind, a, b, name})
		s.names = append(s.names, name)
	}
	for v := 1; v <= 2; v++ {
		add("push", v, 0, fmt.Sprintf("push(%d)", v))
	}
	add("append", 0, 0, "append(1,2)")
	for i := -(lmax + 1); i <= lmax; i++ {
		for v := 1; v <= 2; v++ {
			add("[]=", i, v, fmt.Sprintf("[%d]=%d", i, v))
		}
	}
	if k.isList {
		for v := 1; v <= 2; v++ {
			add("<<", v, 0, fmt.Sprintf("<<(%d)", v))
			add("remove", v, 0, fmt.Sprintf("remove(%d)", v))
		}
		for i := -(lmax + 1); i <= lmax; i++ {
			add("remove_at", i, 0, fmt.Sprintf("remove_at(%d)", i))
		}
		add("grow", 1, 0, "grow(1)")
		add("grow", 3, 0, "grow(3)")
		add("grow", -1, 0, "grow(-1)")
	}
	for fi := range s.fixed {
		add("concat", fi, 0, fmt.Sprintf("self=self+F%d", fi))
	}
	add("repeat", 0, 0, "self=self*0")
	add("repeat", 2, 0, "self=self*2")
	for from := 0; from <= lmax; from++ {
		for to := from; to <= lmax; to++ {
			add("slice", from, to, fmt.Sprintf("self=slice(%d,%d)", from, to))
		}
	}
	add("clone", 0, 0, "self=clone(capacity=length)")
	add("clone", 2, 0, "self=clone(capacity=length+2)")
	return s
}

func (s *listSys) Name() string           { return s.k.name }
func (s *listSys) OpNames() []string      { return s.names }
func (s *listSys) sig(what string) string { return "go-api kind=" + s.k.name + " " + what }

func (s *listSys) describe(o value.ArrayTuple, m []int) string {
	return fmt.Sprintf("model: %v\nreal state: %s", m, s.k.stateKey(o))
}

func isIndexError(err value.Value) bool {
	return isErr(err) && (value.IsA(err, value.IndexErrorClass) || value.IsA(err, value.OutOfRangeErrorClass))
}

func inRange(i, n int) bool { return i < n && i >= -n }

func norm(i, n int) int {
	if i < 0 {
		return n + i
	}
	return i
}

func removeFirst(m []int, v int) ([]int, bool) {
	for i, e := range m {
		if e == v {
			return append(append([]int{}, m[:i]...), m[i+1:]...), true
		}
	}
	return append([]int{}, m...), false
}

func removeAll(m []int, v int) ([]int, bool) {
	out := []int{}
	for _, e := range m {
		if e != v {
			out = append(out, e)
		}
	}
	return out, len(out) != len(m)
}

// apply executes one transition on the real object and on the model (*pm).
func (s *listSys) apply(po *value.ArrayTuple, pm *[]int, op lop, check bool) (applicable bool, vs []viol, outcome string) {
	k, o, m := s.k, *po, *pm
	n := len(m)
	bad := func(what, detail string) {
		if check {
			vs = append(vs, viol{s.sig(what), detail + "\n" + s.describe(*po, *pm)})
		}
	}
	asList := func() value.ArrayList { return o.(value.ArrayList) }
	switch op.kind {
	case "push":
		if n+1 > s.lmax {
			return false, nil, ""
		}
		if err := o.AppendVal(k.val(op.a)); isErr(err) {
			bad("push returns an error", safeInspect(err))
		}
		*pm = append(m, op.a)
		return true, vs, "push"
	case "append":
		if n+2 > s.lmax {
			return false, nil, ""
		}
		if err := o.AppendVal(k.val(1), k.val(2)); isErr(err) {
			bad("append returns an error", safeInspect(err))
		}
		*pm = append(m, 1, 2)
		return true, vs, "append"
	case "<<":
		if n+1 > s.lmax {
			return false, nil, ""
		}
		res, err := th.CallMethodByName(sym("<<"), o.ToValue(), k.val(op.a))
		if isErr(err) {
			bad("<< returns an error", safeInspect(err))
		} else if r, ok := res.SafeAsReference().(value.ArrayTuple); !ok || r != o {
			bad("<< does not return the receiver", safeInspect(res))
		}
		*pm = append(m, op.a)
		return true, vs, "<<"
	case "[]=":
		if op.a > n || op.a < -(n+1) {
			return false, nil, "" // only indices -(len+1)..len are in the stated space
		}
		err := o.SubscriptSet(value.SmallInt(op.a).ToValue(), k.val(op.b))
		if inRange(op.a, n) {
			if isErr(err) {
				bad("[]= with a valid index returns an error", fmt.Sprintf("index %d: %s", op.a, safeInspect(err)))
			}
			nm := append([]int{}, m...)
			nm[norm(op.a, n)] = op.b
			*pm = nm
			if op.a < 0 {
				return true, vs, "[]=:negative"
			}
			return true, vs, "[]=:ok"
		}
		if !isIndexError(err) {
			bad("[]= out of range does not return an index error", fmt.Sprintf("index %d, length %d: returned %s", op.a, n, safeInspect(err)))
		}
		return true, vs, "[]=:out-of-range"
	case "remove":
		removed, err := th.CallMethodByName(sym("remove"), o.ToValue(), k.val(op.a))
		got := k.decode(o)
		first, hadF := removeFirst(m, op.a)
		all, _ := removeAll(m, op.a)
		switch {
		case isErr(err):
			bad("remove returns an error", safeInspect(err))
		case !eqInts(got, first) && !eqInts(got, all):
			if check {
				vs = append(vs, viol{"go-api ArrayList#remove(v) leaves a list that is neither `without the first v` nor `without every v`",
					fmt.Sprintf("%s: remove(%d) on %v left %v; expected %v or %v", k.name, op.a, m, got, first, all)})
			}
		case value.Truthy(removed) != hadF:
			bad("remove reports the wrong result", fmt.Sprintf("remove(%d) on %v returned %s", op.a, m, safeInspect(removed)))
		}
		*pm = got // continue from the real contents (either reading of `remove` is accepted)
		for _, e := range got {
			if e == 0 {
				*pm = first
			}
		}
		if hadF {
			return true, vs, "remove:hit"
		}
		return true, vs, "remove:miss"
	case "remove_at":
		if op.a > n || op.a < -(n+1) {
			return false, nil, ""
		}
		_, err := th.CallMethodByName(sym("remove_at"), o.ToValue(), value.SmallInt(op.a).ToValue())
		if inRange(op.a, n) {
			if isErr(err) {
				bad("remove_at with a valid index returns an error", fmt.Sprintf("index %d: %s", op.a, safeInspect(err)))
			}
			i := norm(op.a, n)
			*pm = append(append([]int{}, m[:i]...), m[i+1:]...)
			return true, vs, "remove_at:ok"
		}
		if !isIndexError(err) {
			bad("remove_at out of range does not return an index error", fmt.Sprintf("index %d, length %d: returned %s", op.a, n, safeInspect(err)))
		}
		return true, vs, "remove_at:out-of-range"
	case "grow":
		l := asList()
		before := l.Capacity()
		if op.a > 0 && before+op.a > s.capMax {
			return false, nil, ""
		}
		_, err := th.CallMethodByName(sym("grow"), o.ToValue(), value.SmallInt(op.a).ToValue())
		if op.a < 0 {
			if !isErr(err) {
				bad("grow(-1) does not return an error", "")
			}
			if l.Capacity() != before {
				bad("a failing grow changes the capacity", fmt.Sprintf("%d -> %d", before, l.Capacity()))
			}
			return true, vs, "grow:negative"
		}
		if isErr(err) {
			bad("grow returns an error", safeInspect(err))
		} else if l.Capacity() != before+op.a {
			bad("grow(n) does not add n slots of capacity", fmt.Sprintf("capacity %d -> %d after grow(%d)", before, l.Capacity(), op.a))
		}
		return true, vs, "grow"
	case "concat":
		f := s.fixed[op.a]
		if n+len(f) > s.lmax {
			return false, nil, ""
		}
		res, err := o.ConcatVal(k.build(f, 1).ToValue())
		*pm = append(append([]int{}, m...), f...)
		if isErr(err) {
			bad("+ returns an error", safeInspect(err))
			return true, vs, "concat:error"
		}
		nr, ok := res.SafeAsReference().(value.ArrayTuple)
		if !ok {
			bad("+ does not return a list/tuple", safeInspect(res))
			return true, vs, "concat:not-a-list"
		}
		*po = nr
		return true, vs, "concat"
	case "repeat":
		if n*op.a > s.lmax {
			return false, nil, ""
		}
		res, err := o.RepeatVal(value.SmallInt(op.a).ToValue())
		nm := []int{}
		for i := 0; i < op.a; i++ {
			nm = append(nm, m...)
		}
		*pm = nm
		if isErr(err) {
			bad("* returns an error", safeInspect(err))
			return true, vs, "repeat:error"
		}
		nr, ok := res.SafeAsReference().(value.ArrayTuple)
		if !ok {
			bad("* does not return a list/tuple", safeInspect(res))
			return true, vs, "repeat:not-a-list"
		}
		*po = nr
		return true, vs, fmt.Sprintf("repeat:%d", op.a)
	case "slice":
		if op.b > n {
			return false, nil, ""
		}
		*po = o.SliceArrayTuple(op.a, op.b)
		*pm = append([]int{}, m[op.a:op.b]...)
		if op.a == op.b {
			return true, vs, "slice:empty"
		}
		return true, vs, "slice"
	case "clone":
		*po = o.CloneArrayTuple(n + op.a)
		return true, vs, "clone"
	}
	panic("unknown op " + op.kind)
}

func (k *listKind) inspectOf(m []int, leftCap int) string {
	var parts []string
	for _, e := range m {
		parts = append(parts, k.lit(e))
	}
	s := k.open + strings.Join(parts, ", ") + "]"
	if leftCap > 0 && k.isList {
		s += fmt.Sprintf(":%d", leftCap)
	}
	return s
}

// contents compares any list-like object with a model.
func (k *listKind) contents(o value.ArrayTuple, m []int) string {
	if o.Length() != len(m) {
		return fmt.Sprintf("length %d, expected %d", o.Length(), len(m))
	}
	for i, e := range m {
		if got := k.valIdx(o.AtVal(i)); got != e {
			return fmt.Sprintf("element %d is %s, expected %s", i, safeInspect(o.AtVal(i)), k.lit(e))
		}
	}
	return ""
}

func guard(f func()) (panicked string) {
	defer func() {
		if p := recover(); p != nil {
			panicked = fmt.Sprint(p)
		}
	}()
	f()
	return ""
}

func (s *listSys) check(o value.ArrayTuple, m []int, last string) (vs []viol, expand bool) {
	k := s.k
	n := len(m)
	keyBefore := k.stateKey(o)
	addSig := func(sig string, detail func() string) {
		s.nrep[sig]++
		if s.nrep[sig] > 3 {
			vs = append(vs, viol{sig, ""})
			return
		}
		vs = append(vs, viol{sig, detail() + "\n" + s.describe(o, m)})
	}
	add := func(what, detail string) { addSig(s.sig(what), func() string { return detail }) }
	// observers that panic are reported individually (never a Go panic)
	obs := func(name string, f func()) {
		if p := guard(f); p != "" {
			add(name+": Go panic", p)
		}
	}
	// ---- contents and capacity
	if what := k.contents(o, m); what != "" {
		add("contents differ from the sequence model after="+last, what)
		return vs, false
	}
	if l, ok := o.(value.ArrayList); ok {
		if l.Capacity() < l.Length() {
			add("capacity < length after="+last, fmt.Sprintf("capacity %d length %d", l.Capacity(), l.Length()))
		}
		if l.LeftCapacity() != l.Capacity()-l.Length() {
			add("left_capacity != capacity - length", fmt.Sprintf("%d != %d - %d", l.LeftCapacity(), l.Capacity(), l.Length()))
		}
	}
	// ---- indexing: every index -(len+2)..len+1 and extreme indices, through every access path
	type idx struct {
		name  string
		v     value.Value
		valid bool
		pos   int
	}
	var idxs []idx
	for i := -(n + 2); i <= n+1; i++ {
		idxs = append(idxs, idx{fmt.Sprint(i), value.SmallInt(i).ToValue(), inRange(i, n), norm(i, n)})
	}
	big70 := new(big.Int).Lsh(big.NewInt(1), 70)
	idxs = append(idxs,
		idx{"2**70", value.ToElkBigInt(big70).Normalize(), false, 0},
		idx{"-(2**70)", value.ToElkBigInt(new(big.Int).Neg(big70)).Normalize(), false, 0},
		idx{"u64 max", value.UInt64(^uint64(0)).ToValue(), false, 0},
		idx{"i64 min", value.Int64(-1 << 63).ToValue(), false, 0},
		idx{"0u8", value.UInt8(0).ToValue(), n > 0, 0},
		idx{"-1i8", value.Int8(-1).ToValue(), n > 0, n - 1},
	)
	getters := []struct {
		name string
		f    func(i value.Value) (value.Value, value.Value)
	}{
		{"Subscript", func(i value.Value) (value.Value, value.Value) { return o.Subscript(i) }},
		{"method []", func(i value.Value) (value.Value, value.Value) { return th.CallMethodByName(sym("[]"), o.ToValue(), i) }},
	}
	for _, ix := range idxs {
		for _, g := range getters {
			ix, g := ix, g
			obs(g.name, func() {
				got, err := g.f(ix.v)
				cls := "small"
				if !ix.v.IsSmallInt() {
					cls = ix.name
				}
				// the conversion of non-small index values is shared by every implementation (value.ToGoInt): no kind in the signature
				addI := func(what, detail string) {
					if cls == "small" {
						add(what+" (small Int index)", detail)
					} else {
						addSig("go-api "+what+" (index "+cls+")", func() string { return k.name + ": " + detail })
					}
				}
				switch {
				case ix.valid && isErr(err):
					addI("[] with a valid index returns an error", fmt.Sprintf("%s(%s), length %d: %s", g.name, ix.name, n, safeInspect(err)))
				case ix.valid && k.valIdx(got) != m[ix.pos]:
					addI("[] returns the wrong element", fmt.Sprintf("%s(%s) = %s, expected %s", g.name, ix.name, safeInspect(got), k.lit(m[ix.pos])))
				case !ix.valid && !isErr(err):
					addI("[] out of range returns a value instead of an index error", fmt.Sprintf("%s(%s), length %d = %s", g.name, ix.name, n, safeInspect(got)))
				case !ix.valid && !isIndexError(err):
					addI("[] out of range returns an error of another class", fmt.Sprintf("%s(%s), length %d: %s", g.name, ix.name, n, safeInspect(err)))
				}
			})
		}
	}
	for i := -(n + 1); i <= n; i++ {
		i := i
		obs("SubscriptInt", func() {
			got, err := o.SubscriptInt(i)
			if inRange(i, n) {
				if isErr(err) || k.valIdx(got) != m[norm(i, n)] {
					add("SubscriptInt returns the wrong element", fmt.Sprintf("SubscriptInt(%d) = %s err=%s", i, safeInspect(got), safeInspect(err)))
				}
			} else if !isIndexError(err) {
				add("SubscriptInt out of range does not return an index error", fmt.Sprintf("SubscriptInt(%d), length %d: %s / %s", i, n, safeInspect(got), safeInspect(err)))
			}
		})
	}
	// ---- iteration
	collect := func(name string, f func(yield func(value.Value) bool)) {
		report := func(detail string) {
			if name == "iterator.Elements()" {
				// the four iterator types carry the same copy of this method: one signature
				addSig("go-api iterator.Elements() of list/tuple iterators does not yield the remaining elements (nothing for a non-empty receiver, Go panic for an empty one)",
					func() string { return k.name + ": " + detail })
				return
			}
			add("iteration["+name+"] does not yield the elements in order", detail)
		}
		var got []int
		p := guard(func() {
			cnt := 0
			f(func(v value.Value) bool {
				cnt++
				got = append(got, k.valIdx(v))
				return cnt < 100
			})
		})
		if p != "" {
			report("Go panic: " + p)
		} else if !eqInts(got, m) {
			report(fmt.Sprintf("yielded %v", got))
		}
	}
	collect("Elements", func(yield func(value.Value) bool) {
		for _, v := range o.Elements() {
			if !yield(v) {
				return
			}
		}
	})
	collect("Iterate", func(yield func(value.Value) bool) {
		for v, err := range o.Iterate() {
			if isErr(err) || !yield(v) {
				return
			}
		}
	})
	collect("iterator", func(yield func(value.Value) bool) {
		it := o.IterTuple()
		for {
			v, err := it.NextValue()
			if isErr(err) || !yield(v) {
				return
			}
		}
	})
	collect("iterator-after-reset", func(yield func(value.Value) bool) {
		it := o.IterTuple()
		it.NextValue()
		it.Reset()
		for {
			v, err := it.NextValue()
			if isErr(err) || !yield(v) {
				return
			}
		}
	})
	collect("iterator.Elements()", func(yield func(value.Value) bool) {
		for v := range o.IterTuple().Elements() {
			if !yield(v) {
				return
			}
		}
	})
	// ---- inspect
	obs("inspect", func() {
		want := k.inspectOf(m, capOf(o)-n)
		if got := o.Inspect(); got != want {
			add("inspect differs from the sequence model", fmt.Sprintf("got %q expected %q", got, want))
		}
	})
	// ---- contains
	for v := 1; v <= 3; v++ {
		v := v
		obs("contains", func() {
			want := false
			for _, e := range m {
				if e == v {
					want = true
				}
			}
			got, err := th.CallMethodByName(sym("contains"), o.ToValue(), k.val(v))
			if isErr(err) || value.Truthy(got) != want {
				add(fmt.Sprintf("contains is %v for an element whose presence is %v", value.Truthy(got), want), fmt.Sprintf("contains(%s) = %s err=%s", k.lit(v), safeInspect(got), safeInspect(err)))
			}
		})
	}
	// observers never change the state: a wrong observer is reported and the exploration continues
	// ---- derived objects
	all := append([]*listKind{k}, k.peers...)
	for _, pk := range all {
		pk := pk
		pair := k.name + " + " + pk.name
		for fi, f := range s.fixed {
			fi, f := fi, f
			argClass := "the same implementation"
			if pk != k {
				argClass = "another implementation"
			}
			broken := func(detail string) {
				add("+ with an argument of "+argClass+" is broken (Go panic, error or wrong elements)", pair+": "+detail)
			}
			if p := guard(func() {
				arg := pk.build(f, 0)
				res, err := o.ConcatVal(arg.ToValue())
				want := append(append([]int{}, m...), f...)
				if isErr(err) {
					broken("returns the error " + safeInspect(err))
					return
				}
				nr, ok := res.SafeAsReference().(value.ArrayTuple)
				if !ok {
					broken("does not return a list/tuple: " + safeInspect(res))
					return
				}
				if what := k.contents(nr, want); what != "" {
					broken(fmt.Sprintf("self + F%d%v = %s: %s", fi, f, safeInspect(res), what))
				}
				if what := pk.contents(arg, f); what != "" {
					add("+ mutates its argument ("+pair+")", what)
				}
			}); p != "" {
				broken("Go panic: " + p)
			}
		}
		// equality
		if pk.isList == k.isList {
			obs("== ("+k.name+" vs "+pk.name+")", func() {
				twin := pk.build(m, 2)
				for _, name := range []string{"==", "=~"} {
					res, err := th.CallMethodByName(sym(name), o.ToValue(), twin.ToValue())
					if isErr(err) || !value.Truthy(res) {
						add(name+" is false for equal content ("+k.name+" vs "+pk.name+")", fmt.Sprintf("%s err=%s", safeInspect(res), safeInspect(err)))
					}
				}
				if eq, err := vm.ArrayTupleEqual(th, o, twin); isErr(err) || !eq {
					add("== is false for equal content ("+k.name+" vs "+pk.name+")", fmt.Sprintf("ArrayTupleEqual=%v err=%s", eq, safeInspect(err)))
				}
				var diffs [][]int
				if n > 0 {
					d := append([]int{}, m...)
					d[n-1] = 3 - d[n-1]
					diffs = append(diffs, d, m[:n-1])
				}
				diffs = append(diffs, append(append([]int{}, m...), 1))
				for _, d := range diffs {
					tw := pk.build(d, 0)
					res, err := th.CallMethodByName(sym("=="), o.ToValue(), tw.ToValue())
					if isErr(err) || value.Truthy(res) {
						add("== is true for different content ("+k.name+" vs "+pk.name+")", fmt.Sprintf("other=%v: %s err=%s", d, safeInspect(res), safeInspect(err)))
					}
				}
			})
		}
	}
	for _, cnt := range []int{0, 1, 2} {
		cnt := cnt
		obs("*", func() {
			res, err := o.RepeatVal(value.SmallInt(cnt).ToValue())
			var want []int
			for i := 0; i < cnt; i++ {
				want = append(want, m...)
			}
			if isErr(err) {
				add("* returns an error", safeInspect(err))
				return
			}
			nr, ok := res.SafeAsReference().(value.ArrayTuple)
			if !ok {
				add("* does not return a list/tuple", safeInspect(res))
			} else if what := k.contents(nr, want); what != "" {
				add("* result differs from the repetition", fmt.Sprintf("self * %d = %s: %s", cnt, safeInspect(res), what))
			}
		})
	}
	obs("*", func() {
		for _, bad := range []value.Value{value.SmallInt(-1).ToValue(), value.ToElkBigInt(big70).Normalize()} {
			if _, err := o.RepeatVal(bad); !isErr(err) || !value.IsA(err, value.OutOfRangeErrorClass) {
				add("* with a negative or huge count does not return an out-of-range error", safeInspect(bad)+": "+safeInspect(err))
			}
		}
	})
	for from := 0; from <= n; from++ {
		for to := from; to <= n; to++ {
			from, to := from, to
			obs("slice", func() {
				if what := k.contents(o.SliceArrayTuple(from, to), m[from:to]); what != "" {
					add("slice differs from the sub-sequence", fmt.Sprintf("slice(%d,%d): %s", from, to, what))
				}
			})
		}
	}
	obs("clone", func() {
		for _, c := range []int{n, n + 3} {
			cl := o.CloneArrayTuple(c)
			if what := k.contents(cl, m); what != "" {
				add("clone differs from the original", what)
			} else if n > 0 {
				cl.SubscriptSet(value.SmallInt(0).ToValue(), k.val(3-m[0]))
				if k.stateKey(o) != keyBefore {
					add("clone shares its elements with the original", "writing to the clone changed the original")
				}
			}
		}
	})
	obs("copy", func() {
		cp, ok := o.(value.Reference).Copy().(value.ArrayTuple)
		if !ok {
			add("copy is not a list/tuple", fmt.Sprintf("%T", o.(value.Reference).Copy()))
		} else if what := k.contents(cp, m); what != "" {
			add("copy differs from the original", what)
		} else if n > 0 && k.isList {
			cp.SubscriptSet(value.SmallInt(0).ToValue(), k.val(3-m[0]))
			if k.stateKey(o) != keyBefore {
				add("copy shares its elements with the original", "writing to the copy changed the original")
			}
		}
	})
	if after := k.stateKey(o); after != keyBefore {
		add("an observer mutates the receiver", fmt.Sprintf("before: %s\nafter:  %s", keyBefore, after))
		return vs, false
	}
	return vs, true
}

func (s *listSys) Run(hist []int, check bool) (key string, applicable bool, vs []viol, expand bool, outcome string) {
	o := s.k.fresh(0)
	m := []int{}
	last := "init"
	outcome = "init"
	for i, oi := range hist {
		isLast := i == len(hist)-1
		var ovs []viol
		applicable, ovs, outcome = s.apply(&o, &m, s.ops[oi], check && isLast)
		if !applicable {
			if !isLast {
				panic("inapplicable operation inside a stored history")
			}
			return "", false, nil, false, ""
		}
		if isLast {
			vs = append(vs, ovs...)
			last = s.ops[oi].kind
		}
	}
	expand = true
	if check {
		cvs, ex := s.check(o, m, last)
		vs = append(vs, cvs...)
		expand = ex && len(vs) == len(cvs)
		vs = append(vs, s.checkResultIndependence(hist, m)...)
	}
	return s.k.stateKey(o), true, vs, expand, outcome
}

// checkResultIndependence replays the history on a second fresh object, takes r = self + F and r2 = self * 1,
// then mutates self (<< / []=) and requires r and r2 to be unchanged: the result of + and * is a new sequence,
// not a view of its left operand (which may have spare capacity after pops, removes, grows or slices).
func (s *listSys) checkResultIndependence(hist []int, m []int) (vs []viol) {
	k := s.k
	if !k.isList {
		return nil
	}
	o := k.fresh(0)
	mm := []int{}
	for _, oi := range hist {
		if ok, _, _ := s.apply(&o, &mm, s.ops[oi], false); !ok {
			return nil
		}
	}
	type derived struct {
		name string
		val  value.ArrayTuple
		want []int
	}
	var ds []derived
	defer func() {
		if p := recover(); p != nil {
			vs = append(vs, viol{s.sig("result independence: Go panic"), fmt.Sprint(p)})
		}
	}()
	for fi, f := range s.fixed {
		res, err := o.ConcatVal(k.build(f, 0).ToValue())
		if isErr(err) {
			continue // reported by the + observer
		}
		if nr, ok := res.SafeAsReference().(value.ArrayTuple); ok {
			ds = append(ds, derived{fmt.Sprintf("self + F%d%v", fi, f), nr, append(append([]int{}, mm...), f...)})
		}
	}
	if res, err := o.RepeatVal(value.SmallInt(1).ToValue()); !isErr(err) {
		if nr, ok := res.SafeAsReference().(value.ArrayTuple); ok {
			ds = append(ds, derived{"self * 1", nr, append([]int{}, mm...)})
		}
	}
	// mutate the left operand: append two elements, then overwrite the first
	l := o.(value.ArrayList)
	l.AppendVal(k.val(3))
	l.AppendVal(k.val(3))
	if len(mm) > 0 {
		l.SubscriptSet(value.SmallInt(0).ToValue(), k.val(3))
	}
	for _, d := range ds {
		if what := k.contents(d.val, d.want); what != "" {
			vs = append(vs, viol{s.sig("the result of + or * changes when its left operand is mutated afterwards (shared storage)"),
				fmt.Sprintf("%s was taken, then two elements were appended to the receiver and its [0] overwritten: %s\n%s", d.name, what, s.describe(o, mm))})
			break
		}
	}
	return vs
}
