// abortx: development helper for C33 — run a file with abort checks and cancel at the k-th poll; 5 s timeout.
package main

import (
	"context"
	"fmt"
	"os"
	"strconv"
	"strings"
	"sync"
	"time"

	"github.com/elk-language/elk/bitfield"
	"github.com/elk-language/elk/types/checker"
	"github.com/elk-language/elk/value"
	"github.com/elk-language/elk/vm"

	"verifharness/elkrun"
)

type countCtx struct {
	mu    sync.Mutex
	polls int
	k     int
	ch    chan struct{}
	done  bool
}

func (c *countCtx) Deadline() (time.Time, bool) { return time.Time{}, false }
func (c *countCtx) Done() <-chan struct{} {
	c.mu.Lock()
	defer c.mu.Unlock()
	c.polls++
	if c.polls >= c.k && !c.done {
		c.done = true
		close(c.ch)
	}
	return c.ch
}
func (c *countCtx) Err() error  { return context.Canceled }
func (c *countCtx) Value(any) any { return nil }

func main() {
	src, _ := os.ReadFile(os.Args[1])
	k, _ := strconv.Atoi(os.Args[2])
	elkrun.Init()
	fn, diags := checker.CheckSource("p.elk", string(src), nil, bitfield.BitField16FromBitFlag(checker.AdditionalAbortChecks), nil)
	if diags.IsFailure() {
		fmt.Println(diags.Error())
		return
	}
	if len(os.Args) > 3 {
		fn.Disassemble(os.Stdout)
	}
	ctx := &countCtx{k: k, ch: make(chan struct{})}
	done := make(chan string)
	go func() {
		var out strings.Builder
		v := vm.New(vm.WithStdout(&out), vm.WithAborter(value.NewAborter(ctx, func() {})))
		val, err := v.InterpretTopLevel(fn)
		done <- fmt.Sprintf("val=%s err=%s out=%q", val.Inspect(), err.Inspect(), out.String())
	}()
	select {
	case s := <-done:
		fmt.Println(s, "polls=", ctx.polls)
	case <-time.After(5 * time.Second):
		fmt.Println("HANG after 5s; polls=", ctx.polls)
	}
}
