// C18 — equality, hashing and ordering are mutually consistent.
//
// Bounded-exhaustive over a fixed set of ~175 (thorough ~250) values of all built-in kinds (numbers of every kind at the
// 2^24 / 2^53 / 2^63 / 2^64 boundaries, signed zeros, infinities, NaN; strings, chars, symbols, nil/bools,
// lists, tuples, maps, records, sets, the 8 range kinds, dates/times/spans, regexes, pairs, objects), built
// by evaluating Elk expressions (plus a few Go-API constructions for values that have no literal):
//   - all ordered pairs: `==` symmetric, reflexive (NaN excepted), `a == b` implies hash(a) == hash(b);
//   - all ordered pairs of non-NaN numbers: `< <= > >= <=> =~` agree with each other (and with the converse pair);
//   - all triples of non-NaN numbers: `<`, `<=` and `=~` are transitive;
//   - the same laws on the results printed by the VM for the coercible kinds (Int, Float, BigFloat) and the
//     same-kind fixed-width pairs, with statically typed operands (typed opcodes, statically bound calls).
//
// Seam: vm.Equal / vm.LaxEqual / vm.Hash / vm.LessThan ... / value.CompareVal with a real *vm.Thread.
package main

import (
	"fmt"
	"math"
	"math/big"
	"sort"
	"strings"
	"sync"

	"github.com/elk-language/elk/value"
	"github.com/elk-language/elk/vm"

	"verifharness/elkrun"
	"verifharness/engine"
)

// ---------------------------------------------------------------------------------------------
// the value set

type vdef struct {
	src      string             // Elk program whose last expression is the value ("" when built through the Go API)
	mk       func() value.Value // Go-API construction
	label    string
	thorough bool
}

func e(src string) vdef  { return vdef{src: src, label: src} }
func et(src string) vdef { return vdef{src: src, label: src, thorough: true} }
func g(label string, mk func() value.Value) vdef {
	return vdef{mk: mk, label: label}
}

var numericDefs = []vdef{
	// Int, small
	e("0"), e("1"), e("-1"), e("2"), e("16777216"), e("16777217"),
	e("9007199254740991"), e("9007199254740992"), e("9007199254740993"), e("9007199254740994"),
	e("-9007199254740993"),
	e("9223372036854775807"), e("-9223372036854775808"),
	e("9223372036854775806"), et("-9007199254740992"), et("4611686018427387904"),
	// Int, big
	e("9223372036854775808"), e("9223372036854775809"), e("18446744073709551615"), e("18446744073709551616"), e("18446744073709551617"),
	e("-9223372036854775809"), e("1267650600228229401496703205376"), e("1267650600228229401496703205377"),
	e("2 ** 1024"),
	et("-18446744073709551617"), et("2 ** 1023"),
	// Float
	e("0.0"), e("-fz()"), e("1.0"), e("-1.0"), e("1.5"), e("0.1"), e("16777216.0"), e("16777217.0"),
	e("9007199254740992.0"), e("9007199254740994.0"), e("-9007199254740992.0"),
	e("9223372036854775808.0"), e("18446744073709551616.0"), e("1267650600228229401496703205376.0"),
	e("1.7976931348623157e+308"),
	e("Float::INF"), e("Float::NEG_INF"), e("Float::NAN"),
	et("9223372036854774784.0"), et("18446744073709549568.0"), et("0.5"), et("-9223372036854775808.0"),
	// BigFloat
	e("0.0bf"), e("1.0bf"), e("1.5bf"), e("0.1bf"), e("1.50000000000000000000000000000000000000bf"),
	e("9007199254740992bf"), e("9007199254740993bf"), e("9007199254740993.0bf"), e("18446744073709551617bf"),
	e("1267650600228229401496703205377bf"),
	g("BigFloat NaN", func() value.Value { return value.Ref(value.BigFloatNaN()) }),
	g("BigFloat +Inf", func() value.Value { return value.Ref(value.BigFloatInf()) }),
	g("BigFloat -Inf", func() value.Value { return value.Ref(value.BigFloatNegInf()) }),
	et("-1.5bf"), et("9223372036854775808bf"),
	// BigFloats whose precision is below that of a Float (only reachable through set_precision / `p`), with Floats
	// that are not representable at that precision and round onto or across them
	g("BigFloat 1 at precision 8", func() value.Value { return value.Ref((&value.BigFloat{}).SetPrecision(8).SetSmallInt(1)) }),
	g("BigFloat 3 at precision 4", func() value.Value { return value.Ref((&value.BigFloat{}).SetPrecision(4).SetSmallInt(3)) }),
	g("BigFloat 1 at precision 100", func() value.Value { return value.Ref((&value.BigFloat{}).SetPrecision(100).SetSmallInt(1)) }),
	e("1.001"), e("0.999"), e("1.00390625"), e("3.01"), e("2.99"),
	// Float64 / Float32
	e("1.0f64"), e("1.5f64"), e("0.1f64"), e("9007199254740992.0f64"), e("-fz64()"), e("0.0f64"), e("0.0f64 / 0.0f64"),
	e("1.0f32"), e("1.5f32"), e("0.1f32"), e("16777216.0f32"), e("0.0f32"), e("-fz32()"), e("0.0f32 / 0.0f32"),
	// fixed-width integers
	e("1i8"), e("-1i8"), e("1i16"), e("1i32"), e("16777217i32"),
	e("1i64"), e("-1i64"), e("9007199254740993i64"), e("9223372036854775807i64"),
	e("1u8"), e("255u8"), e("1u16"), e("1u32"), e("16777217u32"),
	e("1u64"), e("9007199254740993u64"), e("18446744073709551615u64"), e("9223372036854775808u64"),
	e("1u"), e("18446744073709551615u"),
	et("0i8"), et("0u8"), et("0i64"), et("0u64"), et("-9007199254740993i64"), et("9223372036854775807u64"),
	// thorough: both sides of every boundary in every kind that can hold the value
	et("16777215"), et("16777218"), et("-16777217"), et("-16777216"),
	et("16777215.0"), et("16777218.0"), et("-16777216.0"),
	et("16777215.0f32"), et("16777218.0f32"), et("-16777216.0f32"), et("16777217.0f64"), et("16777216.0f64"),
	et("16777216i32"), et("16777216u32"), et("16777216i64"), et("16777217i64"), et("16777216u64"), et("16777217u64"),
	et("9007199254740992i64"), et("9007199254740994i64"), et("9007199254740992u64"), et("9007199254740994u64"), et("9007199254740993u"),
	et("9007199254740994.0f64"), et("9007199254740991.0"), et("9007199254740991.0bf"), et("9007199254740994bf"), et("-9007199254740993bf"),
	e("9223372036854775807bf"), et("9223372036854775809bf"), et("18446744073709551616bf"), et("18446744073709551615bf"),
	et("9223372036854775806i64"), et("-9223372036854775807i64"), et("18446744073709551614u64"), et("9223372036854775809u64"),
	et("9223372036854775807u"), et("9223372036854775808u"),
	et("-18446744073709551616"), et("-18446744073709551616.0"), et("-9223372036854775809.0bf"),
	et("2.0"), et("2.0bf"), et("2i8"), et("2u8"), et("2.0f32"), et("2.0f64"), et("-1.0bf"), et("-1.0f64"), et("-1.0f32"), et("-1i16"), et("-1i32"),
	et("127i8"), et("-128.0"), et("255u8"), et("255"), et("255.0"), et("32767i16"), et("65535u16"), et("2147483647i32"), et("4294967295u32"), et("4294967295"), et("4294967295.0"),
}

var otherDefs = []vdef{
	e(`""`), e(`"a"`), e(`"b"`), e(`"ab"`), e(`"é"`), e(`"é"`), e(`"a" + "b"`),
	g(`String "\xff" (invalid UTF-8)`, func() value.Value { return value.Ref(value.String("\xff")) }),
	g(`String "\xc3" (invalid UTF-8)`, func() value.Value { return value.Ref(value.String("\xc3")) }),
	e("`a`"), e("`b`"), e("`é`"),
	e(":a"), e(":b"), e(`:"a b"`), e(":+"),
	e("nil"), e("true"), e("false"),
	e("[]"), e("[1]"), e("[1, 2]"), e("[2, 1]"), e("[1.0]"), e("[[1]]"), e(`["a"]`), e("[nil]"), e("[Float::NAN]"), e("[0.0]"), e("[-fz()]"),
	e("%[]"), e("%[1]"), e("%[1, 2]"), e(`%["a"]`),
	e("{}"), e("{ 1 => 2 }"), e("{ 1 => 2, 3 => 4 }"), e("{ 3 => 4, 1 => 2 }"), e("{ 1 => 2.0 }"), e(`{ "a" => 1 }`), e("{ 1 => [2] }"),
	e("%{}"), e("%{ 1 => 2 }"), e("%{ 1 => 2, 3 => 4 }"), e("%{ 3 => 4, 1 => 2 }"),
	e("^[]"), e("^[1]"), e("^[1, 2]"), e("^[2, 1]"), e("^[1.0]"), e(`^["a", "b"]`), e(`^["b", "a"]`),
	e("1...5"), e("1..<5"), e("1<..5"), e("1<.<5"), e("...5"), e("..<5"), e("1..."), e("1<.."),
	e("1...6"), e("2...5"), e("1.0...5.0"), e(`"a"..."c"`), e("...6"), e("2..."),
	e("Date(2020, 1, 2)"), e("Date(2020, 1, 3)"), e("Date(2021, 1, 2)"),
	e("Time(10, 20, 30)"), e("Time(10, 20, 31)"),
	e("DateTime(2020, 1, 2, 3, 4, 5)"), e("DateTime(2020, 1, 2, 3, 4, 6)"),
	e("Date::Span(1, 2, 3)"), e("Date::Span(0, 14, 3)"), e("Date::Span(1, 2, 4)"),
	e("%/a+/"), e("%/a+/i"), e("%/b/"),
	e("Pair(1, 2)"), e("Pair(1, 3)"), e("Pair(1.0, 2)"),
	e("Object()"),
}

type val struct {
	idx     int
	nidx    int // index among the numbers
	label   string
	v, copy value.Value // two independently constructed instances
	class   string      // class name without Std::
	numeric bool
	nan     bool       // NaN, or a collection containing NaN
	exact   *big.Float // exact mathematical value of a non-NaN number (may be ±Inf)
}

var (
	th      *vm.Thread
	numbers []*val
	others  []*val
	all     []*val
	buildMu sync.Once
	skipped []string
)

func evalElk(src string) (v value.Value, msg string) {
	defer func() {
		if p := recover(); p != nil {
			v, msg = value.Undefined, fmt.Sprint("go panic: ", p)
		}
	}()
	fn, res := elkrun.Compile(src, nil)
	if fn == nil {
		return value.Undefined, "rejected: " + firstLine(res.Diags) + res.Panic
	}
	t := vm.New()
	out, err := t.InterpretTopLevel(fn)
	if !err.IsUndefined() {
		return value.Undefined, "raised " + err.Inspect()
	}
	return out, ""
}

func firstLine(s string) string {
	if i := strings.IndexByte(s, '\n'); i >= 0 {
		return s[:i]
	}
	return s
}

func className(v value.Value) string {
	return strings.TrimPrefix(v.Class().Name, "Std::")
}

func isNumericClass(c string) bool {
	switch c {
	case "Int", "Float", "BigFloat", "Float64", "Float32", "Int8", "Int16", "Int32", "Int64", "UInt8", "UInt16", "UInt32", "UInt64", "UInt":
		return true
	}
	return false
}

const exactPrec = 4096

func bf() *big.Float { return new(big.Float).SetPrec(exactPrec) }

// exactOf returns the exact mathematical value of a number, nil for NaN.
func exactOf(v value.Value) *big.Float {
	fl := func(x float64) *big.Float {
		switch {
		case x != x:
			return nil
		case math.IsInf(x, 0):
			return bf().SetInf(x < 0)
		}
		return bf().SetFloat64(x)
	}
	if v.IsReference() {
		switch r := v.AsReference().(type) {
		case *value.BigInt:
			return bf().SetInt(r.ToGoBigInt())
		case *value.BigFloat:
			if r.IsNaN() {
				return nil
			}
			if r.AsGoBigFloat().IsInf() {
				return bf().SetInf(r.AsGoBigFloat().Signbit())
			}
			return bf().Set(r.AsGoBigFloat())
		}
		return nil
	}
	switch {
	case v.IsSmallInt():
		return bf().SetInt64(int64(v.AsSmallInt()))
	case v.IsFloat():
		return fl(float64(v.AsFloat()))
	case v.IsInlineFloat64():
		return fl(float64(v.AsInlineFloat64()))
	case v.IsFloat32():
		return fl(float64(v.AsFloat32()))
	case v.IsInt8():
		return bf().SetInt64(int64(v.AsInt8()))
	case v.IsInt16():
		return bf().SetInt64(int64(v.AsInt16()))
	case v.IsInt32():
		return bf().SetInt64(int64(v.AsInt32()))
	case v.IsInlineInt64():
		return bf().SetInt64(int64(v.AsInlineInt64()))
	case v.IsUInt8():
		return bf().SetUint64(uint64(v.AsUInt8()))
	case v.IsUInt16():
		return bf().SetUint64(uint64(v.AsUInt16()))
	case v.IsUInt32():
		return bf().SetUint64(uint64(v.AsUInt32()))
	case v.IsInlineUInt64():
		return bf().SetUint64(uint64(v.AsInlineUInt64()))
	case v.IsUInt():
		return bf().SetUint64(uint64(v.AsUInt()))
	}
	return nil
}

const valPrelude = "def fz: Float then 0.0\ndef fz64: Float64 then 0.0f64\ndef fz32: Float32 then 0.0f32\n"

// evalAll evaluates all Elk-sourced definitions in one program (a list literal); when that program cannot be
// compiled or run, every definition is evaluated on its own so that one bad expression only loses itself.
func evalAll(defs []vdef) ([]value.Value, []string) {
	vals := make([]value.Value, len(defs))
	msgs := make([]string, len(defs))
	var b strings.Builder
	b.WriteString(valPrelude + "[\n")
	var idx []int
	for i, d := range defs {
		if d.mk != nil {
			vals[i] = d.mk()
			continue
		}
		idx = append(idx, i)
		fmt.Fprintf(&b, "  (%s),\n", d.src)
	}
	b.WriteString("]\n")
	if out, msg := evalElk(b.String()); msg == "" && out.IsReference() {
		if l, ok := out.AsReference().(value.ArrayList); ok && l.Length() == len(idx) {
			for k, i := range idx {
				vals[i] = l.AtVal(k)
			}
			return vals, msgs
		}
	}
	for _, i := range idx {
		vals[i], msgs[i] = evalElk(valPrelude + defs[i].src)
	}
	return vals, msgs
}

func build(thorough bool) {
	buildMu.Do(func() {
		var defs []vdef
		nNum := 0
		for _, d := range numericDefs {
			if !d.thorough || thorough {
				defs = append(defs, d)
				nNum++
			}
		}
		for _, d := range otherDefs {
			if !d.thorough || thorough {
				defs = append(defs, d)
			}
		}
		v1, m1 := evalAll(defs)
		v2, m2 := evalAll(defs)
		for i, d := range defs {
			if m1[i] != "" || m2[i] != "" || v1[i].IsUndefined() || v2[i].IsUndefined() {
				skipped = append(skipped, d.label+": "+m1[i]+m2[i])
				continue
			}
			x := &val{label: d.label, v: v1[i], copy: v2[i], class: className(v1[i])}
			x.numeric = isNumericClass(x.class)
			if i < nNum {
				if !x.numeric {
					skipped = append(skipped, d.label+": not a number but "+x.class)
					continue
				}
				x.exact = exactOf(x.v)
				x.nan = x.exact == nil
				x.nidx = len(numbers)
				numbers = append(numbers, x)
			} else {
				x.numeric = false
				x.nan = strings.Contains(x.v.Inspect(), "NAN")
				others = append(others, x)
			}
		}
		all = append(append([]*val{}, numbers...), others...)
		for i, x := range all {
			x.idx = i
		}
	})
}

// ---------------------------------------------------------------------------------------------
// observations through the seam

type obs struct {
	ok    bool // a result (no error, no panic, a defined value)
	b     bool
	n     int  // <=> result
	isNil bool // <=> returned nil
	fail  string
}

func guard(f func() (value.Value, value.Value)) (v value.Value, fail string) {
	defer func() {
		if p := recover(); p != nil {
			msg := fmt.Sprint(p)
			if len(msg) > 100 {
				msg = msg[:100]
			}
			v, fail = value.Undefined, "go-panic "+engine.PanicSig(firstLine(msg), "")
		}
	}()
	r, err := f()
	if !err.IsUndefined() {
		if err.IsNil() {
			return value.Undefined, "no result"
		}
		return value.Undefined, "raises " + err.Class().Name
	}
	return r, ""
}

func boolObs(f func() (value.Value, value.Value)) obs {
	v, fail := guard(f)
	if fail != "" {
		return obs{fail: fail}
	}
	if v.IsUndefined() {
		return obs{fail: "no result"}
	}
	return obs{ok: true, b: value.Truthy(v)}
}

func opEq(a, b value.Value) obs {
	return boolObs(func() (value.Value, value.Value) { return vm.Equal(th, a, b) })
}
func opLax(a, b value.Value) obs {
	return boolObs(func() (value.Value, value.Value) { return vm.LaxEqual(th, a, b) })
}
func opLt(a, b value.Value) obs {
	return boolObs(func() (value.Value, value.Value) { return vm.LessThan(th, a, b) })
}
func opLe(a, b value.Value) obs {
	return boolObs(func() (value.Value, value.Value) { return vm.LessThanEqual(th, a, b) })
}
func opGt(a, b value.Value) obs {
	return boolObs(func() (value.Value, value.Value) { return vm.GreaterThan(th, a, b) })
}
func opGe(a, b value.Value) obs {
	return boolObs(func() (value.Value, value.Value) { return vm.GreaterThanEqual(th, a, b) })
}
func opCmp(a, b value.Value) obs {
	v, fail := guard(func() (value.Value, value.Value) {
		r, err := value.CompareVal(a, b)
		if r.IsUndefined() && err.IsUndefined() {
			return th.CallMethodByName(value.ToSymbol("<=>"), a, b)
		}
		return r, err
	})
	switch {
	case fail != "":
		return obs{fail: fail}
	case v.IsNil():
		return obs{ok: true, isNil: true}
	case v.IsSmallInt():
		return obs{ok: true, n: int(v.AsSmallInt())}
	}
	return obs{fail: "<=> returned " + v.Inspect()}
}

type hobs struct {
	ok   bool
	h    uint64
	fail string
}

func opHash(a value.Value) (o hobs) {
	defer func() {
		if p := recover(); p != nil {
			o = hobs{fail: "go-panic " + engine.PanicSig(firstLine(fmt.Sprint(p)), "")}
		}
	}()
	h, err := vm.Hash(th, a)
	if !err.IsUndefined() {
		return hobs{fail: "raises " + err.Class().Name}
	}
	return hobs{ok: true, h: uint64(h)}
}

// ---------------------------------------------------------------------------------------------
// numeric families (for signatures): comparisons of the same two families share their code

func family(class string) string {
	switch class {
	case "Int8", "Int16", "Int32", "Int64":
		return "IntN"
	case "UInt8", "UInt16", "UInt32", "UInt64", "UInt":
		return "UIntN"
	case "Float64", "Float32":
		return "FloatN"
	}
	return class
}

func famPair(a, b *val) string {
	x, y := family(a.class), family(b.class)
	if x > y {
		x, y = y, x
	}
	return x + "," + y
}

func kinds(vs ...*val) string {
	m := map[string]bool{}
	for _, v := range vs {
		m[v.class] = true
	}
	var ks []string
	for k := range m {
		ks = append(ks, k)
	}
	sort.Strings(ks)
	return strings.Join(ks, ",")
}

func famKinds(vs ...*val) string {
	m := map[string]bool{}
	for _, v := range vs {
		m[family(v.class)] = true
	}
	var ks []string
	for k := range m {
		ks = append(ks, k)
	}
	sort.Strings(ks)
	return strings.Join(ks, ",")
}

// identityHash: the value has no builtin hash and its class inherits `hash` from Std::Value (pointer identity).
func identityHash(v value.Value) bool {
	if _, err := value.Hash(v); err != value.Ref(value.NotBuiltinError) {
		return false
	}
	m := v.DirectClass().LookupMethod(value.ToSymbol("hash"))
	return m == nil || m == value.ValueClass.LookupMethod(value.ToSymbol("hash"))
}

func exactCmp(a, b *val) int { return a.exact.Cmp(b.exact) }

// pair tables over the numbers (computed once per worker)
type ptab struct {
	lt, le, gt, ge, lax [][]obs
	cmp                 [][]obs
}

var (
	tabOnce sync.Once
	tab     *ptab
)

func tables() *ptab {
	tabOnce.Do(func() {
		n := len(numbers)
		mk := func() [][]obs {
			m := make([][]obs, n)
			for i := range m {
				m[i] = make([]obs, n)
			}
			return m
		}
		tab = &ptab{mk(), mk(), mk(), mk(), mk(), mk()}
		for i, a := range numbers {
			for j, b := range numbers {
				tab.lt[i][j] = opLt(a.v, b.v)
				tab.le[i][j] = opLe(a.v, b.v)
				tab.gt[i][j] = opGt(a.v, b.v)
				tab.ge[i][j] = opGe(a.v, b.v)
				tab.lax[i][j] = opLax(a.v, b.v)
				tab.cmp[i][j] = opCmp(a.v, b.v)
			}
		}
	})
	return tab
}

// ---------------------------------------------------------------------------------------------

func main() {
	engine.Main(&engine.Spec{
		Prop:  "C18",
		Level: "exploration",
		Rule: "a fixed set of values of all built-in kinds (quick ~90 numbers + ~85 others, thorough ~170 + ~85), each constructed twice by evaluating its Elk expression (Go API for NaN/Inf BigFloats and invalid UTF-8 strings); " +
			"all ordered pairs (including each value with itself and with its independently constructed copy): == symmetric, reflexive unless NaN is involved, a == b implies vm.Hash(a) == vm.Hash(b); " +
			"all ordered pairs of non-NaN numbers: < <= > >= <=> =~ agree with each other and with the converse pair wherever both are defined (no error); " +
			"all ordered triples of non-NaN numbers: < , <= and =~ transitive; the same laws on VM-printed results for Int/Float/BigFloat pairs and same-kind fixed-width pairs with statically typed operands; " +
			"a pair/triple is non-trivial when it mixes kinds or representations (small/big Int), involves a signed zero/infinity, or compares values that differ by less than one unit in the last place of one operand",
		Assume: []string{"law violations are decided on the implementation's own answers; exact rational arithmetic (math/big, 4096 bits) is used only to name the inexact comparison in the signature",
			"an operator that raises an error for a pair of kinds (e.g. Int8 < Int) is undefined there and constrains nothing"},
		Setup: func(c *engine.Ctx) {
			elkrun.Init()
			th = vm.New()
			build(c.Thorough)
		},
		Run: run,
	})
}

func run(c *engine.Ctx) {
	c.Case("values", func(r *engine.R) {
		for _, s := range skipped {
			r.Note("value left out: " + s)
			r.Count("values_left_out", 1)
		}
		r.Count("numbers", len(numbers))
		r.Count("other_values", len(others))
		cl := map[string]bool{}
		for _, v := range all {
			cl[v.class] = true
			r.Outcome("kind " + v.class)
		}
		r.Count("distinct_classes", len(cl))
		r.Eval(len(all))
	})
	for _, a := range all {
		eqCase(c, a)
	}
	for i := range numbers {
		numPairCase(c, i)
	}
	for i := range numbers {
		tripleCase(c, i)
	}
	vmPass(c)
}

// eqCase: a against every value b (and b's copy): symmetry, reflexivity, == implies equal hash.
func eqCase(c *engine.Ctx, a *val) {
	c.Case(fmt.Sprintf("eq/%03d %s", a.idx, a.label), func(r *engine.R) {
		ha := opHash(a.v)
		check := func(b *val, bv value.Value, what string) {
			ab, ba := opEq(a.v, bv), opEq(bv, a.v)
			r.Eval(2)
			if a.class != b.class || a.idx == b.idx {
				r.NT(1)
			}
			kp := kinds(a, b)
			desc := fmt.Sprintf("a = %s (%s), b = %s (%s)%s", a.label, a.class, b.label, b.class, what)
			for _, o := range []obs{ab, ba} {
				if strings.HasPrefix(o.fail, "go-panic") {
					r.Violation(fmt.Sprintf("== %s kinds=%s", o.fail, kp), desc, desc)
				}
			}
			if !ab.ok || !ba.ok {
				r.Count("pairs_where_==_is_undefined", 1)
				r.Outcome("== undefined: " + ab.fail + ba.fail)
				return
			}
			if ab.b != ba.b {
				r.Violation("== not symmetric kinds="+kp, fmt.Sprintf("%s: a == b is %v but b == a is %v", desc, ab.b, ba.b), desc)
			}
			if ab.b {
				r.Outcome("equal")
				hb := opHash(bv)
				r.Eval(1)
				switch {
				case strings.HasPrefix(ha.fail, "go-panic"), strings.HasPrefix(hb.fail, "go-panic"):
					r.Violation(fmt.Sprintf("hash %s%s kinds=%s", ha.fail, hb.fail, kp), desc, desc)
				case !ha.ok || !hb.ok:
					r.Count("equal_pairs_without_hash", 1)
				case ha.h != hb.h:
					if identityHash(a.v) && identityHash(bv) {
						// one defect for every class that overrides == structurally but keeps Value#hash
						r.Count("structural_==_with_identity_hash: "+kp, 1)
						r.Violation("== without equal hash: == is structural but hash is the identity hash inherited from Value", fmt.Sprintf("%s: a == b but hash(a) = %#x, hash(b) = %#x (class %s defines no hash of its own; affected classes are listed in the evidence counters)", desc, ha.h, hb.h, a.class), desc)
					} else {
						r.Violation("== without equal hash kinds="+famKinds(a, b), fmt.Sprintf("%s: a == b but hash(a) = %#x, hash(b) = %#x", desc, ha.h, hb.h), desc)
					}
				default:
					r.Outcome("equal, same hash")
				}
			} else {
				r.Outcome("different")
			}
		}
		// reflexivity on the very same value
		self := opEq(a.v, a.v)
		r.Eval(1)
		switch {
		case strings.HasPrefix(self.fail, "go-panic"):
			r.Violation("== "+self.fail+" kinds="+a.class, "a == a with a = "+a.label, a.label)
		case !self.ok:
			r.Count("values_where_==_is_undefined", 1)
		case !self.b && !a.nan:
			r.Violation("== not reflexive kind="+a.class, fmt.Sprintf("a = %s (%s): a == a is false", a.label, a.class), a.label)
		case !self.b:
			r.Outcome("NaN: not equal to itself")
		}
		for _, b := range all {
			check(b, b.v, "")
			if b.idx == a.idx || a.class == b.class {
				check(b, b.copy, " [independently constructed copy of b]")
			}
		}
		r.Sample(fmt.Sprintf("%s == x, x == %s, hashes, for all %d values x", a.label, a.label, len(all)))
	})
}

func ulpClose(a, b *val) bool {
	if a.exact.IsInf() || b.exact.IsInf() {
		return true
	}
	d := bf().Sub(a.exact, b.exact)
	d.Abs(d)
	if d.Sign() == 0 {
		return true
	}
	m := bf().Abs(a.exact)
	if bf().Abs(b.exact).Cmp(m) > 0 {
		m = bf().Abs(b.exact)
	}
	// closer than 2^-52 relative: inside one float64 ulp
	lim := bf().SetMantExp(m, -52)
	return d.Cmp(lim) <= 0
}

func nontrivialPair(a, b *val) bool {
	if a.nan || b.nan {
		return true
	}
	return a.class != b.class || a.v.IsReference() != b.v.IsReference() || ulpClose(a, b)
}

// numPairCase: for the unordered pair {a, b}: the answers of < <= > >= <=> =~ on (a, b) and on (b, a) must all
// describe one and the same relation between a and b. When they do not, the answers that deviate from the relation
// most of them describe (ties broken by exact arithmetic) are named in the signature.
func numPairCase(c *engine.Ctx, i int) {
	a := numbers[i]
	c.Case(fmt.Sprintf("num-pairs/%03d %s", i, a.label), func(r *engine.R) {
		if a.nan {
			r.Outcome("NaN: outside the ordering laws")
			return
		}
		t := tables()
		for j := i; j < len(numbers); j++ {
			b := numbers[j]
			if b.nan {
				continue
			}
			r.Eval(12)
			if nontrivialPair(a, b) {
				r.NT(1)
			}
			desc := fmt.Sprintf("a = %s (%s), b = %s (%s)", a.label, a.class, b.label, b.class)
			fp := famPair(a, b)
			type ans struct {
				op  string
				rev bool // asked as (b, a)
				o   obs
			}
			answers := []ans{
				{"<", false, t.lt[i][j]}, {"<=", false, t.le[i][j]}, {">", false, t.gt[i][j]}, {">=", false, t.ge[i][j]}, {"=~", false, t.lax[i][j]}, {"<=>", false, t.cmp[i][j]},
				{"<", true, t.lt[j][i]}, {"<=", true, t.le[j][i]}, {">", true, t.gt[j][i]}, {">=", true, t.ge[j][i]}, {"=~", true, t.lax[j][i]}, {"<=>", true, t.cmp[j][i]},
			}
			defined := 0
			for _, x := range answers {
				if strings.HasPrefix(x.o.fail, "go-panic") {
					r.Violation(fmt.Sprintf("%s %s %s kinds=%s", opName[x.op], x.op, x.o.fail, fp), desc, desc)
				}
				if x.o.ok {
					defined++
				}
			}
			if defined == 0 {
				r.Outcome("no operator defined between these kinds")
				continue
			}
			// does answer x agree with "a rel b" (rel = -1, 0, 1)?
			agrees := func(x ans, rel int) bool {
				if x.rev {
					rel = -rel
				}
				switch x.op {
				case "<":
					return x.o.b == (rel < 0)
				case "<=":
					return x.o.b == (rel <= 0)
				case ">":
					return x.o.b == (rel > 0)
				case ">=":
					return x.o.b == (rel >= 0)
				case "=~":
					return x.o.b == (rel == 0)
				}
				return !x.o.isNil && x.o.n == rel
			}
			exact := exactCmp(a, b)
			best, bestScore := 0, -1
			for _, rel := range []int{exact, 0, -1, 1} { // exact first: it wins ties
				score := 0
				for _, x := range answers {
					if x.o.ok && agrees(x, rel) {
						score++
					}
				}
				if score > bestScore {
					best, bestScore = rel, score
				}
			}
			if bestScore == defined {
				r.Outcome(fmt.Sprintf("consistent: %d operators defined, relation %d", defined, best))
				continue
			}
			seen := map[string]bool{}
			var culprits, lines []string
			for _, x := range answers {
				if !x.o.ok {
					continue
				}
				got := fmt.Sprint(x.o.b)
				if x.op == "<=>" {
					got = fmt.Sprint(x.o.n)
					if x.o.isNil {
						got = "nil"
					}
				}
				expr := "a " + x.op + " b"
				if x.rev {
					expr = "b " + x.op + " a"
				}
				mark := ""
				if !agrees(x, best) {
					mark = "   <-- deviates"
					k := fmt.Sprintf("%s %s says %s", opName[x.op], x.op, got)
					if x.op == "<=>" {
						k = "cmp <=> deviates"
						if x.o.isNil {
							k = "cmp <=> is nil"
						}
					}
					if !seen[k] {
						seen[k] = true
						culprits = append(culprits, k)
					}
				}
				lines = append(lines, fmt.Sprintf("  %s = %s%s", expr, got, mark))
			}
			sort.Strings(culprits)
			rels := map[int]string{-1: "a < b", 0: "a equals b", 1: "a > b"}
			r.Violation(fmt.Sprintf("inconsistent: %s between %s", strings.Join(culprits, ", "), fp),
				fmt.Sprintf("%s: the operators do not describe one relation; most describe %q:\n%s\n%s", desc, rels[best], strings.Join(lines, "\n"), exactNote(a, b)), desc)
		}
		r.Sample(fmt.Sprintf("%s with every number b: a<b a<=b a>b a>=b a=~b a<=>b and the same on (b, a)", a.label))
	})
}

func exactNote(vs ...*val) string {
	var p []string
	for _, v := range vs {
		p = append(p, v.exact.Text('f', 3))
	}
	return " [exact values: " + strings.Join(p, ", ") + "]"
}

var opName = map[string]string{"<": "lt", "<=": "le", ">": "gt", ">=": "ge", "=~": "laxeq", "<=>": "cmp"}

// wrongAnswer: the (defined) answer of op for (a, b) deviates from exact arithmetic; how describes the deviation.
func wrongAnswer(op string, o obs, a, b *val) (bool, string) {
	if !o.ok {
		return false, ""
	}
	c := exactCmp(a, b)
	var want bool
	switch op {
	case "<":
		want = c < 0
	case "<=":
		want = c <= 0
	case ">":
		want = c > 0
	case ">=":
		want = c >= 0
	case "=~":
		want = c == 0
	case "<=>":
		if o.isNil {
			return true, "cmp <=> is nil"
		}
		return o.n != c, "cmp <=> deviates"
	}
	return o.b != want, fmt.Sprintf("%s %s says %v", opName[op], op, o.b)
}

// inexact names the first pair whose answer to op deviates from exact arithmetic.
func inexact(op string, answers []bool, pairs [][2]*val) string {
	for k, p := range pairs {
		if w, how := wrongAnswer(op, obs{ok: true, b: answers[k]}, p[0], p[1]); w {
			return how + " between " + famPair(p[0], p[1])
		}
	}
	return "no single inexact pair"
}

// tripleCase: transitivity of <, <= and =~ over all (b, c) for a fixed a.
func tripleCase(c *engine.Ctx, i int) {
	a := numbers[i]
	c.Case(fmt.Sprintf("num-triples/%03d %s", i, a.label), func(r *engine.R) {
		if a.nan {
			return
		}
		t := tables()
		for _, rel := range []struct {
			name string
			m    [][]obs
		}{{"<", t.lt}, {"<=", t.le}, {"=~", t.lax}} {
			for j, b := range numbers {
				if b.nan {
					continue
				}
				ab := rel.m[i][j]
				for k, cc := range numbers {
					if cc.nan {
						continue
					}
					r.Eval(1)
					bc, ac := rel.m[j][k], rel.m[i][k]
					if !ab.ok || !bc.ok || !ac.ok {
						r.Count("triples_with_an_undefined_comparison", 1)
						continue
					}
					mixed := a.class != b.class || b.class != cc.class
					if mixed && ab.b && bc.b {
						r.NT(1)
					}
					if ab.b && bc.b {
						if ac.b {
							r.Outcome(rel.name + " chain holds")
							continue
						}
						culprit := inexact(rel.name, []bool{true, true, false}, [][2]*val{{a, b}, {b, cc}, {a, cc}})
						desc := fmt.Sprintf("a = %s (%s), b = %s (%s), c = %s (%s)", a.label, a.class, b.label, b.class, cc.label, cc.class)
						r.Violation("inconsistent: "+culprit,
							fmt.Sprintf("%s: violated law: %s transitive: a %s b and b %s c hold but a %s c is false%s", desc, rel.name, rel.name, rel.name, rel.name, exactNote(a, b, cc)), desc)
					} else {
						r.Outcome(rel.name + " premise false")
					}
				}
			}
		}
		r.Sample(fmt.Sprintf("a = %s with all (b, c) of the %d numbers: a<b<c, a<=b<=c, a=~b=~c", a.label, len(numbers)))
	})
}

// ---------------------------------------------------------------------------------------------
// VM pass: the same laws on the results the VM prints for statically typed operands.

var vmKinds = []string{"Int", "Float", "BigFloat"}

func elkSrc(v *val) (string, bool) {
	if strings.HasPrefix(v.label, "BigFloat ") {
		return "", false
	}
	return "(" + v.label + ")", true
}

type vmRow struct {
	ok                      bool
	lt, le, gt, ge, lax, eq bool
	cmp                     string
	hashEq                  bool
}

func vmPass(c *engine.Ctx) {
	// groups of statically typed pairs: the coercible kinds among each other, and each fixed-width kind with itself
	type group struct{ ka, kb string }
	var groups []group
	for _, a := range vmKinds {
		for _, b := range vmKinds {
			groups = append(groups, group{a, b})
		}
	}
	for _, k := range []string{"Float64", "Float32", "Int8", "Int16", "Int32", "Int64", "UInt8", "UInt16", "UInt32", "UInt64", "UInt"} {
		groups = append(groups, group{k, k})
	}
	for _, g := range groups {
		g := g
		var as, bs []*val
		for _, v := range numbers {
			if _, ok := elkSrc(v); !ok {
				continue
			}
			if v.class == g.ka {
				as = append(as, v)
			}
			if v.class == g.kb {
				bs = append(bs, v)
			}
		}
		sfx := strings.ToLower(g.ka + "_" + g.kb)
		// ordering + =~ in one function, == and hash in another (a crash of one must not hide the other)
		c.Case(fmt.Sprintf("vm/order/%s,%s", g.ka, g.kb), func(r *engine.R) {
			pre := elkrun.ShowPrelude + valPrelude + fmt.Sprintf(`def ord_%s(a: %s, b: %s): String
  lt := a < b
  le := a <= b
  gt := a > b
  ge := a >= b
  lx := a =~ b
  c := a <=> b
  lt.inspect + " " + le.inspect + " " + gt.inspect + " " + ge.inspect + " " + lx.inspect + " " + show(c)
end
`, sfx, g.ka, g.kb)
			var items []elkrun.Item
			var ab [][2]*val
			for _, a := range as {
				for _, b := range bs {
					sa, _ := elkSrc(a)
					sb, _ := elkSrc(b)
					items = append(items, elkrun.Item{Code: fmt.Sprintf("println(ord_%s(%s, %s))", sfx, sa, sb)})
					ab = append(ab, [2]*val{a, b})
				}
			}
			res := elkrun.Batch(pre, items, nil)
			fp := family(g.ka) + "," + family(g.kb)
			for i, ir := range res {
				a, b := ab[i][0], ab[i][1]
				r.Eval(1)
				desc := pre + items[i].Code
				switch {
				case ir.Panic != "":
					r.Violation(fmt.Sprintf("vm ordering go-panic %s kinds=%s", ir.Panic, fp), desc+"\n"+ir.Stack, desc)
					continue
				case ir.Rejected:
					r.Count("vm_pairs_rejected_by_checker", 1)
					r.Outcome("vm: kinds not comparable statically")
					r.Note("rejected: " + items[i].Code + ": " + firstLine(ir.Diags))
					continue
				case ir.Err != "":
					r.Count("vm_pairs_raising", 1)
					r.Outcome("vm raises " + ir.ErrClass)
					continue
				}
				if a.nan || b.nan {
					r.Outcome("vm NaN pair")
					continue
				}
				f := strings.Fields(strings.TrimSpace(ir.Out))
				if len(f) != 6 {
					r.Note("unparsable VM output: " + ir.Out)
					continue
				}
				if nontrivialPair(a, b) {
					r.NT(1)
				}
				lt, le, gt, ge, lx, cs := f[0] == "true", f[1] == "true", f[2] == "true", f[3] == "true", f[4] == "true", f[5]
				// compare with the answers of the runtime helpers for the same pair: a law broken identically at both
				// levels is reported by num-pairs; here only what the compiled code adds
				t := tables()
				var differs []string
				for _, x := range []struct {
					op string
					vm bool
					g  obs
				}{{"<", lt, t.lt[a.nidx][b.nidx]}, {"<=", le, t.le[a.nidx][b.nidx]}, {">", gt, t.gt[a.nidx][b.nidx]}, {">=", ge, t.ge[a.nidx][b.nidx]}, {"=~", lx, t.lax[a.nidx][b.nidx]}} {
					if x.g.ok && x.g.b != x.vm {
						differs = append(differs, x.op)
					}
				}
				if g := t.cmp[a.nidx][b.nidx]; g.ok && !g.isNil && fmt.Sprint(g.n) != cs {
					differs = append(differs, "<=>")
				}
				viol := func(law, detail string) {
					if len(differs) == 0 {
						r.Count("vm_law_violations_identical_to_go_level", 1)
						return
					}
					for _, op := range differs {
						r.Violation(fmt.Sprintf("vm %s %s inconsistent for a statically typed %s left operand (differs from the runtime helpers)", opName[op], op, g.ka),
							fmt.Sprintf("%s\nprinted (a<b a<=b a>b a>=b a=~b a<=>b): %s\nviolated law: %s %s%s", desc, strings.TrimSpace(ir.Out), law, detail, exactNote(a, b)), desc)
					}
				}
				var n int
				switch cs {
				case "-1":
					n = -1
				case "0":
					n = 0
				case "1":
					n = 1
				default:
					viol("<=> nil for non-NaN numbers", "a <=> b printed "+cs)
					continue
				}
				r.Outcome("vm <=> " + cs)
				if lt != (n < 0) {
					viol("< vs <=>", "")
				}
				if le != (n <= 0) {
					viol("<= vs <=>", "")
				}
				if gt != (n > 0) {
					viol("> vs <=>", "")
				}
				if ge != (n >= 0) {
					viol(">= vs <=>", "")
				}
				if lx != (n == 0) {
					viol("=~ vs <=>", "")
				}
			}
			if len(items) > 0 {
				r.Sample(pre + items[len(items)-1].Code)
			}
		})
		c.Case(fmt.Sprintf("vm/eqhash/%s,%s", g.ka, g.kb), func(r *engine.R) {
			pre := valPrelude + fmt.Sprintf(`def eqh_%s(a: %s, b: %s): String
  e1 := a == b
  e2 := b.==(a)
  h := a.hash == b.hash
  e1.inspect + " " + e2.inspect + " " + h.inspect
end
`, sfx, g.ka, g.kb)
			var items []elkrun.Item
			var ab [][2]*val
			for _, a := range as {
				for _, b := range bs {
					sa, _ := elkSrc(a)
					sb, _ := elkSrc(b)
					items = append(items, elkrun.Item{Code: fmt.Sprintf("println(eqh_%s(%s, %s))", sfx, sa, sb)})
					ab = append(ab, [2]*val{a, b})
				}
			}
			res := elkrun.Batch(pre, items, nil)
			fp := family(g.ka) + "," + family(g.kb)
			for i, ir := range res {
				a, b := ab[i][0], ab[i][1]
				r.Eval(1)
				desc := pre + items[i].Code
				switch {
				case ir.Panic != "":
					r.Violation(fmt.Sprintf("vm == go-panic %s kinds=%s", ir.Panic, fp), desc+"\n"+ir.Stack, desc)
					continue
				case ir.Rejected:
					r.Count("vm_pairs_rejected_by_checker", 1)
					r.Note("rejected: " + items[i].Code + ": " + firstLine(ir.Diags))
					continue
				case ir.Err != "":
					r.Count("vm_pairs_raising", 1)
					continue
				}
				f := strings.Fields(strings.TrimSpace(ir.Out))
				if len(f) != 3 {
					r.Note("unparsable VM output: " + ir.Out)
					continue
				}
				if nontrivialPair(a, b) {
					r.NT(1)
				}
				e1, e2, h := f[0] == "true", f[1] == "true", f[2] == "true"
				// the same observation through the runtime helpers
				g1, g2 := opEq(a.v, b.v), opEq(b.v, a.v)
				ha, hb := opHash(a.v), opHash(b.v)
				same := g1.ok && g2.ok && ha.ok && hb.ok && g1.b == e1 && g2.b == e2 && (ha.h == hb.h) == h
				report := func(sig, detail string) {
					if same {
						r.Count("vm_law_violations_identical_to_go_level", 1)
						return
					}
					r.Violation(sig, detail, desc)
				}
				if e1 != e2 {
					report("vm == not symmetric kinds="+fp, fmt.Sprintf("%s\nprinted (a==b b==a hash-equal): %s", desc, ir.Out))
				}
				if e1 && !h {
					report("vm == without equal hash kinds="+fp, fmt.Sprintf("%s\nprinted (a==b b==a hash-equal): %s", desc, ir.Out))
				}
				if a.idx == b.idx && !a.nan && !e1 {
					report("vm == not reflexive kind="+g.ka, fmt.Sprintf("%s\nprinted: %s", desc, ir.Out))
				}
				r.Outcome(fmt.Sprintf("vm eq=%v hash-equal=%v", e1, h))
			}
		})
	}
}
