package main

import "verifharness/engine"

const spaceRule = "TODO"

func enumerate(c *engine.Ctx) {}
