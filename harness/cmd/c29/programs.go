package main

// The program space.
//
//  1. template grammar: ~50 constructs, each with one hole; every ordered pair outer[inner[n]] (and every
//     construct alone) is placed in a method body (quick) and additionally in every execution context
//     (thorough): top level, closure, generator, async function, initialiser, setter, class body.
//  2. the body/wrapper family of C15 and the binding/context/use family of C01 (tables copied: those checks are
//     `package main`), the control-flow chains (construct chain x exit statement), closure terms and
//     short-circuit expressions of package mini (the spaces of C14 and C13).
//
// The observable of a program does not matter here (no semantic oracle): what is checked is the bytecode of
// every function it compiles to, and that the VM's operand stack behaves as the model says while it runs.

import (
	"fmt"
	"os"
	"strings"

	"verifharness/elkrun"
	"verifharness/engine"
	"verifharness/mini"
)

const spaceRule = "(1) every construct and every ordered pair outer[inner] of a template grammar of constructs (locals, arithmetic/bitwise/comparison operators incl. Float/BigInt/fixed-width, if/unless/ternary-modifier, while/until/loop/for-in/fornum as statements and as values, labelled break/continue with values, " +
	"return, throw/do-catch-finally (with patterns and stack-trace variable), defer, switch with literal/range/list/tuple/map/record/object/binding/alternative patterns, closures with upvalues, string/symbol/regex interpolation, list/tuple/map/record/set/range literals incl. nested and splats of dynamic elements, " +
	"&&/||/??, must/try/as, compound assignment incl. ||= &&= ??= and subscript/ivar targets, classes with attrs/init/getters/setters/methods/singleton/mixins/structs, modules, constants, macros with quote/unquote, select, go, generators, async/await, tail calls, optional/rest/named arguments) " +
	"in a method body (thorough: and in 7 more execution contexts); (1c) every construct directly followed by a final expression compiled only through the value-pool emitters, with a pre-filled pool; (2) the C15 body x wrapper family, the C01 binding x context x use family, mini's control-flow chains of depth <= 2 with every exit statement (thorough: depth <= 3 on the core variants), closure terms up to 5 (thorough 6) statements and short-circuit expressions with <= 2 operators"

// ------------------------------------------------------------------------------------------------ templates

// block: statements followed by a single-line Int expression; defs are top-level definitions it needs.
type block struct {
	defs string
	pre  []string
	val  string
}

func leafBlock() block { return block{val: "n"} }

func ind(ls []string) []string {
	out := make([]string, len(ls))
	for i, l := range ls {
		out[i] = "  " + strings.ReplaceAll(l, "\n", "\n  ")
	}
	return out
}

// stmts: the hole as statements ending with `v = <value>` (v must be a declared var).
func asStmts(h block, v string) []string {
	return append(append([]string{}, h.pre...), v+" = "+h.val)
}

// doExpr: the hole as one expression (a do block), usable as an operand while other operands are on the stack.
func doExpr(h block) string {
	if len(h.pre) == 0 {
		return "(" + h.val + ")"
	}
	return "do\n" + strings.Join(ind(append(append([]string{}, h.pre...), h.val)), "\n") + "\nend"
}

func lines(s string) []string { return strings.Split(strings.TrimRight(s, "\n"), "\n") }

// sub replaces @ by the suffix, %S by the hole as statements assigning to h@, %E by the hole as an expression.
func tmpl(t string, s string, h block) []string {
	t = strings.ReplaceAll(t, "@", s)
	t = strings.ReplaceAll(t, "%I", "@")
	var out []string
	for _, l := range lines(t) {
		trim := strings.TrimLeft(l, " ")
		pad := l[:len(l)-len(trim)]
		if trim == "%S" {
			for _, x := range asStmts(h, "h"+s) {
				out = append(out, pad+strings.ReplaceAll(x, "\n", "\n"+pad))
			}
			continue
		}
		if strings.Contains(l, "%E") {
			l = strings.ReplaceAll(l, "%E", strings.ReplaceAll(doExpr(h), "\n", "\n"+pad))
		}
		out = append(out, l)
	}
	return out
}

type construct struct {
	name string
	defs string // top-level definitions, @ = suffix, %S/%E allowed (then the hole lives inside the definition)
	body string // statements in the function, last line = the value expression
	// features
	async    bool // needs a thread pool when run
	leafOnly bool // never used as the inner construct of a pair (its finding would take the shape of the enclosing expression)
}

func (c construct) build(s string, h block) block {
	b := block{defs: h.defs}
	holeInDefs := strings.Contains(c.defs, "%S") || strings.Contains(c.defs, "%E")
	if c.defs != "" {
		b.defs += strings.Join(tmpl(c.defs, s, h), "\n") + "\n"
	}
	body := tmpl(c.body, s, h)
	if holeInDefs {
		// the hole's own definitions must precede ours: already in h.defs (prepended above)
	}
	b.pre = body[:len(body)-1]
	b.val = body[len(body)-1]
	return b
}

const preludeDefs = `using Std::Sync::WaitGroup
using Std::Elk::AST::*
def leaf29(x: Int): Int then x + 1
def thr29(x: Int): Int ! :boom
  throw :boom if x > 0
  x
end
def any29(x: any): any then x
`

var constructs = []construct{
	{name: "locals", body: `var h@: Int = 0
a@ := n + 1
var b@: Int = a@ * 2
val c@ = b@ - 1
%S
var d@: Int? = nil
d@ = h@
a@ + c@ + h@`},
	{name: "arith-operand", body: `r@ := (n * 3 - 1) % 7 + %E * 2 - (n / 1)
r@`},
	{name: "bitwise-compare", body: `var h@: Int = 0
%S
b@ := (h@ << 2) + (h@ >> 1) + (h@ & 3) + (h@ | 4) + (h@ ^ 1) + (~h@) + (-h@) + (+h@) + (h@ ** 2)
c@ := 0
c@ += 1 if h@ == 2 && h@ != 3 || h@ === 2 || h@ =~ 2.0
c@ += 1 if !(h@ < 1) && h@ <= 2 && h@ >= 2 && h@ > 1
c@ += (h@ <=> 3).to_int
b@ + c@`},
	{name: "float-bigint-fixed", body: `var h@: Int = 0
%S
f@ := 1.5 * 2.0 - 0.5 / 2.0 + h@.to_float ** 2.0
g@ := -f@ % 3.0
bi@ := 100000000000000000000 + h@
i8@ := 3i8 + 2i8 * 2i8
u64@ := 3u64 * 2u64 - 1u64
fl@ := 2.5f32 + 1.0f32
c@ := 0
c@ += 1 if f@ > g@ || f@ <= 1.0 || f@ == g@ || f@ != 2.0
c@ += 1 if i8@ < 9i8 && u64@ >= 5u64
f@.to_int + (bi@ % 7).to_int + c@`},
	{name: "if-else", body: `var h@: Int = 0
r@ := if n > 1
  %S
  h@ + 1
else if n > 0
  2
else
  3
end
r@`},
	{name: "unless-modifiers", body: `var h@: Int = 0
unless n > 100
  %S
else
  h@ = 5
end
h@ += 1 if n > 0
h@ -= 1 unless n > 0
t@ := if n > 1 then h@ else 0
t@`},
	{name: "while", body: `var h@: Int = 0
i@ := 0
s@ := 0
while i@ < 2
  %S
  s@ += h@
  i@ += 1
end
s@`},
	{name: "until-value", body: `var h@: Int = 0
i@ := 0
u@ := until i@ >= 2
  %S
  i@ += 1
  h@
end
(u@ ?? 0) + i@`},
	{name: "loop-break-value", body: `var h@: Int = 0
i@ := 0
r@ := loop
  i@ += 1
  %S
  break h@ * 10 if i@ > 1
end
r@`},
	{name: "for-in-range", body: `var h@: Int = 0
s@ := 0
for x@ in 1...2
  %S
  s@ += h@ + x@
end
s@`},
	{name: "for-in-list", body: `var h@: Int = 0
s@ := 0
for x@ in [n, 2, 3]
  continue if x@ == 2
  %S
  s@ += h@ + x@
  break if x@ > 2
end
s@`},
	{name: "for-in-pattern", body: `var h@: Int = 0
s@ := 0
for %[a@, b@] in [%[1, n], %[3, 4]]
  %S
  s@ += h@ + a@ + b@
end
s@`},
	{name: "fornum", body: `var h@: Int = 0
s@ := 0
fornum i@ := 0; i@ < 2; i@ += 1
  %S
  s@ += h@ + i@
end
s@`},
	{name: "labelled-break-continue", body: `var h@: Int = 0
i@ := 0
r@ := $l@: loop
  i@ += 1
  j@ := 0
  while j@ < 3
    j@ += 1
    continue[$l@] if i@ < 2
    %S
    break[$l@] h@ + j@ if j@ > 1
  end
end
r@`},
	{name: "while-value-continue-value", body: `var h@: Int = 0
i@ := 0
w@ := while i@ < 3
  i@ += 1
  continue 5 if i@ == 1
  %S
  h@
end
(w@ ?? 0)`},
	{name: "logical-statement", body: `var h@: Int = 0
n > 1 && leaf29(n)
n > 5 || leaf29(n)
var q@: Int? = n
q@ ?? leaf29(n)
i@ := 0
while i@ < 3
  i@ += 1
  n > 1 && leaf29(i@)
  %S
end
h@`},
	{name: "modifier-return-then-call", body: `var h@: Int = 0
%S
return h@ if n > 200
leaf29(h@)`},
	{name: "early-return", body: `var h@: Int = 0
if n > 100
  return 7
end
%S
return h@ if n > 200
h@`},
	{name: "do-catch", body: `var h@: Int = 0
r@ := do
  %S
  1 + thr29(h@ - 100) + (2 + thr29(n))
catch :boom
  h@ + 1
end
r@`},
	{name: "do-catch-in-catch", body: `var h@: Int = 0
r@ := do
  throw :boom if n > 0
  1
catch :boom
  %S
  h@
end
r@`},
	// the hole is in front of the do: a local that a closure of the hole captures must not live in a scope that a
	// throw leaves (the slot is reused by st@/e@ while the upvalue is still open: a defect of the closure
	// machinery that panics on the thread that runs the closure, not a property of the bytecode's structure)
	{name: "do-catch-patterns-stacktrace", body: `var h@: Int = 0
%S
r@ := do
  throw unchecked "s" if n > 100
  throw unchecked 5 if h@ > 100
  throw :boom if n > 0
  1
catch ::Std::String() as e@
  e@.length
catch 5
  5
catch :boom, st@
  h@ + 2
catch e@
  3
end
r@`},
	{name: "do-catch-finally", body: `var h@: Int = 0
f@ := 0
r@ := do
  %S
  1 + thr29(n)
catch :boom
  h@ + 1
finally
  f@ += 1
end
r@ + f@`},
	{name: "do-finally-in-finally", body: `var h@: Int = 0
f@ := 0
r@ := do
  n + 1
finally
  %S
  f@ += h@
end
r@ + f@`},
	{name: "do-finally-uncaught", body: `var h@: Int = 0
f@ := 0
r@ := do
  do
    %S
    throw :boom if n > 0
    h@
  finally
    f@ += 1
  end
catch :boom
  f@ + 10
end
r@`},
	{name: "loop-finally-break", body: `var h@: Int = 0
i@ := 0
f@ := 0
r@ := loop
  i@ += 1
  do
    %S
    continue if i@ < 2
    break h@ if i@ > 1
  finally
    f@ += 1
  end
end
r@ + f@`},
	{name: "nested-finally-labelled-break", body: `var h@: Int = 0
f@ := 0
r@ := $o@: loop
  do
    while true
      do
        %S
        break[$o@] h@ + 1
      finally
        f@ += 1
      end
    end
  finally
    f@ += 10
  end
end
r@ + f@`},
	{name: "finally-return", body: `var h@: Int = 0
f@ := 0
do
  %S
  return h@ if n > 100
catch e@
  return 5 if n > 200
finally
  f@ += 1
end
h@ + f@`},
	{name: "defer", body: `var h@: Int = 0
d@ := 0
defer d@ += 1
defer do
  %S
  d@ += h@
end
n + d@`},
	{name: "switch-literals", body: `var h@: Int = 0
r@ := switch n
case 0 then 10
case 1 || 3 then 11
case < 0 then 12
case 5...9 then 13
case 2
  %S
  h@ + 14
else 15
end
r@`},
	{name: "switch-collections", body: `var h@: Int = 0
v@ := any29([1, n, 3])
r@ := switch v@
case [] then 0
case [1, 5, *] then 1
case [1, *m@, 3]
  %S
  h@ + m@.length
case %[a@, b@] then 3
case { 1 => x@ } then 4
case %{ k: y@ } then 5
case ^[1, 2] then 6
else 7
end
r@`},
	{name: "switch-objects-bindings", body: `var h@: Int = 0
v@ := any29("str")
r@ := switch v@
case nil then 0
case :sym then 1
case ::Std::ArrayList(length: > 1 as l@) then 2
case ::Std::Int() as i@ then 3
case ::Std::String(length: 3) as s@
  %S
  h@ + s@.length
case 1.5 || "x" then 5
else 6
end
r@`},
	{name: "switch-no-else", body: `var h@: Int = 0
var b@: bool = n > 1
r@ := switch b@
case true
  %S
  h@
case false then 2
end
(r@ ?? 0)`},
	{name: "closure-upvalue", body: `var h@: Int = 0
k@ := n + 1
f@ := |x@: Int|: Int ->
  %S
  k@ += 1
  x@ + h@ + k@
end
g@ := || -> k@ + 1
l@ := ~> k@ + 2
f@.(1) + f@.call(2) + g@.() + l@.()`},
	{name: "closure-nested", body: `var h@: Int = 0
k@ := n
mk@ := |a@: Int|: ||: Int ->
  j@ := a@ + k@
  ||: Int ->
    %S
    j@ += 1
    k@ += 1
    h@ + j@ + k@
  end
end
c@ := mk@.(1)
c@.() + c@.()`},
	{name: "string-interpolation", body: `s@ := "a#{n}b${%E}c"
t@ := "x" + s@ + 'raw'
t@.length`},
	{name: "symbol-char-regex", body: `var h@: Int = 0
%S
y@ := :"s${h@}y"
c@ := ` + "`c`" + `
re@ := %/a${h@}b+/i
r@ := 0
r@ += 1 if re@.matches("a2bb")
y@.to_string.length + c@.to_string.length + r@`},
	{name: "symbol-inspect-interpolation", leafOnly: true, body: `var h@: Int = 0
%S
y@ := :"s#{h@}y"
y@.to_string.length`},
	{name: "list-tuple-literals", body: `l@ := [1, %E, [n, [2]], *[3, n]]
t@ := %[n, %[1, 2], %E]
w@ := %w[a b]
l@.length + t@.length + w@.length`},
	{name: "map-record-set-range-literals", body: `m@ := { 1 => n, n + 1 => { 2 => %E } }
rc@ := %{ "a" => n, 2 => %E }
st@ := ^[1, n, %E]
rg@ := n...(n + %E)
ro@ := n<.<9
rb@ := ...n
re@ := n...
cl@ := [n, 2]:4
m@.length + st@.length`},
	{name: "logical-and-or-nilcoalesce", body: `var q@: Int? = nil
q@ = n if n > 100
a@ := q@ ?? %E
var b@: Int? = q@ && %E
c@ := b@ || a@
d@ := (n > 1 && n < 5) || n == 9
r@ := if d@ then c@ else a@
r@`},
	{name: "must-try-as", body: `var h@: Int = 0
var q@: Int? = n
%S
m@ := (must q@) + h@
a@ := any29(h@) as ::Std::Int
ch@ := Channel::[Int](1)
ch@ << m@
t@ := try ch@.pop
r@ := 0
r@ += 1 if any29(h@) <: ::Std::Int
r@ += 1 if a@ <<: ::Std::Int
m@ + a@ + t@ + r@`},
	{name: "compound-assignment", body: `var x@: Int = 0
x@ = %E
x@ += 1
x@ -= 1
x@ *= 2
x@ /= 2
x@ %= 50
x@ **= 2
x@ <<= 1
x@ >>= 1
x@ &= 255
x@ |= 8
x@ ^= 1
x@++
x@--
var q@: Int? = nil
q@ ??= x@
q@ ||= 5
q@ &&= 6
l@ := [1, 2, 3]
l@[0] = x@
l@[1] += 2
l@[2] ||= 4
hm@ := { "a" => 1 }
hm@["b"] = x@
x@ + (q@ ?? 0) + l@[0] + l@[1] + hm@.length`},
	{name: "class-attrs-init-methods", defs: `class Foo@
  attr a: Int
  getter g: Int
  setter s: Int
  init(%Ia: Int, %Ig: Int = 3)
    %Is = 0
  end
  def incr(n: Int): Int
    var h@: Int = 0
    %S
    %Ia += h@
    %Ia
  end
  def both: Int then %Ia + self.g + %Is
  singleton
    def mk(v: Int): Foo@ then Foo@(v)
  end
end
`, body: `o@ := Foo@(n)
o@.incr(2)
o@.a = 7
o@.s = 2
p@ := Foo@.mk(3)
o@.a + p@.g + o@.both`},
	{name: "class-init-body", defs: `class Ini@
  attr v: Int
  init(n: Int, %Iw: Int = 1)
    var h@: Int = 0
    %S
    %Iv = h@
  end
end
`, body: `Ini@(n).v`},
	{name: "class-setter-body", defs: `class Set@
  attr v: Int
  init
    %Iv = 0
  end
  def w=(n: Int)
    var h@: Int = 0
    %S
    %Iv = h@
  end
end
`, body: `o@ := Set@()
o@.w = n
o@.v`},
	{name: "singleton-method-constants", defs: `module Md@
  const Z = 7
  def k(n: Int): Int
    var h@: Int = 0
    %S
    h@ * Z
  end
end
const K@ = 5
`, body: `Md@.k(n) + K@ + Md@::Z`},
	{name: "mixin-struct-interface", defs: `mixin Mx@
  def mx(n: Int): Int
    var h@: Int = 0
    %S
    h@ + 100
  end
end
interface Sh@
  def area: Int; end
end
struct Pt@
  x: Int
  y: Int = 2
end
class Sq@
  include Mx@
  implement Sh@
  attr side: Int
  init(%Iside: Int); end
  def area: Int then %Iside * %Iside
end
`, body: `q@ := Sq@(3)
p@ := Pt@(1)
q@.mx(n) + q@.area + p@.x + p@.y`},
	{name: "macro-quote-unquote", defs: `macro mq@(x: IntLiteralNode)
  quote
    y := 1 + !{x}
    y * 2
  end
end
`, body: `var h@: Int = 0
%S
r@ := mq@!(3) + h@
r@`},
	{name: "select", body: `var h@: Int = 0
ch@ := Channel::[Int](2)
ch@ << n
c2@ := Channel::[Int](2)
r@ := select
case w@ := <<ch@
  %S
  h@ + w@.unwrap
case c2@ << 6
  60
end
r@`},
	{name: "go-waitgroup", body: `var h@: Int = 0
%S
wg@ := WaitGroup(1)
rs@ := Channel::[Int](1)
hv@ := h@
go
  rs@ << hv@ + 1
  wg@.end
end
wg@.wait
try rs@.pop`},
	{name: "generator-method", defs: `def *gen@(n: Int): Int
  var h@: Int = 0
  i@ := 0
  while i@ < 2
    %S
    yield h@ + i@
    i@ += 1
  end
  do
    yield 50
  finally
    i@ += 1
  end
  99
end
`, body: `s@ := 0
for v@ in gen@(n)
  s@ += v@
end
s@`},
	{name: "async-await", async: true, defs: `async def a1@(n: Int): Int
  var h@: Int = 0
  %S
  h@ + 1
end
async def a2@(n: Int): Int
  v@ := await a1@(n)
  w@ := 1 + (await a1@(v@))
  v@ + w@
end
`, body: `a2@(n).await_sync`},
	{name: "tail-call-optional-rest-named", defs: `def opt@(a: Int, b: Int = 2, c: Int = 9): Int then a + b + c
def rst@(a: Int, *rest: Int): Int then a + rest.length
def tail@(n: Int): Int
  var h@: Int = 0
  %S
  leaf29(h@)
end
def rec@(n: Int, acc: Int): Int
  return acc if n <= 0
  rec@(n - 1, acc + n)
end
`, body: `tail@(n) + rec@(3, 0) + opt@(1) + opt@(1, c: 5) + opt@(1, 2, 3) + rst@(1) + rst@(1, 2, 3)`},
	{name: "call-args-operand", body: `r@ := leaf29(leaf29(n) + leaf29(%E)) + [1, 2].length + "ab".length
r@`},
	{name: "generic-operators", body: `var da@: Int | Float = n
var db@: Int | Float = %E
r@ := da@ + db@ - da@ * db@ / (db@ + 1) % 5
p@ := da@ ** 2
ng@ := -da@
c@ := 0
c@ += 1 if da@ < db@ || da@ <= db@ || da@ > db@ || da@ >= db@ || da@ == db@ || da@ != db@
k@ := 0
while da@ < db@
  k@ += 1
  break if k@ > 2
end
until da@ >= db@
  k@ += 1
  break if k@ > 4
end
c@ += 1 if n !== 3
c@ += 1 if n !~ 3.0
var dx@: Int | Int64 = n
dx@++
dx@--
c@ + k@ + r@.to_int`},
	{name: "typed-literals-safe-navigation", body: `var h@: Int = 0
%S
a64@ := 5i64 + 1i64
a32@ := 5i32 - 1i32
a16@ := 5i16 * 2i16
au8@ := 5u8 + 1u8
au16@ := 5u16 + 1u16
au32@ := 5u32 + 1u32
au64@ := 5u64 / 1u64
c@ := ((5i64 <<< 1) + (5i64 >>> 1)).to_int
f0@ := 0.0 + 1.0 + 2.0 + h@.to_float
c@ += 1 if f0@ < 2.5 && f0@ == 3.0 || f0@ >= 1.0
var q@: String? = nil
q@ = "x" if h@ > 100
ln@ := q@?.length
c@ += 1 if q@ == nil
c@ + a64@.to_int + (ln@ ?? 0)`},
	{name: "splat-literals", body: `m@ := { 1 => 2 }
m2@ := { **m@, n => %E }
l@ := [1, 2]
l2@ := [*l@, %E, 5 => 9]
t2@ := %[*l@, n]
s2@ := ^[*l@, n]
l2@.length + m2@.length + t2@.length + s2@.length`},
	{name: "box", body: `var h@: Int = 0
%S
bx@ := &h@
h@ + 1`},
}

// ------------------------------------------------------------------------------------------------ contexts

var contexts = []string{"method", "top", "closure", "generator", "async", "init", "setter", "class-body"}

// wrap builds the whole program for the composed block in an execution context.
func wrap(ctx string, b block) (src string, pool bool) {
	var s strings.Builder
	s.WriteString(preludeDefs)
	s.WriteString(b.defs)
	body := strings.Join(ind(b.pre), "\n") + "\n"
	switch ctx {
	case "method":
		fmt.Fprintf(&s, "def m29(n: Int): Int\n%s  %s\nend\nprintln(m29(2))\n", body, b.val)
	case "top":
		// the value is bound first: a logical expression inside a call argument crashes the checker (C03's finding)
		fmt.Fprintf(&s, "n := 2\n%s\nv29 := %s\nprintln(v29)\n", strings.Join(b.pre, "\n"), b.val)
	case "closure":
		fmt.Fprintf(&s, "c29 := |n: Int|: Int ->\n%s  %s\nend\nprintln(c29.(2))\n", body, b.val)
	case "generator":
		fmt.Fprintf(&s, "def *g29(n: Int): Int\n%s  v29 := %s\n  yield v29\n  0\nend\nfor v29 in g29(2)\n  println(v29)\nend\n", body, b.val)
	case "async":
		fmt.Fprintf(&s, "async def a29(n: Int): Int\n%s  %s\nend\nprintln(a29(2).await_sync)\n", body, b.val)
		pool = true
	case "init":
		fmt.Fprintf(&s, "class W29\n  attr v: Int\n  init(n: Int)\n  %s    @v = %s\n  end\nend\nprintln(W29(2).v)\n", strings.ReplaceAll(body, "\n", "\n  "), b.val)
	case "setter":
		fmt.Fprintf(&s, "class W29\n  attr v: Int\n  init\n    @v = 0\n  end\n  def w=(n: Int)\n  %s    @v = %s\n  end\nend\no29 := W29()\no29.w = 2\nprintln(o29.v)\n", strings.ReplaceAll(body, "\n", "\n  "), b.val)
	case "class-body":
		fmt.Fprintf(&s, "class W29\n  n := 2\n%s  v29 := %s\n  println(v29)\nend\n", body, b.val)
	}
	return s.String(), pool
}

// tails29: final expressions of a method body that are compiled without the generic emit path (see enumerate, 1c)
var tails29 = []struct{ name, defs, expr string }{
	{"pool-call", "module T29\n  def len(s: String): Int then s.length\nend\n", `T29.len("t29")`},
	{"instantiate-getter", "class I29\n  attr v: Int\n  init(s: String)\n    @v = s.length\n  end\nend\n", `I29("t29").v`},
}

func needsPool(cs ...construct) bool {
	for _, c := range cs {
		if c.async {
			return true
		}
	}
	return false
}

// ------------------------------------------------------------------------------------------------ reused families

type body15 struct {
	name   string
	lines  []string
	throws bool
	noGen  bool
}

// the bodies of C15 (cmd/c15/main.go)
var bodies15 = []body15{
	{"arith", []string{"n + 1"}, false, false},
	{"local-from-call", []string{"x := leaf15(n)", "x + 1"}, false, false},
	{"two-locals-from-calls", []string{"x := leaf15(n)", "y := leaf15(x)", "x + y"}, false, false},
	{"if-else", []string{"r := if n > 1 then n * 2 else n - 1", "r"}, false, false},
	{"while-accumulate", []string{"s := 0", "i := 0", "while i < n", "  s += i", "  i += 1", "end", "s"}, false, false},
	{"loop-break-value", []string{"i := 0", "r := loop", "  i += 1", "  break i * 10 if i > n", "end", "r"}, false, false},
	{"marker-prints", []string{"println(\"m1\")", "x := n * 2", "println(\"m2 \" + x.to_string)", "x"}, false, false},
	{"throw-conditional", []string{"throw :boom if n > 1", "n"}, true, false},
	{"throw-after-print", []string{"println(\"before\")", "throw :boom if n == 2", "println(\"after\")", "n + 5"}, true, false},
	{"catch-inside", []string{"r := do", "  throw :boom if n > 1", "  n", "catch :boom", "  println(\"caught\")", "  -1", "end", "r + 1"}, false, false},
	{"finally-marker", []string{"r := do", "  println(\"try\")", "  n + 1", "finally", "  println(\"fin\")", "end", "r"}, false, false},
	{"finally-with-throw", []string{"r := do", "  throw :boom if n > 1", "  n", "finally", "  println(\"fin\")", "end", "r"}, true, false},
	{"closure-capture", []string{"k := n", "f := |x: Int|: Int -> x + k", "k = k + 1", "f.(10)"}, false, false},
	{"closure-counter", []string{"c := 0", "inc := ||: Int -> c += 1", "inc.()", "inc.()", "c + n"}, false, false},
	{"nested-calls", []string{"leaf15(leaf15(n) + leaf15(1))"}, false, false},
	{"list-build", []string{"l := [1, 2]", "l << n", "l.length + (try l[2])"}, false, false},
	{"string-interp", []string{"s := \"v#{n}\"", "s.length"}, false, false},
	{"early-return", []string{"return 7 if n == 0", "x := leaf15(n)", "x"}, false, true},
	{"must-nil", []string{"var m: Int? = nil", "m = n if n > 0", "(must m) + 1"}, false, false},
	{"defer-marker", []string{"defer println(\"deferred\")", "println(\"body\")", "n"}, false, false},
	{"switch", []string{"r := switch n", "case 0 then 10", "case 1 then 11", "else 12", "end", "r"}, false, false},
	{"unchecked-throw", []string{"throw unchecked :bad if n == 3", "n"}, false, false},
	{"zero-division", []string{"10 / (n - 1)"}, false, false},
	{"yield-in-while", []string{"i := 0", "while i < n", "  yield i", "  i += 1", "end", "100"}, false, false},
	{"yield-in-do-finally", []string{"do", "  yield 1", "  yield 2", "finally", "  println(\"fin\")", "end", "3"}, false, false},
	{"yield-in-loop-break", []string{"i := 0", "loop", "  break if i >= n", "  yield i * 2", "  i += 1", "end", "yield 77", "-1"}, false, false},
	{"yield-nested-if", []string{"if n > 1", "  yield 10", "else", "  yield 20", "end", "yield 30", "n"}, false, false},
}

var wrappers15 = []string{"plain", "generator", "async", "async-nested"}

func program15(b body15, w string, n int) string {
	thr := ""
	if b.throws {
		thr = " ! :boom"
	}
	var s strings.Builder
	s.WriteString("def leaf15(x: Int): Int then x + 1\n")
	call := ""
	bd := strings.Join(ind(b.lines), "\n") + "\n"
	switch w {
	case "plain":
		fmt.Fprintf(&s, "def f(n: Int): Int%s\n%send\n", thr, bd)
		call = fmt.Sprintf("r := f(%d)\n  println(\"=> \" + r.to_string)", n)
	case "generator":
		fmt.Fprintf(&s, "def *f(n: Int): Int%s\n%send\n", thr, bd)
		call = fmt.Sprintf("var last: Int? = nil\n  for v in f(%d)\n    last = v\n  end\n  println(\"=> \" + (must last).to_string)", n)
	case "async":
		fmt.Fprintf(&s, "async def f(n: Int): Int%s\n%send\n", thr, bd)
		call = fmt.Sprintf("r := f(%d).await_sync\n  println(\"=> \" + r.to_string)", n)
	case "async-nested":
		fmt.Fprintf(&s, "async def f(n: Int): Int%s\n%send\n", thr, bd)
		fmt.Fprintf(&s, "async def o(n: Int): Int%s\n  v := await f(n)\n  v\nend\n", thr)
		call = fmt.Sprintf("r := o(%d).await_sync\n  println(\"=> \" + r.to_string)", n)
	}
	fmt.Fprintf(&s, "do\n  %s\ncatch :boom\n  println(\"THROWN :boom\")\nend\n", call)
	return s.String()
}

// family A of C01 (cmd/c01/main.go)
var binds01 = []struct{ name, code string }{
	{"literal", "x := 5"},
	{"method-call", "x := leaf01(4)"},
	{"closure-call", "fcl := |a: Int|: Int -> a + 1\n  x := fcl.(4)"},
	{"native-call", "x := [1, 2, 3, 4, 5].length"},
	{"nilable-must", "var y: Int? = leaf01(4)\n  x := must y"},
	{"branch-value", "x := if leaf01(1) > 1 then 5 else 6"},
}

var uses01 = []struct{ name, expr string }{
	{"arith", "x + 1"},
	{"interp", "\"v#{x}\".length"},
	{"to-string", "x.to_string.length"},
	{"direct", "x"},
	{"compare", "if x > 2 then 1 else 0"},
	{"index", "try [10, 20, 30, 40, 50, 60, 70][x]"},
}

var contexts01 = []string{"top", "method", "closure", "generator", "async", "async-nested", "go-thread", "method-with-defer", "do-finally"}

func family01(ctx string, b, u int) string {
	bind, use := binds01[b].code, uses01[u].expr
	var s strings.Builder
	fmt.Fprintf(&s, "def leaf01(n: Int): Int then n + 1\n")
	switch ctx {
	case "top":
		fmt.Fprintf(&s, "%s\nr := %s\nprintln(r.inspect)\n", strings.ReplaceAll(bind, "\n  ", "\n"), use)
	case "method":
		fmt.Fprintf(&s, "def m(k: Int): Int\n  %s\n  %s\nend\nprintln(m(1).inspect)\n", bind, use)
	case "method-with-defer":
		fmt.Fprintf(&s, "def m(k: Int): Int\n  defer println(\"d\")\n  %s\n  %s\nend\nprintln(m(1).inspect)\n", bind, use)
	case "do-finally":
		fmt.Fprintf(&s, "def m(k: Int): Int\n  do\n    %s\n    return %s\n  finally\n    println(\"f\")\n  end\n  0\nend\nprintln(m(1).inspect)\n", strings.ReplaceAll(bind, "\n  ", "\n    "), use)
	case "closure":
		fmt.Fprintf(&s, "c := |k: Int|: Int ->\n  %s\n  %s\nend\nprintln(c.(1).inspect)\n", bind, use)
	case "generator":
		fmt.Fprintf(&s, "def *g(k: Int): Int\n  %s\n  yield %s\n  0\nend\nfor v in g(1)\n  println(v.inspect)\nend\n", bind, use)
	case "async":
		fmt.Fprintf(&s, "async def a(k: Int): Int\n  %s\n  %s\nend\nprintln(a(1).await_sync.inspect)\n", bind, use)
	case "async-nested":
		fmt.Fprintf(&s, "async def a(k: Int): Int\n  %s\n  %s\nend\nasync def o(k: Int): Int\n  v := await a(k)\n  v\nend\nprintln(o(1).await_sync.inspect)\n", bind, use)
	case "go-thread":
		fmt.Fprintf(&s, "using Std::Sync::WaitGroup\nch := Channel::[Int](1)\nwg := WaitGroup(1)\ngo\n  %s\n  ch << (%s)\n  wg.end\nend\nwg.wait\nprintln((try ch.pop).inspect)\n", bind, use)
	}
	return s.String()
}

// ------------------------------------------------------------------------------------------------ wide programs

// widePrograms: functions with more than 255 locals / constants / call sites / upvalues / instance variables /
// dynamic elements, which make the compiler emit the 16-bit forms of the indexed instructions.
func widePrograms() []program {
	const N = 260
	var out []program
	add := func(name, src string) {
		out = append(out, program{id: "wide/" + name, construct: "wide " + name, src: src})
	}
	rep := func(f func(i int) string, sep string) string {
		var l []string
		for i := 0; i < N; i++ {
			l = append(l, f(i))
		}
		return strings.Join(l, sep)
	}
	// locals (GET/SET_LOCAL16, PREP_LOCALS16), a box and a closure over high locals (BOX_LOCAL16, long closure entries)
	add("locals", "def w29(n: Int): Int\n"+rep(func(i int) string { return fmt.Sprintf("  a%d := n + %d", i, i) }, "\n")+
		"\n  bx := &a258\n  f := ||: Int ->\n    a259 += 1\n    a259 + a257\n  end\n  a259 = a259 + a0\n  f.() + a259\nend\nprintln(w29(2))\n")
	// upvalues (GET/SET_UPVALUE16)
	add("upvalues", "def w29(n: Int): Int\n"+rep(func(i int) string { return fmt.Sprintf("  a%d := n + %d", i, i) }, "\n")+
		"\n  f := ||: Int ->\n"+rep(func(i int) string { return fmt.Sprintf("    a%d += 1", i) }, "\n")+"\n    a259 + a0\n  end\n  f.()\nend\nprintln(w29(2))\n")
	// constants, call sites and global constants beyond index 255 (LOAD_VALUE16, CALL_METHOD_*16, GET_CONST16, CALL16)
	add("constants", "def leaf29(x: Int): Int then x + 1\ndef w29(n: Int): Int\n  s := 0\n"+
		rep(func(i int) string { return fmt.Sprintf("  s += \"s%d\".length + leaf29(%d)", i, 1000+i) }, "\n")+
		"\n  c := |x: Int|: Int -> x + 1\n  s += c.(1)\n  t := ::Std::Int.name.length\n  v := [n, 2].length\n  o := ::Std::Object()\n  s + t + v\nend\nprintln(w29(2))\n")
	// dynamic collection elements (NEW_*16)
	add("collections", "def w29(n: Int): Int\n  l := ["+rep(func(i int) string { return "n" }, ", ")+"]\n  t := %["+rep(func(i int) string { return "n" }, ", ")+
		"]\n  st := ^["+rep(func(i int) string { return fmt.Sprintf("n + %d", i) }, ", ")+"]\n  m := {"+rep(func(i int) string { return fmt.Sprintf("n + %d => n", i) }, ", ")+
		"}\n  r := %{"+rep(func(i int) string { return fmt.Sprintf("n + %d => n", i) }, ", ")+"}\n  s := \""+rep(func(i int) string { return "${n}-" }, "")+"\"\n  y := :\""+rep(func(i int) string { return "${n}_" }, "")+
		"\"\n  re := %/"+rep(func(i int) string { return "${n}a" }, "")+"/\n  l.length + t.length + st.length + m.length + r.length + s.length\nend\nprintln(w29(2))\n")
	// instance variables (GET/SET_IVAR16)
	add("ivars", "class W29\n"+rep(func(i int) string { return fmt.Sprintf("  attr a%d: Int", i) }, "\n")+"\n  init\n"+
		rep(func(i int) string { return fmt.Sprintf("    @a%d = %d", i, i) }, "\n")+"\n  end\n  def sum: Int\n    @a259 += 1\n    @a259 + @a258 + @a0\n  end\nend\nprintln(W29().sum)\n")
	// a long jump over a big body and a long loop (16-bit distances near their limit are not reachable with small programs;
	// this one only makes distances exceed one byte)
	add("long-jumps", "def w29(n: Int): Int\n  s := 0\n  i := 0\n  while i < 2\n    if n > 100\n"+
		rep(func(i int) string { return fmt.Sprintf("      s += %d", i) }, "\n")+"\n    else\n      s += 1\n    end\n    i += 1\n  end\n  s\nend\nprintln(w29(2))\n")
	return out
}

// ------------------------------------------------------------------------------------------------ enumeration

func runPrograms(r *engine.R, ps []program) {
	for _, p := range ps {
		if f := os.Getenv("C29_ONLY"); f != "" && !strings.Contains(p.id, f) { // development aid
			continue
		}
		for _, abort := range []bool{false, true} {
			checkProgram(r, p, abort)
			elkrun.ResetRuntime()
		}
	}
	if len(ps) > 0 {
		r.Sample(ps[len(ps)-1].src)
	}
}

func enumerate(c *engine.Ctx) {
	// (1) template grammar
	ctxs := []string{"method"}
	if c.Thorough {
		ctxs = contexts
	}
	for _, ctx := range contexts {
		ctx := ctx
		// every construct alone, in every context (both tiers)
		for i := range constructs {
			ci := constructs[i]
			c.Case(fmt.Sprintf("single/%s/%s", ctx, ci.name), func(r *engine.R) {
				b := ci.build("1", leafBlock())
				src, pool := wrap(ctx, b)
				runPrograms(r, []program{{id: "single/" + ctx + "/" + ci.name, construct: ci.name + " in " + ctx, src: src, pool: pool || ci.async}})
			})
		}
	}
	for _, ctx := range ctxs {
		ctx := ctx
		for i := range constructs {
			co := constructs[i]
			// one case per (context, outer): all inner constructs
			c.Case(fmt.Sprintf("pair/%s/%s", ctx, co.name), func(r *engine.R) {
				var ps []program
				for j := range constructs {
					cin := constructs[j]
					if cin.leafOnly {
						continue
					}
					b := co.build("1", cin.build("2", leafBlock()))
					src, pool := wrap(ctx, b)
					ps = append(ps, program{id: "pair/" + ctx + "/" + co.name + "[" + cin.name + "]", construct: co.name + "[" + cin.name + "] in " + ctx, src: src, pool: pool || co.async || cin.async})
				}
				runPrograms(r, ps)
			})
		}
	}
	// (1c) tail position x pool width: every construct directly followed by a final expression that is emitted only
	// through the value-pool emitters (constant receiver, pooled literal with an index >= 4, call-site info), the
	// function's value pool being pre-filled, so that nothing between the construct and the end of the function goes
	// through the compiler's generic emit path (which is what tracks "the last instruction was a return")
	for i := range constructs {
		ci := constructs[i]
		c.Case("tail/"+ci.name, func(r *engine.R) {
			var ps []program
			for _, tl := range tails29 {
				b := ci.build("1", leafBlock())
				b.defs += tl.defs
				b.pre = append([]string{`p29 := "p1".length + "p2".length + "p3".length + "p4".length + "p5".length`}, b.pre...)
				b.val = tl.expr
				src, pool := wrap("method", b)
				ps = append(ps, program{id: "tail/" + ci.name + "/" + tl.name, construct: ci.name + " followed by tail " + tl.name, src: src, pool: pool || ci.async})
			}
			runPrograms(r, ps)
		})
	}
	// (1b) wide programs: the 16-bit instruction forms
	for _, wp := range widePrograms() {
		wp := wp
		c.Case(wp.id, func(r *engine.R) { runPrograms(r, []program{wp}) })
	}
	// (2a) C15 bodies x wrappers
	for _, b := range bodies15 {
		b := b
		c.Case("c15/"+b.name, func(r *engine.R) {
			var ps []program
			for _, w := range wrappers15 {
				yields := strings.HasPrefix(b.name, "yield-")
				if (w == "generator" && b.noGen) || (yields && w != "generator") {
					continue
				}
				for _, n := range []int{0, 2} {
					ps = append(ps, program{id: fmt.Sprintf("c15/%s/%s/n=%d", b.name, w, n), construct: "c15 body " + b.name + " as " + w, src: program15(b, w, n), pool: strings.HasPrefix(w, "async")})
				}
			}
			runPrograms(r, ps)
		})
	}
	// (2b) C01 family A
	for _, ctx := range contexts01 {
		for b := range binds01 {
			ctx, b := ctx, b
			c.Case(fmt.Sprintf("c01/%s/%s", ctx, binds01[b].name), func(r *engine.R) {
				var ps []program
				for u := range uses01 {
					ps = append(ps, program{id: fmt.Sprintf("c01/%s/%s/%s", ctx, binds01[b].name, uses01[u].name), construct: "c01 " + binds01[b].name + "/" + uses01[u].name + " in " + ctx, src: family01(ctx, b, u), pool: strings.HasPrefix(ctx, "async")})
				}
				runPrograms(r, ps)
			})
		}
	}
	// (2c) mini: control-flow chains x exits
	emitCF := func(prefix string, o mini.CFOpts) {
		var chunk []*mini.CFCase
		k := 0
		flush := func() {
			if len(chunk) == 0 {
				return
			}
			cs := chunk
			chunk = nil
			id := fmt.Sprintf("%s/%05d %s", prefix, k, cs[0].Shape())
			k++
			c.Case(id, func(r *engine.R) {
				var ps []program
				for _, cc := range cs {
					d := mini.RenameDef(cc.Def, "f29")
					call := mini.GuardedCall(d.Name, cc.Args...)
					src := mini.Prelude + mini.PrintDef(d, mini.PrintOpts{}) + mini.PrintStmts([]mini.Stmt{call}, mini.PrintOpts{})
					ps = append(ps, program{id: prefix + "/" + cc.Shape(), construct: "cf " + cc.Shape(), src: src})
				}
				runPrograms(r, ps)
			})
		}
		mini.EnumCF(o, func(cc *mini.CFCase) bool {
			chunk = append(chunk, cc)
			if len(chunk) == 40 {
				flush()
			}
			return true
		})
		flush()
	}
	if !c.Thorough {
		emitCF("cf", mini.CFOpts{MinDepth: 0, MaxDepth: 1, CondExits: true})
		emitCF("cf2-core", mini.CFOpts{MinDepth: 2, MaxDepth: 2, CondExits: false, Variants: mini.CFCore})
	} else {
		emitCF("cf", mini.CFOpts{MinDepth: 0, MaxDepth: 2, CondExits: true})
		emitCF("cf3-core", mini.CFOpts{MinDepth: 3, MaxDepth: 3, CondExits: false, Variants: mini.CFCore})
	}
	// (2d) mini: closure terms
	maxNodes := 5
	if c.Thorough {
		maxNodes = 6
	}
	clOpts := mini.ClOpts{MaxVars: 2, MaxNest: 2, Loops: true, List: true, Pass: true, Frames: "cmt", CrossWrite: true}
	for n := 1; n <= maxNodes; n++ {
		for _, site := range []string{"top", "method"} {
			var chunk []*mini.ClCase
			k := 0
			n, site := n, site
			flush := func() {
				if len(chunk) == 0 {
					return
				}
				cs := chunk
				chunk = nil
				id := fmt.Sprintf("cl/n=%d/%s/%05d %s", n, site, k, cs[0].Shape())
				k++
				c.Case(id, func(r *engine.R) {
					var ps []program
					for _, cc := range cs {
						p := cc.Program(site, "_29")
						src := mini.Prelude + mini.PrintProgram(p, mini.PrintOpts{})
						// terms that pass a closure in a tail call write through stale stack pointers in this tree (C13's
						// finding; C13 runs them in a child process): they are verified statically only
						risky := false
						for _, f := range cc.Features() {
							if f == "tail-call" {
								risky = true
							}
						}
						ps = append(ps, program{id: fmt.Sprintf("cl/%s/%s", site, cc.Shape()), construct: "closure term " + cc.Shape() + " at " + site, src: src, norun: risky})
					}
					runPrograms(r, ps)
				})
			}
			mini.EnumClosures(clOpts, n, func(cc *mini.ClCase) bool {
				chunk = append(chunk, cc)
				if len(chunk) == 40 {
					flush()
				}
				return true
			})
			flush()
		}
	}
	// (2e) mini: short-circuit expressions
	for _, ops := range []int{1, 2} {
		var chunk []*mini.LogicCase
		k := 0
		ops := ops
		flush := func() {
			if len(chunk) == 0 {
				return
			}
			cs := chunk
			chunk = nil
			id := fmt.Sprintf("logic/ops=%d/%05d", ops, k)
			k++
			c.Case(id, func(r *engine.R) {
				var ps []program
				for i, lc := range cs {
					main := []mini.Stmt{&mini.PrintE{E: lc.E, Show: true}, &mini.If{C: lc.E, Then: []mini.Stmt{&mini.Print{Tag: "T"}}, Else: []mini.Stmt{&mini.Print{Tag: "F"}}}}
					src := mini.Prelude + "do\n" + mini.PrintStmts(main, mini.PrintOpts{}) + "end\n"
					ps = append(ps, program{id: fmt.Sprintf("logic/%d/%d", ops, i), construct: "short-circuit expression", src: src})
				}
				runPrograms(r, ps)
			})
		}
		mini.EnumLogic(ops, false, func(lc *mini.LogicCase) bool {
			chunk = append(chunk, lc)
			if len(chunk) == 60 {
				flush()
			}
			return true
		})
		flush()
	}
}
