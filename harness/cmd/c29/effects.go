package main

// The hand-written stack-effect table: opcode -> (pops, pushes, control kind). It is the model's transition
// relation; it is validated against the implementation by the depth probe (conform.go): every depth the VM
// shows at an instruction must be a depth the exploration computed with this table.

import (
	"fmt"
	"reflect"
	"regexp"

	"github.com/elk-language/elk/bytecode"
	"github.com/elk-language/elk/vm"
)

var numRe = regexp.MustCompile(`0x[0-9a-fA-F]+|\b\d+\b`)

type ekind int

const (
	kPlain ekind = iota
	kJump
	kCond
	kReturn
	kThrow
	kReturnFinally
	kJumpToFinally
	kGenerator
	kAwait
	kTailCall
	kStopIteration
)

const (
	fNone = iota
	fUnlessUndef
	fIfTruthy
	fIfNil
	fUnlessNil
	fUnlessTruthy
)

type effect struct {
	kind      ekind
	pop, push int
	// conditional jumps: pop is popped on both edges; popTaken / popFall additionally on one edge
	popTaken, popFall, pushFall int
	flag                        int
	cmpEq                       int // +1: jumps when the two operands are equal, -1: jumps unless they are equal
	keep                        bool
	dyn                         func(fn *vm.BytecodeFunction, in *instr, st []aval) (pop, push int, problem string)
	val                         func(fn *vm.BytecodeFunction, in *instr) aval
	check                       func(fn *vm.BytecodeFunction, fr *funcReport, in *instr, st []aval) string
	tailOnly                    func(fn *vm.BytecodeFunction, in *instr) bool
}

var effects = map[string]effect{}

func plain(pop, push int, names ...string) {
	for _, n := range names {
		effects[n] = effect{kind: kPlain, pop: pop, push: push}
	}
}

func constant(v func(fn *vm.BytecodeFunction, in *instr) aval, names ...string) {
	for _, n := range names {
		effects[n] = effect{kind: kPlain, push: 1, val: v}
	}
}

func operandCount(f func(n int) (pop, push int), names ...string) {
	for _, n := range names {
		effects[n] = effect{kind: kPlain, dyn: func(fn *vm.BytecodeFunction, in *instr, st []aval) (int, int, string) {
			p, q := f(in.operands[len(in.operands)-1])
			return p, q, ""
		}}
	}
}

func callArgc(fn *vm.BytecodeFunction, in *instr) (int, string) {
	vi := valueIndexOf(in)
	if vi < 0 || vi >= len(fn.Values) {
		return 0, "call site info index out of range"
	}
	switch ci := refOf(fn.Values[vi]).(type) {
	case *vm.CallSiteInfo:
		return ci.ArgumentCount, ""
	case *vm.BytecodeCallSiteInfo:
		return ci.ArgumentCount, ""
	case *vm.NativeCallSiteInfo:
		return ci.ArgumentCount, ""
	}
	return 0, "call site info of the wrong kind"
}

func intConst(n int) func(*vm.BytecodeFunction, *instr) aval {
	return func(*vm.BytecodeFunction, *instr) aval { return aval{k: aInt, n: int32(n)} }
}

func topOf(st []aval) aval {
	if len(st) == 0 {
		return top
	}
	return st[len(st)-1]
}

func init() {
	plain(0, 0, "NOOP", "INSPECT_STACK", "CHECK_ABORT",
		"CLOSE_UPVALUES_TO_1", "CLOSE_UPVALUES_TO_2", "CLOSE_UPVALUES_TO_3", "CLOSE_UPVALUES_TO8", "CLOSE_UPVALUES_TO16")
	// pushes of constants
	constant(func(fn *vm.BytecodeFunction, in *instr) aval {
		vi := valueIndexOf(in)
		if vi >= 0 && vi < len(fn.Values) {
			v := fn.Values[vi]
			if v.IsSmallInt() {
				n := int64(v.AsSmallInt())
				if n >= -1<<30 && n < 1<<30 {
					return aval{k: aInt, n: int32(n)}
				}
			}
			if v.IsUndefined() {
				return aval{k: aUndef, n: 0}
			}
			return aval{k: aVal, n: int32(vi)}
		}
		return top
	}, "LOAD_VALUE_0", "LOAD_VALUE_1", "LOAD_VALUE_2", "LOAD_VALUE_3", "LOAD_VALUE8", "LOAD_VALUE16")
	constant(func(*vm.BytecodeFunction, *instr) aval { return aval{k: aTrue, n: 0} }, "TRUE")
	constant(func(*vm.BytecodeFunction, *instr) aval { return aval{k: aFalse, n: 0} }, "FALSE")
	constant(func(*vm.BytecodeFunction, *instr) aval { return aval{k: aNil, n: 0} }, "NIL")
	constant(func(*vm.BytecodeFunction, *instr) aval { return aval{k: aUndef, n: 0} }, "UNDEFINED")
	for i, n := range []string{"INT_M1", "INT_0", "INT_1", "INT_2", "INT_3", "INT_4", "INT_5"} {
		constant(intConst(i-1), n)
	}
	constant(func(fn *vm.BytecodeFunction, in *instr) aval { return aval{k: aInt, n: int32(int8(in.operands[0]))} }, "LOAD_INT_8")
	constant(func(fn *vm.BytecodeFunction, in *instr) aval { return aval{k: aInt, n: int32(int16(in.operands[0]))} }, "LOAD_INT_16")
	plain(0, 1, "LOAD_CHAR_8", "FLOAT_0", "FLOAT_1", "FLOAT_2", "LOAD_INT64_8", "LOAD_UINT64_8", "LOAD_INT32_8", "LOAD_UINT32_8",
		"LOAD_INT16_8", "LOAD_UINT16_8", "LOAD_INT8", "LOAD_UINT8", "SELF",
		"GET_LOCAL_1", "GET_LOCAL_2", "GET_LOCAL_3", "GET_LOCAL_4", "GET_LOCAL8", "GET_LOCAL16", "BOX_LOCAL8", "BOX_LOCAL16",
		"GET_UPVALUE_0", "GET_UPVALUE_1", "GET_UPVALUE8", "GET_UPVALUE16",
		"GET_IVAR_0", "GET_IVAR_1", "GET_IVAR_2", "GET_IVAR8", "GET_IVAR16", "GET_IVAR_NAME16", "GET_CONST8", "GET_CONST16")
	plain(1, 0, "POP", "SET_LOCAL_1", "SET_LOCAL_2", "SET_LOCAL_3", "SET_LOCAL_4", "SET_LOCAL8", "SET_LOCAL16",
		"SET_UPVALUE_0", "SET_UPVALUE_1", "SET_UPVALUE8", "SET_UPVALUE16",
		"SET_IVAR_0", "SET_IVAR_1", "SET_IVAR_2", "SET_IVAR8", "SET_IVAR16", "SET_IVAR_NAME16")
	plain(2, 0, "POP_2", "DEF_METHOD", "INCLUDE", "DEF_GETTER", "DEF_SETTER", "SET_SUPERCLASS", "DEF_NAMESPACE", "DEF_IVARS")
	plain(3, 0, "DEF_CONST")
	// unary: replace the top
	plain(1, 1, "NEGATE", "NEGATE_INT", "NEGATE_FLOAT", "NOT", "BITWISE_NOT", "UNARY_PLUS", "INCREMENT", "INCREMENT_INT",
		"DECREMENT", "DECREMENT_INT", "GET_CLASS", "GET_SINGLETON", "COPY", "GET_ITERATOR", "MUST", "GO", "AWAIT_RESULT", "AWAIT_SYNC",
		"BREAKPOINT", "NEXT8", "NEXT16", "EXEC")
	// binary
	plain(2, 1, "ADD", "ADD_INT", "ADD_FLOAT", "SUBTRACT", "SUBTRACT_INT", "SUBTRACT_FLOAT", "MULTIPLY", "MULTIPLY_INT", "MULTIPLY_FLOAT",
		"DIVIDE", "DIVIDE_INT", "DIVIDE_FLOAT", "EXPONENTIATE", "EXPONENTIATE_INT",
		"RBITSHIFT", "RBITSHIFT_INT", "LOGIC_RBITSHIFT", "LBITSHIFT", "LBITSHIFT_INT", "LOGIC_LBITSHIFT",
		"BITWISE_AND", "BITWISE_AND_INT", "BITWISE_AND_NOT", "BITWISE_OR", "BITWISE_OR_INT", "BITWISE_XOR", "BITWISE_XOR_INT",
		"MODULO", "MODULO_INT", "MODULO_FLOAT", "COMPARE",
		"EQUAL", "EQUAL_INT", "EQUAL_FLOAT", "STRICT_EQUAL", "NOT_EQUAL", "NOT_EQUAL_INT", "NOT_EQUAL_FLOAT", "STRICT_NOT_EQUAL",
		"LAX_EQUAL", "LAX_NOT_EQUAL",
		"GREATER", "GREATER_INT", "GREATER_FLOAT", "GREATER_EQUAL", "GREATER_EQUAL_I", "GREATER_EQUAL_F",
		"LESS", "LESS_INT", "LESS_FLOAT", "LESS_EQUAL", "LESS_EQUAL_INT", "LESS_EQUAL_FLOAT",
		"SUBSCRIPT", "AS", "INSTANCE_OF", "IS_A", "APPEND", "INIT_NAMESPACE")
	plain(3, 1, "SUBSCRIPT_SET", "APPEND_AT", "MAP_SET")
	plain(1, 0, "EXEC_DEFER")
	// stack shuffles
	for n, pp := range map[string][2]int{"DUP": {1, 2}, "DUP_2": {2, 4}, "DUP_SECOND": {2, 3}, "SWAP": {2, 2}, "POP_SKIP_ONE": {2, 1}, "POP_2_SKIP_ONE": {3, 1}} {
		effects[n] = effect{kind: kPlain, pop: pp[0], push: pp[1], keep: true}
	}
	// locals
	operandCount(func(n int) (int, int) { return 0, n }, "PREP_LOCALS8", "PREP_LOCALS16")
	// collections: element count operand
	operandCount(func(n int) (int, int) { return n + 1, 1 }, "NEW_ARRAY_TUPLE8", "NEW_ARRAY_TUPLE16", "INSTANTIATE8", "INSTANTIATE16")
	operandCount(func(n int) (int, int) { return n + 2, 1 }, "NEW_ARRAY_LIST8", "NEW_ARRAY_LIST16", "NEW_HASH_SET8", "NEW_HASH_SET16")
	operandCount(func(n int) (int, int) { return 2*n + 2, 1 }, "NEW_HASH_MAP8", "NEW_HASH_MAP16")
	operandCount(func(n int) (int, int) { return 2*n + 1, 1 }, "NEW_HASH_RECORD8", "NEW_HASH_RECORD16")
	operandCount(func(n int) (int, int) { return n, 1 }, "NEW_STRING8", "NEW_STRING16", "NEW_SYMBOL8", "NEW_SYMBOL16", "NEW_REGEX8", "NEW_REGEX16")
	effects["NEW_RANGE"] = effect{kind: kPlain, dyn: func(fn *vm.BytecodeFunction, in *instr, st []aval) (int, int, string) {
		switch byte(in.operands[0]) {
		case bytecode.CLOSED_RANGE_FLAG, bytecode.OPEN_RANGE_FLAG, bytecode.LEFT_OPEN_RANGE_FLAG, bytecode.RIGHT_OPEN_RANGE_FLAG:
			return 2, 1, ""
		case bytecode.BEGINLESS_CLOSED_RANGE_FLAG, bytecode.BEGINLESS_OPEN_RANGE_FLAG, bytecode.ENDLESS_CLOSED_RANGE_FLAG, bytecode.ENDLESS_OPEN_RANGE_FLAG:
			return 1, 1, ""
		}
		return 0, 0, fmt.Sprintf("invalid range flag %d", in.operands[0])
	}}
	// calls
	call := func(fn *vm.BytecodeFunction, in *instr, st []aval) (int, int, string) {
		argc, msg := callArgc(fn, in)
		return argc + 1, 1, msg
	}
	for _, n := range []string{"CALL_METHOD8", "CALL_METHOD16", "CALL_METHOD_NT8", "CALL_METHOD_NT16", "CALL8", "CALL16"} {
		effects[n] = effect{kind: kPlain, dyn: call}
	}
	// a tail call replaces the frame when the callee is a bytecode function and behaves like a call otherwise
	for _, n := range []string{"CALL_METHOD_TCO8", "CALL_METHOD_TCO16"} {
		effects[n] = effect{kind: kTailCall, dyn: call, tailOnly: func(*vm.BytecodeFunction, *instr) bool { return false }}
	}
	for _, n := range []string{"CALL_METHOD_BC8", "CALL_METHOD_BC16"} {
		effects[n] = effect{kind: kTailCall, dyn: call, tailOnly: func(fn *vm.BytecodeFunction, in *instr) bool {
			ci, ok := refOf(fn.Values[valueIndexOf(in)]).(*vm.BytecodeCallSiteInfo)
			return ok && ci.TailCall
		}}
	}
	// closures: the function is on top; the number of captured variables must be what the function expects
	closure := effect{kind: kPlain, pop: 1, push: 1, check: func(fn *vm.BytecodeFunction, fr *funcReport, in *instr, st []aval) string {
		t := topOf(st)
		if t.k != aVal {
			return ""
		}
		f, ok := refOf(fn.Values[t.n]).(*vm.BytecodeFunction)
		if !ok {
			return "closure created from a value that is not a function (" + kindOf(fn.Values[t.n]) + ")"
		}
		if len(in.clos) != f.UpvalueCount {
			return fmt.Sprintf("closure captures %d variables but the function declares UpvalueCount=%d", len(in.clos), f.UpvalueCount)
		}
		return ""
	}}
	effects["CLOSURE"] = closure
	effects["CLOSED_CLOSURE"] = closure
	// select: the Select value on top says how many channel/value operands follow
	effects["SELECT"] = effect{kind: kPlain, dyn: func(fn *vm.BytecodeFunction, in *instr, st []aval) (int, int, string) {
		t := topOf(st)
		if t.k != aVal {
			return 0, 0, "SELECT operand is not a constant"
		}
		sel, ok := refOf(fn.Values[t.n]).(*vm.Select)
		if !ok {
			return 0, 0, "SELECT operand is not a Select (" + kindOf(fn.Values[t.n]) + ")"
		}
		pop := 1
		for _, c := range sel.Cases {
			switch c.Direction {
			case reflect.SelectRecv:
				pop++
			case reflect.SelectSend:
				pop += 2
			}
		}
		return pop, 2, ""
	}}
	// control flow
	effects["JUMP"] = effect{kind: kJump}
	effects["LOOP"] = effect{kind: kJump}
	for _, n := range []string{"JUMP_UNLESS_LE", "JUMP_UNLESS_LT", "JUMP_UNLESS_GE", "JUMP_UNLESS_GT",
		"JUMP_UNLESS_ILE", "JUMP_UNLESS_ILT", "JUMP_UNLESS_IGE", "JUMP_UNLESS_IGT"} {
		effects[n] = effect{kind: kCond, pop: 2}
	}
	effects["JUMP_UNLESS_EQ"] = effect{kind: kCond, pop: 2, cmpEq: -1}
	effects["JUMP_UNLESS_IEQ"] = effect{kind: kCond, pop: 2, cmpEq: -1}
	effects["JUMP_IF_EQ"] = effect{kind: kCond, pop: 2, cmpEq: 1}
	effects["JUMP_IF_IEQ"] = effect{kind: kCond, pop: 2, cmpEq: 1}
	for _, n := range []string{"JUMP_UNLESS", "JUMP_IF", "JUMP_IF_NIL", "JUMP_UNLESS_NIL", "JUMP_UNLESS_UNDEF"} {
		effects[n] = effect{kind: kCond, pop: 1}
	}
	effects["JUMP_UNLESS_UNP"] = effect{kind: kCond, flag: fUnlessUndef}
	effects["JUMP_IF_NP"] = effect{kind: kCond, flag: fIfTruthy}
	effects["JUMP_IF_NIL_NP"] = effect{kind: kCond, flag: fIfNil}
	effects["JUMP_UNLESS_NNP"] = effect{kind: kCond, flag: fUnlessNil}
	effects["JUMP_UNLESS_NP"] = effect{kind: kCond, flag: fUnlessTruthy}
	// for..in: the jump is taken when the iteration ends and pops the iterator / the undefined marker
	effects["FOR_IN"] = effect{kind: kCond, popTaken: 1}
	effects["FOR_IN_BUILTIN"] = effect{kind: kCond, popTaken: 1, popFall: 1, pushFall: 1}
	// ends of the frame
	effects["RETURN"] = effect{kind: kReturn, pop: 1}
	effects["RETURN_FIRST_ARG"] = effect{kind: kReturn}
	effects["RETURN_SELF"] = effect{kind: kReturn}
	effects["THROW"] = effect{kind: kThrow, pop: 1}
	effects["RETHROW"] = effect{kind: kThrow, pop: 2}
	effects["RETURN_FINALLY"] = effect{kind: kReturnFinally}
	effects["JUMP_TO_FINALLY"] = effect{kind: kJumpToFinally}
	// generators and promises: the object is pushed and the one-byte RETURN that follows ends the call; the
	// body starts after that RETURN with the frame as it is here
	effects["GENERATOR"] = effect{kind: kGenerator}
	effects["PROMISE"] = effect{kind: kGenerator, pop: 1}
	// the yielded value is handed to the consumer and is gone when the generator resumes
	plain(1, 0, "YIELD")
	// STOP_ITERATION pushes the marker and returns it as an error; the generator is parked at its closing STOP_ITERATION
	effects["STOP_ITERATION"] = effect{kind: kStopIteration}
	effects["AWAIT"] = effect{kind: kAwait}
}
