// C29 — compiled bytecode is structurally valid (engine E4 "bcverify").
//
// For every vm.BytecodeFunction the compiler produces for every accepted program of a bounded-exhaustive
// program space (each compiled with and without AdditionalAbortChecks):
//   - the instruction stream is decoded with an operand-width table DERIVED AT RUN TIME from the `switch
//     instruction` of (*Thread).run() in /repo/vm/thread.go (go/ast) and cross-checked, instruction by
//     instruction, against (*BytecodeFunction).DisassembleInstruction; Disassemble must return no error;
//   - jump/loop/skip targets, catch entries and break/continue-through-finally offsets are instruction
//     boundaries inside the function; constant-pool, local, upvalue and call-site indices are in range and of
//     the kind the instruction expects; closures capture as many variables as their function declares;
//   - a worklist exploration of the abstract states (pc, operand stack of abstract values) follows every
//     control-flow edge (fallthrough, both jump outcomes, loop back edges, catch-entry edges, return/break/
//     continue through finally, generator/promise bodies, await) with a hand-written stack-effect table:
//     the depth never drops below the frame's locals, every pc outside a do..finally section has one depth;
//   - the stack-effect table is validated by conformance: the same programs run on a VM built with an
//     overlay probe that records (function, pc, sp-fp) for every executed instruction; every observed depth must
//     be a depth the exploration computed for that pc.
package main

import (
	"fmt"
	"os"
	"sort"
	"strings"
	"time"

	"github.com/elk-language/elk/bitfield"
	"github.com/elk-language/elk/types/checker"
	"github.com/elk-language/elk/vm"

	"verifharness/elkrun"
	"verifharness/engine"
)

var model *vmModel

func compileWith(src string, abort bool) (*vm.BytecodeFunction, elkrun.Result) {
	var flags bitfield.BitField16
	if abort {
		flags = bitfield.BitField16FromBitFlag(checker.AdditionalAbortChecks)
	}
	return elkrun.Compile(src, &elkrun.Options{Flags: flags})
}

type program struct {
	id, construct, src string
	pool               bool // needs a thread pool (async)
	norun              bool
}

// checkProgram compiles p in one mode, verifies every function and (when the probe is built in) runs it.
func checkProgram(r *engine.R, p program, abort bool) {
	mode := "plain"
	if abort {
		mode = "abort-checks"
	}
	if os.Getenv("C29_SHOW_REJECTED") != "" {
		fmt.Fprintf(os.Stderr, "PROGRAM %s %s\n", p.id, mode)
	}
	fn, res := compileWith(p.src, abort)
	r.Eval(1)
	switch {
	case res.Panic != "":
		// a crash of the front end is C03/C12's property; recorded, not judged here
		r.Count("compiler_panics(not judged here)", 1)
		r.Outcome("front-end panic")
		if os.Getenv("C29_SHOW_REJECTED") != "" {
			fmt.Fprintf(os.Stderr, "FRONTPANIC %s %s\n", p.id, res.PanicSig)
		}
		return
	case fn == nil:
		r.Count("rejected_by_checker", 1)
		r.Outcome("rejected")
		if os.Getenv("C29_SHOW_REJECTED") != "" {
			fmt.Fprintf(os.Stderr, "REJECTED %s\n%s\n%s\n", p.id, p.src, res.Diags)
		}
		r.Note("rejected: " + p.id + ": " + firstLine(res.Diags))
		return
	}
	r.NT(1)
	funcs := collectFunctions(fn)
	reports := map[*vm.BytecodeFunction]*funcReport{}
	clean := true
	for _, f := range funcs {
		fr := verifyFunction(f, model)
		reports[f] = fr
		account(r, p, mode, fr)
		if len(fr.findings) > 0 {
			clean = false
		}
	}
	if clean {
		r.Outcome("all functions valid")
	}
	if p.norun || !probeAvailable {
		if p.norun {
			r.Count("programs_verified_statically_only(known to corrupt memory when run: tail-call closure terms)", 1)
		}
		return
	}
	for _, fr := range reports {
		if fr.broken || fr.unbounded {
			// a function whose operand stack is known to run into its locals / to grow without bound: running it
			// adds nothing and can take the worker process down
			r.Count("programs_not_run_because_of_a_static_stack_finding", 1)
			return
		}
		for _, f := range fr.findings {
			if !strings.HasPrefix(f.sig, "decode: ") && !strings.HasPrefix(f.sig, "disassembler: ") {
				// e.g. an upvalue index out of range: the run would only show the Go panic the finding predicts (and
				// on a pool thread such a panic kills the process)
				r.Count("programs_not_run_because_of_a_static_structural_finding", 1)
				return
			}
		}
		// The VM does not unwind the operand stack when an error is caught (this check's finding "catch handler
		// entered with leftover operands"). When the do..catch is itself an operand of an enclosing expression the
		// leftovers shift that expression's operands and the VM reads wrong slots (observed: nil dereference in
		// opNewArrayList, SIGSEGV in opNewHashMap). Such programs are verified statically only; do..catch in
		// statement position still runs and shows the defect without corrupting anything.
		for _, ce := range fr.fn.CatchEntries {
			if ce.Finally || ce.From >= ce.To {
				continue
			}
			if ds := fr.depths[ce.From]; len(ds) > 0 && ds[0] > fr.nlocals {
				r.Count("programs_not_run_because_a_catch_sits_inside_an_expression_with_pending_operands", 1)
				return
			}
		}
	}
	conform(r, p, mode, fn, reports)
}

func firstLine(s string) string {
	s = strings.TrimSpace(s)
	if i := strings.IndexByte(s, '\n'); i >= 0 {
		s = s[:i]
	}
	if len(s) > 160 {
		s = s[:160]
	}
	return s
}

func account(r *engine.R, p program, mode string, fr *funcReport) {
	r.Count("functions_verified", 1)
	for op := range fr.opsSeen {
		r.Count("emitted_op:"+op, 1)
	}
	r.Count("instructions_decoded", len(fr.instrs))
	r.AddStates(fr.states)
	r.AddTrans(fr.trans)
	if fr.emptyCatch > 0 {
		r.Count("empty_catch_ranges(generator reset markers, empty do bodies)", fr.emptyCatch)
	}
	if len(fr.poly) > 0 {
		r.Count("functions_with_do_finally_sections", 1)
	}
	if !fr.analysed && fr.decodeOK {
		r.Count("functions_not_depth_analysed", 1)
		for _, op := range fr.notAn {
			r.Count("not_depth_analysed_op:"+op, 1)
			if os.Getenv("C29_SHOW_REJECTED") != "" {
				fmt.Fprintf(os.Stderr, "NOTANALYSED %s %s %s\n", p.id, fr.name, op)
			}
		}
		if fr.capped {
			r.Count("functions_state_cap_hit", 1)
			r.Capped("abstract state cap hit in a function of " + p.id)
		}
		r.Outcome("function not depth-analysed")
	}
	for _, f := range fr.findings {
		r.Outcome("finding: " + f.sig)
		r.Violation(f.sig, fmt.Sprintf("construct=%s mode=%s\n%s\n--- program ---\n%s--- function %s ---\n%s", p.construct, mode, f.detail, p.src, fr.name, listing(fr.fn)), p.src)
	}
}

func main() {
	engine.Main(&engine.Spec{
		Prop:  "C29",
		Level: "model_checking",
		Rule: "programs: " + spaceRule + "; each compiled with and without AdditionalAbortChecks; every BytecodeFunction reachable through the constant pools is decoded " +
			"(operand widths derived from vm/thread.go at run time, cross-checked against DisassembleInstruction), structurally checked and explored as abstract states " +
			"(pc, operand stack of abstract values) over all control-flow edges; states/transitions count the abstract exploration, traces_validated counts VM depth observations " +
			"(function, pc, sp-fp) that were compared with the model; non-trivial = accepted program x compile mode (enumerated without repetition)",
		Assume: []string{
			"the stack-effect table is hand-written; it is trusted only as far as the depth probe confirms it (opcodes never executed by the space are listed in the evidence)",
			"a do..finally section (handler up to the end of the finally dispatch code) is entered with several operand depths by design of the compiler (flag protocol TRUE/FALSE/NIL/UNDEFINED); a single depth per pc is required outside these sections only",
			"method bodies compiled one at a time (MethodCheckConcurrencyLimit=1)",
		},
		CaseTimeout:      120 * time.Second,
		QuickDeadline:    12 * time.Minute,
		ThoroughDeadline: 60 * time.Minute,
		Setup: func(c *engine.Ctx) {
			elkrun.Init()
			m, err := loadVMModel(threadSource())
			if err != nil {
				fmt.Fprintln(os.Stderr, "cannot derive the instruction encoding from vm/thread.go:", err)
				os.Exit(2)
			}
			model = m
		},
		Run:    run,
		Finish: finish,
	})
}

// finish condenses the per-opcode counters: which opcodes the space emits, which of them the VM executed under
// the probe, and which entries of the stack-effect table were therefore never confirmed by conformance.
func finish(a *engine.Agg) {
	emitted, executed := map[string]bool{}, map[string]bool{}
	for k := range a.Counters {
		if strings.HasPrefix(k, "emitted_op:") {
			emitted[strings.TrimPrefix(k, "emitted_op:")] = true
			delete(a.Counters, k)
		}
		if strings.HasPrefix(k, "executed_op:") {
			executed[strings.TrimPrefix(k, "executed_op:")] = true
			delete(a.Counters, k)
		}
	}
	var notExec, notEmitted []string
	for op := range emitted {
		if !executed[op] {
			notExec = append(notExec, op)
		}
	}
	for op := range effects {
		if !emitted[op] {
			notEmitted = append(notEmitted, op)
		}
	}
	sort.Strings(notExec)
	sort.Strings(notEmitted)
	a.Counters["opcodes_emitted_by_the_space"] = int64(len(emitted))
	a.Counters["opcodes_executed_under_the_probe"] = int64(len(executed))
	a.Counters["stack_effect_table_entries"] = int64(len(effects))
	a.Notes = append([]string{
		"opcodes emitted but never executed under the probe (their stack effect is checked statically only): " + strings.Join(notExec, ","),
		"opcodes with a stack-effect entry that no program of the space emits: " + strings.Join(notEmitted, ","),
	}, a.Notes...)
}

func run(c *engine.Ctx) {
	if f := os.Getenv("C29_DUMP"); f != "" {
		dump(f)
		return
	}
	c.Case("encoding-table", func(r *engine.R) { encodingTable(r) })
	enumerate(c)
}

// encodingTable: every opcode the bytecode package defines, one synthetic instruction each: the operand width
// the VM loop reads must be the width DisassembleInstruction skips.
func encodingTable(r *engine.R) {
	var probs []string
	for _, n := range model.caseOrder {
		probs = append(probs, model.shapes[n].problems...)
	}
	for _, n := range model.notes {
		probs = append(probs, n)
	}
	if len(probs) > 0 {
		// the derivation itself is unsure: not a defect of elk, an infrastructure problem of this check
		r.Violation("INFRA operand-width derivation from vm/thread.go is ambiguous", strings.Join(probs, "\n"), nil)
	}
	names := opcodeNames()
	r.Count("opcodes_defined", len(names))
	r.Count("opcodes_handled_by_vm_loop", len(model.shapes))
	var missingVM []string
	for code, name := range names {
		r.Eval(1)
		sh := model.shapes[name]
		if sh == nil {
			missingVM = append(missingVM, name)
			continue
		}
		r.NT(1)
		syntheticCheck(r, code, name, sh)
	}
	sort.Strings(missingVM)
	r.Note("opcodes defined in bytecode/opcode.go without a case in the VM loop (a violation only if the compiler emits them): " + strings.Join(missingVM, ","))
	r.Sample("derived encoding: " + sampleTable())
}
