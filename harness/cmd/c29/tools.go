package main

import (
	"fmt"
	"os"
	"sort"
	"strings"

	"github.com/elk-language/elk/bytecode"
	"github.com/elk-language/elk/position"
	"github.com/elk-language/elk/value"
	"github.com/elk-language/elk/vm"

	"verifharness/elkrun"
	"verifharness/engine"
)

// opcodeNames lists the opcodes bytecode/opcode.go defines (by probing OpCode.String()).
func opcodeNames() map[int]string {
	out := map[int]string{}
	for i := 0; i < 256; i++ {
		n := opName(bytecode.OpCode(i))
		if strings.HasPrefix(n, "OP_") {
			continue
		}
		out[i] = n
	}
	return out
}

// syntheticCheck: one instruction of the opcode with zero operands (closures: an empty upvalue list): the
// disassembler must advance exactly past the operands the VM loop reads.
func syntheticCheck(r *engine.R, code int, name string, sh *opShape) {
	var ins []byte
	ins = append(ins, byte(code))
	want := 1
	if sh.width == -1 {
		ins = append(ins, vm.ClosureTerminatorFlag)
		want = 2
	} else {
		for i := 0; i < sh.width; i++ {
			ins = append(ins, 0)
		}
		want = 1 + sh.width
	}
	ins = append(ins, byte(bytecode.NOOP), byte(bytecode.NOOP), byte(bytecode.NOOP), byte(bytecode.NOOP))
	vals := []value.Value{value.ToSymbol("a").ToValue(), value.ToSymbol("b").ToValue(), value.ToSymbol("c").ToValue(), value.ToSymbol("d").ToValue()}
	fn := vm.NewBytecodeFunction(value.ToSymbol("synthetic"), ins, position.ZeroLocation, bytecode.LineInfoList{bytecode.NewLineInfo(1, len(ins))}, 0, 0, vals)
	next, err, pan := disasmOne(fn, 0)
	switch {
	case pan != "":
		r.Outcome("disassembler panic")
		r.Violation(fmt.Sprintf("disassembler: panic on %s (%s)", name, pan),
			fmt.Sprintf("DisassembleInstruction on a function consisting of %s with zero operands panicked: %s\ninstructions: % X", name, pan, ins), nil)
	case err != nil:
		r.Outcome("disassembler error")
		r.Violation(fmt.Sprintf("disassembler: error on %s (%s)", name, normErr(err.Error())),
			fmt.Sprintf("DisassembleInstruction on a function consisting of %s with zero operands returned %q (the VM loop executes this opcode)\ninstructions: % X", name, err, ins), nil)
	case next != want:
		r.Outcome("width differs")
		r.Violation(fmt.Sprintf("decode: %s operand width differs (vm=%d disassembler=%d)", name, want-1, next-1),
			fmt.Sprintf("the case for bytecode.%s in (*Thread).run() reads %d operand byte(s) (layout %q); DisassembleInstruction advances by %d byte(s) after the opcode\ninstructions: % X", name, want-1, sh.layout, next-1, ins), nil)
	default:
		r.Outcome("width agrees")
	}
}

func sampleTable() string {
	var l []string
	for _, n := range []string{"LOAD_VALUE8", "BOX_LOCAL16", "NEW_REGEX16", "JUMP_UNLESS", "LOOP", "CLOSURE", "AWAIT", "SET_UPVALUE8", "JUMP_TO_FINALLY"} {
		if s := model.shapes[n]; s != nil {
			d := fmt.Sprintf("%s:width=%d layout=%q", n, s.width, s.layout)
			if s.jump == jForward {
				d += fmt.Sprintf(" forward-jump(base=pc+1+%d)", s.jumpBase)
			}
			if s.jump == jBackward {
				d += fmt.Sprintf(" backward-jump(base=pc+1+%d)", s.jumpBase)
			}
			if s.skipNext {
				d += " may-skip-next"
			}
			if s.absolute {
				d += " absolute-jump"
			}
			l = append(l, d)
		}
	}
	return strings.Join(l, "; ")
}

// dump is a development aid: C29_DUMP=file.elk bin/c29 --worker 0/1 --journal /dev/null prints the reports.
func dump(file string) {
	b, err := os.ReadFile(file)
	if err != nil {
		fmt.Fprintln(os.Stderr, err)
		return
	}
	for _, abort := range []bool{false, true} {
		fn, res := compileWith(string(b), abort)
		if fn == nil {
			fmt.Fprintf(os.Stderr, "rejected/panic: %s %s\n", res.Diags, res.Panic)
			return
		}
		for _, f := range collectFunctions(fn) {
			fr := verifyFunction(f, model)
			fmt.Fprintf(os.Stderr, "== %s abort=%v instrs=%d states=%d trans=%d analysed=%v notAn=%v nlocals=%d poly=%v\n", fr.name, abort, len(fr.instrs), fr.states, fr.trans, fr.analysed, fr.notAn, fr.nlocals, fr.poly)
			if os.Getenv("C29_DUMP_LIST") != "" {
				fmt.Fprintln(os.Stderr, listing(f))
				var pcs []int
				for pc := range fr.depths {
					pcs = append(pcs, pc)
				}
				sort.Ints(pcs)
				for _, pc := range pcs {
					fmt.Fprintf(os.Stderr, "  %04d %-18s depths=%v\n", pc, fr.at[pc].name, fr.depths[pc])
				}
				for _, ce := range f.CatchEntries {
					fmt.Fprintf(os.Stderr, "  catch %+v\n", *ce)
				}
			}
			for _, fd := range fr.findings {
				fmt.Fprintf(os.Stderr, "  FINDING %s\n    %s\n", fd.sig, fd.detail)
			}
		}
		if probeAvailable {
			r := &engine.R{}
			reports := map[*vm.BytecodeFunction]*funcReport{}
			for _, f := range collectFunctions(fn) {
				reports[f] = verifyFunction(f, model)
			}
			conform(r, program{id: "dump", construct: "dump", src: string(b), pool: strings.Contains(string(b), "async")}, fmt.Sprint("abort=", abort), fn, reports)
			elkrun.ResetRuntime()
			fmt.Fprintf(os.Stderr, "conformance: validated=%d counters=%v outcomes=%v\n", r.Validated, r.Counters, r.Outcomes)
			for _, v := range r.Viol {
				fmt.Fprintf(os.Stderr, "  CONFORMANCE VIOLATION %s\n    %s\n", v.Sig, firstLines(v.Detail, 12))
			}
		}
	}
}

func firstLines(s string, n int) string {
	l := strings.Split(s, "\n")
	if len(l) > n {
		l = l[:n]
	}
	return strings.Join(l, "\n    ")
}
