package main

// E4 bcverify: decoding, structural checks and abstract stack exploration of one vm.BytecodeFunction.

import (
	"encoding/binary"
	"fmt"
	"io"
	"reflect"
	"sort"
	"strings"

	"github.com/elk-language/elk/bytecode"
	"github.com/elk-language/elk/value"
	"github.com/elk-language/elk/vm"
)

// ------------------------------------------------------------------------------------------------
// findings

type finding struct {
	sig    string
	detail string
}

type funcReport struct {
	fn         *vm.BytecodeFunction
	name       string
	instrs     []*instr
	at         map[int]*instr // by offset
	findings   []finding
	decodeOK   bool
	analysed   bool     // the abstract exploration ran to completion
	notAn      []string // opcodes without a stack effect entry (function not depth-analysed)
	states     int
	trans      int
	depths     map[int][]int // pc -> sorted set of abstract depths
	nlocals    int           // self + parameters + PREP_LOCALS
	entry      int
	poly       [][2]int     // [H, END) regions in which several depths per pc are expected (do ... finally)
	handlers   map[int]bool // JumpAddress of non-finally catch entries
	opsSeen    map[string]int
	capped     bool
	emptyCatch int
	broken     bool   // an operand stack underflow was found: the depths after it mean nothing
	unbounded  bool   // the depth at some pc keeps growing (a cycle with a positive net effect)
	genEnd     int    // generator functions: offset of the final STOP_ITERATION (len-4), else -1
	kind       string // plain | generator | async
	joinPC     int
}

func (fr *funcReport) add(sig, detail string) {
	for _, f := range fr.findings {
		if f.sig == sig {
			return
		}
	}
	fr.findings = append(fr.findings, finding{sig, detail})
}

// ------------------------------------------------------------------------------------------------
// decoding

type closEntry struct {
	local bool
	index int
}

type instr struct {
	pc, next int
	op       bytecode.OpCode
	name     string
	operands []int // per the VM's read layout
	target   int   // relative jumps: absolute target offset, else -1
	clos     []closEntry
	shape    *opShape
}

func opName(op bytecode.OpCode) (s string) {
	defer func() {
		if recover() != nil {
			s = fmt.Sprintf("OP_%d", byte(op))
		}
	}()
	s = op.String()
	if s == "" || s == "UNKNOWN" {
		s = fmt.Sprintf("OP_%d", byte(op))
	}
	return
}

func fnLabel(fn *vm.BytecodeFunction) string {
	n := fn.Name().String()
	if len(n) > 40 {
		n = n[:40]
	}
	return n
}

// decodeClosure mirrors (*Thread).opClosure: flag bytes until the terminator, each followed by an 8- or 16-bit index.
func decodeClosure(code []byte, at int) (entries []closEntry, next int, err string) {
	i := at
	for {
		if i >= len(code) {
			return entries, i, "closure upvalue list runs past the end of the function (no terminator)"
		}
		flag := code[i]
		i++
		if flag == vm.ClosureTerminatorFlag {
			return entries, i, ""
		}
		long := flag&byte(vm.UpvalueLongIndexFlag) != 0
		local := flag&byte(vm.UpvalueLocalFlag) != 0
		var idx int
		if long {
			if i+2 > len(code) {
				return entries, len(code), "closure upvalue index runs past the end of the function"
			}
			idx = int(binary.BigEndian.Uint16(code[i:]))
			i += 2
		} else {
			if i+1 > len(code) {
				return entries, len(code), "closure upvalue index runs past the end of the function"
			}
			idx = int(code[i])
			i++
		}
		entries = append(entries, closEntry{local, idx})
	}
}

func decode(fn *vm.BytecodeFunction, model *vmModel, fr *funcReport) {
	code := fn.Instructions
	fr.at = map[int]*instr{}
	fr.opsSeen = map[string]int{}
	fr.decodeOK = true
	pc := 0
	for pc < len(code) {
		op := bytecode.OpCode(code[pc])
		name := opName(op)
		sh := model.shapes[name]
		in := &instr{pc: pc, op: op, name: name, target: -1, shape: sh}
		if sh == nil {
			fr.add("decode: opcode "+name+" is emitted by the compiler but not handled by the VM loop",
				fmt.Sprintf("function %s offset %d: opcode %s (%d) has no case in (*Thread).run()", fr.name, pc, name, byte(op)))
			fr.decodeOK = false
			return
		}
		fr.opsSeen[name]++
		at := pc + 1
		if sh.width == -1 {
			ents, next, err := decodeClosure(code, at)
			if err != "" {
				fr.add("decode: "+name+" "+err, fmt.Sprintf("function %s offset %d", fr.name, pc))
				fr.decodeOK = false
				return
			}
			in.clos = ents
			in.next = next
		} else {
			if at+sh.width > len(code) {
				fr.add("decode: operands of "+name+" run past the end of the function",
					fmt.Sprintf("function %s offset %d: %d operand byte(s) needed, %d left", fr.name, pc, sh.width, len(code)-at))
				fr.decodeOK = false
				return
			}
			for _, c := range sh.layout {
				switch c {
				case '1':
					in.operands = append(in.operands, int(code[at]))
					at++
				case '2':
					in.operands = append(in.operands, int(binary.BigEndian.Uint16(code[at:])))
					at += 2
				case '4':
					in.operands = append(in.operands, int(binary.BigEndian.Uint32(code[at:])))
					at += 4
				}
			}
			in.next = pc + 1 + sh.width
			if sh.jump != jNone {
				dist := int(binary.BigEndian.Uint16(code[pc+1+sh.jumpOpAt:]))
				base := pc + 1 + sh.jumpBase
				if sh.jump == jForward {
					in.target = base + dist
				} else {
					in.target = base - dist
				}
			}
		}
		fr.instrs = append(fr.instrs, in)
		fr.at[pc] = in
		pc = in.next
	}
	if pc != len(code) {
		fr.add("decode: linear decode does not end at the end of the instruction array",
			fmt.Sprintf("function %s: decode ends at %d, len(Instructions)=%d", fr.name, pc, len(code)))
		fr.decodeOK = false
	}
}

// crossCheckDisassembler compares, instruction by instruction, the next offset computed from the VM loop with
// the one DisassembleInstruction returns, and runs Disassemble on the function.
func crossCheckDisassembler(fn *vm.BytecodeFunction, fr *funcReport) {
	for _, in := range fr.instrs {
		next, err, pan := disasmOne(fn, in.pc)
		switch {
		case pan != "":
			fr.add(fmt.Sprintf("disassembler: panic on %s (%s)", in.name, pan),
				fmt.Sprintf("function %s offset %d: DisassembleInstruction panicked: %s", fr.name, in.pc, pan))
		case err != nil:
			fr.add(fmt.Sprintf("disassembler: error on %s (%s)", in.name, normErr(err.Error())),
				fmt.Sprintf("function %s offset %d: DisassembleInstruction returned error %q", fr.name, in.pc, err))
		case next != in.next:
			fr.add(fmt.Sprintf("decode: %s operand width differs (vm=%d disassembler=%d)", in.name, in.next-in.pc-1, next-in.pc-1),
				fmt.Sprintf("function %s offset %d: the VM loop consumes %d operand byte(s) of %s, DisassembleInstruction advances by %d", fr.name, in.pc, in.next-in.pc-1, in.name, next-in.pc-1))
		}
	}
	// the whole-function disassembly as the tooling runs it
	func() {
		defer func() {
			if p := recover(); p != nil {
				ops := culpritOps(fr)
				fr.add("disassembler: Disassemble panics ("+normErr(fmt.Sprint(p))+")"+ops,
					fmt.Sprintf("function %s: Disassemble panicked: %v", fr.name, p))
			}
		}()
		for _, f := range fr.findings {
			if strings.HasPrefix(f.sig, "decode: ") || strings.HasPrefix(f.sig, "disassembler: ") {
				return // DisassembleInstruction already failed on an instruction: whatever Disassemble does is a consequence
			}
		}
		if err := disassembleNoNested(fn); err != nil {
			fr.add("disassembler: Disassemble returns an error ("+normErr(err.Error())+")",
				fmt.Sprintf("function %s: Disassemble returned %q", fr.name, err))
		}
	}()
}

// culpritOps names the opcodes of the function on which the per-instruction cross-check already disagreed.
func culpritOps(fr *funcReport) string {
	var ops []string
	for _, f := range fr.findings {
		if strings.HasPrefix(f.sig, "decode: ") && strings.Contains(f.sig, "operand width differs") {
			ops = append(ops, strings.Fields(f.sig)[1])
		}
	}
	if len(ops) == 0 {
		return ""
	}
	sort.Strings(ops)
	return " after desync on " + strings.Join(ops, ",")
}

func normErr(s string) string {
	s = numRe.ReplaceAllString(s, "N")
	if len(s) > 80 {
		s = s[:80]
	}
	return s
}

func disasmOne(fn *vm.BytecodeFunction, pc int) (next int, err error, pan string) {
	defer func() {
		if p := recover(); p != nil {
			pan = normErr(fmt.Sprint(p))
		}
	}()
	next, err = fn.DisassembleInstruction(io.Discard, pc)
	return
}

// disassembleNoNested runs the loop of Disassemble without descending into nested functions (their own
// reports cover them; Disassemble ignores their errors anyway).
func disassembleNoNested(fn *vm.BytecodeFunction) error {
	if len(fn.Instructions) == 0 {
		return nil
	}
	offset := 0
	for {
		next, err := fn.DisassembleInstruction(io.Discard, offset)
		if err != nil {
			return err
		}
		if next <= offset {
			return fmt.Errorf("disassembler does not advance at offset %d", offset)
		}
		offset = next
		if offset >= len(fn.Instructions) {
			return nil
		}
	}
}

// ------------------------------------------------------------------------------------------------
// operand roles (what an operand indexes)

func hasPrefixAny(s string, ps ...string) bool {
	for _, p := range ps {
		if strings.HasPrefix(s, p) {
			return true
		}
	}
	return false
}

// implicitIndex returns the index encoded in an opcode name like GET_LOCAL_3 / LOAD_VALUE_0.
func implicitIndex(name string) (int, bool) {
	i := strings.LastIndexByte(name, '_')
	if i < 0 || i+2 != len(name) {
		return 0, false
	}
	c := name[i+1]
	if c < '0' || c > '9' {
		return 0, false
	}
	return int(c - '0'), true
}

func localIndexOf(in *instr) int {
	n := in.name
	if hasPrefixAny(n, "GET_LOCAL", "SET_LOCAL", "BOX_LOCAL") {
		if strings.HasSuffix(n, "8") || strings.HasSuffix(n, "16") {
			return in.operands[0]
		}
		if k, ok := implicitIndex(n); ok {
			return k
		}
	}
	return -1
}

func upvalueIndexOf(in *instr) int {
	n := in.name
	if hasPrefixAny(n, "GET_UPVALUE", "SET_UPVALUE") {
		if strings.HasSuffix(n, "8") || strings.HasSuffix(n, "16") {
			return in.operands[0]
		}
		if k, ok := implicitIndex(n); ok {
			return k
		}
	}
	return -1
}

func valueIndexOf(in *instr) int {
	n := in.name
	if hasPrefixAny(n, "LOAD_VALUE", "GET_CONST", "CALL_METHOD", "CALL8", "CALL16", "NEXT", "GET_IVAR_NAME", "SET_IVAR_NAME") {
		if strings.HasPrefix(n, "LOAD_VALUE_") {
			k, _ := implicitIndex(n)
			return k
		}
		if len(in.operands) > 0 {
			return in.operands[0]
		}
	}
	return -1
}

func refOf(v value.Value) any {
	if !v.IsReference() {
		return nil
	}
	return v.AsReference()
}

func kindOf(v value.Value) string {
	if v.IsUndefined() {
		return "undefined"
	}
	if r := refOf(v); r != nil {
		return reflect.TypeOf(r).String()
	}
	if v.IsInlineSymbol() {
		return "Symbol"
	}
	if v.IsSmallInt() {
		return "SmallInt"
	}
	return "inline value"
}

// ------------------------------------------------------------------------------------------------
// structural checks

func structural(fn *vm.BytecodeFunction, fr *funcReport) {
	n := len(fn.Instructions)
	fr.genEnd = -1
	fr.kind = "plain"
	if strings.HasPrefix(fr.name, "<defer>") {
		fr.kind = "defer-closure"
	}
	if fr.opsSeen["PROMISE"] > 0 {
		fr.kind = "async"
	}
	if fr.opsSeen["GENERATOR"] > 0 {
		fr.kind = "generator"
		// CallGeneratorNext parks a failed generator at Instructions[len-4]: STOP_ITERATION followed by a 3-byte LOOP
		if in := fr.at[n-4]; in != nil && in.name == "STOP_ITERATION" && fr.at[n-3] != nil && fr.at[n-3].name == "LOOP" {
			fr.genEnd = n - 4
		} else {
			fr.add("generator function does not end with STOP_ITERATION, LOOP (the VM parks a finished generator at len-4)", fmt.Sprintf("function %s", fr.name))
		}
	}
	// jump targets
	for _, in := range fr.instrs {
		if in.target >= 0 || in.shape.jump != jNone {
			if in.target < 0 || in.target >= n {
				fr.add("jump target outside the function op="+in.name,
					fmt.Sprintf("function %s offset %d: %s jumps to %d, function has %d bytes", fr.name, in.pc, in.name, in.target, n))
			} else if fr.at[in.target] == nil {
				fr.add("jump target not on an instruction boundary op="+in.name,
					fmt.Sprintf("function %s offset %d: %s jumps to %d which is inside the instruction at %d", fr.name, in.pc, in.name, in.target, enclosing(fr, in.target)))
			}
		}
		if in.shape.skipNext {
			nx := fr.at[in.next]
			if nx == nil || nx.next != nx.pc+1 {
				fr.add("skip target not on an instruction boundary op="+in.name,
					fmt.Sprintf("function %s offset %d: %s may skip one byte but the next instruction is not one byte long", fr.name, in.pc, in.name))
			}
		}
	}
	// catch entries
	fr.handlers = map[int]bool{}
	for i, ce := range fn.CatchEntries {
		desc := fmt.Sprintf("function %s catch entry #%d {From:%d To:%d JumpAddress:%d Finally:%v}", fr.name, i, ce.From, ce.To, ce.JumpAddress, ce.Finally)
		if ce.JumpAddress < 0 || ce.JumpAddress >= n {
			fr.add("catch entry JumpAddress outside the function", desc)
		} else if fr.at[ce.JumpAddress] == nil {
			fr.add("catch entry JumpAddress not on an instruction boundary", desc)
		}
		if !ce.Finally {
			fr.handlers[ce.JumpAddress] = true
		}
		if ce.Finally && fr.at[ce.JumpAddress] != nil {
			// the break/continue entry point is JumpAddress+4 (jumpToFinallyForBreakOrContinue)
			if fr.at[ce.JumpAddress+4] == nil {
				fr.add("finally entry JumpAddress+4 not on an instruction boundary", desc)
			}
		}
		if ce.From == ce.To {
			// an empty range can never match `ip > From && ip <= To`: the generator reset marker (-1,-1 before
			// PREP_LOCALS shifts it) and do blocks with an empty body
			fr.emptyCatch++
			continue
		}
		if ce.From > ce.To {
			fr.add("catch entry From > To", desc)
			continue
		}
		if ce.From < 0 || ce.From >= n || fr.at[ce.From] == nil {
			fr.add("catch entry From not on an instruction boundary inside the function", desc)
		}
		if ce.To < 0 || ce.To > n || (ce.To < n && fr.at[ce.To] == nil) {
			fr.add("catch entry To not on an instruction boundary inside the function", desc)
		}
	}
	// index operands
	fr.entry = fn.ParameterCount() + 1
	fr.nlocals = fr.entry
	for i, in := range fr.instrs {
		if strings.HasPrefix(in.name, "PREP_LOCALS") {
			if i != 0 {
				fr.add("PREP_LOCALS is not the first instruction", fmt.Sprintf("function %s offset %d", fr.name, in.pc))
			}
			fr.nlocals += in.operands[0]
		}
	}
	for _, in := range fr.instrs {
		if li := localIndexOf(in); li >= 0 && li >= fr.nlocals {
			fr.add("local index out of range op="+strip816(in.name),
				fmt.Sprintf("function %s offset %d: %s uses local %d, the frame has %d slots (self + %d parameters + PREP_LOCALS)", fr.name, in.pc, in.name, li, fr.nlocals, fn.ParameterCount()))
		}
		if strings.HasPrefix(in.name, "CLOSE_UPVALUES_TO") {
			k := -1
			if len(in.operands) > 0 {
				k = in.operands[0]
			} else if v, ok := implicitIndex(in.name); ok {
				k = v
			}
			if k > fr.nlocals {
				fr.add("local index out of range op=CLOSE_UPVALUES_TO",
					fmt.Sprintf("function %s offset %d: %s %d, the frame has %d slots", fr.name, in.pc, in.name, k, fr.nlocals))
			}
		}
		if ui := upvalueIndexOf(in); ui >= 0 && ui >= fn.UpvalueCount {
			fr.add("upvalue index out of range op="+strip816(in.name),
				fmt.Sprintf("function %s offset %d: %s uses upvalue %d, UpvalueCount=%d", fr.name, in.pc, in.name, ui, fn.UpvalueCount))
		}
		for _, ce := range in.clos {
			if ce.local && ce.index >= fr.nlocals {
				fr.add("closure captures a local out of range op="+in.name,
					fmt.Sprintf("function %s offset %d: captures local %d, the frame has %d slots", fr.name, in.pc, ce.index, fr.nlocals))
			}
			if !ce.local && ce.index >= fn.UpvalueCount {
				fr.add("closure captures an upvalue out of range op="+in.name,
					fmt.Sprintf("function %s offset %d: captures upvalue %d, UpvalueCount=%d", fr.name, in.pc, ce.index, fn.UpvalueCount))
			}
		}
		if vi := valueIndexOf(in); vi >= 0 {
			if vi >= len(fn.Values) {
				fr.add("value index out of range op="+strip816(in.name),
					fmt.Sprintf("function %s offset %d: %s uses value %d, len(Values)=%d", fr.name, in.pc, in.name, vi, len(fn.Values)))
				continue
			}
			v := fn.Values[vi]
			want, ok := "", true
			switch {
			case hasPrefixAny(in.name, "GET_CONST", "GET_IVAR_NAME", "SET_IVAR_NAME"):
				want, ok = "Symbol", v.IsInlineSymbol()
			case hasPrefixAny(in.name, "CALL_METHOD_BC"):
				want = "*vm.BytecodeCallSiteInfo"
				ci, is := refOf(v).(*vm.BytecodeCallSiteInfo)
				ok = is && ci.Method != nil && ci.ArgumentCount >= 0
			case hasPrefixAny(in.name, "CALL_METHOD_NT"):
				want = "*vm.NativeCallSiteInfo"
				ci, is := refOf(v).(*vm.NativeCallSiteInfo)
				ok = is && ci.Method != nil && ci.ArgumentCount >= 0
			case hasPrefixAny(in.name, "CALL_METHOD", "CALL8", "CALL16", "NEXT"):
				want = "*vm.CallSiteInfo"
				ci, is := refOf(v).(*vm.CallSiteInfo)
				ok = is && ci.ArgumentCount >= 0
			}
			if !ok {
				fr.add("value of the wrong kind op="+strip816(in.name),
					fmt.Sprintf("function %s offset %d: %s expects a %s at value index %d, found %s", fr.name, in.pc, in.name, want, vi, kindOf(v)))
			}
		}
	}
	// do ... finally sections: [handler, END) where END is the target of the JUMP that precedes the handler
	for _, fe := range fn.CatchEntries {
		if !fe.Finally {
			continue
		}
		h := -1
		for _, ce := range fn.CatchEntries {
			if !ce.Finally && ce.From == fe.From && ce.To == fe.To {
				h = ce.JumpAddress
			}
		}
		if h < 0 {
			fr.add("finally entry without the matching catch entry", fmt.Sprintf("function %s finally entry {From:%d To:%d}", fr.name, fe.From, fe.To))
			continue
		}
		end := n
		for _, in := range fr.instrs {
			if in.next == h && in.name == "JUMP" && in.target > h {
				end = in.target
			}
		}
		fr.poly = append(fr.poly, [2]int{h, end})
	}
}

func strip816(n string) string {
	n = strings.TrimSuffix(n, "16")
	n = strings.TrimSuffix(n, "8")
	if i := strings.LastIndexByte(n, '_'); i >= 0 && i+2 == len(n) && n[i+1] >= '0' && n[i+1] <= '9' {
		n = n[:i]
	}
	return strings.TrimSuffix(n, "_")
}

func enclosing(fr *funcReport, off int) int {
	best := -1
	for _, in := range fr.instrs {
		if in.pc <= off && off < in.next {
			best = in.pc
		}
	}
	return best
}

func (fr *funcReport) inPoly(pc int) bool {
	if fr.genEnd >= 0 && pc >= fr.genEnd {
		// the closing STOP_ITERATION/LOOP pair of a generator is entered from every `return` and every uncaught
		// error with whatever the frame holds at that point
		return true
	}
	for _, r := range fr.poly {
		if pc >= r[0] && pc < r[1] {
			return true
		}
	}
	return false
}

// ------------------------------------------------------------------------------------------------
// abstract values and the exploration

type akind uint8

const (
	aTop akind = iota
	aUndef
	aNil
	aTrue
	aFalse
	aInt
	aVal // constant pool entry n
	aSel // the case index pushed by SELECT: n = bit mask of the indices still possible, id identifies the value
)

type aval struct {
	k  akind
	n  int32
	id int32
}

var top = aval{}

type astate struct {
	pc    int
	stack []aval
}

func (s astate) key() string {
	var b strings.Builder
	fmt.Fprintf(&b, "%d:%d", s.pc, len(s.stack))
	// only the non-top entries distinguish states of the same depth
	for i, v := range s.stack {
		if v.k != aTop {
			fmt.Fprintf(&b, ",%d=%d/%d/%d", i, v.k, v.n, v.id)
		}
	}
	return b.String()
}

const maxStatesPerFunction = 60000
const maxDepthsPerPC = 16

type explorer struct {
	fn    *vm.BytecodeFunction
	fr    *funcReport
	seen  map[string]bool
	work  []astate
	depth map[int]map[int]bool
	// for the join oracle: which instruction produced each (pc, depth)
	via map[[2]int]*instr
	sel int32
}

func (ex *explorer) push(from *instr, s astate) {
	ex.fr.trans++
	if s.pc < 0 || s.pc >= len(ex.fn.Instructions) || ex.fr.at[s.pc] == nil {
		// reported by the structural checks (or: falling off the end)
		if s.pc == len(ex.fn.Instructions) && from != nil {
			ex.fr.add("control falls off the end of the function after op="+from.name,
				fmt.Sprintf("function %s offset %d: %s continues at %d = len(Instructions)", ex.fr.name, from.pc, from.name, s.pc))
		}
		return
	}
	if ex.fr.unbounded {
		return
	}
	k := s.key()
	if ex.seen[k] {
		return
	}
	if len(ex.seen) >= maxStatesPerFunction {
		ex.fr.capped = true
		return
	}
	if ex.depth[s.pc] == nil {
		ex.depth[s.pc] = map[int]bool{}
	}
	if !ex.depth[s.pc][len(s.stack)] {
		if len(ex.depth[s.pc]) >= maxDepthsPerPC {
			ex.fr.unbounded = true
			ex.fr.joinPC = s.pc
			return
		}
		ex.depth[s.pc][len(s.stack)] = true
		if from != nil {
			ex.via[[2]int{s.pc, len(s.stack)}] = from
		}
	}
	ex.seen[k] = true
	ex.work = append(ex.work, s)
}

func cloneStack(s []aval, extra int) []aval {
	out := make([]aval, len(s), len(s)+extra)
	copy(out, s)
	return out
}

// joinPlace says what kind of place a pc is, for signatures: the exit of a loop (the instruction before it is a
// LOOP), the head of a loop (a LOOP jumps to it) or something else.
func joinPlace(fr *funcReport, pc int) string {
	for _, in := range fr.instrs {
		if in.name == "LOOP" && in.target == pc {
			return "at a loop head"
		}
	}
	for _, in := range fr.instrs {
		if in.next == pc && in.name == "LOOP" {
			return "at a loop exit"
		}
	}
	return "at " + strip816(fr.at[pc].name)
}

func explore(fn *vm.BytecodeFunction, fr *funcReport) {
	ex := &explorer{fn: fn, fr: fr, seen: map[string]bool{}, depth: map[int]map[int]bool{}, via: map[[2]int]*instr{}}
	// entry: self + parameters
	ex.push(nil, astate{0, make([]aval, fr.entry)})
	fr.trans-- // the entry is not a transition
	unknown := map[string]bool{}
	for len(ex.work) > 0 {
		s := ex.work[len(ex.work)-1]
		ex.work = ex.work[:len(ex.work)-1]
		in := fr.at[s.pc]
		// exception edge: a state at the first instruction of a protected range reaches the handler with
		// the operand stack it has here plus the stack trace and the error
		for _, ce := range fn.CatchEntries {
			if !ce.Finally && ce.From == s.pc && ce.From < ce.To {
				st := cloneStack(s.stack, 2)
				st = append(st, top, top)
				ex.push(in, astate{ce.JumpAddress, st})
			}
		}
		ex.step(s, in, unknown)
	}
	fr.states = len(ex.seen)
	fr.depths = map[int][]int{}
	for pc, ds := range ex.depth {
		var l []int
		for d := range ds {
			l = append(l, d)
		}
		sort.Ints(l)
		fr.depths[pc] = l
	}
	for op := range unknown {
		fr.notAn = append(fr.notAn, op)
	}
	sort.Strings(fr.notAn)
	fr.analysed = len(fr.notAn) == 0 && !fr.capped && !fr.broken && !fr.unbounded
	if len(fr.notAn) > 0 || fr.capped || fr.broken {
		return
	}
	viaName := func(pc, d int) string {
		if in := ex.via[[2]int{pc, d}]; in != nil {
			return strip816(in.name)
		}
		return "?"
	}
	if fr.unbounded {
		pc := fr.joinPC
		ds := fr.depths[pc]
		fr.add("operand stack grows without bound around a cycle (operands are not unwound by the jump; back edge via "+viaName(pc, ds[len(ds)-1])+")",
			fmt.Sprintf("function %s offset %d (%s, %s) is reached with depths %v and more: a cycle of the control-flow graph has a positive net stack effect", fr.name, pc, fr.at[pc].name, joinPlace(fr, pc), ds))
		return
	}
	// a single depth per pc outside do..finally sections
	var pcs []int
	for pc := range fr.depths {
		pcs = append(pcs, pc)
	}
	sort.Ints(pcs)
	for _, pc := range pcs {
		ds := fr.depths[pc]
		if len(ds) > 1 && !fr.inPoly(pc) {
			fr.add("operand stack depth differs where paths join (deeper path arrives via "+viaName(pc, ds[len(ds)-1])+")",
				fmt.Sprintf("function %s offset %d (%s, %s) is reached with depths %v (frame slots incl. %d locals), the deepest one over the edge from %s; the offset is not inside a do..finally section",
					fr.name, pc, fr.at[pc].name, joinPlace(fr, pc), ds, fr.nlocals, viaName(pc, ds[len(ds)-1])))
			break
		}
	}
}

// finallyEntryFor mirrors findFinallyCatchEntry for the ip the VM has while executing `in` (after its operands).
func finallyEntryFor(fn *vm.BytecodeFunction, in *instr) *vm.CatchEntry {
	ip := in.next
	for _, ce := range fn.CatchEntries {
		if ce.Finally && ip > ce.From && ip <= ce.To {
			return ce
		}
	}
	return nil
}

// refineSel narrows every copy of the select index with the given id.
func refineSel(st []aval, id int32, mask int32) {
	for i := range st {
		if st[i].k == aSel && st[i].id == id {
			st[i].n = mask
		}
	}
}

func (ex *explorer) step(s astate, in *instr, unknown map[string]bool) {
	fr, fn := ex.fr, ex.fn
	depth := len(s.stack)
	// nlocals in force: before PREP_LOCALS executes only self and the parameters exist
	floor := fr.nlocals
	if s.pc == 0 && strings.HasPrefix(in.name, "PREP_LOCALS") {
		floor = fr.entry
	}
	need := func(n int) bool {
		if depth-n < floor {
			fr.broken = true
			fr.add("operand stack underflow op="+strip816(in.name),
				fmt.Sprintf("%s function %s offset %d: %s needs %d operand(s), the frame holds %d slots of which %d are self/parameters/locals: the instruction consumes a local variable slot", fr.kind, fr.name, in.pc, in.name, n, depth, floor))
			return false
		}
		return true
	}
	peek := func(i int) aval { // i = 0: top
		if depth-1-i < 0 {
			return top
		}
		return s.stack[depth-1-i]
	}
	// generic effect: pop n, push vals, continue at pc
	goTo := func(pc, pop int, pushed ...aval) {
		st := cloneStack(s.stack[:depth-pop], len(pushed))
		st = append(st, pushed...)
		ex.push(in, astate{pc, st})
	}
	name := in.name
	e, ok := effects[name]
	if !ok {
		unknown[name] = true
		return
	}
	switch e.kind {
	case kPlain:
		pop, push := e.pop, e.push
		if e.dyn != nil {
			var msg string
			pop, push, msg = e.dyn(fn, in, s.stack)
			if msg != "" {
				fr.add(msg+" op="+strip816(name), fmt.Sprintf("function %s offset %d: %s", fr.name, in.pc, name))
				return
			}
		}
		if !need(pop) {
			return
		}
		vals := make([]aval, push)
		if e.val != nil && push > 0 {
			vals[push-1] = e.val(fn, in)
		}
		if e.keep { // the values below the popped ones are duplicated / reordered: handled by name
			switch name {
			case "DUP":
				vals = []aval{peek(0), peek(0)}
			case "DUP_2":
				vals = []aval{peek(1), peek(0), peek(1), peek(0)}
			case "DUP_SECOND":
				vals = []aval{peek(1), peek(0), peek(1)}
			case "SWAP":
				vals = []aval{peek(0), peek(1)}
			case "POP_SKIP_ONE", "POP_2_SKIP_ONE":
				vals = []aval{peek(0)}
			}
		}
		if e.check != nil {
			if msg := e.check(fn, fr, in, s.stack); msg != "" {
				fr.add(msg+" op="+strip816(name), fmt.Sprintf("function %s offset %d: %s", fr.name, in.pc, name))
			}
		}
		if strings.HasPrefix(name, "PREP_LOCALS") {
			vals = make([]aval, in.operands[0])
		}
		if name == "SELECT" {
			// [result, index]: the index is one of the cases of the Select value
			if t := topOf(s.stack); t.k == aVal {
				if sel, ok := refOf(fn.Values[t.n]).(*vm.Select); ok && len(sel.Cases) > 0 && len(sel.Cases) < 31 {
					ex.sel++
					vals[1] = aval{aSel, int32(1)<<uint(len(sel.Cases)) - 1, ex.sel}
				}
			}
		}
		goTo(in.next, pop, vals...)
	case kJump: // unconditional
		goTo(in.target, 0)
	case kCond:
		extra := e.popTaken
		if e.popFall > extra {
			extra = e.popFall
		}
		if !need(e.pop + extra) {
			return
		}
		takeJump, takeFall := true, true
		var selID, selJump, selFall int32 = 0, 0, 0
		if e.cmpEq != 0 {
			// comparison of the select index with a constant: only feasible outcomes are followed
			a, b := peek(0), peek(1)
			if a.k == aSel {
				a, b = b, a
			}
			if a.k == aInt && b.k == aSel && a.n >= 0 && a.n < 31 {
				bit := int32(1) << uint(a.n)
				eq, ne := b.n&bit, b.n&^bit
				selID = b.id
				if e.cmpEq > 0 { // jump if equal
					selJump, selFall = eq, ne
				} else { // jump unless equal
					selJump, selFall = ne, eq
				}
				takeJump, takeFall = selJump != 0, selFall != 0
			}
		}
		if e.flag != 0 { // a branch on the value on top that is not popped: prune with known constants
			v := peek(0)
			decided, j := false, false
			switch v.k {
			case aUndef:
				switch e.flag {
				case fUnlessUndef:
					decided, j = true, false
				case fIfNil:
					decided, j = true, false
				case fUnlessNil:
					decided, j = true, true
				}
			case aNil:
				decided = true
				j = e.flag == fUnlessUndef || e.flag == fIfNil || e.flag == fUnlessTruthy
			case aFalse:
				decided = true
				j = e.flag == fUnlessUndef || e.flag == fUnlessNil || e.flag == fUnlessTruthy
			case aTrue, aInt, aVal:
				decided = true
				j = e.flag == fUnlessUndef || e.flag == fUnlessNil || e.flag == fIfTruthy
			}
			if decided {
				takeJump, takeFall = j, !j
			}
		}
		if takeJump {
			st := cloneStack(s.stack, 0)
			if selID != 0 {
				refineSel(st, selID, selJump)
			}
			ex.push(in, astate{in.target, st[:depth-e.pop-e.popTaken]})
		}
		if takeFall {
			st := cloneStack(s.stack, e.pushFall)
			if selID != 0 {
				refineSel(st, selID, selFall)
			}
			st = st[:depth-e.pop-e.popFall]
			for i := 0; i < e.pushFall; i++ {
				st = append(st, top)
			}
			ex.push(in, astate{in.next, st})
		}
	case kReturn:
		if e.pop > 0 && !need(e.pop) {
			return
		}
	case kThrow:
		need(e.pop)
	case kStopIteration:
		// the marker is pushed and returned as an error; CallGeneratorNext parks the generator at the closing
		// STOP_ITERATION (len-4) with the frame as it is here
		if fr.genEnd >= 0 {
			goTo(fr.genEnd, 0)
		}
	case kReturnFinally:
		if !need(1) {
			return
		}
		if ce := finallyEntryFor(fn, in); ce != nil {
			goTo(ce.JumpAddress, 0)
		}
	case kJumpToFinally:
		if !need(2) {
			return
		}
		cnt, off := peek(0), peek(1)
		if cnt.k != aInt || off.k != aInt {
			unknown["JUMP_TO_FINALLY (operands not constant)"] = true
			return
		}
		if cnt.n > 0 {
			ce := finallyEntryFor(fn, in)
			if ce == nil {
				fr.add("JUMP_TO_FINALLY with a pending finally count but no enclosing finally entry",
					fmt.Sprintf("function %s offset %d: count=%d; the VM panics here", fr.name, in.pc, cnt.n))
				return
			}
			st := cloneStack(s.stack, 0)
			st[depth-1] = aval{k: aInt, n: cnt.n - 1}
			ex.push(in, astate{ce.JumpAddress + 4, st})
			return
		}
		tgt := int(off.n)
		if tgt < 0 || tgt >= len(fn.Instructions) || fr.at[tgt] == nil {
			fr.add("jump target not on an instruction boundary op=JUMP_TO_FINALLY",
				fmt.Sprintf("function %s offset %d: break/continue through finally continues at offset %d", fr.name, in.pc, tgt))
			return
		}
		goTo(tgt, 2)
	case kGenerator: // GENERATOR / PROMISE: push the object and fall through; the body resumes after the next one-byte instruction
		if !need(e.pop) {
			return
		}
		goTo(in.next, e.pop, top)
		nx := fr.at[in.next]
		if nx == nil || nx.next != nx.pc+1 {
			fr.add("generator body does not start on an instruction boundary op="+name, fmt.Sprintf("function %s offset %d", fr.name, in.pc))
			return
		}
		goTo(nx.next, e.pop)
	case kAwait:
		if !need(1) {
			return
		}
		goTo(in.next, 1, top)
		if nx := fr.at[in.next]; nx != nil {
			goTo(nx.next, 1, top)
		}
	case kTailCall:
		pop, _, msg := e.dyn(fn, in, s.stack)
		if msg != "" {
			fr.add(msg+" op="+strip816(name), fmt.Sprintf("function %s offset %d: %s", fr.name, in.pc, name))
			return
		}
		if !need(pop) {
			return
		}
		if !e.tailOnly(fn, in) {
			goTo(in.next, pop, top)
		}
	}
}

func verifyFunction(fn *vm.BytecodeFunction, model *vmModel) *funcReport {
	fr := &funcReport{fn: fn, name: fnLabel(fn)}
	if len(fn.Instructions) == 0 {
		fr.add("function with an empty instruction array", "function "+fr.name)
		return fr
	}
	decode(fn, model, fr)
	if !fr.decodeOK {
		return fr
	}
	crossCheckDisassembler(fn, fr)
	structural(fn, fr)
	explore(fn, fr)
	return fr
}

// collectFunctions walks the constant pools.
func collectFunctions(root *vm.BytecodeFunction) []*vm.BytecodeFunction {
	seen := map[*vm.BytecodeFunction]bool{}
	var out []*vm.BytecodeFunction
	var walk func(f *vm.BytecodeFunction)
	walk = func(f *vm.BytecodeFunction) {
		if f == nil || seen[f] {
			return
		}
		seen[f] = true
		out = append(out, f)
		for _, v := range f.Values {
			switch r := refOf(v).(type) {
			case *vm.BytecodeFunction:
				walk(r)
			case *vm.BytecodeCallSiteInfo:
				walk(r.Method)
			}
		}
	}
	walk(root)
	return out
}

func listing(fn *vm.BytecodeFunction) string {
	var b strings.Builder
	func() {
		defer func() {
			if p := recover(); p != nil {
				fmt.Fprintf(&b, "<Disassemble panicked: %v>", p)
			}
		}()
		offset := 0
		for offset < len(fn.Instructions) {
			next, err := fn.DisassembleInstruction(&b, offset)
			if err != nil || next <= offset {
				fmt.Fprintf(&b, "<error: %v>\n", err)
				break
			}
			offset = next
		}
	}()
	s := b.String()
	if len(s) > 2500 {
		s = s[:2500] + "…"
	}
	return s
}
