package main

// Derivation of the instruction encoding from the tree at run time: the `switch instruction` of
// (*Thread).run() in /repo/vm/thread.go is parsed with go/ast and, for every `case bytecode.X:`, the reads of
// operand bytes (vm.readByte / readUint16 / readUint32 / ipIncrementBy(<literal>)) are counted along every path
// through the case body, following calls of (*Thread) methods that read operands themselves. The same walk
// finds which opcodes transfer control and how their target is computed (ipIncrementBy(<operand>) = forward
// relative, ipDecrementBy(<operand>) = backward relative, ipSetOffset = absolute, ipIncrement() = skip the next
// one-byte instruction).

import (
	"encoding/json"
	"fmt"
	"go/ast"
	"go/parser"
	"go/token"
	"os"
	"path/filepath"
	"sort"
	"strconv"
	"strings"
)

type jumpKind int

const (
	jNone jumpKind = iota
	jForward
	jBackward
)

// opShape is what the VM loop does with the instruction stream for one opcode.
type opShape struct {
	name     string
	width    int      // operand bytes; -1 = variable (closure encoding)
	layout   string   // sizes of the operands in read order, e.g. "21" = a 16-bit then an 8-bit operand
	jump     jumpKind // relative jump whose distance is the last operand read
	jumpBase int      // operand bytes consumed when the jump is applied (target = pc + 1 + jumpBase ± operand)
	jumpOpAt int      // offset (within the operands) of the 16-bit distance
	skipNext bool     // calls ipIncrement(): may skip the following one-byte instruction
	absolute bool     // calls ipSetOffset directly (JUMP_TO_FINALLY)
	problems []string
}

type vmModel struct {
	shapes    map[string]*opShape // by opcode name
	caseOrder []string
	notes     []string
}

type pathState struct {
	consumed int
	lastAt   int // operand offset of the last read
	lastSize int
	excluded bool // the path ends by throwing / leaving the instruction before its operands matter
	jump     jumpKind
	jumpBase int
	jumpOpAt int
	skip     bool
	abs      bool
	variable bool
	layout   string
}

type widthAnalyzer struct {
	fset    *token.FileSet
	methods map[string]*ast.FuncDecl // methods of *Thread
	reads   map[string]int           // 0 = unknown, 1 = no, 2 = yes
	notes   []string
}

// overlayOf returns the file the binary was built from: a deliberate change under test ($VERIF_OVERLAY, the
// go build -overlay file bin/check used) replaces files of /repo.
func overlayOf(path string) string {
	ov := os.Getenv("VERIF_OVERLAY")
	if ov == "" {
		return path
	}
	b, err := os.ReadFile(ov)
	if err != nil {
		return path
	}
	var o struct{ Replace map[string]string }
	if json.Unmarshal(b, &o) != nil {
		return path
	}
	if r, ok := o.Replace[path]; ok && r != "" {
		return r
	}
	return path
}

func threadSource() string { return overlayOf("/repo/vm/thread.go") }

func loadVMModel(threadGo string) (*vmModel, error) {
	wa := &widthAnalyzer{fset: token.NewFileSet(), methods: map[string]*ast.FuncDecl{}, reads: map[string]int{}}
	// a nested invocation of the interpreter loop (Go code calling back into Elk) executes other functions'
	// instruction streams and restores the frame: it does not consume operands of the calling instruction
	wa.reads["run"] = 1
	dir := "/repo/vm"
	ents, err := os.ReadDir(dir)
	if err != nil {
		return nil, err
	}
	var runDecl *ast.FuncDecl
	for _, e := range ents {
		n := e.Name()
		if !strings.HasSuffix(n, ".go") || strings.HasSuffix(n, "_test.go") || n == "thread_debug.go" || n == "verif_probe.go" {
			continue
		}
		path := overlayOf(filepath.Join(dir, n))
		if n == "thread.go" {
			path = threadGo
		}
		f, err := parser.ParseFile(wa.fset, path, nil, 0)
		if err != nil {
			return nil, err
		}
		for _, d := range f.Decls {
			fd, ok := d.(*ast.FuncDecl)
			if !ok || fd.Recv == nil || len(fd.Recv.List) != 1 || fd.Body == nil {
				continue
			}
			st, ok := fd.Recv.List[0].Type.(*ast.StarExpr)
			if !ok {
				continue
			}
			if id, ok := st.X.(*ast.Ident); !ok || id.Name != "Thread" {
				continue
			}
			wa.methods[fd.Name.Name] = fd
			if fd.Name.Name == "run" && n == "thread.go" {
				runDecl = fd
			}
		}
	}
	if runDecl == nil {
		return nil, fmt.Errorf("(*Thread).run not found in %s", threadGo)
	}
	var sw *ast.SwitchStmt
	ast.Inspect(runDecl.Body, func(n ast.Node) bool {
		if s, ok := n.(*ast.SwitchStmt); ok && sw == nil {
			if id, ok := s.Tag.(*ast.Ident); ok && id.Name == "instruction" {
				sw = s
				return false
			}
		}
		return true
	})
	if sw == nil {
		return nil, fmt.Errorf("`switch instruction` not found in (*Thread).run")
	}
	m := &vmModel{shapes: map[string]*opShape{}}
	for _, st := range sw.Body.List {
		cc := st.(*ast.CaseClause)
		if cc.List == nil {
			continue // default
		}
		paths := wa.walkStmts(cc.Body, []pathState{{}}, true, 0)
		sh := summarize(paths)
		for _, e := range cc.List {
			sel, ok := e.(*ast.SelectorExpr)
			if !ok {
				m.notes = append(m.notes, "case expression is not bytecode.X")
				continue
			}
			s := *sh
			s.name = sel.Sel.Name
			if _, dup := m.shapes[s.name]; dup {
				s.problems = append(s.problems, "opcode handled by two cases")
			}
			m.shapes[s.name] = &s
			m.caseOrder = append(m.caseOrder, s.name)
		}
	}
	m.notes = append(m.notes, wa.notes...)
	return m, nil
}

func summarize(paths []pathState) *opShape {
	sh := &opShape{width: -2}
	widths := map[int]bool{}
	for _, p := range paths {
		if p.excluded {
			continue
		}
		if p.variable {
			widths[-1] = true
		} else {
			widths[p.consumed] = true
		}
		if p.jump != jNone {
			if sh.jump != jNone && (sh.jump != p.jump || sh.jumpBase != p.jumpBase || sh.jumpOpAt != p.jumpOpAt) {
				sh.problems = append(sh.problems, "two different jump computations")
			}
			sh.jump, sh.jumpBase, sh.jumpOpAt = p.jump, p.jumpBase, p.jumpOpAt
		}
		if !p.variable {
			if sh.layout != "" && sh.layout != p.layout {
				sh.problems = append(sh.problems, "paths read operands of different sizes: "+sh.layout+" vs "+p.layout)
			}
			sh.layout = p.layout
		}
		sh.skipNext = sh.skipNext || p.skip
		sh.absolute = sh.absolute || p.abs
	}
	var ws []int
	for w := range widths {
		ws = append(ws, w)
	}
	sort.Ints(ws)
	switch len(ws) {
	case 0:
		sh.width = 0 // every path leaves the instruction (e.g. panics)
	case 1:
		sh.width = ws[0]
	default:
		sh.width = ws[len(ws)-1]
		sh.problems = append(sh.problems, fmt.Sprintf("paths consume different operand byte counts %v", ws))
	}
	return sh
}

func (wa *widthAnalyzer) note(s string) {
	for _, n := range wa.notes {
		if n == s {
			return
		}
	}
	wa.notes = append(wa.notes, s)
}

// hasReads: does the method (transitively) touch the instruction stream?
func (wa *widthAnalyzer) hasReads(name string) bool {
	switch name {
	case "readByte", "readUint16", "readUint32":
		return true
	}
	switch wa.reads[name] {
	case 1:
		return false
	case 2:
		return true
	}
	fd := wa.methods[name]
	if fd == nil {
		return false
	}
	wa.reads[name] = 1 // cycles: assume no
	found := false
	ast.Inspect(fd.Body, func(n ast.Node) bool {
		if found {
			return false
		}
		if c, ok := n.(*ast.CallExpr); ok {
			if mn := vmMethodName(c); mn != "" {
				switch mn {
				case "readByte", "readUint16", "readUint32":
					found = true
				default:
					if mn != name && wa.hasReads(mn) {
						found = true
					}
				}
			}
		}
		return true
	})
	if found {
		wa.reads[name] = 2
	}
	return found
}

func vmMethodName(c *ast.CallExpr) string {
	sel, ok := c.Fun.(*ast.SelectorExpr)
	if !ok {
		return ""
	}
	id, ok := sel.X.(*ast.Ident)
	if !ok || id.Name != "vm" {
		return ""
	}
	return sel.Sel.Name
}

func intLit(e ast.Expr) (int, bool) {
	for {
		if p, ok := e.(*ast.ParenExpr); ok {
			e = p.X
			continue
		}
		break
	}
	if bl, ok := e.(*ast.BasicLit); ok && bl.Kind == token.INT {
		n, err := strconv.Atoi(bl.Value)
		return n, err == nil
	}
	return 0, false
}

func containsRead(wa *widthAnalyzer, n ast.Node) bool {
	found := false
	ast.Inspect(n, func(x ast.Node) bool {
		if c, ok := x.(*ast.CallExpr); ok {
			if mn := vmMethodName(c); mn != "" && (wa.hasReads(mn) || mn == "ipIncrementBy" || mn == "ipIncrement" || mn == "ipDecrementBy") {
				found = true
			}
		}
		return !found
	})
	return found
}

// walkExpr applies the reads of an expression (in evaluation order: arguments before the call) to every live path.
func (wa *widthAnalyzer) walkExpr(e ast.Node, paths []pathState, top bool, depth int) []pathState {
	if e == nil {
		return paths
	}
	switch x := e.(type) {
	case *ast.CallExpr:
		for _, a := range x.Args {
			paths = wa.walkExpr(a, paths, top, depth)
		}
		if sel, ok := x.Fun.(*ast.SelectorExpr); ok {
			if _, isVM := sel.X.(*ast.Ident); !isVM {
				paths = wa.walkExpr(sel.X, paths, top, depth)
			}
		}
		if id, ok := x.Fun.(*ast.Ident); ok && id.Name == "panic" {
			for i := range paths {
				paths[i].excluded = true
			}
			return paths
		}
		mn := vmMethodName(x)
		if mn == "" {
			return paths
		}
		read := func(n int) {
			for i := range paths {
				if paths[i].excluded {
					continue
				}
				paths[i].lastAt, paths[i].lastSize = paths[i].consumed, n
				paths[i].consumed += n
				paths[i].layout += strconv.Itoa(n)
			}
		}
		switch mn {
		case "readByte":
			read(1)
		case "readUint16":
			read(2)
		case "readUint32":
			read(4)
		case "ipIncrementBy", "ipDecrementBy":
			if n, ok := intLit(x.Args[0]); ok && mn == "ipIncrementBy" {
				read(n)
				break
			}
			for i := range paths {
				if paths[i].excluded {
					continue
				}
				paths[i].jump = jForward
				if mn == "ipDecrementBy" {
					paths[i].jump = jBackward
				}
				paths[i].jumpBase = paths[i].consumed
				paths[i].jumpOpAt = paths[i].lastAt
				if paths[i].lastSize != 2 {
					wa.note("relative jump whose distance is not a 16-bit operand")
				}
			}
		case "ipIncrement":
			for i := range paths {
				paths[i].skip = true
			}
		case "ipSetOffset":
			for i := range paths {
				paths[i].abs = true
			}
		case "throw", "rethrow":
			if top {
				for i := range paths {
					paths[i].excluded = true
				}
			}
		default:
			if wa.hasReads(mn) && depth < 4 {
				fd := wa.methods[mn]
				var out []pathState
				for _, p := range paths {
					if p.excluded {
						out = append(out, p)
						continue
					}
					sub := wa.walkStmts(fd.Body.List, []pathState{p}, false, depth+1)
					out = append(out, sub...)
				}
				paths = dedupPaths(out)
			}
		}
		return paths
	case *ast.FuncLit:
		return paths
	default:
		// generic: visit child expressions in source order
		var kids []ast.Node
		ast.Inspect(e, func(n ast.Node) bool {
			if n == e {
				return true
			}
			if n != nil {
				kids = append(kids, n)
			}
			return false
		})
		for _, k := range kids {
			paths = wa.walkExpr(k, paths, top, depth)
		}
		return paths
	}
}

func dedupPaths(ps []pathState) []pathState {
	seen := map[pathState]bool{}
	var out []pathState
	for _, p := range ps {
		if !seen[p] {
			seen[p] = true
			out = append(out, p)
		}
	}
	return out
}

// walkStmts returns the states of all paths at the end of the statement list; paths that ended earlier
// (break/continue/return at instruction level, return inside a helper) are carried along marked done.
type doneMark struct{}

func (wa *widthAnalyzer) walkStmts(stmts []ast.Stmt, in []pathState, top bool, depth int) []pathState {
	live := in
	var done []pathState
	for _, s := range stmts {
		if len(live) == 0 {
			break
		}
		var d []pathState
		live, d = wa.walkStmt(s, live, top, depth)
		done = append(done, d...)
	}
	return dedupPaths(append(done, live...))
}

// walkStmt returns (paths that continue after s, paths that left the enclosing list).
func (wa *widthAnalyzer) walkStmt(s ast.Stmt, paths []pathState, top bool, depth int) (live, done []pathState) {
	switch x := s.(type) {
	case *ast.ExprStmt:
		paths = wa.walkExpr(x.X, paths, top, depth)
		for _, p := range paths {
			if p.excluded {
				done = append(done, p)
			} else {
				live = append(live, p)
			}
		}
		return
	case *ast.AssignStmt:
		for _, r := range x.Rhs {
			paths = wa.walkExpr(r, paths, top, depth)
		}
		return paths, nil
	case *ast.DeclStmt:
		paths = wa.walkExpr(x.Decl, paths, top, depth)
		return paths, nil
	case *ast.IncDecStmt, *ast.EmptyStmt, *ast.DeferStmt, *ast.GoStmt:
		return paths, nil
	case *ast.ReturnStmt:
		for _, r := range x.Results {
			paths = wa.walkExpr(r, paths, top, depth)
		}
		return nil, paths
	case *ast.BranchStmt:
		// break / continue at the level of the case body end the instruction; inside helpers `break`
		// only occurs in loops that do not read operands (checked by the for-statement rule)
		return nil, paths
	case *ast.BlockStmt:
		out := wa.walkStmts(x.List, paths, top, depth)
		return out, nil
	case *ast.LabeledStmt:
		return wa.walkStmt(x.Stmt, paths, top, depth)
	case *ast.IfStmt:
		if x.Init != nil {
			var d []pathState
			paths, d = wa.walkStmt(x.Init, paths, top, depth)
			done = append(done, d...)
		}
		paths = wa.walkExpr(x.Cond, paths, top, depth)
		thenLive, thenDone := wa.walkBlock(x.Body.List, clonePaths(paths), top, depth)
		var elseLive, elseDone []pathState
		if x.Else != nil {
			elseLive, elseDone = wa.walkStmt(x.Else, clonePaths(paths), top, depth)
		} else {
			elseLive = paths
		}
		return dedupPaths(append(thenLive, elseLive...)), append(done, append(thenDone, elseDone...)...)
	case *ast.SwitchStmt, *ast.TypeSwitchStmt:
		var body *ast.BlockStmt
		if sw, ok := x.(*ast.SwitchStmt); ok {
			if sw.Init != nil {
				paths, _ = wa.walkStmt(sw.Init, paths, top, depth)
			}
			if sw.Tag != nil {
				paths = wa.walkExpr(sw.Tag, paths, top, depth)
			}
			body = sw.Body
		} else {
			body = x.(*ast.TypeSwitchStmt).Body
		}
		if !containsRead(wa, body) && !containsTerminator(body) {
			return paths, nil
		}
		hasDefault := false
		for _, c := range body.List {
			cc := c.(*ast.CaseClause)
			if cc.List == nil {
				hasDefault = true
			}
			l, d := wa.walkBlockSwitch(cc.Body, clonePaths(paths), top, depth)
			live = append(live, l...)
			done = append(done, d...)
		}
		if !hasDefault {
			live = append(live, paths...)
		}
		return dedupPaths(live), done
	case *ast.ForStmt, *ast.RangeStmt:
		if containsRead(wa, x) {
			for i := range paths {
				paths[i].variable = true
			}
		}
		return paths, nil
	case *ast.SelectStmt:
		return paths, nil
	}
	wa.note(fmt.Sprintf("unhandled statement %T", s))
	return paths, nil
}

func containsTerminator(n ast.Node) bool {
	found := false
	ast.Inspect(n, func(x ast.Node) bool {
		switch y := x.(type) {
		case *ast.ReturnStmt:
			found = true
		case *ast.CallExpr:
			if id, ok := y.Fun.(*ast.Ident); ok && id.Name == "panic" {
				found = true
			}
		case *ast.FuncLit:
			return false
		}
		return !found
	})
	return found
}

func clonePaths(p []pathState) []pathState { return append([]pathState(nil), p...) }

// walkBlock: statements of an if-branch; paths that hit break/continue/return leave.
func (wa *widthAnalyzer) walkBlock(stmts []ast.Stmt, paths []pathState, top bool, depth int) (live, done []pathState) {
	live = paths
	for _, s := range stmts {
		if len(live) == 0 {
			break
		}
		var d []pathState
		live, d = wa.walkStmt(s, live, top, depth)
		done = append(done, d...)
	}
	return
}

// walkBlockSwitch: a `break` directly inside a switch clause only leaves the switch.
func (wa *widthAnalyzer) walkBlockSwitch(stmts []ast.Stmt, paths []pathState, top bool, depth int) (live, done []pathState) {
	live = paths
	for _, s := range stmts {
		if len(live) == 0 {
			break
		}
		if b, ok := s.(*ast.BranchStmt); ok && b.Tok == token.BREAK && b.Label == nil {
			return live, done
		}
		var d []pathState
		live, d = wa.walkStmt(s, live, top, depth)
		done = append(done, d...)
	}
	return
}

func (m *vmModel) table() string {
	var names []string
	for n := range m.shapes {
		names = append(names, n)
	}
	sort.Strings(names)
	var b strings.Builder
	for _, n := range names {
		s := m.shapes[n]
		fmt.Fprintf(&b, "%-22s width=%d", n, s.width)
		if s.jump != jNone {
			fmt.Fprintf(&b, " jump=%d base=%d at=%d", s.jump, s.jumpBase, s.jumpOpAt)
		}
		if s.skipNext {
			b.WriteString(" skip-next")
		}
		if s.absolute {
			b.WriteString(" absolute")
		}
		if len(s.problems) > 0 {
			fmt.Fprintf(&b, " PROBLEMS=%v", s.problems)
		}
		b.WriteString("\n")
	}
	return b.String()
}
