//go:build !verifprobe

package main

import (
	"github.com/elk-language/elk/vm"

	"verifharness/engine"
)

// Built without the probe overlay (plain `go build ./cmd/c29`): static checks only.
const probeAvailable = false

func conform(r *engine.R, p program, mode string, fn *vm.BytecodeFunction, reports map[*vm.BytecodeFunction]*funcReport) {
}
