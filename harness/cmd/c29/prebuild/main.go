// prebuild for C29: generates the build overlay that adds the depth probe to package vm.
//   - /repo/vm/verif_probe.go  <- /verif/overlay-src/c29/vm_probe.go (overlay-only file, no VM logic)
//   - /repo/vm/thread.go       <- a copy of the CURRENT thread.go (or of its replacement in $VERIF_OVERLAY)
//     with two inserted lines: `verifRun := verifRunEnter()` at the top of (*Thread).run() and
//     `verifDepthProbe(vm, verifRun)` at the top of the dispatch loop.
//
// Entries of $VERIF_OVERLAY (deliberate changes under test) are merged into the generated overlay.
package main

import (
	"encoding/json"
	"fmt"
	"os"
	"path/filepath"
	"strings"
)

func die(f string, a ...any) {
	fmt.Fprintf(os.Stderr, "prebuild-c29: "+f+"\n", a...)
	os.Exit(2)
}

func main() {
	out := "/verif/.work/ov-c29"
	if len(os.Args) > 1 {
		out = os.Args[1]
	}
	os.MkdirAll(out, 0o755)
	repl := map[string]string{}
	if base := os.Getenv("VERIF_OVERLAY"); base != "" {
		b, err := os.ReadFile(base)
		if err != nil {
			die("base overlay: %v", err)
		}
		var ov struct{ Replace map[string]string }
		if err := json.Unmarshal(b, &ov); err != nil {
			die("base overlay: %v", err)
		}
		for k, v := range ov.Replace {
			repl[k] = v
		}
	}
	const thread = "/repo/vm/thread.go"
	src := thread
	if r, ok := repl[thread]; ok {
		src = r
	}
	b, err := os.ReadFile(src)
	if err != nil {
		die("%v", err)
	}
	code := string(b)
	insert := func(anchor, add string, before bool) {
		if n := strings.Count(code, anchor); n != 1 {
			die("anchor %q occurs %d times in %s (expected exactly once): the dispatch loop changed shape, adapt cmd/c29/prebuild", anchor, n, src)
		}
		if before {
			code = strings.Replace(code, anchor, add+anchor, 1)
		} else {
			code = strings.Replace(code, anchor, anchor+add, 1)
		}
	}
	insert("func (vm *Thread) run() {\n", "\tverifRun := verifRunEnter()\n", false)
	insert("\t\tinstruction := bytecode.OpCode(vm.readByte())\n\t\tswitch instruction {\n", "\t\tverifDepthProbe(vm, verifRun)\n", true)
	dst := filepath.Join(out, "vm__thread.go")
	if err := os.WriteFile(dst, []byte(code), 0o644); err != nil {
		die("%v", err)
	}
	repl[thread] = dst
	repl["/repo/vm/verif_probe.go"] = "/verif/overlay-src/c29/vm_probe.go"
	j, _ := json.MarshalIndent(map[string]any{"Replace": repl}, "", " ")
	if err := os.WriteFile(filepath.Join(out, "overlay.json"), j, 0o644); err != nil {
		die("%v", err)
	}
}
