// instr generates a `go build -overlay` that injects the controlled-scheduler runtime (verifrt) into the
// elk module and rewrites the synchronisation constructs of the listed elk source files — read from /repo's
// CURRENT working tree — to call it. Nothing under /repo is modified.
//
//	instr -out /verif/.work/ov-c16 -files vm/promise.go,vm/thread_pool.go[,...] [-base overlay.json] [-extra dst=src,...]
//
// Rewrites (purely syntactic, go/ast):
//
//	import "sync"                 -> import sync "github.com/elk-language/elk/verifrt"
//	go f(a, b)                    -> { v0, v1 := a, b; verifrt.Go(func() { f(v0, v1) }) }
//	ch <- v                       -> verifrt.Send(ch, v)
//	<-ch ; v := <-ch              -> verifrt.Recv(ch)
//	v, ok := <-ch                 -> verifrt.Recv2(ch)
//	close(ch)                     -> verifrt.Close(ch)
//	for v := range ch (ch chan)   -> for { v, ok := verifrt.Recv2(ch); if !ok { break }; ... }
//	select { ... }                -> switch sel := verifrt.Select(cases...); sel.Index { ... }
//	reflect.Select(cs)            -> verifrt.ReflectSelect(cs)
//
// A construct it cannot rewrite is a hard error (exit 2): the overlay is never silently incomplete.
package main

import (
	"bytes"
	"encoding/json"
	"flag"
	"fmt"
	"go/ast"
	"go/format"
	"go/parser"
	"go/token"
	"os"
	"path/filepath"
	"strconv"
	"strings"
)

const repo = "/repo"
const rtImport = "github.com/elk-language/elk/verifrt"

func die(f string, a ...any) {
	fmt.Fprintf(os.Stderr, "instr: "+f+"\n", a...)
	os.Exit(2)
}

func main() {
	out := flag.String("out", "", "output directory")
	files := flag.String("files", "", "comma separated files relative to /repo")
	base := flag.String("base", os.Getenv("VERIF_OVERLAY"), "base overlay (deliberate changes under test)")
	extra := flag.String("extra", "", "extra virtual files dst=src (dst relative to /repo)")
	region := flag.String("region", "", "comma separated file:Func whose body is wrapped in verifrt.RegionEnter()/RegionExit()")
	stmt := flag.String("stmt", "", "comma separated subset of -files that additionally gets a scheduling point before every statement")
	flag.Parse()
	if *out == "" || *files == "" {
		die("need -out and -files")
	}
	os.MkdirAll(*out, 0o755)
	repl := map[string]string{}
	baseRepl := map[string]string{}
	if *base != "" {
		b, err := os.ReadFile(*base)
		if err != nil {
			die("base overlay: %v", err)
		}
		var ov struct{ Replace map[string]string }
		if err := json.Unmarshal(b, &ov); err != nil {
			die("base overlay: %v", err)
		}
		for k, v := range ov.Replace {
			baseRepl[k] = v
			repl[k] = v
		}
	}
	// chan-typed names per package directory (struct fields), collected from all files of the package
	chanFields := map[string]map[string]bool{}
	for _, rel := range strings.Split(*files, ",") {
		rel = strings.TrimSpace(rel)
		if rel == "" {
			continue
		}
		abs := filepath.Join(repo, rel)
		src := abs
		if r, ok := baseRepl[abs]; ok {
			src = r
		}
		dir := filepath.Dir(abs)
		if chanFields[dir] == nil {
			chanFields[dir] = collectChanFields(dir, baseRepl)
		}
		stmtMode := false
		for _, sf := range strings.Split(*stmt, ",") {
			if strings.TrimSpace(sf) == rel {
				stmtMode = true
			}
		}
		var regionFuncs []string
		for _, rf := range strings.Split(*region, ",") {
			if f, fn, ok := strings.Cut(strings.TrimSpace(rf), ":"); ok && f == rel {
				regionFuncs = append(regionFuncs, fn)
			}
		}
		code, err := rewriteFile(src, chanFields[dir], stmtMode, regionFuncs)
		if err != nil {
			die("%s: %v", rel, err)
		}
		dst := filepath.Join(*out, strings.ReplaceAll(rel, "/", "__"))
		if err := os.WriteFile(dst, code, 0o644); err != nil {
			die("%v", err)
		}
		repl[abs] = dst
	}
	// the runtime package
	rtSrc := "/verif/overlay-src/verifrt/rt.go"
	repl[filepath.Join(repo, "verifrt", "rt.go")] = rtSrc
	if *extra != "" {
		for _, kv := range strings.Split(*extra, ",") {
			p := strings.SplitN(kv, "=", 2)
			if len(p) != 2 {
				die("bad -extra %q", kv)
			}
			repl[filepath.Join(repo, p[0])] = p[1]
		}
	}
	b, _ := json.MarshalIndent(map[string]any{"Replace": repl}, "", " ")
	if err := os.WriteFile(filepath.Join(*out, "overlay.json"), b, 0o644); err != nil {
		die("%v", err)
	}
}

func isChanType(e ast.Expr) bool {
	switch t := e.(type) {
	case *ast.ChanType:
		return true
	case *ast.ParenExpr:
		return isChanType(t.X)
	}
	return false
}

func collectChanFields(dir string, baseRepl map[string]string) map[string]bool {
	res := map[string]bool{}
	ents, _ := os.ReadDir(dir)
	fset := token.NewFileSet()
	for _, e := range ents {
		if e.IsDir() || !strings.HasSuffix(e.Name(), ".go") || strings.HasSuffix(e.Name(), "_test.go") {
			continue
		}
		p := filepath.Join(dir, e.Name())
		if r, ok := baseRepl[p]; ok {
			p = r
		}
		f, err := parser.ParseFile(fset, p, nil, parser.SkipObjectResolution)
		if err != nil {
			continue
		}
		ast.Inspect(f, func(n ast.Node) bool {
			if st, ok := n.(*ast.StructType); ok {
				for _, fld := range st.Fields.List {
					if isChanType(fld.Type) {
						for _, nm := range fld.Names {
							res[nm.Name] = true
						}
					}
				}
			}
			return true
		})
	}
	return res
}

type rewriter struct {
	fset       *token.FileSet
	chanFields map[string]bool
	chanLocals []map[string]bool // scope stack (function level)
	needRT     bool
	stmtMode   bool // insert verifrt.Step() before every statement
	tmp        int
	err        error
}

func (r *rewriter) fail(pos token.Pos, f string, a ...any) {
	if r.err == nil {
		r.err = fmt.Errorf("%s: %s", r.fset.Position(pos), fmt.Sprintf(f, a...))
	}
}

func sel(x, name string) ast.Expr { return &ast.SelectorExpr{X: ast.NewIdent(x), Sel: ast.NewIdent(name)} }

func call(fn ast.Expr, args ...ast.Expr) *ast.CallExpr { return &ast.CallExpr{Fun: fn, Args: args} }

func rewriteFile(path string, chanFields map[string]bool, stmtMode bool, regionFuncs []string) ([]byte, error) {
	fset := token.NewFileSet()
	f, err := parser.ParseFile(fset, path, nil, parser.ParseComments|parser.SkipObjectResolution)
	if err != nil {
		return nil, err
	}
	r := &rewriter{fset: fset, chanFields: chanFields, stmtMode: stmtMode}
	regionsDone := 0
	// imports
	for _, imp := range f.Imports {
		if p, _ := strconv.Unquote(imp.Path.Value); p == "sync" {
			if imp.Name != nil && imp.Name.Name != "sync" {
				return nil, fmt.Errorf("renamed sync import not supported")
			}
			imp.Path.Value = strconv.Quote(rtImport)
			imp.Name = ast.NewIdent("sync")
		}
	}
	for _, d := range f.Decls {
		if fd, ok := d.(*ast.FuncDecl); ok && fd.Body != nil {
			r.pushScope(fd.Type)
			r.block(fd.Body)
			r.popScope()
			for _, rf := range regionFuncs {
				if fd.Name.Name == rf {
					r.needRT = true
					regionsDone++
					enter := &ast.ExprStmt{X: call(sel("verifrt", "RegionEnter"))}
					exit := &ast.DeferStmt{Call: call(sel("verifrt", "RegionExit"))}
					fd.Body.List = append([]ast.Stmt{enter, exit}, fd.Body.List...)
				}
			}
		} else if gd, ok := d.(*ast.GenDecl); ok {
			// function literals in package-level var initialisers
			for _, sp := range gd.Specs {
				if vs, ok := sp.(*ast.ValueSpec); ok {
					for i := range vs.Values {
						vs.Values[i] = r.expr(vs.Values[i])
					}
				}
			}
		}
	}
	if r.err != nil {
		return nil, r.err
	}
	if regionsDone != len(regionFuncs) {
		return nil, fmt.Errorf("region function(s) %v not found", regionFuncs)
	}
	if r.needRT {
		addImport(f, "verifrt", rtImport)
	}
	// positions are stale after rewriting: drop comments, except those before the package clause (build constraints)
	var keep []*ast.CommentGroup
	for _, cg := range f.Comments {
		if cg.End() < f.Package {
			keep = append(keep, cg)
		}
	}
	f.Comments = keep
	var buf bytes.Buffer
	buf.WriteString("// Code generated by /verif/harness/cmd/instr from " + path + "; DO NOT EDIT.\n\n")
	if err := format.Node(&buf, fset, f); err != nil {
		return nil, err
	}
	return buf.Bytes(), nil
}

func addImport(f *ast.File, name, path string) {
	spec := &ast.ImportSpec{Name: ast.NewIdent(name), Path: &ast.BasicLit{Kind: token.STRING, Value: strconv.Quote(path)}}
	decl := &ast.GenDecl{Tok: token.IMPORT, Specs: []ast.Spec{spec}}
	f.Decls = append([]ast.Decl{decl}, f.Decls...)
	f.Imports = append(f.Imports, spec)
}

func (r *rewriter) pushScope(ft *ast.FuncType) {
	sc := map[string]bool{}
	if ft != nil && ft.Params != nil {
		for _, p := range ft.Params.List {
			if isChanType(p.Type) {
				for _, n := range p.Names {
					sc[n.Name] = true
				}
			}
		}
	}
	r.chanLocals = append(r.chanLocals, sc)
}
func (r *rewriter) popScope() { r.chanLocals = r.chanLocals[:len(r.chanLocals)-1] }

func (r *rewriter) isChanExpr(e ast.Expr) bool {
	switch x := e.(type) {
	case *ast.Ident:
		for i := len(r.chanLocals) - 1; i >= 0; i-- {
			if r.chanLocals[i][x.Name] {
				return true
			}
		}
	case *ast.SelectorExpr:
		return r.chanFields[x.Sel.Name]
	case *ast.ParenExpr:
		return r.isChanExpr(x.X)
	}
	return false
}

func (r *rewriter) noteLocal(lhs []ast.Expr, rhs []ast.Expr) {
	if len(lhs) != len(rhs) {
		return
	}
	for i, e := range rhs {
		if c, ok := e.(*ast.CallExpr); ok {
			if id, ok := c.Fun.(*ast.Ident); ok && id.Name == "make" && len(c.Args) > 0 && isChanType(c.Args[0]) {
				if l, ok := lhs[i].(*ast.Ident); ok {
					r.chanLocals[len(r.chanLocals)-1][l.Name] = true
				}
			}
		}
	}
}

func (r *rewriter) block(b *ast.BlockStmt) {
	if b == nil {
		return
	}
	b.List = r.stmts(b.List)
}

// clauses rewrites the case clauses of a switch body (no statement-level points between clauses).
func (r *rewriter) clauses(b *ast.BlockStmt) {
	for i, s := range b.List {
		b.List[i] = r.stmt(s)
	}
}

func (r *rewriter) stmts(l []ast.Stmt) []ast.Stmt {
	for i, s := range l {
		l[i] = r.stmt(s)
	}
	if !r.stmtMode {
		return l
	}
	r.needRT = true
	out := make([]ast.Stmt, 0, 2*len(l))
	for _, s := range l {
		out = append(out, &ast.ExprStmt{X: call(sel("verifrt", "Step"))}, s)
	}
	return out
}

func (r *rewriter) stmt(s ast.Stmt) ast.Stmt {
	switch n := s.(type) {
	case nil:
		return nil
	case *ast.BlockStmt:
		r.block(n)
	case *ast.ExprStmt:
		n.X = r.expr(n.X)
	case *ast.SendStmt:
		r.needRT = true
		return &ast.ExprStmt{X: call(sel("verifrt", "Send"), r.expr(n.Chan), r.expr(n.Value))}
	case *ast.AssignStmt:
		if len(n.Lhs) == 2 && len(n.Rhs) == 1 {
			if u, ok := n.Rhs[0].(*ast.UnaryExpr); ok && u.Op == token.ARROW {
				r.needRT = true
				n.Rhs[0] = call(sel("verifrt", "Recv2"), r.expr(u.X))
				for i := range n.Lhs {
					n.Lhs[i] = r.expr(n.Lhs[i])
				}
				return n
			}
		}
		r.noteLocal(n.Lhs, n.Rhs)
		for i := range n.Lhs {
			n.Lhs[i] = r.expr(n.Lhs[i])
		}
		for i := range n.Rhs {
			n.Rhs[i] = r.expr(n.Rhs[i])
		}
	case *ast.GoStmt:
		return r.goStmt(n)
	case *ast.DeferStmt:
		n.Call = r.expr(n.Call).(*ast.CallExpr)
	case *ast.ReturnStmt:
		for i := range n.Results {
			n.Results[i] = r.expr(n.Results[i])
		}
	case *ast.IfStmt:
		n.Init = r.stmt(n.Init)
		n.Cond = r.expr(n.Cond)
		r.block(n.Body)
		n.Else = r.stmt(n.Else)
	case *ast.ForStmt:
		n.Init = r.stmt(n.Init)
		if n.Cond != nil {
			n.Cond = r.expr(n.Cond)
		}
		n.Post = r.stmt(n.Post)
		r.block(n.Body)
	case *ast.RangeStmt:
		n.X = r.expr(n.X)
		if r.isChanExpr(n.X) {
			return r.rangeChan(n)
		}
		r.block(n.Body)
	case *ast.SwitchStmt:
		n.Init = r.stmt(n.Init)
		if n.Tag != nil {
			n.Tag = r.expr(n.Tag)
		}
		r.clauses(n.Body)
	case *ast.TypeSwitchStmt:
		n.Init = r.stmt(n.Init)
		n.Assign = r.stmt(n.Assign)
		r.clauses(n.Body)
	case *ast.CaseClause:
		for i := range n.List {
			n.List[i] = r.expr(n.List[i])
		}
		n.Body = r.stmts(n.Body)
	case *ast.SelectStmt:
		return r.selectStmt(n)
	case *ast.LabeledStmt:
		n.Stmt = r.stmt(n.Stmt)
	case *ast.DeclStmt:
		if gd, ok := n.Decl.(*ast.GenDecl); ok {
			for _, sp := range gd.Specs {
				if vs, ok := sp.(*ast.ValueSpec); ok {
					if len(vs.Names) == 2 && len(vs.Values) == 1 {
						if u, ok := vs.Values[0].(*ast.UnaryExpr); ok && u.Op == token.ARROW {
							r.needRT = true
							vs.Values[0] = call(sel("verifrt", "Recv2"), r.expr(u.X))
							continue
						}
					}
					if isChanType(vs.Type) {
						for _, nm := range vs.Names {
							r.chanLocals[len(r.chanLocals)-1][nm.Name] = true
						}
					}
					for i := range vs.Values {
						vs.Values[i] = r.expr(vs.Values[i])
					}
				}
			}
		}
	case *ast.IncDecStmt:
		n.X = r.expr(n.X)
	case *ast.BranchStmt, *ast.EmptyStmt:
	default:
		r.fail(s.Pos(), "unsupported statement %T", s)
	}
	return s
}

func (r *rewriter) exprs(l []ast.Expr) {
	for i := range l {
		l[i] = r.expr(l[i])
	}
}

func (r *rewriter) expr(e ast.Expr) ast.Expr {
	switch n := e.(type) {
	case nil:
		return nil
	case *ast.UnaryExpr:
		if n.Op == token.ARROW {
			r.needRT = true
			return call(sel("verifrt", "Recv"), r.expr(n.X))
		}
		n.X = r.expr(n.X)
	case *ast.BinaryExpr:
		n.X = r.expr(n.X)
		n.Y = r.expr(n.Y)
	case *ast.CallExpr:
		if id, ok := n.Fun.(*ast.Ident); ok && id.Name == "close" && len(n.Args) == 1 {
			r.needRT = true
			return call(sel("verifrt", "Close"), r.expr(n.Args[0]))
		}
		if se, ok := n.Fun.(*ast.SelectorExpr); ok {
			if x, ok := se.X.(*ast.Ident); ok && x.Name == "reflect" && se.Sel.Name == "Select" {
				r.needRT = true
				n.Fun = sel("verifrt", "ReflectSelect")
			}
		}
		n.Fun = r.expr(n.Fun)
		r.exprs(n.Args)
	case *ast.FuncLit:
		r.pushScope(n.Type)
		r.block(n.Body)
		r.popScope()
	case *ast.ParenExpr:
		n.X = r.expr(n.X)
	case *ast.SelectorExpr:
		n.X = r.expr(n.X)
	case *ast.IndexExpr:
		n.X = r.expr(n.X)
		n.Index = r.expr(n.Index)
	case *ast.IndexListExpr:
		n.X = r.expr(n.X)
	case *ast.SliceExpr:
		n.X = r.expr(n.X)
		n.Low, n.High, n.Max = r.expr(n.Low), r.expr(n.High), r.expr(n.Max)
	case *ast.StarExpr:
		n.X = r.expr(n.X)
	case *ast.TypeAssertExpr:
		n.X = r.expr(n.X)
	case *ast.CompositeLit:
		r.exprs(n.Elts)
	case *ast.KeyValueExpr:
		n.Value = r.expr(n.Value)
	case *ast.Ident, *ast.BasicLit, *ast.ArrayType, *ast.MapType, *ast.ChanType, *ast.FuncType, *ast.StructType, *ast.InterfaceType, *ast.Ellipsis:
	default:
		r.fail(e.Pos(), "unsupported expression %T", e)
	}
	return e
}

func (r *rewriter) goStmt(n *ast.GoStmt) ast.Stmt {
	r.needRT = true
	c := n.Call
	c.Fun = r.expr(c.Fun)
	var init []ast.Stmt
	for i, a := range c.Args {
		r.tmp++
		name := fmt.Sprintf("verifGoArg%d", r.tmp)
		init = append(init, &ast.AssignStmt{Lhs: []ast.Expr{ast.NewIdent(name)}, Tok: token.DEFINE, Rhs: []ast.Expr{r.expr(a)}})
		c.Args[i] = ast.NewIdent(name)
	}
	lit := &ast.FuncLit{Type: &ast.FuncType{Params: &ast.FieldList{}}, Body: &ast.BlockStmt{List: []ast.Stmt{&ast.ExprStmt{X: c}}}}
	goCall := &ast.ExprStmt{X: call(sel("verifrt", "Go"), lit)}
	return &ast.BlockStmt{List: append(init, goCall)}
}

func (r *rewriter) rangeChan(n *ast.RangeStmt) ast.Stmt {
	r.needRT = true
	if n.Value != nil {
		r.fail(n.Pos(), "range over channel with two variables")
	}
	r.block(n.Body)
	r.tmp++
	ok := ast.NewIdent(fmt.Sprintf("verifOk%d", r.tmp))
	var key ast.Expr = ast.NewIdent("_")
	tok := token.DEFINE
	if n.Key != nil {
		key = n.Key
		if n.Tok == token.ASSIGN {
			// v = range: declare ok separately
			decl := &ast.DeclStmt{Decl: &ast.GenDecl{Tok: token.VAR, Specs: []ast.Spec{&ast.ValueSpec{Names: []*ast.Ident{ok}, Type: ast.NewIdent("bool")}}}}
			recv := &ast.AssignStmt{Lhs: []ast.Expr{key, ok}, Tok: token.ASSIGN, Rhs: []ast.Expr{call(sel("verifrt", "Recv2"), n.X)}}
			brk := &ast.IfStmt{Cond: &ast.UnaryExpr{Op: token.NOT, X: ok}, Body: &ast.BlockStmt{List: []ast.Stmt{&ast.BranchStmt{Tok: token.BREAK}}}}
			body := append([]ast.Stmt{decl, recv, brk}, n.Body.List...)
			return &ast.ForStmt{Body: &ast.BlockStmt{List: body}}
		}
	}
	recv := &ast.AssignStmt{Lhs: []ast.Expr{key, ok}, Tok: tok, Rhs: []ast.Expr{call(sel("verifrt", "Recv2"), n.X)}}
	brk := &ast.IfStmt{Cond: &ast.UnaryExpr{Op: token.NOT, X: ok}, Body: &ast.BlockStmt{List: []ast.Stmt{&ast.BranchStmt{Tok: token.BREAK}}}}
	body := append([]ast.Stmt{recv, brk}, n.Body.List...)
	return &ast.ForStmt{Body: &ast.BlockStmt{List: body}}
}

func (r *rewriter) selectStmt(n *ast.SelectStmt) ast.Stmt {
	r.needRT = true
	r.tmp++
	selName := fmt.Sprintf("verifSel%d", r.tmp)
	var cases []ast.Expr
	var clauses []ast.Stmt
	for i, cc := range n.Body.List {
		c := cc.(*ast.CommClause)
		var pre []ast.Stmt
		switch comm := c.Comm.(type) {
		case nil:
			cases = append(cases, call(sel("verifrt", "DefaultCase")))
		case *ast.SendStmt:
			cases = append(cases, call(sel("verifrt", "SendCase"), r.expr(comm.Chan), r.expr(comm.Value)))
		case *ast.ExprStmt:
			u, ok := comm.X.(*ast.UnaryExpr)
			if !ok || u.Op != token.ARROW {
				r.fail(c.Pos(), "unsupported select comm")
				continue
			}
			cases = append(cases, call(sel("verifrt", "RecvCase"), r.expr(u.X)))
		case *ast.AssignStmt:
			u, ok := comm.Rhs[0].(*ast.UnaryExpr)
			if !ok || u.Op != token.ARROW || len(comm.Rhs) != 1 {
				r.fail(c.Pos(), "unsupported select comm")
				continue
			}
			ch := r.expr(u.X)
			cases = append(cases, call(sel("verifrt", "RecvCase"), ch))
			lhs := comm.Lhs
			if len(lhs) == 1 {
				lhs = []ast.Expr{lhs[0], ast.NewIdent("_")}
			}
			pre = append(pre, &ast.AssignStmt{Lhs: lhs, Tok: comm.Tok, Rhs: []ast.Expr{call(sel("verifrt", "SelRecvFrom"), ch, ast.NewIdent(selName))}})
			// silence "declared and not used" for the bound names the original clause might not use either is not needed:
			// the original code compiled, so every declared name is used.
		default:
			r.fail(c.Pos(), "unsupported select comm %T", c.Comm)
			continue
		}
		c.Body = r.stmts(c.Body)
		clauses = append(clauses, &ast.CaseClause{List: []ast.Expr{&ast.BasicLit{Kind: token.INT, Value: strconv.Itoa(i)}}, Body: append(pre, c.Body...)})
	}
	// a select whose clauses all terminate is a terminating statement; keep that property for the switch
	clauses = append(clauses, &ast.CaseClause{Body: []ast.Stmt{&ast.ExprStmt{X: call(ast.NewIdent("panic"), &ast.BasicLit{Kind: token.STRING, Value: strconv.Quote("verifrt: bad select index")})}}})
	init := &ast.AssignStmt{Lhs: []ast.Expr{ast.NewIdent(selName)}, Tok: token.DEFINE, Rhs: []ast.Expr{call(sel("verifrt", "Select"), cases...)}}
	return &ast.SwitchStmt{Init: init, Tag: &ast.SelectorExpr{X: ast.NewIdent(selName), Sel: ast.NewIdent("Index")}, Body: &ast.BlockStmt{List: clauses}}
}
