// C14 — structured control flow follows its reference semantics.
// Bounded-exhaustive: every chain of nested constructs {loop, while, labelled loop/while, value loop,
// do/catch/catch-all/finally with the hole in the body, a catch clause or the finally clause (with a pending
// throw/return/break), defer, if, sibling do} up to a depth bound, with every exit kind in the innermost hole
// (fallthrough, break, break[label], continue, continue[label], return, throw :a | :b, break with a value;
// unconditional and in the second iteration), plus all short-circuit expressions with one and two operators
// over {nil, false, 0, :s}. Oracle: the printed trace and the final value / uncaught symbol equal those of
// the reference interpreter of package mini.
package main

import (
	"fmt"
	"os"
	"strings"
	"time"

	"verifharness/elkrun"
	"verifharness/engine"
	"verifharness/mini"
)

const batchSize = 40

func main() {
	engine.Main(&engine.Spec{
		Prop:  "C14",
		Level: "exploration",
		Rule: "functions = every chain of nested constructs (quick: ≤ 2 over all 24 variants plus depth 3 over the 14 core variants; thorough: ≤ 3 over all 24 plus depth 4 over the core variants with unguarded exits); variants (loop, while, labelled loop, labelled while, value loop, " +
			"do with the hole in body / catch :a / catch-all / finally and with or without catch, catch-all, finally clauses and a pending throw/return/break, defer, expression block `100 + do … end`, if-then, if-else, " +
			"sibling do before/after) × every exit kind valid in the innermost hole (fall through, return, throw :a, throw :b, break, continue, break[label] and continue[label] for every " +
			"enclosing labelled loop, break with a value; each also guarded so that it happens in the second iteration of the innermost loop); every function prints a marker in every clause; " +
			"plus the core chains of depth ≤ 2 (unguarded exits) with the guard variable as a parameter, plus all expressions with 1 and 2 operators out of && || ?? over operands {nil, false, 0, :s} that print a marker, " +
			"operands typed precisely (inline) or nilable (helper call), used as a value and as an if-condition; oracle: stdout and final value/uncaught symbol equal the big-step reference interpreter's; " +
			"every function is a distinct term (no repetition); non-trivial = the function contains an abrupt exit or a throw, or the expression has a side-effecting right operand",
		Assume: []string{
			"the reference interpreter of harness/mini encodes the intended semantics (finally on every completion, overridden only by its own abrupt completion; defers LIFO at activation exit; catch clauses tried in order; && || return the deciding operand; ?? tests nil only)",
			"method bodies compiled one at a time (MethodCheckConcurrencyLimit=1), callee-first definition order",
		},
		Setup:            func(c *engine.Ctx) { elkrun.Init() },
		Run:              run,
		CaseTimeout:      120 * time.Second,
		QuickDeadline:    12 * time.Minute,
		ThoroughDeadline: 40 * time.Minute,
	})
}

func run(c *engine.Ctx) {
	// 1. control-flow chains
	emit := func(prefix string, o mini.CFOpts) {
		var chunk []*mini.CFCase
		n := 0
		flush := func() {
			if len(chunk) == 0 {
				return
			}
			cs := chunk
			chunk = nil
			id := fmt.Sprintf("%s/%06d %s", prefix, n, cs[0].Shape())
			n++
			c.Case(id, func(r *engine.R) { runChunk(r, cs) })
		}
		mini.EnumCF(o, func(cc *mini.CFCase) bool {
			chunk = append(chunk, cc)
			if len(chunk) == batchSize {
				flush()
			}
			return true
		})
		flush()
	}
	if !c.Thorough {
		emit("cf", mini.CFOpts{MinDepth: 0, MaxDepth: 2, CondExits: true})
		emit("cf3-core", mini.CFOpts{MinDepth: 3, MaxDepth: 3, CondExits: true, Variants: mini.CFCore})
	} else {
		emit("cf", mini.CFOpts{MinDepth: 0, MaxDepth: 3, CondExits: true})
		emit("cf4-core", mini.CFOpts{MinDepth: 4, MaxDepth: 4, CondExits: false, Variants: mini.CFCore})
	}
	emit("cf-param", mini.CFOpts{MinDepth: 0, MaxDepth: 2, CondExits: false, Param: true, Variants: mini.CFCore})
	// 2. short-circuit operators
	for _, ops := range []int{1, 2} {
		for _, wide := range []bool{true, false} {
			for _, ctx := range []string{"value", "cond"} {
				var chunk []*mini.LogicCase
				n := 0
				flush := func() {
					if len(chunk) == 0 {
						return
					}
					cs := chunk
					chunk = nil
					ctx := ctx
					id := fmt.Sprintf("logic/ops=%d/wide=%v/%s/%04d", ops, wide, ctx, n)
					n++
					c.Case(id, func(r *engine.R) { runLogic(r, cs, ctx) })
				}
				mini.EnumLogic(ops, wide, func(lc *mini.LogicCase) bool {
					chunk = append(chunk, lc)
					if len(chunk) == 2*batchSize {
						flush()
					}
					return true
				})
				flush()
			}
		}
	}
}

// ---------------------------------------------------------------------------------------------

func exitClass(exit string) string {
	e := strings.TrimPrefix(exit, "?")
	switch {
	case e == "fall":
		return "fall"
	case e == "return":
		return "return"
	case strings.HasPrefix(e, "throw"):
		return "throw"
	}
	return "break/continue"
}

func variantClass(v string) string {
	switch {
	case v == "loop" || v == "lloop" || v == "vloop":
		return "loop"
	case v == "while" || v == "lwhile":
		return "while"
	case strings.HasPrefix(v, "do."):
		hole := map[byte]string{'b': "body", 'c': "catch-clause", 'y': "catch-clause", 'f': "finally"}[v[3]]
		cl := v[5:]
		fin := ""
		if strings.Contains(cl, "f") {
			fin = "+finally"
		}
		pend := ""
		switch cl {
		case "tf":
			pend = ",pending-throw"
		case "rf":
			pend = ",pending-return"
		case "kf":
			pend = ",pending-break"
		}
		return "do(hole=" + hole + fin + pend + ")"
	case strings.HasPrefix(v, "if."):
		return "if"
	case strings.HasPrefix(v, "seq."):
		return "sibling-do"
	}
	return v
}

func lineRole(cc *mini.CFCase, line string) string {
	if line == "<end of output>" {
		return line
	}
	if t, ok := cc.Tags[line]; ok {
		if t.Variant == "function" || t.Variant == "exit" {
			return t.Role
		}
		return t.Role + "@" + variantClass(t.Variant)
	}
	if strings.HasPrefix(line, "THROWN") {
		return "function-result"
	}
	if strings.HasPrefix(line, "d") {
		return "defer"
	}
	return "function-result"
}

// leavesClauseAndContinues: some abrupt completion of the function (the exit in the innermost hole, or the
// pending throw/return/break of a do.f-* construct) leaves a catch or finally clause of an enclosing do, or an
// expression block whose sibling operand is on the value stack, and is then stopped inside the function (a break/continue by its loop, a throw by a catch clause). This static
// feature of the shape separates defects of the clause-exit protocol from others in the signatures.
func leavesClauseAndContinues(cc *mini.CFCase) bool {
	type comp struct {
		kind  string // throw-a throw-b return break continue
		label string
		from  int // index of the innermost construct it has to leave first
	}
	var comps []comp
	e := strings.TrimPrefix(cc.Exit, "?")
	d := len(cc.Chain)
	switch {
	case e == "fall":
	case e == "return" || e == "throw-a" || e == "throw-b":
		comps = append(comps, comp{kind: e, from: d - 1})
	case strings.HasPrefix(e, "break[") || strings.HasPrefix(e, "continue["):
		i := strings.IndexByte(e, '[')
		comps = append(comps, comp{kind: e[:i], label: e[i+1 : len(e)-1], from: d - 1})
	case e == "break" || e == "break-v":
		comps = append(comps, comp{kind: "break", from: d - 1})
	case e == "continue":
		comps = append(comps, comp{kind: "continue", from: d - 1})
	}
	for i, v := range cc.Chain {
		switch v {
		case "do.f-tf":
			comps = append(comps, comp{kind: "throw-a", from: i - 1})
		case "do.f-rf":
			comps = append(comps, comp{kind: "return", from: i - 1})
		case "do.f-kf":
			comps = append(comps, comp{kind: "break", from: i - 1})
		}
	}
	for _, c := range comps {
		crossed := false
		for k := c.from; k >= 0; k-- {
			v := cc.Chain[k]
			switch {
			case strings.HasPrefix(v, "do."):
				hole, clauses := v[3], v[5:]
				if hole == 'b' {
					if strings.HasPrefix(c.kind, "throw") {
						if strings.Contains(clauses, "y") || (c.kind == "throw-a" && strings.Contains(clauses, "c")) {
							if crossed {
								return true
							}
							k = -1 // caught without having crossed a clause
						}
					}
				} else {
					crossed = true
				}
			case v == "expr":
				crossed = true // the left operand of the enclosing `+` is on the value stack
			case v == "loop" || v == "while" || v == "vloop" || v == "lloop" || v == "lwhile":
				if c.kind == "break" || c.kind == "continue" {
					if c.label == "" || c.label == fmt.Sprintf("L%d", k+1) {
						if crossed {
							return true
						}
						k = -1
					}
				}
			}
		}
	}
	return false
}

func lines(s string) []string {
	s = strings.TrimSuffix(s, "\n")
	if s == "" {
		return nil
	}
	return strings.Split(s, "\n")
}

func hasAbrupt(cc *mini.CFCase) bool {
	if cc.Exit != "fall" {
		return true
	}
	for _, v := range cc.Chain {
		if strings.HasPrefix(v, "do.c") || strings.HasPrefix(v, "do.y") || v == "do.f-tf" || v == "do.f-rf" || v == "do.f-kf" || v == "do.f-cf" {
			return true
		}
	}
	return false
}

// fineSignatures (VERIF_C14_FINE=1, development aid): do not collapse the clause-exit family into two signatures,
// so that a change of the compiler can be compared with the baseline in detail.
var fineSignatures = os.Getenv("VERIF_C14_FINE") != ""

// method names must be unique within the worker process: definitions of earlier programs stay in the
// process-global Elk runtime and calls would bind to them.
var nameSeq int

func runChunk(r *engine.R, cs []*mini.CFCase) {
	units := make([]mini.Unit, len(cs))
	wants := make([]*mini.Outcome, len(cs))
	srcs := make([]string, len(cs))
	for i, cc := range cs {
		nameSeq++
		d := mini.RenameDef(cc.Def, fmt.Sprintf("f%d", nameSeq))
		call := mini.GuardedCall(d.Name, cc.Args...)
		p := &mini.Program{Defs: []*mini.Def{d}, Main: []mini.Stmt{call}}
		w, err := mini.Run(p)
		if err != nil {
			panic(fmt.Sprintf("reference interpreter failed on %s: %v", cc.Shape(), err))
		}
		wants[i] = w
		units[i] = mini.Unit{Defs: mini.PrintDef(d, mini.PrintOpts{}), Main: mini.PrintStmts(p.Main, mini.PrintOpts{})}
		srcs[i] = units[i].Defs + units[i].Main
	}
	res := mini.RunBatch(units, mini.BatchOpts{Prelude: mini.Prelude})
	for i, cc := range cs {
		u := res[i]
		r.Eval(1)
		if hasAbrupt(cc) {
			r.NT(1)
		}
		want := wants[i].Stdout()
		// "clause-exit": an exit leaves a catch/finally clause or an expression block and execution continues in the function
		feature := ""
		if leavesClauseAndContinues(cc) {
			feature = "clause-exit: "
		}
		if u.OnlyInBatch {
			feature += "(only after earlier independent functions ran in the same program) "
		}
		switch {
		case u.Rejected:
			r.Count("rejected_by_checker", 1)
			r.Note("rejected: " + cc.Shape() + ": " + firstLine(u.Diags))
			r.Outcome("rejected by the checker")
		case u.Panic != "":
			sig := feature + "go-panic " + shortPanic(u.Panic)
			if feature != "" && !fineSignatures {
				// where the unbalanced value stack is finally noticed varies with the surrounding code
				sig = feature + "go-panic later in the function"
			}
			r.Violation(sig, fmt.Sprintf("shape %s\n%s\nexpected output:\n%s\nGo panic: %s\n%s", cc.Shape(), srcs[i], want, u.PanicMsg, trimStack(u.Stack)), srcs[i])
		case u.Err != "":
			r.Violation(feature+"unexpected error "+u.ErrClass, fmt.Sprintf("shape %s\n%s\nexpected output:\n%s\nuncaught error: %s\noutput so far:\n%s", cc.Shape(), srcs[i], want, u.Err, u.Out), srcs[i])
		case u.Out != want:
			sig, where := mismatchSig(cc, lines(want), lines(u.Out))
			if feature != "" && !fineSignatures && !strings.Contains(sig, "expected finally@do(hole=catch-clause+finally)") {
				sig = "trace diverges later in the function"
			}
			r.Violation(feature+sig, fmt.Sprintf("shape %s\n%s\n%s\nexpected trace: %s\nobserved trace: %s", cc.Shape(), srcs[i], where, strings.Join(lines(want), " "), strings.Join(lines(u.Out), " ")), srcs[i])
		default:
			last := ""
			if l := lines(want); len(l) > 0 {
				last = l[len(l)-1]
			}
			r.Outcome("ok exit=" + exitClass(cc.Exit) + " result=" + last)
		}
	}
	r.Sample(srcs[len(srcs)-1])
}

// shortPanic turns engine.PanicSig's "msg @ frame1 @ frame2" into "frame1<frame2: msg" with the common prefixes
// removed, so that the distinguishing part comes first.
func shortPanic(sig string) string {
	parts := strings.Split(sig, " @ ")
	msg := parts[0]
	msg = strings.Replace(msg, "runtime error: invalid memory address or nil pointer dereference", "nil pointer dereference", 1)
	msg = strings.Replace(msg, "interface conversion: value.Reference is nil, not ", "nil Reference used as ", 1)
	if len(msg) > 60 {
		msg = msg[:60]
	}
	var fr []string
	for _, f := range parts[1:] {
		f = strings.TrimPrefix(f, "vm.(*Thread).")
		fr = append(fr, f)
	}
	if len(fr) == 0 {
		return msg
	}
	return "in " + strings.Join(fr, "<") + ": " + msg
}

func firstLine(s string) string {
	s = strings.TrimSpace(s)
	if i := strings.IndexByte(s, '\n'); i >= 0 {
		s = s[:i]
	}
	if len(s) > 160 {
		s = s[:160]
	}
	return s
}

func trimStack(s string) string {
	if len(s) > 1500 {
		return s[:1500]
	}
	return s
}

// mismatchSig names the defect by what the reference trace required at the first point of divergence:
// the role of the expected marker and the construct that prints it, and the class of the exit.
func mismatchSig(cc *mini.CFCase, want, got []string) (sig, where string) {
	i := 0
	for i < len(want) && i < len(got) && want[i] == got[i] {
		i++
	}
	exp, obs := "<end of output>", "<end of output>"
	if i < len(want) {
		exp = want[i]
	}
	if i < len(got) {
		obs = got[i]
	}
	where = fmt.Sprintf("first divergence at line %d: expected %q (%s), observed %q (%s)", i+1, exp, lineRole(cc, exp), obs, lineRole(cc, obs))
	if exp == "<end of output>" {
		return fmt.Sprintf("trace: extra output %s after the expected end", lineRole(cc, obs)), where
	}
	return fmt.Sprintf("trace: expected %s not executed at its turn", lineRole(cc, exp)), where
}

// ---------------------------------------------------------------------------------------------

func runLogic(r *engine.R, cs []*mini.LogicCase, ctx string) {
	units := make([]mini.Unit, len(cs))
	wants := make([]string, len(cs))
	for i, lc := range cs {
		var main []mini.Stmt
		if ctx == "value" {
			main = []mini.Stmt{&mini.PrintE{E: lc.E, Show: true}}
		} else {
			main = []mini.Stmt{&mini.If{C: lc.E, Then: []mini.Stmt{&mini.Print{Tag: "T"}}, Else: []mini.Stmt{&mini.Print{Tag: "F"}}}}
		}
		w, err := mini.Run(&mini.Program{Main: main})
		if err != nil {
			panic(err)
		}
		wants[i] = w.Stdout()
		// each unit gets its own scope so that the hoisted temporaries do not clash
		units[i] = mini.Unit{Main: "do\n" + indent(mini.PrintStmts(main, mini.PrintOpts{})) + "end\n"}
	}
	res := mini.RunBatch(units, mini.BatchOpts{Prelude: mini.Prelude})
	for i, lc := range cs {
		u := res[i]
		r.Eval(1)
		r.NT(1)
		sigBase := fmt.Sprintf("logic ops={%s} operands=%s", opSet(lc.Ops), map[bool]string{true: "nilable", false: "precise"}[lc.Wide])
		src := units[i].Main
		switch {
		case u.Rejected:
			r.Count("rejected_by_checker", 1)
			r.Note("rejected: " + lc.Shape + ": " + firstLine(u.Diags))
			r.Outcome("rejected by the checker")
		case u.Panic != "":
			r.Violation(sigBase+" go-panic "+shortPanic(u.Panic), fmt.Sprintf("%s\n%s\nGo panic: %s\n%s", lc.Shape, src, u.PanicMsg, trimStack(u.Stack)), src)
		case u.Err != "":
			r.Violation(sigBase+" unexpected error "+u.ErrClass, fmt.Sprintf("%s\n%s\nuncaught error %s", lc.Shape, src, u.Err), src)
		case u.Out != wants[i]:
			r.Violation(sigBase+" wrong evaluation", fmt.Sprintf("%s\n%s\nexpected trace: %s\nobserved trace: %s", lc.Shape, src, strings.Join(lines(wants[i]), " "), strings.Join(lines(u.Out), " ")), src)
		default:
			l := lines(wants[i])
			r.Outcome(fmt.Sprintf("ok evaluated=%d result=%s", len(l)-1, l[len(l)-1]))
		}
	}
	r.Sample(units[len(units)-1].Main)
}

// opSet renders the distinct operators of an expression in a fixed order.
func opSet(ops string) string {
	var out []string
	for _, o := range []string{"&&", "||", "??"} {
		if strings.Contains(ops, o) {
			out = append(out, o)
		}
	}
	return strings.Join(out, ",")
}

func indent(s string) string {
	var b strings.Builder
	for _, l := range strings.SplitAfter(s, "\n") {
		if l != "" {
			b.WriteString("  " + l)
		}
	}
	return b.String()
}
