// C33 — cancellation stops any running program.
// Bounded-exhaustive over (non-terminating program shape) x (cancellation time): programs are compiled with
// abort checks enabled (as the REPL does) and run with an aborter whose context counts polls — its Done()
// channel closes at the k-th poll — so cancellation time is the integer k, not wall time. Blocking shapes
// (channel operations, select) are additionally cancelled by a second goroutine while they are blocked.
package main

import (
	"context"
	"fmt"
	"strings"
	"sync"
	"time"

	"github.com/elk-language/elk/bitfield"
	"github.com/elk-language/elk/types/checker"
	"github.com/elk-language/elk/value"
	"github.com/elk-language/elk/verifrt"
	"github.com/elk-language/elk/vm"

	"verifharness/elkrun"
	"verifharness/engine"
	"verifharness/sched"
)

// countCtx is a context whose Done channel closes when Done() has been called k times.
type countCtx struct {
	mu    sync.Mutex
	polls int
	k     int
	ch    chan struct{}
	done  bool
}

func newCountCtx(k int) *countCtx { return &countCtx{k: k, ch: make(chan struct{})} }

func (c *countCtx) Deadline() (time.Time, bool) { return time.Time{}, false }
func (c *countCtx) Done() <-chan struct{} {
	c.mu.Lock()
	defer c.mu.Unlock()
	c.polls++
	if c.k > 0 && c.polls >= c.k && !c.done {
		c.done = true
		close(c.ch)
	}
	return c.ch
}
func (c *countCtx) cancelNow() {
	c.mu.Lock()
	defer c.mu.Unlock()
	if !c.done {
		c.done = true
		close(c.ch)
	}
}
func (c *countCtx) Err() error {
	c.mu.Lock()
	defer c.mu.Unlock()
	if c.done {
		return context.Canceled
	}
	return nil
}
func (c *countCtx) Value(any) any { return nil }
func (c *countCtx) Polls() int {
	c.mu.Lock()
	defer c.mu.Unlock()
	return c.polls
}

type shape struct {
	name, src string
}

var loops = []shape{
	{"loop", "i := 0\nloop\n  i += 1\nend\n"},
	{"while-true", "i := 0\nwhile true\n  i += 1\nend\n"},
	{"until-false", "i := 0\nuntil false\n  i += 1\nend\n"},
	{"for-endless-range", "s := 0\nfor x in 1...\n  s += x\nend\n"},
	{"for-long-range", "s := 0\nfor x in 1...4000000000000\n  s += 1\nend\n"},
	{"loop-with-continue", "i := 0\nloop\n  i += 1\n  continue if i > 0\n  i -= 1\nend\n"},
	{"nested-loops", "i := 0\nloop\n  j := 0\n  while j < 2\n    j += 1\n  end\n  i += 1\nend\n"},
	{"inner-infinite", "i := 0\nwhile i < 3\n  loop\n    i = 1\n  end\nend\n"},
	{"labelled-loop", "i := 0\n$out: loop\n  loop\n    i += 1\n    continue[$out] if i > 2\n  end\nend\n"},
	{"loop-in-method", "def c33m: Int\n  i := 0\n  loop\n    i += 1\n  end\n  i\nend\nc33m()\n"},
	{"loop-in-closure", "f := ||: Int ->\n  i := 0\n  loop\n    i += 1\n  end\n  i\nend\nf.()\n"},
	{"loop-in-do-finally", "i := 0\ndo\n  loop\n    i += 1\n  end\nfinally\n  i = 0\nend\n"},
	{"loop-in-do-catch", "i := 0\nloop\n  do\n    throw unchecked :x if i >= 0\n  catch e\n    i += 1\n  end\nend\n"},
	{"generator-consumer", "def *c33g: Int\n  loop\n    yield 1\n  end\n  0\nend\ns := 0\nfor x in c33g()\n  s += x\nend\n"},
	{"loop-in-generator", "def *c33h: Int\n  i := 0\n  loop\n    i += 1\n  end\n  yield i\n  0\nend\nfor x in c33h()\n  println(x)\nend\n"},
	{"recursion", "def c33r(n: Int): Int\n  m := c33r(n + 1)\n  m + 1\nend\nc33r(0)\n"},
	{"tail-recursion", "def c33t(n: Int): Int then c33t(n + 1)\nc33t(0)\n"},
	{"mutual-recursion-loop", "def c33a(n: Int): Int then n + 1\ni := 0\nloop\n  i = c33a(i)\nend\n"},
	{"while-with-method-cond", "def c33c: bool then true\ni := 0\nwhile c33c()\n  i += 1\nend\n"},
	{"loop-modifier", "i := 0\ni += 1 while true\n"},
}

var blocking = []shape{
	{"pop-empty-channel", "ch := Channel::[Int](1)\nx := try ch.pop\nprintln(x)\n"},
	{"pop-empty-unbuffered", "ch := Channel::[Int](0)\nx := try ch.pop\nprintln(x)\n"},
	{"recv-operator-empty", "ch := Channel::[Int](1)\nx := <<ch\nprintln(1)\n"},
	{"push-full-channel", "ch := Channel::[Int](1)\nch << 1\nch << 2\nprintln(3)\n"},
	{"push-unbuffered", "ch := Channel::[Int](0)\nch << 1\nprintln(3)\n"},
	{"for-in-open-empty-channel", "ch := Channel::[Int](1)\nfor x in ch\n  println(x)\nend\n"},
	{"select-no-ready-case", "a := Channel::[Int](1)\nb := Channel::[Int](1)\nb << 1\nselect\ncase v := <<a\n  println(1)\ncase b << 2\n  println(2)\nend\n"},
}

func compile(src string) (*vm.BytecodeFunction, string) {
	var fn *vm.BytecodeFunction
	var msg string
	func() {
		defer func() {
			if p := recover(); p != nil {
				msg = fmt.Sprint("checker panic: ", p)
			}
		}()
		f, diags := checker.CheckSource("p.elk", src, nil, bitfield.BitField16FromBitFlag(checker.AdditionalAbortChecks), nil)
		if diags.IsFailure() {
			msg = diags.Error()
			return
		}
		fn = f
	}()
	return fn, msg
}

type outcome struct {
	kind  string // aborted | other-error | value | gopanic
	text  string
	polls int
}

func runWith(fn *vm.BytecodeFunction, ctx *countCtx) (o outcome) {
	var out strings.Builder
	defer func() {
		if p := recover(); p != nil {
			o = outcome{"gopanic", fmt.Sprint(p), ctx.Polls()}
		}
	}()
	v := vm.New(vm.WithStdout(&out), vm.WithStderr(&out), vm.WithAborter(value.NewAborter(ctx, func() { ctx.cancelNow() })))
	val, err := v.InterpretTopLevel(fn)
	if !err.IsUndefined() {
		if err == value.ExecutionAbortedError.ToValue() || strings.Contains(err.Inspect(), "ExecutionAborted") {
			return outcome{"aborted", err.Inspect(), ctx.Polls()}
		}
		return outcome{"other-error", err.Inspect(), ctx.Polls()}
	}
	return outcome{"value", val.Inspect() + " out=" + out.String(), ctx.Polls()}
}

func main() {
	engine.Main(&engine.Spec{
		Prop:  "C33",
		Level: "exploration",
		Rule: "20 non-terminating program shapes (every loop kind, loops inside methods/closures/generators/do-finally/do-catch, recursion, tail recursion) x cancellation at the k-th abort poll for k in 1..40 (thorough 1..200), plus 7 blocking shapes (channel pop/push/for-in/select with nothing ready) x {cancelled at the k-th poll for k in 1..6, cancelled by another goroutine while blocked}; plus 8 scenarios of 2-3 threads blocking in PopCtx/PushCtx/NextValueCtx on one channel racing with each other and with a canceller thread, every schedule with at most 2 (thorough 3) preemptions under the controlled scheduler (value/channel_of_value.go instrumented by build overlay); " +
			"oracle: the run ends with ExecutionAbortedError at exactly the k-th poll (a stack-limit error before that poll is accepted for recursion), never runs on or hangs (watchdog) and never panics; non-trivial = every (shape, k) pair (enumerated without repetition)",
		Assume:          []string{"cancellation time is discretised to abort-check polls (ctx.Done() calls)", "a hang is decided by the engine's 40 s per-case watchdog, re-run alone with 120 s before it is believed"},
		HangIsViolation: true,
		CaseTimeout:     40 * time.Second,
		Setup:           func(c *engine.Ctx) { elkrun.Init() },
		Run: func(c *engine.Ctx) {
			maxK := 40
			if c.Thorough {
				maxK = 200
			}
			for _, sh := range loops {
				sh := sh
				c.Case("loop/"+sh.name, func(r *engine.R) {
					fn, msg := compile(sh.src)
					elkrun.ResetRuntime()
					if fn == nil {
						r.Violation("INFRA shape does not compile "+sh.name, msg, sh.src)
						return
					}
					fn2, _ := compile(sh.src) // definitions must exist in the fresh runtime
					_ = fn2
					for k := 1; k <= maxK; k++ {
						ctx := newCountCtx(k)
						o := runWith(fn, ctx)
						r.Eval(1)
						r.NT(1)
						r.Outcome(o.kind)
						switch {
						case o.kind == "aborted" && o.polls == k:
						case o.kind == "aborted":
							r.Violation("not prompt shape="+sh.name, fmt.Sprintf("%s\ncancelled at poll %d, but the program polled %d times before stopping", sh.src, k, o.polls), sh.src)
						case o.kind == "other-error" && o.polls < k && strings.Contains(strings.ToLower(o.text), "stack"):
							r.Count("stack_limit_before_cancel", 1)
						case o.kind == "gopanic":
							r.Violation("go-panic shape="+sh.name+" "+engine.PanicSig(o.text, ""), fmt.Sprintf("%s\nk=%d: %s", sh.src, k, o.text), sh.src)
						default:
							r.Violation("not aborted shape="+sh.name+" outcome="+o.kind, fmt.Sprintf("%s\ncancelled at poll %d (polls made: %d): ended with %s %s", sh.src, k, o.polls, o.kind, o.text), sh.src)
						}
					}
					elkrun.ResetRuntime()
					r.Sample(map[string]any{"shape": sh.name, "source": sh.src, "k": fmt.Sprintf("1..%d", maxK)})
				})
			}
			for _, sc := range schedScens {
				sc := sc
				c.Case("sched/"+sc.name, func(r *engine.R) { exploreSched(r, sc, c.Thorough) })
			}
			for _, sh := range blocking {
				sh := sh
				c.Case("blocking/"+sh.name, func(r *engine.R) {
					fn, msg := compile(sh.src)
					if fn == nil {
						r.Violation("INFRA shape does not compile "+sh.name, msg, sh.src)
						return
					}
					// (a) cancellation at the k-th poll: the context is already cancelled when the operation starts or becomes so at its own poll
					for k := 1; k <= 6; k++ {
						ctx := newCountCtx(k)
						// a fallback canceller so that a run whose k exceeds the polls the program makes does not block forever
						stop := make(chan struct{})
						go func() {
							select {
							case <-time.After(300 * time.Millisecond):
								ctx.cancelNow()
							case <-stop:
							}
						}()
						o := runWith(fn, ctx)
						close(stop)
						r.Eval(1)
						r.NT(1)
						r.Outcome("blocking-" + o.kind)
						if o.kind != "aborted" {
							r.Violation("blocking not aborted shape="+sh.name+" outcome="+o.kind, fmt.Sprintf("%s\ncancelled at poll %d or while blocked: ended with %s %s", sh.src, k, o.kind, o.text), sh.src)
						}
					}
					// (b) cancelled by another goroutine once the program is blocked (k = 0: never by polls)
					ctx := newCountCtx(0)
					go func() {
						time.Sleep(100 * time.Millisecond)
						ctx.cancelNow()
					}()
					o := runWith(fn, ctx)
					r.Eval(1)
					r.NT(1)
					if o.kind != "aborted" {
						r.Violation("blocking not aborted shape="+sh.name+" outcome="+o.kind, fmt.Sprintf("%s\ncancelled while blocked: ended with %s %s", sh.src, o.kind, o.text), sh.src)
					}
					elkrun.ResetRuntime()
					r.Sample(map[string]any{"shape": sh.name, "source": sh.src})
				})
			}
		},
	})
}

// ---------------------------------------------------------------------------------------------
// E1 part: blocking channel operations racing with other threads and with the cancellation, under the
// controlled scheduler (value/channel_of_value.go is instrumented through the build overlay). Every schedule
// up to a preemption bound; after the canceller has run, every thread must return (no deadlock) and a thread
// that did not complete its operation must report ExecutionAbortedError.

type schedScen struct {
	name string
	cap  int
	pre  int      // values buffered before the threads start
	ops  []string // one operation per thread: pop | push | next
}

var schedScens = []schedScen{
	{"two-pops-one-buffered-value", 1, 1, []string{"pop", "pop"}},
	{"three-pops-one-buffered-value", 2, 1, []string{"pop", "pop", "pop"}},
	{"two-nexts-one-buffered-value", 1, 1, []string{"next", "next"}},
	{"pop-and-next-one-value", 1, 1, []string{"pop", "next"}},
	{"two-pushes-one-free-slot", 1, 0, []string{"push", "push"}},
	{"two-pushes-full-one-pop", 1, 1, []string{"push", "push", "pop"}},
	{"pops-on-empty-unbuffered", 0, 0, []string{"pop", "pop"}},
	{"push-and-pop-unbuffered-extra-pop", 0, 0, []string{"push", "pop", "pop"}},
}

func exploreSched(r *engine.R, sc schedScen, thorough bool) {
	var results []string
	run := func(prefix []int, opts verifrt.Options) (*verifrt.Exec, string) {
		res := make([]string, len(sc.ops))
		x := verifrt.Run(func() {
			ctx, cancel := context.WithCancel(context.Background())
			ch := value.NewChannelOfValue(sc.cap)
			for i := 0; i < sc.pre; i++ {
				ch.Push(value.SmallInt(100 + i).ToValue())
			}
			done := 0
			for i, op := range sc.ops {
				i, op := i, op
				verifrt.Go(func() {
					var err value.Value
					switch op {
					case "pop":
						_, err = ch.PopCtx(ctx)
					case "next":
						_, err = ch.NextValueCtx(ctx)
					case "push":
						err = ch.PushCtx(ctx, value.SmallInt(i).ToValue())
					}
					switch {
					case err.IsUndefined():
						res[i] = "ok"
					case err == value.ExecutionAbortedError.ToValue():
						res[i] = "aborted"
					default:
						res[i] = "err:" + err.Inspect()
					}
					done++
				})
			}
			verifrt.Go(func() { // the canceller
				verifrt.Yield()
				cancel()
				verifrt.Yield()
			})
			verifrt.Await("join", func() bool { return done == len(sc.ops) })
		}, prefix, opts)
		results = res
		return x, x.Describe() + " | " + strings.Join(res, ",")
	}
	bound := 2
	if thorough {
		bound = 3
	}
	outcomes := map[string]bool{}
	st := sched.Explore(sched.Config{Bound: bound, MaxExecs: 2000000, Deadline: time.Now().Add(30 * time.Second), Opts: verifrt.Options{NoEvents: true}}, run, func(x *verifrt.Exec, outcome string, _ int) {
		outcomes[outcome] = true
		bad := ""
		switch {
		case x.Diverged != "":
			bad = "INFRA replay divergence"
		case x.Deadlock:
			bad = "blocked forever after cancellation"
		case x.Panic != "" || x.Fatal != "":
			bad = "host crash: " + x.Panic + x.Fatal
		default:
			for _, s := range results {
				if s != "ok" && s != "aborted" {
					bad = "unexpected result " + s
				}
			}
		}
		if bad != "" {
			r.Violation("sched scenario="+sc.name+" "+strings.SplitN(bad, ":", 2)[0], fmt.Sprintf("channel capacity %d, %d value(s) buffered, threads %v + a canceller\n%s\noutcome: %s\nschedule: %v", sc.cap, sc.pre, sc.ops, bad, outcome, x.ChoiceList()),
				map[string]any{"scenario": sc.name, "schedule": x.ChoiceList()})
		}
	})
	r.Eval(st.Execs)
	r.NT(1)
	r.Count("sched_executions", st.Execs)
	r.Count("sched_transitions", st.Transitions)
	for o := range outcomes {
		r.Outcome("sched:" + strings.SplitN(o, " ", 2)[0])
	}
	if st.Capped {
		r.Capped("budget hit: sched/" + sc.name)
	}
	r.Sample(map[string]any{"sched_scenario": sc.name, "executions": st.Execs, "distinct_outcomes": len(outcomes)})
}
