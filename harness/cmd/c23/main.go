// C23 — ranges and iterable operations agree with a list model.
//
// Part A (ranges): the 8 range kinds × bound families (Int −2…3, Float {−0.5, 0, 1.5}, Int bounds (2^63-2, 2^63-1, 2^63+1) straddling the
// machine word, Char) × every probe value: `contains` (statically bound on a constant-folded range, on a range
// built at run time, dynamically through the Range mixin, and as a `switch` range pattern), the open/closed
// predicates, start/end, and iteration (for-in over the literal, through PrimitiveIterable, over a run-time range)
// against a model computed from the bounds.
//
// Part B (iterables): every element list of length 0–3 (thorough 0–5) over {1, 2, 3, −1} × every iterable kind the language offers
// for it × every operation of the Std::Iterable interface × arguments; oracle = the same operation on the Go slice
// (multiset / membership comparison where the iteration order of a hash collection is unspecified). Behaviour the
// interface does not document (negative n, reduce of an empty iterable) must equal what an ArrayList holding the same
// elements does. Operations the headers promise but the run-time class does not have are reported once per class.
package main

import (
	"fmt"
	"math/big"
	"sort"
	"strings"
	"time"

	"github.com/elk-language/elk/value"

	"verifharness/elkrun"
	"verifharness/engine"
)

const catchTail = `catch ::Std::Error() as err
  println("ERR " + err.class.name)
catch err
  println("ERR non-error value thrown")
end
`

const prelude = elkrun.ShowPrelude + `
def sq(it: ::Std::PrimitiveIterable[::Std::Inspectable]): ::Std::String
  s := "<"
  for e in it
    s = s + e.inspect + ";"
  end
  s + ">"
end
def sqn(it: ::Std::PrimitiveIterable[::Std::Inspectable], n: ::Std::Int): ::Std::String
  s := "<"
  i := 0
  for e in it
    if i >= n
      s = s + "+"
      break
    end
    s = s + e.inspect + ";"
    i = i + 1
  end
  s + ">"
end
def mkch(l: ::Std::ArrayList[::Std::Int]): ::Std::Channel[::Std::Int]
  ch := ::Std::Channel::[::Std::Int](8)
  for e in l
    do
      ch << e
    catch e2
      println("push failed")
    end
  end
  ch.close
  ch
end
`

// seq makes helper names unique per process: the compiler binds calls to whatever method of that name the
// process-global runtime already has.
var seq int

func wrap(body string) string { return "do\n" + body + catchTail }

// outcome of one batch item
func outcome(ir elkrun.ItemResult) (lines []string, fail string) {
	switch {
	case ir.Panic != "":
		return nil, "GOPANIC " + ir.Panic
	case ir.Rejected:
		return nil, "REJECTED " + firstLine(ir.Diags)
	case ir.Err != "":
		return nil, "UNCAUGHT " + ir.ErrClass
	}
	for _, l := range strings.Split(strings.TrimSpace(ir.Out), "\n") {
		lines = append(lines, strings.TrimSpace(l))
	}
	return lines, ""
}

func firstLine(s string) string {
	s = strings.TrimSpace(s)
	if i := strings.Index(s, "\n"); i >= 0 {
		s = s[:i]
	}
	return s
}

func panicKey(f string) string {
	f = strings.TrimPrefix(f, "GOPANIC ")
	if i := strings.Index(f, " of class:"); i >= 0 {
		j := strings.Index(f[i:], " @ ")
		if j >= 0 {
			f = f[:i] + f[i+j:]
		} else {
			f = f[:i]
		}
	}
	parts := strings.Split(f, " @ ")
	if len(parts) > 2 {
		parts = parts[:2]
	}
	return strings.Join(parts, " @ ")
}

// =========================================================================================================
// Part A: ranges

type rkind struct {
	name, class, tmpl string
	hasLo, hasHi      bool
	loOpen, hiOpen    bool
}

var rkinds = []rkind{
	{"closed", "ClosedRange", "%s...%s", true, true, false, false},
	{"open", "OpenRange", "%s<.<%s", true, true, true, true},
	{"rightopen", "RightOpenRange", "%s..<%s", true, true, false, true},
	{"leftopen", "LeftOpenRange", "%s<..%s", true, true, true, false},
	{"beginless_closed", "BeginlessClosedRange", "...%[2]s", false, true, false, false},
	{"beginless_open", "BeginlessOpenRange", "..<%[2]s", false, true, false, true},
	{"endless_closed", "EndlessClosedRange", "%[1]s...", true, false, false, false},
	{"endless_open", "EndlessOpenRange", "%[1]s<..", true, false, true, false},
}

func (k *rkind) lit(lo, hi string) string {
	if !k.hasLo && strings.HasPrefix(hi, "-") {
		hi = "(" + hi + ")" // `...-2` does not parse
	}
	s := fmt.Sprintf(k.tmpl, lo, hi)
	if i := strings.Index(s, "%!(EXTRA"); i >= 0 {
		s = s[:i]
	}
	return s
}

// bv is a bound / probe value: source literal, inspect string, and its position on the number line.
type bv struct {
	lit, insp string
	ord       *big.Rat
}

type family struct {
	label     string   // name used in signatures (the fixed-width families share one)
	top       *big.Int // largest representable value (nil: unbounded)
	name, typ string
	bounds    []bv
	xs        []bv
	discrete  bool                    // iterable: successor = ord+1
	elem      func(n *big.Int) string // inspect string of the element with ordinal n
}

func intBV(n int64) bv {
	s := fmt.Sprint(n)
	return bv{s, s, new(big.Rat).SetInt64(n)}
}
func bigBV(s string) bv {
	z, _ := new(big.Int).SetString(s, 10)
	return bv{s, s, new(big.Rat).SetInt(z)}
}
func floatBV(f float64) bv {
	s := fmt.Sprintf("%.1f", f)
	r := new(big.Rat)
	r.SetFloat64(f)
	return bv{s, s, r}
}
func charBV(c rune) bv {
	s := "`" + string(c) + "`"
	return bv{s, s, new(big.Rat).SetInt64(int64(c))}
}

func families(thorough bool) []family {
	var fs []family
	f := family{name: "Int", typ: "::Std::Int", discrete: true, elem: func(n *big.Int) string { return n.String() }}
	w := int64(0)
	if thorough {
		w = 1
	}
	for i := -2 - w; i <= 3+w; i++ {
		f.bounds = append(f.bounds, intBV(i))
	}
	for i := -3 - w; i <= 4+w; i++ {
		f.xs = append(f.xs, intBV(i))
	}
	fs = append(fs, f)
	g := family{name: "Float", typ: "::Std::Float"}
	for _, b := range []float64{-0.5, 0, 1.5} {
		g.bounds = append(g.bounds, floatBV(b))
	}
	for x := -3.0; x <= 4.0; x += 0.5 {
		g.xs = append(g.xs, floatBV(x))
	}
	fs = append(fs, g)
	h := family{name: "BigInt", typ: "::Std::Int", discrete: true, elem: func(n *big.Int) string { return n.String() }}
	// 2^63-1 is the largest small Int: a range ending exactly there must stop, one starting there continues as BigInt
	h.bounds = []bv{bigBV("9223372036854775806"), bigBV("9223372036854775807"), bigBV("9223372036854775809")}
	for _, s := range []string{"9223372036854775805", "9223372036854775806", "9223372036854775807", "9223372036854775808", "9223372036854775809", "9223372036854775810", "0"} {
		h.xs = append(h.xs, bigBV(s))
	}
	fs = append(fs, h)
	c := family{name: "Char", typ: "::Std::Char", discrete: true, elem: func(n *big.Int) string { return "`" + string(rune(n.Int64())) + "`" }}
	c.bounds = []bv{charBV('a'), charBV('c')}
	for _, r := range []rune{'A', 'a', 'b', 'c', 'd'} {
		c.xs = append(c.xs, charBV(r))
	}
	fs = append(fs, c)
	// fixed-width integers at the top of their type: the successor of the last element does not exist
	for _, fw := range []struct {
		name, suffix string
		top          int64
	}{{"Int8", "i8", 127}, {"UInt8", "u8", 255}, {"Int64", "i64", 9223372036854775807}} {
		fw := fw
		mk := func(n int64) bv {
			return bv{fmt.Sprintf("%d%s", n, fw.suffix), fmt.Sprintf("%d%s", n, fw.suffix), new(big.Rat).SetInt64(n)}
		}
		fam := family{name: fw.name, label: "FixedWidth", top: big.NewInt(fw.top), typ: "::Std::" + fw.name, discrete: true, elem: func(n *big.Int) string { return n.String() + fw.suffix }}
		fam.bounds = []bv{mk(fw.top - 2), mk(fw.top)}
		for _, d := range []int64{-3, -2, -1, 0} {
			fam.xs = append(fam.xs, mk(fw.top+d))
		}
		fam.xs = append(fam.xs, mk(0))
		fs = append(fs, fam)
	}
	return fs
}

func (k *rkind) contains(lo, hi, x *big.Rat) bool {
	if k.hasLo {
		c := lo.Cmp(x)
		if c > 0 || (c == 0 && k.loOpen) {
			return false
		}
	}
	if k.hasHi {
		c := x.Cmp(hi)
		if c > 0 || (c == 0 && k.hiOpen) {
			return false
		}
	}
	return true
}

const iterCap = 8

// elements returns the inspect strings of the first iterCap elements ("+" appended when there are more).
func (k *rkind) elements(f *family, lo, hi *big.Rat) string {
	cur := new(big.Int).Set(lo.Num())
	if k.loOpen {
		cur.Add(cur, big.NewInt(1))
	}
	var b strings.Builder
	b.WriteString("<")
	for n := 0; ; n++ {
		if k.hasHi {
			c := cur.Cmp(hi.Num())
			if c > 0 || (c == 0 && k.hiOpen) {
				break
			}
		}
		if n == iterCap {
			b.WriteString("+")
			break
		}
		if f.top != nil && cur.Cmp(f.top) > 0 {
			return "" // the model element is not representable: what an endless range does at the top of the type is not specified
		}
		b.WriteString(f.elem(cur) + ";")
		cur.Add(cur, big.NewInt(1))
	}
	b.WriteString(">")
	return b.String()
}

func boolStr(b bool) string {
	if b {
		return "true"
	}
	return "false"
}

func rangeCases(c *engine.Ctx) {
	for _, f := range families(c.Thorough) {
		f := f
		for ki := range rkinds {
			k := &rkinds[ki]
			los := f.bounds
			if !k.hasLo {
				los = f.bounds[:1] // placeholder, unused
			}
			for _, lo := range los {
				lo := lo
				id := fmt.Sprintf("range/%s/%s/lo=%s", f.name, k.name, lo.lit)
				if !k.hasLo {
					id = fmt.Sprintf("range/%s/%s", f.name, k.name)
				}
				c.Case(id, func(r *engine.R) { runRangeCase(r, &f, k, lo) })
			}
		}
	}
}

type expectLine struct{ tag, want, what string }

func runRangeCase(r *engine.R, f *family, k *rkind, lo bv) {
	seq++
	his := f.bounds
	if !k.hasHi {
		his = f.bounds[:1]
	}
	rtyp := fmt.Sprintf("::Std::%s[%s]", k.class, f.typ)
	var pre strings.Builder
	pre.WriteString(prelude)
	mk := fmt.Sprintf("mk%d", seq)
	fmt.Fprintf(&pre, "def %s(a: %s, b: %s): %s then %s\n", mk, f.typ, f.typ, rtyp, k.lit("a", "b"))
	cont := fmt.Sprintf("cont%d", seq)
	fmt.Fprintf(&pre, "def %s(r: ::Std::Range[%s], x: %s): bool then r.contains(x)\n", cont, f.typ, f.typ)
	type itemMeta struct {
		form   string
		hi     bv
		expect []expectLine
		src    string
	}
	var items []elkrun.Item
	var metas []itemMeta
	useSwitch := k.hasLo // beginless patterns are not accepted by the checker
	for hi_i, hi := range his {
		lit := k.lit(lo.lit, hi.lit)
		attrs := func() (string, []expectLine) {
			var b strings.Builder
			var ex []expectLine
			b.WriteString("  println(\"lo \" + r.is_left_open.inspect)\n  println(\"lc \" + r.is_left_closed.inspect)\n  println(\"ro \" + r.is_right_open.inspect)\n  println(\"rc \" + r.is_right_closed.inspect)\n")
			b.WriteString("  println(\"st \" + show(r.start))\n  println(\"en \" + show(r.end))\n")
			if k.hasLo {
				ex = append(ex, expectLine{"lo", boolStr(k.loOpen), "is_left_open"}, expectLine{"lc", boolStr(!k.loOpen), "is_left_closed"}, expectLine{"st", lo.insp, "start"})
			} else {
				ex = append(ex, expectLine{"st", "nil", "start"})
			}
			if k.hasHi {
				ex = append(ex, expectLine{"ro", boolStr(k.hiOpen), "is_right_open"}, expectLine{"rc", boolStr(!k.hiOpen), "is_right_closed"}, expectLine{"en", hi.insp, "end"})
			} else {
				ex = append(ex, expectLine{"en", "nil", "end"})
			}
			return b.String(), ex
		}
		memb := func(call func(x bv) string) (string, []expectLine) {
			var b strings.Builder
			var ex []expectLine
			for xi, x := range f.xs {
				fmt.Fprintf(&b, "  println(\"x%d \" + %s.inspect)\n", xi, call(x))
				ex = append(ex, expectLine{fmt.Sprintf("x%d", xi), boolStr(k.contains(lo.ord, hi.ord, x.ord)), "contains(" + x.lit + ")"})
			}
			return b.String(), ex
		}
		iter := func(expr string) (string, []expectLine) {
			if !f.discrete || !k.hasLo {
				return "", nil
			}
			want := k.elements(f, lo.ord, hi.ord)
			if want == "" {
				return "", nil
			}
			return fmt.Sprintf("  println(\"it \" + sqn(%s, %d))\n", expr, iterCap), []expectLine{{"it", want, "iteration"}}
		}
		// static: constant-folded range literal, statically bound contains
		{
			a, ea := attrs()
			m, em := memb(func(x bv) string { return "r.contains(" + x.lit + ")" })
			it, ei := iter("r")
			src := wrap("  r := " + lit + "\n" + m + a + it)
			items = append(items, elkrun.Item{Code: src})
			metas = append(metas, itemMeta{"static", hi, append(append(em, ea...), ei...), src})
		}
		// runtime: range built by NEW_RANGE from parameters
		{
			a, ea := attrs()
			m, em := memb(func(x bv) string { return "r.contains(" + x.lit + ")" })
			it, ei := iter("r")
			src := wrap(fmt.Sprintf("  r := %s(%s, %s)\n", mk, lo.lit, hi.lit) + m + a + it)
			items = append(items, elkrun.Item{Code: src})
			metas = append(metas, itemMeta{"runtime", hi, append(append(em, ea...), ei...), src})
		}
		// dynamic: contains dispatched through the Range mixin type
		{
			m, em := memb(func(x bv) string { return cont + "(r, " + x.lit + ")" })
			src := wrap(fmt.Sprintf("  r := %s(%s, %s)\n", mk, lo.lit, hi.lit) + m)
			items = append(items, elkrun.Item{Code: src})
			metas = append(metas, itemMeta{"dynamic", hi, em, src})
		}
		if useSwitch {
			sw := fmt.Sprintf("sw%d_%d", seq, hi_i)
			fmt.Fprintf(&pre, "def %s(x: %s): bool\n  switch x\n  case %s then true\n  else false\n  end\nend\n", sw, f.typ, lit)
			m, em := memb(func(x bv) string { return sw + "(" + x.lit + ")" })
			src := wrap(m)
			items = append(items, elkrun.Item{Code: src})
			metas = append(metas, itemMeta{"switch-pattern", hi, em, fmt.Sprintf("def %s(x: %s): bool\n  switch x\n  case %s then true\n  else false\n  end\nend\n", sw, f.typ, lit) + src})
		}
		if f.discrete && k.hasLo && k.elements(f, lo.ord, hi.ord) != "" {
			src := wrap(fmt.Sprintf("  s := \"<\"\n  n := 0\n  for e in %s\n    if n >= %d\n      s = s + \"+\"\n      break\n    end\n    s = s + e.inspect + \";\"\n    n = n + 1\n  end\n  println(\"it \" + s + \">\")\n", lit, iterCap))
			items = append(items, elkrun.Item{Code: src})
			metas = append(metas, itemMeta{"for-literal", hi, []expectLine{{"it", k.elements(f, lo.ord, hi.ord), "iteration"}}, src})
		}
	}
	label := f.label
	if label == "" {
		label = f.name
	}
	// failures of one observable, aggregated over the forms that show it
	type agg struct {
		forms  []string
		detail string
		src    string
		n      int
	}
	fails := map[string]*agg{}
	checkedForms := map[string]map[string]bool{}
	var failKeys []string
	res := elkrun.Batch(pre.String(), items, nil)
	for i, ir := range res {
		m := metas[i]
		rng := k.lit(lo.lit, m.hi.lit)
		lines, fail := outcome(ir)
		if fail != "" {
			if strings.HasPrefix(fail, "REJECTED") {
				r.Count("range_item_rejected:"+k.name+"/"+f.name+"/"+m.form, 1)
				r.Note("rejected: " + k.name + "/" + m.form + " " + fail)
				continue
			}
			sig := fmt.Sprintf("range kind=%s family=%s form=%s %s", k.name, label, m.form, fail)
			if strings.HasPrefix(fail, "GOPANIC") {
				sig = fmt.Sprintf("range kind=%s go-panic %s", k.name, panicKey(fail))
			}
			r.Violation(sig, fmt.Sprintf("range %s (%s bounds), form %s: %s\n%s", rng, f.name, m.form, fail, ir.Stack), m.src)
			continue
		}
		got := map[string]string{}
		for _, l := range lines {
			if l == "" {
				continue
			}
			parts := strings.SplitN(l, " ", 2)
			if len(parts) == 2 {
				got[parts[0]] = parts[1]
			} else {
				got[parts[0]] = ""
			}
			if strings.HasPrefix(l, "ERR ") {
				got["ERR"] = l
			}
		}
		if e, ok := got["ERR"]; ok {
			r.Violation(fmt.Sprintf("range kind=%s family=%s form=%s unexpected error %s", k.name, label, m.form, strings.TrimPrefix(e, "ERR ")), fmt.Sprintf("range %s, form %s raised %s; output so far: %v", rng, m.form, e, lines), m.src)
		}
		for _, ex := range m.expect {
			g, ok := got[ex.tag]
			if !ok {
				continue // cut short by an error reported above
			}
			r.Eval(1)
			r.NT(1)
			r.Outcome(ex.what[:2] + "=" + trunc(ex.want, 8))
			what := ex.what
			if i := strings.Index(what, "("); i >= 0 {
				what = what[:i]
			}
			if checkedForms[what] == nil {
				checkedForms[what] = map[string]bool{}
			}
			checkedForms[what][m.form] = true
			if g == ex.want {
				continue
			}
			a := fails[what]
			if a == nil {
				a = &agg{detail: fmt.Sprintf("range %s (%s bounds), form %s: %s is %s, expected %s", rng, f.name, m.form, ex.what, g, ex.want), src: m.src}
				fails[what] = a
				failKeys = append(failKeys, what)
			}
			a.n++
			if !contains2(a.forms, m.form) {
				a.forms = append(a.forms, m.form)
			}
		}
		// the open/closed predicates must be complementary even on an unbounded side
		for _, pair := range [][2]string{{"lo", "lc"}, {"ro", "rc"}} {
			a, oka := got[pair[0]]
			b, okb := got[pair[1]]
			if oka && okb && a == b {
				r.Violation(fmt.Sprintf("range kind=%s open/closed predicates not complementary", k.name),
					fmt.Sprintf("range %s, form %s: is_%s_open=%s and is_%s_closed=%s", rng, m.form, map[string]string{"lo": "left", "ro": "right"}[pair[0]], a, map[string]string{"lo": "left", "ro": "right"}[pair[0]], b), m.src)
			}
		}
	}
	sort.Strings(failKeys)
	for _, what := range failKeys {
		a := fails[what]
		sig := fmt.Sprintf("range kind=%s %s wrong", k.name, what)
		if what == "contains" || what == "iteration" {
			// membership and iteration depend on the bound values and on how the range was built and consumed
			forms := strings.Join(a.forms, "+")
			if len(a.forms) == len(checkedForms[what]) && len(a.forms) > 1 {
				forms = "*"
			}
			sig = fmt.Sprintf("range kind=%s family=%s %s form=%s wrong", k.name, label, what, forms)
		}
		r.Violation(sig, fmt.Sprintf("(%d observations, forms %s)\n%s", a.n, strings.Join(a.forms, ", "), a.detail), a.src)
	}
	if len(items) > 0 {
		r.Sample(items[0].Code)
	}
}

func trunc(s string, n int) string {
	if len(s) > n {
		return s[:n]
	}
	return s
}

// =========================================================================================================
// Part B: iterables

type ikind struct {
	name      string
	class     func() *value.Class // run-time class of the iterable the operations are called on
	header    string              // what the headers say
	ordered   bool
	pairs     bool                             // elements are Pair(k, k*10)
	distinct  bool                             // only element lists without duplicates
	consec    int                              // 0: any list; 1: consecutive ascending lists only (ranges)
	nonempty  bool                             // generators always yield their return value
	construct func(l []int, gen string) string // statements binding `it`
}

func intsLit(l []int) string {
	var s []string
	for _, e := range l {
		s = append(s, fmt.Sprint(e))
	}
	return strings.Join(s, ", ")
}
func pairsLit(l []int) string {
	var s []string
	for _, e := range l {
		s = append(s, fmt.Sprintf("%d => %d", e, e*10))
	}
	return strings.Join(s, ", ")
}

var ikinds = []ikind{
	{name: "list", class: func() *value.Class { return value.ArrayListClass }, header: "ArrayList includes List → Collection::Base → Iterable::FiniteBase", ordered: true,
		construct: func(l []int, _ string) string {
			return "  var it: ::Std::ArrayList[::Std::Int] = [" + intsLit(l) + "]\n"
		}},
	{name: "list-as-Iterable", class: func() *value.Class { return value.ArrayListClass }, header: "ArrayList typed as the Iterable interface (dynamic dispatch)", ordered: true,
		construct: func(l []int, _ string) string {
			return "  var src: ::Std::ArrayList[::Std::Int] = [" + intsLit(l) + "]\n  var it: ::Std::Iterable[::Std::Int] = src\n"
		}},
	{name: "tuple", class: func() *value.Class { return value.ArrayTupleClass }, header: "ArrayTuple includes Tuple → ImmutableCollection::Base → Iterable::FiniteBase", ordered: true,
		construct: func(l []int, _ string) string {
			return "  var it: ::Std::ArrayTuple[::Std::Int] = %[" + intsLit(l) + "]\n"
		}},
	{name: "set", class: func() *value.Class { return value.HashSetClass }, header: "HashSet includes Set → Collection::Base → Iterable::FiniteBase", distinct: true,
		construct: func(l []int, _ string) string {
			return "  var it: ::Std::HashSet[::Std::Int] = ^[" + intsLit(l) + "]\n"
		}},
	{name: "map", class: func() *value.Class { return value.HashMapClass }, header: "HashMap includes Map → Record → Iterable::Base[Pair]", distinct: true, pairs: true,
		construct: func(l []int, _ string) string {
			return "  var it: ::Std::HashMap[::Std::Int, ::Std::Int] = {" + pairsLit(l) + "}\n"
		}},
	{name: "record", class: func() *value.Class { return value.HashRecordClass }, header: "HashRecord includes Record → Iterable::Base[Pair]", distinct: true, pairs: true,
		construct: func(l []int, _ string) string {
			return "  var it: ::Std::HashRecord[::Std::Int, ::Std::Int] = %{" + pairsLit(l) + "}\n"
		}},
	{name: "list-iterator", class: func() *value.Class { return value.ArrayListIteratorClass }, header: "ArrayList::Iterator includes ResettableIterator::Base → Iterator::Base → Iterable::Base", ordered: true,
		construct: func(l []int, _ string) string {
			return "  var src: ::Std::ArrayList[::Std::Int] = [" + intsLit(l) + "]\n  it := src.iter\n"
		}},
	{name: "closed-range-iterator", class: func() *value.Class { return value.ClosedRangeIteratorClass }, header: "ClosedRange::Iterator includes ResettableIterator::Base → Iterable::Base", ordered: true, consec: 1,
		construct: func(l []int, _ string) string {
			if len(l) == 0 {
				return "  it := (1...0).iter\n"
			}
			return fmt.Sprintf("  it := (%d...%d).iter\n", l[0], l[len(l)-1])
		}},
	{name: "open-range-iterator", class: func() *value.Class { return value.OpenRangeIteratorClass }, header: "OpenRange::Iterator includes ResettableIterator::Base → Iterable::Base", ordered: true, consec: 1,
		construct: func(l []int, _ string) string {
			if len(l) == 0 {
				return "  it := (1<.<2).iter\n"
			}
			return fmt.Sprintf("  it := (%d<.<%d).iter\n", l[0]-1, l[len(l)-1]+1)
		}},
	{name: "generator", class: func() *value.Class { return value.GeneratorClass }, header: "Generator includes Iterator::Base → Iterable::Base", ordered: true, nonempty: true,
		construct: func(l []int, gen string) string { return "  it := " + gen + "()\n" }},
	{name: "channel", class: func() *value.Class { return value.ChannelClass }, header: "Channel includes Iterable::FiniteBase", ordered: true,
		construct: func(l []int, _ string) string { return "  it := mkch([" + intsLit(l) + "])\n" }},
}

type pred struct {
	id, src string // src uses {V} for the element value
	f       func(e int) bool
}

var preds = []pred{
	{"gt0", "{V} > 0", func(e int) bool { return e > 0 }},
	{"eq2", "{V} == 2", func(e int) bool { return e == 2 }},
	{"always", "true", func(e int) bool { return true }},
	{"never", "false", func(e int) bool { return false }},
}
var ns = []int{-1, 0, 1, 2, 5}
var probes = []int{1, 2, -1, 5}

// expectation of the list model
type exp struct {
	undocumented bool   // the interface does not say: must equal what the ArrayList does
	err          string // expected error class
	scalar       string // expected printed scalar (for elements: the int, rendered per kind)
	isElem       bool   // scalar is an element of the iterable
	isNil        bool
	seq          []int // expected sequence
	isSeq        bool
	seqElems     bool // sequence of elements (rendered per kind) rather than of plain ints
}

type iop struct {
	method  string // method name (for the run-time lookup)
	id      string // with the argument variant
	expr    func(pairs bool) string
	seq     bool // printed with sq()
	model   func(l []int) exp
	order   bool // result depends on the iteration order
	noPairs bool
	// weak check for unordered kinds when order==true: returns "" when the observation is admissible
	weak func(l []int, got obs, pairs bool) string
}

type obs struct {
	fail   string   // GOPANIC / REJECTED / UNCAUGHT
	err    string   // "ERR class"
	scalar string   // printed scalar
	seq    []string // printed sequence elements
	isSeq  bool
}

func elemStr(e int, pairs bool) string {
	if pairs {
		return fmt.Sprintf("Std::Pair(%d, %d)", e, e*10)
	}
	return fmt.Sprint(e)
}

func closure(p pred, pairs bool) string {
	v := "e"
	if pairs {
		v = "e.key"
	}
	return "|e| -> " + strings.ReplaceAll(p.src, "{V}", v)
}

const notFound = "Std::Iterable::NotFoundError"

func contains(l []int, v int) bool {
	for _, e := range l {
		if e == v {
			return true
		}
	}
	return false
}

func isElemOf(l []int, s string, pairs bool) bool {
	for _, e := range l {
		if elemStr(e, pairs) == s {
			return true
		}
	}
	return false
}

// subMultiset reports whether got (rendered elements) is a sub-multiset of l.
func subMultiset(l []int, got []string, pairs bool) bool {
	cnt := map[string]int{}
	for _, e := range l {
		cnt[elemStr(e, pairs)]++
	}
	for _, g := range got {
		cnt[g]--
		if cnt[g] < 0 {
			return false
		}
	}
	return true
}

func iops() []iop {
	var ops []iop
	v := func(pairs bool) string {
		if pairs {
			return "e.key"
		}
		return "e"
	}
	for _, x := range probes {
		x := x
		ops = append(ops, iop{method: "contains", id: fmt.Sprintf("contains(%d)", x),
			expr: func(p bool) string {
				if p {
					return fmt.Sprintf("it.contains(::Std::Pair(%d, %d))", x, x*10)
				}
				return fmt.Sprintf("it.contains(%d)", x)
			},
			model: func(l []int) exp { return exp{scalar: boolStr(contains(l, x))} }})
		ops = append(ops, iop{method: "index_of", id: fmt.Sprintf("index_of(%d)", x), order: true,
			expr: func(p bool) string {
				if p {
					return fmt.Sprintf("it.index_of(::Std::Pair(%d, %d))", x, x*10)
				}
				return fmt.Sprintf("it.index_of(%d)", x)
			},
			model: func(l []int) exp {
				for i, e := range l {
					if e == x {
						return exp{scalar: fmt.Sprint(i)}
					}
				}
				return exp{scalar: "-1"}
			},
			weak: func(l []int, g obs, _ bool) string {
				if !contains(l, x) {
					if g.scalar != "-1" {
						return "expected -1 for an absent element"
					}
					return ""
				}
				var i int
				if _, err := fmt.Sscanf(g.scalar, "%d", &i); err != nil || i < 0 || i >= len(l) {
					return fmt.Sprintf("expected an index in 0..%d", len(l)-1)
				}
				return ""
			}})
	}
	ops = append(ops, iop{method: "is_empty", id: "is_empty", expr: func(bool) string { return "it.is_empty" }, model: func(l []int) exp { return exp{scalar: boolStr(len(l) == 0)} }})
	ops = append(ops, iop{method: "length", id: "length", expr: func(bool) string { return "it.length" }, model: func(l []int) exp { return exp{scalar: fmt.Sprint(len(l))} }})
	endOp := func(name string, last, try bool) iop {
		return iop{method: name, id: name, order: true, expr: func(bool) string { return "it." + name },
			model: func(l []int) exp {
				if len(l) == 0 {
					if try {
						return exp{isNil: true}
					}
					return exp{err: notFound}
				}
				if last {
					return exp{scalar: fmt.Sprint(l[len(l)-1]), isElem: true}
				}
				return exp{scalar: fmt.Sprint(l[0]), isElem: true}
			},
			weak: func(l []int, g obs, pairs bool) string {
				if g.err != "" || !isElemOf(l, g.scalar, pairs) {
					return "expected one of the elements"
				}
				return ""
			}}
	}
	ops = append(ops, endOp("first", false, false), endOp("try_first", false, true), endOp("last", true, false), endOp("try_last", true, true))
	ops = append(ops, iop{method: "map", id: "map(+1)", seq: true, expr: func(p bool) string { return "it.map(|e| -> " + v(p) + " + 1)" },
		model: func(l []int) exp {
			var s []int
			for _, e := range l {
				s = append(s, e+1)
			}
			return exp{isSeq: true, seq: s}
		}})
	for _, p := range preds {
		p := p
		sel := func(l []int, want bool) []int {
			var s []int
			for _, e := range l {
				if p.f(e) == want {
					s = append(s, e)
				}
			}
			return s
		}
		ops = append(ops, iop{method: "filter", id: "filter(" + p.id + ")", seq: true, expr: func(pr bool) string { return "it.filter(" + closure(p, pr) + ")" },
			model: func(l []int) exp { return exp{isSeq: true, seqElems: true, seq: sel(l, true)} }})
		ops = append(ops, iop{method: "reject", id: "reject(" + p.id + ")", seq: true, expr: func(pr bool) string { return "it.reject(" + closure(p, pr) + ")" },
			model: func(l []int) exp { return exp{isSeq: true, seqElems: true, seq: sel(l, false)} }})
		ops = append(ops, iop{method: "count", id: "count(" + p.id + ")", expr: func(pr bool) string { return "it.count(" + closure(p, pr) + ")" },
			model: func(l []int) exp { return exp{scalar: fmt.Sprint(len(sel(l, true)))} }})
		ops = append(ops, iop{method: "any", id: "any(" + p.id + ")", expr: func(pr bool) string { return "it.any(" + closure(p, pr) + ")" },
			model: func(l []int) exp { return exp{scalar: boolStr(len(sel(l, true)) > 0)} }})
		ops = append(ops, iop{method: "every", id: "every(" + p.id + ")", expr: func(pr bool) string { return "it.every(" + closure(p, pr) + ")" },
			model: func(l []int) exp { return exp{scalar: boolStr(len(sel(l, false)) == 0)} }})
		findOp := func(name string, try bool) iop {
			return iop{method: name, id: name + "(" + p.id + ")", order: true, expr: func(pr bool) string { return "it." + name + "(" + closure(p, pr) + ")" },
				model: func(l []int) exp {
					m := sel(l, true)
					if len(m) == 0 {
						if try {
							return exp{isNil: true}
						}
						return exp{err: notFound}
					}
					return exp{scalar: fmt.Sprint(m[0]), isElem: true}
				},
				weak: func(l []int, g obs, pairs bool) string {
					if g.err != "" || !isElemOf(sel(l, true), g.scalar, pairs) {
						return "expected one of the matching elements"
					}
					return ""
				}}
		}
		ops = append(ops, findOp("find", false), findOp("try_find", true))
		ops = append(ops, iop{method: "find_index", id: "find_index(" + p.id + ")", order: true, expr: func(pr bool) string { return "it.find_index(" + closure(p, pr) + ")" },
			model: func(l []int) exp {
				for i, e := range l {
					if p.f(e) {
						return exp{scalar: fmt.Sprint(i)}
					}
				}
				return exp{scalar: "-1"}
			},
			weak: func(l []int, g obs, _ bool) string {
				if len(sel(l, true)) == 0 {
					if g.scalar != "-1" {
						return "expected -1 when no element matches"
					}
					return ""
				}
				var i int
				if _, err := fmt.Sscanf(g.scalar, "%d", &i); err != nil || i < 0 || i >= len(l) {
					return fmt.Sprintf("expected an index in 0..%d", len(l)-1)
				}
				return ""
			}})
		ops = append(ops, iop{method: "take_while", id: "take_while(" + p.id + ")", seq: true, order: true, expr: func(pr bool) string { return "it.take_while(" + closure(p, pr) + ")" },
			model: func(l []int) exp {
				var s []int
				for _, e := range l {
					if !p.f(e) {
						break
					}
					s = append(s, e)
				}
				return exp{isSeq: true, seqElems: true, seq: s}
			},
			weak: func(l []int, g obs, pairs bool) string {
				if !g.isSeq || !subMultiset(sel(l, true), g.seq, pairs) {
					return "expected a sub-multiset of the matching elements"
				}
				return ""
			}})
		ops = append(ops, iop{method: "drop_while", id: "drop_while(" + p.id + ")", seq: true, order: true, expr: func(pr bool) string { return "it.drop_while(" + closure(p, pr) + ")" },
			model: func(l []int) exp {
				i := 0
				for i < len(l) && p.f(l[i]) {
					i++
				}
				return exp{isSeq: true, seqElems: true, seq: append([]int(nil), l[i:]...)}
			},
			weak: func(l []int, g obs, pairs bool) string {
				if !g.isSeq || !subMultiset(l, g.seq, pairs) || len(g.seq) < len(sel(l, false)) {
					return "expected a sub-multiset of the elements containing every non-matching element"
				}
				return ""
			}})
	}
	for _, n := range ns {
		n := n
		ops = append(ops, iop{method: "take", id: fmt.Sprintf("take(%d)", n), seq: true, order: true, expr: func(bool) string { return fmt.Sprintf("it.take(%d)", n) },
			model: func(l []int) exp {
				if n < 0 {
					return exp{undocumented: true}
				}
				m := n
				if m > len(l) {
					m = len(l)
				}
				return exp{isSeq: true, seqElems: true, seq: append([]int(nil), l[:m]...)}
			},
			weak: func(l []int, g obs, pairs bool) string {
				m := n
				if m > len(l) {
					m = len(l)
				}
				if !g.isSeq || len(g.seq) != m || !subMultiset(l, g.seq, pairs) {
					return fmt.Sprintf("expected %d of the elements", m)
				}
				return ""
			}})
		ops = append(ops, iop{method: "drop", id: fmt.Sprintf("drop(%d)", n), seq: true, order: true, expr: func(bool) string { return fmt.Sprintf("it.drop(%d)", n) },
			model: func(l []int) exp {
				if n < 0 {
					return exp{undocumented: true}
				}
				m := n
				if m > len(l) {
					m = len(l)
				}
				return exp{isSeq: true, seqElems: true, seq: append([]int(nil), l[m:]...)}
			},
			weak: func(l []int, g obs, pairs bool) string {
				m := len(l) - n
				if m < 0 {
					m = 0
				}
				if !g.isSeq || len(g.seq) != m || !subMultiset(l, g.seq, pairs) {
					return fmt.Sprintf("expected %d of the elements", m)
				}
				return ""
			}})
	}
	ops = append(ops, iop{method: "reduce", id: "reduce(+)", noPairs: true, expr: func(bool) string { return "it.reduce(|a, e| -> a + e)" },
		model: func(l []int) exp {
			if len(l) == 0 {
				return exp{undocumented: true}
			}
			s := 0
			for _, e := range l {
				s += e
			}
			return exp{scalar: fmt.Sprint(s)}
		}})
	ops = append(ops, iop{method: "reduce", id: "reduce(a*10+e)", noPairs: true, order: true, expr: func(bool) string { return "it.reduce(|a, e| -> a * 10 + e)" },
		model: func(l []int) exp {
			if len(l) == 0 {
				return exp{undocumented: true}
			}
			s := l[0]
			for _, e := range l[1:] {
				s = s*10 + e
			}
			return exp{scalar: fmt.Sprint(s)}
		},
		weak: func(l []int, g obs, _ bool) string { return "" }})
	ops = append(ops, iop{method: "fold", id: "fold(100,+)", expr: func(p bool) string { return "it.fold(100, |a, e| -> a + " + v(p) + ")" },
		model: func(l []int) exp {
			s := 100
			for _, e := range l {
				s += e
			}
			return exp{scalar: fmt.Sprint(s)}
		}})
	ops = append(ops, iop{method: "fold", id: "fold(0,a*10+e)", order: true, expr: func(p bool) string { return "it.fold(0, |a, e| -> a * 10 + " + v(p) + ")" },
		model: func(l []int) exp {
			s := 0
			for _, e := range l {
				s = s*10 + e
			}
			return exp{scalar: fmt.Sprint(s)}
		},
		weak: func(l []int, g obs, _ bool) string { return "" }})
	for _, m := range []string{"to_list", "to_tuple", "to_collection", "to_immutable_collection"} {
		m := m
		ops = append(ops, iop{method: m, id: m, seq: true, expr: func(bool) string { return "it." + m },
			model: func(l []int) exp { return exp{isSeq: true, seqElems: true, seq: l} }})
	}
	ops = append(ops, iop{method: "iter", id: "for-in", seq: true, expr: func(bool) string { return "it" },
		model: func(l []int) exp { return exp{isSeq: true, seqElems: true, seq: l} }})
	return ops
}

func lists(maxLen int) [][]int {
	alpha := []int{1, 2, 3, -1}
	out := [][]int{{}}
	prev := [][]int{{}}
	for n := 1; n <= maxLen; n++ {
		var cur [][]int
		for _, p := range prev {
			for _, a := range alpha {
				cur = append(cur, append(append([]int(nil), p...), a))
			}
		}
		out = append(out, cur...)
		prev = cur
	}
	return out
}

func distinct(l []int) bool {
	for i := range l {
		for j := i + 1; j < len(l); j++ {
			if l[i] == l[j] {
				return false
			}
		}
	}
	return true
}

func consecutive(l []int) bool {
	for i := 1; i < len(l); i++ {
		if l[i] != l[i-1]+1 {
			return false
		}
	}
	return true
}

func (k *ikind) applies(l []int) bool {
	if k.distinct && !distinct(l) {
		return false
	}
	if k.consec == 1 && !consecutive(l) {
		return false
	}
	if k.nonempty && len(l) == 0 {
		return false
	}
	return true
}

func hasMethod(k *ikind, name string) bool {
	return k.class().LookupMethod(value.ToSymbol(name)) != nil
}

func parseSeq(s string) ([]string, bool) {
	if !strings.HasPrefix(s, "<") || !strings.HasSuffix(s, ">") {
		return nil, false
	}
	s = s[1 : len(s)-1]
	if s == "" {
		return []string{}, true
	}
	parts := strings.Split(strings.TrimSuffix(s, ";"), ";")
	return parts, true
}

func observe(ir elkrun.ItemResult, isSeq bool) obs {
	lines, fail := outcome(ir)
	if fail != "" {
		return obs{fail: fail}
	}
	l := ""
	if len(lines) > 0 {
		l = lines[len(lines)-1]
	}
	if strings.HasPrefix(l, "ERR ") {
		return obs{err: strings.TrimPrefix(l, "ERR ")}
	}
	if isSeq {
		if s, ok := parseSeq(l); ok {
			return obs{seq: s, isSeq: true}
		}
	}
	return obs{scalar: l}
}

func (o obs) String() string {
	switch {
	case o.fail != "":
		return o.fail
	case o.err != "":
		return "error " + o.err
	case o.isSeq:
		return "<" + strings.Join(o.seq, ";") + ">"
	}
	return o.scalar
}

func sameMultiset(a, b []string) bool {
	if len(a) != len(b) {
		return false
	}
	x := append([]string(nil), a...)
	y := append([]string(nil), b...)
	sort.Strings(x)
	sort.Strings(y)
	for i := range x {
		if x[i] != y[i] {
			return false
		}
	}
	return true
}

// check compares an observation with the model; returns "" or a description of the mismatch.
func check(k *ikind, op *iop, l []int, e exp, g obs) (what, detail string) {
	render := func(n int, elems bool) string {
		if elems {
			return elemStr(n, k.pairs)
		}
		return fmt.Sprint(n)
	}
	unordered := !k.ordered
	switch {
	case e.err != "":
		if g.err == e.err {
			return "", ""
		}
		if g.err != "" {
			return "wrong error class", fmt.Sprintf("expected error %s, got %s", e.err, g)
		}
		return "no error", fmt.Sprintf("expected error %s, got %s", e.err, g)
	case g.err != "":
		return "unexpected error " + g.err, fmt.Sprintf("expected a value, got %s", g)
	case e.isNil:
		if g.scalar == "nil" {
			return "", ""
		}
		return "wrong result", fmt.Sprintf("expected nil, got %s", g)
	}
	if unordered && op.order && len(l) > 1 {
		if msg := op.weak(l, g, k.pairs); msg != "" {
			return "wrong result", fmt.Sprintf("%s, got %s", msg, g)
		}
		return "", ""
	}
	if e.isSeq {
		want := make([]string, len(e.seq))
		for i, n := range e.seq {
			want[i] = render(n, e.seqElems)
		}
		if !g.isSeq {
			return "wrong result", fmt.Sprintf("expected the sequence <%s>, got %s", strings.Join(want, ";"), g)
		}
		ok := false
		if unordered {
			ok = sameMultiset(want, g.seq)
		} else {
			ok = strings.Join(want, ";") == strings.Join(g.seq, ";")
		}
		if !ok {
			return "wrong result", fmt.Sprintf("expected <%s>%s, got %s", strings.Join(want, ";"), map[bool]string{true: " in any order", false: ""}[unordered], g)
		}
		return "", ""
	}
	want := e.scalar
	if e.isElem {
		var n int
		fmt.Sscanf(e.scalar, "%d", &n)
		want = render(n, true)
	}
	if g.scalar != want || g.isSeq {
		return "wrong result", fmt.Sprintf("expected %s, got %s", want, g)
	}
	return "", ""
}

func iterableCases(c *engine.Ctx) {
	ops := iops()
	// one case per kind: which operations of the interface the run-time class has at all
	for ki := range ikinds {
		k := &ikinds[ki]
		c.Case("methods/"+k.name, func(r *engine.R) {
			seen := map[string]bool{}
			var missing []string
			for _, op := range ops {
				if seen[op.method] {
					continue
				}
				seen[op.method] = true
				r.Eval(1)
				if !hasMethod(k, op.method) {
					missing = append(missing, op.method)
				}
			}
			if len(missing) == 0 {
				r.Outcome("complete")
				return
			}
			r.Outcome("missing-methods")
			// confirm with a real program: the checker accepts the call (the headers declare it) and the interpreter crashes
			seq++
			l := []int{1, 2}
			gen := fmt.Sprintf("g%d", seq)
			pre := prelude + genDef(gen, l)
			var confirmed, accepted []string
			var example, stack string
			for _, op := range ops {
				if !contains2(missing, op.method) || (k.pairs && op.noPairs) {
					continue
				}
				if contains2(accepted, op.method) {
					continue
				}
				src := pre + wrap(k.construct(l, gen)+"  x := "+op.expr(k.pairs)+"\n  println("+printer(&op)+")\n")
				res := elkrun.Run(src, nil)
				if res.Rejected {
					continue
				}
				accepted = append(accepted, op.method)
				if res.Panic != "" {
					confirmed = append(confirmed, op.method)
					if example == "" {
						example, stack = src, res.PanicSig
					}
				}
			}
			r.Count("methods_missing_at_run_time", len(missing))
			if len(confirmed) > 0 {
				r.NT(len(confirmed))
				r.Violation(fmt.Sprintf("iterable kind=%s: operations declared by the headers are missing from the run-time class (go-panic invalid method)", k.name),
					fmt.Sprintf("%s, but the run-time class %s has no method for: %s.\nThe type checker accepts these calls and the interpreter panics: %s\n(of the %d missing methods the checker accepts calls to %d)",
						k.header, k.class().Name, strings.Join(confirmed, ", "), stack, len(missing), len(accepted)), example)
			}
		})
	}
	maxLen := 3
	if c.Thorough {
		maxLen = 5
	}
	for _, l := range lists(maxLen) {
		l := l
		c.Case("iter/["+intsLit(l)+"]", func(r *engine.R) { runListCase(r, ops, l) })
	}
}

func contains2(s []string, x string) bool {
	for _, e := range s {
		if e == x {
			return true
		}
	}
	return false
}

func printer(op *iop) string {
	if op.seq {
		return "sq(x)"
	}
	return "show(x)"
}

func genDef(name string, l []int) string {
	if len(l) == 0 {
		return ""
	}
	var b strings.Builder
	fmt.Fprintf(&b, "def *%s: ::Std::Int\n", name)
	for _, e := range l[:len(l)-1] {
		fmt.Fprintf(&b, "  yield %d\n", e)
	}
	fmt.Fprintf(&b, "  %d\nend\n", l[len(l)-1])
	return b.String()
}

func runListCase(r *engine.R, ops []iop, l []int) {
	seq++
	gen := fmt.Sprintf("g%d", seq)
	pre := prelude + genDef(gen, l)
	type meta struct {
		k  *ikind
		op *iop
	}
	var items []elkrun.Item
	var metas []meta
	for ki := range ikinds {
		k := &ikinds[ki]
		if !k.applies(l) {
			continue
		}
		for oi := range ops {
			op := &ops[oi]
			if k.pairs && op.noPairs {
				continue
			}
			if !hasMethod(k, op.method) {
				r.Count("skipped_missing_method", 1)
				continue
			}
			items = append(items, elkrun.Item{Code: wrap(k.construct(l, gen) + "  x := " + op.expr(k.pairs) + "\n  println(" + printer(op) + ")\n")})
			metas = append(metas, meta{k, op})
		}
	}
	res := elkrun.Batch(pre, items, nil)
	// what the ArrayList does, per operation (reference for undocumented behaviour)
	listObs := map[string]obs{}
	for i, ir := range res {
		if metas[i].k.name == "list" {
			listObs[metas[i].op.id] = observe(ir, metas[i].op.seq)
		}
	}
	for i, ir := range res {
		k, op := metas[i].k, metas[i].op
		g := observe(ir, op.seq)
		src := pre + items[i].Code
		if strings.HasPrefix(g.fail, "REJECTED") {
			r.Count("rejected:"+k.name+"/"+op.method, 1)
			continue
		}
		r.Eval(1)
		if len(l) > 0 {
			r.NT(1)
		}
		if strings.HasPrefix(g.fail, "GOPANIC") {
			r.Outcome("go-panic")
			r.Violation(fmt.Sprintf("iterable kind=%s op=%s go-panic %s", k.name, op.method, panicKey(g.fail)),
				fmt.Sprintf("%s on %s holding [%s]: %s\n%s", op.id, k.name, intsLit(l), g.fail, ir.Stack), src)
			continue
		}
		if g.fail != "" {
			r.Outcome("uncaught")
			r.Violation(fmt.Sprintf("iterable kind=%s op=%s %s", k.name, op.method, g.fail), fmt.Sprintf("%s on %s holding [%s]: %s", op.id, k.name, intsLit(l), g.fail), src)
			continue
		}
		e := op.model(l)
		if e.undocumented {
			ref, ok := listObs[op.id]
			if !ok || ref.fail != "" {
				continue
			}
			r.Outcome("undocumented:" + trunc(ref.String(), 24))
			same := g.String() == ref.String()
			if !same && g.isSeq && ref.isSeq && !k.ordered {
				same = sameMultiset(g.seq, ref.seq)
			}
			if !same && g.err == "" && ref.err == "" && !k.ordered && op.order {
				same = true // order dependent value on an unordered collection
			}
			if !same {
				r.Violation(fmt.Sprintf("iterable kind=%s op=%s differs from the list holding the same elements (undocumented case)", k.name, op.id),
					fmt.Sprintf("%s on %s holding [%s] gives %s; the ArrayList with the same elements gives %s", op.id, k.name, intsLit(l), g, ref), src)
			}
			continue
		}
		switch {
		case e.err != "":
			r.Outcome("error:" + e.err)
		case e.isNil:
			r.Outcome("nil")
		case e.isSeq:
			r.Outcome(fmt.Sprintf("seq-of-%d", len(e.seq)))
		default:
			r.Outcome("scalar")
		}
		if what, detail := check(k, op, l, e, g); what != "" {
			r.Violation(fmt.Sprintf("iterable kind=%s op=%s %s", k.name, op.method, what),
				fmt.Sprintf("%s on %s holding [%s]: %s", op.id, k.name, intsLit(l), detail), src)
		}
	}
	if len(items) > 0 {
		r.Sample(items[len(items)/2].Code)
	}
}

func main() {
	engine.Main(&engine.Spec{
		Prop:  "C23",
		Level: "exploration",
		Rule: "ranges: 8 range kinds × bound families {Int −2…3 (all 36 ordered pairs; thorough −3…4, 64 pairs, probes −4…5), Float {−0.5, 0, 1.5} (9 pairs), Int bounds 2^63−2 / 2^63−1 / 2^63+1, Char a / c} × probes {−3…4; −3.0…4.0 step 0.5; six values around 2^63; A a b c d} " +
			"× forms {constant-folded literal, range built at run time, contains through the Range mixin, switch range pattern, for-in over the literal} × observations {contains, is_left/right_open/closed, start, end, first 8 elements of the iteration}; oracle from the bounds. " +
			"iterables: every list of length 0–3 (thorough: 0–5) over {1, 2, 3, −1} × kinds {ArrayList, ArrayList typed as Iterable, ArrayTuple, HashSet, HashMap, HashRecord (distinct lists; pairs k => 10k), ArrayList iterator, closed/open Int range iterators (consecutive lists), generator (non-empty lists), closed prefilled Channel} " +
			"× the 27 operations of Std::Iterable with n ∈ {−1, 0, 1, 2, 5}, predicates {> 0, == 2, always, never}, probes {1, 2, −1, 5}; oracle = the operation on the Go slice (multiset / admissibility check for hash collections), " +
			"documented errors (NotFoundError, nil for try_*, −1 for index_of) asserted, undocumented cases (negative n, reduce of an empty iterable) compared with the ArrayList holding the same elements; operations the run-time class lacks are reported once per kind and left out. " +
			"A case is non-trivial when the iterable is non-empty (iterables) / always (ranges)",
		Assume:      []string{"inspect of Int, Float, Char, Pair, nil and bool values is faithful (C19)", "HashSet/HashMap/HashRecord iteration order is unspecified"},
		CaseTimeout: 240 * time.Second,
		Setup:       func(c *engine.Ctx) { elkrun.Init() },
		Run: func(c *engine.Ctx) {
			rangeCases(c)
			iterableCases(c)
		},
	})
}
