package main

// Template grammar for C05. A template is Elk source text with sorted holes:
//
//	«E» expression   «S» statement (an expression or a declaration on its own line)
//	«P» pattern      «T» type
//
// The texts follow the production comments of parser/parser.go (one template per alternative of every expression,
// pattern, type and declaration production). A template that the parser does not accept in some combination is not an
// error of the check: a tree only counts when its first parse is free of diagnostics.

var exprTemplates = []string{
	// --- leaves
	"a", "_a", "Foo", "_Foo", "::Foo", "Foo::Bar", "@a", "self", "nil", "true", "false", "undefined",
	"1", "1_000", "0x1f", "0b11", "1.5", "1e5", "1u8", "1i64", "1u", "1.5bf", "1.5f32", "1.5f64",
	"\"s\"", "\"a\\n\\t\\\"b\"", "'r'", "`c`", "`\\n`", "r`c`", ":s", ":S", ":\"s y\"", ":+",
	"%/a+/", "%/a/im", "%w[a b]", "%s[a b]", "%x[ff 1]", "%b[1 0]", "\\w[a b]", "\\s[a]", "\\x[f]", "\\b[1]", "^w[a b]", "^s[a]", "^x[f]", "^b[1]",
	"[]", "%[]", "^[]", "{}", "%{}", "return", "break", "continue", "yield", "throw", "loop; end",
	// --- string / regex interpolation
	"\"x ${«E»} y\"", "\"#{«E»}\"", "\"$a #B ${«E»}\"", "%/a${«E»}b/i",
	// --- collections
	"[«E», «E»]", "[*«E»]", "[«E»]:«E»", "%[«E», «E»]", "%[*«E»]", "^[«E»]", "^[«E»]:«E»", "{«E» => «E»}", "{a: «E»}", "{\"a\": «E»}", "{**«E»}", "{a}", "%{a: «E»}", "%{«E» => «E»}",
	"[«E» for x in «E»]", "[«E» if «E»]", "[«E» unless «E»]", "[«E» if «E» else «E»]", "{«E» => «E» for x in «E»}", "%w[a b]:«E»",
	// --- binary / logical / assignment / range operators
	"«E» + «E»", "«E» - «E»", "«E» * «E»", "«E» / «E»", "«E» % «E»", "«E» ** «E»",
	"«E» << «E»", "«E» >> «E»", "«E» <<< «E»", "«E» >>> «E»", "«E» & «E»", "«E» | «E»", "«E» ^ «E»", "«E» &~ «E»",
	"«E» == «E»", "«E» != «E»", "«E» === «E»", "«E» !== «E»", "«E» =~ «E»", "«E» !~ «E»",
	"«E» < «E»", "«E» <= «E»", "«E» > «E»", "«E» >= «E»", "«E» <=> «E»", "«E» <: «E»", "«E» :> «E»", "«E» <<: «E»", "«E» :>> «E»",
	"«E» && «E»", "«E» || «E»", "«E» ?? «E»", "«E» &! «E»", "«E» |! «E»", "«E» |> foo()", "«E» |> foo(«E»)",
	"«E» = «E»", "«E» := «E»", "«E» += «E»", "«E» -= «E»", "«E» *= «E»", "«E» /= «E»", "«E» **= «E»", "«E» %= «E»", "«E» &= «E»", "«E» |= «E»", "«E» ^= «E»",
	"«E» <<= «E»", "«E» >>= «E»", "«E» <<<= «E»", "«E» >>>= «E»", "«E» &&= «E»", "«E» ||= «E»", "«E» ??= «E»",
	"«E»...«E»", "«E»..<«E»", "«E»<..«E»", "«E»<.<«E»", "...«E»", "..<«E»", "<..«E»", "<.<«E»", "«E»...", "«E»<..",
	// --- unary / postfix / as
	"-«E»", "+«E»", "!«E»", "~«E»", "&«E»", "«E»++", "«E»--", "«E» as ::Foo", "«E» as Foo::Bar", "«E» match «P»",
	// --- calls, lookups
	"foo(«E»)", "foo(«E», «E»)", "foo(«E», b: «E»)", "foo(b: «E»)", "foo(*«E»)", "foo(**«E»)", "foo «E»", "foo «E», «E»", "foo()",
	"«E».foo", "«E».foo(«E»)", "«E».foo «E»", "«E»?.foo", "«E»?.foo(«E»)", "«E»..foo", "«E»..foo(«E»)", "«E»?..foo", "«E».foo = «E»", "«E».foo += «E»", "«E».foo ||= «E»",
	"«E»[«E»]", "«E»?[«E»]", "«E»[«E»] = «E»", "«E»[«E»] += «E»", "«E»[«E», «E»]", "«E».(«E»)", "«E».call(«E»)", "«E».+(«E»)", "«E».foo::[Int](«E»)",
	"Foo(«E»)", "Foo(a: «E»)", "::Foo::Bar(«E»)", "Foo::[Int](«E»)", "Foo::[Int, String]()", "new(«E»)", "new", "foo::[Int](«E»)", "Foo::bar(«E»)", "Foo::bar", "«E»::Foo", "«E».:foo", "Foo.:bar",
	"foo!(«E»)", "«E».foo!(«E»)", "Foo::bar!(«E»)", "foo! «E»",
	"foo(«E») -> «E»", "foo() |x| -> «E»", "«E».foo(«E») |x| -> «E»", "«E».foo -> «E»",
	// --- closures
	"|x| -> «E»", "|x, y| -> «E»", "|| -> «E»", "-> «E»", "~> «E»", "|x| ~> «E»", "|x: «T»|: «T» -> «E»", "|x: «T» = «E»| -> «E»", "||: «T» ! «T» -> «E»", "|*x, **y| -> «E»",
	"|x| ->\n  «S»\nend", "->\n  «S»\n  «S»\nend", "|x| -> { «E» }",
	// --- keyword prefix forms
	"return «E»", "break «E»", "continue «E»", "yield «E»", "yield * «E»", "throw «E»", "throw unchecked «E»", "must «E»", "try «E»", "typeof «E»",
	"await «E»", "await_sync «E»", "go «E»", "defer «E»", "loop «E»", "do «E»", "break[$l] «E»", "continue[$l] «E»", "break[$l]", "$l: «E»",
	"go\n  «S»\nend", "defer\n  «S»\nend",
	// --- control flow
	"if «E» then «E»", "if «E» then «E» else «E»", "if «E»\n  «S»\nend", "if «E»\n  «S»\nelse\n  «S»\nend", "if «E»\n  «S»\nelsif «E»\n  «S»\nelse\n  «S»\nend",
	"unless «E» then «E»", "unless «E» then «E» else «E»", "unless «E»\n  «S»\nelse\n  «S»\nend",
	"while «E» then «E»", "while «E»\n  «S»\nend", "until «E» then «E»", "until «E»\n  «S»\nend",
	"for x in «E» then «E»", "for x in «E»\n  «S»\nend", "for «P» in «E» then «E»", "fornum «E»; «E»; «E»\n  «S»\nend", "fornum ;;\n  «S»\nend", "fornum «E»; «E»; «E» then «E»",
	"loop\n  «S»\nend", "do\n  «S»\nend", "do\n  «S»\ncatch e\n  «S»\nend", "do\n  «S»\ncatch «P» as e, st\n  «S»\ncatch «P»\n  «S»\nend", "do\n  «S»\nfinally\n  «S»\nend",
	"do\n  «S»\ncatch «P»\n  «S»\nfinally\n  «S»\nend", "do\n  «S»\nend while «E»", "do\n  «S»\nend until «E»",
	"«E» if «E»", "«E» unless «E»", "«E» while «E»", "«E» until «E»", "«E» for x in «E»", "«E» if «E» else «E»",
	"switch «E»\ncase «P» then «E»\nend", "switch «E»\ncase «P»\n  «S»\ncase «P» then «E»\nelse\n  «S»\nend", "switch «E»\ncase «P», «P» then «E»\nelse «E»\nend",
	"select\ncase x := <<«E»\n  «S»\ncase «E» << «E» then «E»\nelse\n  «S»\nend",
	// --- local declarations
	"var x = «E»", "var x: «T»", "var x: «T» = «E»", "val x = «E»", "val x: «T» = «E»", "const X = «E»", "const X: «T» = «E»", "var «P» = «E»", "val «P» = «E»",
	// --- macros
	"quote «E»", "quote\n  «S»\nend", "quote_expr «E»", "quote_type «T»", "quote_pattern «P»", "!{«E»}", "unquote(«E»)", "unquote_expr(«E»)", "unquote_ident(«E»)", "unquote_const(«E»)", "unquote_ivar(«E»)",
	"do macro\n  «S»\nend", "do macro 'x' «E»", "%if «E» then «E»", "%for x in «E» then «E»",
	"type «T»", "pattern «P»",
}

var declTemplates = []string{
	"def f; end", "def f\n  «S»\nend", "def f then «E»", "def f(a: «T»): «T»\n  «S»\nend", "def f(a: «T» = «E», b: «T»): «T» then «E»", "def f(a, *b: «T», c, **d: «T»); end",
	"def f(@a, @b: «T»); end", "def f: «T» ! «T»; end", "def f! «T» then «E»", "def +(o: «T»): «T» then «E»", "def [](i: «T»): «T» then «E»", "def []=(i: «T», v: «T»); end",
	"def foo=(v: «T»); end", "def *g: «T»\n  «S»\nend", "async def f: «T» then «E»", "async def *f then «E»", "def f[T](a: T): T then a", "def f[+T < «T», -U > «T», V = «T», W := «T»]; end",
	"abstract def f", "sealed def f; end", "overload def f(a: «T»); end", "pure def f; end", "impure def f; end", "unsafe def f; end",
	"sig f", "sig f(a: «T»): «T»", "sig f(a?: «T», *b: «T», **c: «T»): «T» ! «T»", "sig f[T](a: T)",
	"init; end", "init(a: «T»)\n  «S»\nend", "init(@a: «T» = «E») then «E»", "init! «T»; end",
	"class Foo; end", "class Foo\n  «S»\nend", "class Foo < Bar; end", "class Foo < Bar[«T»]\n  «S»\nend", "class Foo[T < «T»] < nil; end", "class ::Foo::Bar then «E»", "class; end",
	"abstract class Foo; end", "sealed class Foo; end", "primitive class Foo; end", "noinit class Foo; end", "sealed primitive noinit class Foo; end", "immutable class Foo; end",
	"module Foo; end", "module Foo\n  «S»\nend", "module then «E»", "mixin Foo; end", "mixin Foo[T]\n  «S»\nend", "abstract mixin Foo; end",
	"interface Foo; end", "interface Foo[T]\n  «S»\nend", "struct Foo; end", "struct Foo[T]\n  a: «T»\n  b: «T» = «E»\n  c\nend",
	"singleton\n  «S»\nend", "singleton «E»", "extend where T < «T»\n  «S»\nend", "extend where T < «T» then «E»",
	"include Foo", "include Foo[«T»], Bar", "include Foo where T < «T»", "implement Foo", "implement Foo[«T»], Bar",
	"getter a", "getter a: «T», b: «T» = «E»", "setter a: «T»", "attr a: «T»", "attr a: «T» = «E», b", "alias a b", "alias a b, + plus", "typedef X = «T»", "typedef X[T < «T»] = «T»",
	"var @a: «T»", "val @a: «T»", "const A: «T» = «E»",
	"using Foo", "using Foo::Bar", "using Foo::bar", "using Foo::*", "using Foo::{Bar, baz}", "using Foo::{Bar as B, baz as b}", "using Foo as F", "using ::Foo, Bar::Baz", "import \"x\"",
	"##[doc]##\ndef f; end", "##[\n  doc\n  more\n]##\nclass Foo; end", "##[d]##\nconst A = «E»", "##[d]##\nattr a: «T»",
	"macro m; end", "macro m(a: «T»)\n  «S»\nend", "macro m(a: «T» = «E») then «E»", "sealed macro m; end",
}

var patternTemplates = []string{
	"1", "-1", "+1", "1.5", "1u8", "\"s\"", "\"a ${b}\"", "'r'", "`c`", ":s", "nil", "true", "false", "x", "_x", "_", "Foo", "::Foo", "Foo::Bar", "must",
	"1...5", "1..<5", "1<..5", "1<.<5", "...5", "1...", "-1...+5", "\"a\"...\"c\"", "A...B",
	"< 5", "<= 5", "> 5", ">= 5", "== a", "!= a", "=== a", "!== a", "=~ a", "!~ a", "< -5", "== a + b", "== foo(1)",
	"[]", "[«P»]", "[«P», «P»]", "[«P», *r]", "[*, «P»]", "[*r, «P»]", "%[«P», «P»]", "%[*r]", "^[1, \"a\", *]", "^[]",
	"{}", "{a}", "{a: «P»}", "{a, b: «P»}", "{1 => «P»}", "{\"a\" => «P», b}", "%{a: «P»}", "%{a}",
	"Foo()", "Foo(a)", "Foo(a: «P»)", "Foo(a: «P», b)", "::Foo::Bar(a: «P»)", "@{a}", "@{a: «P», b}",
	"«P» || «P»", "«P» && «P»", "«P» as x", "«P»?", "(«P»)",
	"%/a/", "%/a/i", "%w[a b]", "%s[a]", "%x[ff]", "%b[1]", "\\w[a]", "\\s[a]", "^w[a]", "^s[a]", "^x[f]", "^b[1]",
	"!{a}", "unquote(a)", "unquote_pattern(a)",
}

var typeTemplates = []string{
	"Int", "_Int", "::Foo", "Foo::Bar", "::Foo::Bar", "nil", "any", "never", "bool", "self", "true", "false", "void",
	"1", "-1", "+1", "1.5", "1u8", "\"s\"", "'r'", "`c`", ":s", "-1.5",
	"Foo[«T»]", "Foo[«T», «T»]", "::Foo::Bar[«T»]",
	"«T» | «T»", "«T» & «T»", "«T» / «T»", "~«T»", "&«T»", "^«T»", "%«T»", "*«T»", "«T»?", "(«T»)",
	"|a: «T»|: «T»", "||: «T»", "|a: «T», *b: «T»|: «T» ! «T»", "%|a: «T»|: «T»", "%||", "|a?: «T»|",
	"exact «T»", "pure «T»", "impure «T»",
	"!{a}", "unquote(a)", "unquote_type(a)",
}

// contexts that turn a pattern / type tree into a program (they add no depth)
var patternContexts = []string{"switch a\ncase «P» then 1\nend"}
var typeContexts = []string{"var x: «T»", "def f: «T»; end"}
