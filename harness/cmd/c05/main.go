// C05 — printing a syntax tree and reparsing it gives the same tree.
//
// Bounded-exhaustive over a template grammar (templates.go): trees are built by filling the sorted holes of a root
// template with other templates. Every tree whose source parses without diagnostics is printed with node.String(),
// the printed text is parsed again, and the two trees are compared structurally (reflection over the real AST,
// ignoring locations and the type/static caches).
//
//	quick:    every root template x (for every pair of its holes) every combination of class representatives
//	          (one template per (AST node type, operator precedence) class), the other holes holding leaves;
//	thorough: the same with every template as a child (full depth 2), plus depth-3 spines
//	          root[hole i <- child[hole j <- grandchild]] over class representatives.
package main

import (
	"fmt"
	"os"
	"reflect"
	"strings"
	"time"

	"github.com/elk-language/elk/parser"
	"github.com/elk-language/elk/parser/ast"
	"github.com/elk-language/elk/position"

	"verifharness/elkrun"
	"verifharness/engine"
)

// --- templates ------------------------------------------------------------------------------------------------------

type sort_ byte

const (
	sE sort_ = 'E'
	sS sort_ = 'S'
	sP sort_ = 'P'
	sT sort_ = 'T'
)

type tmpl struct {
	sort  sort_ // E (expression), D (declaration, usable in S holes), P, T
	text  string
	parts []string // literal segments, len(holes)+1
	holes []sort_
	class string // AST node type (+ precedence) of the top node of the leaf-filled instance; "" if it does not parse
	rep   bool   // representative of its class
}

func compile(s sort_, text string) *tmpl {
	t := &tmpl{sort: s, text: text}
	rest := text
	for {
		i := strings.Index(rest, "«")
		if i < 0 {
			t.parts = append(t.parts, rest)
			break
		}
		t.parts = append(t.parts, rest[:i])
		j := strings.Index(rest[i:], "»")
		t.holes = append(t.holes, sort_(rest[i+len("«")]))
		rest = rest[i+j+len("»"):]
	}
	return t
}

func (t *tmpl) name() string {
	return strings.ReplaceAll(strings.ReplaceAll(strings.ReplaceAll(strings.ReplaceAll(t.text, "«E»", "_"), "«S»", "_"), "«P»", "_"), "«T»", "_")
}

var leafE = []string{"a", "b", "c", "d", "e", "f", "g", "h"}
var leafP = []string{"1", "2", "3", "4", "5", "6"}
var leafT = []string{"Int", "String", "Float", "Foo", "Bar", "Baz"}

func leaf(s sort_, k int) string {
	switch s {
	case sP:
		return leafP[k%len(leafP)]
	case sT:
		return leafT[k%len(leafT)]
	}
	return leafE[k%len(leafE)]
}

// fill renders the template with the given hole contents (nil entry = default leaf). Multi-line children are indented
// to the column of the hole so that block bodies stay inside their block.
func (t *tmpl) fill(children []string) string {
	var b strings.Builder
	for i, p := range t.parts {
		b.WriteString(p)
		if i < len(t.holes) {
			c := ""
			if children != nil {
				c = children[i]
			}
			if c == "" {
				c = leaf(t.holes[i], i)
			}
			if strings.Contains(c, "\n") {
				// indentation of the current line
				cur := b.String()
				ls := strings.LastIndexByte(cur, '\n') + 1
				ind := 0
				for ls+ind < len(cur) && cur[ls+ind] == ' ' {
					ind++
				}
				c = strings.ReplaceAll(c, "\n", "\n"+strings.Repeat(" ", ind))
			}
			b.WriteString(c)
		}
	}
	return b.String()
}

type grammar struct {
	byName map[sort_][]*tmpl // E, 'D', P, T
	pctx   []*tmpl
	tctx   []*tmpl
}

const sD sort_ = 'D'

func build() *grammar {
	g := &grammar{byName: map[sort_][]*tmpl{}}
	for _, x := range exprTemplates {
		g.byName[sE] = append(g.byName[sE], compile(sE, x))
	}
	for _, x := range declTemplates {
		g.byName[sD] = append(g.byName[sD], compile(sD, x))
	}
	for _, x := range patternTemplates {
		g.byName[sP] = append(g.byName[sP], compile(sP, x))
	}
	for _, x := range typeTemplates {
		g.byName[sT] = append(g.byName[sT], compile(sT, x))
	}
	for _, x := range patternContexts {
		g.pctx = append(g.pctx, compile(sE, x))
	}
	for _, x := range typeContexts {
		g.tctx = append(g.tctx, compile(sE, x))
	}
	// classes and representatives
	for _, s := range []sort_{sE, sD, sP, sT} {
		seen := map[string]bool{}
		for _, t := range g.byName[s] {
			t.class = classOf(g, t)
			if t.class != "" && !seen[t.class] {
				seen[t.class] = true
				t.rep = true
			}
		}
	}
	return g
}

// program wraps a tree of the given sort into a program.
func (g *grammar) programs(s sort_, text string) []string {
	switch s {
	case sP:
		out := make([]string, 0, len(g.pctx))
		for _, c := range g.pctx {
			out = append(out, c.fill([]string{text}))
		}
		return out
	case sT:
		out := make([]string, 0, len(g.tctx))
		for _, c := range g.tctx {
			out = append(out, c.fill([]string{text}))
		}
		return out
	}
	return []string{text}
}

func safeParse(src string) (prog *ast.ProgramNode, clean bool, panicked string) {
	defer func() {
		if p := recover(); p != nil {
			prog, clean, panicked = nil, false, fmt.Sprint(p)
		}
	}()
	p, errs := parser.Parse("p.elk", src)
	return p, len(errs) == 0 && p != nil, ""
}

func typeName(v any) string {
	if v == nil {
		return "nil"
	}
	t := reflect.TypeOf(v)
	for t.Kind() == reflect.Ptr {
		t = t.Elem()
	}
	return t.Name()
}

// classOf: AST node type of the top node of the leaf-filled template (+ expression precedence for expressions).
func classOf(g *grammar, t *tmpl) string {
	progs := g.programs(t.sort, t.fill(nil))
	prog, clean, _ := safeParse(progs[0])
	if !clean {
		return ""
	}
	return classOfProg(t.sort, prog)
}

// classOfProg: the class of the tree of sort s that the program holds (for P and T: inside the first context).
func classOfProg(s sort_, prog *ast.ProgramNode) string {
	if prog == nil || len(prog.Body) == 0 {
		return ""
	}
	st, ok := prog.Body[0].(*ast.ExpressionStatementNode)
	if !ok {
		return typeName(prog.Body[0])
	}
	switch s {
	case sP:
		if sw, ok := st.Expression.(*ast.SwitchExpressionNode); ok && len(sw.Cases) > 0 {
			return typeName(sw.Cases[0].Pattern)
		}
		return ""
	case sT:
		switch d := st.Expression.(type) {
		case *ast.VariableDeclarationNode:
			return typeName(d.TypeNode)
		case *ast.MethodDefinitionNode:
			return typeName(d.ReturnType)
		}
		return ""
	}
	return fmt.Sprintf("%s/%d", typeName(st.Expression), ast.ExpressionPrecedence(st.Expression))
}

func classLabel(c string) string {
	if i := strings.IndexByte(c, '/'); i >= 0 {
		return c[:i]
	}
	return c
}

// --- structural comparison --------------------------------------------------------------------------------------------

var locT = reflect.TypeOf(&position.Location{})
var spanT = reflect.TypeOf(&position.Span{})
var posT = reflect.TypeOf(&position.Position{})

func eq(a, b reflect.Value, path string, diff *string) bool {
	if a.IsValid() != b.IsValid() {
		*diff = path + ": one side missing"
		return false
	}
	if !a.IsValid() {
		return true
	}
	if a.Type() != b.Type() {
		*diff = fmt.Sprintf("%s: %s vs %s", path, a.Type(), b.Type())
		return false
	}
	switch a.Type() {
	case locT, spanT, posT:
		return true
	}
	switch a.Kind() {
	case reflect.Ptr, reflect.Interface:
		if a.IsNil() || b.IsNil() {
			if a.IsNil() != b.IsNil() {
				*diff = path + ": nil vs non-nil"
				return false
			}
			return true
		}
		if a.Kind() == reflect.Interface {
			return eq(a.Elem(), b.Elem(), path, diff)
		}
		return eq(a.Elem(), b.Elem(), path+"("+a.Elem().Type().Name()+")", diff)
	case reflect.Struct:
		for i := 0; i < a.NumField(); i++ {
			f := a.Type().Field(i)
			if f.Name == "typ" || f.Name == "static" || f.Name == "loc" {
				continue
			}
			p := path
			if !f.Anonymous {
				p = path + "." + f.Name
			}
			if !eq(a.Field(i), b.Field(i), p, diff) {
				return false
			}
		}
		return true
	case reflect.Slice, reflect.Array:
		if a.Len() != b.Len() {
			*diff = fmt.Sprintf("%s: %d vs %d elements", path, a.Len(), b.Len())
			return false
		}
		for i := 0; i < a.Len(); i++ {
			if !eq(a.Index(i), b.Index(i), fmt.Sprintf("%s[%d]", path, i), diff) {
				return false
			}
		}
		return true
	case reflect.String:
		if a.String() != b.String() {
			*diff = fmt.Sprintf("%s: %q vs %q", path, a.String(), b.String())
			return false
		}
	case reflect.Bool:
		if a.Bool() != b.Bool() {
			*diff = fmt.Sprintf("%s: %v vs %v", path, a.Bool(), b.Bool())
			return false
		}
	case reflect.Int, reflect.Int8, reflect.Int16, reflect.Int32, reflect.Int64:
		if a.Int() != b.Int() {
			*diff = fmt.Sprintf("%s: %d vs %d", path, a.Int(), b.Int())
			return false
		}
	case reflect.Uint, reflect.Uint8, reflect.Uint16, reflect.Uint32, reflect.Uint64:
		if a.Uint() != b.Uint() {
			*diff = fmt.Sprintf("%s: %d vs %d", path, a.Uint(), b.Uint())
			return false
		}
	case reflect.Float32, reflect.Float64:
		if a.Float() != b.Float() {
			*diff = fmt.Sprintf("%s: %v vs %v", path, a.Float(), b.Float())
			return false
		}
	case reflect.Map:
		if a.Len() != b.Len() {
			*diff = fmt.Sprintf("%s: map sizes %d vs %d", path, a.Len(), b.Len())
			return false
		}
	}
	return true
}

// roundTrip: "" when the program does not parse cleanly (not a case) or round-trips; otherwise what went wrong.
type rtResult struct {
	tree    *ast.ProgramNode
	clean   bool
	bad     bool
	printed string
	what    string
}

func roundTrip(src string) (res rtResult) {
	t1, clean, pan := safeParse(src)
	if pan != "" || !clean {
		return
	}
	res.clean = true
	res.tree = t1
	defer func() {
		if p := recover(); p != nil {
			res.bad = true
			res.what = fmt.Sprintf("Go panic while printing/reparsing: %v", p)
		}
	}()
	res.printed = t1.String()
	t2, errs := parser.Parse("p.elk", res.printed)
	if len(errs) > 0 || t2 == nil {
		res.bad = true
		first := ""
		if len(errs) > 0 {
			first = strings.SplitN(errs.Error(), "\n", 2)[0]
		}
		res.what = "the printed text does not parse: " + first
		return
	}
	var d string
	if !eq(reflect.ValueOf(t1), reflect.ValueOf(t2), "program", &d) {
		res.bad = true
		res.what = "the reparsed tree differs at " + d
	}
	return
}

// --- enumeration ------------------------------------------------------------------------------------------------------

type explorer struct {
	g        *grammar
	r        *engine.R
	memoFail map[string]bool
}

func (x *explorer) childSet(s sort_, repsOnly bool) []*tmpl {
	var pools [][]*tmpl
	switch s {
	case sE:
		pools = [][]*tmpl{x.g.byName[sE]}
	case sS:
		pools = [][]*tmpl{x.g.byName[sE], x.g.byName[sD]}
	case sP:
		pools = [][]*tmpl{x.g.byName[sP]}
	case sT:
		pools = [][]*tmpl{x.g.byName[sT]}
	}
	var out []*tmpl
	for _, p := range pools {
		for _, t := range p {
			if t.class == "" {
				continue
			}
			if repsOnly && !t.rep {
				continue
			}
			out = append(out, t)
		}
	}
	return out
}

// fails reports whether a tree (as a program of its sort) breaks the round trip on its own.
func (x *explorer) fails(s sort_, text string) bool {
	key := string(s) + "\x00" + text
	if v, ok := x.memoFail[key]; ok {
		return v
	}
	bad := false
	for _, p := range x.g.programs(s, text) {
		if rt := roundTrip(p); rt.clean && rt.bad {
			bad = true
		}
	}
	x.memoFail[key] = bad
	return bad
}

type node struct {
	t    *tmpl
	kids []*node // nil entry = default leaf
	par  []bool  // child inserted in parentheses
}

func (n *node) text() string {
	if n == nil {
		return ""
	}
	ch := make([]string, len(n.t.holes))
	for i, k := range n.kids {
		if k != nil {
			ch[i] = k.text()
			if n.par[i] {
				ch[i] = "(" + ch[i] + ")"
			}
		}
	}
	return n.t.fill(ch)
}

func progSort(t *tmpl) sort_ {
	if t.sort == sD {
		return sE
	}
	return t.sort
}

// check runs the oracle on the tree and, on failure, localises the defect to the smallest failing sub-construction.
func (x *explorer) check(n *node) {
	s := progSort(n.t)
	for _, p := range x.g.programs(s, n.text()) {
		x.r.Eval(1)
		rt := roundTrip(p)
		if !rt.clean {
			x.r.Count("not_parsing_cleanly", 1)
			continue
		}
		if got := classOfProg(s, rt.tree); got != n.t.class && len(rt.tree.Body) == 1 {
			// the parser associated the source differently from the tree the templates describe (e.g. `return + a` is
			// `return (+a)`): not the case being enumerated; the tree it did build is enumerated under its own root.
			x.r.Count("reassociated_by_the_parser_skipped", 1)
			continue
		}
		x.r.NT(1)
		x.r.Outcome("root " + classLabel(n.t.class))
		if !rt.bad {
			continue
		}
		x.r.Count("round_trip_failures", 1)
		sig := x.localise(n)
		x.r.Violation(sig, fmt.Sprintf("source:\n%s\nprinted:\n%s\n%s", p, rt.printed, rt.what), map[string]any{"source": p, "printed": rt.printed})
		return
	}
}

// neutral contexts / neutral operands used to decide which side of a failing parent-child pair is at fault
var neutralCtx = map[sort_][]string{
	sE: {"loop\n  «S»\nend", "foo(«E»)", "[«E», 0]", "x = «E»", "z + «E»", "«E» + z", "«E».foo", "«E»[0]", "z.foo(«E»)"},
	sS: {"loop\n  «S»\nend", "while x\n  «S»\n  y\nend", "class X\n  «S»\nend"},
	sP: {"[«P»]", "«P» as x", "X(a: «P»)", "«P» || 9", "«P»?"},
	sT: {"X[«T»]", "|a: «T»|: Int", "«T» | Nil", "«T»?", "~«T»"},
}
var neutralKids = map[sort_][]string{
	sE: {"b + c", "b && c", "-b", "b = c", "if b then c", "unless b then c", "new(b)", "!{b}", "b...c"},
	sS: {"def f; end", "class X; end", "using Y", "b + c"},
	sP: {"2 || 3", "2 as y", "< 2", "[2]"},
	sT: {"Int | String", "Int?", "~Int", "Foo[Int]"},
}

func bare(t *tmpl) *node {
	return &node{t: t, kids: make([]*node, len(t.holes)), par: make([]bool, len(t.holes))}
}

// failing counts the texts (programs of sort s) whose round trip is broken.
func (x *explorer) failing(s sort_, texts []string) int {
	n := 0
	for _, t := range texts {
		if x.fails(s, t) {
			n++
		}
	}
	return n
}

// nesting puts the tree into the ordinary contexts of a hole of sort hs and reports whether it breaks there:
// as a statement of an indented block, or in at least two expression contexts.
func (x *explorer) nesting(kid *node, hs sort_) string {
	ktext := kid.text()
	ctxSort := sE
	if hs == sP || hs == sT {
		ctxSort = hs
	}
	bad := 0
	for _, c := range neutralCtx[hs] {
		ct := compile(sE, c)
		kt := ktext
		if needsParens(kid.t, ct.holes[0]) {
			kt = "(" + kt + ")"
		}
		if x.fails(ctxSort, ct.fill([]string{kt})) {
			if ct.holes[0] == sS {
				return "print/reparse: node=" + classLabel(kid.t.class) + " breaks when indented inside a block"
			}
			bad++
		}
	}
	if bad >= 2 {
		return "print/reparse: node=" + classLabel(kid.t.class) + " is not parenthesised when nested"
	}
	return ""
}

// parentGeneral: the node breaks with at least two of the ordinary operands of hole i.
func (x *explorer) parentGeneral(n *node, i int) bool {
	var texts []string
	for _, nk := range neutralKids[n.t.holes[i]] {
		ch := make([]string, len(n.t.holes))
		ch[i] = nk
		if n.t.holes[i] != sS {
			ch[i] = "(" + nk + ")"
		}
		texts = append(texts, n.t.fill(ch))
	}
	return x.failing(progSort(n.t), texts) >= 2
}

// anyContext: the tree breaks in at least one ordinary context of a hole of sort hs.
func (x *explorer) anyContext(kid *node, hs sort_) bool {
	ktext := kid.text()
	ctxSort := sE
	if hs == sP || hs == sT {
		ctxSort = hs
	}
	for _, c := range neutralCtx[hs] {
		if strings.HasPrefix(c, "x = ") {
			continue // an assignment cannot print any multi-line operand (its own defect): not a neutral place for a chain
		}
		ct := compile(sE, c)
		kt := ktext
		if needsParens(kid.t, ct.holes[0]) {
			kt = "(" + kt + ")"
		}
		if x.fails(ctxSort, ct.fill([]string{kt})) {
			return true
		}
	}
	return false
}

// localise names the construction at fault, so that one printer defect gets one signature:
//
//	node=X                          X breaks on its own (leaf operands, top level);
//	node=X breaks when indented     X round-trips at top level but not as a statement of an indented block;
//	node=X misprints its operands   X breaks with at least two of four ordinary operands in one hole (it prints that
//	                                operand without parentheses / on the wrong line), or only with a combination of operands;
//	node=Y is not parenthesised     Y breaks inside at least two ordinary contexts (call argument, list element, assignment,
//	                                binary operand, receiver): nothing parenthesises it, e.g. its precedence is missing;
//	parent=X child=Y                only this combination breaks.
func (x *explorer) localise(n *node) string {
	ps := progSort(n.t)
	if x.fails(ps, bare(n.t).text()) {
		return "print/reparse: node=" + classLabel(n.t.class)
	}
	holeSort := func(i int) sort_ {
		if n.t.holes[i] == sS {
			return sE
		}
		return n.t.holes[i]
	}
	for i, k := range n.kids {
		if k != nil && x.fails(holeSort(i), k.text()) {
			return x.localise(k)
		}
	}
	for i, k := range n.kids {
		if k == nil {
			continue
		}
		one := bare(n.t)
		one.kids[i], one.par[i] = k, n.par[i]
		if !x.fails(ps, one.text()) {
			continue
		}
		// this child alone (with its own children) breaks the parent. Does it need its own children for that?
		flat := bare(n.t)
		flat.kids[i], flat.par[i] = bare(k.t), n.par[i]
		kid := k
		if x.fails(ps, flat.text()) {
			kid = bare(k.t)
		} else {
			// the child's own children matter (a depth-3 chain n[k[g]]): first see whether the grandchild is at fault
			for j, g := range k.kids {
				if g == nil {
					continue
				}
				if sig := x.nesting(bare(g.t), k.t.holes[j]); sig != "" {
					return sig
				}
				if sig := x.nesting(g, k.t.holes[j]); sig != "" {
					return sig
				}
				// n[g] without the middle node
				if n.t.holes[i] == k.t.holes[j] || (n.t.holes[i] == sS && k.t.holes[j] == sE) {
					direct := bare(n.t)
					direct.kids[i], direct.par[i] = g, needsParens(g.t, n.t.holes[i])
					if x.fails(ps, direct.text()) {
						return x.localise(direct)
					}
				}
				// the outer node with ordinary operands in this hole (e.g. it cannot print a multi-line operand at all)
				if x.parentGeneral(n, i) {
					return fmt.Sprintf("print/reparse: node=%s misprints its operands", classLabel(n.t.class))
				}
				// the middle node with the grandchild inside any ordinary context: the outer node is not needed
				if x.anyContext(k, n.t.holes[i]) {
					return fmt.Sprintf("print/reparse: parent=%s child=%s", classLabel(k.t.class), classLabel(g.t.class))
				}
				return fmt.Sprintf("print/reparse: parent=%s child=%s", classLabel(n.t.class), classLabel(k.t.class))
			}
		}
		// (a) the child inside ordinary contexts
		if sig := x.nesting(kid, n.t.holes[i]); sig != "" {
			return sig
		}
		// (b) the parent with ordinary operands in this hole
		if x.parentGeneral(n, i) {
			return fmt.Sprintf("print/reparse: node=%s misprints its operands", classLabel(n.t.class))
		}
		return fmt.Sprintf("print/reparse: parent=%s child=%s", classLabel(n.t.class), classLabel(k.t.class))
	}
	return fmt.Sprintf("print/reparse: node=%s misprints its operands", classLabel(n.t.class))
}

// A child is inserted in parentheses (which the parser drops) whenever it is not a single token, so that the tree built is
// exactly root[child] whatever the precedences are; statement holes take their child verbatim on its own line.
func needsParens(c *tmpl, into sort_) bool {
	if into == sS {
		return false
	}
	return len(c.holes) > 0 || strings.ContainsAny(c.text, " \n")
}

// depth2 enumerates, for one root, every pair of holes x every combination of children (and every single hole).
func (x *explorer) depth2(root *tmpl, repsOnly bool) {
	h := len(root.holes)
	mk := func() *node { return &node{t: root, kids: make([]*node, h), par: make([]bool, h)} }
	x.check(mk()) // depth 1
	sets := make([][]*tmpl, h)
	for i, s := range root.holes {
		sets[i] = x.childSet(s, repsOnly)
	}
	forChild := func(i int, f func(c *node, par bool)) {
		for _, c := range sets[i] {
			cn := &node{t: c, kids: make([]*node, len(c.holes)), par: make([]bool, len(c.holes))}
			f(cn, needsParens(c, root.holes[i]))
		}
	}
	if h == 1 {
		forChild(0, func(c *node, par bool) {
			n := mk()
			n.kids[0], n.par[0] = c, par
			x.check(n)
		})
		return
	}
	// singles are included in the pair enumeration? No: pairs fill two holes with non-leaf templates (leaf templates are
	// part of the child set, so "one nested child + one leaf" is covered as a pair with a 0-hole template).
	for i := 0; i < h; i++ {
		for j := i + 1; j < h; j++ {
			forChild(i, func(ci *node, pi bool) {
				forChild(j, func(cj *node, pj bool) {
					n := mk()
					n.kids[i], n.par[i] = ci, pi
					n.kids[j], n.par[j] = cj, pj
					x.check(n)
				})
			})
		}
	}
}

// spine3: root[hole i <- child[hole j <- grandchild]] with every other hole a leaf.
func (x *explorer) spine3(root *tmpl, i int, child *tmpl) {
	{
		pi := needsParens(child, root.holes[i])
		for j, gs := range child.holes {
			for _, gc := range x.childSet(gs, true) {
				if len(gc.holes) == 0 {
					continue // depth 2, covered by depth2
				}
				{
					pj := needsParens(gc, gs)
					g := &node{t: gc, kids: make([]*node, len(gc.holes)), par: make([]bool, len(gc.holes))}
					c := &node{t: child, kids: make([]*node, len(child.holes)), par: make([]bool, len(child.holes))}
					c.kids[j], c.par[j] = g, pj
					n := &node{t: root, kids: make([]*node, len(root.holes)), par: make([]bool, len(root.holes))}
					n.kids[i], n.par[i] = c, pi
					x.check(n)
				}
			}
		}
	}
}

func main() {
	engine.Main(&engine.Spec{
		Prop:  "C05",
		Level: "exploration",
		Rule: "template grammar taken from the parser's production comments (expression, declaration, pattern and type templates with sorted holes); " +
			"quick: every root template x every pair of its holes x every combination of class representatives (one template per AST node type and precedence; a child that is not a single token is written in parentheses, which the parser drops), other holes leaves; " +
			"thorough: the same with every template as child (full depth 2) plus depth-3 spines root[child[grandchild]] over class representatives; " +
			"oracle: first parse without diagnostics => String() parses without diagnostics and the trees are equal ignoring locations; " +
			"non-trivial = programs whose first parse is clean (only those are cases of the property); outcomes = AST node classes of the roots exercised",
		Assume:           []string{"reflection-based structural equality ignores the fields loc, typ, static and position values"},
		CaseTimeout:      300 * time.Second,
		QuickDeadline:    12 * time.Minute,
		ThoroughDeadline: 60 * time.Minute,
		Setup:            func(c *engine.Ctx) { elkrun.Init() },
		Run:              run,
	})
}

func run(c *engine.Ctx) {
	only := os.Getenv("C05_ONLY") // development aid: enumerate only the cases whose id contains this text
	caseFn := c.Case
	kase := func(id string, f func(r *engine.R)) {
		if only == "" || strings.Contains(id, only) {
			caseFn(id, f)
		}
	}
	g := build()
	newX := func(r *engine.R) *explorer { return &explorer{g: g, r: r, memoFail: map[string]bool{}} }
	kase("grammar", func(r *engine.R) {
		for _, s := range []sort_{sE, sD, sP, sT} {
			n, ok, reps := 0, 0, 0
			for _, t := range g.byName[s] {
				n++
				if t.class != "" {
					ok++
				} else {
					r.Count("templates_not_parsing_with_leaves", 1)
					r.Note(fmt.Sprintf("template does not parse with leaves (%c): %s", s, t.name()))
				}
				if t.rep {
					reps++
				}
			}
			r.Count(fmt.Sprintf("templates_%c", s), n)
			r.Count(fmt.Sprintf("templates_%c_parsing", s), ok)
			r.Count(fmt.Sprintf("class_representatives_%c", s), reps)
		}
		r.Eval(1)
	})
	repsOnly := !c.Thorough
	for _, s := range []sort_{sE, sD, sP, sT} {
		for _, t := range g.byName[s] {
			t := t
			if t.class == "" {
				continue
			}
			kase(fmt.Sprintf("depth2/%c/%s", s, t.name()), func(r *engine.R) {
				x := newX(r)
				x.depth2(t, repsOnly)
				r.Sample(t.fill(nil))
			})
		}
	}
	if c.Thorough {
		for _, s := range []sort_{sE, sD, sP, sT} {
			for _, t := range g.byName[s] {
				t := t
				if t.class == "" {
					continue
				}
				for i, hs := range t.holes {
					i := i
					for _, ch := range (&explorer{g: g}).childSet(hs, true) {
						ch := ch
						if len(ch.holes) == 0 {
							continue
						}
						kase(fmt.Sprintf("spine3/%c/%s/%d/%s", s, t.name(), i, ch.name()), func(r *engine.R) {
							x := newX(r)
							x.spine3(t, i, ch)
						})
					}
				}
			}
		}
	}
}
