// C25 — channels and sync primitives keep their contracts under any schedule.
// Engine E1: Elk programs that start threads with `go` and communicate through Channel, Mutex, RWMutex,
// WaitGroup, Once and `select` run on the real VM; every operation of value/channel_of_value.go,
// value/{mutex,rwmutex,wait_group,once}.go, vm/once.go and the go/select opcodes of vm/thread.go is a
// scheduling point of the controlled scheduler (build overlay generated from /repo's working tree).
// All schedules up to a preemption bound are enumerated. A second group of cases runs single-threaded
// misuse sequences of the primitives on the uninstrumented semantics (same binary, scheduler inactive).
package main

import (
	"encoding/json"
	"fmt"
	"os"
	"sort"
	"strings"
	"time"

	"github.com/elk-language/elk/verifrt"
	"github.com/elk-language/elk/vm"

	"verifharness/elkrun"
	"verifharness/engine"
	"verifharness/sched"
)

type scen struct {
	name   string
	src    string
	oracle func(lines []string) string // "" = contract kept
}

func has(lines []string, s string) bool {
	for _, l := range lines {
		if l == s {
			return true
		}
	}
	return false
}
func count(lines []string, s string) int {
	n := 0
	for _, l := range lines {
		if l == s {
			n++
		}
	}
	return n
}
func idx(lines []string, s string) int {
	for i, l := range lines {
		if l == s {
			return i
		}
	}
	return -1
}
func exact(want ...string) func([]string) string {
	return func(lines []string) string {
		if strings.Join(lines, "|") != strings.Join(want, "|") {
			return "expected exactly " + strings.Join(want, "|")
		}
		return ""
	}
}

func prodCons(capacity int) scen {
	return scen{fmt.Sprintf("P1-producer-consumer-cap%d", capacity), fmt.Sprintf(`
using Std::Sync::WaitGroup
ch := Channel::[Int](%d)
wg := WaitGroup(1)
go
  ch << 1
  ch << 2
  ch << 3
  ch.close
  wg.end
end
for x in ch
  println(x)
end
wg.wait
println("done")
`, capacity), exact("1", "2", "3", "done")}
}

func twoProducers(capacity int) scen {
	return scen{fmt.Sprintf("P2-two-producers-cap%d", capacity), fmt.Sprintf(`
using Std::Sync::WaitGroup
ch := Channel::[Int](%d)
wg := WaitGroup(2)
go
  ch << 10
  ch << 11
  wg.end
end
go
  ch << 20
  ch << 21
  wg.end
end
i := 0
while i < 4
  println((try ch.pop).to_string)
  i += 1
end
wg.wait
println("len " + ch.length.to_string)
`, capacity), func(l []string) string {
		if len(l) != 5 || l[4] != "len 0" {
			return "expected 4 values then `len 0`"
		}
		for _, v := range []string{"10", "11", "20", "21"} {
			if count(l[:4], v) != 1 {
				return "value " + v + " not delivered exactly once"
			}
		}
		if idx(l, "10") > idx(l, "11") || idx(l, "20") > idx(l, "21") {
			return "per-producer FIFO order violated"
		}
		return ""
	}}
}

var scens = []scen{
	prodCons(0), prodCons(1), prodCons(2),
	twoProducers(0), twoProducers(1),
	{"P3-close-vs-push", `
using Std::Sync::WaitGroup
ch := Channel::[Int](1)
wg := WaitGroup(2)
go
  do
    ch << 1
    println("push1-ok")
  catch e
    println("push1-closed")
  end
  wg.end
end
go
  ch.close
  wg.end
end
wg.wait
for x in ch
  println("got " + x.to_string)
end
r := do
  ch.pop
catch e
  -1
end
println("after " + r.to_string)
do
  ch.close
  println("close2-ok")
catch e
  println("close2-err")
end
`, func(l []string) string {
		// a successful push is delivered exactly once; a rejected push is never delivered; after draining pop fails
		ok, closed := has(l, "push1-ok"), has(l, "push1-closed")
		if ok == closed {
			return "push must either succeed or be rejected"
		}
		if ok && count(l, "got 1") != 1 {
			return "a successfully pushed value was not delivered exactly once"
		}
		if closed && has(l, "got 1") {
			return "a rejected push was delivered"
		}
		if !has(l, "after -1") {
			return "pop on a closed, drained channel did not raise"
		}
		if !has(l, "close2-err") {
			return "closing a closed channel did not raise an Elk error"
		}
		return ""
	}},
	{"P4-select-ready-cases", `
using Std::Sync::WaitGroup
a := Channel::[Int](1)
b := Channel::[Int](1)
b << 9
wg := WaitGroup(1)
go
  a << 5
  wg.end
end
select
case v := <<a
  println("recv-a " + v.unwrap.to_string)
case b << 7
  println("sent-b")
end
wg.wait
println("a=" + a.length.to_string + " b=" + b.length.to_string)
`, func(l []string) string {
		// b is full, so only the receive from a can ever be taken, and it must deliver 5
		if len(l) != 2 || l[0] != "recv-a 5" || l[1] != "a=0 b=1" {
			return "select took a case that was not ready or lost the value (expected recv-a 5 / a=0 b=1)"
		}
		return ""
	}},
	{"P4b-select-send-or-recv", `
using Std::Sync::WaitGroup
a := Channel::[Int](1)
b := Channel::[Int](1)
wg := WaitGroup(1)
go
  a << 5
  wg.end
end
select
case v := <<a
  println("recv-a " + v.unwrap.to_string)
case b << 7
  println("sent-b")
end
wg.wait
println("a=" + a.length.to_string + " b=" + b.length.to_string)
`, func(l []string) string {
		if len(l) != 2 {
			return "expected two lines"
		}
		switch l[0] {
		case "recv-a 5":
			if l[1] != "a=0 b=0" {
				return "after receiving from a both channels must be empty"
			}
		case "sent-b":
			if l[1] != "a=1 b=1" {
				return "after sending to b: a holds the producer's value, b holds 7"
			}
		default:
			return "unexpected select outcome"
		}
		return ""
	}},
	{"P5-mutex-counter", `
using Std::Sync::{Mutex, WaitGroup}
class Cell25
  attr n: Int
  init(@n: Int); end
end
c := Cell25(0)
m := Mutex()
inner := Mutex()
wg := WaitGroup(2)
go
  m.lock
  t := c.n
  inner.lock
  inner.unlock
  c.n = t + 1
  m.unlock
  wg.end
end
go
  m.lock
  t := c.n
  inner.lock
  inner.unlock
  c.n = t + 1
  m.unlock
  wg.end
end
wg.wait
println(c.n)
`, exact("2")},
	{"P6-rwmutex", `
using Std::Sync::{RWMutex, WaitGroup, Mutex}
class Pair25
  attr a: Int
  attr b: Int
  init(@a: Int, @b: Int); end
end
p := Pair25(0, 0)
rw := RWMutex()
y := Mutex()
wg := WaitGroup(3)
go
  rw.lock
  p.a = 1
  y.lock
  y.unlock
  p.b = 1
  rw.unlock
  wg.end
end
go
  rw.read_lock
  x := p.a
  y.lock
  y.unlock
  z := p.b
  rw.read_unlock
  println("r1 " + (x == z).inspect)
  wg.end
end
go
  rw.read_lock
  x := p.a
  z := p.b
  rw.read_unlock
  println("r2 " + (x == z).inspect)
  wg.end
end
wg.wait
println("done")
`, func(l []string) string {
		if count(l, "r1 true") != 1 || count(l, "r2 true") != 1 || l[len(l)-1] != "done" {
			return "a reader observed a half-written pair (writer not exclusive)"
		}
		return ""
	}},
	{"P7-waitgroup", `
using Std::Sync::{WaitGroup, Mutex}
class Flags25
  attr a: Int
  attr b: Int
  init(@a: Int, @b: Int); end
end
f := Flags25(0, 0)
y := Mutex()
wg := WaitGroup(2)
go
  y.lock
  y.unlock
  f.a = 1
  wg.end
end
go
  f.b = 1
  wg.end
end
wg.wait
println(f.a + f.b)
`, exact("2")},
	{"P8-once", `
using Std::Sync::{Once, WaitGroup, Mutex}
class Cell25b
  attr n: Int
  init(@n: Int); end
end
c := Cell25b(0)
o := Once()
wg := WaitGroup(2)
y := Mutex()
go
  o.call() ->
    t := c.n
    y.lock
    y.unlock
    c.n = t + 1
  end
  println("seen " + c.n.to_string)
  wg.end
end
go
  o.call() ->
    t := c.n
    y.lock
    y.unlock
    c.n = t + 1
  end
  println("seen " + c.n.to_string)
  wg.end
end
wg.wait
println(c.n)
`, func(l []string) string {
		if len(l) != 3 || count(l, "seen 1") != 2 || l[2] != "1" {
			return "Once ran its body more than once, or a caller returned before the body had finished"
		}
		return ""
	}},
}

func init() {
	noCrash := func(l []string) string {
		if len(l) == 0 || l[len(l)-1] != "done" {
			return "program did not run to completion"
		}
		return ""
	}
	scens = append(scens,
		scen{"P9-stray-read-unlock-with-pending-reader", `
using Std::Sync::{RWMutex, WaitGroup}
rw := RWMutex()
wg := WaitGroup(2)
rw.lock
go
  rw.read_lock
  println("reader-in")
  do
    rw.read_unlock
  catch e
    println("reader-unlock-err")
  end
  wg.end
end
go
  do
    rw.read_unlock
    println("stray-ok")
  catch e
    println("stray-err")
  end
  wg.end
end
rw.unlock
wg.wait
println("done")
`, noCrash},
		scen{"P10-two-unlockers-one-lock", `
using Std::Sync::{Mutex, WaitGroup}
m := Mutex()
wg := WaitGroup(2)
m.lock
go
  do
    m.unlock
    println("u-ok")
  catch e
    println("u-err")
  end
  wg.end
end
go
  do
    m.unlock
    println("u-ok")
  catch e
    println("u-err")
  end
  wg.end
end
wg.wait
println("done")
`, func(l []string) string {
			if count(l, "u-ok") != 1 || count(l, "u-err") != 1 || l[len(l)-1] != "done" {
				return "exactly one of two concurrent unlocks of a once-locked mutex must succeed, the other must raise the unlock error"
			}
			return ""
		}},
		scen{"P11-stray-write-unlock-with-pending-writer", `
using Std::Sync::{RWMutex, WaitGroup}
rw := RWMutex()
wg := WaitGroup(2)
rw.read_lock
go
  rw.lock
  println("writer-in")
  do
    rw.unlock
  catch e
    println("writer-unlock-err")
  end
  wg.end
end
go
  do
    rw.unlock
    println("stray-ok")
  catch e
    println("stray-err")
  end
  wg.end
end
rw.read_unlock
wg.wait
println("done")
`, noCrash})
}

// single-threaded misuse sequences: must raise Elk errors, never kill the process
type misuse struct {
	name, src string
	want      string // substring expected in the outcome
}

var misuses = []misuse{
	{"mutex-unlock-not-held", "using Std::Sync::Mutex\nm := Mutex()\ndo\n  m.unlock\n  println(\"no-error\")\ncatch e\n  println(\"elk-error\")\nend\n", "elk-error"},
	{"mutex-unlock-twice", "using Std::Sync::Mutex\nm := Mutex()\nm.lock\nm.unlock\ndo\n  m.unlock\n  println(\"no-error\")\ncatch e\n  println(\"elk-error\")\nend\n", "elk-error"},
	{"rwmutex-unlock-not-held", "using Std::Sync::RWMutex\nm := RWMutex()\ndo\n  m.unlock\n  println(\"no-error\")\ncatch e\n  println(\"elk-error\")\nend\n", "elk-error"},
	{"rwmutex-read-unlock-not-held", "using Std::Sync::RWMutex\nm := RWMutex()\ndo\n  m.read_unlock\n  println(\"no-error\")\ncatch e\n  println(\"elk-error\")\nend\n", "elk-error"},
	{"rwmutex-unlock-while-read-locked", "using Std::Sync::RWMutex\nm := RWMutex()\nm.read_lock\ndo\n  m.unlock\n  println(\"no-error\")\ncatch e\n  println(\"elk-error\")\nend\n", "elk-error"},
	{"waitgroup-negative", "using Std::Sync::WaitGroup\nw := WaitGroup(0)\ndo\n  w.end\n  println(\"no-error\")\ncatch e\n  println(\"elk-error\")\nend\n", "elk-error"},
	{"channel-push-closed", "ch := Channel::[Int](1)\nch.close\ndo\n  ch << 1\n  println(\"no-error\")\ncatch e\n  println(\"elk-error\")\nend\n", "elk-error"},
	{"channel-pop-closed", "ch := Channel::[Int](1)\nch.close\ndo\n  x := ch.pop\n  println(\"no-error\")\ncatch e\n  println(\"elk-error\")\nend\n", "elk-error"},
	{"channel-close-twice", "ch := Channel::[Int](1)\nch.close\ndo\n  ch.close\n  println(\"no-error\")\ncatch e\n  println(\"elk-error\")\nend\n", "elk-error"},
	{"channel-close-via-writeonly-view-then-close", "ch := Channel::[Int](1)\nw := ch.writeonly\nw.close\ndo\n  ch.close\n  println(\"no-error\")\ncatch e\n  println(\"elk-error\")\nend\n", "elk-error"},
	{"channel-close-then-close-via-writeonly-view", "ch := Channel::[Int](1)\nw := ch.writeonly\nch.close\ndo\n  w.close\n  println(\"no-error\")\ncatch e\n  println(\"elk-error\")\nend\n", "elk-error"},
	{"channel-push-via-view-after-close", "ch := Channel::[Int](1)\nw := ch.writeonly\nch.close\ndo\n  w << 1\n  println(\"no-error\")\ncatch e\n  println(\"elk-error\")\nend\n", "elk-error"},
	{"channel-pop-via-view-after-close", "ch := Channel::[Int](1)\nr := ch.readonly\nch.close\ndo\n  x := r.pop\n  println(\"no-error\")\ncatch e\n  println(\"elk-error\")\nend\n", "elk-error"},
	{"channel-drain-after-close", "ch := Channel::[Int](2)\nch << 1\nch << 2\nch.close\nfor x in ch\n  println(x)\nend\nprintln(\"drained\")\n", "1\n2\ndrained"},
}

var caseBudget = 40 * time.Second

func main() {
	engine.Main(&engine.Spec{
		Prop:  "C25",
		Level: "model_checking",
		Rule: "15 multi-threaded Elk scenarios (producer/consumer at capacities 0,1,2; two producers; close racing push; select with ready/unready cases; mutex-protected read-modify-write; RWMutex writer vs readers; WaitGroup; Once; stray read_unlock/unlock racing a pending reader/writer; two concurrent unlocks of one lock) on the real VM under the controlled scheduler: every schedule with at most B preemptions (quick 3, thorough 4) over scheduling points at every channel/lock/wait-group/once/go/select operation and after every release, ready select cases enumerated instead of random; " +
			"plus 14 single-threaded misuse sequences (unlock not held, negative wait group, push/pop/close on closed channel) that must raise Elk errors; oracle per scenario: delivery exactly once, per-producer FIFO, select takes only ready cases, mutual exclusion, run-once, no deadlock, no host panic/fatal; non-trivial = scenarios with at least 50 schedules",
		Assume:      []string{"interpreter code between scheduling points runs atomically (critical sections contain an inner lock operation so that broken exclusion is observable)", "timers not modelled", "accesses racing between scheduling points are reported by the supplementary free-running pass under Go's race detector (case racepass/scenarios; the detector's send-racing-close report is an ordering diagnostic with a defined outcome and is ignored)"},
		CaseTimeout: 15 * time.Minute,
		Setup: func(c *engine.Ctx) {
			elkrun.Init()
			vm.INIT_VALUE_STACK_SIZE = 1024
			vm.CALL_STACK_SIZE = 64
		},
		Run: func(c *engine.Ctx) {
			bound := 3
			if c.Thorough {
				bound = 4
				caseBudget = 8 * time.Minute
			}
			for _, sc := range scens {
				sc := sc
				c.Case(fmt.Sprintf("%s/bound=%d", sc.name, bound), func(r *engine.R) { explore(r, sc, bound) })
			}
			// free-running companion pass under Go's race detector: the same scenario programs on the uninstrumented
			// VM with real goroutines (see engine.RacePass); supplements the exploration, decides nothing alone
			c.Case("racepass/scenarios", func(r *engine.R) {
				type js struct {
					Name string `json:"name"`
					Src  string `json:"src"`
				}
				var l []js
				for _, sc := range scens {
					l = append(l, js{sc.name, sc.src})
				}
				b, _ := json.Marshal(l)
				f := "/verif/.work/c25-racepass.json"
				os.WriteFile(f, b, 0o644)
				rounds := "30"
				if c.Thorough {
					rounds = "300"
				}
				engine.RacePass(r, "sync primitives", 15*time.Minute, "elk", f, rounds)
			})
			for _, m := range misuses {
				m := m
				c.Case("misuse/"+m.name, func(r *engine.R) {
					res := elkrun.Run(m.src, nil)
					elkrun.ResetRuntime()
					r.Eval(1)
					r.NT(1)
					r.Outcome("misuse:" + strings.TrimSpace(res.Stdout))
					switch {
					case res.Rejected:
						r.Violation("INFRA misuse program rejected "+m.name, res.Diags, m.src)
					case res.Panic != "":
						r.Violation("misuse "+m.name+" go-panic "+res.PanicSig, res.Stack, m.src)
					case !strings.Contains(res.Stdout, m.want):
						r.Violation("misuse "+m.name+" no documented error", fmt.Sprintf("%s\nexpected output containing %q, got: %s", m.src, m.want, res.Outcome()), m.src)
					}
				})
			}
		},
	})
}

func explore(r *engine.R, sc scen, bound int) {
	fn, res := elkrun.Compile(sc.src, nil)
	if fn == nil {
		r.Violation("INFRA scenario does not compile "+sc.name, res.Diags+res.Panic, nil)
		return
	}
	var lastOut string
	run := func(prefix []int, opts verifrt.Options) (*verifrt.Exec, string) {
		var out strings.Builder
		x := verifrt.Run(func() {
			v := vm.New(vm.WithStdout(&out), vm.WithStderr(&out))
			_, err := v.InterpretTopLevel(fn)
			if !err.IsUndefined() {
				out.WriteString("UNCAUGHT " + err.Inspect() + "\n")
			}
		}, prefix, opts)
		lastOut = out.String()
		return x, x.Describe() + " | " + strings.ReplaceAll(strings.TrimSpace(lastOut), "\n", ",")
	}
	x1, o1 := run(nil, verifrt.Options{})
	x2, o2 := run(nil, verifrt.Options{})
	if o1 != o2 || fmt.Sprint(x1.Events) != fmt.Sprint(x2.Events) {
		r.Violation("INFRA nondeterministic replay", fmt.Sprintf("%s\n%s\n%s", sc.name, o1, o2), nil)
		return
	}
	outcomes := map[string]int{}
	st := sched.Explore(sched.Config{Bound: bound, MaxExecs: 5000000, Deadline: time.Now().Add(caseBudget), Opts: verifrt.Options{NoEvents: true}}, run, func(x *verifrt.Exec, outcome string, _ int) {
		outcomes[outcome]++
		if x.Diverged != "" {
			r.Violation("INFRA replay divergence", sc.name+"\n"+x.Diverged, nil)
			return
		}
		sig, detail := "", ""
		switch {
		case x.Deadlock:
			sig = "deadlock scenario=" + sc.name
			detail = x.Describe()
		case x.Fatal != "":
			sig = "host-fatal scenario=" + sc.name + " " + x.Fatal
			detail = x.Describe()
		case x.Panic != "":
			sig = "host-panic scenario=" + sc.name + " " + engine.PanicSig(x.Panic, x.PanicStack)
			detail = x.Describe() + "\n" + x.PanicStack
		case x.Limit:
			sig = "livelock-suspected scenario=" + sc.name
		default:
			lines := strings.Split(strings.TrimSpace(lastOut), "\n")
			if msg := sc.oracle(lines); msg != "" {
				sig = "contract scenario=" + sc.name
				detail = msg
			}
		}
		if sig != "" {
			r.Violation(sig, fmt.Sprintf("%s\nobserved: %s\nschedule: %v\nprogram:%s", detail, outcome, x.ChoiceList(), sc.src),
				map[string]any{"scenario": sc.name, "source": sc.src, "schedule": x.ChoiceList()})
		}
	})
	r.Eval(st.Execs)
	r.AddStates(st.States)
	r.AddTrans(st.Transitions)
	r.AddValidated(st.Replayed)
	if st.Execs >= 50 {
		r.NT(1)
	}
	var os []string
	for o := range outcomes {
		os = append(os, o)
	}
	sort.Strings(os)
	for _, o := range os {
		r.Outcome(sc.name + ": " + o)
	}
	if st.Capped {
		r.Capped("budget hit: " + sc.name)
	}
	r.Sample(map[string]any{"scenario": sc.name, "bound": bound, "executions": st.Execs, "max_points": st.MaxPoints, "distinct_outcomes": len(outcomes)})
	elkrun.ResetRuntime()
}
