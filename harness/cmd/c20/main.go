// C20 — String operations agree with code-point, byte and grapheme models.
//
// Bounded-exhaustive: every string of ≤ 3 elements over a 15-element alphabet (ASCII, 2/3/4-byte code
// points, a combining sequence, ZWJ, a regional indicator, invalid UTF-8 bytes, a line feed) × every index
// -5…5 × every width 0…6 × 2 pad chars × repeat counts {-1,0,1,3}, through the Go API of value.String and
// through the VM (Elk methods), against a Go model built on unicode/utf8, unicode, strings, an independent
// grapheme segmenter written for the alphabet, and github.com/rivo/uniseg.
package main

import (
	"fmt"
	"sort"
	"strings"
	"unicode"
	"unicode/utf8"

	"github.com/elk-language/elk/value"
	"github.com/rivo/uniseg"

	"verifharness/elkrun"
	"verifharness/engine"
)

// ---------------------------------------------------------------------------------------------
// alphabet and strings

type elem struct {
	s    string
	name string
}

func alphabet(thorough bool) []elem {
	a := []elem{
		{"a", "a"}, {"Z", "Z"}, {"\u00e9", "é"}, {"\u00df", "ß"}, {"\u0130", "İ(U+0130)"}, {"\u65e5", "日"}, {"\U0001F600", "😀"}, {"e\u0301", "e+U+0301"},
		{"\u200d", "ZWJ"}, {"\U0001F1F5", "RI-P"}, {" ", "space"}, {"\xff", "byte FF"}, {"\xc3", "byte C3"}, {"\n", "LF"}, {"\r", "CR"},
	}
	if thorough {
		a = append(a, elem{"\u0301", "U+0301"}, elem{"\U0001F1F1", "RI-L"}, elem{"\u1100", "Hangul L"}, elem{"\u1161", "Hangul V"})
	}
	return a
}

// allStrings enumerates every concatenation of ≤ maxLen alphabet elements, without repetition of the
// resulting byte string, simplest first.
func allStrings(al []elem, maxLen int) []string {
	seen := map[string]bool{"": true}
	out := []string{""}
	prev := []string{""}
	for l := 1; l <= maxLen; l++ {
		var cur []string
		for _, p := range prev {
			for _, e := range al {
				cur = append(cur, p+e.s)
			}
		}
		for _, s := range cur {
			if !seen[s] {
				seen[s] = true
				out = append(out, s)
			}
		}
		prev = cur
	}
	return out
}

// inputClass is the signature class of an input: ASCII or not (a defect that shows on multi-byte strings
// shows on strings with invalid bytes too; splitting them would double every signature).
func inputClass(s string) string {
	if isASCII(s) {
		return "ASCII"
	}
	return "non-ASCII"
}

// outcomeClass is the finer class used for the evidence histogram.
func outcomeClass(s string) string {
	switch {
	case !utf8.ValidString(s):
		return "invalid UTF-8"
	case !isASCII(s):
		return "multi-byte"
	}
	return "ASCII"
}

func isASCII(s string) bool {
	for i := 0; i < len(s); i++ {
		if s[i] >= 0x80 {
			return false
		}
	}
	return true
}

// ---------------------------------------------------------------------------------------------
// the model

type mchar struct {
	r     rune // valid code point, or -1 for an invalid byte
	bytes string
}

func modelChars(s string) []mchar {
	var cs []mchar
	for len(s) > 0 {
		r, n := utf8.DecodeRuneInString(s)
		if r == utf8.RuneError && n == 1 {
			cs = append(cs, mchar{-1, s[:1]})
		} else {
			cs = append(cs, mchar{r, s[:n]})
		}
		s = s[n:]
	}
	return cs
}

// grapheme break property of the code points that can occur in the space
type gprop int

const (
	gOther gprop = iota
	gCR
	gLF
	gExtend
	gZWJ
	gRI
	gExtPict
	gL
	gV
)

func propOf(c mchar) gprop {
	switch {
	case c.r == '\r':
		return gCR
	case c.r == '\n':
		return gLF
	case c.r == 0x301:
		return gExtend
	case c.r == 0x200D:
		return gZWJ
	case c.r >= 0x1F1E6 && c.r <= 0x1F1FF:
		return gRI
	case c.r == 0x1F600:
		return gExtPict
	case c.r == 0x1100:
		return gL
	case c.r == 0x1161:
		return gV
	}
	return gOther
}

// modelGraphemes segments by UAX #29 (rules GB3–GB13, GB999) restricted to the properties above; an invalid
// byte is a code point of its own with property Other.
func modelGraphemes(s string) []string {
	cs := modelChars(s)
	if len(cs) == 0 {
		return nil
	}
	var out []string
	cur := cs[0].bytes
	ri := 0 // number of RI immediately before the current position in the current run
	if propOf(cs[0]) == gRI {
		ri = 1
	}
	// state for GB11: inside ExtPict Extend* (ZWJ)?
	pictSeq := propOf(cs[0]) == gExtPict // ExtPict Extend* seen
	for i := 1; i < len(cs); i++ {
		p, q := propOf(cs[i-1]), propOf(cs[i])
		brk := true
		switch {
		case p == gCR && q == gLF: // GB3
			brk = false
		case p == gCR || p == gLF || q == gCR || q == gLF: // GB4, GB5
			brk = true
		case p == gL && (q == gL || q == gV): // GB6
			brk = false
		case p == gV && q == gV: // GB7
			brk = false
		case q == gExtend || q == gZWJ: // GB9
			brk = false
		case p == gZWJ && q == gExtPict && pictSeq: // GB11
			brk = false
		case p == gRI && q == gRI && ri%2 == 1: // GB12, GB13
			brk = false
		}
		// update GB11 state: ExtPict Extend* ZWJ
		switch {
		case q == gExtPict:
			pictSeq = true
		case q == gExtend && pictSeq && p != gZWJ:
			// still inside ExtPict Extend*
		case q == gZWJ && pictSeq && (p == gExtPict || p == gExtend):
			// ExtPict Extend* ZWJ: keep
		default:
			pictSeq = false
		}
		if q == gRI {
			if brk || p != gRI {
				ri = 1
			} else {
				ri++
			}
		} else {
			ri = 0
		}
		if brk {
			out = append(out, cur)
			cur = cs[i].bytes
		} else {
			cur += cs[i].bytes
		}
	}
	return append(out, cur)
}

func unisegGraphemes(s string) []string {
	var out []string
	g := uniseg.NewGraphemes(s)
	for g.Next() {
		out = append(out, g.Str())
	}
	return out
}

// index resolution shared by the three indexers: (position, ok)
func resolve(i, n int) (int, bool) {
	if i < 0 {
		i += n
	}
	if i < 0 || i >= n {
		return 0, false
	}
	return i, true
}

func justModel(s string, w int, pad rune, right bool) string {
	n := len(modelChars(s))
	if n >= w {
		return s
	}
	p := strings.Repeat(string(pad), w-n)
	if right {
		return p + s
	}
	return s + p
}

func justClass(s string) string {
	if len(s) != len(modelChars(s)) {
		return "receiver whose byte_count exceeds its length"
	}
	return "receiver with byte_count == length"
}

// caseAccept returns the admissible images of one model char under upper/lower-casing: the simple (1:1)
// mapping, the full mapping where it differs (ß → SS, İ → i̇), and for an invalid byte either the byte or U+FFFD.
func caseAccept(c mchar, upper bool) []string {
	if c.r < 0 {
		return []string{c.bytes, "\ufffd"}
	}
	var simple rune
	if upper {
		simple = unicode.ToUpper(c.r)
	} else {
		simple = unicode.ToLower(c.r)
	}
	acc := []string{string(simple)}
	switch {
	case upper && c.r == '\u00df':
		acc = append(acc, "SS", "\u1e9e")
	case !upper && c.r == '\u0130':
		acc = append(acc, "i\u0307")
	}
	return acc
}

// caseOK reports whether got is a concatenation of admissible images of the chars of s.
func caseOK(s, got string, upper bool) bool {
	cs := modelChars(s)
	reach := map[int]bool{0: true}
	for _, c := range cs {
		next := map[int]bool{}
		for pos := range reach {
			for _, a := range caseAccept(c, upper) {
				if strings.HasPrefix(got[pos:], a) {
					next[pos+len(a)] = true
				}
			}
		}
		reach = next
		if len(reach) == 0 {
			return false
		}
	}
	return reach[len(got)]
}

func caseExpect(s string, upper bool) string {
	var b strings.Builder
	for _, c := range modelChars(s) {
		b.WriteString(strings.Join(caseAccept(c, upper), "|"))
		b.WriteString(" ")
	}
	return b.String()
}

func sign(n int) int {
	switch {
	case n < 0:
		return -1
	case n > 0:
		return 1
	}
	return 0
}

// cmpModel: lexicographic by code point; defined by the model only for valid UTF-8 on both sides.
func cmpModel(a, b string) (int, bool) {
	if !utf8.ValidString(a) || !utf8.ValidString(b) {
		return 0, false
	}
	ra, rb := []rune(a), []rune(b)
	for i := 0; i < len(ra) && i < len(rb); i++ {
		if ra[i] != rb[i] {
			return sign(int(ra[i]) - int(rb[i])), true
		}
	}
	return sign(len(ra) - len(rb)), true
}

// ---------------------------------------------------------------------------------------------
// reporting

type reporter struct {
	r     *engine.R
	level string
	goBad map[string]bool // op|input keys that already fail at the Go API level (VM reports share the signature)
}

func (rp *reporter) bad(op, class, what, detail string, input any) {
	sig := fmt.Sprintf("%s %s [%s]", op, what, class)
	rp.r.Violation(sig, rp.level+": "+detail, input)
}

func q(s string) string { return fmt.Sprintf("%+q", s) }

// ---------------------------------------------------------------------------------------------
// Go API level

func isIndexErr(err value.Value) bool {
	if err.IsUndefined() {
		return false
	}
	c := err.Class()
	return c == value.IndexErrorClass || c == value.OutOfRangeErrorClass
}

func errName(err value.Value) string {
	if err.IsUndefined() {
		return "no error"
	}
	return err.Class().Name
}

func drain(it interface {
	NextValue() (value.Value, value.Value)
}, limit int) (vals []value.Value, ok bool) {
	for i := 0; i <= limit; i++ {
		v, err := it.NextValue()
		if !err.IsUndefined() {
			return vals, true
		}
		vals = append(vals, v)
	}
	return vals, false
}

func charBytes(v value.Value) string {
	if !v.IsChar() {
		return "<not a Char: " + v.Inspect() + ">"
	}
	return string(rune(v.AsChar()))
}

func strOf(v value.Value) (string, bool) {
	s, ok := v.SafeAsReference().(value.String)
	return string(s), ok
}

func checkGo(r *engine.R, s string) {
	rp := &reporter{r: r, level: "Go API"}
	cls := inputClass(s)
	vs := value.String(s)
	cs := modelChars(s)
	gs := modelGraphemes(s)
	us := unisegGraphemes(s)
	n, nb, ng := len(cs), len(s), len(gs)
	r.Eval(1)

	// the two grapheme references must agree before the implementation is judged against them
	if strings.Join(gs, "\x00") != strings.Join(us, "\x00") {
		r.Note(fmt.Sprintf("grapheme references disagree on %s: UAX#29 model %q, uniseg %q — grapheme assertions skipped", q(s), gs, us))
		r.Count("grapheme_reference_disagreement", 1)
		gs, ng = nil, -1
	}

	// counts
	if got := vs.CharCount(); got != n {
		rp.bad("length", cls, "is not the number of code points", fmt.Sprintf("%s.CharCount() = %d, the string has %d code points", q(s), got, n), s)
	}
	if got := vs.ByteCount(); got != nb {
		rp.bad("byte_count", cls, "is not the number of bytes", fmt.Sprintf("%s.ByteCount() = %d, want %d", q(s), got, nb), s)
	}
	if ng >= 0 {
		if got := vs.GraphemeCount(); got != ng {
			rp.bad("grapheme_count", cls, "is not the number of grapheme clusters", fmt.Sprintf("%s.GraphemeCount() = %d, the string has %d clusters %q", q(s), got, ng, gs), s)
		}
	}
	r.Eval(3)

	// iterators
	chars, ok := drain(value.NewStringCharIterator(vs), n+8)
	if !ok || len(chars) != n {
		rp.bad("char iterator", cls, "element count differs from length", fmt.Sprintf("%s: iterator yields %d elements (terminated: %v), length is %d", q(s), len(chars), ok, n), s)
	}
	for i := 0; i < len(chars) && i < n; i++ {
		if cs[i].r >= 0 && charBytes(chars[i]) != cs[i].bytes {
			rp.bad("char iterator", cls, "wrong element", fmt.Sprintf("%s: element %d is %s, want U+%04X", q(s), i, chars[i].Inspect(), cs[i].r), s)
		}
	}
	var iterChars []value.Value
	for v := range vs.Iterate() {
		iterChars = append(iterChars, v)
	}
	if len(iterChars) != len(chars) {
		rp.bad("char iterator", cls, "Iterate() and NextValue() disagree", fmt.Sprintf("%s: %d vs %d elements", q(s), len(iterChars), len(chars)), s)
	}
	bytes, ok := drain(value.NewStringByteIterator(vs), nb+8)
	if !ok || len(bytes) != nb {
		rp.bad("byte iterator", cls, "element count differs from byte_count", fmt.Sprintf("%s: iterator yields %d elements, byte_count is %d", q(s), len(bytes), nb), s)
	}
	for i := 0; i < len(bytes) && i < nb; i++ {
		if !bytes[i].IsUInt8() || byte(bytes[i].AsUInt8()) != s[i] {
			rp.bad("byte iterator", cls, "wrong element", fmt.Sprintf("%s: element %d is %s, want %d", q(s), i, bytes[i].Inspect(), s[i]), s)
		}
	}
	var graphs []value.Value
	if ng >= 0 {
		graphs, ok = drain(value.NewStringGraphemeIterator(vs), nb+8)
		if !ok || len(graphs) != ng {
			rp.bad("grapheme iterator", cls, "element count differs from grapheme_count", fmt.Sprintf("%s: iterator yields %d elements, the string has %d clusters", q(s), len(graphs), ng), s)
		}
		for i := 0; i < len(graphs) && i < ng; i++ {
			if g, _ := strOf(graphs[i]); g != gs[i] {
				rp.bad("grapheme iterator", cls, "wrong element", fmt.Sprintf("%s: element %d is %s, want %q", q(s), i, graphs[i].Inspect(), gs[i]), s)
			}
		}
	}
	r.Eval(4)

	// indexers
	for i := -5; i <= 5; i++ {
		idx := value.SmallInt(i).ToValue()
		// char_at
		pos, in := resolve(i, n)
		c, err := vs.Subscript(idx)
		switch {
		case in && !err.IsUndefined():
			rp.bad("char_at", cls, "raises for an index in range", fmt.Sprintf("%s.char_at(%d): %s, length is %d", q(s), i, errName(err), n), s)
		case in && cs[pos].r >= 0 && rune(c) != cs[pos].r:
			rp.bad("char_at", cls, "wrong element", fmt.Sprintf("%s.char_at(%d) = %s, want U+%04X", q(s), i, c.Inspect(), cs[pos].r), s)
		case in && cs[pos].r < 0 && pos < len(chars) && chars[pos].IsChar() && chars[pos].AsChar() != c:
			rp.bad("char_at", "invalid UTF-8", "differs from the element of the char iterator", fmt.Sprintf("%s.char_at(%d) = %s (U+%04X) but element %d of the char iterator is %s (U+%04X)", q(s), i, c.Inspect(), rune(c), pos, chars[pos].Inspect(), rune(chars[pos].AsChar())), s)
		case !in && !isIndexErr(err):
			rp.bad("char_at", cls, "no out-of-range error", fmt.Sprintf("%s.char_at(%d): %s (result %s), length is %d", q(s), i, errName(err), c.Inspect(), n), s)
		}
		// byte_at
		pos, in = resolve(i, nb)
		b, err := vs.ByteAt(idx)
		switch {
		case in && !err.IsUndefined():
			rp.bad("byte_at", cls, "raises for an index in range", fmt.Sprintf("%s.byte_at(%d): %s, byte_count is %d", q(s), i, errName(err), nb), s)
		case in && byte(b) != s[pos]:
			rp.bad("byte_at", cls, "wrong element", fmt.Sprintf("%s.byte_at(%d) = %d, want %d", q(s), i, b, s[pos]), s)
		case !in && !isIndexErr(err):
			rp.bad("byte_at", cls, "no out-of-range error", fmt.Sprintf("%s.byte_at(%d): %s, byte_count is %d", q(s), i, errName(err), nb), s)
		}
		// grapheme_at
		if ng >= 0 {
			pos, in = resolve(i, ng)
			g, err := vs.GraphemeAt(idx)
			switch {
			case in && !err.IsUndefined():
				rp.bad("grapheme_at", cls, "raises for an index in range", fmt.Sprintf("%s.grapheme_at(%d): %s, grapheme_count is %d", q(s), i, errName(err), ng), s)
			case in && string(g) != gs[pos]:
				rp.bad("grapheme_at", cls, "wrong element", fmt.Sprintf("%s.grapheme_at(%d) = %q, want %q", q(s), i, string(g), gs[pos]), s)
			case !in && !isIndexErr(err):
				rp.bad("grapheme_at", cls, "no out-of-range error", fmt.Sprintf("%s.grapheme_at(%d): %s, grapheme_count is %d", q(s), i, errName(err), ng), s)
			}
		}
		r.Eval(3)
	}

	// justification
	for w := 0; w <= 6; w++ {
		for _, pad := range []rune{'-', '\u00e9'} {
			for _, right := range []bool{true, false} {
				want := justModel(s, w, pad, right)
				var got string
				op := "ljust"
				if right {
					op = "rjust"
					got = string(vs.RJust(w, value.Char(pad)))
				} else {
					got = string(vs.LJust(w, value.Char(pad)))
				}
				r.Eval(1)
				if got != want {
					how := "pads to a byte length, not a length in code points"
					if len(modelChars(got)) == len(modelChars(want)) {
						how = "wrong result"
					}
					rp.bad(op, justClass(s), how, fmt.Sprintf("%s.%s(%d, %q) = %s (length %d), want %s (length %d): %s has length %d and byte_count %d",
						q(s), op, w, pad, q(got), len(modelChars(got)), q(want), len(modelChars(want)), q(s), n, nb), s)
				}
			}
		}
	}

	// repeat
	for _, k := range []int{-1, 0, 1, 3} {
		got, err := vs.Repeat(value.SmallInt(k).ToValue())
		r.Eval(1)
		switch {
		case k < 0:
			if err.IsUndefined() && got != "" {
				rp.bad("*", cls, "negative count yields a non-empty string", fmt.Sprintf("%s * %d = %s", q(s), k, q(string(got))), s)
			}
		case !err.IsUndefined():
			rp.bad("*", cls, "raises for a non-negative count", fmt.Sprintf("%s * %d: %s", q(s), k, errName(err)), s)
		case string(got) != strings.Repeat(s, k):
			rp.bad("*", cls, "wrong result", fmt.Sprintf("%s * %d = %s", q(s), k, q(string(got))), s)
		}
	}

	// case mapping
	for _, upper := range []bool{true, false} {
		op := "lowercase"
		got := string(vs.Lowercase())
		if upper {
			op = "uppercase"
			got = string(vs.Uppercase())
		}
		r.Eval(1)
		if !caseOK(s, got, upper) {
			rp.bad(op, cls, "is not the per-character case mapping", fmt.Sprintf("%s.%s = %s, want per character one of: %s", q(s), op, q(got), caseExpect(s, upper)), s)
		}
	}
	if !isASCII(s) || ng != n {
		r.NT(1)
	}
	r.Outcome("go " + outcomeClass(s))
}

// operand is a right-hand side of a binary operator: a String or a Char
type operand struct {
	s      string
	isChar bool
}

func (o operand) val() value.Value {
	if o.isChar {
		r, _ := utf8.DecodeRuneInString(o.s)
		return value.Char(r).ToValue()
	}
	return value.Ref(value.String(o.s))
}

func (o operand) String() string {
	if o.isChar {
		r, _ := utf8.DecodeRuneInString(o.s)
		return fmt.Sprintf("Char U+%04X", r)
	}
	return q(o.s)
}

func operands(al []elem) []operand {
	ops := []operand{{"", false}}
	for _, e := range al {
		ops = append(ops, operand{e.s, false})
	}
	for _, e := range al {
		if r, n := utf8.DecodeRuneInString(e.s); n == len(e.s) && r != utf8.RuneError {
			ops = append(ops, operand{e.s, true})
		}
	}
	ops = append(ops, operand{"\ufffd", true}, operand{"\ufffd", false})
	return ops
}

func checkBinaryGo(r *engine.R, s string, ops []operand) {
	rp := &reporter{r: r, level: "Go API"}
	vs := value.String(s)
	for _, o := range ops {
		cls := inputClass(s + o.s)
		okind := "String"
		if o.isChar {
			okind = "Char"
		}
		// +
		got, err := vs.Concat(o.val())
		r.Eval(1)
		if !err.IsUndefined() || string(got) != s+o.s {
			rp.bad("+ "+okind, cls, "is not the concatenation", fmt.Sprintf("%s + %s = %s (%s), want %s", q(s), o, q(string(got)), errName(err), q(s+o.s)), s)
		}
		// -
		want := s
		if o.s != "" && strings.HasSuffix(s, o.s) {
			want = s[:len(s)-len(o.s)]
		}
		got, err = vs.RemoveSuffix(o.val())
		r.Eval(1)
		if !err.IsUndefined() || string(got) != want {
			how := "wrong result"
			if string(got) != s && string(got)+o.s != s {
				how = "removes something that is not the suffix"
			}
			rp.bad("- "+okind, cls, how, fmt.Sprintf("%s - %s = %s (%s), want %s", q(s), o, q(string(got)), errName(err), q(want)), s)
		}
		// comparison
		checkCompareGo(rp, r, s, o)
	}
}

func checkCompareGo(rp *reporter, r *engine.R, s string, o operand) {
	vs := value.String(s)
	cls := inputClass(s + o.s)
	okind := "String"
	if o.isChar {
		okind = "Char"
	}
	cv, err := vs.CompareVal(o.val())
	r.Eval(1)
	if !err.IsUndefined() || !cv.IsSmallInt() {
		rp.bad("<=> "+okind, cls, "raises or is not an Int", fmt.Sprintf("%s <=> %s: %s", q(s), o, errName(err)), s)
		return
	}
	c := sign(int(cv.AsSmallInt()))
	if want, ok := cmpModel(s, o.s); ok && c != want {
		rp.bad("<=> "+okind, cls, "is not the lexicographic order of code points", fmt.Sprintf("%s <=> %s = %d, want %d", q(s), o, c, want), s)
	}
	if (c == 0) != (s == o.s) {
		rp.bad("<=> "+okind, cls, "is 0 for different strings or non-0 for equal ones", fmt.Sprintf("%s <=> %s = %d", q(s), o, c), s)
	}
	if !o.isChar {
		back, err2 := value.String(o.s).CompareVal(value.Ref(vs))
		if err2.IsUndefined() && back.IsSmallInt() && sign(int(back.AsSmallInt())) != -c {
			rp.bad("<=> "+okind, cls, "is not antisymmetric", fmt.Sprintf("%s <=> %s = %d but the converse is %d", q(s), o, c, back.AsSmallInt()), s)
		}
	}
	type rel struct {
		name string
		f    func(value.Value) (bool, value.Value)
		want bool
	}
	for _, rl := range []rel{{"<", vs.LessThan, c < 0}, {"<=", vs.LessThanEqual, c <= 0}, {">", vs.GreaterThan, c > 0}, {">=", vs.GreaterThanEqual, c >= 0}} {
		got, err := rl.f(o.val())
		r.Eval(1)
		if !err.IsUndefined() || got != rl.want {
			rp.bad(rl.name+" "+okind, cls, "disagrees with <=>", fmt.Sprintf("%s %s %s = %v (%s) but <=> is %d", q(s), rl.name, o, got, errName(err), c), s)
		}
	}
	if !o.isChar {
		if got := vs.Equal(o.val()); got != (s == o.s) {
			rp.bad("== String", cls, "wrong", fmt.Sprintf("%s == %s = %v", q(s), o, got), s)
		}
	}
}

// ---------------------------------------------------------------------------------------------
// VM level

const prelude = `
def hex(s: ::Std::String): ::Std::String
  out := ""
  for b in s.byte_iter
    out = out + b.to_int.to_string + "."
  end
  out
end
def ca(s: ::Std::String, i: ::Std::AnyInt): ::Std::String
  do
    hex(s.char_at(i).to_string)
  catch ::Std::IndexError()
    "E"
  catch ::Std::OutOfRangeError()
    "E"
  catch e
    "X"
  end
end
def ba(s: ::Std::String, i: ::Std::AnyInt): ::Std::String
  do
    s.byte_at(i).to_int.to_string + "."
  catch ::Std::IndexError()
    "E"
  catch ::Std::OutOfRangeError()
    "E"
  catch e
    "X"
  end
end
def ga(s: ::Std::String, i: ::Std::AnyInt): ::Std::String
  do
    hex(s.grapheme_at(i))
  catch ::Std::IndexError()
    "E"
  catch ::Std::OutOfRangeError()
    "E"
  catch e
    "X"
  end
end
def mul(s: ::Std::String, n: ::Std::Int): ::Std::String
  do
    hex(s * n)
  catch e
    "E"
  end
end
def obs(s: ::Std::String): ::Std::String
  out := "L=" + s.length.to_string + " C=" + s.char_count.to_string + " B=" + s.byte_count.to_string + " G=" + s.grapheme_count.to_string
  out = out + " CI="
  for c in s
    out = out + hex(c.to_string) + "|"
  end
  out = out + " CJ="
  for c in s.char_iter
    out = out + hex(c.to_string) + "|"
  end
  out = out + " BI="
  for b in s.byte_iter
    out = out + b.to_int.to_string + "."
  end
  out = out + " GI="
  for g in s.grapheme_iter
    out = out + hex(g) + "|"
  end
  lo := -5
  out = out + " CA="
  for i in lo...5
    out = out + ca(s, i) + ","
  end
  out = out + " BA="
  for i in lo...5
    out = out + ba(s, i) + ","
  end
  out = out + " GA="
  for i in lo...5
    out = out + ga(s, i) + ","
  end
  out = out + " RJ1="
  for w in 0...6
    out = out + hex(s.rjust(w, ` + "`-`" + `)) + ","
  end
  out = out + " RJ2="
  for w in 0...6
    out = out + hex(s.rjust(w, ` + "`é`" + `)) + ","
  end
  out = out + " LJ1="
  for w in 0...6
    out = out + hex(s.ljust(w, ` + "`-`" + `)) + ","
  end
  out = out + " LJ2="
  for w in 0...6
    out = out + hex(s.ljust(w, ` + "`é`" + `)) + ","
  end
  out = out + " UP=" + hex(s.uppercase) + " LO=" + hex(s.lowercase)
  out = out + " M=" + mul(s, -1) + "," + mul(s, 0) + "," + mul(s, 1) + "," + mul(s, 3) + ","
  out
end
def b2s(b: bool): ::Std::String
  if b then "t" else "f"
end
def obs2(a: ::Std::String, b: ::Std::String | ::Std::Char): ::Std::String
  c := a <=> b
  lt := a < b
  le := a <= b
  gt := a > b
  ge := a >= b
  eq := a == b
  "P=" + hex(a + b) + " S=" + hex(a - b) + " CMP=" + c.to_string + " LT=" + b2s(lt) + " LE=" + b2s(le) + " GT=" + b2s(gt) + " GE=" + b2s(ge) + " EQ=" + b2s(eq)
end
`

func hexOf(s string) string {
	var b strings.Builder
	for i := 0; i < len(s); i++ {
		fmt.Fprintf(&b, "%d.", s[i])
	}
	return b.String()
}

func unhex(h string) string {
	var b []byte
	for _, p := range strings.Split(strings.TrimSuffix(h, "."), ".") {
		if p == "" {
			continue
		}
		var n int
		fmt.Sscanf(p, "%d", &n)
		b = append(b, byte(n))
	}
	return string(b)
}

func fields(line string) map[string]string {
	m := map[string]string{}
	for _, f := range strings.Split(strings.TrimSpace(line), " ") {
		if i := strings.IndexByte(f, '='); i >= 0 {
			m[f[:i]] = f[i+1:]
		}
	}
	return m
}

func splitList(v, sep string) []string {
	v = strings.TrimSuffix(v, sep)
	if v == "" {
		return nil
	}
	return strings.Split(v, sep)
}

// elkStr writes a string literal denoting exactly the bytes of s (no reliance on the implementation's inspect).
func elkStr(s string) string {
	var b strings.Builder
	b.WriteByte('"')
	for len(s) > 0 {
		r, n := utf8.DecodeRuneInString(s)
		switch {
		case r == utf8.RuneError && n == 1:
			fmt.Fprintf(&b, `\x%02x`, s[0])
		case r == '"' || r == '\\' || r == '$' || r == '#':
			b.WriteByte('\\')
			b.WriteRune(r)
		case r >= 0x20 && r < 0x7F:
			b.WriteRune(r)
		case r < 0x80:
			fmt.Fprintf(&b, `\x%02x`, r)
		case r <= 0xFFFF:
			fmt.Fprintf(&b, `\u%04x`, r)
		default:
			fmt.Fprintf(&b, `\U%08X`, r)
		}
		s = s[n:]
	}
	b.WriteByte('"')
	return b.String()
}

func elkChar(r rune) string {
	switch {
	case r == '`' || r == '\\':
		return "`\\" + string(r) + "`"
	case r >= 0x20 && r < 0x7F:
		return "`" + string(r) + "`"
	case r < 0x80:
		return fmt.Sprintf("`\\x%02x`", r)
	case r <= 0xFFFF:
		return fmt.Sprintf("`\\u%04x`", r)
	}
	return fmt.Sprintf("`\\U%08X`", r)
}

// checkVMLine compares one observation line of obs(s) with the model.
func checkVMLine(r *engine.R, s, line, code string) {
	rp := &reporter{r: r, level: "VM (" + code + ")"}
	cls := inputClass(s)
	f := fields(line)
	cs := modelChars(s)
	gs := modelGraphemes(s)
	if strings.Join(gs, "\x00") != strings.Join(unisegGraphemes(s), "\x00") {
		gs = nil
	}
	n, nb := len(cs), len(s)
	num := func(k string) int {
		var v int = -999
		fmt.Sscanf(f[k], "%d", &v)
		return v
	}
	if num("L") != n || num("C") != n {
		rp.bad("length", cls, "is not the number of code points", fmt.Sprintf("length=%s char_count=%s, the string %s has %d code points", f["L"], f["C"], q(s), n), code)
	}
	if num("B") != nb {
		rp.bad("byte_count", cls, "is not the number of bytes", fmt.Sprintf("byte_count=%s, want %d", f["B"], nb), code)
	}
	if gs != nil && num("G") != len(gs) {
		rp.bad("grapheme_count", cls, "is not the number of grapheme clusters", fmt.Sprintf("grapheme_count=%s for %s, clusters %q", f["G"], q(s), gs), code)
	}
	r.Eval(4)
	// iterators
	var iterChars []string
	for _, key := range []string{"CI", "CJ"} {
		els := splitList(f[key], "|")
		if key == "CI" {
			iterChars = els
		}
		if len(els) != n {
			rp.bad("char iterator", cls, "element count differs from length", fmt.Sprintf("%s: %d elements, length %d", q(s), len(els), n), code)
			continue
		}
		for i, e := range els {
			if cs[i].r >= 0 && unhex(e) != cs[i].bytes {
				rp.bad("char iterator", cls, "wrong element", fmt.Sprintf("%s: element %d is %q, want U+%04X", q(s), i, unhex(e), cs[i].r), code)
			}
		}
	}
	if unhex(f["BI"]) != s {
		rp.bad("byte iterator", cls, "wrong elements", fmt.Sprintf("%s: bytes %q", q(s), unhex(f["BI"])), code)
	}
	if gs != nil {
		els := splitList(f["GI"], "|")
		var got []string
		for _, e := range els {
			got = append(got, unhex(e))
		}
		if len(got) != len(gs) {
			rp.bad("grapheme iterator", cls, "element count differs from grapheme_count", fmt.Sprintf("%s: %q, want %q", q(s), got, gs), code)
		} else if strings.Join(got, "\x00") != strings.Join(gs, "\x00") {
			rp.bad("grapheme iterator", cls, "wrong element", fmt.Sprintf("%s: %q, want %q", q(s), got, gs), code)
		}
	}
	r.Eval(4)
	// indexers
	ca, ba, ga := splitList(f["CA"], ","), splitList(f["BA"], ","), splitList(f["GA"], ",")
	if len(ca) != 11 || len(ba) != 11 || (len(ga) != 11) {
		rp.bad("indexers", cls, "observation malformed", line, code)
		return
	}
	for k := 0; k < 11; k++ {
		i := k - 5
		pos, in := resolve(i, n)
		switch {
		case in && (ca[k] == "E" || ca[k] == "X"):
			rp.bad("char_at", cls, "raises for an index in range", fmt.Sprintf("%s.char_at(%d) raised, length is %d", q(s), i, n), code)
		case in && cs[pos].r >= 0 && unhex(ca[k]) != cs[pos].bytes:
			rp.bad("char_at", cls, "wrong element", fmt.Sprintf("%s.char_at(%d) = %q, want U+%04X", q(s), i, unhex(ca[k]), cs[pos].r), code)
		case in && cs[pos].r < 0 && pos < len(iterChars) && iterChars[pos] != ca[k]:
			rp.bad("char_at", "invalid UTF-8", "differs from the element of the char iterator", fmt.Sprintf("%s.char_at(%d) = %+q but element %d of the char iterator is %+q", q(s), i, unhex(ca[k]), pos, unhex(iterChars[pos])), code)
		case !in && ca[k] != "E":
			rp.bad("char_at", cls, "no out-of-range error", fmt.Sprintf("%s.char_at(%d): observed %q, length is %d", q(s), i, ca[k], n), code)
		}
		pos, in = resolve(i, nb)
		switch {
		case in && (ba[k] == "E" || ba[k] == "X"):
			rp.bad("byte_at", cls, "raises for an index in range", fmt.Sprintf("%s.byte_at(%d) raised, byte_count is %d", q(s), i, nb), code)
		case in && unhex(ba[k]) != s[pos:pos+1]:
			rp.bad("byte_at", cls, "wrong element", fmt.Sprintf("%s.byte_at(%d) = %s, want %d", q(s), i, ba[k], s[pos]), code)
		case !in && ba[k] != "E":
			rp.bad("byte_at", cls, "no out-of-range error", fmt.Sprintf("%s.byte_at(%d): observed %q, byte_count is %d", q(s), i, ba[k], nb), code)
		}
		if gs != nil {
			pos, in = resolve(i, len(gs))
			switch {
			case in && (ga[k] == "E" || ga[k] == "X"):
				rp.bad("grapheme_at", cls, "raises for an index in range", fmt.Sprintf("%s.grapheme_at(%d) raised, grapheme_count is %d", q(s), i, len(gs)), code)
			case in && unhex(ga[k]) != gs[pos]:
				rp.bad("grapheme_at", cls, "wrong element", fmt.Sprintf("%s.grapheme_at(%d) = %q, want %q", q(s), i, unhex(ga[k]), gs[pos]), code)
			case !in && ga[k] != "E":
				rp.bad("grapheme_at", cls, "no out-of-range error", fmt.Sprintf("%s.grapheme_at(%d): observed %q, grapheme_count is %d", q(s), i, ga[k], len(gs)), code)
			}
		}
		r.Eval(3)
	}
	// justification
	for _, j := range []struct {
		key   string
		op    string
		pad   rune
		right bool
	}{{"RJ1", "rjust", '-', true}, {"RJ2", "rjust", '\u00e9', true}, {"LJ1", "ljust", '-', false}, {"LJ2", "ljust", '\u00e9', false}} {
		// hex of an empty string is empty: split keeping empties
		parts := strings.Split(strings.TrimSuffix(f[j.key], ","), ",")
		if len(parts) != 7 {
			rp.bad(j.op, cls, "observation malformed", f[j.key], code)
			continue
		}
		for w := 0; w <= 6; w++ {
			got, want := unhex(parts[w]), justModel(s, w, j.pad, j.right)
			r.Eval(1)
			if got != want {
				how := "pads to a byte length, not a length in code points"
				if len(modelChars(got)) == len(modelChars(want)) {
					how = "wrong result"
				}
				rp.bad(j.op, justClass(s), how, fmt.Sprintf("%s.%s(%d, %q) = %s (length %d), want %s (length %d)", q(s), j.op, w, j.pad, q(got), len(modelChars(got)), q(want), len(modelChars(want))), code)
			}
		}
	}
	// case
	if got := unhex(f["UP"]); !caseOK(s, got, true) {
		rp.bad("uppercase", cls, "is not the per-character case mapping", fmt.Sprintf("%s.uppercase = %s", q(s), q(got)), code)
	}
	if got := unhex(f["LO"]); !caseOK(s, got, false) {
		rp.bad("lowercase", cls, "is not the per-character case mapping", fmt.Sprintf("%s.lowercase = %s", q(s), q(got)), code)
	}
	// repeat
	m := strings.Split(strings.TrimSuffix(f["M"], ","), ",")
	if len(m) == 4 {
		for k, cnt := range []int{-1, 0, 1, 3} {
			r.Eval(1)
			switch {
			case cnt < 0:
				if m[k] != "E" && m[k] != "" {
					rp.bad("*", cls, "negative count yields a non-empty string", fmt.Sprintf("%s * %d = %q", q(s), cnt, unhex(m[k])), code)
				}
			case m[k] == "E":
				rp.bad("*", cls, "raises for a non-negative count", fmt.Sprintf("%s * %d", q(s), cnt), code)
			case unhex(m[k]) != strings.Repeat(s, cnt):
				rp.bad("*", cls, "wrong result", fmt.Sprintf("%s * %d = %q", q(s), cnt, unhex(m[k])), code)
			}
		}
	} else {
		rp.bad("*", cls, "observation malformed", f["M"], code)
	}
	r.Outcome("vm " + outcomeClass(s))
}

func checkVMLine2(r *engine.R, s string, o operand, line, code string) {
	rp := &reporter{r: r, level: "VM (" + code + ")"}
	cls := inputClass(s + o.s)
	okind := "String"
	if o.isChar {
		okind = "Char"
	}
	f := fields(line)
	r.Eval(8)
	if got := unhex(f["P"]); got != s+o.s {
		rp.bad("+ "+okind, cls, "is not the concatenation", fmt.Sprintf("%s + %s = %s", q(s), o, q(got)), code)
	}
	want := s
	if o.s != "" && strings.HasSuffix(s, o.s) {
		want = s[:len(s)-len(o.s)]
	}
	if got := unhex(f["S"]); got != want {
		how := "wrong result"
		if got != s && got+o.s != s {
			how = "removes something that is not the suffix"
		}
		rp.bad("- "+okind, cls, how, fmt.Sprintf("%s - %s = %s, want %s", q(s), o, q(got), q(want)), code)
	}
	var c int = -99
	fmt.Sscanf(f["CMP"], "%d", &c)
	if c == -99 {
		rp.bad("<=> "+okind, cls, "raises or is not an Int", line, code)
		return
	}
	c = sign(c)
	if w, ok := cmpModel(s, o.s); ok && c != w {
		rp.bad("<=> "+okind, cls, "is not the lexicographic order of code points", fmt.Sprintf("%s <=> %s = %d, want %d", q(s), o, c, w), code)
	}
	if (c == 0) != (s == o.s) {
		rp.bad("<=> "+okind, cls, "is 0 for different strings or non-0 for equal ones", fmt.Sprintf("%s <=> %s = %d", q(s), o, c), code)
	}
	for _, rl := range []struct {
		key, name string
		want      bool
	}{{"LT", "<", c < 0}, {"LE", "<=", c <= 0}, {"GT", ">", c > 0}, {"GE", ">=", c >= 0}} {
		if (f[rl.key] == "t") != rl.want {
			rp.bad(rl.name+" "+okind, cls, "disagrees with <=>", fmt.Sprintf("%s %s %s = %s but <=> is %d", q(s), rl.name, o, f[rl.key], c), code)
		}
	}
	if !o.isChar && (f["EQ"] == "t") != (s == o.s) {
		rp.bad("== String", cls, "wrong", fmt.Sprintf("%s == %s = %s", q(s), o, f["EQ"]), code)
	}
	if o.isChar && f["EQ"] == "t" {
		rp.bad("== Char", cls, "a String is == to a Char", fmt.Sprintf("%s == %s = %s", q(s), o, f["EQ"]), code)
	}
}

// ---------------------------------------------------------------------------------------------

func chunk(n, size int, f func(lo, hi int)) {
	for lo := 0; lo < n; lo += size {
		hi := lo + size
		if hi > n {
			hi = n
		}
		f(lo, hi)
	}
}

func main() {
	engine.Main(&engine.Spec{
		Prop:  "C20",
		Level: "exploration",
		Rule: "every string of ≤ 3 elements over {a, Z, é, ß, İ, 日, 😀, e+U+0301, ZWJ, regional indicator P, space, byte 0xFF, byte 0xC3, LF, CR} (all distinct strings; CR LF is one grapheme cluster; thorough adds U+0301, regional indicator L, Hangul L and V, plus every string of 4 elements over the base alphabet) " +
			"× length/char_count/byte_count/grapheme_count, the three iterators, char_at/byte_at/grapheme_at for every index -5…5, rjust/ljust for widths 0…6 × pads {-, é}, * for counts {-1,0,1,3}, uppercase/lowercase, " +
			"through the Go API of value.String and through the VM; every string of ≤ 2 elements × 29 right operands (Strings of ≤ 1 element, Chars, U+FFFD) for + - <=> < <= > >= == at both levels; transitivity of <=> over all triples of strings of ≤ 1 element (Go API). " +
			"Oracle: unicode/utf8 decoding (an invalid byte is one character), an independent UAX#29 segmenter for the alphabet cross-checked against rivo/uniseg, unicode simple case mapping (full mapping also admitted for ß and İ; an invalid byte may stay or become U+FFFD), " +
			"documented definitions of rjust/ljust/+/-/* from headers/string.elh. A string is counted non-trivial when it is not ASCII or its code-point and grapheme counts differ; strings are enumerated without repetition",
		Assume: []string{"unicode/utf8, unicode and strings of the Go standard library are correct", "UAX#29 rules GB3–GB13 as implemented in the model (cross-checked against uniseg on every string)"},
		Setup:  func(c *engine.Ctx) { elkrun.Init() },
		Run:    run,
	})
}

func run(c *engine.Ctx) {
	al := alphabet(c.Thorough)
	strs := allStrings(al, 3)
	if c.Thorough {
		// + every string of 4 elements over the 14-element base alphabet
		seen := map[string]bool{}
		for _, s := range strs {
			seen[s] = true
		}
		for _, s := range allStrings(alphabet(false), 4) {
			if !seen[s] {
				seen[s] = true
				strs = append(strs, s)
			}
		}
	}
	short := allStrings(al, 2)
	ops := operands(al)

	// Go API, unary operations
	chunk(len(strs), 128, func(lo, hi int) {
		c.Case(fmt.Sprintf("go/unary/%d-%d", lo, hi-1), func(r *engine.R) {
			for _, s := range strs[lo:hi] {
				checkGo(r, s)
			}
			r.Sample(fmt.Sprintf("Go API: %s: counts, iterators, indexers -5…5, rjust/ljust 0…6, * and case mapping", q(strs[hi-1])))
		})
	})
	// Go API, binary operations
	chunk(len(short), 64, func(lo, hi int) {
		c.Case(fmt.Sprintf("go/binary/%d-%d", lo, hi-1), func(r *engine.R) {
			for _, s := range short[lo:hi] {
				checkBinaryGo(r, s, ops)
				r.NT(len(ops))
			}
			r.Outcome("go binary")
		})
	})
	// transitivity and totality of <=> on all triples of strings of ≤ 1 element (+ U+FFFD)
	c.Case("go/compare-transitive", func(r *engine.R) {
		one := append(allStrings(al, 1), "\ufffd", "a\xff", "\xffa", "é\xc3")
		cmp := func(a, b string) int {
			v, _ := value.String(a).CompareVal(value.Ref(value.String(b)))
			if !v.IsSmallInt() {
				return -99
			}
			return sign(int(v.AsSmallInt()))
		}
		for _, a := range one {
			for _, b := range one {
				for _, d := range one {
					r.Eval(1)
					if cmp(a, b) <= 0 && cmp(b, d) <= 0 && cmp(a, d) > 0 {
						r.Violation("<=> String is not transitive", fmt.Sprintf("%s <= %s <= %s but %s > %s", q(a), q(b), q(d), q(a), q(d)), nil)
					}
				}
			}
		}
		r.NT(len(one) * len(one) * len(one))
		r.Outcome("transitive")
	})
	// VM, unary operations
	chunk(len(strs), 96, func(lo, hi int) {
		c.Case(fmt.Sprintf("vm/unary/%d-%d", lo, hi-1), func(r *engine.R) {
			var items []elkrun.Item
			for _, s := range strs[lo:hi] {
				items = append(items, elkrun.Item{Code: "println(obs(" + elkStr(s) + "))"})
			}
			res := elkrun.Batch(prelude, items, nil)
			for i, ir := range res {
				s := strs[lo+i]
				if !isASCII(s) {
					r.NT(1)
				}
				switch {
				case ir.Panic != "":
					r.Violation("vm go-panic "+ir.Panic, items[i].Code+"\n"+ir.Stack, items[i].Code)
				case ir.Rejected:
					r.Violation("vm: a String method call is rejected by the checker", items[i].Code+"\n"+ir.Diags, items[i].Code)
				case ir.Err != "":
					r.Violation("vm: uncaught error "+ir.ErrClass, items[i].Code+"\n"+ir.Err, items[i].Code)
				default:
					checkVMLine(r, s, ir.Out, items[i].Code)
				}
			}
			r.Sample(items[len(items)-1].Code)
		})
	})
	// VM, binary operations
	chunk(len(short), 16, func(lo, hi int) {
		c.Case(fmt.Sprintf("vm/binary/%d-%d", lo, hi-1), func(r *engine.R) {
			var items []elkrun.Item
			type meta struct {
				s string
				o operand
			}
			var metas []meta
			for _, s := range short[lo:hi] {
				for _, o := range ops {
					arg := elkStr(o.s)
					if o.isChar {
						rr, _ := utf8.DecodeRuneInString(o.s)
						arg = elkChar(rr)
					}
					items = append(items, elkrun.Item{Code: "println(obs2(" + elkStr(s) + ", " + arg + "))"})
					metas = append(metas, meta{s, o})
				}
			}
			res := elkrun.Batch(prelude, items, nil)
			for i, ir := range res {
				r.NT(1)
				switch {
				case ir.Panic != "":
					r.Violation("vm go-panic "+ir.Panic, items[i].Code+"\n"+ir.Stack, items[i].Code)
				case ir.Rejected:
					r.Violation("vm: a String operator call is rejected by the checker", items[i].Code+"\n"+ir.Diags, items[i].Code)
				case ir.Err != "":
					r.Violation("vm: uncaught error "+ir.ErrClass, items[i].Code+"\n"+ir.Err, items[i].Code)
				default:
					checkVMLine2(r, metas[i].s, metas[i].o, ir.Out, items[i].Code)
				}
			}
			r.Outcome("vm binary")
			r.Sample(items[len(items)-1].Code)
		})
	})
	// indexers accept every integer type (AnyInt): same model, index written with each literal suffix
	c.Case("vm/index-types", func(r *engine.R) {
		type ix struct {
			text string
			val  int
			huge int // ±1: beyond any length
		}
		var ixs []ix
		for _, v := range []int{0, 1, 2, 3, -1, -3, -4, 100} {
			for _, suf := range []string{"", "i8", "i16", "i32", "i64", "u8", "u16", "u32", "u64", "u"} {
				if v < 0 && suf != "" && suf[0] == 'u' {
					continue
				}
				ixs = append(ixs, ix{fmt.Sprintf("%d%s", v, suf), v, 0})
			}
		}
		ixs = append(ixs, ix{"255u8", 255, 0}, ix{"-127i8", -127, 0}, ix{"18446744073709551615u", 0, 1}, ix{"9223372036854775808u64", 0, 1}, ix{"18446744073709551616", 0, 1}, ix{"-18446744073709551616", 0, -1},
			ix{"9223372036854775807", 0, 1}, ix{"-9223372036854775808", 0, -1}, ix{"18446744073709551615u64", 0, 1})
		var items []elkrun.Item
		type meta struct {
			s  string
			ix ix
		}
		var metas []meta
		for _, s := range []string{"", "a\u00e9\u65e5", "\xffa", "e\u0301x", "\U0001F1F5\U0001F1F5a"} {
			for _, x := range ixs {
				arg := x.text
				if strings.HasPrefix(arg, "-") {
					arg = "(" + arg + ")"
				}
				items = append(items, elkrun.Item{Code: fmt.Sprintf("println(\"CA=\" + ca(%s, %s) + \" BA=\" + ba(%s, %s) + \" GA=\" + ga(%s, %s))", elkStr(s), arg, elkStr(s), arg, elkStr(s), arg)})
				metas = append(metas, meta{s, x})
			}
		}
		res := elkrun.Batch(prelude, items, nil)
		for i, ir := range res {
			m := metas[i]
			r.Eval(3)
			r.NT(1)
			if ir.Panic != "" || ir.Rejected || ir.Err != "" {
				r.Violation("vm: indexer with a typed index is rejected, raises unexpectedly or panics", fmt.Sprintf("%s\n%s%s%s", items[i].Code, ir.Panic, ir.Diags, ir.Err), items[i].Code)
				continue
			}
			f := fields(ir.Out)
			cs, gs := modelChars(m.s), modelGraphemes(m.s)
			for _, k := range []struct {
				key, op string
				n       int
				el      func(pos int) string
			}{
				{"CA", "char_at", len(cs), func(p int) string { return cs[p].bytes }},
				{"BA", "byte_at", len(m.s), func(p int) string { return m.s[p : p+1] }},
				{"GA", "grapheme_at", len(gs), func(p int) string { return gs[p] }},
			} {
				pos, in := resolve(m.ix.val, k.n)
				if m.ix.huge != 0 {
					in = false
				}
				got := f[k.key]
				switch {
				case in && (got == "E" || got == "X"):
					r.Violation("char_at/byte_at/grapheme_at raise for an index in range [typed index]", fmt.Sprintf("%s: %s(%s) on %s raised", items[i].Code, k.op, m.ix.text, q(m.s)), items[i].Code)
				case in && k.key == "CA" && cs[pos].r < 0:
					// representation of an invalid byte as a Char: covered by the unary pass
				case in && unhex(got) != k.el(pos):
					r.Violation("char_at/byte_at/grapheme_at wrong element [typed index]", fmt.Sprintf("%s: %s(%s) on %s = %q, want %q", items[i].Code, k.op, m.ix.text, q(m.s), unhex(got), k.el(pos)), items[i].Code)
				case !in && got != "E" && m.ix.huge == 0:
					r.Violation("char_at/byte_at/grapheme_at no out-of-range error [typed index]", fmt.Sprintf("%s: %s(%s) on %s observed %q", items[i].Code, k.op, m.ix.text, q(m.s), got), items[i].Code)
				case !in && got != "E":
					r.Violation("char_at/byte_at/grapheme_at no out-of-range error [unsigned index ≥ 2^63 wraps to a negative index]", fmt.Sprintf("%s: %s(%s) on %s observed %q", items[i].Code, k.op, m.ix.text, q(m.s), got), items[i].Code)
				}
			}
		}
		r.Outcome("index types")
		r.Sample(items[len(items)-1].Code)
	})
	// the escapes used to write the inputs denote the intended bytes (otherwise the VM pass tests other strings)
	c.Case("vm/input-literals", func(r *engine.R) {
		var items []elkrun.Item
		for _, s := range short {
			items = append(items, elkrun.Item{Code: "println(hex(" + elkStr(s) + "))"})
		}
		res := elkrun.Batch(prelude, items, nil)
		for i, ir := range res {
			r.Eval(1)
			if unhex(strings.TrimSpace(ir.Out)) != short[i] || ir.Err != "" || ir.Rejected || ir.Panic != "" {
				r.Violation("vm: string literal escape does not denote the written bytes", fmt.Sprintf("%s\nprinted bytes %q, want %q (%s%s%s)", items[i].Code, unhex(strings.TrimSpace(ir.Out)), short[i], ir.Err, ir.Diags, ir.Panic), items[i].Code)
			}
		}
		r.Outcome("literals")
	})
	_ = sort.Strings
}
