// C02 — static types describe runtime values.
// Source-level typed probes: `def probe_T(v: T): String then v.class.name`. A call `probe_T(x)` type-checks only
// if the static type of x is a subtype of T, and prints the runtime class of the value: a printed class that is
// not a member of T (or a Go panic / Elk error raised by an instruction chosen for T) shows that a value escaped
// its static type. The space is the full product
//
//	declared type × scope × narrowing form × invalidation × probe position × probe kind
//
// of which every program the checker accepts is run.
package main

import (
	"fmt"
	"os"
	"regexp"
	"strings"
	"time"

	"verifharness/elkrun"
	"verifharness/engine"
)

// tinfo describes one narrowed (target) type.
type tinfo struct {
	typ     string   // type as written in the probe's parameter
	abs     string   // absolute constant usable in patterns / `<:` / `as` ("" if none)
	rel     string   // relative constant ("" if none)
	val     string   // a literal of the type
	val2    string   // another literal of the type (default for `??`)
	classes []string // admissible runtime class names
	probe   string   // probe method name
	op      string   // operation on the narrowed value, %s = the variable
	opRes   *tinfo   // static result type of the operation
}

var (
	tInt    = &tinfo{typ: "Int", abs: "::Std::Int", rel: "Int", val: "1", val2: "5", classes: []string{"Std::Int"}, probe: "probe_int", op: "%s + 1"}
	tString = &tinfo{typ: "String", abs: "::Std::String", rel: "String", val: `"str"`, val2: `"dflt"`, classes: []string{"Std::String"}, probe: "probe_str", op: "%s.length"}
	tFloat  = &tinfo{typ: "Float", abs: "::Std::Float", rel: "Float", val: "1.5", val2: "2.5", classes: []string{"Std::Float"}, probe: "probe_float", op: "%s + 1.5"}
	tBool   = &tinfo{typ: "Bool", abs: "::Std::Bool", rel: "Bool", val: "true", val2: "true", classes: []string{"Std::True", "Std::False"}, probe: "probe_bool", op: "%s.inspect"}
	tFoo    = &tinfo{typ: "Foo02", abs: "::Foo02", rel: "Foo02", val: "Foo02()", val2: "Foo02()", classes: []string{"Foo02"}, probe: "probe_foo", op: "%s.foo"}
	tNil    = &tinfo{typ: "nil", val: "nil", val2: "nil", classes: []string{"Std::Nil"}, probe: "probe_nil", op: "%s.inspect"}
	tFalsy  = &tinfo{typ: "false | nil", val: "nil", val2: "false", classes: []string{"Std::Nil", "Std::False"}, probe: "probe_falsy", op: "%s.inspect"}
)

func init() {
	tInt.opRes, tString.opRes, tFloat.opRes, tBool.opRes, tFoo.opRes, tNil.opRes, tFalsy.opRes = tInt, tInt, tFloat, tString, tInt, tString, tString
}

// decl is a declared (wide) type: prim is what the positive narrowing forms narrow to, other the complement.
type decl struct {
	name    string
	typ     string
	prim    *tinfo
	other   *tinfo
	nilable bool
}

func decls(thorough bool) []decl {
	ds := []decl{
		{"Int?", "Int?", tInt, tNil, true},
		{"String?", "String?", tString, tNil, true},
		{"Int|String", "Int | String", tInt, tString, false},
		{"Int|Float", "Int | Float", tInt, tFloat, false},
		{"Bool?", "Bool?", tBool, tFalsy, true},
		{"Foo02|nil", "Foo02 | nil", tFoo, tNil, true},
	}
	if thorough {
		ds = append(ds, decl{"Float?", "Float?", tFloat, tNil, true}, decl{"String|Float", "String | Float", tString, tFloat, false})
	}
	return ds
}

var scopes = []string{"top", "method-local", "method-param"}

// nform is a narrowing form. wrap places the body where the variable `v` has the narrowed type.
type nform struct {
	name      string
	family    string // signature family
	neg       bool   // the body sees the complement type
	newvar    string // the body works on this expression instead of x ("" = x); such forms admit no outer closures
	exprV     bool   // newvar is an expression, not an assignable variable
	nilOnly   bool   // only meaningful for nilable declared types
	unionOnly bool   // only meaningful for unions of two value types
	wrap      func(d decl, t *tinfo, body []string) []string
}

func ind(ls []string) []string {
	out := make([]string, len(ls))
	for i, l := range ls {
		out[i] = "  " + l
	}
	return out
}

func cat(parts ...any) []string {
	var out []string
	for _, p := range parts {
		switch v := p.(type) {
		case string:
			out = append(out, v)
		case []string:
			out = append(out, v...)
		}
	}
	return out
}

func block(head string, body []string) []string { return cat(head, ind(body), "end") }
func blockElse(head string, first, second []string) []string {
	return cat(head, ind(first), "else", ind(second), "end")
}

var marker = []string{`println("other-branch")`}

func nforms() []nform {
	simple := func(head string) func(decl, *tinfo, []string) []string {
		return func(d decl, t *tinfo, b []string) []string { return block(head, b) }
	}
	inElse := func(head string) func(decl, *tinfo, []string) []string {
		return func(d decl, t *tinfo, b []string) []string { return blockElse(head, marker, b) }
	}
	after := func(guard string) func(decl, *tinfo, []string) []string {
		return func(d decl, t *tinfo, b []string) []string { return cat(guard, b) }
	}
	return []nform{
		// positive forms: the body sees d.prim
		{name: "if x", family: "truthy", wrap: simple("if x")},
		{name: "if x != nil", family: "nil-compare", nilOnly: true, wrap: simple("if x != nil")},
		{name: "unless x else", family: "truthy", wrap: inElse("unless x")},
		{name: "if !x else", family: "truthy", wrap: inElse("if !x")},
		{name: "unless !x", family: "truthy", wrap: simple("unless !x")},
		{name: "if !!x", family: "truthy", wrap: simple("if !!x")},
		{name: "if x && c", family: "truthy", wrap: simple("if x && yes()")},
		{name: "if x || nil", family: "truthy", wrap: simple("if x || nil")},
		{name: "x && do", family: "truthy", wrap: func(d decl, t *tinfo, b []string) []string { return cat("r := x && do", ind(b), "  1", "end") }},
		{name: "while x", family: "truthy", wrap: func(d decl, t *tinfo, b []string) []string { return cat("while x", ind(b), "  break", "end") }},
		{name: "return unless x", family: "truthy", wrap: after("return unless x")},
		{name: "return if !x", family: "truthy", wrap: after("return if !x")},
		{name: "break unless x", family: "truthy", wrap: func(d decl, t *tinfo, b []string) []string {
			return cat("loop", "  break unless x", ind(b), "  break", "end")
		}},
		{name: "continue unless x", family: "truthy", wrap: func(d decl, t *tinfo, b []string) []string {
			return cat("k := 0", "while k < 1", "  k += 1", "  continue unless x", ind(b), "end")
		}},
		{name: "if x = e", family: "truthy", wrap: simple("if x = mk_d()")},
		{name: "if x == lit", family: "equality", wrap: func(d decl, t *tinfo, b []string) []string { return block("if x == "+d.prim.val, b) }},
		{name: "if x <: T", family: "type-test", wrap: func(d decl, t *tinfo, b []string) []string { return block("if x <: "+d.prim.abs, b) }},
		{name: "if x <<: T", family: "type-test", wrap: func(d decl, t *tinfo, b []string) []string { return block("if x <<: "+d.prim.abs, b) }},
		{name: "return unless x <: T", family: "type-test", wrap: func(d decl, t *tinfo, b []string) []string {
			return cat("return unless x <: "+d.prim.abs, b)
		}},
		{name: "switch x case T()", family: "pattern", wrap: func(d decl, t *tinfo, b []string) []string {
			return cat("switch x", "case "+d.prim.abs+"()", ind(b), "end")
		}},
		{name: "switch x case nil else", family: "pattern", nilOnly: true, wrap: func(d decl, t *tinfo, b []string) []string {
			return cat("switch x", "case nil", ind(marker), "else", ind(b), "end")
		}},
		// negative forms: the body sees d.other
		{name: "if x else", family: "truthy", neg: true, wrap: inElse("if x")},
		{name: "unless x", family: "truthy", neg: true, wrap: simple("unless x")},
		{name: "if !x", family: "truthy", neg: true, wrap: simple("if !x")},
		{name: "while !x", family: "truthy", neg: true, wrap: func(d decl, t *tinfo, b []string) []string { return cat("while !x", ind(b), "  break", "end") }},
		{name: "return if x", family: "truthy", neg: true, wrap: after("return if x")},
		{name: "x || do", family: "truthy", neg: true, wrap: func(d decl, t *tinfo, b []string) []string { return cat("r := x || do", ind(b), "  1", "end") }},
		{name: "if x == nil", family: "nil-compare", neg: true, nilOnly: true, wrap: simple("if x == nil")},
		{name: "if x <: T else", family: "type-test", neg: true, wrap: func(d decl, t *tinfo, b []string) []string {
			return blockElse("if x <: "+d.prim.abs, marker, b)
		}},
		{name: "return if x <: T", family: "type-test", neg: true, wrap: func(d decl, t *tinfo, b []string) []string {
			return cat("return if x <: "+d.prim.abs, b)
		}},
		{name: "switch x case T() else", family: "pattern", neg: true, wrap: func(d decl, t *tinfo, b []string) []string {
			return cat("switch x", "case "+d.prim.abs+"()", ind(marker), "else", ind(b), "end")
		}},
		// a variable bound in the LEFT alternative of `p || q` is nil when the right alternative matched, so its static
		// type must be nilable: x is given the value of the other kind first, the probe asserts the left kind on y
		{name: "switch x case (O() as y) || T()", family: "pattern-alternative-binding", neg: true, newvar: "y", unionOnly: true, wrap: func(d decl, t *tinfo, b []string) []string {
			return cat("x = "+d.prim.val, "switch x", "case ("+d.other.abs+"() as y) || "+d.prim.abs+"()", ind(b), "end")
		}},
		// forms that produce a new value of the narrowed type
		{name: "y := x ?? dflt", family: "nil-coalesce", newvar: "y", wrap: func(d decl, t *tinfo, b []string) []string {
			return cat("y := x ?? "+d.prim.val2, b)
		}},
		{name: "y := must x", family: "must", newvar: "y", nilOnly: true, wrap: func(d decl, t *tinfo, b []string) []string { return cat("y := must x", b) }},
		{name: "y := x as ::T", family: "as-cast absolute-const", newvar: "y", wrap: func(d decl, t *tinfo, b []string) []string {
			return cat("y := x as "+d.prim.abs, b)
		}},
		{name: "y := x as T", family: "as-cast relative-const", newvar: "y", wrap: func(d decl, t *tinfo, b []string) []string {
			return cat("y := x as "+d.prim.rel, b)
		}},
		{name: "(x ?? dflt)", family: "nil-coalesce", newvar: "(x ?? %s)", exprV: true, wrap: func(d decl, t *tinfo, b []string) []string { return b }},
		{name: "(must x)", family: "must", newvar: "(must x)", exprV: true, nilOnly: true, wrap: func(d decl, t *tinfo, b []string) []string { return b }},
		{name: "(x as ::T)", family: "as-cast absolute-const", newvar: "(x as %s)", exprV: true, wrap: func(d decl, t *tinfo, b []string) []string { return b }},
	}
}

// invalidation kinds
var invals = []string{
	"none",
	"reassign",            // x = O right before the probe
	"closure-call",        // closure defined before the narrowing, called inside it
	"closure-copy-call",   // the same closure copied to another variable, then called
	"closure-via-method",  // the same closure passed to a method that calls it
	"closure-inline-call", // (-> x = O).() inside the narrowed region
	"closure-inner-call",  // f := -> x = O ; f.() both inside the narrowed region
	"cond-reassign",       // if c then x = O end
	"loop-reassign",       // a loop whose body assigns, probe after the loop
	"loop-back-edge",      // the probe at the start of a loop body, the assignment at its end
	"catch-reassign",      // assignment in a do body that throws, probe after the catch
	"finally-reassign",    // assignment in finally
}

var positions = []string{"direct", "after-call", "closure", "closure-made-before-invalidation"}

// probe: typed probe of the type the form should narrow to; other: typed probe of the complementary type (a sound
// checker rejects it, a checker that narrows with the wrong polarity accepts it); op: type-specialised operation
var kinds = []string{"probe", "other", "op"}

type prog struct {
	main         []string
	target       *tinfo // the type the probes assert
	opTarget     *tinfo
	skip         string // non-empty: combination not applicable
	family, form string
}

// gen builds one program.
func gen(d decl, scope string, nf nform, inv, pos, kind string) prog {
	t, o := d.prim, d.other
	if nf.neg {
		t, o = d.other, d.prim
	}
	p := prog{target: t, family: nf.family, form: nf.name}
	if nf.nilOnly && !d.nilable {
		p.skip = "form needs a nilable type"
		return p
	}
	if nf.unionOnly && d.nilable {
		p.skip = "form needs a union of two value types"
		return p
	}
	v := "x"
	if nf.newvar != "" {
		v = nf.newvar
		if strings.Contains(v, "%s") {
			arg := d.prim.val2
			if strings.Contains(v, " as ") {
				arg = d.prim.abs
			}
			v = fmt.Sprintf(v, arg)
		}
		switch inv {
		case "none":
		case "reassign":
			if nf.exprV {
				p.skip = "expression form"
				return p
			}
		default:
			p.skip = "new value: nothing to invalidate"
			return p
		}
	}
	if inv == "none" && pos == "closure-made-before-invalidation" {
		p.skip = "same as closure"
		return p
	}
	// probe expression
	pe := fmt.Sprintf("%s(%s)", t.probe, v)
	asserted := t
	if kind == "op" {
		asserted = t.opRes
		pe = fmt.Sprintf("%s(%s)", t.opRes.probe, fmt.Sprintf(t.op, v))
	}
	if kind == "other" {
		asserted = o
		pe = fmt.Sprintf("%s(%s)", o.probe, v)
	}
	p.opTarget = asserted
	emit := func(e string) []string { return []string{"s := " + e, `println("P:" + s)`} }
	var gdef, probe []string
	switch pos {
	case "direct":
		probe = emit(pe)
	case "after-call":
		probe = cat("noop()", emit(pe))
	case "closure", "closure-made-before-invalidation":
		gdef = []string{"g := -> " + pe}
		probe = emit("g.()")
	}
	assign := v + " = " + o.val
	var pre, body []string
	early := pos == "closure-made-before-invalidation"
	seq := func(invLines []string) []string {
		if early {
			return cat(gdef, invLines, probe)
		}
		return cat(invLines, gdef, probe)
	}
	switch inv {
	case "none":
		body = seq(nil)
	case "reassign":
		body = seq([]string{assign})
	case "closure-call":
		pre = []string{"f := -> " + assign}
		body = seq([]string{"f.()"})
	case "closure-copy-call":
		pre = []string{"f := -> " + assign}
		body = seq([]string{"h := f", "h.()"})
	case "closure-via-method":
		pre = []string{"f := ||: void -> " + assign}
		body = seq([]string{"app(f)"})
	case "closure-inline-call":
		body = seq([]string{"(-> " + assign + ").()"})
	case "closure-inner-call":
		body = seq([]string{"f := -> " + assign, "f.()"})
	case "cond-reassign":
		body = seq(block("if yes()", []string{assign}))
	case "loop-reassign":
		body = seq(cat("i := 0", block("while i < 1", []string{assign, "i += 1"})))
	case "loop-back-edge":
		loop := func(inner []string) []string {
			return cat("i := 0", block("while i < 2", cat(inner, assign, "i += 1")))
		}
		if early {
			body = cat(gdef, loop(probe))
		} else {
			body = loop(cat(gdef, probe))
		}
	case "catch-reassign":
		body = seq(cat("do", ind([]string{assign, "throw unchecked 1"}), "catch 1", ind([]string{"noop()"}), "end"))
	case "finally-reassign":
		body = seq(cat("do", ind([]string{"noop()"}), "finally", ind([]string{assign}), "end"))
	}
	p.main = cat(pre, nf.wrap(d, t, body))
	return p
}

var localRe = regexp.MustCompile(`\b[xyfghsikr]\b`)

// prelude of one batch: all units of a batch share the declared type and the polarity.
func prelude(d decl, nf nform) string {
	t := d.prim
	if nf.neg {
		t = d.other
	}
	var b strings.Builder
	ts := []*tinfo{tInt, tString, tFloat, tBool, tNil, tFalsy}
	if d.prim == tFoo {
		b.WriteString("class Foo02\n  def foo: Int then 7\nend\n")
		ts = append(ts, tFoo)
	}
	for _, ti := range ts {
		fmt.Fprintf(&b, "def %s(v: %s): String then v.class.name\n", ti.probe, ti.typ)
	}
	fmt.Fprintf(&b, "def mk_d: %s then %s\n", d.typ, t.val)
	b.WriteString("def noop: void; end\ndef yes: bool then true\ndef app(f: ||: void): void then f.()\n")
	return b.String()
}

// toUnit places the statements of a program in its scope; idx makes method / local names unique in the batch.
func toUnit(d decl, scope string, main []string, idx int) unit {
	switch scope {
	case "top":
		ls := cat(fmt.Sprintf("var x: %s = mk_d()", d.typ), main)
		for i, l := range ls {
			ls[i] = localRe.ReplaceAllStringFunc(l, func(m string) string { return fmt.Sprintf("%s_%d", m, idx) })
		}
		return unit{calls: ls}
	case "method-local":
		return unit{
			defs:  cat(fmt.Sprintf("def t_%d: void", idx), ind(cat(fmt.Sprintf("var x: %s = mk_d()", d.typ), main)), "end"),
			calls: []string{fmt.Sprintf("t_%d()", idx)},
		}
	case "method-param":
		return unit{
			defs:  cat(fmt.Sprintf("def t_%d(x: %s): void", idx, d.typ), ind(main), "end"),
			calls: []string{fmt.Sprintf("t_%d(mk_d())", idx)},
		}
	}
	panic(scope)
}

func member(c string, cs []string) bool {
	for _, x := range cs {
		if x == c {
			return true
		}
	}
	return false
}

// invFamily groups invalidation kinds into defect-level names for signatures.
func invFamily(inv, pos string) string {
	by := inv
	switch inv {
	case "closure-call", "closure-copy-call", "closure-via-method":
		by = "call-of-closure-defined-before-narrowing"
	case "closure-inline-call", "closure-inner-call":
		by = "call-of-closure-defined-inside-narrowing"
	}
	if pos == "closure-made-before-invalidation" && inv != "none" {
		switch inv {
		case "closure-call", "closure-copy-call", "closure-via-method", "loop-back-edge":
			// the direct probe already fails for these: one defect
		default:
			return "reassign-after-closure-captured-narrowed-local"
		}
	}
	return by
}

type variant struct {
	inv, pos, kind string
	p              prog
}

// terminal forms end the enclosing body early: at top level they need a program of their own.
func terminal(nf nform) bool {
	return strings.HasPrefix(nf.name, "return ")
}

func checkCase(c *engine.Ctx, r *engine.R, d decl, scope string, nf nform) {
	pre := prelude(d, nf)
	solo := scope == "top" && terminal(nf)
	violated := map[string]bool{} // inv/pos of probe-kind variants that showed a violation
	// phase 1: typed probes; phase 2: type-specialised operations, only where the probe found the value inside
	// its static type (an operation applied to a value of the wrong representation can take the host process down)
	for _, phase := range [][]string{{"probe", "other"}, {"op"}} {
		var vs []variant
		var units []unit
		for _, inv := range invals {
			for _, pos := range positions {
				for _, kind := range phase {
					p := gen(d, scope, nf, inv, pos, kind)
					if p.skip != "" {
						r.Count("not_applicable", 1)
						continue
					}
					if kind == "op" && violated[inv+"/"+pos] {
						r.Count("operation_not_run_probe_already_violated", 1)
						continue
					}
					units = append(units, toUnit(d, scope, p.main, len(units)))
					vs = append(vs, variant{inv, pos, kind, p})
				}
			}
		}
		source := func(i int) func() string {
			return func() string { s, _ := build(pre, units, []int{i}, []int{i}); return s }
		}
		var st batchStats
		results := runUnits(pre, units, solo, &st)
		r.Count("programs_compiled", st.compiles)
		r.Count("programs_executed", st.execs)
		for i, ur := range results {
			if judge(r, d, scope, nf, vs[i], ur, source(i)) && vs[i].kind == "probe" {
				violated[vs[i].inv+"/"+vs[i].pos] = true
			}
		}
		if c.Thorough && !solo {
			// confirm every batch rejection on a program of its own (one unit's error must not hide another unit)
			var idx []int
			var alone []unit
			for i, ur := range results {
				if ur.rejected {
					idx = append(idx, i)
					alone = append(alone, units[i])
				}
			}
			var st2 batchStats
			confirmed := runUnits(pre, alone, true, &st2)
			r.Count("programs_compiled", st2.compiles)
			for j, ur := range confirmed {
				r.Count("rejections_confirmed_alone", 1)
				if !ur.rejected {
					i := idx[j]
					r.Count("rejected_only_in_batch", 1)
					r.Count("rejected", -1)
					r.Eval(-1)
					if judge(r, d, scope, nf, vs[i], ur, source(i)) && vs[i].kind == "probe" {
						violated[vs[i].inv+"/"+vs[i].pos] = true
					}
				}
			}
		}
		for i, v := range vs {
			if v.inv == "closure-call" && v.pos == "direct" {
				r.Sample(source(i)())
			}
		}
	}
}

func judge(r *engine.R, d decl, scope string, nf nform, v variant, ur unitResult, source func() string) (violated bool) {
	p := v.p
	inv, pos, kind := v.inv, v.pos, v.kind
	r.Eval(1)
	where := fmt.Sprintf("decl=%s scope=%s form=`%s` invalidate=%s probe=%s/%s", d.name, scope, nf.name, inv, pos, kind)
	detail := func(what string) string { return where + "\n" + what + "\n--- program ---\n" + source() }
	sig := func() string {
		if strings.HasPrefix(nf.family, "as-cast") || nf.family == "must" || nf.family == "nil-coalesce" {
			return "static type violated form=" + nf.family
		}
		if inv == "none" {
			return fmt.Sprintf("static type violated form=%s not-invalidated", nf.family)
		}
		return "narrowing not invalidated by=" + invFamily(inv, pos)
	}
	if dump != nil {
		oc := "accepted"
		if ur.rejected {
			oc = "rejected"
		}
		fmt.Fprintf(dump, "%s => %s out=%q err=%s panic=%s\n", where, oc, ur.out, ur.errClass, ur.panicSig)
	}
	switch {
	case ur.rejected:
		r.Count("rejected", 1)
		r.Outcome("rejected")
		return false
	case ur.frontPanic != "":
		// a Go panic inside the checker/compiler: the program was never accepted (C03's subject)
		r.Count("front_end_panic", 1)
		r.Outcome("front-end-panic")
		r.Note("front-end panic: " + ur.frontPanic + " on " + where)
		return false
	}
	r.NT(1)
	r.Count("accepted", 1)
	if inv != "none" {
		r.Count("accepted_with_invalidation", 1)
	}
	// every probe line must name a class of the asserted type
	nprobe := 0
	for _, line := range strings.Split(ur.out, "\n") {
		if !strings.HasPrefix(line, "P:") {
			continue
		}
		nprobe++
		cls := line[2:]
		if !member(cls, p.opTarget.classes) {
			r.Outcome("violation:class")
			r.Violation(sig(), detail(fmt.Sprintf("the checker accepted `%s(…)`, so the argument has static type `%s`, but at run time its class is %s", p.opTarget.probe, p.opTarget.typ, cls)), source())
			return true
		}
	}
	switch {
	case ur.panicSig != "":
		r.Outcome("violation:go-panic")
		r.Violation(sig(), detail("Go panic in the VM: "+ur.panicSig), source())
		return true
	case ur.err != "":
		r.Outcome("violation:error " + ur.errClass)
		r.Violation(sig(), detail("accepted program with only total operations raised "+ur.err), source())
		return true
	case nprobe == 0:
		r.Count("probe_not_reached", 1)
		r.Outcome("probe-not-reached")
	default:
		r.Count("probes_checked", nprobe)
		r.Outcome("ok:" + strings.Join(p.opTarget.classes, "|"))
	}
	return false
}

var dump *os.File

func run(c *engine.Ctx) {
	if dir := os.Getenv("C02_DUMP"); dir != "" {
		dump, _ = os.Create(fmt.Sprintf("%s/dump-%d.txt", dir, os.Getpid()))
	}
	chainCases(c)
	for _, d := range decls(c.Thorough) {
		for _, scope := range scopes {
			for _, nf := range nforms() {
				d, scope, nf := d, scope, nf
				if !c.Thorough && scope == "top" && terminal(nf) {
					continue // one program per variant: thorough tier only (the form is explored in both method scopes)
				}
				c.Case(fmt.Sprintf("%s/%s/%s", d.name, scope, nf.name), func(r *engine.R) { checkCase(c, r, d, scope, nf) })
			}
		}
	}
}

func main() {
	engine.Main(&engine.Spec{
		Prop:  "C02",
		Level: "exploration",
		Rule: "full product declared type {Int?, String?, Int|String, Int|Float, Bool?, Foo02|nil; thorough adds Float?, String|Float} × scope {top level, method local, method parameter} × 38 narrowing forms " +
			"(truthiness, negation, &&/||, early return/break/continue, while, assignment in condition, ==, <:, <<:, switch patterns, ??, must, as ::T / as T; positive and else-branch polarity) × " +
			"12 invalidation kinds (none, reassign, 5 closure-call shapes, conditional/loop/back-edge/catch/finally reassign) × 4 probe positions × {typed probe of the narrowed type, typed probe of the complementary type, type-specialised operation}; " +
			"plus nested narrowing chains: every ordered chain of 2-3 distinct conditions out of {a, not <: Float, <: Int, <: String, not <: Int} on a `String | Int | Float | nil` local, an assignment of nil / String / Int / Float in the innermost block, and one of 7 typed probes after the innermost, middle or outer block (6 720 programs); " +
			"every program the checker accepts is run; each printed runtime class must be a member of the probe's parameter type; non-trivial = accepted and executed",
		Assume:      []string{"`v.class.name` reports the runtime class", "method bodies compiled one at a time (MethodCheckConcurrencyLimit=1)", "the std-header return-type clause is covered by C28"},
		Setup:       func(c *engine.Ctx) { elkrun.Init() },
		Run:         run,
		CaseTimeout: 300 * time.Second,
		// the quick tier is ≈ 3.5 CPU-minutes (well under a minute on 16 idle cores); the deadline leaves room for a shared machine
		QuickDeadline:    12 * time.Minute,
		ThoroughDeadline: 90 * time.Minute,
	})
}
