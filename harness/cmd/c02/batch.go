package main

// Batched compilation with per-unit attribution of diagnostics by source line.
// Many independent units (each with its own definitions and its own top-level call lines) are put into one
// program, because a checker run has a large fixed cost. A unit whose lines carry a failure diagnostic is
// rejected and removed, and the rest is compiled again; at run time a unit that panics / raises is charged
// with the failure and the units after it are run again in a new program.

import (
	"fmt"
	"runtime/debug"
	"strings"

	"github.com/elk-language/elk/bitfield"
	"github.com/elk-language/elk/position/diagnostic"
	"github.com/elk-language/elk/types/checker"
	"github.com/elk-language/elk/vm"

	"verifharness/elkrun"
	"verifharness/engine"
)

type diag struct {
	line int
	msg  string
}

type compiled struct {
	fn       *vm.BytecodeFunction
	fails    []diag
	panicMsg string
	panicSig string
	stack    string
}

func compile(src string) (res compiled) {
	elkrun.Init()
	defer func() {
		if p := recover(); p != nil {
			res.stack = string(debug.Stack())
			res.panicMsg = fmt.Sprint(p)
			res.panicSig = engine.PanicSig(res.panicMsg, res.stack)
			res.fn = nil
		}
	}()
	f, diags := checker.CheckSource("p.elk", src, nil, bitfield.BitField16{}, nil)
	if diags.IsFailure() || f == nil {
		for _, d := range diags {
			if d.Severity != diagnostic.FAIL {
				continue
			}
			line := 0
			if d.Location != nil && d.Location.Span != nil && d.Location.StartPos != nil {
				line = d.Location.StartPos.Line
			}
			res.fails = append(res.fails, diag{line, d.Message})
		}
		if len(res.fails) == 0 {
			res.fails = append(res.fails, diag{0, "rejected without a failure diagnostic"})
		}
		return res
	}
	res.fn = f
	return res
}

type unit struct {
	defs  []string // definition section (methods), placed before all calls
	calls []string // top-level statements of the unit
}

type unitResult struct {
	rejected   bool
	diags      string
	frontPanic string // Go panic in the checker/compiler (signature)
	ran        bool
	out        string
	err        string
	errClass   string
	panicSig   string
	stack      string
}

const umark = "@@#"

// build assembles prelude + defs of `def` + marker/calls of `call`; owner maps 1-based line numbers to unit indices (-1: none).
func build(prelude string, units []unit, def, call []int) (string, []int) {
	var b strings.Builder
	owner := []int{-1}
	add := func(line string, o int) {
		b.WriteString(line)
		b.WriteByte('\n')
		for i := 0; i <= strings.Count(line, "\n"); i++ {
			owner = append(owner, o)
		}
	}
	for _, l := range strings.Split(strings.TrimRight(prelude, "\n"), "\n") {
		add(l, -1)
	}
	for _, u := range def {
		for _, l := range units[u].defs {
			add(l, u)
		}
	}
	for _, u := range call {
		add(fmt.Sprintf("println(%q)", fmt.Sprintf("%s%d", umark, u)), -1)
		for _, l := range units[u].calls {
			add(l, u)
		}
	}
	return b.String(), owner
}

type batchStats struct{ compiles, execs, solo int }

// runUnits observes every unit. solo forces one program per unit.
func runUnits(prelude string, units []unit, solo bool, st *batchStats) []unitResult {
	res := make([]unitResult, len(units))
	runSolo := func(u int) {
		st.solo++
		src, _ := build(prelude, units, []int{u}, []int{u})
		c := compile(src)
		st.compiles++
		switch {
		case c.panicMsg != "":
			res[u].frontPanic = c.panicSig
			res[u].stack = c.stack
		case c.fn == nil:
			res[u].rejected = true
			res[u].diags = fmtDiags(c.fails)
		default:
			r := elkrun.Exec(c.fn, nil)
			st.execs++
			res[u] = unitResult{ran: true, out: stripMarks(r.Stdout), err: r.Err, errClass: r.ErrClass, panicSig: r.PanicSig, stack: r.Stack}
			if r.Panic != "" && r.PanicSig == "" {
				res[u].panicSig = r.Panic
			}
		}
		elkrun.ResetRuntime()
	}
	if solo {
		for u := range units {
			runSolo(u)
		}
		return res
	}
	active := make([]int, len(units))
	for i := range active {
		active[i] = i
	}
	// compile phase: drop units with failures until the rest is accepted
	var fn *vm.BytecodeFunction
	for len(active) > 0 {
		src, owner := build(prelude, units, active, active)
		c := compile(src)
		st.compiles++
		if c.fn != nil {
			fn = c.fn
			break
		}
		elkrun.ResetRuntime()
		bad := map[int][]diag{}
		mappable := c.panicMsg == ""
		for _, d := range c.fails {
			if d.line <= 0 || d.line >= len(owner) || owner[d.line] < 0 {
				mappable = false
				break
			}
			bad[owner[d.line]] = append(bad[owner[d.line]], d)
		}
		if !mappable || len(bad) == 0 {
			// cannot attribute: observe each remaining unit on its own
			for _, u := range active {
				runSolo(u)
			}
			return res
		}
		var keep []int
		for _, u := range active {
			if ds, ok := bad[u]; ok {
				res[u].rejected = true
				res[u].diags = fmtDiags(ds)
			} else {
				keep = append(keep, u)
			}
		}
		active = keep
	}
	// run phase
	remaining := active
	for len(remaining) > 0 {
		if fn == nil {
			src, _ := build(prelude, units, active, remaining)
			c := compile(src)
			st.compiles++
			if c.fn == nil {
				elkrun.ResetRuntime()
				for _, u := range remaining {
					runSolo(u)
				}
				return res
			}
			fn = c.fn
		}
		r := elkrun.Exec(fn, nil)
		st.execs++
		fn = nil
		elkrun.ResetRuntime()
		outs, last := splitUnits(r.Stdout)
		clean := r.Panic == "" && r.Err == ""
		var next []int
		for i, u := range remaining {
			if !clean && last >= 0 && u == last {
				res[u] = unitResult{ran: true, out: outs[u], err: r.Err, errClass: r.ErrClass, panicSig: r.PanicSig, stack: r.Stack}
				if r.Panic != "" && r.PanicSig == "" {
					res[u].panicSig = r.Panic
				}
				next = remaining[i+1:]
				break
			}
			res[u] = unitResult{ran: true, out: outs[u]}
		}
		if !clean && last < 0 {
			// failed before the first unit: should not happen (prelude is total); observe one by one
			for _, u := range remaining {
				runSolo(u)
			}
			return res
		}
		remaining = next
	}
	return res
}

func fmtDiags(ds []diag) string {
	var b strings.Builder
	for _, d := range ds {
		fmt.Fprintf(&b, "line %d: %s\n", d.line, d.msg)
	}
	return b.String()
}

func splitUnits(out string) (map[int]string, int) {
	outs := map[int]string{}
	cur := -1
	for _, line := range strings.SplitAfter(out, "\n") {
		if strings.HasPrefix(line, umark) {
			var n int
			if _, err := fmt.Sscanf(strings.TrimSpace(line[len(umark):]), "%d", &n); err == nil {
				cur = n
				outs[cur] += ""
				continue
			}
		}
		if cur >= 0 {
			outs[cur] += line
		}
	}
	return outs, cur
}

func stripMarks(out string) string {
	var b strings.Builder
	for _, line := range strings.SplitAfter(out, "\n") {
		if !strings.HasPrefix(line, umark) {
			b.WriteString(line)
		}
	}
	return b.String()
}
