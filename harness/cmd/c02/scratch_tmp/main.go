package main

import (
	"fmt"
	"time"
	"verifharness/elkrun"
)

const p1 = `def probe_int(v: Int): String then v.class.name
def mk_d: Int? then 1
def t: void
  var x: Int? = mk_d()
  f := -> x = nil
  if x
    f.()
    s := probe_int(x + 1)
    println("P:" + s)
  end
end
t()
`
const p2 = `def probe_int(v: Int): String then v.class.name
def mk_d: Int? then 1
def t: void
  var x: Int? = mk_d()
  if x
    s := probe_int(x)
    println("P:" + s)
  end
end
t()
`

func main() {
	elkrun.Init()
	t0 := time.Now()
	for i := 0; i < 20; i++ {
		elkrun.Run(p2, nil)
	}
	fmt.Println("per run", time.Since(t0)/20)
	t0 = time.Now()
	for i := 0; i < 20; i++ {
		elkrun.ResetRuntime()
	}
	fmt.Println("per reset", time.Since(t0)/20)
	r := elkrun.Run(p1, nil)
	fmt.Println(r.Outcome())
	elkrun.ResetRuntime()
	r = elkrun.Run(p2, nil)
	fmt.Println(r.Outcome())
	r = elkrun.Run(p2, nil)
	fmt.Println(r.Outcome())
}
