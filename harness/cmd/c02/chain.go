package main

// Nested narrowing chains: a local of declared type `String | Int | Float | nil` is narrowed by a chain of 2–3 nested
// conditions, assigned a value that only the declared type accepts in the innermost block, and then handed to a typed
// probe after the innermost / middle / outer block has closed. The probe call type-checks only if the static type of
// the local at that point is a subtype of the probe's parameter type; every accepted program is run on four inputs and
// each printed runtime class must be admitted by the probe (same oracle as the main product: no model of the
// checker's narrowing rules is needed, rejected programs are counted).

import (
	"fmt"
	"strings"

	"verifharness/elkrun"
	"verifharness/engine"
)

type chainStep struct{ name, open string }

var chainSteps = []chainStep{
	{"truthy", "if a"},
	{"not-float", "unless a <: ::Std::Float"},
	{"is-int", "if a <: ::Std::Int"},
	{"is-string", "if a <: ::Std::String"},
	{"not-int", "unless a <: ::Std::Int"},
}

type chainProbe struct {
	name, typ string
	classes   []string
}

var chainProbes = []chainProbe{
	{"int", "::Std::Int", []string{"Std::Int"}},
	{"string", "::Std::String", []string{"Std::String"}},
	{"float", "::Std::Float", []string{"Std::Float"}},
	{"nil", "nil", []string{"Std::Nil"}},
	{"string_int", "::Std::String | ::Std::Int", []string{"Std::String", "Std::Int"}},
	{"string_int_float", "::Std::String | ::Std::Int | ::Std::Float", []string{"Std::String", "Std::Int", "Std::Float"}},
	{"int_nil", "::Std::Int | nil", []string{"Std::Int", "Std::Nil"}},
}

var chainAssigns = []struct{ name, val string }{{"nil", "nil"}, {"string", `"s"`}, {"int", "7"}, {"float", "2.5"}}

var chainInputs = []string{`"foo"`, "5", "1.5", "nil"}

func chainPrelude() string {
	var b strings.Builder
	for _, p := range chainProbes {
		fmt.Fprintf(&b, "def cprobe_%s(v: %s): String then v.class.name\n", p.name, p.typ)
	}
	return b.String()
}

var chainSeq int

// chainProgram: pos = 1 (after the innermost block, inside the next one) … depth (after the outermost block)
func chainProgram(steps []chainStep, assign string, pos int, p chainProbe, id int) string {
	var b strings.Builder
	b.WriteString(chainPrelude())
	fmt.Fprintf(&b, "def cf%d(x: ::Std::String | ::Std::Int | ::Std::Float | nil): String\n  var a = x\n", id)
	ind := "  "
	for _, s := range steps {
		b.WriteString(ind + s.open + "\n")
		ind += "  "
	}
	b.WriteString(ind + "a = " + assign + "\n")
	for lvl := 1; lvl <= len(steps); lvl++ {
		ind = ind[:len(ind)-2]
		b.WriteString(ind + "end\n")
		if lvl == pos {
			fmt.Fprintf(&b, "%sreturn cprobe_%s(a)\n", ind, p.name)
		}
	}
	b.WriteString("  \"none\"\nend\n")
	for _, in := range chainInputs {
		fmt.Fprintf(&b, "println(cf%d(%s))\n", id, in)
	}
	return b.String()
}

func chainCases(c *engine.Ctx) {
	var chains [][]chainStep
	n := len(chainSteps)
	for i := 0; i < n; i++ {
		for j := 0; j < n; j++ {
			if j == i {
				continue
			}
			chains = append(chains, []chainStep{chainSteps[i], chainSteps[j]})
			for k := 0; k < n; k++ {
				if k == i || k == j {
					continue
				}
				chains = append(chains, []chainStep{chainSteps[i], chainSteps[j], chainSteps[k]})
			}
		}
	}
	for _, ch := range chains {
		ch := ch
		var names []string
		for _, s := range ch {
			names = append(names, s.name)
		}
		c.Case("chain/"+strings.Join(names, ">"), func(r *engine.R) {
			for _, as := range chainAssigns {
				for pos := 1; pos <= len(ch); pos++ {
					for _, p := range chainProbes {
						chainSeq++
						src := chainProgram(ch, as.val, pos, p, chainSeq)
						res := elkrun.Run(src, nil)
						elkrun.ResetRuntime()
						r.Eval(1)
						where := fmt.Sprintf("form=nested-narrowing-chain depth=%d probe-after-block=%d-of-%d", len(ch), pos, len(ch))
						switch {
						case res.Rejected:
							r.Count("chain_programs_rejected_by_checker", 1)
							continue
						case res.Panic != "":
							r.NT(1)
							r.Violation("go-panic "+where, src+"\n"+res.Panic+"\n"+res.Stack, src)
							continue
						}
						r.NT(1)
						bad := ""
						for _, l := range strings.Split(strings.TrimSpace(res.Stdout), "\n") {
							if l == "none" || l == "" {
								continue
							}
							if !member(l, p.classes) {
								bad = l
							}
						}
						if bad != "" || res.Err != "" {
							r.Violation("static type violated "+where,
								fmt.Sprintf("%s\nthe checker accepted `cprobe_%s(a)` (parameter type %s) but a value of class %s reached it (stdout %q, error %s)", src, p.name, p.typ, bad, res.Stdout, res.Err), src)
						} else {
							r.Outcome("chain: probe admitted the value")
						}
					}
				}
			}
		})
	}
}
