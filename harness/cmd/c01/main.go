// C01 — programs the type checker accepts never crash the interpreter.
// Bounded-exhaustive enumeration of three program families on the real checker + VM in worker processes
// with a crash journal: (A) binding kind x execution context x use, (B) every single-threaded misuse
// sequence of the sync primitives up to a length bound (restricted by a small blocking model to sequences
// that cannot block), (C) one minimal program per crash found so far by any check (regression corpus).
// Oracle: the outcome is a value or an Elk error — never a Go panic, a Go fatal error or a dead worker.
package main

import (
	"fmt"
	"strings"

	"verifharness/elkrun"
	"verifharness/engine"
)

// ---------------------------------------------------------------- family A
var binds = []struct{ name, code string }{
	{"literal", "x := 5"},
	{"method-call", "x := leaf01(4)"},
	{"closure-call", "fcl := |a: Int|: Int -> a + 1\n  x := fcl.(4)"},
	{"native-call", "x := [1, 2, 3, 4, 5].length"},
	{"nilable-must", "var y: Int? = leaf01(4)\n  x := must y"},
	{"branch-value", "x := if leaf01(1) > 1 then 5 else 6"},
}

var uses = []struct{ name, expr string }{
	{"arith", "x + 1"},
	{"interp", "\"v#{x}\".length"},
	{"to-string", "x.to_string.length"},
	{"direct", "x"},
	{"compare", "if x > 2 then 1 else 0"},
	{"index", "try [10, 20, 30, 40, 50, 60, 70][x]"},
}

var contexts = []string{"top", "method", "closure", "generator", "async", "async-nested", "go-thread", "method-with-defer", "do-finally"}

func familyA(ctx string, b, u int, uid string) string {
	bind, use := binds[b].code, uses[u].expr
	var s strings.Builder
	fmt.Fprintf(&s, "def leaf01(n: Int): Int then n + 1\n")
	switch ctx {
	case "top":
		fmt.Fprintf(&s, "%s\nr := %s\nprintln(r.inspect)\n", strings.ReplaceAll(bind, "\n  ", "\n"), use)
	case "method":
		fmt.Fprintf(&s, "def m%s(k: Int): Int\n  %s\n  %s\nend\nprintln(m%s(1).inspect)\n", uid, bind, use, uid)
	case "method-with-defer":
		fmt.Fprintf(&s, "def m%s(k: Int): Int\n  defer println(\"d\")\n  %s\n  %s\nend\nprintln(m%s(1).inspect)\n", uid, bind, use, uid)
	case "do-finally":
		fmt.Fprintf(&s, "def m%s(k: Int): Int\n  do\n    %s\n    return %s\n  finally\n    println(\"f\")\n  end\n  0\nend\nprintln(m%s(1).inspect)\n", uid, strings.ReplaceAll(bind, "\n  ", "\n    "), use, uid)
	case "closure":
		fmt.Fprintf(&s, "c%s := |k: Int|: Int ->\n  %s\n  %s\nend\nprintln(c%s.(1).inspect)\n", uid, bind, use, uid)
	case "generator":
		fmt.Fprintf(&s, "def *g%s(k: Int): Int\n  %s\n  yield %s\n  0\nend\nfor v in g%s(1)\n  println(v.inspect)\nend\n", uid, bind, use, uid)
	case "async":
		fmt.Fprintf(&s, "async def a%s(k: Int): Int\n  %s\n  %s\nend\nprintln(a%s(1).await_sync.inspect)\n", uid, bind, use, uid)
	case "async-nested":
		fmt.Fprintf(&s, "async def a%s(k: Int): Int\n  %s\n  %s\nend\nasync def o%s(k: Int): Int\n  v := await a%s(k)\n  v\nend\nprintln(o%s(1).await_sync.inspect)\n", uid, bind, use, uid, uid, uid)
	case "go-thread":
		fmt.Fprintf(&s, "using Std::Sync::WaitGroup\nch%s := Channel::[Int](1)\nwg%s := WaitGroup(1)\ngo\n  %s\n  ch%s << (%s)\n  wg%s.end\nend\nwg%s.wait\nprintln((try ch%s.pop).inspect)\n", uid, uid, bind, uid, use, uid, uid, uid)
	}
	return s.String()
}

// ---------------------------------------------------------------- family B
type prim struct {
	name, decl string
	ops        []string
}

var prims = []prim{
	{"Mutex", "using Std::Sync::Mutex\no := Mutex()", []string{"lock", "unlock"}},
	{"RWMutex", "using Std::Sync::RWMutex\no := RWMutex()", []string{"lock", "unlock", "read_lock", "read_unlock"}},
	{"WaitGroup", "using Std::Sync::WaitGroup\no := WaitGroup(0)", []string{"start", "end", "add(2)", "remove(1)", "wait"}},
	{"Once", "using Std::Sync::Once\no := Once()", []string{"call"}},
	{"Channel0", "o := Channel::[Int](0)", []string{"push", "pop", "close", "length"}},
	{"Channel1", "o := Channel::[Int](1)", []string{"push", "pop", "close", "length"}},
	// the same channel reached through its write-only / read-only views as well
	{"ChannelViews1", "o := Channel::[Int](1)\nw := o.writeonly\nr := o.readonly", []string{"push", "pop", "close", "w.push", "w.close", "r.pop"}},
}

// blocks reports whether op would block forever in the model state; it updates the state otherwise.
type pstate struct {
	locked  bool
	readers int
	counter int
	closed  bool
	length  int
	capac   int
	broken  bool // after an error the native object may be in any state: stop modelling, only non-blocking ops follow
}

func step(p string, st *pstate, op string) (blocks bool) {
	switch p {
	case "Mutex":
		if op == "lock" {
			if st.locked {
				return true
			}
			st.locked = true
		} else if st.locked {
			st.locked = false
		}
	case "RWMutex":
		switch op {
		case "lock":
			if st.locked || st.readers > 0 {
				return true
			}
			st.locked = true
		case "unlock":
			if st.locked {
				st.locked = false
			}
		case "read_lock":
			if st.locked {
				return true
			}
			st.readers++
		case "read_unlock":
			if st.readers > 0 {
				st.readers--
			}
		}
	case "WaitGroup":
		switch op {
		case "start":
			st.counter++
		case "add(2)":
			st.counter += 2
		case "end", "remove(1)":
			if st.counter <= 0 {
				st.broken = true // negative counter: error; the counter stays negative
			}
			st.counter--
		case "wait":
			if st.counter != 0 {
				return true // > 0 blocks; < 0 is unspecified
			}
		}
	case "Channel0", "Channel1", "ChannelViews1":
		switch strings.TrimPrefix(strings.TrimPrefix(op, "w."), "r.") {
		case "push":
			if !st.closed {
				if st.length >= st.capac {
					return true
				}
				st.length++
			}
		case "pop":
			if st.length > 0 {
				st.length--
			} else if !st.closed {
				return true
			}
		case "close":
			st.closed = true
		}
	}
	return false
}

func opCode(p, op string, i int) string {
	recv := "o"
	if strings.HasPrefix(op, "w.") || strings.HasPrefix(op, "r.") {
		recv, op = op[:1], op[2:]
	}
	switch {
	case p == "Once":
		return fmt.Sprintf("do\n  o.call() -> println(\"once-body\")\n  println(\"%d ok\")\ncatch e\n  println(\"%d err\")\nend\n", i, i)
	case strings.HasPrefix(p, "Channel") && op == "push":
		return fmt.Sprintf("do\n  %s << %d\n  println(\"%d ok\")\ncatch e\n  println(\"%d err\")\nend\n", recv, i, i, i)
	case strings.HasPrefix(p, "Channel") && op == "pop":
		return fmt.Sprintf("do\n  v%d := %s.pop\n  println(\"%d ok\")\ncatch e\n  println(\"%d err\")\nend\n", i, recv, i, i)
	case strings.HasPrefix(p, "Channel") && op == "length":
		return fmt.Sprintf("println(\"%d len \" + o.length.to_string)\n", i)
	}
	return fmt.Sprintf("do\n  %s.%s\n  println(\"%d ok\")\ncatch e\n  println(\"%d err\")\nend\n", recv, op, i, i)
}

func sequences(p prim, maxLen int) [][]string {
	var out [][]string
	var rec func(prefix []string, st pstate)
	rec = func(prefix []string, st pstate) {
		if len(prefix) > 0 {
			out = append(out, append([]string{}, prefix...))
		}
		if len(prefix) == maxLen {
			return
		}
		for _, op := range p.ops {
			st2 := st
			if step(p.name, &st2, op) {
				continue // would block forever: not part of the space
			}
			rec(append(prefix, op), st2)
		}
	}
	st := pstate{}
	if p.name == "Channel1" || p.name == "ChannelViews1" {
		st.capac = 1
	}
	rec(nil, st)
	return out
}

// ---------------------------------------------------------------- family C: regression corpus of crashes found by the checks
var corpus = []struct{ name, src string }{
	{"shift-by-64", "def s(a: Int, b: Int): Int then a << b\nprintln(s(1, 64).inspect)\nprintln((1 << 65).inspect)\n"},
	{"typed-float-eq", "def feq(a: Float, b: Float): bool then a == b\nprintln(feq(1.5, 1.5).inspect)\n"},
	{"defer-with-params", "def fdp(n: Int): Int\n  defer println(\"d\")\n  n\nend\nprintln(fdp(5).inspect)\n"},
	{"generator-tail-call", "def lf(x: Int): Int then x + 1\ndef *gt(n: Int): Int\n  lf(lf(n))\nend\nfor v in gt(2)\n  println(v)\nend\n"},
	{"mutex-unlock", "using Std::Sync::Mutex\nm := Mutex()\ndo\n  m.unlock\ncatch e\n  println(\"err\")\nend\n"},
	{"await-catch", "async def ab: Int ! :boom\n  throw :boom\nend\nv := do\n  ab().await_sync\ncatch :boom\n  -5\nend\nprintln(v.inspect)\n"},
	{"caller-before-callee", "def cbc(n: Int): Int\n  x := cee(n)\n  y := cee2(x)\n  x + y\nend\ndef cee(n: Int): Int then n + 1\ndef cee2(n: Int): Int then n * 2\nprintln(cbc(3))\n"},
	{"fixed-width-shift-min", "def sh8(a: Int8, b: Int8): Int8 then a << b\nprintln(sh8(1i8, -127i8 - 1i8).inspect)\n"},
	{"range-eq-nonref", "def req(a: ClosedRange[Int], b: Int | ClosedRange[Int]): bool then a == b\nprintln(req(1...3, 1).inspect)\n"},
	{"laxeq-method", "def lq(a: String, b: Int): bool then a.=~(b)\nprintln(lq(\"a\", 1).inspect)\n"},
	{"waitgroup-negative", "using Std::Sync::WaitGroup\nw := WaitGroup(0)\ndo\n  w.end\ncatch e\n  println(\"err\")\nend\n"},
	{"hash-literal-range-key", "h := { (1...5) => 1 }\nprintln(h.length.inspect)\n"},
	{"return-if-then-pooled-call", "def rip01(a: Int)\n  Kernel.println(\"one\")\n  Kernel.println(\"two\")\n  Kernel.println(\"three\")\n  return if a > 5\n  Kernel.println(\"four\")\nend\nrip01(1)\nrip01(7)\nprintln(\"done\")\n"},
	{"two-awaits-in-one-expression", "async def af01(a: Int): Int then a + 1\nasync def ag01(a: Int): Int\n  return (await af01(a)) + (await af01(1))\nend\nprintln(ag01(3).await_sync.inspect)\n"},
	{"closure-reading-ivar-in-method", "class Foo01\n  attr n: Int\n  init(k: Int)\n    @n = k\n  end\n  def twice(a: Int): Int\n    f := -> @n * 2\n    f.() + a\n  end\nend\nprintln(Foo01(4).twice(1).inspect)\n"},
	{"generator-yield-inside-for-in-over-generator", "def *g01(a: Int): Int\n  yield 1\n  2\nend\ndef *h01(a: Int): Int\n  for e in g01(a)\n    yield e * 2\n  end\n  1\nend\nfor e in h01(2)\n  println(e)\nend\n"},
	{"neg-min-small-int", "def ng(a: Int): Int then -a\nprintln(ng(-9223372036854775807 - 1).inspect)\n"},
}

// ---------------------------------------------------------------- family D: mutation of a collection while it is iterated
// Every (collection kind, iteration form, step at which the mutation happens, mutation sequence): the iteration
// continues after the mutation until it stops by itself (or 12 more steps). Any Elk-level outcome is accepted; a
// Go panic / fatal error is the violation (iterators keep an index/cursor into storage the mutation changes).
type collD struct {
	name, ctor, elem string // elem: an element expression of the collection's element type
	muts []string
}

var listMuts = []string{"c.clear", "c.pop", "c.pop\nc.pop", "c.pop\nc.pop\nc.pop", "c.remove_at(0)", "c.remove_at(0)\nc.remove_at(0)", "c.remove_at(-1)",
	"c.remove(%E)", "c << %E", "c.push(%E)", "c.append(%E, %E, %E, %E, %E, %E, %E, %E, %E)", "c[0] = %E", "c.grow(64)", "c.clear\nc << %E", "c.pop\nc << %E"}

var collsD = []collD{
	{"list-int", "[1, 2, 3, 4, 5]", "9", listMuts},
	{"list-string", `["a", "b", "c", "d", "e"]`, `"z"`, listMuts},
	{"list-float", "[1.5, 2.5, 3.5, 4.5, 5.5]", "9.5", listMuts},
	{"list-uint8", "[1u8, 2u8, 3u8, 4u8, 5u8]", "9u8", listMuts},
	{"list-mixed", `[1, "b", 3.5, :d, nil]`, "9", listMuts},
	{"list-one", "[1]", "9", listMuts},
	// HashSet#clear is declared but has no native implementation (known finding of C28): not used here
	{"set-int", "^[1, 2, 3, 4, 5]", "9", []string{"c.remove(1)", "c.remove(5)", "c.remove(1)\nc.remove(2)\nc.remove(3)", "c << %E", "c.push(%E)", "c.append(10, 11, 12, 13, 14, 15, 16, 17, 18, 19, 20, 21)", "c.remove(1)\nc.remove(2)\nc.remove(3)\nc.remove(4)\nc.remove(5)"}},
	{"set-string", `^["a", "b", "c"]`, `"z"`, []string{`c.remove("a")`, `c.remove("a")` + "\n" + `c.remove("b")` + "\n" + `c.remove("c")`, "c << %E", `c.append("p", "q", "r", "s", "t", "u", "v", "w", "x", "y")`}},
	{"map-int", "{ 1 => 1, 2 => 2, 3 => 3, 4 => 4, 5 => 5 }", "9", []string{"c[9] = 9", "c[1] = 7", "j := 10\nwhile j < 40\n  c[j] = j\n  j += 1\nend"}},
}

var formsD = []string{"for-in", "iter-next"}

func familyD(cl collD, form string, step int, mut string, id string) string {
	mut = strings.ReplaceAll(mut, "%E", cl.elem)
	var s strings.Builder
	fmt.Fprintf(&s, "def d%s: Int\n  c := %s\n  k := 0\n", id, cl.ctor)
	body := "    k += 1\n    if k == " + fmt.Sprint(step) + "\n      " + strings.ReplaceAll(mut, "\n", "\n      ") + "\n    end\n    break if k > " + fmt.Sprint(step+12) + "\n"
	switch form {
	case "for-in":
		fmt.Fprintf(&s, "  for x in c\n%s  end\n", body)
	case "iter-next":
		fmt.Fprintf(&s, "  it := c.iter\n  do\n    loop\n      x := it.next\n  %s    end\n  catch :stop_iteration\n  end\n", strings.ReplaceAll(body, "\n    ", "\n      "))
	}
	fmt.Fprintf(&s, "  k + c.length\nend\nprintln(d%s().inspect)\n", id)
	return s.String()
}

func run(r *engine.R, sig, src string, opts *elkrun.Options) {
	res := elkrun.Run(src, opts)
	elkrun.ResetRuntime()
	r.Eval(1)
	switch {
	case res.Panic != "":
		r.Outcome("GOPANIC")
		r.Violation("go-panic "+sig+" "+res.PanicSig, src+"\n"+res.Stack, src)
	case res.Rejected:
		r.Outcome("rejected")
		r.Count("rejected_by_checker", 1)
	case res.Err != "":
		r.NT(1)
		r.Outcome("elk-error " + res.ErrClass)
	default:
		r.NT(1)
		r.Outcome("value")
	}
}

func main() {
	seq := 0
	engine.Main(&engine.Spec{
		Prop:  "C01",
		Level: "exploration",
		Rule: "(A) every combination of 6 binding kinds x 9 execution contexts (top level, method, method with defer, do-finally, closure, generator, async, nested async, go thread) x 6 uses of the bound local; (B) every misuse sequence of length <= 3 (thorough 5) over the operations of Mutex, RWMutex, WaitGroup, Once, Channel(0), Channel(1) and Channel(1) together with its write-only and read-only views on one object from one thread that a blocking model says cannot block; (C) one minimal program per crash found so far by any check; (D) every (collection kind of 9: generic/unboxed lists, sets, map; iteration form for-in / explicit iterator; step 1..5 at which the collection is mutated; mutation sequence of up to 15 per kind: clear, pops, removals, pushes, growth, replacement) with the iteration continued after the mutation; " +
			"oracle: the run ends with a value or an Elk error, never a Go panic/fatal/dead worker (the engine attributes a worker death to the running case); non-trivial = accepted programs (enumerated without repetition). Every other check also reports host crashes of its own program spaces.",
		Assume: []string{"stack-limit exhaustion is excluded by construction (no unbounded recursion)", "the narrowing/invalidation family is enumerated by C02, std-library calls by C28, multi-threaded use of the primitives by C25"},
		Setup:  func(c *engine.Ctx) { elkrun.Init() },
		Run: func(c *engine.Ctx) {
			for _, ctx := range contexts {
				for b := range binds {
					ctx, b := ctx, b
					c.Case(fmt.Sprintf("A/%s/%s", ctx, binds[b].name), func(r *engine.R) {
						for u := range uses {
							seq++
							src := familyA(ctx, b, u, fmt.Sprintf("01_%d", seq))
							var opts *elkrun.Options
							if strings.HasPrefix(ctx, "async") {
								opts = &elkrun.Options{PoolN: 2, PoolQ: 8}
							}
							run(r, fmt.Sprintf("ctx=%s bind=%s use=%s", ctx, binds[b].name, uses[u].name), src, opts)
						}
						r.Sample(familyA(ctx, b, 0, "S"))
					})
				}
			}
			maxLen := 3
			if c.Thorough {
				maxLen = 5
			}
			for _, p := range prims {
				seqs := sequences(p, maxLen)
				const block = 12
				for lo := 0; lo < len(seqs); lo += block {
					p, part := p, seqs[lo:min(lo+block, len(seqs))]
					c.Case(fmt.Sprintf("B/%s/%d", p.name, lo), func(r *engine.R) {
						for _, sq := range part {
							var s strings.Builder
							s.WriteString(p.decl + "\n")
							for i, op := range sq {
								s.WriteString(opCode(p.name, op, i))
							}
							run(r, "misuse prim="+p.name+" seq="+strings.Join(sq, ","), s.String(), nil)
						}
						r.Sample(p.name + ": " + strings.Join(part[len(part)-1], ", "))
					})
				}
			}
			for _, cl := range collsD {
				for _, form := range formsD {
					cl, form := cl, form
					c.Case(fmt.Sprintf("D/%s/%s", cl.name, form), func(r *engine.R) {
						for step := 1; step <= 5; step++ {
							for mi, mut := range cl.muts {
								seq++
								src := familyD(cl, form, step, mut, fmt.Sprintf("01_%d", seq))
								run(r, fmt.Sprintf("iteration=%s coll=%s mutation=%d", form, cl.name, mi), src, nil)
							}
						}
					})
				}
			}
			for _, k := range corpus {
				k := k
				c.Case("C/"+k.name, func(r *engine.R) {
					var opts *elkrun.Options
					if strings.Contains(k.src, "async") {
						opts = &elkrun.Options{PoolN: 2, PoolQ: 8}
					}
					run(r, "corpus="+k.name, k.src, opts)
				})
			}
		},
	})
}
